(* C16: extraction of the stream stage machines (StreamDefs.v) for the correspondence run. *)
Require Extraction.
Require Import ExtrOcamlBasic.
From Gatery Require Import StreamDefs StreamRs.
Extraction "c16_model.ml" runChain chainOf matchD rsRun.
