(* C13 extraction: allocator model + file checker. ExtrOcamlBasic only. *)
Require Extraction.
Require Import ExtrOcamlBasic.
From Gatery Require Import NamesDefs VhdlLexDefs.
Extraction "c13_model.ml" init_state step run legal_basic_ident lower
  lex decl_sites check_design check_design_tokens ident_ok events_ok kw_name sym_name.
