From Gatery Require Import Bits NodeSemDefs NodeSemReg NetDefs ProductCert MemDefs MachineCert NetMemDefs.
Require Extraction. Require Import ExtrOcamlBasic.
Extraction "nm_model.ml" machine_of mtopo_ok gobs gnext g_init gcheck_cert all_ins mcomb_eval moutputs mapply_events mpower_on.
