(* C04 extraction: ExtrOcamlBasic only, numbers stay the extracted inductives (exact rationals:
   Q = { qnum : z; qden : positive }, no floats anywhere). *)
Require Extraction.
Require Import ExtrOcamlBasic.
From Gatery Require Import Bits SchedDefs.
Extraction "c04_model.ml"
  simulate sched_run sched_init alloc_summary reset_pins reset_hold_time clock_pins resolve_clocks scope_enable.
