(* Extraction of the node-level model for the C03 / C08 correspondence runs. *)
Require Extraction.
Require Import ExtrOcamlBasic.
From Gatery Require Import Bits NodeSemDefs NodeSemReg.
Extraction "c03_model.ml" eval out_widths reg_init reg_poweron reg_reset reg_latch reg_advance.
