(* C20 extraction: ExtrOcamlBasic only; nat/N/Z/positive/Q/string/ascii stay the extracted inductives. *)
Require Extraction.
Require Import ExtrOcamlBasic.
From Gatery Require Import Bits VcdDefs TvDefs.
Extraction "c20_model.ml"
  declare write_body print_line parse_line body_of read_sig parse_var ident tick viewv
  tv_file tv_stream tv_lines tv_parse tv_schedule tv_rst_level rst_asserted.
