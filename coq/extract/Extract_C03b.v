(* Extraction of the frontend-operator model (C03 layer b) for the correspondence run. *)
Require Extraction.
Require Import ExtrOcamlBasic.
From Gatery Require Import Bits NodeSemDefs FrontendOpsDefs.
Extraction "c03b_model.ml" fe_apply.
