From Gatery Require Import Bits FrontendDefs.
Require Extraction. Require Import ExtrOcamlBasic.
Extraction "c05_model.ml" run_prog elab_prog eval_all sig_values getv guard_true mk_if block_of.
