From Gatery Require Import Bits FrontendDefs FrontendDefaultDefs.
Require Extraction. Require Import ExtrOcamlBasic.
Extraction "c05_model.ml" run_prog elab_prog eval_all sig_values getv guard_true mk_if block_of
  fin_prog resolve_all resolved_rho all_loopy.
