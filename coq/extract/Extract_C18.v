(* C18: extraction of the word-level container model (ExtrOcamlBasic only). *)
Require Extraction.
Require Import ExtrOcamlBasic.
From Gatery Require Import BvsDefs BvsSpec.
Extraction "c18_model.ml" step mk_empty parseBitVector printState formatState formatRange ops_ok
  asData parseBitVectorValue createDefaultValue createDefaultData parseBitChar parseBitBool
  convertToExtended tryConvertToDefault bitwiseNegation clearAll.
