(* C07: extraction of the memory-port model and the array specification (MemDefs.v) for the
   correspondence run. *)
Require Extraction.
Require Import ExtrOcamlBasic.
From Gatery Require Import Bits MemDefs.
Extraction "c07_model.ml" port_step ps_init mem_commit tspec_step arr_of arr_upd pipe_out pipe_step pipe_step_en
  all_X bv_of_N addr_val all_def cycle run spec_ports.
