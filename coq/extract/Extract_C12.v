(* Extraction of the C12 model: the fixpoint checker, the flag rule, the transcribed worklist,
   and the executable specification.  ExtrOcamlBasic only. *)
Require Extraction.
Require Import ExtrOcamlBasic.
From Gatery Require Import CdcDefs.

Extraction "c12_model.ml"
  domains_ok out_ok flagged node_ok infer_real infer_state choose_min wf
  infl_sets infl_fix infl_closed has_crossing_b site_b
  pin_source clocks_ok sinks_clocked relation all_outputs input_clocks
  pm_empty pm_set pm_get pm_list
  mkNetlist mkNode mkClock.
