(* C15: extraction of the FIFO control machine (FifoDefs.v) for the correspondence run. *)
Require Extraction.
Require Import ExtrOcamlBasic.
From Gatery Require Import FifoDefs FifoTxDefs FifoStrmDefs.
Extraction "c15_model.ml" init step observe gray_enc gray_dec tinit tstep tobserve strm_out strm_step.
