From Gatery Require Import Bits NodeSemDefs NodeSemReg NetDefs ProductCert.
Require Extraction. Require Import ExtrOcamlBasic.
Extraction "net_model.ml" comb_eval outputs apply_events power_on topo_ok obs pnext p_init check_cert all_ins vals_def ins_def pstate_eqb nregs.
