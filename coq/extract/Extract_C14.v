From Gatery Require Import Bits ConjDefs.
Require Extraction. Require Import ExtrOcamlBasic.
Extraction "c14_model.ml" parse isEqualTo isNegationOf isSubsetOf cannotBothBeTrue build intersectTermsWith removeTerms removeTerms_pre wf.
