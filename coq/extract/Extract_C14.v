From Gatery Require Import Bits ConjDefs.
Require Extraction. Require Import ExtrOcamlBasic.
Extraction "c14_model.ml" parse conj_same isEqualTo isNegationOf isSubsetOf cannotBothBeTrue build intersectTermsWith removeTerms removeTerms_pre wf.
