(* Extraction of the C09 model: the graph operations (T1 replay) and the verified checker (T2).
   ExtrOcamlBasic only. *)
Require Extraction.
Require Import ExtrOcamlBasic.
From Gatery Require Import WfDefs.

Extraction "c09_model.ml"
  empty_graph step exec op_pre op_struct_pre run
  wf_check inv_check grouped_check
  ids_check edges_fwd_check edges_bwd_check groups_fwd_check groups_bwd_check parents_check
  clocks_fwd_check clocks_bwd_check types_check node_okb
  kind_req mkGraph mkNode mkOut mkGroup mkCt
  drv cons otype grp_of members clk_of clocked
  wfd_check invd_check drivers_check drivers_fwd_check drivers_bwd_check clkdrv rstdrv role_of keys_eqb.
