(* C19 extraction: ExtrOcamlBasic only, numbers stay the extracted inductives (exact rationals:
   Q = { qnum : z; qden : positive }, no floats anywhere). *)
Require Extraction.
Require Import ExtrOcamlBasic.
From Gatery Require Import SimProcDefs.
Extraction "c19_model.ml" simulate ev_less q_insert.
