(* C17 extraction: ExtrOcamlBasic only, numbers stay the extracted inductives. *)
Require Extraction.
Require Import ExtrOcamlBasic.
From Gatery Require Import SclMathDefs SclMathModel.
Extraction "c17_model.ml"
  m_bitcount m_decoder m_encoder m_prienc m_petree m_petree_reg m_clz m_thermo m_thermow
  m_unthermo m_grayenc m_graydec m_bpo2 m_ldivp m_addcs m_csa
  prienc_width petree_width encoder_width
  umin umax smin smax ldiv sldiv_gen addc
  crc crc_state_run crc_preset
  counter_cfg_end counter_cfg_w counter_cfg_dyn counter_run updown_run
  counter_never counter_use_in adder_run crc_state_run_mixed.
