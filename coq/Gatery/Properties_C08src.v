(* Property C08, source-regenerated part: theorems about gen/LogicSrc.v, which
   translate/C08_logicplanes.py rewrites from source/gatery/hlim/coreNodes/Node_Logic.cpp on every
   run of checks/C08.py (fail closed: if the source no longer has the understood shape the file is
   removed and this file does not compile).  Kept apart from Properties_C08.v so that a change
   of Node_Logic.cpp cannot hide the verdict on the other theorems. *)
From Coq Require Import Bool List.
From Gatery Require Import Bits NodeSemDefs LogicSrcProofs.
From Gatery.gen Require Import LogicSrc.

(* the per-bit result of the SOURCE formulas, read as a 4-state value, is the model's logic_bit
   of the 4-state operand bits: in particular it does not depend on the VALUE-plane content
   underneath an undefined operand bit *)
Theorem C08_src_logic_hidden_independent : forall op l ld r rd,
  planes_bit (src_logic_planes op l ld r rd) = logic_bit op (of_planes l ld) (of_planes r rd).
Proof. exact src_logic_planes_hidden_independent_proof. Qed.
Print Assumptions C08_src_logic_hidden_independent.

(* the hand transcription logic_planes (used by all node-level theorems of C03 / C08) equals the
   source formulas on both planes *)
Theorem C08_src_logic_is_model : forall op l ld r rd,
  src_logic_planes op l ld r rd = logic_planes op l ld r rd.
Proof. exact src_logic_planes_is_model_proof. Qed.
Print Assumptions C08_src_logic_is_model.

(* the dominance rules, stated on the source formulas *)
Theorem C08_src_logic_dominance : forall l r rd,
  planes_bit (src_logic_planes L_AND false true r rd) = B0 /\
  planes_bit (src_logic_planes L_AND l false true true) = BX /\
  planes_bit (src_logic_planes L_OR true true r rd) = B1 /\
  planes_bit (src_logic_planes L_OR l false false true) = BX /\
  planes_bit (src_logic_planes L_XOR l false r rd) = BX.
Proof. exact src_logic_dominance_proof. Qed.
Print Assumptions C08_src_logic_dominance.
