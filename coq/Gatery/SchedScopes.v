(* C04 -- the register ENABLE derived from nested ENIF / IF / ELSE / ENALWAYS scopes is the
   (four-state) conjunction of the enclosing enable-contributing conditions, however the nesting
   accumulates it. *)
From Coq Require Import QArith Lia.
Require Import Gatery.Bits.
Require Import Gatery.SchedDefs.
Import ListNotations.
Local Close Scope Q_scope.

Lemma and3_comm a b : and3 a b = and3 b a.  Proof. destruct a, b; reflexivity. Qed.
Lemma and3_assoc a b c : and3 a (and3 b c) = and3 (and3 a b) c.  Proof. destruct a, b, c; reflexivity. Qed.
Lemma and3_idem a : and3 a a = a.  Proof. destruct a; reflexivity. Qed.
Lemma and3_1_r a : and3 a B1 = a.  Proof. destruct a; reflexivity. Qed.
Lemma and3_1_l a : and3 B1 a = a.  Proof. destruct a; reflexivity. Qed.
Lemma and3_0_l a : and3 B0 a = B0.  Proof. destruct a; reflexivity. Qed.

Arguments and3 : simpl never.
Arguments not3 : simpl never.

(* flat conjunction *)
Fixpoint conj3 (l : list tbit) : tbit := match l with [] => B1 | x :: t => and3 x (conj3 t) end.

Lemma conj3_app a b : conj3 (a ++ b) = and3 (conj3 a) (conj3 b).
Proof. induction a as [|x a IH]; simpl; [rewrite and3_1_l; reflexivity | rewrite IH, and3_assoc; reflexivity]. Qed.

Lemma conj3_absorb x l : In x l -> and3 x (conj3 l) = conj3 l.
Proof.
  induction l as [|y l IH]; simpl; [intros []|]; intros [->|H].
  - rewrite and3_assoc, and3_idem. reflexivity.
  - rewrite and3_assoc, (and3_comm x y), <- and3_assoc, IH by exact H. reflexivity.
Qed.

Lemma conj3_absorb_list a b : incl a b -> and3 (conj3 a) (conj3 b) = conj3 b.
Proof.
  induction a as [|x a IH]; simpl; intro H; [apply and3_1_l|].
  rewrite <- and3_assoc, IH; [apply conj3_absorb, H; left; reflexivity|].
  intros y Hy. apply H. right. exact Hy.
Qed.

(* a register loads only if every contributing condition is 1, and holds as soon as one is a defined 0 *)
Lemma and3_eq_1 a b : and3 a b = B1 -> a = B1 /\ b = B1.
Proof. destruct a, b; cbv; intro H; split; congruence. Qed.

Lemma conj3_1 l : conj3 l = B1 <-> forall x, In x l -> x = B1.
Proof.
  induction l as [|y l IH]; simpl; [split; [intros _ x [] | reflexivity]|].
  split.
  - intros H x Hx. apply and3_eq_1 in H. destruct H as [Hy Hl].
    destruct Hx as [<-|Hx]; [exact Hy | apply IH; assumption].
  - intro H. rewrite (H y (or_introl eq_refl)), and3_1_l. apply IH. intros x Hx. apply H. right; exact Hx.
Qed.
Lemma conj3_0 l : In B0 l -> conj3 l = B0.
Proof. intro H. rewrite <- (conj3_absorb B0 l H). apply and3_0_l. Qed.

Definition opt_val (o : option tbit) : tbit := match o with Some v => v | None => B1 end.

Lemma and_parent_val own p : and_parent own p = and3 own (opt_val p).
Proof. destruct p; simpl; [reflexivity | symmetry; apply and3_1_r]. Qed.

(* the literal a scope contributes *)
Definition lit (s : scope) : list tbit :=
  match s with SC_EN c | SC_IF c => [c] | SC_ELSE c => [not3 c] | SC_ALWAYS => [] end.
Definition cond_lit (s : scope) : list tbit :=
  match s with SC_IF c => [c] | SC_ELSE c => [not3 c] | _ => [] end.

(* which conditions contribute, as lists (innermost first): (to the enable, to the IF-condition).
   ENALWAYS forgets the accumulated enable; an IF / ELSE hands its whole accumulated condition to its enable scope *)
Definition contrib_step (st : list tbit * list tbit) (s : scope) : list tbit * list tbit :=
  let (el, cl) := st in
  match s with
  | SC_EN c => (c :: el, cl)
  | SC_ALWAYS => ([], cl)
  | SC_IF c => ((c :: cl) ++ el, c :: cl)
  | SC_ELSE c => ((not3 c :: cl) ++ el, not3 c :: cl)
  end.
Definition contrib (stack : list scope) : list tbit := fst (fold_left contrib_step stack ([], [])).

Lemma scope_fold_inv stack : forall st ls,
  opt_val (fst st) = conj3 (fst ls) -> opt_val (snd st) = conj3 (snd ls) ->
  opt_val (fst (fold_left scope_step stack st)) = conj3 (fst (fold_left contrib_step stack ls)) /\
  opt_val (snd (fold_left scope_step stack st)) = conj3 (snd (fold_left contrib_step stack ls)).
Proof.
  induction stack as [|s stack IH]; intros [en cond] [el cl] H1 H2; simpl in *; [auto|].
  apply IH; destruct s; simpl; rewrite ?and_parent_val, ?H1, ?H2; auto.
  - rewrite conj3_app. simpl. symmetry. apply and3_assoc.
  - rewrite conj3_app. simpl. symmetry. apply and3_assoc.
Qed.

(* the nested accumulation (own AND parent's full, level by level) computes the flat conjunction *)
Theorem scope_enable_conj stack : opt_val (scope_enable stack) = conj3 (contrib stack).
Proof. unfold scope_enable, contrib. apply (scope_fold_inv stack (None, None) ([], [])); reflexivity. Qed.

(* without ENALWAYS: the conjunction of the conditions of ALL enclosing scopes *)
Definition no_always (stack : list scope) : Prop := ~ In SC_ALWAYS stack.

Lemma contrib_all_inv stack : forall ls all,
  ~ In SC_ALWAYS stack ->
  conj3 (fst ls) = conj3 all -> incl (snd ls) all ->
  conj3 (fst (fold_left contrib_step stack ls)) = conj3 (flat_map lit (rev stack) ++ all).
Proof.
  induction stack as [|s stack IH]; intros [el cl] all Hn H1 H2; simpl in *; [exact H1|].
  assert (Hn' : ~ In SC_ALWAYS stack) by (intro C; apply Hn; right; exact C).
  rewrite flat_map_app. simpl. rewrite app_nil_r, <- app_assoc.
  destruct s; simpl.
  - apply (IH _ (c :: all)); [exact Hn' | simpl; rewrite H1; reflexivity | apply incl_tl; exact H2].
  - exfalso. apply Hn. left. reflexivity.
  - apply (IH _ (c :: all)); [exact Hn' | | ].
    + simpl. rewrite conj3_app, H1, conj3_absorb_list by exact H2. reflexivity.
    + simpl. intros x [<-|Hx]; [left; reflexivity | right; apply H2, Hx].
  - apply (IH _ (not3 c :: all)); [exact Hn' | | ].
    + simpl. rewrite conj3_app, H1, conj3_absorb_list by exact H2. reflexivity.
    + simpl. intros x [<-|Hx]; [left; reflexivity | right; apply H2, Hx].
Qed.

Lemma conj3_perm_rev l : conj3 (rev l) = conj3 l.
Proof.
  induction l as [|x l IH]; simpl; [reflexivity|].
  rewrite conj3_app, IH. simpl. rewrite and3_1_r. apply and3_comm.
Qed.

Lemma flat_map_rev_conj stack : conj3 (flat_map lit (rev stack)) = conj3 (flat_map lit stack).
Proof.
  induction stack as [|s stack IH]; simpl; [reflexivity|].
  rewrite flat_map_app, !conj3_app, IH. simpl. rewrite app_nil_r. apply and3_comm.
Qed.

Theorem scope_enable_all stack :
  no_always stack -> opt_val (scope_enable stack) = conj3 (flat_map lit stack).
Proof.
  intro Hn. rewrite scope_enable_conj. unfold contrib.
  rewrite (contrib_all_inv stack ([], []) [] Hn eq_refl (fun x H => H)).
  rewrite app_nil_r. apply flat_map_rev_conj.
Qed.

(* ... independently of where the stack is split into an outer part (accumulated in the parent scopes) and an
   inner part: outer and inner conjunctions are simply AND-ed *)
Theorem scope_enable_split outer inner :
  no_always (outer ++ inner) ->
  opt_val (scope_enable (outer ++ inner)) = and3 (opt_val (scope_enable outer)) (conj3 (flat_map lit inner)).
Proof.
  intro Hn.
  assert (Ho : no_always outer) by (intro C; apply Hn, in_or_app; left; exact C).
  rewrite (scope_enable_all _ Hn), (scope_enable_all _ Ho), flat_map_app, conj3_app. reflexivity.
Qed.

(* consequences for the register: with every enclosing condition 1 it is enabled, with one enclosing ENIF / IF
   condition a defined 0 (whatever the inner ones are) it holds *)
Corollary scope_enable_holds stack c :
  no_always stack -> In (SC_EN c) stack \/ In (SC_IF c) stack -> c = B0 -> opt_val (scope_enable stack) = B0.
Proof.
  intros Hn Hin ->. rewrite (scope_enable_all _ Hn). apply conj3_0.
  apply in_flat_map. destruct Hin as [H|H]; eexists; (split; [exact H | left; reflexivity]).
Qed.

(* ENIF(a) ENIF(b) ENIF(c): a = 0, b = c = 1 must hold (seed C04_6 loaded) *)
Example scope_ex :
  scope_enable [SC_EN B0; SC_EN B1; SC_EN B1] = Some B0 /\
  scope_enable [SC_EN B0; SC_IF B1; SC_IF B1] = Some B0 /\
  scope_enable [SC_EN B0; SC_ALWAYS; SC_EN B1] = Some B1 /\
  scope_enable [SC_IF B0; SC_ALWAYS; SC_IF B1] = Some B0 /\
  scope_enable [SC_EN BX; SC_ELSE B0; SC_EN B1] = Some BX /\
  scope_enable [] = None.
Proof. vm_compute. repeat split. Qed.
