(* C12 -- Unmarked clock-domain crossings are always rejected, marked ones accepted.
   Statements only; proofs are in CdcCheck.v, CdcSound.v, CdcWorklist.v, CdcSpecExec.v.
   Model and specification: CdcDefs.v.  Non-vacuity: CdcExamples.v. *)
From Coq Require Import List NArith Bool Arith Permutation.
From Gatery Require Import CdcDefs CdcCheck CdcSound CdcWorklist CdcSpecExec CdcExamples.
Import ListNotations.

(* Soundness.  For EVERY map [dom] that satisfies the fixpoint characterisation of what
   inferClockDomains computes: if detectUnguardedCDCCrossings flags no node (the design is accepted)
   then no output is influenced by two domains with different pin sources, and the design contains
   no unmarked crossing of any of the four kinds of [crossing_at]. *)
Theorem cdc_sound : forall n dom,
  wf n = true -> domains_ok n dom = true -> flagged n dom = [] ->
  (forall p s1 s2, influences n s1 p -> influences n s2 p -> same_dom (pin_source n) s1 s2)
  /\ ~ has_crossing n.
Proof. exact cdc_sound_thm. Qed.
Print Assumptions cdc_sound.

Example cdc_sound_hyps_satisfiable :
  wf ex_marked = true /\ domains_ok ex_marked (infer_real ex_marked) = true
  /\ flagged ex_marked (infer_real ex_marked) = [] /\ influences ex_marked (SrcClk 2) (1, 0)%N.
Proof. exact (conj (proj1 ex_wf) (conj (proj1 ex_domains_ok) (conj ex_marked_accepted ex_influence))). Qed.

(* ... in the wording of the property: in an accepted design every register, pin, memory port (any
   node that uses the base rule and owns a clock) is only reached by signals of its own domain, and
   the input of every crossing marker only by signals of the marker's declared source clock. *)
Theorem cdc_sound_register_pin_marker : forall n dom,
  wf n = true -> domains_ok n dom = true -> flagged n dom = [] ->
  (forall v nd c i q s,
      get_node n v = Some nd -> uses_base_check (nkind nd) = true -> own_clock nd = Some c ->
      nth_error (nins nd) i = Some (Some q) -> influences n s q ->
      same_dom (pin_source n) s (SrcClk c))
  /\ (forall v nd q s,
      get_node n v = Some nd -> nkind nd = KCdc ->
      nth_error (nins nd) 0 = Some (Some q) -> influences n s q ->
      exists d ic, s = SrcClk d /\ nth_error (nclocks nd) 0 = Some (Some ic)
                   /\ pin_source n d = pin_source n ic).
Proof. exact cdc_sound_nodes_thm. Qed.
Print Assumptions cdc_sound_register_pin_marker.

(* Completeness.  A design without unmarked crossing (every crossing passes a marker declared for
   exactly that source and destination pin source) is accepted, for every map satisfying the
   characterisation -- on netlists without combinational loops ... *)
Theorem cdc_complete : forall n dom,
  wf n = true -> acyclic n -> domains_ok n dom = true -> ~ has_crossing n -> flagged n dom = [].
Proof. exact complete_acyclic. Qed.
Print Assumptions cdc_complete.

Example cdc_complete_hyps_satisfiable :
  wf ex_marked = true /\ acyclic ex_marked /\ domains_ok ex_marked (infer_real ex_marked) = true
  /\ ~ has_crossing ex_marked.
Proof. exact (conj (proj1 ex_wf) (conj (proj1 ex_acyclic) (conj (proj1 ex_domains_ok) ex_marked_no_crossing))). Qed.

(* ... and on ANY netlist (loops included) for the map the worklist actually computes, in every
   processing order. *)
Theorem cdc_complete_worklist : forall n ch order,
  wf n = true -> Permutation order (all_outputs n) -> ~ has_crossing n ->
  flagged n (infer n ch order) = [].
Proof. exact worklist_complete. Qed.
Print Assumptions cdc_complete_worklist.

(* Order independence.  The transcribed worklist of inferClockDomains (fuel = ports * (ports+1) + 2
   per attemptResolve, proved sufficient) ends in a map satisfying the characterisation for EVERY
   permutation of the initial list of outputs and EVERY choice of the element popped from the
   retry set.  Together with cdc_sound / cdc_complete_worklist the accept / reject verdict does not
   depend on the order. *)
Theorem worklist_reaches_ok : forall n ch order,
  Permutation order (all_outputs n) -> domains_ok n (infer n ch order) = true.
Proof. exact worklist_ok. Qed.
Print Assumptions worklist_reaches_ok.

Example worklist_two_orders :
  Permutation (rev (all_outputs ex_unmarked)) (all_outputs ex_unmarked)
  /\ domains_ok ex_unmarked (infer ex_unmarked (fun l => length l - 1) (rev (all_outputs ex_unmarked))) = true.
Proof. exact ex_other_order. Qed.

(* Every non-constant entry written by the worklist is backed by a real path from a source of that
   domain (so a flagged node of the real run is a real crossing site). *)
Theorem worklist_entries_justified : forall n ch order,
  Permutation order (all_outputs n) ->
  forall p x, In p (all_outputs n) -> infer n ch order p = Some x -> x <> SConst ->
              influences n (src_of_scd x) p.
Proof. exact worklist_justified. Qed.
Print Assumptions worklist_entries_justified.

(* Clocks that share the same physical clock source count as one domain: replacing any clock (of an
   input's domain or of the node's own clock ports) by one with the same pin source never changes
   the verdict of a node's rule. *)
Theorem same_pin_source_one_domain : forall ps nd nd' ins ins',
  nkind nd = nkind nd' ->
  Forall2 (oclk_equiv ps) (nclocks nd) (nclocks nd') ->
  Forall2 (scd_equiv ps) ins ins' ->
  check_valid ps nd ins = check_valid ps nd' ins'.
Proof. exact check_valid_equiv. Qed.
Print Assumptions same_pin_source_one_domain.

Example same_pin_source_example :
  pin_source ex_marked 2 = 0
  /\ check_valid (pin_source ex_marked) (mkNode KReg 9 [] 1 [Some 0]) [SClock 2; SConst; SClock 0] = true
  /\ check_valid (pin_source ex_marked) (mkNode KReg 9 [] 1 [Some 0]) [SClock 1; SConst; SClock 0] = false.
Proof. exact (conj (proj1 ex_pin_source) ex_same_source). Qed.

(* The meaning of the transcribed base rule (BaseNode::checkValidInputClocks): it passes exactly when
   all clocks among the node's own clock and its inputs share one pin source, at most one input is of
   unknown domain, and an unknown input is not combined with any clock. *)
Theorem base_rule_meaning : forall ps nd ins, base_check ps nd ins = true <-> base_ok ps nd ins.
Proof. exact base_check_spec. Qed.
Print Assumptions base_rule_meaning.

(* The executable specification run by the driver on the dumped netlists decides [has_crossing]
   whenever the computed influence sets pass the closedness check (checked at run time). *)
Theorem spec_verdict_is_has_crossing : forall n,
  infl_closed n (infl_sets n) = true ->
  (has_crossing_b n (infl_sets n) = true <-> has_crossing n).
Proof. exact spec_verdict_exact. Qed.
Print Assumptions spec_verdict_is_has_crossing.

Example spec_verdict_examples :
  has_crossing ex_unmarked /\ ~ has_crossing ex_marked
  /\ flagged ex_unmarked (infer_real ex_unmarked) = [3%N].
Proof. exact (conj ex_unmarked_crossing (conj ex_marked_no_crossing ex_unmarked_rejected)). Qed.
