(* C12 -- Unmarked clock-domain crossings are always rejected, marked ones accepted.
   Statements only; proofs are in CdcCheck.v, CdcSound.v, CdcWorklist.v, CdcSpecExec.v.
   Model and specification: CdcDefs.v.  Non-vacuity: CdcExamples.v. *)
From Coq Require Import List NArith Bool Arith Permutation.
From Gatery Require Import CdcDefs CdcClocks CdcCheck CdcSound CdcWorklist CdcSpecExec CdcExamples.
Import ListNotations.

(* Soundness.  For EVERY map [dom] that satisfies the fixpoint characterisation of what
   inferClockDomains computes: if detectUnguardedCDCCrossings flags no node (the design is accepted)
   then no output is influenced by two domains with different pin sources, and the design contains
   no unmarked crossing of any of the four kinds of [crossing_at]. *)
Theorem cdc_sound : forall n dom,
  wf n = true -> domains_ok n dom = true -> flagged n dom = [] ->
  (forall p s1 s2, influences n s1 p -> influences n s2 p -> same_dom (pin_source n) s1 s2)
  /\ ~ has_crossing n.
Proof. exact cdc_sound_thm. Qed.
Print Assumptions cdc_sound.

Example cdc_sound_hyps_satisfiable :
  wf ex_marked = true /\ domains_ok ex_marked (infer_real ex_marked) = true
  /\ flagged ex_marked (infer_real ex_marked) = [] /\ influences ex_marked (SrcClk 2) (1, 0)%N.
Proof. exact (conj (proj1 ex_wf) (conj (proj1 ex_domains_ok) (conj ex_marked_accepted ex_influence))). Qed.

(* ... in the wording of the property: in an accepted design every register, pin, memory port (any
   node that uses the base rule and owns a clock) is only reached by signals of its own domain, and
   the input of every crossing marker only by signals of the marker's declared source clock. *)
Theorem cdc_sound_register_pin_marker : forall n dom,
  wf n = true -> domains_ok n dom = true -> flagged n dom = [] ->
  (forall v nd c i q s,
      get_node n v = Some nd -> uses_base_check (nkind nd) = true -> own_clock nd = Some c ->
      nth_error (nins nd) i = Some (Some q) -> influences n s q ->
      same_dom (pin_source n) s (SrcClk c))
  /\ (forall v nd q s,
      get_node n v = Some nd -> nkind nd = KCdc ->
      nth_error (nins nd) 0 = Some (Some q) -> influences n s q ->
      exists d ic, s = SrcClk d /\ nth_error (nclocks nd) 0 = Some (Some ic)
                   /\ pin_source n d = pin_source n ic).
Proof. exact cdc_sound_nodes_thm. Qed.
Print Assumptions cdc_sound_register_pin_marker.

(* Completeness.  A design without unmarked crossing (every crossing passes a marker declared for
   exactly that source and destination pin source) is accepted, for every map satisfying the
   characterisation -- on netlists without combinational loops ... *)
Theorem cdc_complete : forall n dom,
  wf n = true -> acyclic n -> domains_ok n dom = true -> ~ has_crossing n -> flagged n dom = [].
Proof. exact complete_acyclic. Qed.
Print Assumptions cdc_complete.

Example cdc_complete_hyps_satisfiable :
  wf ex_marked = true /\ acyclic ex_marked /\ domains_ok ex_marked (infer_real ex_marked) = true
  /\ ~ has_crossing ex_marked.
Proof. exact (conj (proj1 ex_wf) (conj (proj1 ex_acyclic) (conj (proj1 ex_domains_ok) ex_marked_no_crossing))). Qed.

(* ... and on ANY netlist (loops included) for the map the worklist actually computes, in every
   processing order. *)
Theorem cdc_complete_worklist : forall n ch order,
  wf n = true -> Permutation order (all_outputs n) -> ~ has_crossing n ->
  flagged n (infer n ch order) = [].
Proof. exact worklist_complete. Qed.
Print Assumptions cdc_complete_worklist.

(* Order independence.  The transcribed worklist of inferClockDomains (fuel = ports * (ports+1) + 2
   per attemptResolve, proved sufficient) ends in a map satisfying the characterisation for EVERY
   permutation of the initial list of outputs and EVERY choice of the element popped from the
   retry set.  Together with cdc_sound / cdc_complete_worklist the accept / reject verdict does not
   depend on the order. *)
Theorem worklist_reaches_ok : forall n ch order,
  Permutation order (all_outputs n) -> domains_ok n (infer n ch order) = true.
Proof. exact worklist_ok. Qed.
Print Assumptions worklist_reaches_ok.

Example worklist_two_orders :
  Permutation (rev (all_outputs ex_unmarked)) (all_outputs ex_unmarked)
  /\ domains_ok ex_unmarked (infer ex_unmarked (fun l => length l - 1) (rev (all_outputs ex_unmarked))) = true.
Proof. exact ex_other_order. Qed.

(* Every non-constant entry written by the worklist is backed by a real path from a source of that
   domain (so a flagged node of the real run is a real crossing site). *)
Theorem worklist_entries_justified : forall n ch order,
  Permutation order (all_outputs n) ->
  forall p x, In p (all_outputs n) -> infer n ch order p = Some x -> x <> SConst ->
              influences n (src_of_scd x) p.
Proof. exact worklist_justified. Qed.
Print Assumptions worklist_entries_justified.

(* Clocks that share the same physical clock source count as one domain: replacing any clock (of an
   input's domain or of the node's own clock ports) by one with the same pin source never changes
   the verdict of a node's rule. *)
Theorem same_pin_source_one_domain : forall ps nd nd' ins ins',
  nkind nd = nkind nd' ->
  Forall2 (oclk_equiv ps) (nclocks nd) (nclocks nd') ->
  Forall2 (oclk_equiv ps) (ninclk nd) (ninclk nd') ->
  Forall2 (scd_equiv ps) ins ins' ->
  check_valid ps nd ins = check_valid ps nd' ins'.
Proof. exact check_valid_equiv. Qed.
Print Assumptions same_pin_source_one_domain.

Example same_pin_source_example :
  pin_source ex_marked 2 = 0
  /\ check_valid (pin_source ex_marked) (mkNode KReg 9 [] 1 [Some 0] [] []) [SClock 2; SConst; SClock 0] = true
  /\ check_valid (pin_source ex_marked) (mkNode KReg 9 [] 1 [Some 0] [] []) [SClock 1; SConst; SClock 0] = false.
Proof. exact (conj (proj1 ex_pin_source) ex_same_source). Qed.

(* The meaning of the transcribed base rule (BaseNode::checkValidInputClocks): it passes exactly when
   all clocks among the node's own clock and its inputs share one pin source, at most one input is of
   unknown domain, and an unknown input is not combined with any clock. *)
Theorem base_rule_meaning : forall ps nd ins, base_check ps nd ins = true <-> base_ok ps nd ins.
Proof. exact base_check_spec. Qed.
Print Assumptions base_rule_meaning.

(* The executable specification run by the driver on the dumped netlists decides [has_crossing]
   whenever the computed influence sets pass the closedness check (checked at run time). *)
Theorem spec_verdict_is_has_crossing : forall n,
  infl_closed n (infl_sets n) = true ->
  (has_crossing_b n (infl_sets n) = true <-> has_crossing n).
Proof. exact spec_verdict_exact. Qed.
Print Assumptions spec_verdict_is_has_crossing.

Example spec_verdict_examples :
  has_crossing ex_unmarked /\ ~ has_crossing ex_marked
  /\ flagged ex_unmarked (infer_real ex_unmarked) = [3%N].
Proof. exact (conj ex_unmarked_crossing (conj ex_marked_no_crossing ex_unmarked_rejected)). Qed.

(* ------------------------------------------------------------------ *)
(* Which clocks are one domain.  [pin_source] as a function of the parent chain and of whether the
   clock net is driven by logic in the simulation view / in the export view. *)

(* A clock inherits its parent's pin source exactly when it has a parent, its clock net is driven by
   logic in NEITHER view, it keeps the parent's name and frequency and is phase locked to it. *)
Theorem clock_inherits_iff : forall cs ck,
  inherits cs ck = true <->
  exists p pk, cparent ck = Some p /\ nth_error cs p = Some pk
    /\ cselfsim ck = true /\ cselfexp ck = true
    /\ cname pk = cname ck /\ cfnum pk = cfnum ck /\ cfden pk = cfden ck /\ cphase ck = true.
Proof. exact inherits_iff. Qed.
Print Assumptions clock_inherits_iff.

(* One step along the parent chain (clocks listed parents first, as Circuit::getClocks() does). *)
Theorem pin_source_rule : forall n c ck,
  clocks_ok (clks n) = true -> nth_error (clks n) c = Some ck ->
  pin_source n c =
    if inherits (clks n) ck
    then match cparent ck with Some p => pin_source n p | None => c end
    else c.
Proof. exact pin_source_unfold. Qed.
Print Assumptions pin_source_rule.

(* A clock whose net is driven by logic in at least ONE view (export only, simulation only, or both)
   is its own pin source, whatever its parent, name and frequency. *)
Theorem one_view_driven_clock_is_own_domain : forall n c ck,
  nth_error (clks n) c = Some ck ->
  cselfsim ck = false \/ cselfexp ck = false ->
  pin_source n c = c.
Proof. exact logic_driven_own_source. Qed.
Print Assumptions one_view_driven_clock_is_own_domain.

Theorem undriven_derived_clock_shares_parent_domain : forall n c ck p pk,
  clocks_ok (clks n) = true -> nth_error (clks n) c = Some ck ->
  cparent ck = Some p -> nth_error (clks n) p = Some pk ->
  cselfsim ck = true -> cselfexp ck = true ->
  cname pk = cname ck -> cfnum pk = cfnum ck -> cfden pk = cfden ck -> cphase ck = true ->
  pin_source n c = pin_source n p.
Proof. exact undriven_derived_shares_parent. Qed.
Print Assumptions undriven_derived_clock_shares_parent_domain.

Example driven_clock_examples :
  clocks_ok (drv_clocks true false) = true
  /\ pin_source (drv_unmarked true true) 1 = 0
  /\ pin_source (drv_unmarked true false) 1 = 1
  /\ pin_source (drv_unmarked false true) 1 = 1
  /\ pin_source (drv_unmarked false false) 1 = 1.
Proof. exact (conj (proj1 drv_clocks_ok) drv_pin_sources). Qed.

(* Soundness read the other way: a design with an unmarked crossing is rejected, for every map that
   satisfies the characterisation (in particular the one the worklist computes, worklist_reaches_ok). *)
Theorem crossing_is_rejected : forall n dom,
  wf n = true -> domains_ok n dom = true -> has_crossing n -> flagged n dom <> [].
Proof. exact crossing_rejected_thm. Qed.
Print Assumptions crossing_is_rejected.

Example one_view_driven_crossing_rejected :
  has_crossing (drv_unmarked true false) /\ ~ has_crossing (drv_marked true false)
  /\ flagged (drv_unmarked true false) (infer_real (drv_unmarked true false)) = [3%N]
  /\ flagged (drv_unmarked false true) (infer_real (drv_unmarked false true)) = [3%N]
  /\ flagged (drv_marked true false) (infer_real (drv_marked true false)) = [].
Proof.
  exact (conj (proj1 drv_export_only_crossing) (conj (proj2 drv_export_only_crossing)
        (conj (proj1 (proj2 drv_verdicts)) (conj (proj1 (proj2 (proj2 drv_verdicts)))
        (proj1 (proj2 (proj2 (proj2 (proj2 drv_verdicts))))))))).
Qed.

(* ------------------------------------------------------------------ *)
(* External modules (frontend ExternalModule::Node_External_Exposed): every input port has a declared
   clock, every output is a source of its declared clock. *)

(* The transcribed rule passes exactly when EVERY port -- first, middle or last -- carries a constant
   or a signal of the pin source of the clock declared for that port; an unknown domain on any port
   is refused. *)
Theorem external_rule_meaning : forall ps nd ins, ext_check ps nd ins = true <-> ext_ok ps nd ins.
Proof. exact ext_check_spec. Qed.
Print Assumptions external_rule_meaning.

(* In an accepted design every input port of every external module is only reached by signals of the
   port's declared clock domain (cdc_sound / crossing_is_rejected cover the external-module crossing
   [cr_ext] as one of the kinds of [crossing_at]). *)
Theorem cdc_sound_external_module : forall n dom,
  wf n = true -> domains_ok n dom = true -> flagged n dom = [] ->
  forall v nd i q s,
    get_node n v = Some nd -> nkind nd = KExt ->
    nth_error (nins nd) i = Some (Some q) -> influences n s q ->
    exists d ic, s = SrcClk d /\ nth_error (ninclk nd) i = Some (Some ic)
                 /\ pin_source n d = pin_source n ic.
Proof. exact cdc_sound_external_thm. Qed.
Print Assumptions cdc_sound_external_module.

Example external_module_examples :
  has_crossing ext_first_port /\ ~ has_crossing ext_clean
  /\ flagged ext_first_port (infer_real ext_first_port) = [2%N]
  /\ flagged ext_clean (infer_real ext_clean) = [].
Proof.
  exact (conj (proj1 ext_crossing) (conj (proj2 ext_crossing)
        (conj (proj1 ext_verdicts) (proj1 (proj2 ext_verdicts))))).
Qed.

(* ------------------------------------------------------------------ *)
(* Memory ports and the pins generated for external memories. *)

(* A register / pin / memory port WITHOUT a clock is not compared with anything: a single input of any
   domain passes.  (This is why every pin that MemoryGroup::replaceWithIOPins generates for an external
   memory must receive the port's clock.) *)
Theorem clockless_sink_is_unchecked : forall ps nd x,
  uses_base_check (nkind nd) = true -> own_clock nd = None ->
  check_valid ps nd [x; SConst] = true.
Proof. exact clockless_sink_unchecked. Qed.
Print Assumptions clockless_sink_is_unchecked.

(* When every sink with a connected input carries a clock ([sinks_clocked], checked on every dumped
   netlist, in particular on the post-processed one that contains the generated memory pins), an
   accepted design has every input of every register, pin and memory port -- enable, write enable,
   address, write data -- reached only by signals of that node's own clock domain. *)
Theorem cdc_sound_all_sinks : forall n dom,
  wf n = true -> domains_ok n dom = true -> flagged n dom = [] -> sinks_clocked n = true ->
  forall v nd i q s,
    get_node n v = Some nd -> is_sink_kind (nkind nd) = true ->
    nth_error (nins nd) i = Some (Some q) -> influences n s q ->
    exists c, own_clock nd = Some c /\ same_dom (pin_source n) s (SrcClk c).
Proof. exact cdc_sound_sinks_thm. Qed.
Print Assumptions cdc_sound_all_sinks.

Example sinks_clocked_examples :
  sinks_clocked ex_marked = true
  /\ sinks_clocked (mkNetlist [ mkNode KPin 0 [None] 1 [Some 0] [] []; mkNode KPin 1 [Some (0, 0)%N] 1 [None] [] [] ] ex_clocks) = false.
Proof. vm_compute. auto. Qed.
