(* C19 -- concrete runs of the model evaluated inside the kernel: the witness for the known finding
   (same-instant FIFO is violated across two clocks in phase BEFORE) and non-triviality examples. *)
From Coq Require Import List NArith ZArith QArith Qreduction Bool Lia.
From Gatery Require Import SimProcDefs SimProcOrder.
Import ListNotations.
Local Close Scope Q_scope.

(* resumptions that were scheduled through the event queue, with their stamp and insertion id *)
Definition ev_wake (e : entry) : option (Q * phase * N * N) :=
  match e with
  | LProc t ph mt _ _ (AWake w g) =>
    match w with
    | WkClk _ _ | WkFor _ | WkChange _ => Some (t, ph, mt, g_id g)
    | _ => None
    end
  | _ => None
  end.

Definition later_smaller (x : Q * phase * N * N) (e' : entry) : bool :=
  match x, ev_wake e' with
  | (t, ph, mt, i), Some (t', ph', mt', i') => Qeq_bool t t' && phase_eqb ph ph' && N.eqb mt mt' && N.ltb i' i
  | _, None => false
  end.

(* the log (oldest first) contains two resumptions of one instant whose order is the reverse of the order
   of their insertion ids *)
Fixpoint fifo_inverted (l : list entry) : bool :=
  match l with
  | [] => false
  | e :: r => (match ev_wake e with Some x => existsb (later_smaller x) r | None => false end) || fifo_inverted r
  end.

Lemma fifo_inverted_sound : forall l, fifo_inverted l = true ->
  exists l1 e l2 e' l3 t ph mt i t' i',
    l = l1 ++ e :: l2 ++ e' :: l3 /\ ev_wake e = Some (t, ph, mt, i) /\ ev_wake e' = Some (t', ph, mt, i')
    /\ (t == t')%Q /\ (i' < i)%N.
Proof.
  induction l as [|e r IH]; intro H; [discriminate|]. simpl in H. apply orb_prop in H. destruct H as [H|H].
  - destruct (ev_wake e) as [[[[t ph] mt] i]|] eqn:E; [|discriminate].
    apply existsb_exists in H. destruct H as (e' & Hin & Hs).
    apply in_split in Hin. destruct Hin as (l2 & l3 & ->).
    unfold later_smaller in Hs. destruct (ev_wake e') as [[[[t' ph'] mt'] i']|] eqn:E'; [|discriminate].
    apply andb_prop in Hs. destruct Hs as [Hs H4]. apply andb_prop in Hs. destruct Hs as [Hs H3].
    apply andb_prop in Hs. destruct Hs as [H1 H2].
    apply Qeq_bool_iff in H1. apply phase_eqb_eq in H2. apply N.eqb_eq in H3. apply N.ltb_lt in H4. subst.
    exists [], e, l2, e', l3, t, ph', mt', i, t', i'. repeat split; assumption.
  - destruct (IH H) as (l1 & a & l2 & b & l3 & t & ph & mt & i & t' & i' & -> & R).
    exists (e :: l1), a, l2, b, l3, t, ph, mt, i, t', i'. split; [reflexivity | exact R].
Qed.

(* ---- the known finding: two 1 Hz clocks; p0 waits for clock B in phase BEFORE (suspends first, id 0),
        p1 waits for clock A in phase BEFORE (id 1); at t = 1 both clocks rise and p1 is resumed first ---- *)
Definition cfg_two_1hz : config := mk_config true (1, 1)%positive (1, 1)%positive [] [].
Definition procs_cross : list script :=
  [ [SWaitClk CB BEFORE; SWrite PA 1]; [SWaitClk CA BEFORE; SWrite PA 2] ].

Lemma cross_clock_before_inverted :
  fifo_inverted (res_log (simulate cfg_two_1hz procs_cross false 2 [] 2000)) = true
  /\ res_oof (simulate cfg_two_1hz procs_cross false 2 [] 2000) = false.
Proof. vm_compute. split; reflexivity. Qed.

(* with the other resolution of the tie between the two clockPinTrigger events the order is FIFO for this
   script set -- and inverted for the mirrored one *)
Definition procs_cross_mirror : list script :=
  [ [SWaitClk CA BEFORE; SWrite PA 1]; [SWaitClk CB BEFORE; SWrite PA 2] ].
Lemma cross_clock_before_depends_on_tie :
  fifo_inverted (res_log (simulate cfg_two_1hz procs_cross false 2 [true; true; true; true] 2000)) = false /\
  fifo_inverted (res_log (simulate cfg_two_1hz procs_cross_mirror false 2 [true; true; true; true] 2000)) = true /\
  fifo_inverted (res_log (simulate cfg_two_1hz procs_cross_mirror false 2 [] 2000)) = false.
Proof. vm_compute. repeat split; reflexivity. Qed.

(* ---- a non-trivial single-clock run used as "Example" for the universal theorems ---- *)
Definition cfg_one : config := mk_config false (3, 2)%positive (1, 1)%positive [[SRead SRA; SWaitClk CA AFTER; SRead SRA]] [].
Definition procs_demo : list script :=
  [ [SWrite PA 5; SWaitClk CA BEFORE; SRead SRA; SWrite PA 6; SWaitClk CA DURING; SRead SRA; SWrite PA 7;
     SWaitClk CA AFTER; SRead SRA; SWaitFor (1%N, 2%positive); SWaitStable; SRead SC];
    [SFork 0; SWaitClk CA AFTER; SWaitFor (0%N, 1%positive); SWaitChange [SC]; SRead SC; SJoin 0] ].
Definition demo_log : list entry := res_log (simulate cfg_one procs_demo false 5 [] 5000).

Definition count_entries (f : entry -> bool) : nat := length (filter f demo_log).
Lemma demo_nontrivial :
  res_oof (simulate cfg_one procs_demo false 5 [] 5000) = false /\
  count_entries (fun e => match e with LProc _ _ _ _ _ (AWake (WkFor _) _) => true | _ => false end) = 2%nat /\
  count_entries (fun e => match e with LProc _ _ _ _ _ (AWake (WkChange _) _) => true | _ => false end) = 1%nat /\
  count_entries (fun e => match e with LProc _ BEFORE _ _ _ (AWake (WkClk _ _) _) => true | _ => false end) = 1%nat /\
  count_entries (fun e => match e with LProc _ DURING _ _ _ (AWake (WkClk _ _) _) => true | _ => false end) = 1%nat /\
  count_entries (fun e => match e with LProc _ AFTER _ _ _ (AWake (WkClk _ _) _) => true | _ => false end) = 3%nat /\
  count_entries (fun e => match e with LEdge _ _ true _ _ _ => true | _ => false end) = 7%nat /\
  count_entries (fun e => match e with LFire _ _ _ => true | _ => false end) = 1%nat.
Proof. vm_compute. repeat split; reflexivity. Qed.

Lemma cross_clock_before_witness :
  exists l1 e l2 e' l3 t ph mt i t' i',
    res_log (simulate cfg_two_1hz procs_cross false 2 [] 2000) = l1 ++ e :: l2 ++ e' :: l3 /\
    ev_wake e = Some (t, ph, mt, i) /\ ev_wake e' = Some (t', ph, mt, i') /\ (t == t')%Q /\ (i' < i)%N.
Proof. exact (fifo_inverted_sound _ (proj1 cross_clock_before_inverted)). Qed.

(* ---- clocks without clocked nodes: clock A 100 (registers), a register-less root clock of 100 and one of 75
        (derived from clock A with multiplier 3/4); waits issued 1/4 and 2/3 of a period after a tick ---- *)
Definition cfg_extra : config :=
  mk_config false (100, 1)%positive (1, 1)%positive [] [XRoot (100, 1)%positive; XDerived CA (3, 4)%positive].
Definition procs_extra : list script :=
  [ [SWaitFor (1%N, 400%positive); SWaitX 0 BEFORE; SRead SRA; SWaitFor (2%N, 300%positive); SWaitX 0 AFTER; SWaitX 1 DURING; SWaitX 0 DURING];
    [SWaitFor (1%N, 400%positive); SWaitClk CA BEFORE; SWrite PA 7; SWaitFor (2%N, 300%positive); SWaitClk CA AFTER; SRead SRA] ].
Definition extra_wakes : list (nat * Q) :=
  flat_map (fun e => match e with
                     | LProc t _ _ _ pid (AWake (WkX _ _) _) | LProc t _ _ _ pid (AWake (WkClk _ _) _) => [(pid, t)]
                     | _ => [] end)
           (res_log (simulate cfg_extra procs_extra false (1 # 10)%Q [] 5000)).
Lemma extra_wakes_value :
  extra_wakes = [(0%nat, 1 # 100); (1%nat, 1 # 100); (0%nat, 1 # 50); (1%nat, 1 # 50); (0%nat, 2 # 75); (0%nat, 3 # 100)]%Q
  /\ res_oof (simulate cfg_extra procs_extra false (1 # 10)%Q [] 5000) = false.
Proof. vm_compute. split; reflexivity. Qed.
