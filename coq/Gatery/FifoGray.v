(* C15 -- gray code facts used by the dual-clock FIFO (scl/cdc.cpp grayEncode / grayDecode). *)
From Coq Require Import NArith List Bool Arith Lia.
From Gatery Require Import FifoDefs.
Open Scope N_scope.

Lemma gray_enc_bit x i :
  N.testbit (gray_enc x) i = xorb (N.testbit x i) (N.testbit x (i + 1)).
Proof.
  unfold gray_enc. rewrite N.lxor_spec, N.shiftr_spec by apply N.le_0_l. reflexivity.
Qed.

Lemma gray_enc_0 : gray_enc 0 = 0.
Proof. reflexivity. Qed.

Lemma gray_enc_lt w x : x < 2 ^ w -> gray_enc x < 2 ^ w.
Proof.
  intros H. destruct (N.eq_dec (gray_enc x) 0) as [E|E].
  - rewrite E. apply N.neq_0_lt_0, N.pow_nonzero. discriminate.
  - apply N.log2_lt_pow2; [apply N.neq_0_lt_0; exact E|].
    destruct (N.lt_ge_cases (N.log2 (gray_enc x)) w) as [L|L]; [exact L|exfalso].
    pose proof (N.bit_log2 _ E) as B. rewrite gray_enc_bit in B.
    assert (Hb : forall j, w <= j -> N.testbit x j = false).
    { intros j Hj. destruct (N.eq_dec x 0) as [->|Nz]; [apply N.bits_0|].
      apply N.bits_above_log2. apply N.log2_lt_pow2 in H; [lia | apply N.neq_0_lt_0; exact Nz]. }
    rewrite !Hb in B by lia. discriminate.
Qed.

(* the decoder loop, run on a code word: bits below i are filled in with x's bits *)
Lemma gray_dec_from_enc x : forall (i : nat) acc,
  (forall j, j < N.of_nat i -> N.testbit acc j = false) ->
  forall j, N.testbit (gray_dec_from (gray_enc x) i (N.testbit x (N.of_nat i)) acc) j
            = if j <? N.of_nat i then N.testbit x j else N.testbit acc j.
Proof.
  induction i as [|m IH]; intros acc Hacc j.
  - simpl. destruct (j <? 0) eqn:E; [apply N.ltb_lt in E; lia | reflexivity].
  - cbn [gray_dec_from].
    assert (Hb : xorb (N.testbit x (N.of_nat (S m))) (N.testbit (gray_enc x) (N.of_nat m))
                 = N.testbit x (N.of_nat m)).
    { rewrite gray_enc_bit. replace (N.of_nat (S m)) with (N.of_nat m + 1) by lia.
      destruct (N.testbit x (N.of_nat m)), (N.testbit x (N.of_nat m + 1)); reflexivity. }
    rewrite Hb.
    set (acc' := if N.testbit x (N.of_nat m) then N.setbit acc (N.of_nat m) else acc).
    assert (Hacc' : forall j, j < N.of_nat m -> N.testbit acc' j = false).
    { intros j' Hj'. unfold acc'. destruct (N.testbit x (N.of_nat m)).
      - rewrite N.setbit_neq by lia. apply Hacc. lia.
      - apply Hacc. lia. }
    rewrite (IH acc' Hacc' j).
    destruct (N.ltb_spec j (N.of_nat m)) as [E1|E1]; destruct (N.ltb_spec j (N.of_nat (S m))) as [E2|E2];
      try lia; try reflexivity.
    + (* j = m *)
      assert (j = N.of_nat m) by lia. subst j. unfold acc'.
      destruct (N.testbit x (N.of_nat m)) eqn:Ex.
      * apply N.setbit_eq.
      * apply Hacc. lia.
    + unfold acc'. destruct (N.testbit x (N.of_nat m)); [|reflexivity].
      apply N.setbit_neq. lia.
Qed.

Lemma bits_above x w : x < 2 ^ w -> forall j, w <= j -> N.testbit x j = false.
Proof.
  intros H j Hj. destruct (N.eq_dec x 0) as [->|Nz]; [apply N.bits_0|].
  apply N.bits_above_log2. apply N.log2_lt_pow2 in H; [lia | apply N.neq_0_lt_0; exact Nz].
Qed.

(* grayDecode inverts grayEncode on every width *)
Lemma gray_roundtrip_w (w : nat) x : x < 2 ^ N.of_nat w -> gray_dec w (gray_enc x) = x.
Proof.
  intros H. apply N.bits_inj. intros j. unfold gray_dec.
  pose proof (bits_above x _ H) as Hab.
  rewrite <- (Hab (N.of_nat w)) by lia.
  rewrite gray_dec_from_enc by (intros; apply N.bits_0).
  destruct (j <? N.of_nat w) eqn:E; [reflexivity|].
  apply N.ltb_ge in E. rewrite N.bits_0. symmetry. apply Hab. exact E.
Qed.

Lemma gray_enc_lxor a b : N.lxor (gray_enc a) (gray_enc b) = gray_enc (N.lxor a b).
Proof.
  apply N.bits_inj. intros j. rewrite N.lxor_spec, !gray_enc_bit, !N.lxor_spec.
  destruct (N.testbit a j), (N.testbit a (j+1)), (N.testbit b j), (N.testbit b (j+1)); reflexivity.
Qed.

Lemma ones_bit n j : N.testbit (N.ones n) j = (j <? n).
Proof.
  destruct (j <? n) eqn:E.
  - apply N.ltb_lt in E. apply N.ones_spec_low. exact E.
  - apply N.ltb_ge in E. apply N.ones_spec_high. exact E.
Qed.

Lemma pow2_bit n j : N.testbit (2 ^ n) j = (j =? n).
Proof.
  destruct (j =? n) eqn:E.
  - apply N.eqb_eq in E. subst. apply N.pow2_bits_true.
  - apply N.eqb_neq in E. apply N.pow2_bits_false. congruence.
Qed.

Lemma gray_enc_ones t : gray_enc (N.ones (t + 1)) = 2 ^ t.
Proof.
  apply N.bits_inj. intros j. rewrite gray_enc_bit, !ones_bit, pow2_bit.
  destruct (N.ltb_spec j (t + 1)), (N.ltb_spec (j + 1) (t + 1)), (N.eqb_spec j t); try lia; reflexivity.
Qed.

(* x xor (x+1) is a block of ones: the carry chain *)
Lemma succ_lxor_ones x : exists t, N.lxor x (x + 1) = N.ones (t + 1).
Proof.
  induction x as [|n IH|n IH] using N.binary_ind.
  - exists 0. reflexivity.
  - exists 0. rewrite N.double_spec. apply N.bits_inj. intros j.
    rewrite N.lxor_spec, ones_bit.
    destruct (N.eq_dec j 0) as [->|Hj].
    + rewrite N.testbit_even_0, N.testbit_odd_0. reflexivity.
    + replace j with (N.succ (N.pred j)) by (apply N.succ_pred; exact Hj).
      rewrite N.testbit_even_succ, N.testbit_odd_succ by apply N.le_0_l.
      rewrite xorb_nilpotent. symmetry. apply N.ltb_ge. lia.
  - destruct IH as [t IH]. exists (t + 1).
    rewrite N.succ_double_spec.
    replace (2 * n + 1 + 1) with (2 * (n + 1)) by lia.
    apply N.bits_inj. intros j. rewrite N.lxor_spec, ones_bit.
    destruct (N.eq_dec j 0) as [->|Hj].
    + rewrite N.testbit_even_0, N.testbit_odd_0. symmetry. apply N.ltb_lt. lia.
    + replace j with (N.succ (N.pred j)) at 1 2 by (apply N.succ_pred; exact Hj).
      rewrite N.testbit_even_succ, N.testbit_odd_succ by apply N.le_0_l.
      rewrite <- N.lxor_spec, IH, ones_bit.
      destruct (N.ltb_spec (N.pred j) (t + 1)), (N.ltb_spec j (t + 1 + 1)); try lia; reflexivity.
Qed.

Lemma ones_lt_pow t w : N.ones t < 2 ^ w -> t <= w.
Proof.
  intros H. destruct (N.le_gt_cases t w) as [L|L]; [exact L|exfalso].
  rewrite N.ones_equiv in H.
  assert (2 ^ (w + 1) <= 2 ^ t) by (apply N.pow_le_mono_r; lia).
  assert (2 ^ w < 2 ^ (w + 1)) by (apply N.pow_lt_mono_r; lia).
  lia.
Qed.

Lemma lxor_lt_pow a b w : a < 2 ^ w -> b < 2 ^ w -> N.lxor a b < 2 ^ w.
Proof.
  intros Ha Hb. destruct (N.eq_dec (N.lxor a b) 0) as [E|E].
  - rewrite E. apply N.neq_0_lt_0, N.pow_nonzero. discriminate.
  - apply N.log2_lt_pow2; [apply N.neq_0_lt_0; exact E|].
    destruct (N.lt_ge_cases (N.log2 (N.lxor a b)) w) as [L|L]; [exact L|exfalso].
    pose proof (N.bit_log2 _ E) as B. rewrite N.lxor_spec in B.
    rewrite (bits_above a w Ha), (bits_above b w Hb) in B by lia. discriminate.
Qed.

(* consecutive counter values (including the wrap 2^w-1 -> 0) have codes that differ
   in exactly one bit *)
Lemma gray_one_bit_w w x : 0 < w -> x < 2 ^ w ->
  exists j, j < w /\ N.lxor (gray_enc x) (gray_enc ((x + 1) mod 2 ^ w)) = 2 ^ j.
Proof.
  intros Hw Hx. rewrite gray_enc_lxor.
  destruct (N.eq_dec (x + 1) (2 ^ w)) as [E|E].
  - rewrite E, N.mod_same by (apply N.pow_nonzero; discriminate).
    rewrite N.lxor_0_r.
    assert (x = N.ones w) by (rewrite N.ones_equiv; lia). subst x.
    exists (w - 1). split; [lia|].
    replace w with (w - 1 + 1) at 1 by lia. apply gray_enc_ones.
  - assert (Hs : x + 1 < 2 ^ w) by lia.
    rewrite N.mod_small by exact Hs.
    destruct (succ_lxor_ones x) as [t Ht]. rewrite Ht. exists t. split.
    + assert (N.ones (t + 1) < 2 ^ w) by (rewrite <- Ht; apply lxor_lt_pow; lia).
      apply ones_lt_pow in H. lia.
    + apply gray_enc_ones.
Qed.

(* A register bank that samples a word while it changes from [o] to [n] may capture, bit
   by bit, either value.  If [o] and [n] differ in at most one bit the captured word is
   [o] or [n] -- nothing else.  This is what makes the gray-coded crossing safe. *)
Definition bitwise_mix (o n s : N) : Prop :=
  forall i, N.testbit s i = N.testbit o i \/ N.testbit s i = N.testbit n i.

Lemma one_bit_sample o n s j : N.lxor o n = 2 ^ j -> bitwise_mix o n s -> s = o \/ s = n.
Proof.
  intros Hd Hm.
  assert (Hsame : forall i, i <> j -> N.testbit o i = N.testbit n i).
  { intros i Hi. assert (B : N.testbit (N.lxor o n) i = false) by (rewrite Hd; apply N.pow2_bits_false; congruence).
    rewrite N.lxor_spec in B. destruct (N.testbit o i), (N.testbit n i); simpl in B; congruence. }
  destruct (Hm j) as [Hj|Hj].
  - left. apply N.bits_inj. intros i. destruct (N.eq_dec i j) as [->|Hi]; [exact Hj|].
    destruct (Hm i) as [H|H]; [exact H | rewrite H; symmetry; apply Hsame; exact Hi].
  - right. apply N.bits_inj. intros i. destruct (N.eq_dec i j) as [->|Hi]; [exact Hj|].
    destruct (Hm i) as [H|H]; [rewrite H; apply Hsame; exact Hi | exact H].
Qed.

Lemma gray_sample_safe_w w x (b : bool) s : 0 < w -> x < 2 ^ w ->
  bitwise_mix (gray_enc x) (gray_enc (if b then (x + 1) mod 2 ^ w else x)) s ->
  s = gray_enc x \/ s = gray_enc (if b then (x + 1) mod 2 ^ w else x).
Proof.
  intros Hw Hx Hm. destruct b.
  - destruct (gray_one_bit_w w x Hw Hx) as [j [_ Hj]]. eapply one_bit_sample; eassumption.
  - left. apply N.bits_inj. intros i. destruct (Hm i); assumption.
Qed.
