(* C17 — the mathematical definitions the scl generators are compared with, and the basic
   facts about the bit-list <-> number conversions used by every proof. *)
From Coq Require Import List Bool Arith NArith ZArith Lia.
From Gatery Require Import SclMathDefs.
Import ListNotations.
Open Scope N_scope.

(* ------------------------------------------------------------------ specifications *)
(* number of set bits *)
Fixpoint popcount (l : bits) : N :=
  match l with [] => 0 | b :: r => N.b2n b + popcount r end.

(* index of the first (lowest) set bit *)
Fixpoint first_true (l : bits) : option N :=
  match l with
  | [] => None
  | true :: _ => Some 0
  | false :: r => option_map N.succ (first_true r)
  end.

(* index of the last (highest) set bit *)
Fixpoint last_true (l : bits) : option N :=
  match l with
  | [] => None
  | b :: r => match last_true r with
              | Some i => Some (N.succ i)
              | None => if b then Some 0 else None
              end
  end.

(* Hamming distance *)
Fixpoint hamming (a b : bits) : N :=
  match a, b with
  | x :: a', y :: b' => N.b2n (xorb x y) + hamming a' b'
  | _, _ => 0
  end.

(* increment modulo 2^length *)
Fixpoint bits_succ (l : bits) : bits :=
  match l with [] => [] | false :: r => true :: r | true :: r => false :: bits_succ r end.

(* carry-less (GF(2)[x]) product of polynomials encoded as numbers: bit i = coefficient of x^i *)
Fixpoint clmul_bits (q : bits) (p : N) : N :=
  match q with [] => 0 | b :: r => N.lxor (if b then p else 0) (2 * clmul_bits r p) end.

(* t is the remainder of the polynomial m modulo the polynomial p of degree r
   (2^r <= p < 2^(r+1)): deg t < r and m = q * p + t for some quotient q (coefficient list,
   LSB first) *)
Definition gf2_rem (r m p t : N) : Prop := t < 2 ^ r /\ exists q : bits, m = N.lxor (clmul_bits q p) t.

(* ------------------------------------------------------------------ conversions *)
Lemma N_of_bits_lt l : N_of_bits l < 2 ^ N.of_nat (length l).
Proof.
  induction l as [|b r IH]; simpl length; [simpl; lia|].
  rewrite Nat2N.inj_succ, N.pow_succ_r'. cbn [N_of_bits]. destruct b; simpl N.b2n; lia.
Qed.

Lemma bits_of_N_length w x : length (bits_of_N w x) = w.
Proof. revert x; induction w; simpl; auto. Qed.

Lemma N_div2_odd x : x = 2 * N.div2 x + N.b2n (N.odd x).
Proof. apply N.div2_odd. Qed.

Lemma N_of_bits_of_N w x : N_of_bits (bits_of_N w x) = x mod 2 ^ N.of_nat w.
Proof.
  revert x; induction w as [|w IH]; intro x.
  - simpl. rewrite N.mod_1_r. reflexivity.
  - cbn [bits_of_N N_of_bits]. rewrite IH, Nat2N.inj_succ, N.pow_succ_r'.
    pose proof (N_div2_odd x) as Hx.
    set (q := N.div2 x) in *. set (m := 2 ^ N.of_nat w).
    assert (Hm : m <> 0) by (apply N.pow_nonzero; discriminate).
    pose proof (N.div_mod q m Hm). pose proof (N.mod_lt q m Hm).
    apply N.mod_unique with (q := q / m); [destruct (N.odd x); simpl N.b2n; lia|].
    destruct (N.odd x); simpl N.b2n in *; lia.
Qed.

Lemma N_of_bits_of_N_small w x : x < 2 ^ N.of_nat w -> N_of_bits (bits_of_N w x) = x.
Proof. intro H. rewrite N_of_bits_of_N. apply N.mod_small; exact H. Qed.

Lemma bits_of_N_of_bits l : bits_of_N (length l) (N_of_bits l) = l.
Proof.
  induction l as [|b r IH]; [reflexivity|].
  cbn [length bits_of_N N_of_bits].
  assert (Ho : N.odd (N.b2n b + 2 * N_of_bits r) = b).
  { rewrite N.odd_add_mul_2. destruct b; reflexivity. }
  assert (Hd : N.div2 (N.b2n b + 2 * N_of_bits r) = N_of_bits r).
  { rewrite N.div2_div. destruct b; simpl N.b2n.
    - replace (1 + 2 * N_of_bits r) with (1 + N_of_bits r * 2) by lia.
      rewrite N.div_add by discriminate. reflexivity.
    - rewrite N.add_0_l, N.mul_comm, N.div_mul by discriminate. reflexivity. }
  rewrite Ho, Hd, IH. reflexivity.
Qed.

Lemma N_of_bits_inj a b : length a = length b -> N_of_bits a = N_of_bits b -> a = b.
Proof.
  intros Hl He. rewrite <- (bits_of_N_of_bits a), <- (bits_of_N_of_bits b), He, Hl. reflexivity.
Qed.

Lemma N_of_bits_testbit l i : N.testbit (N_of_bits l) (N.of_nat i) = nth i l false.
Proof.
  revert i; induction l as [|b r IH]; intro i.
  - simpl. destruct i; reflexivity.
  - cbn [N_of_bits]. destruct i as [|i].
    + simpl nth. change (N.of_nat 0) with 0. rewrite N.add_comm, N.testbit_0_r. reflexivity.
    + simpl nth. rewrite Nat2N.inj_succ, N.add_comm, N.testbit_succ_r. apply IH.
Qed.

Lemma nth_bits_of_N w x i : (i < w)%nat -> nth i (bits_of_N w x) false = N.testbit x (N.of_nat i).
Proof.
  revert x i; induction w as [|w IH]; intros x i Hi; [lia|].
  cbn [bits_of_N]. destruct i as [|i].
  - simpl. symmetry. apply N.bit0_odd.
  - simpl nth. rewrite IH by lia. rewrite Nat2N.inj_succ.
    rewrite N.div2_spec, N.shiftr_spec'. rewrite N.add_1_r. reflexivity.
Qed.

Lemma N_of_bits_app a b : N_of_bits (a ++ b) = N_of_bits a + 2 ^ N.of_nat (length a) * N_of_bits b.
Proof.
  induction a as [|x a IH].
  { cbn [app length N_of_bits]. change (N.of_nat 0) with 0. rewrite N.pow_0_r. lia. }
  cbn [app N_of_bits length]. rewrite IH, Nat2N.inj_succ, N.pow_succ_r'. ring.
Qed.

Lemma N_of_bits_zero_iff l : N_of_bits l = 0 <-> forallb negb l = true.
Proof.
  induction l as [|b r IH]; cbn [N_of_bits forallb]; [tauto|].
  destruct b; cbn [N.b2n negb andb].
  - split; [lia|discriminate].
  - rewrite <- IH. lia.
Qed.

(* ------------------------------------------------------------------ indexed lists *)
Lemma indexed_from_app {A} i (a b : list A) :
  indexed_from i (a ++ b) = indexed_from i a ++ indexed_from (i + N.of_nat (length a)) b.
Proof.
  revert i; induction a as [|x a IH]; intro i; simpl.
  - f_equal. lia.
  - rewrite IH. do 3 f_equal. lia.
Qed.

Lemma indexed_from_length {A} i (l : list A) : length (indexed_from i l) = length l.
Proof. revert i; induction l; intro; simpl; auto. Qed.

(* ------------------------------------------------------------------ widths *)
Lemma log2c_log2_up v : 1 <= v -> log2c v = N.log2_up v.
Proof.
  intro H. unfold log2c. destruct (N.eqb_spec v 1) as [->|Hn]; [reflexivity|].
  rewrite N.log2_up_eqn by lia. rewrite N.sub_1_r. lia.
Qed.

Lemma log2c_spec v : 1 <= v -> v <= 2 ^ log2c v.
Proof.
  intro H. rewrite log2c_log2_up by exact H.
  destruct (N.eq_dec v 1) as [->|Hn]; [simpl; lia|].
  apply N.log2_up_spec. lia.
Qed.

Lemma bw_last_spec n : n < 2 ^ bw_last n.
Proof. unfold bw_last. pose proof (log2c_spec (n + 1)). lia. Qed.

Lemma popcount_le l : popcount l <= N.of_nat (length l).
Proof. induction l as [|b r IH]; [cbn; lia|]. cbn [popcount length]. rewrite Nat2N.inj_succ. destruct b; cbn [N.b2n]; lia. Qed.
