(* C03 (frontend level): every frontend operator on Bit / UInt / SInt / BVec builds a node graph
   (FrontendOpsDefs.v, read off the frontend sources) whose evaluation with the node semantics
   `eval` (NodeSemDefs.v, layer (a), Properties_C03.v) equals the integer / bit-vector definition:
   UInt over N modulo 2^w, SInt over Z in two's complement, for ALL widths and ALL defined
   operand values; operands rejected by a design check are characterised exactly.
   Construction-time evaluation runs the same node functions, so the same theorems cover it; the
   agreement of both entry points with the model is checked by checks/C03b.py.
   Only statements, `exact`, and Print Assumptions in this file. *)
From Gatery Require Import Bits NodeSemDefs NodeSemBits NodeSemSpec NodeSemSpecArith NodeSemSpecShift
  FrontendOpsDefs FrontendOpsBits FrontendOpsSpec FrontendOpsArith FrontendOpsMisc FrontendOpsSlices.
Import ListNotations.

(* ================= operand normalisation: SignalReadPort::expand / NormalizedWidthOperands ================= *)

(* 4-state, every width: an accepted operand is followed by copies of the policy's fill bit *)
Theorem op_correct_expand_bits : forall p x w,
  expand_ok p x w -> expand p x w = Some (x ++ repeat (fill_bit p x) (w - length x)).
Proof. exact FrontendOpsSpec.expand_bits. Qed.
Print Assumptions op_correct_expand_bits.
Example op_correct_expand_bits_ex :
  expand PSign [B1; BX; B1] 5 = Some [B1; BX; B1; B1; B1] /\ expand POne [B0] 3 = Some [B0; B1; B1]
  /\ expand PZero [] 2 = Some [B0; B0] /\ expand PNone [B1] 1 = Some [B1].
Proof. repeat split; reflexivity. Qed.

(* exactly the rejected operands *)
Theorem op_correct_expand_rejected : forall p x w,
  expand p x w = None <->
  (w < length x \/ (length x < w /\ p = PNone) \/ (length x < w /\ p = PSign /\ length x = 0)).
Proof. exact FrontendOpsSpec.expand_rejected. Qed.
Print Assumptions op_correct_expand_rejected.
Example op_correct_expand_rejected_ex :
  expand PNone [B1] 2 = None /\ expand PSign [] 1 = None /\ expand PZero [B1; B0] 1 = None.
Proof. repeat split; reflexivity. Qed.

(* zero extension keeps the unsigned value *)
Theorem op_correct_zext_value : forall x w y v,
  expand PZero x w = Some y -> bv_val x = Some v -> bv_val y = Some v /\ length y = w.
Proof. exact FrontendOpsSpec.expand_zero_value. Qed.
Print Assumptions op_correct_zext_value.

(* sign extension keeps the two's complement value *)
Theorem op_correct_sext_value : forall x w y z,
  expand PSign x w = Some y -> bv_sval x = Some z -> bv_sval y = Some z /\ length y = w.
Proof. exact FrontendOpsSpec.expand_sign_value_Z. Qed.
Print Assumptions op_correct_sext_value.
Example op_correct_sext_value_ex :
  bv_sval [B1; B0; B1] = Some (-3)%Z /\ expand PSign [B1; B0; B1] 70 = Some ([B1; B0; B1] ++ repeat B1 67)
  /\ bv_sval ([B1; B0; B1] ++ repeat B1 67) = Some (-3)%Z.
Proof. repeat split; vm_compute; reflexivity. Qed.

(* one extension adds the ones above the operand *)
Theorem op_correct_oext_value : forall x w y v,
  expand POne x w = Some y -> bv_val x = Some v ->
  bv_val y = Some (v + (2 ^ N.of_nat w - 2 ^ N.of_nat (length x)))%N /\ length y = w.
Proof. exact FrontendOpsSpec.expand_one_value. Qed.
Print Assumptions op_correct_oext_value.

(* exactly the rejected operand pairs of a binary operator *)
Theorem op_correct_norm_rejected : forall a b,
  norm a b = None <->
  (sv_w a < sv_w b /\ (sv_pol a = PNone \/ (sv_pol a = PSign /\ sv_w a = 0))) \/
  (sv_w b < sv_w a /\ (sv_pol b = PNone \/ (sv_pol b = PSign /\ sv_w b = 0))).
Proof. exact FrontendOpsArith.norm_rejected. Qed.
Print Assumptions op_correct_norm_rejected.

(* ================= ext / zext / oext / sext ================= *)

(* ext(x, BitWidth w, policy) *)
Theorem op_correct_ext_to : forall p w a,
  fe_ext_to p w a =
  if w <? sv_w a then None
  else match expand p (sv_bits a) w with
       | Some y => Some (mk_sval (ext_ty a) p y)
       | None => None
       end.
Proof. exact FrontendOpsSpec.fe_ext_to_spec. Qed.
Print Assumptions op_correct_ext_to.

(* ext(x, BitExtend n, policy) *)
Theorem op_correct_ext_by : forall p n a,
  fe_ext_by p n a =
  match expand p (sv_bits a) (sv_w a + n) with
  | Some y => Some (mk_sval (ext_ty a) p y)
  | None => None
  end.
Proof. exact FrontendOpsSpec.fe_ext_by_spec. Qed.
Print Assumptions op_correct_ext_by.
Example op_correct_ext_ex :
  fe_ext_by PZero 2 (mk_sval TS PNone [B1; B1]) = Some (mk_sval TS PZero [B1; B1; B0; B0])
  /\ fe_ext_to POne 3 (mk_sval TB PNone [B0]) = Some (mk_sval TU POne [B0; B1; B1])
  /\ fe_ext_to PSign 1 (mk_sval TU PNone [B0; B1]) = None.
Proof. repeat split; reflexivity. Qed.

(* ext(x, BitReduce d, policy): every sane use is rejected (recorded known finding: the design check is inverted) *)
Theorem op_correct_ext_reduce_rejected : forall p d a, 0 < sv_w a \/ 0 < d -> fe_ext_reduce p d a = None.
Proof. exact FrontendOpsSpec.ext_reduce_rejected. Qed.
Print Assumptions op_correct_ext_reduce_rejected.

(* ================= slices, single bits, cat / pack ================= *)

Theorem op_correct_slice : forall off w a,
  fe_slice off w a =
  if sv_w a <? off + w then None
  else Some (mk_sval (sv_ty a) (sv_pol a) (firstn w (skipn off (sv_bits a)))).
Proof. exact FrontendOpsSpec.fe_slice_spec. Qed.
Print Assumptions op_correct_slice.

Theorem op_correct_upper : forall w a,
  fe_upper w a = if sv_w a <? w then None else Some (mk_sval (sv_ty a) (sv_pol a) (skipn (sv_w a - w) (sv_bits a))).
Proof. exact FrontendOpsSpec.fe_upper_spec. Qed.
Print Assumptions op_correct_upper.

Theorem op_correct_lower : forall w a,
  fe_lower w a = if sv_w a <? w then None else Some (mk_sval (sv_ty a) (sv_pol a) (firstn w (sv_bits a))).
Proof. exact FrontendOpsSpec.fe_lower_spec. Qed.
Print Assumptions op_correct_lower.

Theorem op_correct_bit : forall i a,
  fe_bit i a = if i <? sv_w a then Some (mk_sval TB PNone [bv_get (sv_bits a) i]) else None.
Proof. exact FrontendOpsSpec.fe_bit_spec. Qed.
Print Assumptions op_correct_bit.

Theorem op_correct_msb : forall a,
  fe_msb a = if sv_w a =? 0 then None else Some (mk_sval TB PNone [bv_get (sv_bits a) (sv_w a - 1)]).
Proof. exact FrontendOpsSpec.fe_msb_spec. Qed.
Print Assumptions op_correct_msb.

Theorem op_correct_lsb : forall a,
  fe_lsb a = if sv_w a =? 0 then None else Some (mk_sval TB PNone [bv_get (sv_bits a) 0]).
Proof. exact FrontendOpsSpec.fe_lsb_spec. Qed.
Print Assumptions op_correct_lsb.
Example op_correct_slice_ex :
  fe_slice 1 2 (mk_sval TU PZero [B0; B1; BX; B1]) = Some (mk_sval TU PZero [B1; BX])
  /\ fe_slice 3 2 (mk_sval TU PZero [B0; B1; BX; B1]) = None
  /\ fe_msb (mk_sval TS PNone []) = None.
Proof. repeat split; reflexivity. Qed.

(* pack(a, b, c) = a ++ b ++ c (LSB first); cat takes its parameters most significant first *)
Theorem op_correct_pack : forall args, fe_pack args = Some (mk_sval TU PNone (concat (map sv_bits args))).
Proof. exact FrontendOpsSpec.fe_pack_spec. Qed.
Print Assumptions op_correct_pack.

Theorem op_correct_cat : forall args, fe_cat args = Some (mk_sval TU PNone (concat (map sv_bits (rev args)))).
Proof. exact FrontendOpsSpec.fe_cat_spec. Qed.
Print Assumptions op_correct_cat.
Example op_correct_cat_ex :
  fe_cat [mk_sval TB PNone [B1]; mk_sval TS PNone []; mk_sval TU PNone [B0; BX]] = Some (mk_sval TU PNone [B0; BX; B1]).
Proof. reflexivity. Qed.

(* ================= static and dynamic shifts and rotates ================= *)

(* shift<>() with a constant amount: for EVERY amount (also > width) and all four fill modes the
   rewire is the bit-vector definition of the shift / rotate (rotate: by the amount modulo the width) *)
Theorem op_correct_static_shift : forall d f x n,
  static_shift d f x n = bv_build (length x) (shift_spec_bit d f (length x) x (N.of_nat n)).
Proof. exact FrontendOpsSpec.static_shift_spec. Qed.
Print Assumptions op_correct_static_shift.
Example op_correct_static_shift_ex :
  static_shift SH_LEFT F_ROTATE [B1; B0; B0; B0; B1; B1; B0; B1] 10 = [B0; B1; B1; B0; B0; B0; B1; B1]    (* rotl(b10110001, 10) = b11000110 *)
  /\ static_shift SH_RIGHT F_ZERO [B1; B0; B1] 7 = [B0; B0; B0]
  /\ static_shift SH_RIGHT F_LAST [B0; BX; B1] 2 = [B1; B1; B1]
  /\ static_shift SH_RIGHT F_LAST [] 3 = [].
Proof. repeat split; reflexivity. Qed.

Theorem op_correct_rot : forall z a,
  is_vec (sv_ty a) = true ->
  fe_rot z a = Some (mk_sval (sv_ty a) PNone
     (bv_build (sv_w a) (shift_spec_bit (if (0 <? z)%Z then SH_LEFT else SH_RIGHT) F_ROTATE (sv_w a) (sv_bits a) (Z.to_N (Z.abs z))))).
Proof. exact FrontendOpsMisc.fe_rot_spec. Qed.
Print Assumptions op_correct_rot.

(* x << n: multiplication by 2^n modulo 2^w, every n *)
Theorem op_correct_shl : forall n a v,
  is_vec (sv_ty a) = true -> bv_val (sv_bits a) = Some v ->
  fe_shl n a = Some (mk_sval (sv_ty a) PNone (bv_of_N (sv_w a) ((v * 2 ^ N.of_nat n) mod 2 ^ N.of_nat (sv_w a))%N)).
Proof. exact FrontendOpsMisc.shl_num. Qed.
Print Assumptions op_correct_shl.

(* UInt / BVec x >> n: division by 2^n, every n *)
Theorem op_correct_shr_uint : forall n a v,
  (sv_ty a = TU \/ sv_ty a = TV) -> bv_val (sv_bits a) = Some v ->
  fe_shr n a = Some (mk_sval (sv_ty a) PNone (bv_of_N (sv_w a) (v / 2 ^ N.of_nat n)%N)).
Proof. exact FrontendOpsMisc.shr_num. Qed.
Print Assumptions op_correct_shr_uint.

(* SInt x >> n: floor (x / 2^n) in two's complement (arithmetic shift), every n *)
Theorem op_correct_shr_sint : forall n a s,
  sv_ty a = TS -> bv_sval (sv_bits a) = Some s ->
  fe_shr n a = Some (mk_sval TS PNone (bv_of_Z (sv_w a) (s / 2 ^ Z.of_nat n)%Z)).
Proof. exact FrontendOpsMisc.shr_sint_num. Qed.
Print Assumptions op_correct_shr_sint.

(* any vector x >> n: SInt replicates the sign bit (arithmetic shift), the others insert zeros *)
Theorem op_correct_shr : forall n a,
  is_vec (sv_ty a) = true ->
  fe_shr n a = Some (mk_sval (sv_ty a) PNone
     (bv_build (sv_w a) (shift_spec_bit SH_RIGHT (match sv_ty a with TS => F_LAST | _ => F_ZERO end) (sv_w a) (sv_bits a) (N.of_nat n)))).
Proof. exact FrontendOpsMisc.fe_shr_spec. Qed.
Print Assumptions op_correct_shr.
Example op_correct_shr_ex :
  fe_shr 10 (mk_sval TU PNone (bv_of_N 8 177)) = Some (mk_sval TU PNone (bv_of_N 8 0))
  /\ fe_shr 2 (mk_sval TS PNone (bv_of_N 8 177)) = Some (mk_sval TS PNone (bv_of_N 8 236))     (* -79 >> 2 = -20 *)
  /\ fe_shl 3 (mk_sval TU PNone (bv_of_N 8 177)) = Some (mk_sval TU PNone (bv_of_N 8 136)).
Proof. repeat split; vm_compute; reflexivity. Qed.

(* zshl oshl sshl zshr oshr sshr rotl rotr with a UInt amount *)
Theorem op_correct_dshift : forall d f a amt n,
  is_vec (sv_ty a) = true -> sv_ty amt = TU -> sv_w amt <= 64 -> bv_val (sv_bits amt) = Some n ->
  fe_dshift d f a amt =
  Some (mk_sval (sv_ty a) PNone (bv_build (sv_w a) (shift_spec_bit d f (sv_w a) (sv_bits a) n))).
Proof. exact FrontendOpsMisc.dshift_spec. Qed.
Print Assumptions op_correct_dshift.

Theorem op_correct_dshift_undef_amount : forall d f a amt,
  is_vec (sv_ty a) = true -> sv_ty amt = TU -> sv_w amt <= 64 -> bv_val (sv_bits amt) = None ->
  fe_dshift d f a amt = Some (mk_sval (sv_ty a) PNone (all_X (sv_w a))).
Proof. exact FrontendOpsMisc.dshift_undef_amount. Qed.
Print Assumptions op_correct_dshift_undef_amount.
Example op_correct_dshift_ex :
  fe_dshift SH_LEFT F_ROTATE (mk_sval TU PNone (bv_of_N 8 177)) (mk_sval TU PNone (bv_of_N 4 10)) = Some (mk_sval TU PNone (bv_of_N 8 198))
  /\ fe_dshr (mk_sval TS PNone (bv_of_N 8 177)) (mk_sval TU PNone (bv_of_N 4 9)) = Some (mk_sval TS PNone (bv_of_N 8 255)).
Proof. split; vm_compute; reflexivity. Qed.

(* shr(x, n, arithmetic) *)
Theorem op_correct_shra : forall n a c v (vc : bool),
  sv_ty a = TU -> sv_ty c = TB -> 0 < n -> n <= sv_w a ->
  bv_val (sv_bits a) = Some v -> sv_bits c = [of_bool vc] ->
  fe_shra n a c =
  Some (mk_sval TU PNone (bv_build (sv_w a) (shift_spec_bit SH_RIGHT (if vc then F_LAST else F_ZERO) (sv_w a) (sv_bits a) (N.of_nat n)))).
Proof. exact FrontendOpsMisc.shra_spec. Qed.
Print Assumptions op_correct_shra.

(* ================= arithmetic ================= *)

(* one arithmetic node on the policy-normalised operands *)
Theorem op_correct_arith_node : forall op t a b xa xb va vb,
  norm a b = Some (xa, xb) -> bv_val xa = Some va -> bv_val xb = Some vb ->
  fe_arith_node op t a b =
  Some (mk_sval t PNone (match arith2 op va vb with
                         | Some z => bv_of_Z (max (sv_w a) (sv_w b)) z
                         | None => all_X (max (sv_w a) (sv_w b))
                         end)).
Proof. exact FrontendOpsArith.arith_node_spec. Qed.
Print Assumptions op_correct_arith_node.

(* UInt + - * / % *)
Theorem op_correct_arith_uint : forall op a b xa xb va vb,
  sv_ty a = TU -> sv_ty b = TU ->
  norm a b = Some (xa, xb) -> bv_val xa = Some va -> bv_val xb = Some vb ->
  let w := max (sv_w a) (sv_w b) in
  fe_arith op a b =
  Some (mk_sval TU PNone
     match op with
     | A_ADD => bv_of_N w ((va + vb) mod 2 ^ N.of_nat w)%N
     | A_SUB => bv_of_Z w (Z.of_N va - Z.of_N vb)
     | A_MUL => bv_of_N w ((va * vb) mod 2 ^ N.of_nat w)%N
     | A_DIV => if (vb =? 0)%N then all_X w else bv_of_N w (va / vb)%N
     | A_REM => if (vb =? 0)%N then all_X w else bv_of_N w (va mod vb)%N
     end).
Proof. exact FrontendOpsArith.arith_uint_spec. Qed.
Print Assumptions op_correct_arith_uint.
Example op_correct_arith_uint_ex :
  let a := mk_sval TU PNone (bv_of_N 65 (2 ^ 64 + 5)) in let b := mk_sval TU PZero (bv_of_N 3 7) in
  norm a b = Some (bv_of_N 65 (2 ^ 64 + 5), bv_of_N 65 7)
  /\ fe_arith A_SUB b a = Some (mk_sval TU PNone (bv_of_N 65 (2 ^ 64 + 2)))          (* 7 - (2^64+5) mod 2^65 *)
  /\ fe_arith A_DIV a (mk_sval TU PZero []) = Some (mk_sval TU PNone (all_X 65))      (* x / UInt(0) *)
  /\ fe_arith A_ADD a (mk_sval TU PNone (bv_of_N 3 7)) = None.                        (* no policy: rejected *)
Proof. repeat split; vm_compute; reflexivity. Qed.

(* SInt + - over Z *)
Theorem op_correct_addsub_sint : forall op a b xa xb sa sb,
  sv_ty a = TS -> sv_ty b = TS -> (op = A_ADD \/ op = A_SUB) ->
  norm a b = Some (xa, xb) -> bv_sval xa = Some sa -> bv_sval xb = Some sb ->
  fe_arith op a b =
  Some (mk_sval TS PNone (bv_of_Z (max (sv_w a) (sv_w b)) (match op with A_ADD => sa + sb | _ => sa - sb end)%Z)).
Proof. exact FrontendOpsArith.arith_sint_addsub_spec. Qed.
Print Assumptions op_correct_addsub_sint.

(* SInt * SInt, equal widths (0 included) *)
Theorem op_correct_mul_sint : forall a b sa sb,
  sv_ty a = TS -> sv_ty b = TS -> sv_w a = sv_w b ->
  bv_sval (sv_bits a) = Some sa -> bv_sval (sv_bits b) = Some sb ->
  fe_arith A_MUL a b = Some (mk_sval TS PNone (bv_of_Z (sv_w a) (sa * sb)%Z)).
Proof. exact FrontendOpsArith.mul_sint_same_width. Qed.
Print Assumptions op_correct_mul_sint.

(* SInt * SInt, different widths: the abs / conditional-negate graph; every pair of values, every
   width combination >= 1, every expansion policy (false before repair 10eda73, see corpus/C03b) *)
Theorem op_correct_mul_sint_mixed : forall a b sa sb,
  sv_ty a = TS -> sv_ty b = TS -> sv_w a <> sv_w b -> 0 < sv_w a -> 0 < sv_w b ->
  bv_sval (sv_bits a) = Some sa -> bv_sval (sv_bits b) = Some sb ->
  fe_arith A_MUL a b = Some (mk_sval TS PNone (bv_of_Z (max (sv_w a) (sv_w b)) (sa * sb)%Z)).
Proof. exact FrontendOpsArith.mul_sint_mixed_width. Qed.
Print Assumptions op_correct_mul_sint_mixed.
Example op_correct_mul_sint_mixed_ex :
  let m1 := mk_sval TS PSign [B1] in let b := mk_sval TS PNone (bv_of_N 8 3) in
  bv_sval (sv_bits m1) = Some (-1)%Z /\ bv_sval (sv_bits b) = Some 3%Z
  /\ fe_arith A_MUL m1 b = Some (mk_sval TS PNone (bv_of_N 8 253))                    (* SInt(-1) * 3 = -3 *)
  /\ fe_arith A_MUL (mk_sval TS PSign (bv_of_N 4 8)) b = Some (mk_sval TS PNone (bv_of_N 8 232)).   (* -8 * 3 = -24 *)
Proof. repeat split; vm_compute; reflexivity. Qed.

Theorem op_correct_mul_sint_rejected : forall a b,
  sv_ty a = TS -> sv_ty b = TS -> sv_w a <> sv_w b -> (sv_w a = 0 \/ sv_w b = 0) -> fe_arith A_MUL a b = None.
Proof. exact FrontendOpsArith.mul_sint_rejected. Qed.
Print Assumptions op_correct_mul_sint_rejected.

(* abs: the magnitude as an unsigned number (2^(w-1) for the most negative value) *)
Theorem op_correct_abs : forall a s,
  0 < sv_w a -> bv_sval (sv_bits a) = Some s ->
  fe_abs a = Some (mk_sval TU PZero (bv_of_N (sv_w a) (Z.to_N (Z.abs s)))) /\ (Z.abs s < 2 ^ Z.of_nat (sv_w a))%Z.
Proof. exact FrontendOpsArith.abs_spec. Qed.
Print Assumptions op_correct_abs.

Theorem op_correct_abs_rejected : forall a, sv_w a = 0 -> fe_abs a = None.
Proof. exact FrontendOpsArith.abs_rejected. Qed.
Print Assumptions op_correct_abs_rejected.
Example op_correct_abs_ex :
  fe_abs (mk_sval TS PSign (bv_of_N 4 8)) = Some (mk_sval TU PZero (bv_of_N 4 8))     (* |-8| = 8 at 4 bit *)
  /\ fe_abs (mk_sval TS PNone (bv_of_N 70 (2 ^ 70 - 5))) = Some (mk_sval TU PZero (bv_of_N 70 5)).
Proof. split; vm_compute; reflexivity. Qed.

(* UInt / SInt + - Bit: the bit is zero extended *)
Theorem op_correct_arith_bit : forall op a c,
  (sv_ty a = TU \/ sv_ty a = TS) -> sv_ty c = TB -> (op = A_ADD \/ op = A_SUB) ->
  fe_arith op a c = fe_arith_node op (sv_ty a) a (mk_sval TU PZero (sv_bits c)).
Proof. exact FrontendOpsArith.arith_bit_spec. Qed.
Print Assumptions op_correct_arith_bit.

(* addC *)
Theorem op_correct_addc : forall a b c xa xb va vb (vc : bool),
  sv_ty a = TU -> sv_ty b = TU -> sv_ty c = TB ->
  norm a b = Some (xa, xb) -> bv_val xa = Some va -> bv_val xb = Some vb -> sv_bits c = [of_bool vc] ->
  let w := max (sv_w a) (sv_w b) in
  fe_addc a b c =
  if w =? 0 then None
  else Some (mk_sval TU PNone (bv_of_N w ((va + vb + N.b2n vc) mod 2 ^ N.of_nat w)%N)).
Proof. exact FrontendOpsArith.addc_spec. Qed.
Print Assumptions op_correct_addc.

(* ================= comparison ================= *)

(* one compare node on the policy-normalised operands (== != between all type pairs that compile) *)
Theorem op_correct_cmp_node : forall op a b xa xb va vb,
  norm a b = Some (xa, xb) -> bv_val xa = Some va -> bv_val xb = Some vb ->
  fe_cmp_node op a b = Some (mk_sval TB PNone [of_bool (cmp_N op va vb)]).
Proof. exact FrontendOpsArith.cmp_node_spec. Qed.
Print Assumptions op_correct_cmp_node.

Theorem op_correct_cmp_uint : forall op a b xa xb va vb,
  sv_ty a = TU -> sv_ty b = TU ->
  norm a b = Some (xa, xb) -> bv_val xa = Some va -> bv_val xb = Some vb ->
  fe_cmp op a b = Some (mk_sval TB PNone [of_bool (cmp_N op va vb)]).
Proof. exact FrontendOpsArith.cmp_uint_spec. Qed.
Print Assumptions op_correct_cmp_uint.

(* SInt < > <= >= : ALL operand pairs of ALL widths >= 1 (also different ones), overflow of the
   difference included - the sign is taken from the (max+1)-bit difference *)
Theorem op_correct_cmp_sint : forall op a b sa sb,
  sv_ty a = TS -> sv_ty b = TS -> (op = C_LT \/ op = C_GT \/ op = C_LEQ \/ op = C_GEQ) ->
  0 < sv_w a -> 0 < sv_w b ->
  bv_sval (sv_bits a) = Some sa -> bv_sval (sv_bits b) = Some sb ->
  fe_cmp op a b = Some (mk_sval TB PNone [of_bool (cmp_Z op sa sb)]).
Proof. exact FrontendOpsArith.cmp_sint_spec. Qed.
Print Assumptions op_correct_cmp_sint.
(* 3 < -7 at 4 bit: the repaired graph says false; the graph before repair 1bb3187 (sign of the
   4-bit difference, fe_lt_sint_old) says true - the theorem above does not hold for it *)
Example op_correct_cmp_sint_ex :
  let a := mk_sval TS PNone (bv_of_N 4 3) in let b := mk_sval TS PNone (bv_of_N 4 9) in
  bv_sval (sv_bits a) = Some 3%Z /\ bv_sval (sv_bits b) = Some (-7)%Z
  /\ fe_cmp C_LT a b = Some (mk_sval TB PNone [B0])
  /\ fe_lt_sint_old a b = Some (mk_sval TB PNone [B1])
  /\ fe_cmp C_GEQ (mk_sval TS PNone (bv_of_N 65 (2 ^ 64))) (mk_sval TS PNone (bv_of_N 2 1)) = Some (mk_sval TB PNone [B0]).
Proof. repeat split; vm_compute; reflexivity. Qed.

Theorem op_correct_cmp_sint_rejected : forall op a b,
  sv_ty a = TS -> sv_ty b = TS -> (op = C_LT \/ op = C_GT \/ op = C_LEQ \/ op = C_GEQ) ->
  (sv_w a = 0 \/ sv_w b = 0) -> fe_cmp op a b = None.
Proof. exact FrontendOpsArith.cmp_sint_rejected. Qed.
Print Assumptions op_correct_cmp_sint_rejected.

(* SInt == != *)
Theorem op_correct_eq_sint : forall op a b xa xb sa sb,
  sv_ty a = TS -> sv_ty b = TS -> (op = C_EQ \/ op = C_NEQ) ->
  norm a b = Some (xa, xb) -> bv_sval xa = Some sa -> bv_sval xb = Some sb ->
  fe_cmp op a b = Some (mk_sval TB PNone [of_bool (cmp_Z op sa sb)]).
Proof. exact FrontendOpsArith.eq_sint_spec. Qed.
Print Assumptions op_correct_eq_sint.

(* ================= logic ================= *)

Theorem op_correct_logic : forall op a b xa xb va vb,
  sv_ty a = sv_ty b ->
  norm a b = Some (xa, xb) -> bv_val xa = Some va -> bv_val xb = Some vb ->
  fe_logic op a b =
  Some (mk_sval (sv_ty a) PNone (bv_of_N (max (sv_w a) (sv_w b)) (logic_N op (max (sv_w a) (sv_w b)) va vb))).
Proof. exact FrontendOpsArith.logic_spec. Qed.
Print Assumptions op_correct_logic.

(* vector op Bit and Bit op vector: the bit is broadcast to every position *)
Theorem op_correct_logic_bit : forall op a c va (vc : bool),
  is_vec (sv_ty a) = true -> sv_ty c = TB -> 0 < sv_w a ->
  bv_val (sv_bits a) = Some va -> sv_bits c = [of_bool vc] ->
  let w := sv_w a in
  fe_logic op a c = Some (mk_sval (sv_ty a) PNone (bv_of_N w (logic_N op w va (if vc then N.ones (N.of_nat w) else 0%N)))) /\
  fe_logic op c a = Some (mk_sval (sv_ty a) PNone (bv_of_N w (logic_N op w (if vc then N.ones (N.of_nat w) else 0%N) va))).
Proof. exact FrontendOpsArith.logic_bit_spec. Qed.
Print Assumptions op_correct_logic_bit.

Theorem op_correct_not : forall a va,
  bv_val (sv_bits a) = Some va ->
  fe_not a = Some (mk_sval (sv_ty a) PNone (bv_of_N (sv_w a) (N.lxor va (N.ones (N.of_nat (sv_w a)))))).
Proof. exact FrontendOpsArith.not_spec. Qed.
Print Assumptions op_correct_not.
Example op_correct_logic_ex :
  fe_logic L_NAND (mk_sval TV PNone (bv_of_N 5 21)) (mk_sval TB PNone [B1]) = Some (mk_sval TV PNone (bv_of_N 5 10))
  /\ fe_logic L_XOR (mk_sval TU PNone [B1; BX]) (mk_sval TU PSign [B1]) = Some (mk_sval TU PNone [B0; BX]).
Proof. split; vm_compute; reflexivity. Qed.

(* ================= mux, dynamic bit and slice ================= *)

Theorem op_correct_mux : forall sel t0 rest s,
  let table := t0 :: rest in
  bv_val (sv_bits sel) = Some s ->
  (N.of_nat (length table) <= 2 ^ N.of_nat (sv_w sel))%N ->
  (forall t, In t table -> sv_w t = sv_w t0) ->
  fe_mux sel table =
  Some (mk_sval (sv_ty t0) PNone
      (if (s <? N.of_nat (length table))%N then sv_bits (nth (N.to_nat s) table t0) else all_X (sv_w t0))).
Proof. exact FrontendOpsMisc.mux_spec. Qed.
Print Assumptions op_correct_mux.

Theorem op_correct_mux_truncated : forall sel t0 rest s,
  let table := t0 :: rest in
  bv_val (sv_bits sel) = Some s ->
  (2 ^ N.of_nat (sv_w sel) < N.of_nat (length table))%N -> sv_pol sel = PZero ->
  (forall t, In t table -> sv_w t = sv_w t0) ->
  fe_mux sel table = Some (mk_sval (sv_ty t0) PNone (sv_bits (nth (N.to_nat s) table t0))).
Proof. exact FrontendOpsMisc.mux_truncated_spec. Qed.
Print Assumptions op_correct_mux_truncated.

Theorem op_correct_mux_rejected : forall sel table,
  table = [] \/ ((2 ^ N.of_nat (sv_w sel) < N.of_nat (length table))%N /\ sv_pol sel <> PZero) ->
  fe_mux sel table = None.
Proof. exact FrontendOpsMisc.mux_rejected. Qed.
Print Assumptions op_correct_mux_rejected.

Theorem op_correct_mux_bit : forall (c : bool) a b,
  sv_w a = sv_w b ->
  fe_mux (mk_sval TB PNone [of_bool c]) [a; b] = Some (mk_sval (sv_ty a) PNone (sv_bits (if c then b else a))).
Proof. exact FrontendOpsMisc.mux_bit_spec. Qed.
Print Assumptions op_correct_mux_bit.
Example op_correct_mux_ex :
  let t := [mk_sval TU PNone (bv_of_N 4 1); mk_sval TU PNone (bv_of_N 4 2); mk_sval TU PNone (bv_of_N 4 3)] in
  fe_mux (mk_sval TU PNone (bv_of_N 2 2)) t = Some (mk_sval TU PNone (bv_of_N 4 3))
  /\ fe_mux (mk_sval TU PNone (bv_of_N 2 3)) t = Some (mk_sval TU PNone (all_X 4))       (* table shorter than 2^w *)
  /\ fe_mux (mk_sval TU PNone (bv_of_N 1 1)) t = None
  /\ fe_mux (mk_sval TU PZero (bv_of_N 1 1)) t = Some (mk_sval TU PNone (bv_of_N 4 2)).
Proof. repeat split; vm_compute; reflexivity. Qed.

Theorem op_correct_dynbit : forall a idx i,
  is_vec (sv_ty a) = true -> sv_ty idx = TU -> 0 < sv_w a -> bv_val (sv_bits idx) = Some i ->
  fe_dynbit a idx = Some (mk_sval TB PNone [bv_get (sv_bits a) (N.to_nat i)]).
Proof. exact FrontendOpsMisc.dynbit_spec. Qed.
Print Assumptions op_correct_dynbit.

Theorem op_correct_dynslice : forall sz a off o,
  is_vec (sv_ty a) = true -> sv_ty off = TU -> sv_w off <= 16 -> bv_val (sv_bits off) = Some o ->
  fe_dynslice sz a off = Some (mk_sval (sv_ty a) (sv_pol a) (bv_slice (sv_bits a) (N.to_nat o) sz)).
Proof. exact FrontendOpsMisc.dynslice_spec. Qed.
Print Assumptions op_correct_dynslice.
Example op_correct_dyn_ex :
  fe_dynbit (mk_sval TU PNone (bv_of_N 5 4)) (mk_sval TU PNone (bv_of_N 3 2)) = Some (mk_sval TB PNone [B1])
  /\ fe_dynbit (mk_sval TU PNone (bv_of_N 5 4)) (mk_sval TU PNone (bv_of_N 3 6)) = Some (mk_sval TB PNone [BX])
  /\ fe_dynslice 3 (mk_sval TV PNone (bv_of_N 5 21)) (mk_sval TU PNone (bv_of_N 2 3)) = Some (mk_sval TV PNone [B0; B1; BX]).
Proof. repeat split; vm_compute; reflexivity. Qed.

(* ================= several slices of one object: part / parts, writes through slices, alias caches ================= *)

(* x.part(P, idx) / x.parts(P)[idx] *)
Theorem op_correct_part : forall p a idx i,
  is_vec (sv_ty a) = true -> sv_ty idx = TU -> 0 < p -> sv_w a mod p = 0 -> bv_val (sv_bits idx) = Some i ->
  let pw := sv_w a / p in
  fe_part p a idx =
  Some (mk_sval (sv_ty a) (sv_pol a) (if (i <? N.of_nat p)%N then bv_slice (sv_bits a) (N.to_nat i * pw) pw else all_X pw)).
Proof. exact FrontendOpsSlices.part_spec. Qed.
Print Assumptions op_correct_part.

Theorem op_correct_part_rejected : forall p a idx, p = 0 \/ sv_w a mod p <> 0 -> fe_part p a idx = None.
Proof. exact FrontendOpsSlices.part_rejected. Qed.
Print Assumptions op_correct_part_rejected.

(* alias = value through a static slice: exactly the addressed bits change, nothing else *)
Theorem op_correct_write_static : forall off w x v,
  off + w <= length x -> off < length x -> length v = w ->
  write_static off w x v = Some (firstn off x ++ v ++ skipn (off + w) x).
Proof. exact FrontendOpsSlices.write_static_spec. Qed.
Print Assumptions op_correct_write_static.

(* alias = value through x(idx, w) / x.part(P, idx) / x[idx]: the write lands at idx * stride *)
Theorem op_correct_write_dyn : forall n mul w idx i x v,
  bv_val idx = Some i -> length v = w ->
  (forall j, j < n -> j * mul + w <= length x /\ j * mul < length x) ->
  write_dyn n mul w idx x v =
  Some (if (i <? N.of_nat n)%N
        then firstn (N.to_nat i * mul) x ++ v ++ skipn (N.to_nat i * mul + w) x
        else all_X (length x)).
Proof. exact FrontendOpsSlices.write_dyn_spec. Qed.
Print Assumptions op_correct_write_dyn.

(* the alias caches are transparent: in a sequence of read requests on ONE object every request has
   the value of its own definition, whatever was requested before and in whatever order *)
Theorem op_correct_slices_transparent : forall fs x aux,
  is_vec (sv_ty x) = true ->
  fe_mslice (map SR_read fs) x aux =
  match all_some (map (fun f => read_form f x aux) fs) with
  | Some rs => fe_pack (rs ++ [x])
  | None => None
  end.
Proof. exact FrontendOpsSlices.mslice_reads_spec. Qed.
Print Assumptions op_correct_slices_transparent.

(* requests after a write see the updated object *)
Theorem op_correct_slices_write_then : forall f k rest x aux v x',
  is_vec (sv_ty x) = true -> aux_get aux k = Some v -> write_form f x aux v = Some x' ->
  fe_mslice (SR_write f k :: rest) x aux =
  (if is_vec (sv_ty x') then mslice_run rest x' aux [] else None).
Proof. exact FrontendOpsSlices.mslice_write_then. Qed.
Print Assumptions op_correct_slices_write_then.
(* 32 bit x = 0xDEADBEEF, 2 bit idx = 2: x.part(4, idx) = 0xAD and x(idx, 8) = 0xBB in both request orders
   (with a slice cache keyed without the stride the second request returned the first one's alias) *)
Example op_correct_slices_ex :
  let x := mk_sval TU PNone (bv_of_N 32 3735928559) in let idx := mk_sval TU PNone (bv_of_N 2 2) in
  fe_part 4 x idx = Some (mk_sval TU PNone (bv_of_N 8 173)) /\ fe_dynslice 8 x idx = Some (mk_sval TU PNone (bv_of_N 8 187))
  /\ fe_mslice [SR_read (SF_part 4 0); SR_read (SF_dyn 8 0)] x [idx] = Some (mk_sval TU PNone (bv_of_N 8 173 ++ bv_of_N 8 187 ++ bv_of_N 32 3735928559))
  /\ fe_mslice [SR_read (SF_dyn 8 0); SR_read (SF_part 4 0)] x [idx] = Some (mk_sval TU PNone (bv_of_N 8 187 ++ bv_of_N 8 173 ++ bv_of_N 32 3735928559))
  /\ fe_mslice [SR_write (SF_part 4 0) 1; SR_read (SF_dyn 8 0)] x [idx; mk_sval TU PNone (bv_of_N 8 0)]
     = Some (mk_sval TU PNone (bv_of_N 8 187 ++ bv_of_N 32 3724590831)).                 (* word 2 cleared: 0xDE00BEEF; bits 9..2 still 0xBB *)
Proof. repeat split; vm_compute; reflexivity. Qed.

(* ================= literals ================= *)

(* UInt(v) / BVec(v): exactly the bits of v *)
Theorem op_correct_lit_uint : forall v,
  (v < 2 ^ 64)%N -> bv_val (lit_uint v) = Some v /\ length (lit_uint v) = N.to_nat (N.size v).
Proof. exact FrontendOpsMisc.lit_uint_spec. Qed.
Print Assumptions op_correct_lit_uint.

(* SInt(z): two's complement value z, the whole int64 range (INT64_MIN and INT64_MAX included: 64 bit) *)
Theorem op_correct_lit_sint : forall z,
  (- 2 ^ 63 <= z < 2 ^ 63)%Z -> bv_sval (lit_sint z) = Some z /\ length (lit_sint z) = lit_sint_width z /\ lit_sint_width z <= 64.
Proof. exact FrontendOpsMisc.lit_sint_spec. Qed.
Print Assumptions op_correct_lit_sint.

(* "[w]b.." "[w]o.." "[w]x.." *)
Theorem op_correct_lit_str : forall wopt b (ds : list N),
  Forall (fun d => (d < 2 ^ N.of_nat (base_bps b))%N) ds ->
  let body := base_bps b * length ds in
  lit_str wopt b (map (@Some N) ds) =
  if (wopt =? 0) || (body <=? wopt)
  then Some (bv_of_N (if wopt =? 0 then body else wopt) (lsd_val (base_bps b) (rev ds)))
  else None.
Proof. exact FrontendOpsMisc.lit_str_spec. Qed.
Print Assumptions op_correct_lit_str.

(* "[w]d<n>" *)
Theorem op_correct_lit_dec : forall wopt n x, lit_dec wopt n = Some x -> bv_val x = Some n.
Proof. exact FrontendOpsMisc.lit_dec_value. Qed.
Print Assumptions op_correct_lit_dec.

(* ConstUInt(v, w) / ConstBVec(v, w) *)
Theorem op_correct_const : forall v w,
  (v < 2 ^ 64)%N -> bv_val (const_bits v w) = Some (v mod 2 ^ N.of_nat w)%N /\ length (const_bits v w) = w.
Proof. exact FrontendOpsMisc.const_spec. Qed.
Print Assumptions op_correct_const.
Example op_correct_lit_ex :
  lit_uint 10 = bv_of_N 4 10 /\ lit_sint (-8) = bv_of_N 4 8 /\ lit_sint (-1) = [B1] /\ lit_sint 5 = bv_of_N 4 5 /\ lit_uint 0 = []
  /\ lit_str 0 LB_HEX [Some 15%N; None] = Some [BX; BX; BX; BX; B1; B1; B1; B1]               (* "xFx" *)
  /\ lit_str 4 LB_BIN [Some 1%N; Some 0%N; Some 1%N; Some 0%N] = Some (bv_of_N 4 10)          (* "4b1010" *)
  /\ lit_str 3 LB_BIN [Some 1%N; Some 0%N; Some 1%N; Some 0%N] = None
  /\ lit_sint (- 2 ^ 63) = bv_of_N 64 (2 ^ 63) /\ lit_sint (2 ^ 63 - 1) = bv_of_N 64 (2 ^ 63 - 1) /\ lit_uint (2 ^ 64 - 1) = bv_of_N 64 (2 ^ 64 - 1)
  /\ fe_apply (F_lit_int TS (-1)%Z) [] = Some (mk_sval TS PSign [B1])
  /\ fe_apply (F_lit_int TU (-1)%Z) [] = None.
Proof. repeat split; vm_compute; reflexivity. Qed.
