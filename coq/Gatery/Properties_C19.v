(* C19 -- placeholder while the pipeline is brought up; replaced by the real theorem list. *)
From Coq Require Import List NArith QArith Bool.
From Gatery Require Import SimProcDefs.

Theorem ev_less_irrefl : forall e, ev_less e e = false.
Proof.
  intro e. unfold ev_less, clock_more, clock_less.
  rewrite !Z.ltb_irrefl, !N.ltb_irrefl. destruct (e_type e); reflexivity.
Qed.
Print Assumptions ev_less_irrefl.
