(* C19 -- Simulation processes run deterministically in the documented phase order.
   Model: SimProcDefs.v (transcription of ReferenceSimulator.cpp / SimulationProcess.h scheduling, tied to
   the real simulator by checks/C19.py on every run), FiberDefs.v (thread hand-off of SimulationFiber.cpp).
   Proofs: SimProcOrder.v SimProcSteps.v SimProcInv1.v .. SimProcInv8.v SimProcExamples.v FiberProofs.v.

   Quantifiers: every clock configuration [cfg] (one or two clocks, any frequencies), every set of process
   scripts and fork targets, coroutine or fiber mode, every tie-break stream [tb] (the order in which
   std::priority_queue yields equivalent clockPinTrigger events), every fuel, every run length; for the fiber
   protocol every interleaving of the two threads including spurious wake-ups.
   "Reachable" = reachable in the small-step semantics of SimProcSteps.v, which contains every state the
   interpreter [run] passes through (interpreter_states_reachable). *)
From Coq Require Import List NArith ZArith QArith Bool.
From Gatery Require Import SimProcDefs SimProcOrder SimProcSteps SimProcInv1 SimProcInv2 SimProcInv3 SimProcInv4 SimProcInv5 SimProcInv6 SimProcInv7 SimProcInv8 SimProcExamples FiberDefs FiberProofs.
Import ListNotations.
Local Close Scope Q_scope.

(* ---------------------------------------------------------------- Event::operator< *)

(* [klt a b]: a is served strictly before b, i.e. `b < a` of Event::operator< (ev_less_klt).
   The order is a strict weak order ... *)
Theorem event_order_strict_weak :
  (forall a b, ev_less b a = true <-> klt a b) /\
  (forall a, ~ klt a a) /\ (forall a b c, klt a b -> klt b c -> klt a c) /\
  (forall a b c, incomparable a b -> incomparable b c -> incomparable a c).
Proof. exact event_order_strict_weak_proof. Qed.
Print Assumptions event_order_strict_weak.

(* ... total on process resumptions with different insertion ids, where within one instant
   (time, phase, micro tick) it is the order of the insertion ids ... *)
Theorem event_order_total_on_resumptions : forall a b,
  e_type a = SimProcResume -> e_type b = SimProcResume -> e_id a <> e_id b ->
  (klt a b \/ klt b a) /\ (stamp_eq a b -> (klt a b <-> (e_id a < e_id b)%N)).
Proof. exact event_order_total_on_resumptions_proof. Qed.
Print Assumptions event_order_total_on_resumptions.
Example event_order_total_on_resumptions_ex :
  klt (resume_event 1 0 AFTER 0 3 WkStable (ghost0 0)) (resume_event 1 0 AFTER 1 5 WkStable (ghost0 0)).
Proof. apply klt_same_instant_resume; try reflexivity; repeat split; reflexivity. Qed.

(* ... but NOT a strict total order on all events: the clockPinTrigger events of two different clock pins
   with the same time are distinct and incomparable (std::priority_queue may yield either first). *)
Theorem event_order_total_refuted : forall t,
  incomparable (trigger_event t CA) (trigger_event t CB) /\ trigger_event t CA <> trigger_event t CB.
Proof. exact triggers_incomparable. Qed.
Print Assumptions event_order_total_refuted.

(* ---------------------------------------------------------------- the interpreter and the small-step semantics *)

Theorem interpreter_states_reachable : forall cfg procs fiber until tb fuel,
  exists stk, treach cfg (boot cfg procs fiber tb, []) (run cfg procs fiber until tb fuel, stk).
Proof. exact run_reachable. Qed.
Print Assumptions interpreter_states_reachable.

(* ---------------------------------------------------------------- same-instant FIFO *)

(* In every reachable state the queue is sorted; two queued resumptions of the same instant stand in the
   order of their insertion ids (ids are taken from one counter at suspension: SimProcInv1.bk_change), and
   what pop() yields is never preceded by anything left in the queue: it is the head, or the second element if
   the first two are equivalent clockPinTrigger events.  Hence processes whose resumptions are in the queue
   together resume in the order in which they suspended. *)
Theorem same_instant_fifo : forall cfg procs fiber tb s stk,
  treach cfg (boot cfg procs fiber tb, []) (s, stk) ->
  qsorted (s_queue s) /\
  (forall l1 a l2 b l3, s_queue s = l1 ++ a :: l2 ++ b :: l3 ->
     e_type a = SimProcResume -> e_type b = SimProcResume -> stamp_eq a b -> (e_id a < e_id b)%N) /\
  (forall e s1, pop_event s = Some (e, s1) ->
     (forall x, In x (s_queue s1) -> ~ klt x e) /\
     (exists q, s_queue s = e :: q \/ exists e2 r, s_queue s = e2 :: e :: r /\ incomparable e2 e
                                      /\ e_type e2 = ClockPinTrigger /\ e_type e = ClockPinTrigger)).
Proof. exact same_instant_fifo_all_proof. Qed.
Print Assumptions same_instant_fifo.

(* KNOWN FINDING (KNOWN_FINDINGS.txt cross-clock-before-fifo).  The full statement "processes that become
   runnable at the same instant resume in the order in which they suspended" is FALSE for phase BEFORE on two
   clocks with coincident edges: the BEFORE-phase waiters of the second clock enter the queue only after those
   of the first clock have run.  Witness (two 1 Hz clocks; p0 waits on clock B, then p1 on clock A): the log of
   the model -- which agrees with the real simulator on this script set (checks/C19.py) -- contains two
   resumptions of the same (time, phase, micro tick) in the reverse order of their insertion ids. *)
Theorem same_instant_fifo_cross_clock_before_refuted :
  exists l1 e l2 e' l3 t ph mt i t' i',
    res_log (simulate cfg_two_1hz procs_cross false 2 [] 2000) = l1 ++ e :: l2 ++ e' :: l3 /\
    ev_wake e = Some (t, ph, mt, i) /\ ev_wake e' = Some (t', ph, mt, i') /\ (t == t')%Q /\ (i' < i)%N.
Proof. exact cross_clock_before_witness. Qed.
Print Assumptions same_instant_fifo_cross_clock_before_refuted.

(* ---------------------------------------------------------------- WaitFor, WaitChange *)

(* a process resumed from WaitFor(q) that suspended at time t0 runs at exactly t0 + q (in Q), in phase AFTER *)
Theorem waitfor_exact : forall cfg procs fiber until tb fuel t ph mt ro pid q g,
  In (LProc t ph mt ro pid (AWake (WkFor q) g)) (res_log (simulate cfg procs fiber until tb fuel)) ->
  (t == g_t0 g + uQ q)%Q /\ ph = AFTER.
Proof. exact waitfor_exact_proof. Qed.
Print Assumptions waitfor_exact.

(* a process is resumed from WaitChange only with a snapshot (taken at suspension) and an observation (at the
   check that scheduled the resumption) of the watched signals that differ; every firing of a watch differs *)
Theorem waitchange_only_on_change : forall cfg procs fiber until tb fuel,
  (forall t ph mt ro pid m g,
     In (LProc t ph mt ro pid (AWake (WkChange m) g)) (res_log (simulate cfg procs fiber until tb fuel)) ->
     changed (g_refs g) (g_cur g) /\ ph = AFTER) /\
  (forall pid refs cur, In (LFire pid refs cur) (res_log (simulate cfg procs fiber until tb fuel)) -> changed refs cur).
Proof. exact waitchange_only_on_change_proof. Qed.
Print Assumptions waitchange_only_on_change.
Example waits_nontrivial :
  res_oof (simulate cfg_one procs_demo false 5 [] 5000) = false /\
  count_entries (fun e => match e with LProc _ _ _ _ _ (AWake (WkFor _) _) => true | _ => false end) = 2%nat /\
  count_entries (fun e => match e with LProc _ _ _ _ _ (AWake (WkChange _) _) => true | _ => false end) = 1%nat.
Proof. destruct demo_nontrivial as (A & B & C & _). exact (conj A (conj B C)). Qed.

(* ---------------------------------------------------------------- WaitClock: the tick grid *)

(* [tick f j] = j/f.  Every resumption from a clock wait happens at a tick k/f (k >= 1) of the awaited clock, not
   before the suspension (time g_t0), with no tick strictly between suspension and resumption:
   - clocks that drive clocked nodes (WkClk): resumed by the next activating clockPinTrigger;
   - clocks that are NOT part of the simulation program (WkX; root or derived): resumed by an ordinary event at
     exactly (floor(t0*f)+1)/f, strictly after t0, in the requested timing phase (all three phases alike). *)
Theorem waitclk_on_tick_grid : forall cfg procs fiber until tb fuel,
  (forall t ph mt ro pid c wph g,
     In (LProc t ph mt ro pid (AWake (WkClk c wph) g)) (res_log (simulate cfg procs fiber until tb fuel)) ->
     exists j : positive, (t == tick (clk_freq cfg (eff_clk cfg c)) (Zpos j))%Q /\ (g_t0 g <= t)%Q
                          /\ (t - / clk_freq cfg (eff_clk cfg c) <= g_t0 g)%Q) /\
  (forall t ph mt ro pid i wph g,
     In (LProc t ph mt ro pid (AWake (WkX i wph) g)) (res_log (simulate cfg procs fiber until tb fuel)) ->
     (t == next_tick (extra_freq cfg i) (g_t0 g))%Q /\ ph = wph /\
     (exists j : Z, (1 <= j)%Z /\ (t == tick (extra_freq cfg i) j)%Q) /\
     (g_t0 g < t)%Q /\ (t - / extra_freq cfg i <= g_t0 g)%Q).
Proof. exact waitclk_on_tick_grid_proof. Qed.
Print Assumptions waitclk_on_tick_grid.

(* A clock that drives registers and a register-less clock of the same frequency wake their waiters at the same
   instants: a process that waited on clock c from t0 and was resumed strictly later than t0 was resumed exactly
   when a wait on the register-less clock i issued at the same t0 ends.  (Resumption AT t0 happens only in the
   known cross-clock situation: suspended in phase BEFORE of an instant at which c's own trigger is still queued.) *)
Theorem equal_frequency_same_instants : forall cfg procs fiber until tb fuel t ph mt ro pid c wph g i,
  In (LProc t ph mt ro pid (AWake (WkClk c wph) g)) (res_log (simulate cfg procs fiber until tb fuel)) ->
  (clk_freq cfg (eff_clk cfg c) == extra_freq cfg i)%Q -> (g_t0 g < t)%Q ->
  (t == next_tick (extra_freq cfg i) (g_t0 g))%Q.
Proof. exact equal_frequency_same_instants_proof. Qed.
Print Assumptions equal_frequency_same_instants.
(* clock A 100 Hz with registers, register-less clocks of 100 Hz (root) and 75 Hz (derived 3/4); waits issued 1/4
   and 2/3 of a period after a tick: both processes wake at 1/100 and 1/50, then p0 hops to 2/75 and 3/100 *)
Example tick_grid_nontrivial :
  extra_wakes = [(0%nat, 1 # 100); (1%nat, 1 # 100); (0%nat, 1 # 50); (1%nat, 1 # 50); (0%nat, 2 # 75); (0%nat, 3 # 100)]%Q.
Proof. exact (proj1 extra_wakes_value). Qed.

(* ---------------------------------------------------------------- phases BEFORE / DURING / AFTER *)
(* The log of the final state is [s_log (run ...)], NEWEST ENTRY FIRST (res_log is its reverse): in
   [pre ++ e :: old], [old] is what had been logged when e was logged and [pre] what was logged afterwards.
   Reading the circuit off a log: [regs_of_log l] = register values recorded by the newest clock flank in l;
   [pinv p l] = value of the newest write to pin p in l; [after_reeval l] = l as of its newest reevaluate().
   Circuit: RA = reg(PA), RA2 = reg(RA) on clock A; RB = reg(PB) on clock B (on A if there is one clock). *)

(* What a read returns: for a register the value given to it by the most recent clock flank, for the
   combinational output the value of the most recent reevaluate(). *)
Theorem reads_see_last_edge : forall cfg procs fiber until tb fuel pre t ph mt ro pid x v old,
  s_log (run cfg procs fiber until tb fuel) = pre ++ LProc t ph mt ro pid (ARead x v) :: old ->
  v = read_log x old.
Proof. exact reads_see_last_edge_proof. Qed.
Print Assumptions reads_see_last_edge.

(* What a clock flank does: on the activating flank every register of the clock's domain takes the value its data
   input had at the last reevaluate() before the flank, the other registers keep theirs ([edge_regs]); and every
   pin write not yet evaluated at that moment was made in phase DURING of this very instant. *)
Theorem edge_semantics : forall cfg procs fiber until tb fuel pre t k rising ra ra2 rb old,
  s_log (run cfg procs fiber until tb fuel) = pre ++ LEdge t k rising ra ra2 rb :: old ->
  (ra, ra2, rb) = edge_regs (c_two cfg) k rising old /\
  (forall w, In w (since_reeval old) -> is_write w = true -> exists mt ro pid a, w = LProc t DURING mt ro pid a).
Proof. exact edge_semantics_proof. Qed.
Print Assumptions edge_semantics.

(* BEFORE.  (1) Whatever a process does in phase BEFORE of time t -- being resumed, reading, writing -- happens
   before any clock flank of time t is served: by reads_see_last_edge it sees the register values from before
   the edge.  (2) Its pin writes are evaluated before the next flank, and (3) the register clocked by that flank
   holds the written value afterwards (unless the pin is written again before the flank). *)
Theorem before_sees_old_and_is_captured : forall cfg procs fiber until tb fuel,
  (forall pre t mt ro pid a old,
     s_log (run cfg procs fiber until tb fuel) = pre ++ LProc t BEFORE mt ro pid a :: old -> ~ edge_at t old) /\
  (forall pre t k rising ra ra2 rb mid tw mtw ro pid p v old,
     s_log (run cfg procs fiber until tb fuel) =
       pre ++ LEdge t k rising ra ra2 rb :: mid ++ LProc tw BEFORE mtw ro pid (AWrite p v) :: old ->
     In LReeval mid) /\
  (forall pre t k ra ra2 rb mid tw mtw ro pid p v old,
     s_log (run cfg procs fiber until tb fuel) =
       pre ++ LEdge t k true ra ra2 rb :: mid ++ LProc tw BEFORE mtw ro pid (AWrite p v) :: old ->
     (forall t' ph' mt' ro' pid' v', ~ In (LProc t' ph' mt' ro' pid' (AWrite p v')) mid) ->
     match p, k with
     | PA, CA => ra = Some v
     | PB, CB => c_two cfg = true -> rb = Some v
     | PB, CA => c_two cfg = false -> rb = Some v
     | PA, CB => True
     end).
Proof. exact before_sees_old_and_is_captured_proof. Qed.
Print Assumptions before_sees_old_and_is_captured.

(* DURING.  (1) Whatever a process does in phase DURING of time t happens before any clock flank of time t is
   served (it sees the old register values).  (2) A pin write made in phase DURING of the flank's own instant is
   NOT evaluated before the flank: the registers that advance take the values their pins had at the
   reevaluate() that preceded the write (after_reeval of the log with the write = after_reeval without it). *)
Theorem during_sees_old_not_captured : forall cfg procs fiber until tb fuel,
  (forall pre t mt ro pid a old,
     s_log (run cfg procs fiber until tb fuel) = pre ++ LProc t DURING mt ro pid a :: old -> ~ edge_at t old) /\
  (forall pre t k rising ra ra2 rb mid tw mtw ro pid p v old,
     s_log (run cfg procs fiber until tb fuel) =
       pre ++ LEdge t k rising ra ra2 rb :: mid ++ LProc tw DURING mtw ro pid (AWrite p v) :: old ->
     (tw == t)%Q ->
     ~ In LReeval mid /\
     (ra, ra2, rb) = edge_regs (c_two cfg) k rising (mid ++ LProc tw DURING mtw ro pid (AWrite p v) :: old) /\
     after_reeval (mid ++ LProc tw DURING mtw ro pid (AWrite p v) :: old) = after_reeval old).
Proof. exact during_sees_old_not_captured_proof. Qed.
Print Assumptions during_sees_old_not_captured.

(* AFTER.  A process resumed by WaitClock(c, AFTER) at time t runs after the registers of c have advanced at t;
   by reads_see_last_edge its reads return the new values. *)
Theorem after_sees_new : forall cfg procs fiber until tb fuel pre t ph mt ro pid c g old,
  s_log (run cfg procs fiber until tb fuel) = pre ++ LProc t ph mt ro pid (AWake (WkClk c AFTER) g) :: old ->
  edge_logged (eff_clk cfg c) t old.
Proof. exact after_follows_edge_proof. Qed.
Print Assumptions after_sees_new.
Example phases_nontrivial :
  count_entries (fun e => match e with LProc _ BEFORE _ _ _ (AWake (WkClk _ _) _) => true | _ => false end) = 1%nat /\
  count_entries (fun e => match e with LProc _ DURING _ _ _ (AWake (WkClk _ _) _) => true | _ => false end) = 1%nat /\
  count_entries (fun e => match e with LProc _ AFTER _ _ _ (AWake (WkClk _ _) _) => true | _ => false end) = 3%nat /\
  count_entries (fun e => match e with LEdge _ _ true _ _ _ => true | _ => false end) = 7%nat.
Proof. destruct demo_nontrivial as (_ & _ & _ & A & B & C & D & _). exact (conj A (conj B (conj C D))). Qed.

(* ---------------------------------------------------------------- determinism *)

(* [simulate] is a function of (clock configuration, scripts, mode, run length, tie-break stream, fuel): the log
   depends on nothing else (no addresses, no hash order, no OS schedule: fibers are covered by handoff_mutex).
   The tie-break stream stands for the one thing Event::operator< leaves open (which of two equivalent
   clockPinTrigger events of different pins is served first).
   FULL STATEMENT (not proved):  forall tb tb', c_two cfg = false ->
       res_log (simulate cfg procs fiber until tb fuel) = res_log (simulate cfg procs fiber until tb' fuel),
   and for two clocks the same whenever no tie is consumed.
   PROVED (partial): with a single clock no tie-break bit is ever consumed -- the queue never holds two
   clockPinTrigger events, so pop_event never reaches the branch that reads the stream.  Missing for the full
   statement: the (routine) relational argument that the stream is read nowhere else. *)
Theorem run_deterministic_partial : forall cfg procs fiber until tb fuel,
  c_two cfg = false -> res_ties (simulate cfg procs fiber until tb fuel) = 0%N.
Proof. exact single_clock_no_ties_proof. Qed.
Print Assumptions run_deterministic_partial.

(* ---------------------------------------------------------------- fibers: thread hand-off *)

(* In every reachable state of the two-thread system (any interleaving, spurious wake-ups): simulator user code
   and fiber user code never overlap; while the simulator runs m_threadRunning is false, while the fiber body
   runs (before termination is requested) it is true. *)
Theorem handoff_mutex : forall s, reachable s ->
  (main_user s = true -> fiber_user s = true -> False) /\
  (main_user s = true -> running s = false) /\
  (fiber_user s = true -> term s = false -> running s = true) /\
  (fiber_user s = true -> main_user s = false).
Proof. exact handoff_mutex_proof. Qed.
Print Assumptions handoff_mutex.

(* The literal "at most one thread is outside a wait" holds up to what spurious wake-ups force: while the
   simulator runs, the fiber thread is blocked, or re-checking its loop condition inside suspend() (holding the
   mutex, touching only the two flags) -- and that state IS reachable. *)
Theorem handoff_fiber_parked_while_simulator_runs :
  (forall s, reachable s -> main_user s = true -> fiber_in_wait s = true \/ pf s = FLoop \/ pf s = FCheckTerm) /\
  (exists s, reachable s /\ main_user s = true /\ pf s = FCheckTerm).
Proof. exact handoff_fiber_parked_proof. Qed.
Print Assumptions handoff_fiber_parked_while_simulator_runs.

(* Several fibers (each with its own mutex / flags / condition variables) and one simulator thread that is inside
   at most one start()/resume()/terminate() call at a time: no two fiber bodies ever run at the same time, and
   none runs while the simulator proper runs. *)
Theorem multi_fiber_mutex : forall n ss, mreachable n ss ->
  (forall i j s t, i <> j -> nth_error ss i = Some s -> nth_error ss j = Some t ->
     fiber_user s = true -> fiber_user t = true -> False) /\
  (sim_user ss -> forall s, In s ss -> fiber_user s = false).
Proof. exact multi_fiber_mutex_proof. Qed.
Print Assumptions multi_fiber_mutex.

(* no deadlock / no lost wake-up: every reachable state that is not the final one has a step that is not a
   spurious wake-up *)
Theorem handoff_progress : forall s, reachable s -> final s = true \/ exists s', In s' (step_nospurious s).
Proof. exact handoff_progress_proof. Qed.
Print Assumptions handoff_progress.
