(* C08 at node level: the two congruences of DESIGN.md 3.5.
     eval_compat : inputs that never contradict give outputs that never contradict (every kind)
     eval_mono   : more defined inputs give more defined outputs (every kind; multiplexers
                   under total_mux)
   Both are instances of one generic theorem over a relation R on bits. *)
From Gatery Require Import Bits NodeSemDefs NodeSemBits NodeSemSpec NodeSemSpecShift NodeSemReg.
Import ListNotations.

Section Generic.

Variable R : tbit -> tbit -> Prop.
Hypothesis Rrefl : forall a, R a a.
Hypothesis RXl : forall a, R BX a.
(* related bits: the left one is undefined, or they are equal, or the right one is undefined
   and then R relates everything to X *)
Hypothesis Rbit : forall a b, R a b -> a = BX \/ a = b \/ (b = BX /\ forall c, R c BX).

Definition Rtop : Prop := forall c, R c BX.

Lemma R_allX_l w y : length y = w -> Forall2 R (all_X w) y.
Proof.
  intro H. apply Forall2_of_get; [rewrite all_X_length; symmetry; exact H|].
  intros i _. rewrite bv_get_allX. apply RXl.
Qed.

Lemma R_allX_r w y : Rtop -> length y = w -> Forall2 R y (all_X w).
Proof.
  intros T H. apply Forall2_of_get; [rewrite all_X_length; exact H|].
  intros i _. rewrite bv_get_allX. apply T.
Qed.

Lemma R_refl_bv x : Forall2 R x x.
Proof. apply Forall2_refl_on. exact Rrefl. Qed.

Lemma Rget x y i : Forall2 R x y -> R (bv_get x i) (bv_get y i).
Proof. intro H. apply Forall2_get; [apply Rrefl | exact H]. Qed.

(* a fully defined vector is related only to itself, or to a not fully defined one (and then Rtop) *)
Lemma Rdet x y a : Forall2 R x y -> bv_val x = Some a -> y = x \/ (bv_val y = None /\ Rtop).
Proof.
  intro H. revert a. induction H as [|p q x y Hpq Hxy IH]; intros a Ha; [left; reflexivity|].
  rewrite bv_val_cons in Ha.
  destruct (bv_val x) as [u|] eqn:Ex; [|destruct p; discriminate].
  destruct (Rbit p q Hpq) as [->|[->|[-> T]]].
  - discriminate.
  - destruct (IH u eq_refl) as [->|[Hy T]]; [left; reflexivity|].
    right. split; [|exact T]. rewrite bv_val_cons, Hy. destruct q; reflexivity.
  - right. split; [reflexivity | exact T].
Qed.

Lemma inp_rel xs ys i : Forall2 (opt_rel R) xs ys -> opt_rel R (inp xs i) (inp ys i).
Proof.
  intro H. revert i. induction H as [|o o' xs ys Ho Hxs IH]; intro i.
  - unfold inp. destruct i; constructor.
  - destruct i; [exact Ho | apply IH].
Qed.

Lemma opt_bits_R o o' : opt_rel R o o' -> Forall2 R (opt_bits o) (opt_bits o').
Proof. intros [|x y H]; [constructor | exact H]. Qed.

(* ---------------- logic ---------------- *)

Lemma logic_bit_R op a a' b b' : R a a' -> R b b' -> R (logic_bit op a b) (logic_bit op a' b').
Proof.
  intros Ha Hb.
  destruct (Rbit a a' Ha) as [->|[->|[-> Ta]]]; destruct (Rbit b b' Hb) as [->|[->|[-> Tb]]];
    destruct op; try destruct a; try destruct a'; try destruct b; try destruct b'; cbn;
    first [apply Rrefl | apply RXl | apply Ta | apply Tb].
Qed.

Lemma eval_logic_R op w xs ys :
  Forall2 (opt_rel R) xs ys -> Forall2 (Forall2 R) (eval_logic op w xs) (eval_logic op w ys).
Proof.
  intro H. unfold eval_logic. constructor; [|constructor]. apply Forall2_build. intros i _.
  apply logic_bit_R.
  - apply Rget. apply opt_bits_R. apply inp_rel. exact H.
  - destruct op; try (apply Rget; apply opt_bits_R; apply inp_rel; exact H); apply Rrefl.
Qed.

(* ---------------- arithmetic ---------------- *)

Lemma arith_operands_R xs ys vs :
  Forall2 (opt_rel R) xs ys -> arith_operands xs = Some vs ->
  arith_operands ys = Some vs \/ (arith_operands ys = None /\ Rtop).
Proof.
  intro H. revert vs. induction H as [|o o' xs ys Ho Hxs IH]; intros vs Hv; [left; exact Hv|].
  cbn [arith_operands] in *. destruct Ho as [|x y Hxy]; [discriminate|].
  destruct (bv_val x) as [v|] eqn:Ex; [|discriminate].
  destruct (arith_operands xs) as [us|] eqn:Eus; [|discriminate].
  destruct (Rdet x y v Hxy Ex) as [->|[Hy T]].
  - rewrite Ex. destruct (IH us eq_refl) as [->|[-> T]]; [left; exact Hv | right; split; [reflexivity | exact T]].
  - rewrite Hy. right. split; [reflexivity | exact T].
Qed.

Lemma eval_arith_len op w xs o : eval_arith op w xs = [o] -> length o = w.
Proof.
  intro H. pose proof (eval_length (KArith op w) xs) as L. cbn [eval out_widths] in L. rewrite H in L.
  simpl in L. congruence.
Qed.

Lemma eval_arith_single op w xs : exists o, eval_arith op w xs = [o].
Proof.
  unfold eval_arith. destruct (arith_operands xs); [|eexists; reflexivity].
  destruct (w <=? 64).
  - destruct (arith64 op l); eexists; reflexivity.
  - destruct (arithZ op l); eexists; reflexivity.
Qed.

Lemma eval_arith_R op w xs ys :
  Forall2 (opt_rel R) xs ys -> Forall2 (Forall2 R) (eval_arith op w xs) (eval_arith op w ys).
Proof.
  intro H.
  destruct (eval_arith_single op w xs) as [o1 E1]. destruct (eval_arith_single op w ys) as [o2 E2].
  pose proof (eval_arith_len _ _ _ _ E1) as L1. pose proof (eval_arith_len _ _ _ _ E2) as L2.
  rewrite E1, E2. constructor; [|constructor].
  unfold eval_arith in E1, E2.
  destruct (arith_operands xs) as [vs|] eqn:Ex.
  - destruct (arith_operands_R xs ys vs H Ex) as [Ey|[Ey T]]; rewrite Ey in E2.
    + rewrite E1 in E2. injection E2 as <-. apply R_refl_bv.
    + injection E2 as <-. apply R_allX_r; assumption.
  - injection E1 as <-. apply R_allX_l. exact L2.
Qed.

(* ---------------- compare ---------------- *)

Lemma eval_compare_R op xs ys :
  Forall2 (opt_rel R) xs ys -> Forall2 (Forall2 R) (eval_compare op xs) (eval_compare op ys).
Proof.
  intro H. unfold eval_compare.
  pose proof (inp_rel xs ys 0 H) as H0. pose proof (inp_rel xs ys 1 H) as H1.
  assert (XB : forall c, Forall2 (Forall2 R) [[BX]] [[c]]) by (intro c; repeat constructor; apply RXl).
  destruct H0 as [|a a' Ha]; [repeat constructor; apply RXl|].
  destruct H1 as [|b b' Hb]; [repeat constructor; apply RXl|].
  rewrite <- (Forall2_length_eq _ _ _ Ha), <- (Forall2_length_eq _ _ _ Hb).
  destruct ((length a =? 0) && (length b =? 0)); [repeat constructor; apply Rrefl|].
  destruct (bv_val a) as [va|] eqn:Ea.
  2:{ destruct (bv_val a'); [destruct (bv_val b')|]; try destruct (_ && _); apply XB. }
  destruct (bv_val b) as [vb|] eqn:Eb.
  2:{ destruct (bv_val a'); [destruct (bv_val b')|]; try destruct (_ && _); apply XB. }
  destruct (Rdet a a' va Ha Ea) as [->|[Ha' T]].
  - rewrite Ea. destruct (Rdet b b' vb Hb Eb) as [->|[Hb' T]].
    + rewrite Eb. destruct (_ && _); repeat constructor; apply Rrefl.
    + rewrite Hb'. destruct (_ && _); repeat constructor; apply T.
  - rewrite Ha'. destruct (_ && _); repeat constructor; apply T.
Qed.

(* ---------------- shift ---------------- *)

Lemma shift_fillbit_R d f w x x' : Forall2 R x x' -> R (shift_fillbit d f w x) (shift_fillbit d f w x').
Proof.
  intro H. unfold shift_fillbit. destruct f; try apply Rrefl.
  destruct (w =? 0); [apply Rrefl|]. destruct d; apply Rget; exact H.
Qed.

Lemma shift_core_R d f w x x' a :
  Forall2 R x x' -> Forall2 R (shift_core d f w x a) (shift_core d f w x' a).
Proof.
  intro H. rewrite !shift_core_spec. apply Forall2_build. intros i _. unfold shift_spec_bit.
  pose proof (shift_fillbit_R d f w x x' H) as F.
  destruct f; destruct d; try (apply Rget; exact H);
    try (destruct (N.of_nat i <? a)%N; [exact F | apply Rget; exact H]);
    (destruct (N.of_nat i + a <? N.of_nat w)%N; [apply Rget; exact H | exact F]).
Qed.

Lemma eval_shift_R d f w xs ys :
  Forall2 (opt_rel R) xs ys -> Forall2 (Forall2 R) (eval_shift d f w xs) (eval_shift d f w ys).
Proof.
  intro H. unfold eval_shift.
  pose proof (inp_rel xs ys 0 H) as H0. pose proof (inp_rel xs ys 1 H) as H1.
  destruct H1 as [|amt amt' Ha]; [repeat constructor; apply R_refl_bv|].
  rewrite <- (Forall2_length_eq _ _ _ Ha).
  destruct (64 <? length amt); [repeat constructor; apply R_refl_bv|].
  destruct (bv_val amt) as [a|] eqn:Ea.
  - destruct (Rdet amt amt' a Ha Ea) as [->|[Ha' T]].
    + rewrite Ea. constructor; [|constructor]. apply shift_core_R. apply opt_bits_R. exact H0.
    + rewrite Ha'. constructor; [|constructor]. apply R_allX_r; [exact T | apply shift_core_length].
  - destruct (bv_val amt'); (constructor; [|constructor]); apply R_allX_l;
      [apply shift_core_length | apply all_X_length].
Qed.

(* ---------------- rewire ---------------- *)

Lemma rewire_piece_R xs ys r :
  Forall2 (opt_rel R) xs ys -> Forall2 R (rewire_piece xs r) (rewire_piece ys r).
Proof.
  intro H. unfold rewire_piece. destruct (rw_src r) as [idx off| | |]; try apply R_refl_bv.
  destruct (inp_rel xs ys idx H) as [|x y Hxy]; [apply R_refl_bv|].
  apply Forall2_slice; [apply Rrefl | exact Hxy].
Qed.

Lemma eval_rewire_R ranges xs ys :
  Forall2 (opt_rel R) xs ys -> Forall2 (Forall2 R) (eval (KRewire ranges) xs) (eval (KRewire ranges) ys).
Proof.
  intro H. rewrite !eval_rewire_spec. constructor; [|constructor].
  induction ranges as [|r rs IH]; cbn [map concat]; [constructor|].
  apply Forall2_app; [apply rewire_piece_R; exact H | exact IH].
Qed.

(* ---------------- multiplexer ---------------- *)

Lemma merge_all_eq ts ts' m :
  Forall2 R ts ts' -> Forall (fun t => t = m) ts -> m <> BX -> Forall (fun t => t = m) ts' \/ Rtop.
Proof.
  intros H. induction H as [|t t' ts ts' Ht Hts IH]; intros Hall Hm; [left; constructor|].
  inversion Hall as [|? ? Et Hrest]; subst.
  destruct (Rbit m t' Ht) as [E|[E|[_ T]]]; [contradiction | | right; exact T].
  destruct (IH Hrest Hm) as [Hall'|T]; [left; constructor; [symmetry; exact E | exact Hall'] | right; exact T].
Qed.

Lemma merge_R ts ts' : Forall2 R ts ts' -> R (mux_merge_bit ts) (mux_merge_bit ts').
Proof.
  intro H. destruct (tbit_eq_dec (mux_merge_bit ts) BX) as [E|Hm]; [rewrite E; apply RXl|].
  set (m := mux_merge_bit ts) in *.
  destruct (proj1 (mux_merge_bit_defined ts m Hm) eq_refl) as [Hne Hall].
  destruct (tbit_eq_dec (mux_merge_bit ts') BX) as [E'|Hm'].
  - rewrite E'. destruct (merge_all_eq ts ts' m H Hall Hm) as [Hall'|T]; [|apply T].
    exfalso. assert (Hne' : ts' <> []) by (destruct H; [contradiction | discriminate]).
    pose proof (proj2 (mux_merge_bit_defined ts' m Hm) (conj Hne' Hall')) as C. congruence.
  - destruct (proj1 (mux_merge_bit_defined ts' _ Hm') eq_refl) as [_ Hall'].
    destruct H as [|t t' ts ts' Ht Hts]; [contradiction|].
    pose proof (Forall_inv Hall) as E1. pose proof (Forall_inv Hall') as E2. cbv beta in E1, E2.
    rewrite <- E1, <- E2. exact Ht.
Qed.

Lemma merge_nth ts j : j < length ts -> mux_merge_bit ts <> BX -> bv_get ts j = mux_merge_bit ts.
Proof.
  intros Hj Hm. destruct (proj1 (mux_merge_bit_defined ts _ Hm) eq_refl) as [_ Hall].
  rewrite Forall_forall in Hall. apply Hall. unfold bv_get. apply nth_In. exact Hj.
Qed.

Definition dbits (xs : list (option bv)) (n b : nat) : list tbit :=
  bv_build n (fun i => bv_get (opt_bits (inp xs (1 + i))) b).

Lemma dbits_R xs ys n b : Forall2 (opt_rel R) xs ys -> Forall2 R (dbits xs n b) (dbits ys n b).
Proof.
  intro H. apply Forall2_build. intros i _. apply Rget. apply opt_bits_R. apply inp_rel. exact H.
Qed.

Lemma pow_N_nat k : N.of_nat (2 ^ k) = (2 ^ N.of_nat k)%N.
Proof.
  induction k as [|k IH]; [reflexivity|].
  rewrite Nat.pow_succ_r'. rewrite Nat2N.inj_mul, IH.
  replace (N.of_nat (S k)) with (N.succ (N.of_nat k)) by lia. rewrite N.pow_succ_r'. reflexivity.
Qed.

Definition mux_out (n w : nat) (xs : list (option bv)) : bv :=
  match inp xs 0 with
  | None => all_X w
  | Some sel =>
      match bv_val sel with
      | None => bv_build w (fun b => mux_merge_bit (dbits xs n b))
      | Some s =>
          if (N.of_nat n <=? s)%N then all_X w
          else match inp xs (1 + N.to_nat s) with Some x => bv_resize w x | None => all_X w end
      end
  end.

Lemma eval_mux_out n w xs : eval_mux n w xs = [mux_out n w xs].
Proof.
  unfold eval_mux, mux_out. destruct (inp xs 0) as [sel|]; [|reflexivity].
  destruct (bv_val sel) as [s|]; [|reflexivity].
  destruct (N.of_nat n <=? s)%N; [reflexivity|]. destruct (inp xs (1 + N.to_nat s)); reflexivity.
Qed.

Lemma inp_rel_cases xs ys i :
  Forall2 (opt_rel R) xs ys ->
  (inp xs i = None /\ inp ys i = None) \/
  (exists x y, inp xs i = Some x /\ inp ys i = Some y /\ Forall2 R x y).
Proof.
  intro H. pose proof (inp_rel xs ys i H) as Hi.
  destruct (inp xs i) as [x|]; destruct (inp ys i) as [y|]; inversion Hi; subst.
  - right. exists x, y. repeat split; assumption.
  - left. split; reflexivity.
Qed.

Lemma dbits_get xs n b j : j < n -> bv_get (dbits xs n b) j = bv_get (opt_bits (inp xs (1 + j))) b.
Proof.
  intro Hj. unfold dbits. rewrite bv_get_build. apply Nat.ltb_lt in Hj. rewrite Hj. reflexivity.
Qed.

Lemma dbits_length xs n b : length (dbits xs n b) = n.
Proof. apply bv_build_length. Qed.

Lemma eval_mux_R n w xs ys :
  Forall2 (opt_rel R) xs ys -> Rtop \/ total_mux (KMux n w) xs ->
  Forall2 (Forall2 R) (eval_mux n w xs) (eval_mux n w ys).
Proof.
  intros H Hside. rewrite !eval_mux_out. constructor; [|constructor]. unfold mux_out.
  unfold total_mux in Hside.
  destruct (inp_rel_cases xs ys 0 H) as [[E0 E0']|[s [s' [E0 [E0' Hs]]]]]; rewrite E0, E0'; [apply R_refl_bv|].
  rewrite E0 in Hside.
  destruct (bv_val s) as [a|] eqn:Ea.
  - destruct (Rdet s s' a Hs Ea) as [->|[Hs' T]].
    + (* same defined selector *)
      rewrite Ea. destruct (N.of_nat n <=? a)%N; [apply R_refl_bv|].
      destruct (inp_rel_cases xs ys (1 + N.to_nat a) H) as [[Ex Ey]|[x [y [Ex [Ey Hxy]]]]]; rewrite Ex, Ey;
        [apply R_refl_bv | apply Forall2_resize; [apply Rrefl | exact Hxy]].
    + (* right selector undefined: the right side is the merge of all inputs *)
      rewrite Hs'. destruct (N.leb_spec (N.of_nat n) a) as [Hoor|Hin].
      { apply R_allX_l. apply bv_build_length. }
      destruct (inp_rel_cases xs ys (1 + N.to_nat a) H) as [[Ex Ey]|[x [y [Ex [Ey Hxy]]]]]; rewrite Ex.
      { apply R_allX_l. apply bv_build_length. }
      apply Forall2_build. intros b _.
      destruct (tbit_eq_dec (mux_merge_bit (dbits ys n b)) BX) as [E|Hm]; [rewrite E; apply T|].
      rewrite <- (merge_nth (dbits ys n b) (N.to_nat a)); [|rewrite dbits_length; lia | exact Hm].
      rewrite dbits_get by lia. rewrite Ey. cbn [opt_bits]. apply Rget. exact Hxy.
  - (* left selector undefined: the left side is the merge of all inputs *)
    destruct (bv_val s') as [a'|] eqn:Ea'.
    + destruct (N.leb_spec (N.of_nat n) a') as [Hoor|Hin].
      * (* defined and out of range: impossible under total_mux *)
        destruct Hside as [T|Htot].
        -- apply R_allX_r; [exact T | apply bv_build_length].
        -- exfalso. pose proof (bv_val_lt s' a' Ea') as B.
           rewrite <- (Forall2_length_eq _ _ _ Hs) in B. rewrite <- pow_N_nat in B. lia.
      * destruct (inp_rel_cases xs ys (1 + N.to_nat a') H) as [[Ex Ey]|[x [y [Ex [Ey Hxy]]]]]; rewrite Ey.
        -- (* selected input unconnected on both sides: then the merge is undefined as well *)
           apply Forall2_of_get; [rewrite bv_build_length, all_X_length; reflexivity|].
           intros b Hb. rewrite bv_build_length in Hb. rewrite bv_get_build, bv_get_allX.
           apply Nat.ltb_lt in Hb. rewrite Hb.
           destruct (tbit_eq_dec (mux_merge_bit (dbits xs n b)) BX) as [E|Hm]; [rewrite E; apply RXl|].
           exfalso. apply Hm.
           rewrite <- (merge_nth (dbits xs n b) (N.to_nat a')); [|rewrite dbits_length; lia | exact Hm].
           rewrite dbits_get by lia. rewrite Ex. cbn [opt_bits]. apply bv_get_nil.
        -- apply Forall2_build. intros b _.
           destruct (tbit_eq_dec (mux_merge_bit (dbits xs n b)) BX) as [E|Hm]; [rewrite E; apply RXl|].
           rewrite <- (merge_nth (dbits xs n b) (N.to_nat a')); [|rewrite dbits_length; lia | exact Hm].
           rewrite dbits_get by lia. rewrite Ex. cbn [opt_bits]. apply Rget. exact Hxy.
    + apply Forall2_build. intros b _. apply merge_R. apply dbits_R. exact H.
Qed.

(* ---------------- priority conditional ---------------- *)

Lemma copy_or_X_R w o o' : opt_rel R o o' -> Forall2 R (copy_or_X w o) (copy_or_X w o').
Proof.
  intros [|x y H]; simpl; [apply R_refl_bv | apply Forall2_resize; [apply Rrefl | exact H]].
Qed.

Lemma copy_or_X_length w o : length (copy_or_X w o) = w.
Proof. destruct o; simpl; [apply bv_build_length | apply all_X_length]. Qed.

Lemma prio_loop_R w d d' cs cs' :
  opt_rel R d d' -> Forall2 (opt_rel R) cs cs' -> Forall2 R (prio_loop w d cs) (prio_loop w d' cs').
Proof.
  intros Hd.
  assert (G : forall n cs cs', length cs <= n -> Forall2 (opt_rel R) cs cs' ->
                               Forall2 R (prio_loop w d cs) (prio_loop w d' cs')).
  { induction n as [|n IH]; intros l l' Hn Hl.
    - destruct Hl; [simpl; apply copy_or_X_R; exact Hd | simpl in Hn; lia].
    - destruct Hl as [|c c' l l' Hc Hl]; [simpl; apply copy_or_X_R; exact Hd|].
      destruct Hl as [|v v' l l' Hv Hl]; [simpl; apply copy_or_X_R; exact Hd|].
      cbn [prio_loop]. destruct Hc as [|cb cb' Hcb]; [apply R_refl_bv|].
      pose proof (Rget cb cb' 0 Hcb) as Hb.
      destruct (Rbit _ _ Hb) as [E|[E|[E T]]].
      + rewrite E. apply R_allX_l.
        destruct (bv_get cb' 0); [apply prio_loop_length | apply copy_or_X_length | apply all_X_length].
      + rewrite <- E. destruct (bv_get cb 0).
        * apply IH; [simpl in Hn; lia | exact Hl].
        * apply copy_or_X_R. exact Hv.
        * apply R_refl_bv.
      + rewrite E. apply R_allX_r; [exact T|].
        destruct (bv_get cb 0); [apply prio_loop_length | apply copy_or_X_length | apply all_X_length]. }
  intro H. apply (G (length cs)); [lia | exact H].
Qed.

Lemma Forall2_firstn {A B} (P : A -> B -> Prop) n l l' : Forall2 P l l' -> Forall2 P (firstn n l) (firstn n l').
Proof.
  intro H. revert n. induction H; intros [|n]; simpl; constructor; auto.
Qed.

Lemma eval_prio_R n w xs ys :
  Forall2 (opt_rel R) xs ys -> Forall2 (Forall2 R) (eval_prio n w xs) (eval_prio n w ys).
Proof.
  intro H. unfold eval_prio. constructor; [|constructor].
  apply prio_loop_R; [apply inp_rel; exact H|].
  apply Forall2_firstn. destruct H; [constructor | assumption].
Qed.

(* ---------------- forwarding ---------------- *)

Lemma eval_forward_R w xs ys :
  Forall2 (opt_rel R) xs ys -> Forall2 (Forall2 R) (eval_forward w xs) (eval_forward w ys).
Proof.
  intro H. unfold eval_forward. destruct (inp_rel xs ys 0 H) as [|x y Hxy]; repeat constructor.
  - apply R_refl_bv.
  - apply Forall2_resize; [apply Rrefl | exact Hxy].
Qed.

(* ---------------- all kinds ---------------- *)

Theorem eval_R k xs ys :
  Forall2 (opt_rel R) xs ys -> Rtop \/ total_mux k xs ->
  Forall2 (Forall2 R) (eval k xs) (eval k ys).
Proof.
  intros H Hside. destruct k; cbn [eval].
  - apply eval_logic_R; exact H.
  - apply eval_arith_R; exact H.
  - apply eval_compare_R; exact H.
  - apply eval_shift_R; exact H.
  - apply eval_rewire_R; exact H.
  - apply eval_mux_R; assumption.
  - apply eval_prio_R; exact H.
  - repeat constructor. apply R_refl_bv.
  - apply eval_forward_R; exact H.
Qed.

(* ---------------- register ---------------- *)

Lemma write_reset_value_R c b s t : reg_rel R s t -> reg_rel R (write_reset_value c b s) (write_reset_value c b t).
Proof.
  intros [Hd [He [Hr Ho]]]. unfold write_reset_value, reg_rel.
  destruct (rc_reset_value c) as [rv|]; [|destruct b]; cbn [rs_int_data rs_int_enable rs_in_reset rs_out];
    repeat split; try assumption; apply R_refl_bv.
Qed.

Theorem reg_poweron_R c s t : reg_rel R s t -> reg_rel R (reg_poweron c s) (reg_poweron c t).
Proof.
  intro H. apply (write_reset_value_R c true) in H. destruct H as [Hd [He [Hr Ho]]].
  unfold reg_poweron, reg_rel. cbn [rs_int_data rs_int_enable rs_in_reset rs_out]. repeat split; assumption.
Qed.

Theorem reg_reset_R c h s t : reg_rel R s t -> reg_rel R (reg_reset c h s) (reg_reset c h t).
Proof.
  intros [Hd [He [Hr Ho]]]. unfold reg_reset.
  match goal with |- context [if ?b then _ else _] => destruct b end.
  - apply write_reset_value_R. unfold reg_rel. cbn [rs_int_data rs_int_enable rs_in_reset rs_out]. repeat split; assumption.
  - unfold reg_rel. cbn [rs_int_data rs_int_enable rs_in_reset rs_out]. repeat split; assumption.
Qed.

Theorem reg_latch_R c d d' e e' s t :
  opt_rel R d d' -> opt_rel R e e' -> reg_rel R s t -> reg_rel R (reg_latch c d e s) (reg_latch c d' e' t).
Proof.
  intros Hd He [_ [_ [Hr Ho]]]. unfold reg_latch, reg_rel. cbn [rs_int_data rs_int_enable rs_in_reset rs_out].
  repeat split; try assumption.
  - destruct Hd as [|x y H]; [apply R_refl_bv | apply Forall2_resize; [apply Rrefl | exact H]].
  - destruct He as [|x y H]; [apply Rrefl | apply Rget; exact H].
Qed.

Definition advance_out (c : reg_cfg) (s : reg_state) : bv :=
  match rs_int_enable s with
  | BX => all_X (rc_width c)
  | B1 => bv_resize (rc_width c) (rs_int_data s)
  | B0 => rs_out s
  end.

Lemma reg_advance_noreset c s :
  rs_in_reset s = false ->
  reg_advance c s = mk_reg_state (rs_int_data s) (rs_int_enable s) false (advance_out c s).
Proof.
  intro H. unfold reg_advance, advance_out. rewrite H. destruct s as [d e r o]. simpl in *. subst r.
  destruct e; reflexivity.
Qed.

Lemma advance_out_length c s : reg_wf c s -> length (advance_out c s) = rc_width c.
Proof.
  intros [_ H]. unfold advance_out. destruct (rs_int_enable s); [exact H | apply bv_build_length | apply all_X_length].
Qed.

(* an undefined enable makes the output undefined; nothing else about the enable matters *)
Theorem reg_advance_R c s t :
  reg_wf c s -> reg_wf c t -> reg_rel R s t -> reg_rel R (reg_advance c s) (reg_advance c t).
Proof.
  intros Ws Wt H. pose proof H as [Hd [He [Hr Ho]]].
  destruct (rs_in_reset s) eqn:Es.
  - unfold reg_advance. rewrite <- Hr, Es.
    destruct (rc_reset_type c); try exact H. apply write_reset_value_R. exact H.
  - rewrite (reg_advance_noreset c s Es), (reg_advance_noreset c t) by congruence.
    unfold reg_rel. cbn [rs_int_data rs_int_enable rs_in_reset rs_out]. repeat split; try assumption.
    unfold advance_out at 1 2.
    destruct (Rbit _ _ He) as [E|[E|[E T]]].
    + rewrite E. apply R_allX_l. fold (advance_out c t). apply advance_out_length. exact Wt.
    + rewrite <- E. destruct (rs_int_enable s); [exact Ho | apply Forall2_resize; [apply Rrefl | exact Hd] | apply R_refl_bv].
    + rewrite E. apply R_allX_r; [exact T|]. fold (advance_out c s). apply advance_out_length. exact Ws.
Qed.

End Generic.

(* ================================================================== *)
(* the two instances                                                     *)

Lemma compat_bit a b : compat a b -> a = BX \/ a = b \/ (b = BX /\ forall c, compat c BX).
Proof.
  intros [H|[H|H]]; [left; exact H | right; right; split; [exact H | intro c; right; left; reflexivity] | right; left; exact H].
Qed.

Lemma le_def_bit a b : le_def a b -> a = BX \/ a = b \/ (b = BX /\ forall c, le_def c BX).
Proof. intros [H|H]; [left; exact H | right; left; exact H]. Qed.

(* C08 at node level: for EVERY kind, width and parameter *)
Theorem eval_compat k xs ys :
  ins_compat xs ys -> Forall2 bv_compat (eval k xs) (eval k ys).
Proof.
  intro H. apply (eval_R compat compat_refl compat_BX_l compat_bit); [exact H|].
  left. intro c. apply compat_BX_r.
Qed.

(* monotonicity; the only side condition is on multiplexers *)
Theorem eval_mono k xs ys :
  total_mux k xs -> ins_le xs ys -> Forall2 bv_le (eval k xs) (eval k ys).
Proof.
  intros Ht H. apply (eval_R le_def le_def_refl le_def_BX le_def_bit); [exact H|]. right. exact Ht.
Qed.

(* ... and it IS needed: a 1-bit selector with a single data input *)
Theorem eval_mono_mux_refuted :
  exists k xs ys, ins_le xs ys /\ ~ Forall2 bv_le (eval k xs) (eval k ys).
Proof.
  exists (KMux 1 1), [Some [BX]; Some [B1]], [Some [B1]; Some [B1]]. split.
  - constructor; [constructor; constructor; [left; reflexivity | constructor]|].
    constructor; [constructor; constructor; [right; reflexivity | constructor]|]. constructor.
  - intro H. vm_compute in H. inversion H as [|? ? ? ? Hb _]; subst.
    inversion Hb as [|? ? ? ? Hc _]; subst. destruct Hc as [E|E]; discriminate.
Qed.

(* registers *)
Theorem reg_latch_compat c d d' e e' s t :
  opt_rel compat d d' -> opt_rel compat e e' -> reg_rel compat s t -> reg_rel compat (reg_latch c d e s) (reg_latch c d' e' t).
Proof. apply (reg_latch_R compat compat_refl). Qed.
Theorem reg_advance_compat c s t :
  reg_wf c s -> reg_wf c t -> reg_rel compat s t -> reg_rel compat (reg_advance c s) (reg_advance c t).
Proof. apply (reg_advance_R compat compat_refl compat_BX_l compat_bit). Qed.
Theorem reg_reset_compat c h s t : reg_rel compat s t -> reg_rel compat (reg_reset c h s) (reg_reset c h t).
Proof. apply (reg_reset_R compat compat_refl). Qed.
Theorem reg_poweron_compat c s t : reg_rel compat s t -> reg_rel compat (reg_poweron c s) (reg_poweron c t).
Proof. apply (reg_poweron_R compat compat_refl). Qed.

Theorem reg_latch_mono c d d' e e' s t :
  opt_rel le_def d d' -> opt_rel le_def e e' -> reg_rel le_def s t -> reg_rel le_def (reg_latch c d e s) (reg_latch c d' e' t).
Proof. apply (reg_latch_R le_def le_def_refl). Qed.
Theorem reg_advance_mono c s t :
  reg_wf c s -> reg_wf c t -> reg_rel le_def s t -> reg_rel le_def (reg_advance c s) (reg_advance c t).
Proof. apply (reg_advance_R le_def le_def_refl le_def_BX le_def_bit). Qed.
Theorem reg_reset_mono c h s t : reg_rel le_def s t -> reg_rel le_def (reg_reset c h s) (reg_reset c h t).
Proof. apply (reg_reset_R le_def le_def_refl). Qed.
Theorem reg_poweron_mono c s t : reg_rel le_def s t -> reg_rel le_def (reg_poweron c s) (reg_poweron c t).
Proof. apply (reg_poweron_R le_def le_def_refl). Qed.

(* the register functions keep the widths *)
Lemma reg_wf_latch c d e s : reg_wf c s -> reg_wf c (reg_latch c d e s).
Proof.
  intros [H1 H2]. unfold reg_wf, reg_latch. cbn [rs_int_data rs_out]. split; [|exact H2].
  destruct d; unfold bv_resize; [apply bv_build_length | apply all_X_length].
Qed.
Lemma reg_wf_write c b s : reg_wf c s -> reg_wf c (write_reset_value c b s).
Proof.
  intros [H1 H2]. unfold reg_wf, write_reset_value.
  destruct (rc_reset_value c); [|destruct b]; cbn [rs_int_data rs_out]; unfold bv_resize;
    rewrite ?bv_build_length, ?all_X_length; auto.
Qed.
Lemma reg_wf_advance c s : reg_wf c s -> reg_wf c (reg_advance c s).
Proof.
  intros H. pose proof H as [H1 H2]. unfold reg_advance. destruct (rs_in_reset s).
  - destruct (rc_reset_type c); try exact H. apply reg_wf_write. exact H.
  - destruct (rs_int_enable s); try exact H; unfold reg_wf; cbn [rs_int_data rs_out]; unfold bv_resize;
      rewrite ?bv_build_length, ?all_X_length; auto.
Qed.
Lemma reg_wf_init c : reg_wf c (reg_init c).
Proof. unfold reg_wf, reg_init. cbn [rs_int_data rs_out]. rewrite all_X_length. auto. Qed.

(* ================================================================== *)
(* constant folding (Circuit::propagateConstants)                        *)

Lemma ins_le_compat xs ys : ins_le xs ys -> ins_compat xs ys.
Proof.
  intro Hle. induction Hle as [|o o' l l' Ho Hl IH]; constructor; [|exact IH].
  destruct Ho as [|x y H]; constructor. apply bv_le_compat. exact H.
Qed.

(* propagateConstants evaluates a node with its non-constant inputs set to all-undefined
   (xs_abs) and replaces an output by a constant when every bit of it came out defined.
   That constant never contradicts the node's value under any valuation ys of the
   non-constant inputs: wherever the real output bit is defined, it is the folded bit. *)
Theorem C08_constfold k xs_abs ys :
  ins_le xs_abs ys ->
  Forall (fun o => all_def o = true) (eval k xs_abs) ->
  Forall2 (fun folded real => length folded = length real /\
             forall i, is_def (bv_get real i) = true -> bv_get real i = bv_get folded i)
          (eval k xs_abs) (eval k ys).
Proof.
  intros Hle Hdef.
  pose proof (ins_le_compat _ _ Hle) as Hc.
  pose proof (eval_compat k xs_abs ys Hc) as H.
  induction H as [|f r fs rs Hfr Hrest IH]; [constructor|].
  inversion Hdef as [|? ? Df Drest]; subst. constructor; [|apply IH; exact Drest].
  split; [apply (bv_compat_length _ _ Hfr)|].
  intros i Hi. pose proof (Forall2_get compat f r (compat_refl BX) Hfr i) as C.
  destruct (Nat.ltb_spec i (length f)) as [Hlt|Hge].
  - symmetry. apply compat_defined_eq; [exact C | | exact Hi].
    unfold all_def in Df. rewrite forallb_forall in Df. apply Df. unfold bv_get. apply nth_In. exact Hlt.
  - rewrite (bv_get_overflow r) in Hi by (rewrite <- (bv_compat_length _ _ Hfr); exact Hge). discriminate.
Qed.

(* with total multiplexers the folded constant IS the value under every valuation *)
Theorem C08_constfold_total k xs_abs ys :
  total_mux k xs_abs -> ins_le xs_abs ys ->
  Forall (fun o => all_def o = true) (eval k xs_abs) ->
  eval k ys = eval k xs_abs.
Proof.
  intros Ht Hle Hdef. pose proof (eval_mono k xs_abs ys Ht Hle) as H.
  induction H as [|f r fs rs Hfr Hrest IH]; [reflexivity|].
  inversion Hdef as [|? ? Df Drest]; subst. f_equal; [|apply IH; exact Drest].
  symmetry. apply bv_le_all_def_eq; assumption.
Qed.

(* making inputs more defined can never flip an already defined output bit (the wording of C08) *)
Corollary C08_no_flip k xs ys o o' i :
  ins_le xs ys -> nth_error (eval k xs) o = Some o' ->
  is_def (bv_get o' i) = true ->
  exists r, nth_error (eval k ys) o = Some r /\ (bv_get r i = BX \/ bv_get r i = bv_get o' i).
Proof.
  intros Hle Ho Hd.
  pose proof (ins_le_compat _ _ Hle) as Hc.
  pose proof (eval_compat k xs ys Hc) as H. revert o Ho.
  induction H as [|f r fs rs Hfr Hrest IH]; intros o Ho; [destruct o; discriminate|].
  destruct o as [|o]; simpl in Ho.
  - injection Ho as <-. exists r. split; [reflexivity|].
    destruct (Forall2_get compat f r (compat_refl BX) Hfr i) as [E|[E|E]].
    + rewrite E in Hd. discriminate.
    + left. exact E.
    + right. symmetry. exact E.
  - apply IH. exact Ho.
Qed.
