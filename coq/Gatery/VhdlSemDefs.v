(* C02, optional part: a small two-valued semantics of the VHDL operators gatery's exporter emits
   (IEEE numeric_std on UNSIGNED, array operations, std_logic_1164 logic), and the node patterns
   lib/C02_vhdl_lift.py emits for them.  Definitions only; VhdlSemProofs.v proves that each
   pattern, evaluated with the circuit semantics the verified certificate checker uses
   (NodeSemDefs.eval), computes the VHDL operator on every pair of fully defined operands of
   every length.

   A two-valued vector of length w holding the number v (v < 2^w) is  vec w v = bv_of_N w v
   (LSB first).  The right-hand sides below are transcriptions of numeric_std:
     "+" "-"  : SIZE = max(L'length, R'length), operands RESIZEd to SIZE, result modulo 2^SIZE
     "*"      : result length L'length + R'length (the full product)
     RESIZE   : keeps the NEW_SIZE rightmost elements / pads with '0' on the left
     SHIFT_LEFT / SHIFT_RIGHT : vacated positions filled with '0', length unchanged
     "&"      : left operand becomes the most significant part
     x(h downto l) : elements l..h *)
From Coq Require Import List NArith Arith Bool.
From Gatery Require Import Bits NodeSemDefs.
Import ListNotations.

Definition vec (w : nat) (v : N) : bv := bv_of_N w v.
Definition p2 (w : nat) : N := (2 ^ N.of_nat w)%N.

(* ---- reference: numeric_std / array operations on (length, value) ---- *)
Definition ns_add (wa wb : nat) (a b : N) : nat * N := (Nat.max wa wb, ((a + b) mod p2 (Nat.max wa wb))%N).
Definition ns_sub (wa wb : nat) (a b : N) : nat * N :=
  (Nat.max wa wb, ((a + p2 (Nat.max wa wb) - b) mod p2 (Nat.max wa wb))%N).
Definition ns_mul (wa wb : nat) (a b : N) : nat * N := (wa + wb, (a * b)%N).
Definition ns_resize (n : nat) (a : N) : nat * N := (n, (a mod p2 n)%N).
Definition ns_shift_left (w : nat) (a n : N) : nat * N := (w, ((a * 2 ^ n) mod p2 w)%N).
Definition ns_shift_right (w : nat) (a n : N) : nat * N := (w, (a / 2 ^ n)%N).
Definition vh_concat (wa wb : nat) (a b : N) : nat * N := (wa + wb, (a * p2 wb + b)%N).
Definition vh_slice (hi lo : nat) (a : N) : nat * N := (hi - lo + 1, ((a / p2 lo) mod p2 (hi - lo + 1))%N).
Definition vh_index (i : nat) (a : N) : bool := N.testbit a (N.of_nat i).
Definition vecp (p : nat * N) : bv := vec (fst p) (snd p).

(* ---- the lifter's node patterns ---- *)
Definition out1 (l : list bv) : bv := hd [] l.
Definition K_zext (wv w : nat) : node_kind := KRewire [mk_range wv (RW_INPUT 0 0); mk_range (w - wv) RW_ZERO].
Definition K_slice (lo n : nat) : node_kind := KRewire [mk_range n (RW_INPUT 0 lo)].
Definition K_concat (wa wb : nat) : node_kind := KRewire [mk_range wb (RW_INPUT 0 0); mk_range wa (RW_INPUT 1 0)].

(* Lifter.zext: identity when the lengths agree, else a rewire padding zeros on top *)
Definition lift_zext (wv w : nat) (x : bv) : bv := if wv =? w then x else out1 (eval (K_zext wv w) [Some x]).
(* "+" "-" "*": operands extended to the numeric_std result size, then one arithmetic node of that size *)
Definition lift_arith (op : arith_op) (w wa wb : nat) (xa xb : bv) : bv :=
  out1 (eval (KArith op w) [Some (lift_zext wa w xa); Some (lift_zext wb w xb)]).
Definition lift_add wa wb := lift_arith A_ADD (Nat.max wa wb) wa wb.
Definition lift_sub wa wb := lift_arith A_SUB (Nat.max wa wb) wa wb.
Definition lift_mul wa wb := lift_arith A_MUL (wa + wb) wa wb.
(* resize(x, n) *)
Definition lift_resize (w n : nat) (x : bv) : bv :=
  if n =? w then x else if n <? w then out1 (eval (K_slice 0 n) [Some x]) else lift_zext w n x.
(* a & b   (inputs of the rewire: the least significant part first) *)
Definition lift_concat (wa wb : nat) (xa xb : bv) : bv := out1 (eval (K_concat wa wb) [Some xb; Some xa]).
(* x(hi downto lo), x(i) *)
Definition lift_slice (hi lo : nat) (x : bv) : bv := out1 (eval (K_slice lo (hi - lo + 1)) [Some x]).
Definition lift_index (i : nat) (x : bv) : bv := out1 (eval (K_slice i 1) [Some x]).
(* relational operators on UNSIGNED: operands extended to the longer length, one compare node *)
Definition lift_rel (op : cmp_op) (wa wb : nat) (xa xb : bv) : bv :=
  out1 (eval (KCompare op) [Some (lift_zext wa (Nat.max wa wb) xa); Some (lift_zext wb (Nat.max wa wb) xb)]).
(* SHIFT_LEFT(x, to_integer(n)), SHIFT_RIGHT(x, to_integer(n)) *)
Definition lift_shl (w : nat) (x amt : bv) : bv := out1 (eval (KShift SH_LEFT F_ZERO w) [Some x; Some amt]).
Definition lift_shr (w : nat) (x amt : bv) : bv := out1 (eval (KShift SH_RIGHT F_ZERO w) [Some x; Some amt]).
(* IF c THEN t ELSE e *)
Definition lift_if (w : nat) (c : bool) (t e : bv) : bv := out1 (eval (KMux 2 w) [Some [of_bool c]; Some e; Some t]).
(* CASE sel IS WHEN "0..0" => d0 .. WHEN OTHERS => X : an n-input multiplexer on the selector *)
Definition lift_case (n w : nat) (sel : bv) (ds : list bv) : bv := out1 (eval (KMux n w) (Some sel :: map Some ds)).
