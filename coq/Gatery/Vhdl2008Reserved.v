(* C13 — the reserved words of VHDL-2008.

   Hand transcription of IEEE Std 1076-2008, clause 15.10 "Reserved words" (alphabetical, as in
   the standard's table).  This constant is in the TRUSTED BASE of property C13: every statement
   "is not a reserved word" is relative to this list.  Reserved words are case-insensitive in
   VHDL; the list is in lower case and all comparisons lower-case the candidate first. *)
Require Import String List.
Import ListNotations.
Open Scope string_scope.

Definition vhdl2008_reserved : list string :=
  [
    "abs"; "access"; "after"; "alias"; "all"; "and"; "architecture"; "array"; "assert";
    "assume"; "assume_guarantee"; "attribute"; "begin"; "block"; "body"; "buffer"; "bus";
    "case"; "component"; "configuration"; "constant"; "context"; "cover"; "default";
    "disconnect"; "downto"; "else"; "elsif"; "end"; "entity"; "exit"; "fairness"; "file"; "for";
    "force"; "function"; "generate"; "generic"; "group"; "guarded"; "if"; "impure"; "in";
    "inertial"; "inout"; "is"; "label"; "library"; "linkage"; "literal"; "loop"; "map"; "mod";
    "nand"; "new"; "next"; "nor"; "not"; "null"; "of"; "on"; "open"; "or"; "others"; "out";
    "package"; "parameter"; "port"; "postponed"; "procedure"; "process"; "property";
    "protected"; "pure"; "range"; "record"; "register"; "reject"; "release"; "rem"; "report";
    "restrict"; "restrict_guarantee"; "return"; "rol"; "ror"; "select"; "sequence"; "severity";
    "shared"; "signal"; "sla"; "sll"; "sra"; "srl"; "strong"; "subtype"; "then"; "to";
    "transport"; "type"; "unaffected"; "units"; "until"; "use"; "variable"; "vmode"; "vprop";
    "vunit"; "wait"; "when"; "while"; "with"; "xnor"; "xor" ].

(* Sanity anchors for the transcription (the table of 15.10 has 115 entries). *)
Example vhdl2008_reserved_count : length vhdl2008_reserved = 115.
Proof. reflexivity. Qed.
