(* C18 -- word-level model of gatery's simulator bit-vector container.

   Transcribed branch by branch from
     /repo/source/gatery/utils/BitManipulation.h        (leaf functions)
     /repo/source/gatery/simulation/BitVectorState.h    (BitVectorState<Config>, free functions)
     /repo/source/gatery/simulation/BitVectorState.cpp  (bitwiseNegation, parseBitVector)

   Conventions
   * a plane is a [list N] of 64-bit words (std::vector<uint64_t>), every word < 2^64;
     uint64_t operations that can overflow are written with an explicit [wrap64]
     (= [mod 2^64]);
   * size_t arithmetic on offsets / sizes is done in unbounded [N] (sizes near 2^64 are not
     modelled: such containers cannot be allocated);
   * reads outside a vector ([getw] beyond the length) yield 0, writes outside are dropped
     ([setw] beyond the length is the identity).  The theorems are stated under the
     precondition that makes every access in-bounds, so this choice is never observable
     there; it only makes the model total;
   * no BMI specialisation: the library and the harness are compiled without -mbmi
     ([__BMI__] undefined, checked by the harness at run time), so the *generic*
     templates [andNot] / [bitfieldExtract] of BitManipulation.h are what is modelled;
   * the per-plane loops [for (i : Range(NUM_PLANES))] are modelled by mapping the
     single-plane function over the list of planes (planes never interact, except in
     compareRange / canBeReplacedWith / mergeUndefinedSelection / equalOnDefinedValues
     which read VALUE and DEFINED together);
   * little-endian byte addressing for the memcpy fast paths (x86-64).

   No proofs in this file. *)
From Coq Require Import List NArith ZArith Bool Ascii.
Import ListNotations.
Local Open Scope N_scope.

(* ------------------------------------------------------------------ *)
(* uint64_t arithmetic                                                 *)
(* ------------------------------------------------------------------ *)

Definition wrap64 (x : N) : N := N.land x (N.ones 64).            (* x mod 2^64 *)
Definition shl64 (a n : N) : N := wrap64 (N.shiftl a n).          (* a << n  (n < 64) *)
Definition not64 (a : N) : N := N.ldiff (N.ones 64) a.            (* ~a *)

(* template<typename T> T andNot(T a, T b) { return ~a & b; } *)
Definition andNot (a b : N) : N := N.land (not64 a) b.

(* bitMaskRange(start, count):
     if (count >= 64) return ~T(0) << start;
     return ((T{1} << count) - 1) << start;        [N.ones c = pred (1 << c)] *)
Definition bitMaskRange (start count : N) : N :=
  if 64 <=? count then shl64 (not64 0) start
  else shl64 (N.ones count) start.

(* generic bitfieldExtract: start &= 0xFF; count &= 0xFF; (a >> start) & bitMaskRange(0,count) *)
Definition bitfieldExtract (a start count : N) : N :=
  let start := N.land start 255 in
  let count := N.land count 255 in
  N.land (N.shiftr a start) (bitMaskRange 0 count).

(* bitfieldInsert: mask = bitMaskRange(start,count); andNot(mask,a) | (mask & (v << start)) *)
Definition bitfieldInsert (a start count v : N) : N :=
  let mask := bitMaskRange start count in
  N.lor (andNot mask a) (N.land mask (shl64 v start)).

(* ------------------------------------------------------------------ *)
(* vectors of words                                                    *)
(* ------------------------------------------------------------------ *)

Fixpoint upd_nat {A} (l : list A) (k : nat) (v : A) : list A :=
  match l, k with
  | [], _ => []
  | _ :: t, O => v :: t
  | h :: t, S k' => h :: upd_nat t k' v
  end.

Definition getw (w : list N) (k : N) : N := nth (N.to_nat k) w 0.
Definition setw (w : list N) (k v : N) : list N := upd_nat w (N.to_nat k) v.

(* [a, b) as a list *)
Fixpoint nrange_from (a : N) (n : nat) : list N :=
  match n with O => [] | S n' => a :: nrange_from (a + 1) n' end.
Definition nrange (a b : N) : list N := nrange_from a (N.to_nat (b - a)).

(* pointer versions of bitExtract / bitSet / bitClear / bitToggle *)
Definition bitExtract (w : list N) (idx : N) : bool :=
  negb (N.land (getw w (idx / 64)) (shl64 1 (idx mod 64)) =? 0).
Definition bitSet (w : list N) (idx : N) : list N :=
  setw w (idx / 64) (N.lor (getw w (idx / 64)) (shl64 1 (idx mod 64))).
Definition bitClear (w : list N) (idx : N) : list N :=
  setw w (idx / 64) (andNot (shl64 1 (idx mod 64)) (getw w (idx / 64))).
Definition bitToggle (w : list N) (idx : N) : list N :=
  setw w (idx / 64) (N.lxor (getw w (idx / 64)) (shl64 1 (idx mod 64))).

(* ------------------------------------------------------------------ *)
(* the container                                                       *)
(* ------------------------------------------------------------------ *)

Record bvs := { bsize : N; planes : list (list N) }.

Definition VALUE : nat := 0.
Definition DEFINED : nat := 1.
Definition DONT_CARE : nat := 2.
Definition HIGH_IMPEDANCE : nat := 3.

Definition mk_empty (nplanes : nat) : bvs := {| bsize := 0; planes := repeat [] nplanes |}.
Definition plane (s : bvs) (p : nat) : list N := nth p (planes s) [].
Definition on_plane (s : bvs) (p : nat) (f : list N -> list N) : bvs :=
  {| bsize := bsize s; planes := upd_nat (planes s) p (f (plane s p)) |}.
Definition map2 {A B C} (f : A -> B -> C) (a : list A) (b : list B) : list C :=
  map (fun ab => f (fst ab) (snd ab)) (combine a b).

(* resize: vector::resize (new words zero), then mask the last word *)
Definition resize_words (w : list N) (n : nat) : list N :=
  firstn n w ++ repeat 0 (n - length w).
Definition resizeP (size : N) (w : list N) : list N :=
  let nb := (size + 63) / 64 in
  let w1 := resize_words w (N.to_nat nb) in
  if size mod 64 =? 0 then w1
  else setw w1 (nb - 1) (N.land (getw w1 (nb - 1)) (bitMaskRange 0 (size mod 64))).
Definition resize (s : bvs) (size : N) : bvs :=
  {| bsize := size; planes := map (resizeP size) (planes s) |}.

(* get / set / clear / toggle *)
Definition get (s : bvs) (p : nat) (idx : N) : bool := bitExtract (plane s p) idx.
Definition set1 (s : bvs) (p : nat) (idx : N) : bvs := on_plane s p (fun w => bitSet w idx).
Definition clear1 (s : bvs) (p : nat) (idx : N) : bvs := on_plane s p (fun w => bitClear w idx).
Definition setb (s : bvs) (p : nat) (idx : N) (bit : bool) : bvs :=
  if bit then set1 s p idx else clear1 s p idx.
Definition toggle (s : bvs) (p : nat) (idx : N) : bvs := on_plane s p (fun w => bitToggle w idx).

(* extractNonStraddling / insertNonStraddling (size = 0 is a no-op) *)
Definition extractNSP (w : list N) (start size : N) : N :=
  bitfieldExtract (getw w (start / 64)) (start mod 64) size.
Definition insertNSP (w : list N) (start size value : N) : list N :=
  if size =? 0 then w
  else setw w (start / 64) (bitfieldInsert (getw w (start / 64)) (start mod 64) size value).

(* extract(plane, offset, size): the straddling branch is [wordOffset + size > 64] *)
Definition extractWP (w : list N) (offset size : N) : N :=
  let k := offset / 64 in
  let wo := offset mod 64 in
  let val := N.shiftr (getw w k) wo in
  let val := if 64 <? wo + size then N.lor val (shl64 (getw w (k + 1)) (64 - wo)) else val in
  N.land val (bitMaskRange 0 size).

(* insert(plane, offset, size, value) *)
Definition insertWP (w : list N) (offset size value : N) : list N :=
  let wo := offset mod 64 in
  if wo + size <=? 64 then insertNSP w offset size value
  else
    let k := offset / 64 in
    let w1 := setw w k (bitfieldInsert (getw w k) wo (64 - wo) value) in
    let value' := N.shiftr value (64 - wo) in
    setw w1 (k + 1) (bitfieldInsert (getw w1 (k + 1)) 0 ((wo + size) mod 64) value').

Definition extractNS (s : bvs) (p : nat) (start size : N) : N := extractNSP (plane s p) start size.
Definition insertNS (s : bvs) (p : nat) (start size value : N) : bvs :=
  on_plane s p (fun w => insertNSP w start size value).
Definition extractW (s : bvs) (p : nat) (offset size : N) : N := extractWP (plane s p) offset size.
Definition insertW (s : bvs) (p : nat) (offset size value : N) : bvs :=
  on_plane s p (fun w => insertWP w offset size value).

(* setRange(plane, offset, size, bit): head / body / tail *)
Fixpoint fillw (w : list N) (k : N) (n : nat) (content : N) : list N :=
  match n with O => w | S n' => fillw (setw w k content) (k + 1) n' content end.

Definition setRangeP (w : list N) (offset size : N) (bit : bool) : list N :=
  let content := if bit then not64 0 else 0 in
  let hd :=
    if offset mod 64 =? 0 then (0, offset / 64, w)
    else let f := N.min size (64 - offset mod 64) in
         (f, offset / 64 + 1, insertNSP w offset f content) in
  let firstWordSize := fst (fst hd) in
  let wordOffset := snd (fst hd) in
  let w1 := snd hd in
  let numFullWords := (size - firstWordSize) / 64 in
  let w2 := fillw w1 wordOffset (N.to_nat numFullWords) content in
  let trailingWordSize := (size - firstWordSize) mod 64 in
  if 0 <? trailingWordSize
  then insertNSP w2 (offset + firstWordSize + numFullWords * 64) trailingWordSize content
  else w2.

Definition setRange (s : bvs) (p : nat) (offset size : N) (bit : bool) : bvs :=
  on_plane s p (fun w => setRangeP w offset size bit).
Definition clearRange (s : bvs) (p : nat) (offset size : N) : bvs := setRange s p offset size false.

(* memcpy on the byte image of a plane (little endian) *)
Definition getByte (w : list N) (k : N) : N :=
  N.land (N.shiftr (getw w (k / 8)) (8 * (k mod 8))) 255.
Definition setByte (w : list N) (k b : N) : list N :=
  let sh := 8 * (k mod 8) in
  setw w (k / 8) (N.lor (N.ldiff (getw w (k / 8)) (N.shiftl 255 sh)) (N.shiftl b sh)).
Fixpoint memcpyB (dst : list N) (d : N) (src : list N) (s : N) (n : nat) : list N :=
  match n with
  | O => dst
  | S n' => memcpyB (setByte dst d (getByte src s)) (d + 1) src (s + 1) n'
  end.

(* copyRange: byte fast path for the first size/8 bytes, then 64-bit chunks.
   fuel: every iteration advances by chunkSize >= 1, so width+1 iterations suffice. *)
Fixpoint copyLoop (fuel : nat) (dst : list N) (dOff : N) (src : list N) (sOff width offset : N) : list N :=
  match fuel with
  | O => dst
  | S f =>
    if offset <? width then
      let chunk := N.min 64 (width - offset) in
      copyLoop f (insertWP dst (dOff + offset) chunk (extractWP src (sOff + offset) chunk))
               dOff src sOff width (offset + chunk)
    else dst
  end.

Definition copyRangeP (dst : list N) (dOff : N) (src : list N) (sOff size : N) : list N :=
  if (sOff mod 8 =? 0) && (dOff mod 8 =? 0) && (8 <=? size) then
    let bytes := size / 8 in
    let dst1 := memcpyB dst (dOff / 8) src (sOff / 8) (N.to_nat bytes) in
    let size1 := size - bytes * 8 in
    copyLoop (S (N.to_nat size1)) dst1 (dOff + bytes * 8) src (sOff + bytes * 8) size1 0
  else copyLoop (S (N.to_nat size)) dst dOff src sOff size 0.

Definition copyRange (d : bvs) (dOff : N) (s : bvs) (sOff size : N) : bvs :=
  {| bsize := bsize d;
     planes := map2 (fun dw sw => copyRangeP dw dOff sw sOff size) (planes d) (planes s) |}.

(* compareRange, DefaultConfig specialisation ("dst" is *this) *)
Fixpoint cmpLoopD (fuel : nat) (dv dd : list N) (dOff : N) (sv sd : list N) (sOff width offset : N) : bool :=
  match fuel with
  | O => true
  | S f =>
    if offset <? width then
      let chunk := N.min 64 (width - offset) in
      let a_value := extractWP sv (sOff + offset) chunk in
      let b_value := extractWP dv (dOff + offset) chunk in
      let a_defined := extractWP sd (sOff + offset) chunk in
      let b_defined := extractWP dd (dOff + offset) chunk in
      if negb (a_defined =? b_defined) then false
      else if negb (N.land (N.lxor a_value b_value) a_defined =? 0) then false
      else cmpLoopD f dv dd dOff sv sd sOff width (offset + chunk)
    else true
  end.
Definition compareRangeD (d : bvs) (dOff : N) (s : bvs) (sOff size : N) : bool :=
  cmpLoopD (S (N.to_nat size)) (plane d VALUE) (plane d DEFINED) dOff
           (plane s VALUE) (plane s DEFINED) sOff size 0.

(* compareRange, ExtendedConfig specialisation *)
Fixpoint cmpLoopX (fuel : nat) (d : bvs) (dOff : N) (s : bvs) (sOff width offset : N) : bool :=
  match fuel with
  | O => true
  | S f =>
    if offset <? width then
      let chunk := N.min 64 (width - offset) in
      let a_value := extractW s VALUE (sOff + offset) chunk in
      let b_value := extractW d VALUE (dOff + offset) chunk in
      let a_defined := extractW s DEFINED (sOff + offset) chunk in
      let b_defined := extractW d DEFINED (dOff + offset) chunk in
      let a_dc := extractW s DONT_CARE (sOff + offset) chunk in
      let b_dc := extractW d DONT_CARE (dOff + offset) chunk in
      let care := not64 (N.lor a_dc b_dc) in
      let a_hz := extractW s HIGH_IMPEDANCE (sOff + offset) chunk in
      let b_hz := extractW d HIGH_IMPEDANCE (dOff + offset) chunk in
      if negb (N.land (N.lxor a_hz b_hz) care =? 0) then false
      else if negb (N.land (N.lxor a_defined b_defined) care =? 0) then false
      else if negb (N.land (N.land (N.lxor a_value b_value) a_defined) care =? 0) then false
      else cmpLoopX f d dOff s sOff width (offset + chunk)
    else true
  end.
Definition compareRangeX (d : bvs) (dOff : N) (s : bvs) (sOff size : N) : bool :=
  cmpLoopX (S (N.to_nat size)) d dOff s sOff size 0.

(* extract(start, size): a new container; byte path (memcpy of (size+7)/8 bytes) vs copyRange *)
Definition extractS (s : bvs) (start size : N) : bvs :=
  let result := resize (mk_empty (length (planes s))) size in
  if (start mod 8 =? 0) && (size mod 8 =? 0) then
    {| bsize := size;
       planes := map2 (fun rw sw => memcpyB rw 0 sw (start / 8) (N.to_nat ((size + 7) / 8)))
                      (planes result) (planes s) |}
  else copyRange result 0 s start size.

(* insert(state, offset, size): chunks limited by the word borders of source and destination *)
Fixpoint insertSLoop (fuel : nat) (dst : list N) (offset : N) (src : list N) (srcOffset width : N) : list N :=
  match fuel with
  | O => dst
  | S f =>
    if srcOffset <? width then
      let chunk := N.min 64 (width - srcOffset) in
      let chunk := N.min (64 - (srcOffset + 64) mod 64) chunk in
      let chunk := N.min (64 - (offset + 64) mod 64) chunk in
      let val := extractNSP src srcOffset chunk in
      insertSLoop f (insertNSP dst offset chunk val) (offset + chunk) src (srcOffset + chunk) width
    else dst
  end.
Definition insertS (d : bvs) (st : bvs) (offset size : N) : bvs :=
  let width := if size =? 0 then bsize st else size in
  {| bsize := bsize d;
     planes := map2 (fun dw sw => insertSLoop (S (N.to_nat width)) dw offset sw 0 width)
                    (planes d) (planes st) |}.

(* append *)
Definition append (d src : bvs) : bvs :=
  let offset := bsize d in
  copyRange (resize d (bsize d + bsize src)) offset src 0 (bsize src).

(* operator== *)
Definition eqPlane (size : N) (a b : list N) : bool :=
  forallb (fun i =>
             let mask := bitMaskRange 0 (N.min 64 (size - i * 64)) in
             N.land (getw a i) mask =? N.land (getw b i) mask)
          (nrange 0 (N.of_nat (length a))).
Definition eqS (a b : bvs) : bool :=
  if negb (bsize a =? bsize b) then false
  else forallb (fun ab => eqPlane (bsize a) (fst ab) (snd ab)) (combine (planes a) (planes b)).

(* allOne / allZero / anyDefined: full 64-bit chunks + bitwise edges *)
Definition allOne (s : bvs) (p : nat) (start size : N) : bool :=
  let w := plane s p in
  let size := N.min size (bsize s - start) in
  let startFull := (start + 63) / 64 * 64 in
  let endFull := (start + size) / 64 * 64 in
  if startFull <? endFull then
    forallb (fun c => not64 (getw w c) =? 0) (nrange (startFull / 64) (endFull / 64))
    && forallb (fun i => bitExtract w i) (nrange start startFull)
    && forallb (fun i => bitExtract w i) (nrange endFull (start + size))
  else forallb (fun i => bitExtract w i) (nrange start (start + size)).

Definition allZero (s : bvs) (p : nat) (start size : N) : bool :=
  let w := plane s p in
  let size := N.min size (bsize s - start) in
  let startFull := (start + 63) / 64 * 64 in
  let endFull := (start + size) / 64 * 64 in
  if startFull <? endFull then
    forallb (fun c => getw w c =? 0) (nrange (startFull / 64) (endFull / 64))
    && forallb (fun i => negb (bitExtract w i)) (nrange start startFull)
    && forallb (fun i => negb (bitExtract w i)) (nrange endFull (start + size))
  else forallb (fun i => negb (bitExtract w i)) (nrange start (start + size)).

Definition anyDefined (s : bvs) (start size : N) : bool :=
  let w := plane s DEFINED in
  let size := N.min size (bsize s - start) in
  let startFull := (start + 63) / 64 * 64 in
  let endFull := (start + size) / 64 * 64 in
  if startFull <? endFull then
    existsb (fun c => negb (getw w c =? 0)) (nrange (startFull / 64) (endFull / 64))
    || existsb (fun i => bitExtract w i) (nrange start startFull)
    || existsb (fun i => bitExtract w i) (nrange endFull (start + size))
  else existsb (fun i => bitExtract w i) (nrange start (start + size)).

Definition allDefined (s : bvs) (start size : N) : bool := allOne s DEFINED start size.

(* bit loops *)
Definition size_max : N := N.ones 64.     (* ~0ull, the "whole vector" default argument *)

Definition compareValues (a : bvs) (startA : N) (b : bvs) (startB size : N) : bool :=
  forallb (fun i => Bool.eqb (get a VALUE (startA + i)) (get b VALUE (startB + i))) (nrange 0 size).

Definition equalOnDefinedValues (a : bvs) (startA : N) (b : bvs) (startB size : N) : bool :=
  forallb (fun i =>
             let aDef := get a DEFINED (startA + i) in
             let bDef := get b DEFINED (startB + i) in
             if negb (Bool.eqb aDef bDef) then false
             else if aDef then Bool.eqb (get a VALUE (startA + i)) (get b VALUE (startB + i))
             else true)
          (nrange 0 size).

Definition canBeReplacedWith (a b : bvs) (startA startB size : N) : bool :=
  let size := if size =? size_max then bsize a - startA else size in
  forallb (fun i =>
             if negb (get a DEFINED (startA + i)) then true
             else if negb (get b DEFINED (startB + i)) then false
             else Bool.eqb (get a VALUE (startA + i)) (get b VALUE (startB + i)))
          (nrange 0 size).

Definition mergeStep (src : bvs) (startDst startSrc : N) (dst : bvs) (i : N) : bvs :=
  if get dst DEFINED (startDst + i) then
    if negb (get src DEFINED (startSrc + i))
       || negb (Bool.eqb (get dst VALUE (startDst + i)) (get src VALUE (startSrc + i)))
    then setb dst DEFINED (startDst + i) false
    else dst
  else dst.
Definition mergeUndefinedSelection (dst : bvs) (startDst : N) (src : bvs) (startSrc size : N) : bvs :=
  fold_left (mergeStep src startDst startSrc) (nrange 0 size) dst.

(* ------------------------------------------------------------------ *)
(* BigInt import / export (boost::multiprecision::cpp_int = Z)         *)
(* ------------------------------------------------------------------ *)

(* export_bits(v, out, 64, false): magnitude, least significant word first; zero gives one 0 word *)
Fixpoint wordsOfN (fuel : nat) (n : N) : list N :=
  match fuel with
  | O => []
  | S f => if n =? 0 then [] else wrap64 n :: wordsOfN f (N.shiftr n 64)
  end.
Definition exportBits (v : Z) : list N :=
  let m := Z.abs_N v in
  if m =? 0 then [0] else wordsOfN (N.to_nat (N.size m)) m.

(* import_bits(result, first, last, 64, false) *)
Fixpoint importBits (ws : list N) : N :=
  match ws with [] => 0 | w :: r => N.lor w (N.shiftl (importBits r) 64) end.

Definition bitwiseNegation (v : Z) (width : N) : Z :=
  let words := map not64 (exportBits v) in
  let need := N.to_nat ((width + 63) / 64) in
  let words := words ++ repeat (not64 0) (need - length words) in
  Z.of_N (importBits words).

Definition subwords (w : list N) (a b : N) : list N :=
  firstn (N.to_nat (b - a)) (skipn (N.to_nat a) w).

(* precondition of the chunk path (HCL_ASSERT): offset % 64 == 0 *)
Definition extractBigInt (s : bvs) (offset size : N) : Z :=
  let w := plane s VALUE in
  if size <=? 64 then Z.of_N (extractWP w offset size)
  else
    let lastChunkOffset := (offset + size) / 64 * 64 in
    let lastChunkWidth := size - (lastChunkOffset - offset) in
    let partialChunk := if 0 <? lastChunkWidth then extractNSP w lastChunkOffset lastChunkWidth else 0 in
    let fullChunkPart := importBits (subwords w (offset / 64) ((offset + size) / 64)) in
    Z.of_N (N.lor fullChunkPart (N.shiftl partialChunk (lastChunkOffset - offset))).

Fixpoint insertBigLoop (fuel : nat) (w : list N) (offset size : N) (words : list N) (chunk : N) : list N :=
  match fuel with
  | O => w
  | S f =>
    if chunk <? size then
      let chunkSize := N.min 64 (size - chunk) in
      let wordIdx := chunk / 64 in
      let w' := if wordIdx <? N.of_nat (length words)
                then insertNSP w (offset + chunk) chunkSize (getw words wordIdx)
                else setRangeP w (offset + chunk) chunkSize false in
      insertBigLoop f w' offset size words (chunk + chunkSize)
    else w
  end.

Definition insertBigInt (s : bvs) (offset size : N) (v : Z) : bvs :=
  let v := if (v <? 0)%Z then (bitwiseNegation v size + 1)%Z else v in
  let words := exportBits v in
  on_plane s VALUE (fun w =>
    if size <=? 64 then
      match words with
      | [] => setRangeP w offset size false
      | w0 :: _ => insertWP w offset size w0
      end
    else insertBigLoop (S (N.to_nat size)) w offset size words 0).

(* ------------------------------------------------------------------ *)
(* printing: operator<< (binary branch), formatState, formatRange      *)
(* ------------------------------------------------------------------ *)

Definition chr (n : N) : ascii := ascii_of_N n.
Definition digit_char (v : N) : ascii := chr (48 + v).                 (* s << (unsigned) v, v < 10 *)
Definition hex_upper (v : N) : ascii :=                                 (* (char)('0'+v) / (char)('A'+(v-10)) *)
  if v <? 10 then chr (48 + v) else chr (65 + (v - 10)).

Definition bitChar (s : bvs) (i : N) : ascii :=
  if negb (get s DEFINED i) then "X"%char else if get s VALUE i then "1"%char else "0"%char.

(* [size-1, ..., 0] *)
Definition down_from (n : N) : list N := rev (nrange 0 n).

(* nibble i (from the top) of a state whose size is a multiple of 4 *)
Definition nibble (s : bvs) (i : N) : bool * N :=
  fold_left (fun acc j =>
               let idx := bsize s - 1 - i * 4 - j in
               (fst acc && get s DEFINED idx,
                N.lor (N.shiftl (snd acc) 1) (if get s VALUE idx then 1 else 0)))
            (nrange 0 4) (true, 0).

(* operator<<(ostream&, state); [hexflag] = (s.flags() & std::ios_base::hex).
   In the hex branch the nibble value is printed with [s << v] on an unsigned while the stream
   is in hex mode, i.e. as one lower-case hex digit. *)
Definition hex_lower (v : N) : ascii := if v <? 10 then chr (48 + v) else chr (87 + v).
Definition printState (hexflag : bool) (s : bvs) : list ascii :=
  if hexflag && (bsize s mod 4 =? 0) then
    map (fun i => let n := nibble s i in if fst n then hex_lower (snd n) else "X"%char)
        (nrange 0 (bsize s / 4))
  else map (bitChar s) (down_from (bsize s)).

(* formatState(s, state, base, dropLeadingZeros): one hex digit ('0'-'9','A'-'F') or 'X' per nibble,
   independent of the stream's base (repaired in /repo b90a265; before, nibbles above 9 were printed
   with `s << v` as two decimal digits) *)
Definition formatState (s : bvs) (base : N) (dropLeadingZeros : bool) : list ascii :=
  if (base =? 16) && (bsize s mod 4 =? 0) then
    snd (fold_left (fun (st : bool * list ascii) i =>
                      let n := nibble s i in
                      if negb (fst st) || negb (snd n =? 0) || (bsize s / 4 <=? i + 1) then
                        (false, snd st ++ [if negb (fst n) then "X"%char else hex_upper (snd n)])
                      else st)
                   (nrange 0 (bsize s / 4)) (dropLeadingZeros, []))
  else
    snd (fold_left (fun (st : bool * list ascii) i =>
                      if negb (get s DEFINED i) then (false, snd st ++ ["X"%char])
                      else if get s VALUE i then (false, snd st ++ ["1"%char])
                      else if negb (fst st) || (i =? 0) then (fst st, snd st ++ ["0"%char])
                      else st)
                   (down_from (bsize s)) (dropLeadingZeros, [])).

(* Log2 (generic loop) / Log2C on small unsigned values *)
Definition Log2 (v : N) : N := N.log2 v.
Definition Log2C (v : N) : N := if v =? 1 then 0 else Log2 (v - 1) + 1.

(* formatRange(s, state, base, offset, size) *)
Definition formatRange (s : bvs) (base offset size : N) : list ascii :=
  let logBase := Log2C base in
  let roundUpSize := (size + logBase - 1) / logBase * logBase in
  map (fun i =>
         let r := fold_left (fun (acc : bool * N) j =>
                     let v := N.shiftl (snd acc) 1 in
                     let idx := roundUpSize - 1 - i * logBase - j in
                     if idx <? size then
                       (fst acc && get s DEFINED (offset + idx),
                        if get s VALUE (offset + idx) then N.lor v 1 else v)
                     else (fst acc, v))
                  (nrange 0 logBase) (true, 0) in
         if negb (fst r) then "X"%char
         else if snd r <? 10 then chr (48 + snd r) else chr (65 + (snd r - 10)))
      (nrange 0 (roundUpSize / logBase)).

(* ------------------------------------------------------------------ *)
(* parseBitVector (DefaultConfig): optional width, then one of  s<any>  x<hex>  o<oct>  b<bin>  d<dec> *)
(* ------------------------------------------------------------------ *)

Definition is_digit (c : ascii) : bool := let n := N_of_ascii c in (48 <=? n) && (n <=? 57).
Definition in_range (c : ascii) (lo hi : N) : bool := let n := N_of_ascii c in (lo <=? n) && (n <=? hi).
Definition is_x (c : ascii) : bool := let n := N_of_ascii c in (n =? 120) || (n =? 88).

(* x3::uint_ : maximal run of digits, fails (no width) if there is none.  Overflow of
   unsigned int (>= 2^32) makes uint_ fail; not modelled beyond returning None. *)
Fixpoint take_digits (l : list ascii) (acc : N) (any : bool) : option N * list ascii :=
  match l with
  | c :: r => if is_digit c then take_digits r (acc * 10 + (N_of_ascii c - 48)) true
              else ((if any then Some acc else None), l)
  | [] => ((if any then Some acc else None), [])
  end.

(* the body of parseHex for one plane-pair *)
Definition digitVal (c : ascii) : N * N :=   (* (value, defined) as uint8_t *)
  let n := N_of_ascii c in
  if in_range c 48 57 then (n - 48, 255)
  else if in_range c 97 102 then (n - 97 + 10, 255)
  else if in_range c 65 70 then (n - 65 + 10, 255)
  else (0, 0).

(* every digit is written with the straddling-capable insert(plane, offset, size, value): an octal
   digit may cross a word border (digit 21 sits at bits 63..65).  (Before /repo 659d324 this used
   insertNonStraddling, whose assertion rejected octal literals of 22 or more digits.) *)
Fixpoint parseHexLoop (bps : N) (num : list ascii) (cnt : N) (i : N) (s : bvs) : bvs :=
  match num with
  | [] => s
  | c :: r =>
    let vd := digitVal c in
    let dstIdx := cnt - 1 - i in
    let s1 := insertW s VALUE (dstIdx * bps) bps (fst vd) in
    let s2 := insertW s1 DEFINED (dstIdx * bps) bps (snd vd) in
    parseHexLoop bps r cnt (i + 1) s2
  end.

Definition parseWidth (width : option N) : bvs :=
  match width with
  | Some w =>
    let r := resize (mk_empty 2) w in
    let r := setRange r VALUE 0 w false in
    setRange r DEFINED 0 w true
  | None => mk_empty 2
  end.

(* None = HCL_DESIGNCHECK failure (exception) *)
Definition parseHex (bps : N) (ret : bvs) (num : list ascii) : option bvs :=
  let cnt := N.of_nat (length num) in
  let chk := if bsize ret =? 0 then Some (resize ret (cnt * bps))
             else if cnt * bps <=? bsize ret then Some ret else None in
  match chk with
  | Some r => Some (parseHexLoop bps num cnt 0 r)
  | None => None
  end.

Definition dec_value (num : list ascii) : N :=   (* strtoull on digits only, saturating at 2^64-1 *)
  let v := fold_left (fun acc c => acc * 10 + (N_of_ascii c - 48)) num 0 in
  if N.ones 64 <? v then N.ones 64 else v.

Definition parseDec (ret : bvs) (num : list ascii) : option bvs :=
  let n := dec_value num in
  let width := Log2C (wrap64 (n + 1)) in            (* Log2C(0) fails its HCL_ASSERT *)
  let r := if bsize ret =? 0 then resize ret width else ret in
  if negb (wrap64 (n + 1) =? 0) && (width <=? bsize r) then
    let r := setRange r DEFINED 0 width true in
    Some (fold_left (fun st i => setb st VALUE i (negb (N.land n (shl64 1 i) =? 0))) (nrange 0 width) r)
  else None.

Definition parseString (ret : bvs) (str : list ascii) : option bvs :=
  let width := N.of_nat (length str) * 8 in
  let r := if bsize ret =? 0 then resize ret width else ret in
  if width <=? bsize r then
    let r := setRange r DEFINED 0 width true in
    Some (fold_left (fun st i =>
                       let c := N_of_ascii (nth (N.to_nat (i / 8)) str zero) in
                       setb st VALUE i (N.testbit c (i mod 8)))
                    (nrange 0 width) r)
  else None.

Definition parseBitVector (str : list ascii) : option bvs :=
  let wl := take_digits str 0 false in
  let ret := parseWidth (fst wl) in
  match snd wl with
  | c :: body =>
    let n := N_of_ascii c in
    if n =? 115 (* s *) then parseString ret body
    else if n =? 120 (* x *) then
      if forallb (fun c => in_range c 48 57 || in_range c 97 102 || in_range c 65 70 || is_x c) body
      then parseHex 4 ret body else None
    else if n =? 111 (* o *) then
      if forallb (fun c => in_range c 48 55 || is_x c) body then parseHex 3 ret body else None
    else if n =? 98 (* b *) then
      if forallb (fun c => in_range c 48 49 || is_x c) body then parseHex 1 ret body else None
    else if n =? 100 (* d *) then
      if forallb is_digit body then parseDec ret body else None
    else None
  | [] => None
  end.

(* ------------------------------------------------------------------ *)
(* remaining public interface of BitVectorState.h                      *)
(* ------------------------------------------------------------------ *)

(* head(plane) = extractNonStraddling(plane, 0, size()) *)
Definition head (s : bvs) (p : nat) : N := extractNS s p 0 (bsize s).

(* allDefinedNonStraddling(vec, start, size) =
     !andNot(vec.extractNonStraddling(DEFINED, start, size), bitMaskRange(0, size)) *)
Definition allDefinedNS (s : bvs) (start size : N) : bool :=
  andNot (extractNS s DEFINED start size) (bitMaskRange 0 size) =? 0.

(* clear(): empties the word vectors of every plane; m_size is NOT reset (the container is then
   inconsistent until the next resize).  clear(); resize(n) gives n zero bits: vector::resize
   value-initialises every word. *)
Definition clearAll (s : bvs) : bvs := {| bsize := bsize s; planes := map (fun _ => []) (planes s) |}.
Definition clearResize (s : bvs) (n : N) : bvs := resize (clearAll s) n.

(* asBytes(plane): the first (m_size+7)/8 bytes of the plane's storage (little endian) *)
Definition asBytes (s : bvs) (p : nat) : list N :=
  map (getByte (plane s p)) (nrange 0 ((bsize s + 7) / 8)).
Fixpoint bytesToN (l : list N) : N := match l with [] => 0 | b :: r => b + 256 * bytesToN r end.

(* bool operator==(const DefaultBitVectorState &lhs, std::span<const std::byte> rhs)
   None = the std::runtime_error for a wrong size.  srcWords[k] is the uint64_t read at byte
   offset 8k of the span; for the partial last word the C++ reads up to 7 bytes past the end of
   the span and masks them away -- modelled as reading zeros. *)
Definition srcWord (bytes : list N) (k : N) : N :=
  bytesToN (firstn 8 (skipn (N.to_nat (8 * k)) bytes)).
Definition eqBytes (s : bvs) (bytes : list N) : option bool :=
  let n := N.of_nat (length bytes) in
  if negb (bsize s =? n * 8) then None
  else if negb (allDefined s 0 size_max) then Some false
  else
    let numFullWords := n / 8 in
    let remainingBytes := n - numFullWords * 8 in
    let v := plane s VALUE in
    if negb (forallb (fun k => getw v k =? srcWord bytes k) (nrange 0 numFullWords)) then Some false
    else if 0 <? remainingBytes then
      let difference := N.lxor (getw v numFullWords) (srcWord bytes numFullWords) in
      let mask := N.shiftr (N.ones 64) ((8 - remainingBytes) * 8) in
      Some (N.land difference mask =? 0)
    else Some true.

(* range(plane, offset, size): iterator over chunks of stepWidth() = min(64, end - offset) bits;
   *it reads extract(plane, offset, stepWidth), *it = v writes insert(plane, offset, stepWidth, v).
   iterRead accumulates the chunks read (chunk at bit position k of the result),
   iterWrite stores chunk k of the number v. *)
Fixpoint iterReadLoop (fuel : nat) (w : list N) (offset end_ k acc : N) : N :=
  match fuel with
  | O => acc
  | S f =>
    if negb (offset =? end_) then
      let step := N.min 64 (end_ - offset) in
      iterReadLoop f w (offset + step) end_ (k + step) (N.lor acc (N.shiftl (extractWP w offset step) k))
    else acc
  end.
Definition iterRead (s : bvs) (p : nat) (offset size : N) : N :=
  iterReadLoop (S (N.to_nat size)) (plane s p) offset (offset + size) 0 0.

Fixpoint iterWriteLoop (fuel : nat) (w : list N) (offset end_ k v : N) : list N :=
  match fuel with
  | O => w
  | S f =>
    if negb (offset =? end_) then
      let step := N.min 64 (end_ - offset) in
      iterWriteLoop f (insertWP w offset step (wrap64 (N.shiftr v k))) (offset + step) end_ (k + step) v
    else w
  end.
Definition iterWrite (s : bvs) (p : nat) (offset size v : N) : bvs :=
  on_plane s p (fun w => iterWriteLoop (S (N.to_nat size)) w offset (offset + size) 0 v).

(* asData(src, dst, undefinedFiller): dst[j] = (value[j] & def[j]) | (filler[j % n] & ~def[j]),
   filler 'X' if the filler span is empty; None = HCL_DESIGNCHECK (size not a multiple of 8 bits) *)
Definition asData (s : bvs) (filler : list N) : option (list N) :=
  if negb (bsize s mod 8 =? 0) then None
  else Some (map (fun j =>
                    let def := getByte (plane s DEFINED) j in
                    let f := match filler with
                             | [] => 88
                             | _ => nth (N.to_nat (j mod N.of_nat (length filler))) filler 0
                             end in
                    N.lor (N.land (getByte (plane s VALUE) j) def) (N.land f (N.ldiff 255 def)))
                 (nrange 0 (bsize s / 8))).

(* parseBitVector(uint64_t value, size_t width) *)
Definition parseBitVectorValue (value width : N) : bvs :=
  let r := resize (mk_empty 2) width in
  let r := clearRange r VALUE 0 width in
  let r := setRange r DEFINED 0 width true in
  insertNS r VALUE 0 (N.min 64 width) value.

(* createDefaultBitVectorState(bitWidth, size_t value): inserts all 64 bits of value
   non-straddling at 0 -- asserts nothing about bitWidth >= 64 except through the word lookup *)
Definition createDefaultValue (bitWidth value : N) : option bvs :=
  let r := resize (mk_empty 2) bitWidth in
  let r := setRange r DEFINED 0 bitWidth true in
  let r := clearRange r VALUE 0 bitWidth in
  if bitWidth =? 0 then None    (* HCL_ASSERT(start / 64 < m_values[plane].size()) fails *)
  else Some (insertNS r VALUE 0 64 value).

(* createDefaultBitVectorState(bitWidth, data): DEFINED all set, memcpy of (bitWidth+7)/8 bytes into
   the VALUE plane ([bytes] must supply at least that many) *)
Definition createDefaultData (bitWidth : N) (bytes : list N) : bvs :=
  let r := resize (mk_empty 2) bitWidth in
  let r := setRange r DEFINED 0 bitWidth true in
  on_plane r VALUE (fun w =>
    fold_left (fun w kb => setByte w (fst kb) (snd kb))
              (combine (nrange 0 ((bitWidth + 7) / 8)) bytes) w).

(* parseBit(char) / parseBit(bool); None = HCL_DESIGNCHECK *)
Definition parseBitChar (c : ascii) : option bvs :=
  let n := N_of_ascii c in
  if (n =? 48) || (n =? 49) || (n =? 120) || (n =? 88) then
    let r := resize (mk_empty 2) 1 in
    let r := setb r VALUE 0 (negb (n =? 48)) in
    Some (setb r DEFINED 0 (negb ((n =? 120) || (n =? 88))))
  else None.
Definition parseBitBool (b : bool) : bvs :=
  let r := resize (mk_empty 2) 1 in
  setb (setb r VALUE 0 b) DEFINED 0 true.

(* convertToExtended / tryConvertToDefault *)
Fixpoint convLoop (fuel : nat) (dst : list N) (src : list N) (size offset : N) : list N :=
  match fuel with
  | O => dst
  | S f =>
    if offset <? size then
      let chunk := N.min 64 (size - offset) in
      convLoop f (insertWP dst offset chunk (extractWP src offset chunk)) src size (offset + 64)
    else dst
  end.
Definition convertToExtended (s : bvs) : bvs :=
  let r := resize (mk_empty 4) (bsize s) in
  let conv p := convLoop (S (N.to_nat (bsize s))) (plane r p) (plane s p) (bsize s) 0 in
  {| bsize := bsize s; planes := [conv VALUE; conv DEFINED; plane r DONT_CARE; plane r HIGH_IMPEDANCE] |}.
Definition tryConvertToDefault (s : bvs) : option bvs :=
  if negb (forallb (fun off => let c := N.min 64 (bsize s - off) in
                      (extractW s DONT_CARE off c =? 0) && (extractW s HIGH_IMPEDANCE off c =? 0))
                   (map (fun k => 64 * k) (nrange 0 ((bsize s + 63) / 64))))
  then None
  else
    let r := resize (mk_empty 2) (bsize s) in
    let conv p := convLoop (S (N.to_nat (bsize s))) (plane r p) (plane s p) (bsize s) 0 in
    Some {| bsize := bsize s; planes := [conv VALUE; conv DEFINED] |}.

(* ------------------------------------------------------------------ *)
(* operation sequences on a small file of containers                  *)
(* ------------------------------------------------------------------ *)

Inductive op :=
| OResize (r : nat) (n : N)
| OGet (r p : nat) (i : N)
| OSet1 (r p : nat) (i : N)
| OSetB (r p : nat) (i : N) (b : bool)
| OClear (r p : nat) (i : N)
| OToggle (r p : nat) (i : N)
| OSetRange (r p : nat) (off size : N) (b : bool)
| OInsertW (r p : nat) (off size v : N)
| OExtractW (r p : nat) (off size : N)
| OInsertNS (r p : nat) (off size v : N)
| OExtractNS (r p : nat) (off size : N)
| OCopyRange (rd : nat) (dOff : N) (rs : nat) (sOff size : N)
| OCompareRange (rd : nat) (dOff : N) (rs : nat) (sOff size : N)
| OExtractS (rd rs : nat) (start size : N)
| OInsertS (rd rs : nat) (off size : N)
| OAppend (rd rs : nat)
| OEq (ra rb : nat)
| OAllOne (r p : nat) (start size : N)
| OAllZero (r p : nat) (start size : N)
| OAnyDefined (r : nat) (start size : N)
| OCompareValues (ra : nat) (sa : N) (rb : nat) (sb size : N)
| OEqualOnDefined (ra : nat) (sa : N) (rb : nat) (sb size : N)
| OCanBeReplaced (ra rb : nat) (sa sb size : N)
| OMerge (rd : nat) (sd : N) (rs : nat) (ss size : N)
| OInsertBig (r : nat) (off size : N) (v : Z)
| OExtractBig (r : nat) (off size : N)
(* whole-object operations and views *)
| OAssign (rd rs : nat)                      (* regs[rd] = regs[rs]              *)
| OSwap (ra rb : nat)                        (* std::swap(regs[ra], regs[rb])    *)
| OMove (rd rs : nat)                        (* regs[rd] = std::move(regs[rs]); regs[rs] = {} *)
| OClearResize (r : nat) (n : N)             (* clear(); resize(n)               *)
| OHead (r p : nat)
| OAllDefNS (r : nat) (start size : N)
| OAsBytes (r p : nat)
| OEqBytes (r : nat) (bytes : list N)        (* -1 = exception (wrong size)      *)
| OIterRead (r p : nat) (off size : N)
| OIterWrite (r p : nat) (off size v : N).

Definition regs := list bvs.
Definition getr (np : nat) (rs : regs) (r : nat) : bvs := nth r rs (mk_empty np).
Definition b2z (b : bool) : option Z := Some (if b then 1%Z else 0%Z).

(* [np] = NUM_PLANES of the configuration (2 = DefaultConfig, 4 = ExtendedConfig);
   it selects the compareRange specialisation. *)
Definition step (np : nat) (o : op) (rs : regs) : regs * option Z :=
  let g := getr np rs in
  match o with
  | OResize r n => (upd_nat rs r (resize (g r) n), None)
  | OGet r p i => (rs, b2z (get (g r) p i))
  | OSet1 r p i => (upd_nat rs r (set1 (g r) p i), None)
  | OSetB r p i b => (upd_nat rs r (setb (g r) p i b), None)
  | OClear r p i => (upd_nat rs r (clear1 (g r) p i), None)
  | OToggle r p i => (upd_nat rs r (toggle (g r) p i), None)
  | OSetRange r p off size b => (upd_nat rs r (setRange (g r) p off size b), None)
  | OInsertW r p off size v => (upd_nat rs r (insertW (g r) p off size v), None)
  | OExtractW r p off size => (rs, Some (Z.of_N (extractW (g r) p off size)))
  | OInsertNS r p off size v => (upd_nat rs r (insertNS (g r) p off size v), None)
  | OExtractNS r p off size => (rs, Some (Z.of_N (extractNS (g r) p off size)))
  | OCopyRange rd dOff r sOff size => (upd_nat rs rd (copyRange (g rd) dOff (g r) sOff size), None)
  | OCompareRange rd dOff r sOff size =>
      (rs, b2z (if Nat.eqb np 2 then compareRangeD (g rd) dOff (g r) sOff size
                else compareRangeX (g rd) dOff (g r) sOff size))
  | OExtractS rd r start size => (upd_nat rs rd (extractS (g r) start size), None)
  | OInsertS rd r off size => (upd_nat rs rd (insertS (g rd) (g r) off size), None)
  | OAppend rd r => (upd_nat rs rd (append (g rd) (g r)), None)
  | OEq ra rb => (rs, b2z (eqS (g ra) (g rb)))
  | OAllOne r p start size => (rs, b2z (allOne (g r) p start size))
  | OAllZero r p start size => (rs, b2z (allZero (g r) p start size))
  | OAnyDefined r start size => (rs, b2z (anyDefined (g r) start size))
  | OCompareValues ra sa rb sb size => (rs, b2z (compareValues (g ra) sa (g rb) sb size))
  | OEqualOnDefined ra sa rb sb size => (rs, b2z (equalOnDefinedValues (g ra) sa (g rb) sb size))
  | OCanBeReplaced ra rb sa sb size => (rs, b2z (canBeReplacedWith (g ra) (g rb) sa sb size))
  | OMerge rd sd r ss size => (upd_nat rs rd (mergeUndefinedSelection (g rd) sd (g r) ss size), None)
  | OInsertBig r off size v => (upd_nat rs r (insertBigInt (g r) off size v), None)
  | OExtractBig r off size => (rs, Some (extractBigInt (g r) off size))
  | OAssign rd r => (upd_nat rs rd (g r), None)
  | OSwap ra rb => (upd_nat (upd_nat rs ra (g rb)) rb (g ra), None)
  | OMove rd r => (upd_nat (upd_nat rs rd (g r)) r (mk_empty np), None)
  | OClearResize r n => (upd_nat rs r (clearResize (g r) n), None)
  | OHead r p => (rs, Some (Z.of_N (head (g r) p)))
  | OAllDefNS r start size => (rs, b2z (allDefinedNS (g r) start size))
  | OAsBytes r p => (rs, Some (Z.of_N (bytesToN (asBytes (g r) p))))
  | OEqBytes r bytes => (rs, match eqBytes (g r) bytes with Some b => b2z b | None => Some (-1)%Z end)
  | OIterRead r p off size => (rs, Some (Z.of_N (iterRead (g r) p off size)))
  | OIterWrite r p off size v => (upd_nat rs r (iterWrite (g r) p off size v), None)
  end.

Definition run (np : nat) (ops : list op) (rs : regs) : regs * list (option Z) :=
  fold_left (fun st o => let r := step np o (fst st) in (fst r, snd st ++ [snd r])) ops (rs, []).
