(* C11 — Names, grouping, comments, attributes and pass-through copies never change behaviour.
   The model's circuit semantics (NetDefs) does not contain names, comments, groups or
   attributes at all, so they cannot influence a modelled run; what decorations DO change is
   the graph handed to the post processors (named signals survive culling, entity borders
   insert port signals, pass-through copies add forwarding nodes) and thereby which rewrites
   fire.  That is validated per twin pair with the verified certificate checker in three modes:
     strict : constructed twin A vs constructed twin B            -> pin values identical
     refine : constructed A vs post-processed B (default/minimal)  -> C01's condition
     compat : post-processed A vs post-processed B                 -> never contradict         *)
From Coq Require Import List Bool Arith.
From Gatery Require Import Bits NodeSemDefs NodeSemSpec NodeSemReg NetDefs ProductCert.
Import ListNotations.

Theorem C11_strict_sound : forall (nl1 nl2 : netlist) (sc : schedule) (ws : list nat) (sigma : nat -> list bv),
  (forall t, ins_wf ws (sigma t)) ->
  forall layers, check_cert MStrict nl1 nl2 sc ws layers = true ->
  forall t, out_at nl2 sc sigma t = out_at nl1 sc sigma t.
Proof. intros nl1 nl2 sc ws sigma Hs layers H. exact (cert_sound_strict MStrict nl1 nl2 sc ws sigma Hs layers eq_refl H). Qed.
Print Assumptions C11_strict_sound.

Theorem C11_refine_sound : forall (nl1 nl2 : netlist) (sc : schedule) (ws : list nat) (sigma : nat -> list bv),
  (forall t, ins_wf ws (sigma t)) ->
  forall layers, check_cert MRefine nl1 nl2 sc ws layers = true ->
  forall t, Forall2 bv_compat (out_at nl1 sc sigma t) (out_at nl2 sc sigma t) /\
            (clean_upto nl1 sc sigma t = true -> out_at nl2 sc sigma t = out_at nl1 sc sigma t).
Proof. intros nl1 nl2 sc ws sigma Hs layers H. exact (cert_sound MRefine nl1 nl2 sc ws sigma Hs layers eq_refl H). Qed.
Print Assumptions C11_refine_sound.

Theorem C11_compat_sound : forall (nl1 nl2 : netlist) (sc : schedule) (ws : list nat) (sigma : nat -> list bv),
  (forall t, ins_wf ws (sigma t)) ->
  forall layers, check_cert MCompat nl1 nl2 sc ws layers = true ->
  forall t, Forall2 bv_compat (out_at nl1 sc sigma t) (out_at nl2 sc sigma t).
Proof. intros nl1 nl2 sc ws sigma Hs layers H. exact (cert_sound_compat MCompat nl1 nl2 sc ws sigma Hs layers eq_refl H). Qed.
Print Assumptions C11_compat_sound.

(* a pass-through node (signal, attributes, CDC marker, register hint, retiming blocker,
   export override) is the identity on any connected value of its width *)
Theorem C11_forwarding_is_identity : forall f x, eval (KForward f (length x)) [Some x] = [x].
Proof. exact eval_forward_spec. Qed.
Print Assumptions C11_forwarding_is_identity.

(* non-vacuity: a design and its twin with an inserted pass-through signal *)
Definition twA : netlist :=
  [ mk_node (NPinIn 2 0) [];
    mk_node (NComb (KLogic L_NOT 2)) [Some (0, 0)];
    mk_node (NPinOut 2) [Some (1, 0)] ].
Definition twB : netlist :=
  [ mk_node (NPinIn 2 0) [];
    mk_node (NComb (KForward FW_SIGNAL 2)) [Some (0, 0)];
    mk_node (NComb (KLogic L_NOT 2)) [Some (1, 0)];
    mk_node (NComb (KForward FW_ATTRIBUTES 2)) [Some (2, 0)];
    mk_node (NPinOut 2) [Some (3, 0)] ].
Definition tw_sched : schedule := mk_sched [[EvReset true]; [EvEdge; EvReset false]] [EvEdge].
Definition tw_layers : list (list pstate) :=
  [ [mk_pstate [] [] true]; [mk_pstate [] [] true; mk_pstate [] [] false]; [mk_pstate [] [] true; mk_pstate [] [] false] ].
Example tw_strict_accepted : check_cert MStrict twA twB tw_sched [2] tw_layers = true.
Proof. vm_compute. reflexivity. Qed.
