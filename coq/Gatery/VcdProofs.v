(* C20 -- proofs about the VCD writer/reader model of VcdDefs.v *)
From Coq Require Import List Bool Arith NArith ZArith QArith Qround String Ascii DecimalString DecimalN Lia FinFun.
From Gatery Require Import Bits VcdDefs.
Import ListNotations.

(* ========================================================================================== *)
(* A. identifier codes                                                                         *)
(* ========================================================================================== *)

Definition id_valid (l : list N) : Prop := Forall (fun d => (33 <= d /\ d < 127)%N) l.

(* bijective base-94 value, least significant position first *)
Fixpoint id_rank (l : list N) : N :=
  match l with [] => 0%N | d :: r => ((d - 32) + 94 * id_rank r)%N end.

Lemma id_next_valid l : id_valid l -> id_valid (id_next l).
Proof.
  unfold id_valid. induction l as [|d r IH]; simpl; intros H.
  - constructor; [unfold IDENT_BEG; lia | constructor].
  - inversion H as [|? ? Hd Hr]; subst.
    unfold IDENT_END, IDENT_BEG. destruct (N.leb_spec 127 (d + 1)).
    + constructor; [lia | auto].
    + constructor; [lia | auto].
Qed.

Lemma id_next_rank l : id_valid l -> id_rank (id_next l) = (id_rank l + 1)%N.
Proof.
  unfold id_valid. induction l as [|d r IH]; cbn [id_next id_rank]; intros H.
  - reflexivity.
  - inversion H as [|? ? Hd Hr]; subst.
    unfold IDENT_END, IDENT_BEG. destruct (N.leb_spec 127 (d + 1)); cbn [id_rank].
    + rewrite IH by assumption. lia.
    + lia.
Qed.

Lemma id_state_valid n : id_valid (id_state n).
Proof.
  induction n; simpl.
  - constructor; [unfold IDENT_BEG; lia | constructor].
  - apply id_next_valid; assumption.
Qed.

Lemma id_state_rank n : id_rank (id_state n) = (N.of_nat n + 1)%N.
Proof.
  induction n.
  - reflexivity.
  - cbn [id_state]. rewrite id_next_rank by apply id_state_valid. rewrite IHn. lia.
Qed.

Lemma id_state_inj a b : id_state a = id_state b -> a = b.
Proof.
  intros H. apply (f_equal id_rank) in H. rewrite !id_state_rank in H. lia.
Qed.

Lemma string_of_codes_inj l1 l2 :
  id_valid l1 -> id_valid l2 -> string_of_codes l1 = string_of_codes l2 -> l1 = l2.
Proof.
  unfold id_valid. revert l2. induction l1 as [|a r IH]; intros [|b r2] H1 H2 H; simpl in H;
    try discriminate; try reflexivity.
  inversion H1; inversion H2; subst. injection H as Hc Hr.
  f_equal.
  - apply (f_equal N_of_ascii) in Hc. rewrite !N_ascii_embedding in Hc by lia. exact Hc.
  - apply IH; assumption.
Qed.

Lemma ident_inj a b : ident a = ident b -> a = b.
Proof.
  unfold ident. intros H. apply id_state_inj.
  apply string_of_codes_inj; auto using id_state_valid.
Qed.

Lemma idents_from_spec k : forall n, idents_from (id_state n) k = map ident (seq n k).
Proof.
  induction k; intros n; simpl; [reflexivity|].
  f_equal. change (id_next (id_state n)) with (id_state (S n)). apply IHk.
Qed.

Lemma idents_spec k : idents k = map ident (seq 0 k).
Proof. exact (idents_from_spec k 0). Qed.

Lemma idents_NoDup k : NoDup (idents k).
Proof.
  rewrite idents_spec. apply FinFun.Injective_map_NoDup.
  - intros a b; apply ident_inj.
  - apply seq_NoDup.
Qed.

Lemma idents_length k : length (idents k) = k.
Proof. rewrite idents_spec, map_length, seq_length; reflexivity. Qed.

Lemma mk_sigs_ids ids decls : length ids = length decls -> map sg_id (mk_sigs ids decls) = ids.
Proof.
  revert decls. induction ids as [|i r IH]; intros [|[[w b] n] ds] H; simpl in *; try discriminate; auto.
  f_equal. apply IH. lia.
Qed.

Lemma declare_ids decls : map sg_id (declare decls) = idents (length decls).
Proof. unfold declare. apply mk_sigs_ids. apply idents_length. Qed.

Lemma declare_NoDup decls : NoDup (map sg_id (declare decls)).
Proof. rewrite declare_ids. apply idents_NoDup. Qed.

(* the code of a later call (clock / reset / string variables) never equals a signal code *)
Lemma ident_not_in_idents k n : (k <= n)%nat -> ~ In (ident n) (idents k).
Proof.
  intros Hk Hin. rewrite idents_spec in Hin. apply in_map_iff in Hin.
  destruct Hin as [m [Hm Hs]]. apply ident_inj in Hm. apply in_seq in Hs. lia.
Qed.

(* ========================================================================================== *)
(* B. lines: parse (print l) = l                                                               *)
(* ========================================================================================== *)

Definition raw_ok (l : vline) : Prop :=
  match l with LRaw s => exists r, s = String "$"%char r | _ => True end.

Lemma split_blank_bits bs id :
  split_blank (string_of_bits bs ++ String " "%char id) = (string_of_bits bs, id).
Proof.
  induction bs as [|b r IH]; simpl.
  - reflexivity.
  - rewrite IH. destruct b; reflexivity.
Qed.

Lemma parse_bits_print bs : parse_bits (string_of_bits bs) = Some bs.
Proof.
  induction bs as [|b r IH]; simpl; [reflexivity|].
  rewrite IH. destruct b; reflexivity.
Qed.

Lemma dec_roundtrip n : NilEmpty.uint_of_string (dec n) = Some (N.to_uint n).
Proof. unfold dec. apply NilEmpty.usu. Qed.

Lemma parse_print l : raw_ok l -> parse_line (print_line l) = l.
Proof.
  destruct l as [n | b id | bs id | s]; simpl; intros H.
  - rewrite dec_roundtrip. rewrite DecimalN.Unsigned.of_to. reflexivity.
  - destruct b; reflexivity.
  - rewrite split_blank_bits, parse_bits_print. reflexivity.
  - destruct H as [r ->]. reflexivity.
Qed.

Lemma map_parse_print ls : Forall raw_ok ls -> map parse_line (map print_line ls) = ls.
Proof.
  induction 1; simpl; [reflexivity|]. rewrite parse_print by assumption. f_equal; assumption.
Qed.

(* ========================================================================================== *)
(* C. change detection                                                                         *)
(* ========================================================================================== *)

Lemma changed_false_iff nw old : length nw = length old -> (changed nw old = false <-> nw = old).
Proof.
  unfold changed, plane_differs.
  revert old. induction nw as [|a r IH]; intros [|b r2] H; simpl in *; try discriminate.
  - tauto.
  - assert (Hl : length r = length r2) by lia. specialize (IH r2 Hl).
    destruct a as [ad av], b as [bd bv]; simpl.
    rewrite orb_false_iff in IH. rewrite !orb_false_iff.
    split.
    + intros [[H1 H2] [H3 H4]].
      apply xorb_eq in H1. apply xorb_eq in H3. subst.
      f_equal. apply IH. auto.
    + intros E. injection E as -> -> ->. rewrite !xorb_nilpotent.
      destruct IH as [_ IH]. specialize (IH eq_refl). tauto.
Qed.

Lemma changed_refl v : changed v v = false.
Proof. apply changed_false_iff; reflexivity. Qed.

(* ========================================================================================== *)
(* D. one commit                                                                               *)
(* ========================================================================================== *)

Definition st_ids (st : wstate) : list string := map (fun p => sg_id (fst p)) st.

Lemma st_ids_fst st : st_ids st = map sg_id (map fst st).
Proof. unfold st_ids. rewrite map_map. reflexivity. Qed.

Lemma commit_decls st : forall news st2 ls, commit st news = (st2, ls) -> map fst st2 = map fst st.
Proof.
  induction st as [|[d old] st' IH]; intros news st2 ls H; simpl in H.
  - injection H as <- <-. reflexivity.
  - destruct news as [|nw news'].
    + injection H as <- <-. reflexivity.
    + destruct (commit st' news') as [s2 l2] eqn:E.
      specialize (IH _ _ _ E).
      destruct (Nat.eqb (length nw) 0); [|destruct (changed nw old)];
        injection H as <- <-; simpl; f_equal; assumption.
Qed.

Lemma sig_line_change d v :
  length v = sg_width d -> line_change (sig_line d v) = Some (sg_id d, viewv v).
Proof.
  intros Hl. unfold sig_line.
  destruct (Nat.eqb (sg_width d) 1 && negb (sg_bvec d))%bool eqn:E; simpl.
  - apply andb_true_iff in E. destruct E as [E _]. apply Nat.eqb_eq in E. rewrite E in Hl.
    destruct v as [|x [|y r]]; simpl in Hl; try discriminate. reflexivity.
  - rewrite rev_involutive. reflexivity.
Qed.

(* every line of a commit is a change line for one of the recorded signals *)
Lemma commit_lines st : forall news st2 ls,
  Forall2 (fun p v => length v = sg_width (fst p)) st news ->
  commit st news = (st2, ls) ->
  Forall (fun l => exists id v, line_change l = Some (id, v) /\ In id (st_ids st)) ls.
Proof.
  induction st as [|[d old] st' IH]; intros news st2 ls HF H; simpl in H.
  - injection H as <- <-. constructor.
  - destruct news as [|nw news']; [injection H as <- <-; constructor|].
    inversion HF as [|? ? ? ? Hw HF']; subst. simpl in Hw.
    destruct (commit st' news') as [s2 l2] eqn:E.
    specialize (IH _ _ _ HF' E).
    assert (IH' : Forall (fun l => exists id v, line_change l = Some (id, v) /\ In id (st_ids ((d, old) :: st'))) l2).
    { eapply Forall_impl; [|exact IH]. intros l [id [v [A B]]]. exists id, v. split; [assumption|right; assumption]. }
    destruct (Nat.eqb (length nw) 0); [|destruct (changed nw old)]; injection H as <- <-; auto.
    constructor; [|assumption].
    exists (sg_id d), (viewv nw). split; [apply sig_line_change; assumption | left; reflexivity].
Qed.

(* lines about other codes do not move the reader *)
Lemma fold_other_ids T id ls : forall s,
  Forall (fun l => exists id' v, line_change l = Some (id', v) /\ id' <> id) ls ->
  fold_left (rd_step T id) ls s = s.
Proof.
  induction ls as [|l r IH]; intros s H; simpl; [reflexivity|].
  inversion H as [|? ? [id' [v [Hc Hn]]] Hr]; subst.
  assert (rd_step T id s l = s) as ->.
  { unfold rd_step. destruct l; simpl in Hc; try discriminate;
      injection Hc as <- <-; simpl;
      (destruct (String.eqb_spec id0 id); [contradiction | reflexivity]). }
  apply IH; assumption.
Qed.

(* was a line written for signal (d, old) when the simulator reported nw? *)
Definition emitted (nw old : rvec) : bool := negb (Nat.eqb (length nw) 0) && changed nw old.

Lemma commit_nth st : forall news st2 ls i d old nw,
  commit st news = (st2, ls) ->
  nth_error st i = Some (d, old) -> nth_error news i = Some nw ->
  nth_error st2 i = Some (d, if emitted nw old then nw else old).
Proof.
  unfold emitted.
  induction st as [|[d0 old0] st' IH]; intros news st2 ls i d old nw H Hs Hn.
  - destruct i; discriminate.
  - destruct news as [|nw0 news']; [destruct i; discriminate|].
    simpl in H. destruct (commit st' news') as [s2 l2] eqn:E.
    destruct i as [|i]; simpl in Hs, Hn.
    + injection Hs as -> ->. injection Hn as ->.
      destruct (Nat.eqb (length nw) 0); [|destruct (changed nw old)]; injection H as <- <-; reflexivity.
    + specialize (IH _ _ _ _ _ _ _ E Hs Hn).
      destruct (Nat.eqb (length nw0) 0); [|destruct (changed nw0 old0)]; injection H as <- <-; exact IH.
Qed.

Lemma rd_step_notime T id now cur l :
  (forall n, l <> LTime n) -> fst (rd_step T id (now, cur) l) = now.
Proof.
  intros H. destruct l; simpl; try reflexivity.
  - exfalso; eapply H; reflexivity.
  - destruct (String.eqb id0 id && (now <=? T)%N)%bool; reflexivity.
  - destruct (String.eqb id0 id && (now <=? T)%N)%bool; reflexivity.
Qed.

(* what the reader, asked about signal i, makes of the lines of one commit *)
Lemma commit_read T st : forall news st2 ls i d old nw now cur,
  NoDup (st_ids st) ->
  Forall2 (fun p v => length v = sg_width (fst p)) st news ->
  commit st news = (st2, ls) ->
  nth_error st i = Some (d, old) -> nth_error news i = Some nw ->
  fold_left (rd_step T (sg_id d)) ls (now, cur) =
    (now, if (emitted nw old && (now <=? T)%N)%bool then Some (viewv nw) else cur).
Proof.
  induction st as [|[d0 old0] st' IH]; intros news st2 ls i d old nw now cur ND HF H Hs Hn.
  - destruct i; discriminate.
  - destruct news as [|nw0 news']; [destruct i; discriminate|].
    inversion HF as [|? ? ? ? Hw HF']; subst. simpl in Hw.
    inversion ND as [|? ? Hnotin ND']; subst.
    simpl in H. destruct (commit st' news') as [s2 l2] eqn:E.
    pose proof (commit_lines _ _ _ _ HF' E) as HL.
    destruct i as [|i]; simpl in Hs, Hn.
    + injection Hs as -> ->. injection Hn as ->.
      assert (Hrest : forall s, fold_left (rd_step T (sg_id d)) l2 s = s).
      { intros s. apply fold_other_ids. eapply Forall_impl; [|exact HL].
        intros l [id [v [A B]]]. exists id, v. split; [assumption|].
        intros ->. apply Hnotin. exact B. }
      unfold emitted.
      destruct (Nat.eqb (length nw) 0) eqn:E0; [|destruct (changed nw old) eqn:Ec];
        injection H as <- <-; simpl; try (rewrite Hrest; reflexivity).
      unfold rd_step at 2.
      assert (Hsl := sig_line_change d nw Hw).
      destruct (sig_line d nw) eqn:Esl; simpl in Hsl; try discriminate;
        injection Hsl as -> <-; simpl; rewrite String.eqb_refl; simpl;
        rewrite Hrest; destruct (now <=? T)%N; reflexivity.
    + assert (Hne : sg_id d0 <> sg_id d).
      { intros Heq. apply Hnotin. rewrite Heq.
        unfold st_ids. apply in_map_iff. exists (d, old). split; [reflexivity|].
        eapply nth_error_In; eassumption. }
      specialize (IH _ _ _ _ _ _ _ now cur ND' HF' E Hs Hn).
      destruct (Nat.eqb (length nw0) 0); [|destruct (changed nw0 old0)]; injection H as <- <-; try exact IH.
      simpl. assert (Hsl := sig_line_change d0 nw0 Hw).
      assert (rd_step T (sg_id d) (now, cur) (sig_line d0 nw0) = (now, cur)) as ->; [|exact IH].
      unfold rd_step. destruct (sig_line d0 nw0); simpl in Hsl; try discriminate;
        injection Hsl as -> _; simpl;
        (destruct (String.eqb_spec (sg_id d0) (sg_id d)); [contradiction|reflexivity]).
Qed.

(* the line of signal i, if any, is the only one with its code: written exactly on a raw change *)
Definition line_has_id (id : string) (l : vline) : bool :=
  match line_change l with Some (id', _) => String.eqb id' id | None => false end.

Lemma commit_filter st : forall news st2 ls i d old nw,
  NoDup (st_ids st) ->
  Forall2 (fun p v => length v = sg_width (fst p)) st news ->
  commit st news = (st2, ls) ->
  nth_error st i = Some (d, old) -> nth_error news i = Some nw ->
  filter (line_has_id (sg_id d)) ls = if emitted nw old then [sig_line d nw] else [].
Proof.
  induction st as [|[d0 old0] st' IH]; intros news st2 ls i d old nw ND HF H Hs Hn.
  - destruct i; discriminate.
  - destruct news as [|nw0 news']; [destruct i; discriminate|].
    inversion HF as [|? ? ? ? Hw HF']; subst. simpl in Hw.
    inversion ND as [|? ? Hnotin ND']; subst.
    simpl in H. destruct (commit st' news') as [s2 l2] eqn:E.
    pose proof (commit_lines _ _ _ _ HF' E) as HL.
    destruct i as [|i]; simpl in Hs, Hn.
    + injection Hs as -> ->. injection Hn as ->.
      assert (Hrest : filter (line_has_id (sg_id d)) l2 = []).
      { clear -HL Hnotin. induction l2 as [|l r IHr]; simpl; [reflexivity|].
        inversion HL as [|? ? [id [v [A B]]] HL']; subst.
        unfold line_has_id at 1. rewrite A.
        destruct (String.eqb_spec id (sg_id d)); [subst; contradiction | auto]. }
      unfold emitted.
      destruct (Nat.eqb (length nw) 0) eqn:E0; [|destruct (changed nw old) eqn:Ec];
        injection H as <- <-; simpl; try exact Hrest.
      unfold line_has_id at 1. rewrite (sig_line_change d nw Hw), String.eqb_refl, Hrest. reflexivity.
    + assert (Hne : sg_id d0 <> sg_id d).
      { intros Heq. apply Hnotin. rewrite Heq.
        unfold st_ids. apply in_map_iff. exists (d, old). split; [reflexivity|].
        eapply nth_error_In; eassumption. }
      specialize (IH _ _ _ _ _ _ _ ND' HF' E Hs Hn).
      destruct (Nat.eqb (length nw0) 0); [|destruct (changed nw0 old0)]; injection H as <- <-; try exact IH.
      simpl. unfold line_has_id at 1. rewrite (sig_line_change d0 nw0 Hw).
      destruct (String.eqb_spec (sg_id d0) (sg_id d)); [contradiction | exact IH].
Qed.

(* ========================================================================================== *)
(* E. whole runs                                                                               *)
(* ========================================================================================== *)

Definition rdval (d : sigd) (cur : option bv) : bv :=
  match cur with Some v => v | None => repeat BX (sg_width d) end.

Lemma viewv_rzeros w : viewv (rzeros w) = repeat BX w.
Proof. unfold rzeros, viewv. induction w; simpl; [reflexivity | f_equal; assumption]. Qed.

Lemma wstate_init_decls ds : map (@fst sigd rvec) (wstate_init ds) = ds.
Proof. unfold wstate_init. rewrite map_map. simpl. apply map_id. Qed.

Lemma commit_ok_Forall2 ds (st : wstate) news :
  map fst st = ds -> commit_ok ds news ->
  Forall2 (fun p v => length v = sg_width (fst p)) st news.
Proof.
  intros <- H. unfold commit_ok in H. revert news H.
  induction st as [|p st' IH]; intros news H; simpl in H; inversion H; subst; constructor; auto.
Qed.

Lemma Forall2_nth_error {A B} (R : A -> B -> Prop) l1 l2 i a :
  Forall2 R l1 l2 -> nth_error l1 i = Some a -> exists b, nth_error l2 i = Some b /\ R a b.
Proof.
  intros H. revert i. induction H; intros [|i] Hi; simpl in Hi; try discriminate.
  - injection Hi as ->. eexists; split; [reflexivity | assumption].
  - apply IHForall2; assumption.
Qed.

Lemma nth_error_nth' {A} (l : list A) i a dflt : nth_error l i = Some a -> nth i l dflt = a.
Proof. revert i. induction l; intros [|i] H; simpl in *; try discriminate; [congruence | auto]. Qed.

Lemma vcd_run_invariant T i d ds : NoDup (map sg_id ds) -> nth_error ds i = Some d ->
  forall evs st now cur lst,
  map fst st = ds ->
  evs_ok ds evs -> ticks_mono now evs ->
  rdval d cur = viewv lst -> length lst = sg_width d ->
  ((now <= T)%N -> nth_error st i = Some (d, lst)) ->
  rdval d (snd (fold_left (rd_step T (sg_id d)) (snd (wr_run st evs)) (now, cur)))
    = viewv (last_commit T now i lst evs).
Proof.
  intros ND Hd. induction evs as [|e r IH]; intros st now cur lst Hst Hok Hmono Hrel Hlen Htr.
  - simpl. exact Hrel.
  - inversion Hok as [|e' r' He Hok']; subst e' r'.
    cbn [wr_run]. destruct (wr_step st e) as [st1 l1] eqn:E1.
    destruct (wr_run st1 r) as [st2 l2] eqn:E2.
    cbn [snd]. rewrite fold_left_app.
    destruct e as [t | id v | s | news]; cbn [wr_step] in E1.
    + (* tick *)
      injection E1 as <- <-. cbn [fold_left rd_step snd last_commit].
      destruct Hmono as [Hle Hmono].
      specialize (IH st (tick t) cur lst Hst Hok' Hmono Hrel Hlen).
      rewrite E2 in IH. apply IH. intros Ht. apply Htr. lia.
    + (* clock / reset line: a different code *)
      injection E1 as <- <-. cbn [fold_left last_commit].
      assert (rd_step T (sg_id d) (now, cur) (LScalar (of_bool v) id) = (now, cur)) as ->.
      { simpl. destruct (String.eqb_spec id (sg_id d)) as [->|]; [|reflexivity].
        exfalso. apply He. apply in_map. eapply nth_error_In; eassumption. }
      specialize (IH st now cur lst Hst Hok' Hmono Hrel Hlen Htr). rewrite E2 in IH. exact IH.
    + (* raw line *)
      injection E1 as <- <-. cbn [fold_left last_commit rd_step line_change].
      specialize (IH st now cur lst Hst Hok' Hmono Hrel Hlen Htr). rewrite E2 in IH. exact IH.
    + (* commit *)
      cbn [last_commit]. cbn [ticks_mono] in Hmono.
      pose proof (commit_ok_Forall2 _ _ _ Hst He) as HF.
      pose proof (commit_decls _ _ _ _ E1) as Hst1. rewrite Hst in Hst1.
      assert (NDst : NoDup (st_ids st)) by (rewrite st_ids_fst, Hst; exact ND).
      destruct (N.leb_spec now T) as [Hle|Hgt].
      * specialize (Htr Hle).
        destruct (Forall2_nth_error _ _ _ _ _ HF Htr) as [nw [Hnw Hw]]. simpl in Hw.
        rewrite (commit_read T st news st1 l1 i d lst nw now cur NDst HF E1 Htr Hnw).
        rewrite (nth_error_nth' _ _ _ lst Hnw).
        assert (Hle' : (now <=? T)%N = true) by (apply N.leb_le; exact Hle).
        rewrite Hle', andb_true_r.
        pose proof (commit_nth _ _ _ _ _ _ _ _ E1 Htr Hnw) as Hst1i.
        assert (Hem : if emitted nw lst then True else nw = lst).
        { unfold emitted. destruct (Nat.eqb (length nw) 0) eqn:E0; simpl.
          - apply Nat.eqb_eq in E0. destruct nw; [|discriminate]. destruct lst; [reflexivity|].
            simpl in Hlen, Hw. rewrite <- Hw in Hlen. discriminate.
          - destruct (changed nw lst) eqn:Ec; [exact I|].
            apply changed_false_iff; [lia | exact Ec]. }
        destruct (emitted nw lst).
        -- specialize (IH st1 now (Some (viewv nw)) nw Hst1 Hok' Hmono eq_refl Hw (fun _ => Hst1i)).
           rewrite E2 in IH. exact IH.
        -- subst nw.
           specialize (IH st1 now cur lst Hst1 Hok' Hmono Hrel Hlen (fun _ => Hst1i)).
           rewrite E2 in IH. exact IH.
      * (* past T: the reader ignores the lines whatever they are *)
        assert (Hfold : fold_left (rd_step T (sg_id d)) l1 (now, cur) = (now, cur)).
        { pose proof (commit_lines _ _ _ _ HF E1) as HL. clear -HL Hgt.
          induction l1 as [|l r IHr]; [reflexivity|].
          inversion HL as [|? ? [id [v [A B]]] HL']; subst. simpl.
          assert (rd_step T (sg_id d) (now, cur) l = (now, cur)) as ->; [|auto].
          assert (Hf : (now <=? T)%N = false) by (apply N.leb_gt; exact Hgt).
          unfold rd_step. destruct l; simpl in A; try discriminate; simpl; rewrite Hf, andb_false_r; reflexivity. }
        rewrite Hfold.
        specialize (IH st1 now cur lst Hst1 Hok' Hmono Hrel Hlen).
        rewrite E2 in IH. apply IH. intros Hc. lia.
Qed.

(* ---- the reader returns, for every time T and signal, the value of the last commit at a tick <= T ---- *)
Theorem vcd_read_last_commit_proof : forall ds evs T i d,
  NoDup (map sg_id ds) -> evs_ok ds evs -> ticks_mono 0 evs ->
  nth_error ds i = Some d ->
  read_sig (write_body ds evs) T d = viewv (last_commit T 0 i (rzeros (sg_width d)) evs).
Proof.
  intros ds evs T i d ND Hok Hmono Hd.
  unfold read_sig, read_lines, write_body.
  change (match snd (fold_left (rd_step T (sg_id d)) (snd (wr_run (wstate_init ds) evs)) (0%N, None)) with
          | Some v => v | None => repeat BX (sg_width d) end)
    with (rdval d (snd (fold_left (rd_step T (sg_id d)) (snd (wr_run (wstate_init ds) evs)) (0%N, None)))).
  apply (vcd_run_invariant T i d ds ND Hd evs (wstate_init ds) 0%N None (rzeros (sg_width d))).
  - apply wstate_init_decls.
  - exact Hok.
  - exact Hmono.
  - simpl. symmetry. apply viewv_rzeros.
  - unfold rzeros. apply repeat_length.
  - intros _. unfold wstate_init. rewrite nth_error_map, Hd. reflexivity.
Qed.

(* ---- spec-side lemmas used to turn the general statement into the roundtrip forms ---- *)

Fixpoint ticks_gt (T : N) (evs : list vev) : Prop :=
  match evs with
  | [] => True
  | EvTick t :: r => (T < tick t)%N /\ ticks_gt T r
  | _ :: r => ticks_gt T r
  end.

Fixpoint tick_first (evs : list vev) : Prop :=
  match evs with
  | [] => True
  | EvTick _ :: _ => True
  | EvCommit _ :: _ => False
  | _ :: r => tick_first r
  end.

Lemma last_commit_app T i pre : forall now dflt post,
  last_commit T now i dflt (pre ++ post) =
  last_commit T (now_after now pre) i (last_commit T now i dflt pre) post.
Proof.
  induction pre as [|e r IH]; intros now dflt post; simpl; [reflexivity|].
  destruct e; simpl; apply IH.
Qed.

Lemma last_commit_late T i : forall post now dflt,
  (T < now)%N -> ticks_gt T post -> last_commit T now i dflt post = dflt.
Proof.
  induction post as [|e r IH]; intros now dflt Hn Hg; simpl; [reflexivity|].
  destruct e; simpl in Hg.
  - destruct Hg. apply IH; assumption.
  - apply IH; assumption.
  - apply IH; assumption.
  - assert ((now <=? T)%N = false) as -> by (apply N.leb_gt; exact Hn). apply IH; assumption.
Qed.

Lemma last_commit_after T i : forall post now dflt,
  tick_first post -> ticks_gt T post -> last_commit T now i dflt post = dflt.
Proof.
  induction post as [|e r IH]; intros now dflt Hf Hg; simpl; [reflexivity|].
  destruct e; simpl in Hf, Hg.
  - destruct Hg. apply last_commit_late; assumption.
  - apply IH; assumption.
  - apply IH; assumption.
  - contradiction.
Qed.

Theorem vcd_roundtrip_proof : forall ds pre news post i d,
  NoDup (map sg_id ds) ->
  evs_ok ds (pre ++ EvCommit news :: post) ->
  ticks_mono 0 (pre ++ EvCommit news :: post) ->
  tick_first post -> ticks_gt (now_after 0 pre) post ->
  nth_error ds i = Some d ->
  read_sig (write_body ds (pre ++ EvCommit news :: post)) (now_after 0 pre) d
    = viewv (nth i news []).
Proof.
  intros ds pre news post i d ND Hok Hm Hf Hg Hd.
  rewrite (vcd_read_last_commit_proof ds _ (now_after 0 pre) i d ND Hok Hm Hd).
  rewrite last_commit_app. cbn [last_commit]. rewrite N.leb_refl.
  rewrite last_commit_after by assumption.
  f_equal.
  (* the commit supplies a value for signal i *)
  apply Forall_app in Hok. destruct Hok as [_ Hok]. inversion Hok as [|? ? Hc _]; subst.
  unfold commit_ok in Hc.
  destruct (Forall2_nth_error _ _ _ _ _ Hc Hd) as [nw [Hnw _]].
  rewrite (nth_error_nth' _ _ _ _ Hnw), (nth_error_nth' _ _ _ _ Hnw). reflexivity.
Qed.

(* strictly increasing ticks: every commit is the last one of its tick *)
Fixpoint ticks_strict (now : N) (evs : list vev) : Prop :=
  match evs with
  | [] => True
  | EvTick t :: r => (now < tick t)%N /\ ticks_strict (tick t) r
  | _ :: r => ticks_strict now r
  end.

Lemma ticks_strict_mono evs : forall now, ticks_strict now evs -> ticks_mono now evs.
Proof.
  induction evs as [|e r IH]; intros now H; simpl in *; [exact I|].
  destruct e; auto. destruct H. split; [lia | auto].
Qed.

Lemma ticks_strict_gt evs : forall now T, (T <= now)%N -> ticks_strict now evs -> ticks_gt T evs.
Proof.
  induction evs as [|e r IH]; intros now T Hle H; simpl in *; [exact I|].
  destruct e; try (eapply IH; eassumption).
  destruct H. split; [lia|]. eapply IH; [|eassumption]. lia.
Qed.

Lemma ticks_strict_app pre : forall now post,
  ticks_strict now (pre ++ post) -> ticks_strict (now_after now pre) post.
Proof.
  induction pre as [|e r IH]; intros now post H; simpl in *; [exact H|].
  destruct e; simpl in H; try (apply IH; exact H). destruct H. apply IH; assumption.
Qed.

Theorem vcd_roundtrip_strict_proof : forall ds pre news post i d,
  NoDup (map sg_id ds) ->
  evs_ok ds (pre ++ EvCommit news :: post) ->
  ticks_strict 0 (pre ++ EvCommit news :: post) ->
  tick_first post ->
  nth_error ds i = Some d ->
  read_sig (write_body ds (pre ++ EvCommit news :: post)) (now_after 0 pre) d
    = viewv (nth i news []).
Proof.
  intros ds pre news post i d ND Hok Hs Hf Hd.
  apply vcd_roundtrip_proof; auto.
  - apply ticks_strict_mono; exact Hs.
  - apply ticks_strict_app in Hs. simpl in Hs.
    eapply ticks_strict_gt; [|exact Hs]. lia.
Qed.

(* two commits in one tick: the reader sees the later one *)
Fixpoint ticks_le (T : N) (evs : list vev) : Prop :=
  match evs with
  | [] => True
  | EvTick t :: r => (tick t <= T)%N /\ ticks_le T r
  | _ :: r => ticks_le T r
  end.

Lemma now_after_app pre : forall now post, now_after now (pre ++ post) = now_after (now_after now pre) post.
Proof. induction pre as [|e r IH]; intros; simpl; [reflexivity|]. destruct e; apply IH. Qed.

Lemma now_after_bounds mid : forall now T,
  ticks_mono now mid -> ticks_le T mid -> (now <= T)%N ->
  (now <= now_after now mid <= T)%N.
Proof.
  induction mid as [|e r IH]; intros now T Hm Hl Hn; simpl in *; [lia|].
  destruct e; try (apply IH; assumption).
  destruct Hm, Hl. specialize (IH (tick t) T H0 H2 H1). lia.
Qed.

Theorem vcd_same_tick_last_wins_proof : forall ds pre news1 mid news2 post i d,
  let evs := pre ++ EvCommit news1 :: mid ++ EvCommit news2 :: post in
  let T := now_after 0 pre in
  NoDup (map sg_id ds) -> evs_ok ds evs -> ticks_mono 0 evs ->
  ticks_le T mid ->                       (* no later tick between the two commits *)
  tick_first post -> ticks_gt T post ->
  nth_error ds i = Some d ->
  read_sig (write_body ds evs) T d = viewv (nth i news2 []).
Proof.
  intros ds pre news1 mid news2 post i d evs T ND Hok Hm Hl Hf Hg Hd.
  subst evs.
  assert (Hsplit : pre ++ EvCommit news1 :: mid ++ EvCommit news2 :: post
                   = (pre ++ EvCommit news1 :: mid) ++ EvCommit news2 :: post).
  { rewrite <- app_assoc. reflexivity. }
  assert (HT : now_after 0 (pre ++ EvCommit news1 :: mid) = T).
  { rewrite now_after_app. cbn [now_after]. fold T.
    assert (Hmm : ticks_mono T mid).
    { clear -Hm. subst T. revert Hm. generalize 0%N.
      induction pre as [|e r IH]; intros now H; simpl in *.
      - clear -H. revert H. generalize now. induction mid as [|e r IH]; intros n H; simpl in *; [exact I|].
        destruct e; auto. destruct H; split; auto.
      - destruct e; simpl in H; try (apply IH; exact H). destruct H. apply IH; assumption. }
    pose proof (now_after_bounds mid T T Hmm Hl (N.le_refl _)). lia. }
  rewrite Hsplit in *. rewrite <- HT.
  apply vcd_roundtrip_proof; auto; rewrite HT; assumption.
Qed.

(* ---- one commit: a line is written for a signal exactly when its raw value changed ---- *)
Theorem write_only_on_change_proof : forall st news st2 ls i d old nw,
  NoDup (st_ids st) ->
  Forall2 (fun p v => length v = sg_width (fst p)) st news ->
  commit st news = (st2, ls) ->
  nth_error st i = Some (d, old) -> nth_error news i = Some nw -> length old = sg_width d ->
  filter (line_has_id (sg_id d)) ls = (if rvec_eq_dec nw old then [] else [sig_line d nw])
  /\ nth_error st2 i = Some (d, nw).
Proof.
  intros st news st2 ls i d old nw ND HF H Hs Hn Hlo.
  destruct (Forall2_nth_error _ _ _ _ _ HF Hs) as [nw' [Hnw' Hw]]. rewrite Hn in Hnw'. injection Hnw' as <-.
  simpl in Hw.
  rewrite (commit_filter st news st2 ls i d old nw ND HF H Hs Hn).
  rewrite (commit_nth st news st2 ls i d old nw H Hs Hn).
  unfold emitted.
  destruct (rvec_eq_dec nw old) as [->|Hne].
  - rewrite changed_refl, andb_false_r. split; reflexivity.
  - destruct (Nat.eqb (length nw) 0) eqn:E0.
    + exfalso. apply Nat.eqb_eq in E0. apply Hne. destruct nw; [|discriminate]. destruct old; [reflexivity|].
      simpl in Hlo, Hw. rewrite <- Hw in Hlo. discriminate.
    + destruct (changed nw old) eqn:Ec; simpl; [split; reflexivity|].
      exfalso. apply Hne. apply changed_false_iff; [lia | exact Ec].
Qed.

(* ---- ticks ---- *)
Lemma tick_mono t1 t2 : (t1 <= t2)%Q -> (tick t1 <= tick t2)%N.
Proof.
  intros H. unfold tick.
  assert (H2 : (t1 * PS_PER_S <= t2 * PS_PER_S)%Q).
  { apply Qmult_le_compat_r; [exact H | unfold PS_PER_S, Qle; simpl; lia]. }
  apply Qfloor_resp_le in H2.
  lia.
Qed.

(* ---- the whole file ---- *)
Lemma wr_step_raw_ok (st : wstate) e st1 ls :
  match e with EvRaw s => exists r, s = String "$"%char r | _ => True end ->
  (match e with EvCommit news => Forall2 (fun p v => length v = sg_width (fst p)) st news | _ => True end) ->
  wr_step st e = (st1, ls) -> Forall raw_ok ls.
Proof.
  intros Hr Hc H. destruct e; simpl in H.
  - injection H as <- <-. repeat constructor.
  - injection H as <- <-. repeat constructor.
  - injection H as <- <-. constructor; [exact Hr | constructor].
  - pose proof (commit_lines _ _ _ _ Hc H) as HL.
    eapply Forall_impl; [|exact HL]. intros l [id [v [A _]]]. destruct l; simpl in A; try discriminate; exact I.
Qed.

Lemma wr_run_raw_ok ds evs : forall (st : wstate) st2 ls,
  map fst st = ds -> evs_ok ds evs -> wr_run st evs = (st2, ls) -> Forall raw_ok ls.
Proof.
  induction evs as [|e r IH]; intros st st2 ls Hst Hok H; simpl in H.
  - injection H as <- <-. constructor.
  - inversion Hok as [|e' r' He Hok']; subst e' r'.
    destruct (wr_step st e) as [st1 l1] eqn:E1. destruct (wr_run st1 r) as [s2 l2] eqn:E2.
    injection H as <- <-. apply Forall_app. split.
    + eapply (wr_step_raw_ok st e st1 l1); [| |exact E1].
      * destruct e; auto.
      * destruct e; auto. eapply commit_ok_Forall2; eassumption.
    + eapply IH; [|exact Hok'|exact E2].
      destruct e; simpl in E1; try (injection E1 as <- <-; exact Hst).
      rewrite (commit_decls _ _ _ _ E1). exact Hst.
Qed.

Lemma body_of_header header rest :
  Forall (fun l => l <> ENDDEFS) header -> body_of (header ++ ENDDEFS :: rest) = rest.
Proof.
  induction 1 as [|l r Hl Hr IH]; cbn [app body_of].
  - rewrite String.eqb_refl. reflexivity.
  - destruct (String.eqb_spec l ENDDEFS); [contradiction | exact IH].
Qed.

Theorem vcd_file_read_proof : forall header ds evs T d,
  Forall (fun l => l <> ENDDEFS) header -> evs_ok ds evs ->
  read_file (write_file header ds evs) T d = read_sig (write_body ds evs) T d.
Proof.
  intros header ds evs T d Hh Hok. unfold read_file, write_file.
  rewrite body_of_header by exact Hh.
  cbn [map]. rewrite map_parse_print.
  - unfold read_sig, read_lines. cbn [fold_left]. reflexivity.
  - unfold write_body. destruct (wr_run (wstate_init ds) evs) as [s2 ls] eqn:E. simpl.
    eapply wr_run_raw_ok; [apply wstate_init_decls | exact Hok | exact E].
Qed.

(* ========================================================================================== *)
(* what does NOT hold                                                                          *)
(* ========================================================================================== *)

(* the change detection looks at the VALUE plane of undefined bits too: X (value 0) -> X (value 1)
   writes a second, textually identical line *)
Theorem write_only_on_visible_change_refuted_proof :
  ~ (forall st news st2 ls i d old nw,
       NoDup (st_ids st) ->
       Forall2 (fun p v => length v = sg_width (fst p)) st news ->
       commit st news = (st2, ls) ->
       nth_error st i = Some (d, old) -> nth_error news i = Some nw -> length old = sg_width d ->
       viewv nw = viewv old ->
       filter (line_has_id (sg_id d)) ls = []).
Proof.
  intros H.
  pose (d := {| sg_id := ident 0; sg_width := 1; sg_bvec := false; sg_name := "z"%string |}).
  specialize (H [(d, [(false, false)])] [[(false, true)]] [(d, [(false, true)])] [LScalar BX (ident 0)] 0%nat d
                [(false, false)] [(false, true)]).
  assert (C : filter (line_has_id (sg_id d)) [LScalar BX (ident 0)] = []).
  { apply H; try reflexivity.
    - constructor; [intros []|constructor].
    - repeat constructor. }
  vm_compute in C. discriminate C.
Qed.

(* without "all later ticks are greater" the roundtrip fails: a second commit inside the same
   picosecond replaces the first in the file *)
Theorem vcd_roundtrip_same_tick_refuted_proof :
  ~ (forall ds pre news post i d,
       NoDup (map sg_id ds) ->
       evs_ok ds (pre ++ EvCommit news :: post) ->
       ticks_mono 0 (pre ++ EvCommit news :: post) ->
       tick_first post ->
       nth_error ds i = Some d ->
       read_sig (write_body ds (pre ++ EvCommit news :: post)) (now_after 0 pre) d = viewv (nth i news [])).
Proof.
  intros H.
  pose (ds := declare [(1%nat, false, "a"%string)]).
  specialize (H ds [] [[(true, false)]] [EvTick (1 # 3000000000000); EvCommit [[(true, true)]]] 0%nat
                (nth 0 ds {| sg_id := ""%string; sg_width := 0; sg_bvec := false; sg_name := ""%string |})).
  assert (C : read_sig (write_body ds ([] ++ EvCommit [[(true, false)]] :: [EvTick (1 # 3000000000000); EvCommit [[(true, true)]]]))
                (now_after 0 []) (nth 0 ds {| sg_id := ""%string; sg_width := 0; sg_bvec := false; sg_name := ""%string |})
              = viewv (nth 0 [[(true, false)]] [])).
  { apply H.
    - apply declare_NoDup.
    - repeat constructor.
    - simpl. split; [vm_compute; discriminate | exact I].
    - exact I.
    - reflexivity. }
  vm_compute in C. discriminate C.
Qed.
