(* C10 — Results are a function of the design only, not of memory addresses or node order.

   Only the part of the property that concerns MODELLED algorithms is a theorem (a Gallina
   value has no address); the rest is decided by the runtime differential of checks/C10.py
   (same design built twice / in several processes / with shuffled node storage) and is
   claimed as a test.  What is proved here, for all inputs:

   (1) hlim::Conjunction keeps its terms in an UnstableMap and iterates them with
       anyOrder(), i.e. in pointer order.  In the model the iteration order is the order of
       the term list.  For ANY two orders (permutations) of the same map (unique keys):
       the predicates isEqualTo / isNegationOf / isSubsetOf / cannotBothBeTrue return the
       same answer, intersectTermsWith / removeTerms return the same map (again in some
       order, again with unique keys, so the statements chain), and build - which sorts the
       terms by the stable key - emits exactly the same nodes.
   (2) The circuit semantics of NetDefs (the one the certificate checker of C01/C06/C07/C11
       and of this check's shuffle experiment is proved against): storing the nodes in any
       other topologically valid order, with the driver references renamed accordingly,
       changes no node value, no register state in any cycle of any schedule under any
       stimulus, and no pin value.                                                         *)
From Coq Require Import List Bool Arith Permutation Sorted.
From Gatery Require Import Bits NodeSemDefs NodeSemReg NetDefs ProductCert ConjDefs ConjPreds PermConj PermNet.
Import ListNotations.

(* ---------------------------------------------------------------- (1) Conjunction ---- *)

Theorem isEqualTo_perm : forall a a' b b' : conj,
  conj_perm a a' -> conj_perm b b' -> NoDup (keys (c_terms b)) ->
  isEqualTo a b = isEqualTo a' b'.
Proof. exact PermConj.isEqualTo_perm. Qed.
Print Assumptions isEqualTo_perm.

Theorem isNegationOf_perm : forall a a' b b' : conj,
  conj_perm a a' -> conj_perm b b' -> NoDup (keys (c_terms b)) ->
  isNegationOf a b = isNegationOf a' b'.
Proof. exact PermConj.isNegationOf_perm. Qed.
Print Assumptions isNegationOf_perm.

Theorem isSubsetOf_perm : forall a a' b b' : conj,
  conj_perm a a' -> conj_perm b b' -> NoDup (keys (c_terms b)) ->
  isSubsetOf a b = isSubsetOf a' b'.
Proof. exact PermConj.isSubsetOf_perm. Qed.
Print Assumptions isSubsetOf_perm.

Theorem cannotBothBeTrue_perm : forall a a' b b' : conj,
  conj_perm a a' -> conj_perm b b' -> NoDup (keys (c_terms b)) ->
  cannotBothBeTrue a b = cannotBothBeTrue a' b'.
Proof. exact PermConj.cannotBothBeTrue_perm. Qed.
Print Assumptions cannotBothBeTrue_perm.

(* the result is the same map: a permutation of the same terms with the same flags ... *)
Theorem intersect_perm : forall a a' b b' : conj,
  conj_perm a a' -> conj_perm b b' -> NoDup (keys (c_terms b)) ->
  conj_perm (intersectTermsWith a b) (intersectTermsWith a' b').
Proof. exact PermConj.intersect_perm. Qed.
Print Assumptions intersect_perm.

Theorem removeTerms_perm : forall a a' b b' : conj,
  conj_perm a a' -> conj_perm b b' -> NoDup (keys (c_terms b)) ->
  conj_perm (removeTerms a b) (removeTerms a' b').
Proof. exact PermConj.removeTerms_perm. Qed.
Print Assumptions removeTerms_perm.

(* ... the HCL_ASSERT guarding removeTerms fires in one order iff it fires in the other ... *)
Theorem removeTerms_pre_perm : forall a a' b b' : conj,
  conj_perm a a' -> conj_perm b b' -> NoDup (keys (c_terms a)) ->
  removeTerms_pre a b = removeTerms_pre a' b'.
Proof. exact PermConj.removeTerms_pre_perm. Qed.
Print Assumptions removeTerms_pre_perm.

(* ... and the results are maps again (unique keys), so the theorems apply to them in turn *)
Theorem intersect_keys_unique : forall a b : conj,
  NoDup (keys (c_terms a)) -> NoDup (keys (c_terms (intersectTermsWith a b))).
Proof. exact PermConj.intersect_keys_NoDup. Qed.
Print Assumptions intersect_keys_unique.

Theorem removeTerms_keys_unique : forall a b : conj,
  NoDup (keys (c_terms a)) -> NoDup (keys (c_terms (removeTerms a b))).
Proof. exact PermConj.removeTerms_keys_NoDup. Qed.
Print Assumptions removeTerms_keys_unique.

(* Conjunction::build sorts the terms by the stable key first: the sorted list is the same
   for every iteration order, it is strictly ascending in the key, and so the emitted graph
   is identical *)
Theorem sort_terms_perm_invariant : forall l l' : list term,
  Permutation l l' -> NoDup (keys l) -> sort_terms l = sort_terms l'.
Proof. exact PermConj.sort_terms_perm_invariant. Qed.
Print Assumptions sort_terms_perm_invariant.

Theorem sort_terms_ascending : forall l : list term,
  NoDup (keys l) -> StronglySorted (fun x y => t_driver x < t_driver y) (sort_terms l).
Proof. exact PermConj.sort_terms_ascending. Qed.
Print Assumptions sort_terms_ascending.

Theorem build_perm : forall (g : graph) (c c' : conj),
  conj_perm c c' -> NoDup (keys (c_terms c)) -> build g c = build g c'.
Proof. exact PermConj.build_perm. Qed.
Print Assumptions build_perm.

(* non-vacuity: one three-term map in two different iteration orders; the built graphs are
   computed and agree *)
Example conj_example : conj_perm ex_c ex_c' /\ NoDup (keys (c_terms ex_c)) /\ c_terms ex_c <> c_terms ex_c'.
Proof. exact ex_conj_perm. Qed.
Example conj_example_build :
  build [PAtom; PAtom; PAtom; PAtom; PAtom; PAtom; PAtom; PAtom] ex_c
  = build [PAtom; PAtom; PAtom; PAtom; PAtom; PAtom; PAtom; PAtom] ex_c'
  /\ snd (build [PAtom; PAtom; PAtom; PAtom; PAtom; PAtom; PAtom; PAtom] ex_c) = Some 10.
Proof. vm_compute. split; reflexivity. Qed.

(* ---------------------------------------------------------------- (2) circuits ------- *)

(* p lists, for every new position, the old position of the node stored there;
   permute_netlist renames every driver reference accordingly *)
Theorem eval_order_irrelevant : forall (nl : netlist) (p : list nat),
  Permutation p (seq 0 (length nl)) ->
  topo_ok nl = true -> topo_ok (permute_netlist p nl) = true ->
  forall (st : state) (ins : list bv) (i : nat), i < length nl ->
    nth (index_of i p) (comb_eval (permute_netlist p nl) st ins) [] = nth i (comb_eval nl st ins) [].
Proof. exact PermNet.eval_order_irrelevant. Qed.
Print Assumptions eval_order_irrelevant.

Theorem outputs_order_perm : forall (nl : netlist) (p : list nat),
  Permutation p (seq 0 (length nl)) ->
  topo_ok nl = true -> topo_ok (permute_netlist p nl) = true ->
  forall (st : state) (ins : list bv),
    Permutation (outputs (permute_netlist p nl) (comb_eval (permute_netlist p nl) st ins))
                (outputs nl (comb_eval nl st ins)).
Proof. exact PermNet.outputs_order_perm. Qed.
Print Assumptions outputs_order_perm.

(* [outputs] lists the pins in storage order; if the output pins keep their relative order
   the lists are equal, not just permutations of each other *)
Theorem outputs_order_irrelevant : forall (nl : netlist) (p : list nat),
  Permutation p (seq 0 (length nl)) ->
  topo_ok nl = true -> topo_ok (permute_netlist p nl) = true ->
  filter (is_pinout nl) p = filter (is_pinout nl) (seq 0 (length nl)) ->
  forall (st : state) (ins : list bv),
    outputs (permute_netlist p nl) (comb_eval (permute_netlist p nl) st ins) = outputs nl (comb_eval nl st ins).
Proof. exact PermNet.outputs_order_irrelevant. Qed.
Print Assumptions outputs_order_irrelevant.

(* sequential behaviour: register ordinals are unique (they index the state vector) *)
Theorem state_at_order_irrelevant : forall (nl : netlist) (p : list nat),
  Permutation p (seq 0 (length nl)) ->
  topo_ok nl = true -> topo_ok (permute_netlist p nl) = true ->
  NoDup (reg_ords nl) ->
  forall (sc : schedule) (sigma : nat -> list bv) (t : nat),
    state_at (permute_netlist p nl) sc sigma t = state_at nl sc sigma t.
Proof. exact PermNet.state_at_order_irrelevant. Qed.
Print Assumptions state_at_order_irrelevant.

Theorem out_at_order_irrelevant : forall (nl : netlist) (p : list nat),
  Permutation p (seq 0 (length nl)) ->
  topo_ok nl = true -> topo_ok (permute_netlist p nl) = true ->
  filter (is_pinout nl) p = filter (is_pinout nl) (seq 0 (length nl)) ->
  NoDup (reg_ords nl) ->
  forall (sc : schedule) (sigma : nat -> list bv) (t : nat),
    out_at (permute_netlist p nl) sc sigma t = out_at nl sc sigma t.
Proof. exact PermNet.out_at_order_irrelevant. Qed.
Print Assumptions out_at_order_irrelevant.

Theorem out_at_order_perm : forall (nl : netlist) (p : list nat) (sc : schedule) (sigma : nat -> list bv) (t : nat),
  Permutation p (seq 0 (length nl)) ->
  topo_ok nl = true -> topo_ok (permute_netlist p nl) = true ->
  NoDup (reg_ords nl) ->
  Permutation (out_at (permute_netlist p nl) sc sigma t) (out_at nl sc sigma t).
Proof. exact PermNet.out_at_order_perm. Qed.
Print Assumptions out_at_order_perm.

(* the shuffle experiment of checks/C10.py is decided by the verified certificate checker:
   an accepted strict certificate means identical pin values for all stimuli and all cycles *)
Theorem shuffle_certificate_sound : forall (nl1 nl2 : netlist) (sc : schedule) (ws : list nat) (sigma : nat -> list bv),
  (forall t, ProductCert.ins_wf ws (sigma t)) ->
  forall layers, ProductCert.check_cert ProductCert.MStrict nl1 nl2 sc ws layers = true ->
  forall t, out_at nl2 sc sigma t = out_at nl1 sc sigma t.
Proof. exact (fun nl1 nl2 sc ws sigma Hs layers H => ProductCert.cert_sound_strict ProductCert.MStrict nl1 nl2 sc ws sigma Hs layers eq_refl H). Qed.
Print Assumptions shuffle_certificate_sound.

(* non-vacuity: a circuit with a register in a feedback loop, stored in two different valid
   orders (the register and the pins move, the combinational nodes swap) *)
Definition ex_nl : netlist :=
  [ mk_node (NPinIn 2 0) [];                                                     (* 0 *)
    mk_node (NReg (mk_reg_cfg 2 (Some [B0; B0]) RST_SYNC true) 0) [Some (4, 0); None; None];   (* 1 *)
    mk_node (NComb (KLogic L_NOT 2)) [Some (0, 0)];                              (* 2 *)
    mk_node (NComb (KLogic L_AND 2)) [Some (0, 0); Some (1, 0)];                 (* 3 *)
    mk_node (NComb (KLogic L_XOR 2)) [Some (2, 0); Some (3, 0)];                 (* 4 *)
    mk_node (NPinOut 2) [Some (4, 0)];                                           (* 5 *)
    mk_node (NPinOut 2) [Some (1, 0)] ].                                         (* 6 *)
Definition ex_p : list nat := [1; 5; 0; 3; 2; 4; 6].
Example net_example :
  Permutation ex_p (seq 0 (length ex_nl)) /\ topo_ok ex_nl = true /\ topo_ok (permute_netlist ex_p ex_nl) = true
  /\ NoDup (reg_ords ex_nl)
  /\ filter (is_pinout ex_nl) ex_p = filter (is_pinout ex_nl) (seq 0 (length ex_nl))
  /\ permute_netlist ex_p ex_nl <> ex_nl.
Proof.
  split; [|split; [|split; [|split; [|split]]]]; try (vm_compute; reflexivity).
  - unfold ex_p. simpl.
    apply Permutation_sym.
    apply (Permutation_cons_app [1; 5] [3; 2; 4; 6] 0).
    apply (Permutation_cons_app [] [5; 3; 2; 4; 6] 1).
    apply (Permutation_cons_app [5; 3] [4; 6] 2).
    apply (Permutation_cons_app [5] [4; 6] 3).
    apply (Permutation_cons_app [5] [6] 4).
    apply Permutation_refl.
  - vm_compute. constructor; [intros []|constructor].
  - vm_compute. discriminate.
Qed.
