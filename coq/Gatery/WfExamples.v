(* C09 -- non-vacuity: a concrete graph and operation sequences, evaluated inside Coq. *)
From Coq Require Import List NArith Arith Bool.
From Gatery Require Import WfDefs WfLemmas WfViews WfEdges WfOps WfMain WfCheck.
Import ListNotations.

Definition bv8 := mkCt 1 8.

(* clock 0, group 1 below the root; a source (node 0, BITVEC 8), three signals (1,2,3) and a register-like
   node (4) all reading output 0.0; then the operations that move entries around in the consumer list *)
Definition ex_build : list op :=
  [ OCreateClock; OAddGroup 0;
    OCreate 0 1 0 [] (Some 0%N); OSetType (0%N, 0) bv8;
    OCreate 1 1 0 (kind_req KForward) (Some 1%N);
    OCreate 1 1 0 (kind_req KForward) (Some 1%N);
    OCreate 1 1 0 (kind_req KForward) (Some 1%N);
    OCreate 3 1 1 (kind_req KReg) (Some 0%N); OSetType (4%N, 0) bv8;
    OSignalConnect 1 (Some (0%N, 0)); OSignalConnect 2 (Some (0%N, 0)); OSignalConnect 3 (Some (0%N, 0));
    OConnect (4%N, 0) (Some (0%N, 0)); OAttachClock (4%N, 0) (Some 0%N) ].

Definition ex_g0 : graph := run empty_graph ex_build.

Example ex_g0_wf : wf_check ex_g0 = true.
Proof. vm_compute. reflexivity. Qed.

Example ex_g0_Inv : Inv ex_g0 /\ AllGrouped ex_g0.
Proof. apply wf_check_reflect. exact ex_g0_wf. Qed.

Example ex_g0_consumers : cons ex_g0 (0%N, 0) = [(1%N, 0); (2%N, 0); (3%N, 0); (4%N, 0)].
Proof. vm_compute. reflexivity. Qed.

(* the swap-with-back erase in the middle of a sequence: disconnecting 2.0 moves the LAST entry (4.0) into
   its place; the bypass then appends 2.0 again; destroying node 3 swaps once more *)
Definition ex_ops : list op :=
  [ ODisconnect (2%N, 0);
    OSignalConnect 2 (Some (1%N, 0));
    OBypass 1 0 0;
    ODestroy 3;
    OMoveToGroup 4 (Some 1%N);
    ODetachClock (4%N, 0) ].

Example ex_after_disconnect : cons (run ex_g0 [ODisconnect (2%N, 0)]) (0%N, 0) = [(1%N, 0); (4%N, 0); (3%N, 0)].
Proof. vm_compute. reflexivity. Qed.

Example ex_after_bypass :
  cons (run ex_g0 (firstn 3 ex_ops)) (0%N, 0) = [(1%N, 0); (4%N, 0); (3%N, 0); (2%N, 0)].
Proof. vm_compute. reflexivity. Qed.

Example ex_after_destroy :
  cons (run ex_g0 (firstn 4 ex_ops)) (0%N, 0) = [(1%N, 0); (4%N, 0); (2%N, 0)] /\
  members (run ex_g0 (firstn 4 ex_ops)) 1 = [1%N; 2%N] /\
  getn (run ex_g0 (firstn 4 ex_ops)) 3 = None.
Proof. vm_compute. repeat split; reflexivity. Qed.

Example ex_all_pre_hold : forallb (fun k => op_pre (run ex_g0 (firstn k ex_ops)) (nth k ex_ops OCreateClock)) (seq 0 6) = true.
Proof. vm_compute. reflexivity. Qed.

Example ex_final_wf : wf_check (run ex_g0 ex_ops) = true.
Proof. vm_compute. reflexivity. Qed.

(* the guards: a type change under attached consumers and a type-mismatching Node_Signal::connectInput
   are refused, an out-of-range port is refused *)
Example ex_refused :
  op_pre ex_g0 (OSetType (0%N, 0) (mkCt 1 4)) = false /\
  op_pre (run ex_g0 [OCreate 0 1 0 [] (Some 0%N); OSignalConnect 2 (Some (1%N, 0))]) (OSignalConnect 1 (Some (5%N, 0))) = false /\
  op_pre ex_g0 (OConnect (4%N, 7) None) = false /\
  op_pre ex_g0 (OBypass 1 0 0) = true.
Proof. vm_compute. repeat split; reflexivity. Qed.

(* the checker rejects each kind of damage *)
Definition damage_cons (g : graph) : graph := set_cons g (0%N, 0) [(1%N, 0); (2%N, 0); (3%N, 0)].          (* entry dropped *)
Definition damage_dup (g : graph) : graph := set_cons g (0%N, 0) (cons g (0%N, 0) ++ [(1%N, 0)]).          (* duplicate entry *)
Definition damage_clk (g : graph) : graph := set_clocked g 0 [].                                          (* not registered *)
Definition damage_grp (g : graph) : graph := set_members g 1 [1%N; 2%N].                                   (* not a member *)
Definition damage_dangling (g : graph) : graph := with_nodes g (del 0%N (g_nodes g)).                      (* freed driver *)
Definition damage_type (g : graph) : graph := set_otype g (0%N, 0) (mkCt 1 4).                             (* type disagrees *)

Example ex_checker_rejects :
  inv_check (damage_cons ex_g0) = false /\ inv_check (damage_dup ex_g0) = false /\
  inv_check (damage_clk ex_g0) = false /\ inv_check (damage_grp ex_g0) = false /\
  inv_check (damage_dangling ex_g0) = false /\ inv_check (damage_type ex_g0) = false.
Proof. vm_compute. repeat split; reflexivity. Qed.

(* ---- clause (vii): logic drivers of a clock; replacing a reset driver twice ---- *)
From Gatery Require Import WfDrivers.

Definition ex_drv_ops : list op :=
  [ OCreateDriver true (Some 0%N);  OSetDriver true 0 5;      (* overrideClkWith *)
    OCreateDriver false (Some 0%N); OSetDriver false 0 6;     (* overrideRstWith *)
    OCreateDriver false (Some 1%N); OSetDriver false 0 7;     (* overrideRstWith again: 6 is un-bound, 7 bound *)
    OSetDriver false 0 7;                                     (* re-binding the current driver *)
    ODestroy 6 ].                                             (* the un-bound old driver may be culled *)

Example ex_drv_wf : wfd_check (run ex_g0 ex_drv_ops) = true.
Proof. vm_compute. reflexivity. Qed.

Example ex_drv_state :
  let g := run ex_g0 ex_drv_ops in
  clkdrv g 0 = Some 5%N /\ rstdrv g 0 = Some 7%N /\ clk_of g (5%N, 0) = Some 0%N /\ clk_of g (7%N, 0) = Some 0%N /\
  getn g 6 = None /\ clocked g 0 = [(4%N, 0); (5%N, 0); (7%N, 0)].
Proof. vm_compute. repeat split; reflexivity. Qed.

Example ex_drv_pre_hold :
  forallb (fun k => op_pre (run ex_g0 (firstn k ex_drv_ops)) (nth k ex_drv_ops OCreateClock)) (seq 0 8) = true.
Proof. vm_compute. reflexivity. Qed.

(* refused: destroying a bound driver, attaching the clock port of a driver node by hand, binding a node of the wrong class,
   binding a node that already drives another clock *)
Example ex_drv_refused :
  let g := run ex_g0 (firstn 6 ex_drv_ops) in
  op_pre g (ODestroy 5) = false /\ op_pre g (ODestroy 6) = true /\ op_pre g (ODetachClock (7%N, 0)) = false /\
  op_pre g (OSetDriver true 0 7) = false /\
  op_pre (run g [OCreateClock]) (OSetDriver false 1 7) = false.
Proof. vm_compute. repeat split; reflexivity. Qed.

(* the half-renamed copy of setLogicClockDriver: un-binds the CLOCK driver when a reset driver is replaced *)
Definition buggy_setLogicResetDriver (g : graph) (c n : N) : graph :=
  let g1 := match clkdrv g c with Some old => attachClock g (old, 0) None | None => g end in
  attachClock (set_drv g1 c false (Some n)) (n, 0) (Some c).

Example ex_drv_buggy_rejected :
  let g := run ex_g0 (firstn 5 ex_drv_ops) in          (* clock driver 5, reset driver 6, fresh node 7 *)
  invd_check (setLogicDriver false g 0 7) = true /\
  invd_check (buggy_setLogicResetDriver g 0 7) = false /\
  inv_check (buggy_setLogicResetDriver g 0 7) = true /\
  clkdrv (buggy_setLogicResetDriver g 0 7) 0 = Some 5%N /\ clk_of (buggy_setLogicResetDriver g 0 7) (5%N, 0) = None /\
  clk_of (buggy_setLogicResetDriver g 0 7) (6%N, 0) = Some 0%N.
Proof. vm_compute. repeat split; reflexivity. Qed.
