(* C19 -- proofs about the fiber hand-off protocol (FiberDefs.v).
   The transition system is finite (21 x 13 x 3 x 2 x 2 control states).  The set of reachable states is
   computed by breadth-first closure inside the kernel (vm_compute), proved closed under every step (so it
   is an inductive invariant) and exact (every member is reachable); the properties are then decided on
   every member.  No sampling. *)
From Coq Require Import List Bool Arith PeanoNat.
From Gatery Require Import FiberDefs.
Import ListNotations.

(* ------------------------------------------------------------------------- *)
(** * Decidable equality / enumeration of the state space *)

Definition mcall_eqb (a b : mcall) : bool :=
  match a, b with KStart, KStart | KResume, KResume | KTerm, KTerm => true | _, _ => false end.
Definition mpc_eqb (a b : mpc) : bool :=
  match a, b with
  | MInit, MInit | MStartHold, MStartHold | MUser, MUser | MResLock, MResLock | MResHold, MResHold
  | MTermLock, MTermLock | MTermHold, MTermHold | MJoin, MJoin | MDone, MDone => true
  | MLoop x, MLoop y | MWait x, MWait y | MWoken x, MWoken y | MUnlock x, MUnlock y => mcall_eqb x y
  | _, _ => false
  end.

Definition all_mcall := [KStart; KResume; KTerm].
Definition all_mpc : list mpc :=
  [MInit; MStartHold; MUser; MResLock; MResHold; MTermLock; MTermHold; MJoin; MDone]
  ++ map MLoop all_mcall ++ map MWait all_mcall ++ map MWoken all_mcall ++ map MUnlock all_mcall.
Definition all_fpc : list fpc :=
  [FNone; FUser; FSuspLock; FSuspHold; FLoop; FWait; FWoken; FCheckTerm; FUnlock; FUnwind; FEndLock; FEndHold; FDone].
Definition all_owner := [Free; HeldM; HeldF].
Definition all_bool := [true; false].

Definition all_states : list fstate :=
  flat_map (fun a => flat_map (fun b => flat_map (fun c => flat_map (fun d => map (fun e =>
    mk_fstate a b c d e) all_bool) all_bool) all_owner) all_fpc) all_mpc.

Lemma all_states_complete : forall s, In s all_states.
Proof.
  intros [a b c d e]. unfold all_states.
  apply in_flat_map. exists a. split. { destruct a as [| |k|k|k|k| | | | | | |]; try destruct k; simpl; tauto. }
  apply in_flat_map. exists b. split. { destruct b; simpl; tauto. }
  apply in_flat_map. exists c. split. { destruct c; simpl; tauto. }
  apply in_flat_map. exists d. split. { destruct d; simpl; tauto. }
  apply in_map_iff. exists e. split; [reflexivity | destruct e; simpl; tauto].
Qed.

(* ------------------------------------------------------------------------- *)
(** * The inductive invariant: membership in the computed set of reachable states *)

Definition fpc_eqb (a b : fpc) : bool :=
  match a, b with
  | FNone, FNone | FUser, FUser | FSuspLock, FSuspLock | FSuspHold, FSuspHold | FLoop, FLoop | FWait, FWait
  | FWoken, FWoken | FCheckTerm, FCheckTerm | FUnlock, FUnlock | FUnwind, FUnwind | FEndLock, FEndLock
  | FEndHold, FEndHold | FDone, FDone => true
  | _, _ => false
  end.
Definition owner_eqb (a b : owner) : bool :=
  match a, b with Free, Free | HeldM, HeldM | HeldF, HeldF => true | _, _ => false end.
Definition fstate_eqb (a b : fstate) : bool :=
  mpc_eqb (pm a) (pm b) && fpc_eqb (pf a) (pf b) && owner_eqb (mtx a) (mtx b)
  && Bool.eqb (running a) (running b) && Bool.eqb (term a) (term b).

Lemma fstate_eqb_eq : forall a b, fstate_eqb a b = true -> a = b.
Proof.
  intros [a1 a2 a3 a4 a5] [b1 b2 b3 b4 b5]. unfold fstate_eqb. simpl. intro H.
  repeat (apply andb_prop in H; destruct H as [H ?]).
  assert (a1 = b1) by (destruct a1 as [| |k|k|k|k| | | | | | |], b1 as [| |k'|k'|k'|k'| | | | | | |]; try discriminate; try reflexivity;
                       destruct k, k'; try discriminate; reflexivity).
  assert (a2 = b2) by (destruct a2, b2; try discriminate; reflexivity).
  assert (a3 = b3) by (destruct a3, b3; try discriminate; reflexivity).
  assert (a4 = b4) by (apply Bool.eqb_prop; assumption).
  assert (a5 = b5) by (apply Bool.eqb_prop; assumption).
  subst. reflexivity.
Qed.

Definition mem (s : fstate) (l : list fstate) : bool := existsb (fstate_eqb s) l.

Lemma mem_In : forall s l, mem s l = true -> In s l.
Proof.
  intros s l H. apply existsb_exists in H. destruct H as (x & Hx & He).
  apply fstate_eqb_eq in He. subst. exact Hx.
Qed.

(* breadth-first closure under [step_all] *)
Definition add_new (acc : list fstate) (l : list fstate) : list fstate :=
  fold_left (fun a s => if mem s a then a else a ++ [s]) l acc.
Fixpoint closure (n : nat) (acc : list fstate) : list fstate :=
  match n with
  | O => acc
  | S m => closure m (add_new acc (flat_map step_all acc))
  end.

(* the state space has 13*13*3*2*2 = 2028 elements, so 2028 rounds always suffice; far fewer are needed *)
Definition reach_set : list fstate := Eval vm_compute in closure 64 [init].

Definition inv (s : fstate) : bool := mem s reach_set.

Lemma inv_init : inv init = true.
Proof. vm_compute. reflexivity. Qed.

Lemma reach_set_closed : forallb (fun s => forallb inv (step_all s)) reach_set = true.
Proof. vm_compute. reflexivity. Qed.

Lemma inv_preserved : forall s s', inv s = true -> In s' (step_all s) -> inv s' = true.
Proof.
  intros s s' Hi Hin. apply mem_In in Hi.
  pose proof (proj1 (forallb_forall _ _) reach_set_closed s Hi) as H.
  exact (proj1 (forallb_forall _ _) H s' Hin).
Qed.

Lemma reachable_inv : forall s, reachable s -> inv s = true.
Proof.
  induction 1 as [|s s' _ IH Hin]; [exact inv_init | exact (inv_preserved s s' IH Hin)].
Qed.

(* every element of reach_set is in fact reachable (the invariant is exact) *)
Lemma add_new_reachable : forall l acc, Forall reachable acc -> Forall reachable l -> Forall reachable (add_new acc l).
Proof.
  induction l as [|x r IH]; intros acc Ha Hl; simpl; [exact Ha|].
  inversion Hl; subst. apply IH; [|assumption].
  destruct (mem x acc); [exact Ha|]. apply Forall_app. split; [exact Ha|]. constructor; [assumption|constructor].
Qed.
Lemma closure_reachable : forall n acc, Forall reachable acc -> Forall reachable (closure n acc).
Proof.
  induction n as [|n IH]; intros acc Ha; simpl; [exact Ha|].
  apply IH. apply add_new_reachable; [exact Ha|].
  apply Forall_forall. intros x Hx. apply in_flat_map in Hx. destruct Hx as (s & Hs & Hx).
  eapply reach_step; [|exact Hx]. exact (proj1 (Forall_forall _ _) Ha s Hs).
Qed.
Lemma reach_set_exact : forall s, inv s = true -> reachable s.
Proof.
  intros s H. apply mem_In in H.
  assert (E : reach_set = closure 64 [init]) by (vm_compute; reflexivity).
  rewrite E in H.
  refine (proj1 (Forall_forall _ _) (closure_reachable 64 [init] _) s H).
  constructor; [exact reach_init | constructor].
Qed.

(* ------------------------------------------------------------------------- *)
(** * Consequences *)

Definition mutex_ok (s : fstate) : bool :=
  negb (main_user s && fiber_user s)
  && implb (main_user s) (negb (running s))
  && implb (fiber_user s && negb (term s)) (running s)
  && implb (fiber_user s) (main_in_wait s || match pm s with MLoop _ | MUnlock KTerm => true | _ => false end)
  && implb (main_user s) (fiber_in_wait s || match pf s with FLoop | FCheckTerm => true | _ => false end).

Lemma inv_mutex_all : forallb (fun s => implb (inv s) (mutex_ok s)) all_states = true.
Proof. vm_compute. reflexivity. Qed.

Lemma handoff_mutex_proof :
  forall s, reachable s ->
    (main_user s = true -> fiber_user s = true -> False) /\
    (main_user s = true -> running s = false) /\
    (fiber_user s = true -> term s = false -> running s = true) /\
    (fiber_user s = true -> main_user s = false).
Proof.
  intros s Hr. pose proof (reachable_inv s Hr) as Hi.
  pose proof (proj1 (forallb_forall _ _) inv_mutex_all s (all_states_complete s)) as H.
  simpl in H. rewrite Hi in H. simpl in H. unfold mutex_ok in H.
  repeat (apply andb_prop in H; destruct H as [H ?]).
  destruct (main_user s) eqn:Em; destruct (fiber_user s) eqn:Ef; destruct (running s) eqn:Er; destruct (term s) eqn:Et;
    simpl in *; repeat split; intros; try discriminate; try reflexivity; try congruence.
Qed.

(* the literal reading "at most one thread is outside a wait" fails only in the way spurious wake-ups force:
   a spuriously woken fiber thread re-checks its loop condition (holding the mutex, inside suspend()) while the
   simulator runs; it touches nothing but m_threadRunning / m_terminate under the mutex. *)
Lemma fiber_active_while_main_user_proof :
  forall s, reachable s -> main_user s = true ->
    fiber_in_wait s = true \/ pf s = FLoop \/ pf s = FCheckTerm.
Proof.
  intros s Hr Hm. pose proof (reachable_inv s Hr) as Hi.
  pose proof (proj1 (forallb_forall _ _) inv_mutex_all s (all_states_complete s)) as H.
  simpl in H. rewrite Hi in H. simpl in H. unfold mutex_ok in H.
  repeat (apply andb_prop in H; destruct H as [H ?]).
  rewrite Hm in *. simpl in *.
  destruct (fiber_in_wait s); [left; reflexivity|]. simpl in *.
  destruct (pf s); try discriminate; auto.
Qed.

Lemma spurious_state_reachable :
  exists s, reachable s /\ main_user s = true /\ pf s = FCheckTerm.
Proof.
  exists (mk_fstate MUser FCheckTerm HeldF false false). split; [|split; reflexivity].
  apply reach_set_exact. vm_compute. reflexivity.
Qed.
(* ------------------------------------------------------------------------- *)
(** * Progress: no deadlock, no lost wake-up *)

Definition progress_ok (s : fstate) : bool :=
  final s || negb (match step_nospurious s with [] => true | _ => false end).

Lemma inv_progress_all : forallb (fun s => implb (inv s) (progress_ok s)) all_states = true.
Proof. vm_compute. reflexivity. Qed.

Lemma handoff_progress_proof :
  forall s, reachable s -> final s = true \/ exists s', In s' (step_nospurious s).
Proof.
  intros s Hr. pose proof (reachable_inv s Hr) as Hi.
  pose proof (proj1 (forallb_forall _ _) inv_progress_all s (all_states_complete s)) as H.
  simpl in H. rewrite Hi in H. simpl in H. unfold progress_ok in H.
  destruct (final s); [left; reflexivity|]. simpl in H. right.
  destruct (step_nospurious s) as [|x r]; [discriminate|]. exists x. left. reflexivity.
Qed.

(* ------------------------------------------------------------------------- *)
(** * Hand-over is ordered: user code sections alternate *)

(* whose turn it is, as a function of the flag only while some thread is in user code *)
Lemma turn_flag_proof :
  forall s, reachable s -> term s = false ->
    (fiber_user s = true -> running s = true) /\ (main_user s = true -> running s = false).
Proof.
  intros s Hr Ht. destruct (handoff_mutex_proof s Hr) as (_ & H2 & H3 & _). split; auto.
Qed.

Lemma handoff_fiber_parked_proof :
  (forall s, reachable s -> main_user s = true -> fiber_in_wait s = true \/ pf s = FLoop \/ pf s = FCheckTerm) /\
  (exists s, reachable s /\ main_user s = true /\ pf s = FCheckTerm).
Proof. exact (conj fiber_active_while_main_user_proof spurious_state_reachable). Qed.

(* ------------------------------------------------------------------------- *)
(** * Several fibers *)

Definition busy_ok (s : fstate) : bool := implb (fiber_user s) (negb (resting (pm s))).
Lemma fiber_user_busy_all : forallb (fun s => implb (inv s) (busy_ok s)) all_states = true.
Proof. vm_compute. reflexivity. Qed.
Lemma fiber_user_busy : forall s, reachable s -> fiber_user s = true -> resting (pm s) = false.
Proof.
  intros s R F. pose proof (reachable_inv s R) as Hi.
  pose proof (proj1 (forallb_forall _ _) fiber_user_busy_all s (all_states_complete s)) as H.
  simpl in H. rewrite Hi in H. simpl in H. unfold busy_ok in H. rewrite F in H. simpl in H.
  apply negb_true_iff in H. exact H.
Qed.

Lemma nth_upd_same : forall l j x s, nth_error l j = Some s -> nth_error (upd_nth j x l) j = Some x.
Proof. induction l as [|y r IH]; intros [|j] x s H; simpl in *; try discriminate; [reflexivity | eapply IH; exact H]. Qed.
Lemma nth_upd_other : forall l j i x, i <> j -> nth_error (upd_nth j x l) i = nth_error l i.
Proof.
  induction l as [|y r IH]; intros [|j] [|i] x H; simpl; try reflexivity; try congruence.
  apply IH. congruence.
Qed.

(* every component is a reachable state of the one-fiber system, and the simulator is in at most one call *)
Lemma mreachable_inv : forall n ss, mreachable n ss ->
  (forall j s, nth_error ss j = Some s -> reachable s) /\
  (forall i j s t, i <> j -> nth_error ss i = Some s -> nth_error ss j = Some t ->
     resting (pm s) = true \/ resting (pm t) = true).
Proof.
  induction 1 as [|ss ss' _ (IH1 & IH2) (j & s & s' & Hj & Hs & -> & Hent)].
  - split.
    + intros j s H. apply nth_error_In in H. apply repeat_spec in H. subst. exact reach_init.
    + intros i j s t _ H _. apply nth_error_In in H. apply repeat_spec in H. subst. left. reflexivity.
  - split.
    + intros i t H. destruct (Nat.eq_dec i j) as [->|Ne].
      * rewrite (nth_upd_same _ _ _ _ Hj) in H. inversion H; subst. eapply reach_step; [exact (IH1 _ _ Hj) | exact Hs].
      * rewrite nth_upd_other in H by exact Ne. exact (IH1 _ _ H).
    + assert (Key : forall i t, i <> j -> nth_error ss i = Some t -> resting (pm t) = true \/ resting (pm s') = true).
      { intros i t Ne Hi. destruct (resting (pm s')) eqn:R'; [right; reflexivity|]. left.
        destruct (resting (pm s)) eqn:R.
        - exact (Hent eq_refl eq_refl i t Ne Hi).
        - destruct (IH2 i j t s Ne Hi Hj) as [X|X]; [exact X | congruence]. }
      intros a b u v Nab Ha Hb.
      destruct (Nat.eq_dec a j) as [->|Na]; destruct (Nat.eq_dec b j) as [->|Nb]; try congruence.
      * rewrite (nth_upd_same _ _ _ _ Hj) in Ha. inversion Ha; subst. rewrite nth_upd_other in Hb by congruence.
        destruct (Key b v ltac:(congruence) Hb); [right | left]; assumption.
      * rewrite (nth_upd_same _ _ _ _ Hj) in Hb. inversion Hb; subst. rewrite nth_upd_other in Ha by congruence.
        exact (Key a u Na Ha).
      * rewrite nth_upd_other in Ha, Hb by assumption. exact (IH2 a b u v Nab Ha Hb).
Qed.

(* no two fiber bodies run at the same time, and none runs while the simulator proper runs *)
Lemma multi_fiber_mutex_proof : forall n ss, mreachable n ss ->
  (forall i j s t, i <> j -> nth_error ss i = Some s -> nth_error ss j = Some t ->
     fiber_user s = true -> fiber_user t = true -> False) /\
  (sim_user ss -> forall s, In s ss -> fiber_user s = false).
Proof.
  intros n ss R. destruct (mreachable_inv n ss R) as (I1 & I2). split.
  - intros i j s t Ne Hi Hj Fs Ft.
    pose proof (fiber_user_busy s (I1 _ _ Hi) Fs). pose proof (fiber_user_busy t (I1 _ _ Hj) Ft).
    destruct (I2 i j s t Ne Hi Hj); congruence.
  - intros U s Hs. destruct (fiber_user s) eqn:F; [|reflexivity]. exfalso.
    destruct (In_nth_error _ _ Hs) as (j & Hj).
    pose proof (fiber_user_busy s (I1 _ _ Hj) F). pose proof (U s Hs). congruence.
Qed.
