(* C18 -- proofs, part 13: parseBitVector on binary / octal / hexadecimal digit strings without a
   width prefix: the result is, bit for bit, the digit string read as an array of bits, for ANY
   number of digits (octal digits may straddle 64-bit word borders). *)
From Coq Require Import List NArith ZArith Bool Lia Ascii String.
From Gatery Require Import Bits BvsDefs BvsSpec BvsLeaf BvsWords BvsCopy BvsAbs BvsOps BvsEq
     BvsQuery BvsCmp BvsMerge BvsBig BvsSeq.
Import ListNotations.
Ltac Zify.zify_post_hook ::= Z.to_euclidean_division_equations.
Local Open Scope N_scope.

(* bit j of plane p (0 = VALUE, 1 = DEFINED) of the literal body [num] with [bps] bits per digit;
   the last character is the least significant digit *)
Definition digit_bit (bps : N) (num : list ascii) (p : nat) (j : N) : bool :=
  let cnt := N.of_nat (length num) in
  let c := nth (N.to_nat (cnt - 1 - j / bps)) num zero in
  N.testbit (if Nat.eqb p 0 then fst (digitVal c) else snd (digitVal c)) (j mod bps).

Definition digits_spec (bps : N) (num : list ascii) : sst :=
  map (fun p => map (fun j => digit_bit bps num p (N.of_nat j)) (seq 0 (length num * N.to_nat bps)))
      [0%nat; 1%nat].

Section Loop.
Variables (bps : N) (num : list ascii).
Hypothesis Hbps : 0 < bps <= 64.
Local Notation cnt := (N.of_nat (length num)).

Definition pinv (i : N) (s : bvs) : Prop :=
  good 2 s /\ bsize s = cnt * bps /\
  forall p, (p < 2)%nat -> forall j,
    wbit (plane s p) j = if ((cnt - i) * bps <=? j) && (j <? cnt * bps) then digit_bit bps num p j else false.

Lemma parseHexLoop_ok rest : forall done s,
  num = done ++ rest -> pinv (N.of_nat (length done)) s ->
  pinv cnt (parseHexLoop bps rest cnt (N.of_nat (length done)) s).
Proof.
  induction rest as [|c rest IH]; intros done s Hnum (G & Hsz & B).
  - cbn [parseHexLoop].
    assert (E : N.of_nat (length done) = cnt).
    { rewrite Hnum, app_nil_r. reflexivity. }
    rewrite E in B. split; [exact G | split; [exact Hsz | exact B]].
  - cbn [parseHexLoop]. set (i := N.of_nat (length done)) in *.
    assert (Hlen : length num = (length done + S (length rest))%nat).
    { rewrite Hnum, app_length. reflexivity. }
    assert (Hi : i < cnt) by (subst i; lia).
    set (dst := cnt - 1 - i).
    assert (Hd : dst < cnt) by (subst dst; lia).
    destruct G as (W & C & P).
    set (s1 := insertW s VALUE (dst * bps) bps (fst (digitVal c))).
    set (s2 := insertW s1 DEFINED (dst * bps) bps (snd (digitVal c))).
    assert (In1 : dst * bps + bps <= bsize s) by (rewrite Hsz; subst dst; nia).
    assert (W1 : wf s1) by (apply wf_insertW; exact W).
    assert (C1 : clean s1) by (apply clean_insertW; try assumption; lia).
    assert (W2 : wf s2) by (apply wf_insertW; exact W1).
    assert (C2 : clean s2) by (apply clean_insertW; try assumption; lia).
    assert (P2 : length (planes s2) = 2%nat).
    { unfold s2, s1, insertW. rewrite !np_on_plane. exact P. }
    assert (I' : pinv cnt (parseHexLoop bps rest cnt (N.of_nat (length (done ++ [c]))) s2)).
    { apply IH.
    + rewrite <- app_assoc. exact Hnum.
    + rewrite app_length. cbn [length]. replace (N.of_nat (length done + 1)) with (i + 1) by (subst i; lia).
      split; [split; [exact W2 | split; [exact C2 | exact P2]] | split; [exact Hsz|]].
      * intros p Hp j.
        assert (Hc : nth (N.to_nat i) num zero = c).
        { rewrite Hnum. subst i. rewrite Nat2N.id, app_nth2 by lia. rewrite Nat.sub_diag. reflexivity. }
        assert (Wp : forall q, (q < 2)%nat -> wfP (bsize s) (plane s q)).
        { intros q Hq. apply wfP_plane; [exact W | lia]. }
        assert (Blk : forall v q, (q < 2)%nat ->
                  wbit (insertWP (plane s q) (dst * bps) bps v) j
                  = if (dst * bps <=? j) && (j <? dst * bps + bps) then N.testbit v (j - dst * bps)
                    else wbit (plane s q) j).
        { intros v q Hq. pose proof (Wp q Hq) as Wq. pose proof (wfP_in _ _ Wq).
          apply wbit_insertWP; [apply Wq | lia | lia]. }
        assert (Dg : forall q, dst * bps <= j < dst * bps + bps ->
                  digit_bit bps num q j
                  = N.testbit (if Nat.eqb q 0 then fst (digitVal c) else snd (digitVal c)) (j - dst * bps)).
        { intros q Hj. unfold digit_bit. fold cnt.
          assert (E1 : j / bps = dst) by (symmetry; apply (N.div_unique j bps dst (j - dst * bps)); lia).
          assert (E2 : j mod bps = j - dst * bps) by (symmetry; apply (N.mod_unique j bps dst (j - dst * bps)); lia).
          rewrite E1, E2. replace (cnt - 1 - dst) with i by (subst dst; lia). rewrite Hc. reflexivity. }
        assert (Hp' : p = 0%nat \/ p = 1%nat) by lia.
        destruct Hp' as [-> | ->].
        -- (* VALUE plane: written by s1, untouched by s2 *)
           unfold s2, insertW. rewrite plane_on_plane_other by (unfold DEFINED; lia).
           unfold s1, insertW. unfold VALUE. rewrite plane_on_plane_same by lia.
           rewrite Blk by lia. rewrite (B 0%nat) by lia.
           destruct ((dst * bps <=? j) && (j <? dst * bps + bps)) eqn:E.
           ++ split_cond E. rewrite (Dg 0%nat) by lia. cbn [Nat.eqb].
              destruct (N.leb_spec ((cnt - (i + 1)) * bps) j); [|subst dst; nia].
              destruct (N.ltb_spec j (cnt * bps)); [reflexivity | subst dst; nia].
           ++ assert (Hoff : (cnt - (i + 1)) * bps = dst * bps) by (subst dst; f_equal; lia).
              assert (Hnext : (cnt - i) * bps = dst * bps + bps) by (subst dst; nia).
              rewrite Hoff, Hnext. revert E. cmp_cases; bool_close; intros; try discriminate.
        -- (* DEFINED plane: written by s2 *)
           unfold s2, insertW. unfold DEFINED. rewrite plane_on_plane_same by (unfold s1, insertW; rewrite np_on_plane; lia).
           unfold s1, insertW. rewrite plane_on_plane_other by (unfold VALUE; lia).
           rewrite Blk by lia. rewrite (B 1%nat) by lia.
           destruct ((dst * bps <=? j) && (j <? dst * bps + bps)) eqn:E.
           ++ split_cond E. rewrite (Dg 1%nat) by lia. cbn [Nat.eqb].
              destruct (N.leb_spec ((cnt - (i + 1)) * bps) j); [|subst dst; nia].
              destruct (N.ltb_spec j (cnt * bps)); [reflexivity | subst dst; nia].
           ++ assert (Hoff : (cnt - (i + 1)) * bps = dst * bps) by (subst dst; f_equal; lia).
              assert (Hnext : (cnt - i) * bps = dst * bps + bps) by (subst dst; nia).
              rewrite Hoff, Hnext. revert E. cmp_cases; bool_close; intros; try discriminate.
    }
    rewrite app_length in I'. cbn [length] in I'.
    replace (N.of_nat (length done + 1)) with (i + 1) in I' by (subst i; lia). exact I'.
Qed.
End Loop.

Theorem parseHex_digits bps num :
  0 < bps <= 64 ->
  exists s, parseHex bps (mk_empty 2) num = Some s /\ wf s /\ clean s
            /\ bsize s = N.of_nat (length num) * bps /\ abs s = digits_spec bps num.
Proof.
  intros Hb. unfold parseHex. cbn [bsize mk_empty]. cbn [N.eqb].
  set (cnt := N.of_nat (length num)).
  set (r := resize (mk_empty 2) (cnt * bps)).
  assert (G0 : good 2 (mk_empty 2)) by apply good_empty.
  assert (Gr : good 2 r).
  { unfold r. split; [apply wf_resize, G0 | split; [apply clean_resize, G0 | rewrite np_resize; apply G0]]. }
  assert (Base : pinv bps num (N.of_nat (length (@nil ascii))) r).
  { split; [exact Gr | split; [reflexivity|]].
    intros p Hp j. cbn [length]. change (N.of_nat 0) with 0. rewrite N.sub_0_r. fold cnt.
    destruct (N.ltb_spec j (cnt * bps)) as [Hlt | Hge].
    + destruct (N.leb_spec (cnt * bps) j); [lia|]. bsimpl.
      unfold r, resize, plane. cbn [planes mk_empty repeat map].
      destruct p as [|[|p]]; [| |lia]; cbn [nth]; rewrite wbit_resizeP by (apply Forall_nil);
        rewrite wbit_nil; apply andb_false_r.
    + rewrite andb_false_r.
      assert (Pr : (p < length (planes r))%nat) by (destruct Gr as (_ & _ & Pr); rewrite Pr; exact Hp).
      apply (cleanP_plane r p (proj1 (proj2 Gr)) Pr). exact Hge. }
  pose proof (parseHexLoop_ok bps num Hb num [] r eq_refl Base) as (G & Hsz & B).
  cbn [length] in G, Hsz, B. change (N.of_nat 0) with 0 in G, Hsz, B. fold cnt in G, Hsz, B.
  set (s := parseHexLoop bps num cnt 0 r) in *.
  exists s. split; [reflexivity|].
  - destruct G as (W & C & P). repeat split; try assumption.
    unfold digits_spec, abs.
    destruct (planes s) as [|p0 [|p1 [|p2 rest]]] eqn:EP; cbn [length] in P; try lia.
    cbn [map]. f_equal; [|f_equal].
    + apply absP_eq; [rewrite map_length, seq_length, Hsz; subst cnt; lia|].
      intros j Hj. rewrite nth_map_seq by (rewrite Hsz in Hj; subst cnt; lia). rewrite N2Nat.id.
      specialize (B 0%nat ltac:(lia) j). unfold plane in B. rewrite EP in B. cbn [nth] in B. rewrite B.
      replace (cnt - cnt) with 0 by lia. cbn [N.mul].
      destruct (N.leb_spec 0 j); [|lia]. destruct (N.ltb_spec j (cnt * bps)); [reflexivity | lia].
    + apply absP_eq; [rewrite map_length, seq_length, Hsz; subst cnt; lia|].
      intros j Hj. rewrite nth_map_seq by (rewrite Hsz in Hj; subst cnt; lia). rewrite N2Nat.id.
      specialize (B 1%nat ltac:(lia) j). unfold plane in B. rewrite EP in B. cbn [nth] in B. rewrite B.
      replace (cnt - cnt) with 0 by lia. cbn [N.mul].
      destruct (N.leb_spec 0 j); [|lia]. destruct (N.ltb_spec j (cnt * bps)); [reflexivity | lia].
Qed.

(* the literal forms "b...", "x...", "o..." (no width prefix) *)
Definition bin_body (body : list ascii) : bool := forallb (fun c => in_range c 48 49 || is_x c) body.
Definition hex_body (body : list ascii) : bool :=
  forallb (fun c => in_range c 48 57 || in_range c 97 102 || in_range c 65 70 || is_x c) body.
Definition oct_body (body : list ascii) : bool := forallb (fun c => in_range c 48 55 || is_x c) body.

Theorem parse_binary_literal body :
  bin_body body = true ->
  exists s, parseBitVector ("b"%char :: body) = Some s /\ wf s /\ clean s
            /\ bsize s = N.of_nat (length body) /\ abs s = digits_spec 1 body.
Proof.
  intro Hb. unfold parseBitVector. cbn [take_digits is_digit N_of_ascii]. cbv beta iota zeta.
  change (is_digit "b"%char) with false. cbn [fst snd parseWidth].
  change (N_of_ascii "b" =? 115) with false. change (N_of_ascii "b" =? 120) with false.
  change (N_of_ascii "b" =? 111) with false. change (N_of_ascii "b" =? 98) with true. cbv iota.
  fold (bin_body body). rewrite Hb.
  destruct (parseHex_digits 1 body ltac:(lia)) as (s & E & W & C & Sz & A).
  exists s. rewrite N.mul_1_r in Sz. auto.
Qed.

Theorem parse_hex_literal body :
  hex_body body = true ->
  exists s, parseBitVector ("x"%char :: body) = Some s /\ wf s /\ clean s
            /\ bsize s = N.of_nat (length body) * 4 /\ abs s = digits_spec 4 body.
Proof.
  intro Hb. unfold parseBitVector. cbn [take_digits is_digit N_of_ascii]. cbv beta iota zeta.
  change (is_digit "x"%char) with false. cbn [fst snd parseWidth].
  change (N_of_ascii "x" =? 115) with false. change (N_of_ascii "x" =? 120) with true. cbv iota.
  fold (hex_body body). rewrite Hb.
  destruct (parseHex_digits 4 body ltac:(lia)) as (s & E & W & C & Sz & A).
  exists s. auto.
Qed.

Theorem parse_octal_literal body :
  oct_body body = true ->
  exists s, parseBitVector ("o"%char :: body) = Some s /\ wf s /\ clean s
            /\ bsize s = N.of_nat (length body) * 3 /\ abs s = digits_spec 3 body.
Proof.
  intro Hb. unfold parseBitVector. cbn [take_digits is_digit N_of_ascii]. cbv beta iota zeta.
  change (is_digit "o"%char) with false. cbn [fst snd parseWidth].
  change (N_of_ascii "o" =? 115) with false. change (N_of_ascii "o" =? 120) with false.
  change (N_of_ascii "o" =? 111) with true. cbv iota.
  fold (oct_body body). rewrite Hb.
  destruct (parseHex_digits 3 body ltac:(lia)) as (s & E & W & C & Sz & A).
  exists s. auto.
Qed.
