(* C04 -- Registers, clocks, resets and enables follow synchronous-logic semantics.
   Only statements; every proof is `exact <lemma>` into SchedOrder / SchedTime / SchedRegs / SchedRun.
   The model (SchedDefs.v) transcribes ReferenceSimulator::powerOn / advanceEvent / handleCurrentTimeStep,
   Node_Register::simulate*, Clock::getClockPinSource / getResetPinSource / getMinReset*, extractClockPins;
   Event::operator< and the enum orders are regenerated from ReferenceSimulator.h (gen/EventOrder.v).
   `comb : network` is the combinational network between the registers -- universally quantified. *)
From Coq Require Import QArith Qreduction Permutation Lia.
Require Import Gatery.Bits.
Require Import Gatery.gen.EventOrder.
Require Import Gatery.SchedDefs Gatery.SchedOrder Gatery.SchedClocks Gatery.SchedTime Gatery.SchedRegs Gatery.SchedRun
               Gatery.SchedReset Gatery.SchedInherit Gatery.SchedScopes Gatery.SchedExamples.
Import ListNotations.
Local Close Scope Q_scope.

(* ========================================================================= *)
(** * event_order_total *)

(* The regenerated Event::operator< is irreflexive, transitive, and any two events are either ordered or have the
   same key (time, phase, micro tick, type, and -- for process resumptions -- insertion id); events with the same
   key are never ordered.  NOTE: clock / reset events of different pins at the same time DO have the same key
   (ex_same_key); the order in which the heap hands them out is therefore unspecified -- instant_order_irrelevant
   below shows it does not matter. *)
Theorem event_order_total :
  (forall a, event_lt a a = false) /\
  (forall a b c, event_lt a b = true -> event_lt b c = true -> event_lt a c = true) /\
  (forall a b, event_lt a b = true \/ event_lt b a = true \/ same_key a b) /\
  (forall a b, same_key a b -> event_lt a b = false /\ event_lt b a = false).
Proof. exact (conj event_lt_irrefl (conj event_lt_trans (conj event_lt_trichotomy same_key_not_lt))). Qed.
Print Assumptions event_order_total.

(* strict total order on process resumptions with distinct insertion ids *)
Theorem event_order_total_distinct_ids a b :
  ev_type a = simProcResume -> ev_type b = simProcResume -> ev_insertion a <> ev_insertion b ->
  event_lt a b = true \/ event_lt b a = true.
Proof. exact (event_lt_total_distinct_ids a b). Qed.
Print Assumptions event_order_total_distinct_ids.

Example event_order_total_ex :
  same_key (cvc_ev 1%Q (0, true)) (cvc_ev 1%Q (1, false)) /\ cvc_ev 1%Q (0, true) <> cvc_ev 1%Q (1, false).
Proof. exact ex_same_key. Qed.

(* at one time / phase / micro tick events are popped in the enum order of Event::Type: clockPinTrigger,
   simProcResume, clockValueChange, resetValueChange *)
Theorem event_order_by_type a b :
  ev_time a = ev_time b -> ev_phase a = ev_phase b -> ev_microtick a = ev_microtick b ->
  (type_rank (ev_type b) < type_rank (ev_type a))%N -> event_lt a b = true.
Proof. exact (event_lt_by_type a b). Qed.
Print Assumptions event_order_by_type.

(* ========================================================================= *)
(** * edge_times *)

(* Every event of clock pin c in the schedule created by powerOn carries its index k >= 1, happens at EXACTLY
   k/(2 f_c), and toggles to level (start level xor k odd) -- for every configuration, i.e. whatever other pins,
   reset events or processes exist, after any number of steps.  No hypothesis at all. *)
Theorem edge_times cfg n ie c r k :
  In ie (sched_run n (sched_init cfg)) -> In (c, r, k) (ie_clk ie) ->
  In c (clock_pins cfg) /\ (1 <= k)%N /\
  (ie_time ie == Q_of_N k * ((1 # 2) / absfreq (cfg_clocks cfg) c))%Q /\
  r = xorb (trigger_eqb (ck_trig (get_clock (cfg_clocks cfg) c)) RISING) (N.odd k).
Proof. exact (edge_times_all cfg n ie c r k). Qed.
Print Assumptions edge_times.

Example edge_times_ex :
  map ie_time (sched_run 8 (sched_init ex_cfg)) =
  [(1 # 14); (1 # 7); (1 # 6); (3 # 14); (2 # 7); (1 # 3); (5 # 14); (3 # 7)]%Q.
Proof. exact ex_instants. Qed.

(* no edge is skipped: once simulated time has reached k/(2 f_c), the k-th event of pin c has happened *)
Theorem edge_complete cfg n c k :
  times_ok cfg -> In c (clock_pins cfg) -> (1 <= k)%N ->
  (Q_of_N k * ((1 # 2) / absfreq (cfg_clocks cfg) c) <= sc_now (sched_after n (sched_init cfg)))%Q ->
  exists ie, In ie (sched_run n (sched_init cfg)) /\
             In (c, xorb (trigger_eqb (ck_trig (get_clock (cfg_clocks cfg) c)) RISING) (N.odd k), k) (ie_clk ie).
Proof. exact (edge_complete_all cfg n c k). Qed.
Print Assumptions edge_complete.

(* no starvation: for every k the k-th event of every pin is eventually processed *)
Theorem sched_progress cfg c k :
  times_ok cfg -> In c (clock_pins cfg) -> (1 <= k)%N ->
  exists n ie, In ie (sched_run n (sched_init cfg)) /\
               In (c, xorb (trigger_eqb (ck_trig (get_clock (cfg_clocks cfg) c)) RISING) (N.odd k), k) (ie_clk ie).
Proof. exact (sched_progress_all cfg c k). Qed.
Print Assumptions sched_progress.

(* committed instants have strictly increasing times (in particular all are > 0: nothing is activated at t = 0) *)
Theorem instants_increasing cfg n ie :
  times_ok cfg -> In ie (sched_run n (sched_init cfg)) -> (0 < ie_time ie)%Q.
Proof.
  exact (fun H Hin => run_times_increasing cfg n (sched_init cfg) ie (to_freq cfg H) (sinv_init cfg)
                        (future_init cfg (to_freq cfg H) (to_init cfg H) (to_stim cfg H)) Hin).
Qed.
Print Assumptions instants_increasing.

Example times_ok_ex : times_ok ex_cfg /\ clocks_wf (cfg_clocks ex_cfg) /\ cfg_ok ex_cfg.
Proof. exact (conj ex_times_ok (conj ex_wf ex_cfg_ok)). Qed.

(* ========================================================================= *)
(** * activation_times *)

(* The clocked nodes of a relevant clock c are advanced in an instant of the trace iff its time is k/(2 f_c) for
   some k >= 1 whose edge on c's clock PIN matches c's trigger (`activates`).  This includes the reset phase:
   advance is called during reset as well (the register then applies its reset rule, see sync_sample), and
   nothing is ever advanced at t = 0. *)
Theorem activation_times cfg n ie c :
  times_ok cfg -> clocks_wf (cfg_clocks cfg) -> relevant cfg c = true ->
  In ie (sched_run n (sched_init cfg)) ->
  (domain_advanced cfg ie c = true <->
   exists k, (1 <= k)%N /\ (ie_time ie == Q_of_N k * ((1 # 2) / absfreq (cfg_clocks cfg) c))%Q /\
             activates (trig_of cfg c) (trig_of cfg (pinsrc (cfg_clocks cfg) c)) k = true).
Proof. exact (activation_times_general cfg n ie c). Qed.
Print Assumptions activation_times.

(* RISING or FALLING domain whose clock pin has the same edge (every root clock, every derived clock with its own
   pin or with its parent's edge): exactly the positive multiples of the period 1/f *)
Theorem activation_times_single cfg n ie c :
  times_ok cfg -> clocks_wf (cfg_clocks cfg) -> relevant cfg c = true ->
  In ie (sched_run n (sched_init cfg)) ->
  trig_of cfg c <> RISING_AND_FALLING -> trig_of cfg (pinsrc (cfg_clocks cfg) c) = trig_of cfg c ->
  (domain_advanced cfg ie c = true <->
   exists j, (1 <= j)%N /\ (ie_time ie == Q_of_N j * (1 / absfreq (cfg_clocks cfg) c))%Q).
Proof. exact (activation_times_single_edge cfg n ie c). Qed.
Print Assumptions activation_times_single.

(* dual-edge domain: exactly the positive multiples of the half period *)
Theorem activation_times_dual cfg n ie c :
  times_ok cfg -> clocks_wf (cfg_clocks cfg) -> relevant cfg c = true ->
  In ie (sched_run n (sched_init cfg)) ->
  trig_of cfg c = RISING_AND_FALLING ->
  (domain_advanced cfg ie c = true <->
   exists k, (1 <= k)%N /\ (ie_time ie == Q_of_N k * ((1 # 2) / absfreq (cfg_clocks cfg) c))%Q).
Proof. exact (activation_times_dual_edge cfg n ie c). Qed.
Print Assumptions activation_times_dual.

(* DESIGN.md Q7 -- what the model yields for a single-edge derived clock that shares its parent's pin
   (inheritsClockPinSource ignores the trigger) but triggers on the opposite single edge: the ODD multiples of the
   half period, (j + 1/2)/f, j >= 0 -- NOT the multiples of 1/f of the property text. *)
Theorem activation_times_opposite cfg n ie c :
  times_ok cfg -> clocks_wf (cfg_clocks cfg) -> relevant cfg c = true ->
  In ie (sched_run n (sched_init cfg)) ->
  trig_of cfg c <> RISING_AND_FALLING -> trig_of cfg (pinsrc (cfg_clocks cfg) c) <> RISING_AND_FALLING ->
  trig_of cfg c <> trig_of cfg (pinsrc (cfg_clocks cfg) c) ->
  (domain_advanced cfg ie c = true <->
   exists j, (ie_time ie == (Q_of_N j + (1 # 2)) * (1 / absfreq (cfg_clocks cfg) c))%Q).
Proof. exact (activation_times_opposite_edge cfg n ie c). Qed.
Print Assumptions activation_times_opposite.

(* The literal wording of C04 for single-edge clocks ("exactly at the positive multiples of 1/f") is REFUTED by the
   faithful model -- and by the real simulator, which the tie shows to agree with it -- for such a derived clock:
   concrete witness ex_cfg, clock 2 (FALLING, 3 Hz, on RISING clock 0's pin) is advanced at t = 1/6.  By design
   (physically the falling edge of the shared clock signal); recorded as an observation, not repaired. *)
Theorem activation_at_period_multiples_refuted :
  exists cfg c n ie,
    times_ok cfg /\ clocks_wf (cfg_clocks cfg) /\ relevant cfg c = true /\ trig_of cfg c <> RISING_AND_FALLING /\
    In ie (sched_run n (sched_init cfg)) /\ domain_advanced cfg ie c = true /\
    ~ exists j : N, (ie_time ie == Q_of_N j * (1 / absfreq (cfg_clocks cfg) c))%Q.
Proof. exact ex_refuted_full. Qed.
Print Assumptions activation_at_period_multiples_refuted.

Example activation_times_opposite_ex :
  relevant ex_cfg 2 = true /\ pinsrc ex_clocks 2 = 0 /\ trig_of ex_cfg 2 = FALLING /\ trig_of ex_cfg 0 = RISING /\
  map (fun ie => (ie_time ie, domain_advanced ex_cfg ie 2, domain_advanced ex_cfg ie 0))
      (filter (fun ie => existsb (fun x => Nat.eqb (fst (fst x)) 0) (ie_clk ie)) (sched_run 14 (sched_init ex_cfg))) =
  [((1 # 6)%Q, true, false); ((1 # 3)%Q, false, true); ((1 # 2)%Q, true, false); ((2 # 3)%Q, false, true)].
Proof.
  exact (conj (proj1 ex_q7) (conj (proj1 (proj2 ex_q7)) (conj (proj1 (proj2 (proj2 ex_q7)))
        (conj (proj2 (proj2 (proj2 ex_q7))) ex_q7_activations)))).
Qed.

(* a single-edge derived clock on a dual-edge parent pin (which starts low): RISING at (j + 1/2)/f, FALLING at j/f *)
Theorem activation_times_dual_pin cfg n ie c :
  times_ok cfg -> clocks_wf (cfg_clocks cfg) -> relevant cfg c = true ->
  In ie (sched_run n (sched_init cfg)) ->
  trig_of cfg (pinsrc (cfg_clocks cfg) c) = RISING_AND_FALLING ->
  (trig_of cfg c = RISING ->
   (domain_advanced cfg ie c = true <->
    exists j, (ie_time ie == (Q_of_N j + (1 # 2)) * (1 / absfreq (cfg_clocks cfg) c))%Q)) /\
  (trig_of cfg c = FALLING ->
   (domain_advanced cfg ie c = true <->
    exists j, (1 <= j)%N /\ (ie_time ie == Q_of_N j * (1 / absfreq (cfg_clocks cfg) c))%Q)).
Proof. exact (activation_times_on_dual_pin cfg n ie c). Qed.
Print Assumptions activation_times_dual_pin.

(* sharing a pin implies the same absolute frequency; the pin source of a relevant clock is an allocated pin *)
Theorem pin_sharing cfg c :
  clocks_wf (cfg_clocks cfg) -> relevant cfg c = true ->
  In (pinsrc (cfg_clocks cfg) c) (clock_pins cfg) /\
  (absfreq (cfg_clocks cfg) (pinsrc (cfg_clocks cfg) c) == absfreq (cfg_clocks cfg) c)%Q.
Proof. exact (fun Hwf Hr => conj (pinsrc_is_pin cfg c Hwf Hr) (pinsrc_freq (cfg_clocks cfg) c)). Qed.
Print Assumptions pin_sharing.

(* ========================================================================= *)
(** * advance_commute *)

(* any permutation of the order in which the simulator visits the clocked nodes gives the same state, for
   clock events and for reset events *)
Theorem advance_commute cfg o o' pin rising d :
  NoDup o -> Permutation o o' ->
  clock_value_change (with_order cfg o) pin rising d = clock_value_change (with_order cfg o') pin rising d.
Proof. exact (clock_value_change_order cfg o o' pin rising d). Qed.
Print Assumptions advance_commute.

Theorem reset_commute cfg o o' rpin level d :
  NoDup o -> Permutation o o' ->
  reset_value_change (with_order cfg o) rpin level d = reset_value_change (with_order cfg o') rpin level d.
Proof. exact (reset_value_change_order cfg o o' rpin level d). Qed.
Print Assumptions reset_commute.

(* One time instant (handleCurrentTimeStep with the REGENERATED priority order) equals the closed form
     latch ( processes ( latch ( reset events ( clock events d ))))
   for the clock value changes of the pin set P, the reset events R and at most one process resumption S, in
   whatever order the events were inserted -- in particular independently of how the heap breaks ties between
   pins of different clock domains. *)
Theorem instant_closed_form cfg comb t P R S evs d :
  order_ok cfg -> data_ok cfg d -> latched cfg comb d ->
  NoDup (map fst P) -> NoDup (map fst R) -> length S <= 1 ->
  Permutation evs (evs_of t P R S) ->
  instant cfg comb evs d =
  latch cfg comb (stim_fold cfg S (latch cfg comb (spec_reset cfg R (spec_clock cfg P d)))).
Proof. exact (instant_spec cfg comb t P R S evs d). Qed.
Print Assumptions instant_closed_form.

Theorem instant_order_independent cfg comb t P R S evs evs' d :
  order_ok cfg -> data_ok cfg d -> latched cfg comb d ->
  NoDup (map fst P) -> NoDup (map fst R) -> length S <= 1 ->
  Permutation evs (evs_of t P R S) -> Permutation evs' (evs_of t P R S) ->
  instant cfg comb evs d = instant cfg comb evs' d.
Proof. exact (instant_order_irrelevant cfg comb t P R S evs evs' d). Qed.
Print Assumptions instant_order_independent.

(* ========================================================================= *)
(** * sync_sample *)

(* After the clock events of an instant in which the pin set P toggles, register r (state s before) holds
     not triggered           -> old value
     triggered, in reset     -> reset value if the reset is synchronous (and a reset value exists), else old value
     triggered, not in reset -> enable_pre X => all X | 1 => D_pre | 0 => old value
   where D_pre / EN_pre are the network evaluated on the register outputs and inputs of the state BEFORE the
   instant -- for every register of every domain triggered in the same instant (triggered only looks at r's own pin
   source and trigger edge).  spec_clock is what ANY visiting order and ANY order of the pins computes
   (instant_closed_form, advance_commute). *)
Theorem sync_sample cfg comb P d r s :
  latched cfg comb d -> nth_error (d_regs d) r = Some s ->
  exists s', nth_error (d_regs (spec_clock cfg P d)) r = Some s' /\
    r_inrst s' = r_inrst s /\
    r_out s' =
      if triggered cfg P r then
        if r_inrst s then
          (if rstkind_eqb (ck_rst (reg_clock cfg r)) RST_SYNC
           then match rg_rstval (get_reg cfg r) with Some v => v | None => r_out s end
           else r_out s)
        else match EN_pre cfg comb d r with
             | BX => all_X (rg_width (get_reg cfg r))
             | B1 => D_pre cfg comb d r
             | B0 => r_out s
             end
      else r_out s.
Proof. exact (sync_sample_full cfg comb P d r s). Qed.
Print Assumptions sync_sample.

(* the same along a run from power-on: the state committed after a step, for an instant without event on r's
   reset pin, holds the sampled PRE-instant values *)
Theorem sync_sample_along_run cfg comb n s d s' d' lg r s0 :
  cfg_ok cfg -> reach cfg comb n = Some (s, d) -> step cfg comb (s, d) = Some (s', d', lg) ->
  nth_error (d_regs d) r = Some s0 ->
  rst_level cfg (lg_rst lg) r = None ->
  option_map r_out (nth_error (d_regs d') r) =
  Some (next_out cfg comb (map (fun x => (fst (fst x), snd (fst x))) (lg_clk lg)) d r s0).
Proof. exact (sync_sample_run cfg comb n s d s' d' lg r s0). Qed.
Print Assumptions sync_sample_along_run.

Example sync_sample_ex :
  match reach ex_cfg ex_comb 17 with
  | Some (s, d) =>
    match step ex_cfg ex_comb (s, d) with
    | Some (s', d', lg) =>
      (lg_time lg, lg_clk lg, map r_out (d_regs d), lg_regs lg) =
      (1%Q, [(0, true, 6%N); (1, false, 14%N)],
       [[B1; B1; B1]; [B0; B0; B0]; [B0; B0; B0]], [[B0; B0; B0]; [B0; B0; B0]; [B0; B0; B0]])
    | None => False
    end
  | None => False
  end.
Proof. exact ex_reach. Qed.

(* registers not triggered and without event on their reset pin keep output and reset status over the whole instant *)
Theorem untouched_holds cfg comb P R S d r s :
  latched cfg comb d -> nth_error (d_regs d) r = Some s ->
  triggered cfg P r = false -> rst_level cfg R r = None ->
  option_map r_out (nth_error (d_regs (spec_instant cfg comb P R S d)) r) = Some (r_out s) /\
  option_map r_inrst (nth_error (d_regs (spec_instant cfg comb P R S d)) r) = Some (r_inrst s).
Proof. exact (untouched_register_holds cfg comb P R S d r s). Qed.
Print Assumptions untouched_holds.

(* C04, first sentence, along every run from power-on: a register output changes only in an instant in which its
   own clock domain is activated or its own reset pin has an event ... *)
Theorem register_changes_only_at_own_events cfg comb n s d s' d' lg r s0 s1 :
  cfg_ok cfg -> reach cfg comb n = Some (s, d) -> step cfg comb (s, d) = Some (s', d', lg) ->
  nth_error (d_regs d) r = Some s0 -> nth_error (d_regs d') r = Some s1 ->
  r_out s1 <> r_out s0 ->
  (exists ie, In ie (sched_run (S n) (sched_init cfg)) /\ lg_time lg = ie_time ie /\ lg_clk lg = ie_clk ie /\
              domain_advanced cfg ie (rg_clk (get_reg cfg r)) = true)
  \/ (exists rp lv, In (rp, lv) (lg_rst lg) /\ rstsrc (cfg_clocks cfg) (rg_clk (get_reg cfg r)) = Some rp).
Proof. exact (SchedRun.register_changes_only_at_own_events cfg comb n s d s' d' lg r s0 s1). Qed.
Print Assumptions register_changes_only_at_own_events.

(* ... and such an activation is at k/(2f) for a toggle k of its pin that matches its trigger edge *)
Theorem register_change_times cfg comb n s d s' d' lg r s0 s1 :
  cfg_ok cfg -> times_ok cfg -> clocks_wf (cfg_clocks cfg) ->
  r < length (cfg_regs cfg) -> rg_clk (get_reg cfg r) < length (cfg_clocks cfg) ->
  reach cfg comb n = Some (s, d) -> step cfg comb (s, d) = Some (s', d', lg) ->
  nth_error (d_regs d) r = Some s0 -> nth_error (d_regs d') r = Some s1 ->
  r_out s1 <> r_out s0 ->
  let c := rg_clk (get_reg cfg r) in
  (exists k, (1 <= k)%N /\ (lg_time lg == Q_of_N k * ((1 # 2) / absfreq (cfg_clocks cfg) c))%Q /\
             activates (trig_of cfg c) (trig_of cfg (pinsrc (cfg_clocks cfg) c)) k = true)
  \/ (exists rp lv, In (rp, lv) (lg_rst lg) /\ rstsrc (cfg_clocks cfg) c = Some rp).
Proof. exact (SchedRun.register_change_times cfg comb n s d s' d' lg r s0 s1). Qed.
Print Assumptions register_change_times.

(* ========================================================================= *)
(** * Resets *)

(* active level honoured: after a reset event the register is in reset iff the level equals the active level of
   ITS clock and it has a reset value *)
Theorem reset_active_level c rg lv s :
  r_inrst (reg_reset_change c rg lv s) =
  Bool.eqb lv (ck_active_high c) && match rg_rstval rg with Some _ => true | None => false end.
Proof. exact (reset_active_level_full c rg lv s). Qed.
Print Assumptions reset_active_level.

(* asynchronous reset: the output is the reset value from the reset event on, no clock edge needed ... *)
Theorem async_reset_immediate c rg lv s v :
  ck_rst c = RST_ASYNC -> rg_rstval rg = Some v -> lv = ck_active_high c ->
  r_out (reg_reset_change c rg lv s) = v /\ r_inrst (reg_reset_change c rg lv s) = true.
Proof. exact (async_reset_immediate_reg c rg lv s v). Qed.
Print Assumptions async_reset_immediate.

(* ... and clock edges are ignored while it is asserted *)
Theorem async_reset_holds c rg s :
  ck_rst c = RST_ASYNC -> r_inrst s = true -> reg_advance c rg s = s.
Proof. exact (async_in_reset_ignores_edges c rg s). Qed.
Print Assumptions async_reset_holds.

Example async_reset_immediate_ex :
  map (fun lg => (lg_time lg, lg_clk lg, lg_rst lg, nth 1 (lg_regs lg) []))
      (filter (fun lg => Qeq_bool (lg_time lg) (5 # 4)) (simulate ex_cfg ex_comb 30)) =
  [((5 # 4)%Q, [], [(1, false)], [B1; B0; B1])].
Proof. exact ex_async. Qed.

(* synchronous reset: the reset event itself never changes the output; the reset value is taken at the next
   activation of the register's domain, data and enable being ignored *)
Theorem sync_reset_at_edge c rg lv s v :
  ck_rst c = RST_SYNC -> rg_rstval rg = Some v -> lv = ck_active_high c ->
  r_out (reg_reset_change c rg lv s) = r_out s /\
  r_inrst (reg_reset_change c rg lv s) = true /\
  r_out (reg_advance c rg (reg_reset_change c rg lv s)) = v.
Proof. exact (sync_reset_at_edge_full c rg lv s v). Qed.
Print Assumptions sync_reset_at_edge.

(* de-asserting (any level that is not the active one) leaves the output alone and ends the reset *)
Theorem reset_release c rg lv s :
  lv = negb (ck_active_high c) ->
  r_out (reg_reset_change c rg lv s) = r_out s /\ r_inrst (reg_reset_change c rg lv s) = false.
Proof. exact (reset_release_keeps_output c rg lv s). Qed.
Print Assumptions reset_release.

(* value at time 0: the reset value if there is one, undefined otherwise -- initializeRegs, reset kind and polarity
   play no role (Node_Register::simulatePowerOn does not consult them) *)
Theorem power_on_outputs cfg comb r s :
  nth_error (d_regs (power_on cfg comb)) r = Some s ->
  r_out s = match rg_rstval (get_reg cfg r) with Some v => v | None => all_X (rg_width (get_reg cfg r)) end.
Proof. exact (SchedRun.power_on_outputs cfg comb r s). Qed.
Print Assumptions power_on_outputs.

(* power-on reset sequencing: a reset pin that any clocked node hangs on is held for a positive time
   (>= 1 cycle for synchronous, >= 1 period for asynchronous resets, through every chain of derived clocks) ... *)
Theorem used_reset_pin_held cfg c s :
  clocks_wf (cfg_clocks cfg) -> mults_positive (cfg_clocks cfg) ->
  c < length (cfg_clocks cfg) -> has_nodes cfg c = true ->
  rstsrc (cfg_clocks cfg) c = Some s ->
  (0 < reset_hold_time cfg s)%Q /\ Qis_zero (reset_hold_time cfg s) = false.
Proof. exact (SchedReset.used_reset_pin_held cfg c s). Qed.
Print Assumptions used_reset_pin_held.

(* ... hence the "immediately disable again" branch of powerOn (hold time 0) never touches a register: it only
   exists for reset pins without clocked nodes (corpus/C04/01_nodeless_reset_pin.cases; the onReset callback of
   that branch was wrong until the repair recorded in KNOWN_FINDINGS.txt) *)
Theorem zero_hold_no_register cfg s r :
  clocks_wf (cfg_clocks cfg) -> mults_positive (cfg_clocks cfg) ->
  r < length (cfg_regs cfg) -> rg_clk (get_reg cfg r) < length (cfg_clocks cfg) ->
  Qis_zero (reset_hold_time cfg s) = true -> on_rstpin cfg s r = false.
Proof. exact (SchedReset.zero_hold_no_register cfg s r). Qed.
Print Assumptions zero_hold_no_register.

Example reset_hold_ex :
  mults_positive (cfg_clocks ex_cfg) /\
  map (fun s => (s, reset_hold_time ex_cfg s)) (reset_pins ex_cfg) = [(0, (1 # 3)%Q); (1, (1 # 7)%Q)].
Proof. exact ex_hold. Qed.

(* ========================================================================= *)
(** * Inheritance of unset ClockConfig fields (frontend Clock::deriveClock / applyConfig) *)

(* resolve_clocks transcribes what hlim::DerivedClock's constructor (copy from the parent) followed by
   gtry::Clock::applyConfig (override what is set) leave in each clock, in creation order.  Every inherited attribute
   -- name, reset name, trigger edge, phase synchronicity, reset type, reset polarity, initializeRegs -- equals
   `effective`, ... *)
Theorem config_inheritance ccs i c :
  configs_wf ccs -> nth_error (resolve_clocks ccs) i = Some c ->
  ck_name c = effective cc_name 0%N ccs i /\
  ck_rstname c = effective cc_rstname 0%N ccs i /\
  ck_trig c = effective cc_trig RISING ccs i /\
  ck_phasesync c = effective cc_phasesync true ccs i /\
  ck_rst c = effective cc_rst RST_SYNC ccs i /\
  ck_active_high c = effective cc_active_high true ccs i /\
  ck_initregs c = effective cc_initregs true ccs i.
Proof. exact (resolved_attributes ccs i c). Qed.
Print Assumptions config_inheritance.

(* ... which is the nearest explicitly set value up the derivation chain, else the default -- and nothing else *)
Theorem config_inheritance_nearest {A} (get : clock_config -> option A) (dflt : A) ccs i :
  configs_wf ccs -> i < length ccs ->
  nearest get dflt ccs i (effective get dflt ccs i) /\
  forall v, nearest get dflt ccs i v -> v = effective get dflt ccs i.
Proof.
  exact (fun Hwf Hi => conj (effective_nearest get dflt ccs i Hwf Hi)
                            (fun v Hv => nearest_unique get dflt ccs i v _ Hv (effective_nearest get dflt ccs i Hwf Hi))).
Qed.
Print Assumptions config_inheritance_nearest.

(* parent link, frequency / multiplier (unset multiplier = 1) and the minimum reset time / cycles are NOT inherited *)
Theorem config_own_fields ccs i c cc :
  nth_error (resolve_clocks ccs) i = Some c -> nth_error ccs i = Some cc ->
  ck_parent c = cc_parent cc /\ ck_freq c = match cc_freq cc with Some f => f | None => 1%Q end /\
  ck_minrsttime c = cc_minrsttime cc /\ ck_minrstcycles c = cc_minrstcycles cc.
Proof. exact (resolved_own_fields ccs i c cc). Qed.
Print Assumptions config_own_fields.

Example config_inheritance_ex :
  let ccs := [ mk_clock_config None (Some 3%Q) (Some 0%N) (Some 0%N) (Some FALLING) None (Some RST_ASYNC) (Some false) None 0%Q 0%N;
               mk_clock_config (Some 0) None None None None None None None None 0%Q 0%N;
               mk_clock_config (Some 1) (Some 2%Q) (Some 5%N) None (Some RISING) None (Some RST_SYNC) None (Some false) 0%Q 0%N ] in
  map (fun c => (ck_trig c, ck_rst c, ck_active_high c, ck_initregs c, ck_name c, ck_freq c)) (resolve_clocks ccs) =
  [ (FALLING, RST_ASYNC, false, true, 0%N, 3%Q); (FALLING, RST_ASYNC, false, true, 0%N, 1%Q);
    (RISING, RST_SYNC, false, false, 5%N, 2%Q) ].
Proof. exact inherit_ex. Qed.

(* ========================================================================= *)
(** * The ENABLE of registers created inside nested ENIF / IF / ELSE / ENALWAYS scopes *)

(* scope_enable transcribes EnableScope::setEnable / ConditionalScope::setCondition (own condition AND the FULL
   condition of the parent scope, level by level; an IF hands its accumulated condition to its enable scope; ENALWAYS
   forgets the accumulated enable).  Its four-state value is the flat conjunction of the contributing conditions ... *)
Theorem scope_enable_is_conjunction stack : opt_val (scope_enable stack) = conj3 (contrib stack).
Proof. exact (scope_enable_conj stack). Qed.
Print Assumptions scope_enable_is_conjunction.

(* ... without ENALWAYS: of the conditions of ALL enclosing scopes (ELSE contributes the negation), ... *)
Theorem scope_enable_all_conditions stack :
  ~ In SC_ALWAYS stack -> opt_val (scope_enable stack) = conj3 (flat_map lit stack).
Proof. exact (scope_enable_all stack). Qed.
Print Assumptions scope_enable_all_conditions.

(* ... independently of how the stack is split into the part accumulated by the parent scopes and the inner part *)
Theorem scope_enable_split_independent outer inner :
  ~ In SC_ALWAYS (outer ++ inner) ->
  opt_val (scope_enable (outer ++ inner)) = and3 (opt_val (scope_enable outer)) (conj3 (flat_map lit inner)).
Proof. exact (scope_enable_split outer inner). Qed.
Print Assumptions scope_enable_split_independent.

(* hence a register holds as soon as ANY enclosing ENIF / IF condition is a defined 0, however deep the nesting *)
Theorem scope_enable_outer_low_holds stack c :
  ~ In SC_ALWAYS stack -> In (SC_EN c) stack \/ In (SC_IF c) stack -> c = B0 -> opt_val (scope_enable stack) = B0.
Proof. exact (scope_enable_holds stack c). Qed.
Print Assumptions scope_enable_outer_low_holds.

Example scope_enable_ex :
  scope_enable [SC_EN B0; SC_EN B1; SC_EN B1] = Some B0 /\
  scope_enable [SC_EN B0; SC_IF B1; SC_IF B1] = Some B0 /\
  scope_enable [SC_EN B0; SC_ALWAYS; SC_EN B1] = Some B1 /\
  scope_enable [SC_IF B0; SC_ALWAYS; SC_IF B1] = Some B0 /\
  scope_enable [SC_EN BX; SC_ELSE B0; SC_EN B1] = Some BX /\
  scope_enable [] = None.
Proof. exact scope_ex. Qed.
