(* C19 -- invariants, part 3: the circuit state is a function of the log.
   Registers hold what the last clock edge in the log gave them; a clock edge gives a register the value its pin
   had at the last reevaluate() before the edge; pin writes that happened since that reevaluate() carry the
   stamp of the edge's own micro tick.  Consequences: what reads return, what an edge captures, and that
   BEFORE-phase writes are captured by the edge of their instant. *)
From Coq Require Import List NArith ZArith QArith Qreduction Bool Lia.
From Gatery Require Import SimProcDefs SimProcOrder SimProcSteps SimProcInv1 SimProcInv2.
Import ListNotations.
Local Close Scope Q_scope.

(* ------------------------------------------------------------------------- *)
(** * Reading the circuit state off the log (newest entry first) *)

Definition regs := (val * val * val)%type.
Definition rg_a (r : regs) : val := fst (fst r).
Definition rg_a2 (r : regs) : val := snd (fst r).
Definition rg_b (r : regs) : val := snd r.

Fixpoint regs_of_log (l : list entry) : regs :=
  match l with
  | [] => (None, None, None)
  | LEdge _ _ _ ra ra2 rb :: _ => (ra, ra2, rb)
  | _ :: r => regs_of_log r
  end.

Definition pin_eqb (a b : pinid) : bool := match a, b with PA, PA | PB, PB => true | _, _ => false end.

(* the value a pin was last set to *)
Fixpoint pinv (p : pinid) (l : list entry) : val :=
  match l with
  | [] => None
  | LProc _ _ _ _ _ (AWrite p' v) :: r => if pin_eqb p p' then Some v else pinv p r
  | _ :: r => pinv p r
  end.

(* the log as it was at the last reevaluate() *)
Fixpoint after_reeval (l : list entry) : list entry :=
  match l with
  | [] => []
  | LReeval :: r => LReeval :: r
  | _ :: r => after_reeval r
  end.
(* what has been logged since *)
Fixpoint since_reeval (l : list entry) : list entry :=
  match l with
  | [] => []
  | LReeval :: _ => []
  | e :: r => e :: since_reeval r
  end.

(* the combinational output PA xor RA as of the last reevaluate() *)
Definition c_of_log (l : list entry) : val :=
  val_xor (pinv PA (after_reeval l)) (rg_a (regs_of_log (after_reeval l))).

Definition read_log (x : sig) (l : list entry) : val :=
  match x with
  | SRA => rg_a (regs_of_log l) | SRA2 => rg_a2 (regs_of_log l) | SRB => rg_b (regs_of_log l)
  | SC => c_of_log l
  end.

(* register values after a flank of clock pin k, given the log before it *)
Definition edge_regs (two : bool) (k : clk) (rising : bool) (old : list entry) : regs :=
  let r := regs_of_log old in
  if rising then
    let la := pinv PA (after_reeval old) in
    let la2 := rg_a (regs_of_log (after_reeval old)) in
    let lb := pinv PB (after_reeval old) in
    match k with
    | CA => (la, la2, if two then rg_b r else lb)
    | CB => (rg_a r, rg_a2 r, if two then lb else rg_b r)
    end
  else r.

Definition is_write (e : entry) : bool := match e with LProc _ _ _ _ _ (AWrite _ _) => true | _ => false end.

(* every entry is explained by the entries before it *)
Fixpoint log_ok (two : bool) (l : list entry) : Prop :=
  match l with
  | [] => True
  | e :: old =>
    log_ok two old /\
    match e with
    | LProc _ _ _ _ _ (ARead x v) => v = read_log x old
    | LEdge t k rising ra ra2 rb =>
      (ra, ra2, rb) = edge_regs two k rising old /\
      (* pin writes not yet evaluated belong to the edge's own micro tick, which lies in phase DURING *)
      (forall w, In w (since_reeval old) -> is_write w = true ->
         exists mt ro pid a, w = LProc t DURING mt ro pid a)
    | LCommit t ra ra2 rb c => (ra, ra2, rb) = regs_of_log old /\ c = c_of_log old
    | _ => True
    end
  end.

(* ------------------------------------------------------------------------- *)
(** * Shape of queued events *)

Definition ev_shape (e : event) : Prop :=
  match e_type e with
  | ClockPinTrigger | ClockValueChange => e_phase e = DURING /\ e_mt e = 0%N
  | ResetValueChange => False
  | SimProcResume => True
  end.

(* ------------------------------------------------------------------------- *)
(** * The invariant *)

Record inv3 (two : bool) (s : state) : Prop := mk_inv3 {
  i3_shape : forall e, In e (s_queue s) -> ev_shape e;
  i3_log : log_ok two (s_log s);
  i3_state : s_err s = false ->
    (r_a (s_circ s), r_a2 (s_circ s), r_b (s_circ s)) = regs_of_log (s_log s) /\
    pi_a (s_circ s) = pinv PA (s_log s) /\ pi_b (s_circ s) = pinv PB (s_log s) /\
    lat_ra (s_circ s) = pinv PA (after_reeval (s_log s)) /\
    lat_rb (s_circ s) = pinv PB (after_reeval (s_log s)) /\
    lat_ra2 (s_circ s) = rg_a (regs_of_log (after_reeval (s_log s))) /\
    c_out (s_circ s) = c_of_log (s_log s) /\
    (forall w, In w (since_reeval (s_log s)) -> is_write w = true ->
       exists ro pid a, w = LProc (s_now s) (s_phase s) (s_mt s) ro pid a)
}.

(* ------------------------------------------------------------------------- *)
(** * Effect of one process step on circuit and log *)

Definition stamped (s : state) (pid : nat) (a : action) : entry :=
  LProc (s_now s) (s_phase s) (s_mt s) (s_readonly s) pid a.

Definition quiet_action (a : action) : Prop :=
  (forall x v, a <> ARead x v) /\ (forall p v, a <> AWrite p v).

Inductive effect (s s' : state) : Prop :=
| EF_quiet : forall new,
    s_log s' = new ++ s_log s -> s_circ s' = s_circ s -> s_err s' = false ->
    Forall (fun e => exists pid a, e = stamped s pid a /\ quiet_action a) new -> effect s s'
| EF_read : forall pid x,
    s_log s' = stamped s pid (ARead x (circ_read x (s_circ s))) :: s_log s -> s_circ s' = s_circ s -> s_err s' = false ->
    effect s s'
| EF_write : forall pid p v,
    s_log s' = stamped s pid (AWrite p v) :: s_log s -> s_circ s' = circ_write p v (s_circ s) -> s_err s' = false ->
    effect s s'
| EF_write_err : forall pid p v,
    s_log s' = LErr :: stamped s pid (AWrite p v) :: s_log s -> s_err s' = true -> effect s s'.

(* circuit under the bookkeeping operations *)
Definition same_circ (s s' : state) : Prop := s_circ s' = s_circ s.
Lemma cont_states_circ : forall pid s1 s', cont_states pid s1 s' -> s_circ s' = s_circ s1.
Proof. intros pid s1 s' [->| ->]; reflexivity. Qed.
Lemma fold_enqueue_circ : forall (js : list (nat * nat * Q)) s,
  s_circ (fold_left (fun st j => match j with (jp, k, t0) => enqueue (TWake jp (WkJoin k) (ghost0 t0)) st end) js s) = s_circ s.
Proof. induction js as [|[[jp k] t0] r IH]; intro s; simpl; [reflexivity | rewrite IH; reflexivity]. Qed.
Lemma suspend_waitclk_circ : forall cfg pid c ph s, s_circ (suspend_waitclk cfg pid c ph s) = s_circ s.
Proof. intros. unfold suspend_waitclk, fresh_id. destruct (eff_clk cfg c); reflexivity. Qed.

(* a step that logs one quiet entry and leaves the circuit alone *)
Lemma quiet_one : forall s s0 s' pid a,
  same_lg s s0 -> same_ctl s s0 -> s_circ s0 = s_circ s ->
  same_lg (log_proc pid a s0) s' -> s_circ s' = s_circ (log_proc pid a s0) ->
  halted s = false -> quiet_action a -> effect s s'.
Proof.
  intros s s0 s' pid a (L0 & E0 & O0) (C1 & C2 & C3 & C4) Ci0 (L1 & E1 & O1) Ci1 H Qa.
  pose proof (halted_false_err s H) as He.
  apply (EF_quiet s s' [stamped s pid a]).
  - rewrite L1, log_proc_log by congruence. unfold stamped. rewrite C1, C2, C3, C4, L0. reflexivity.
  - rewrite Ci1. unfold log_proc. rewrite add_log_circ. exact Ci0.
  - rewrite E1, log_proc_err. congruence.
  - constructor; [|constructor]. exists pid, a. split; [reflexivity | exact Qa].
Qed.

Ltac quiet_tac := split; intros; discriminate.

Lemma frame_step_effect : forall cfg f s s', frame_step cfg f s s' -> halted s = false -> effect s s'.
Proof.
  intros cfg f s s' F H. pose proof (halted_false_err s H) as He.
  inversion F; subst; clear F.
  - eapply (quiet_one s s _ pid AStart); try apply same_lg_refl; try apply same_ctl_refl; try reflexivity; [exact H | quiet_tac].
  - destruct (cont_states_lg _ _ _ H0) as (L & E & _).
    apply (EF_quiet s s' []); [exact L | eapply cont_states_circ; eassumption | congruence | constructor].
  - unfold finish_proc.
    eapply (quiet_one s s _ pid AEnd); try apply same_lg_refl; try apply same_ctl_refl; try reflexivity; [| | exact H | quiet_tac].
    + match goal with |- context [fold_left ?f ?js ?x] => pose proof (fold_enqueue_lg js x) as Q end.
      eapply same_lg_trans; [|exact Q]. repeat split.
    + rewrite fold_enqueue_circ. reflexivity.
  - (* read *)
    destruct (cont_states_lg _ _ _ H0) as (L & E & _). pose proof (cont_states_circ _ _ _ H0) as Ci. cbv zeta in L, E, Ci.
    apply (EF_read s s' pid x).
    + rewrite L, log_proc_log by exact He. reflexivity.
    + rewrite Ci. unfold log_proc. rewrite add_log_circ. reflexivity.
    + rewrite E, log_proc_err. exact He.
  - (* write in read-only mode *)
    apply (EF_write_err s _ pid p v); [|reflexivity].
    change (s_log (add_log LErr (log_proc pid (AWrite p v) (upd_proc pid (with_script rest) s))) = LErr :: stamped s pid (AWrite p v) :: s_log s).
    rewrite add_log_log, log_proc_err. change (s_err (upd_proc pid (with_script rest) s)) with (s_err s). rewrite He.
    rewrite log_proc_log by exact He. unfold stamped. reflexivity.
  - (* write *)
    destruct (cont_states_lg _ _ _ H1) as (L & E & _). pose proof (cont_states_circ _ _ _ H1) as Ci. cbv zeta in L, E, Ci.
    apply (EF_write s s' pid p v).
    + rewrite L. change (s_log (log_proc pid (AWrite p v) (upd_proc pid (with_script rest) s)) = stamped s pid (AWrite p v) :: s_log s).
      rewrite log_proc_log by exact He. reflexivity.
    + rewrite Ci. cbn [s_circ set_circ]. unfold log_proc. rewrite add_log_circ. reflexivity.
    + rewrite E. change (s_err (log_proc pid (AWrite p v) (upd_proc pid (with_script rest) s)) = false).
      rewrite log_proc_err. exact He.
  - cbv zeta.
    eapply (quiet_one s (upd_proc pid (with_script rest) s) _ pid (AFork sid (length (s_procs (upd_proc pid (with_script rest) s)))));
      [repeat split | repeat split | reflexivity | repeat split | reflexivity | exact H | quiet_tac].
  - eapply (quiet_one s (upd_proc pid (with_script rest) s) _ pid a);
      [repeat split | repeat split | reflexivity | apply (cont_states_lg _ _ _ H1) | apply (cont_states_circ _ _ _ H1) | exact H |].
    destruct H0; subst; quiet_tac.
  - cbv zeta.
    eapply (quiet_one s (upd_proc pid (with_script rest) s) _ pid (AJoinWait k));
      [repeat split | repeat split | reflexivity | repeat split | reflexivity | exact H | quiet_tac].
  - cbv zeta.
    eapply (quiet_one s (upd_proc pid (with_script rest) s) _ pid (ASusp (WkClk c ph) (s_nextid (upd_proc pid (with_script rest) s))));
      [repeat split | repeat split | reflexivity | apply suspend_waitclk_lg | apply suspend_waitclk_circ | exact H | quiet_tac].
  - cbv zeta.
    eapply (quiet_one s (upd_proc pid (with_script rest) s) _ pid (ASusp (WkFor q) (s_nextid (upd_proc pid (with_script rest) s))));
      [repeat split | repeat split | reflexivity | apply suspend_waitfor_lg | reflexivity | exact H | quiet_tac].
  - (* WaitChange: two entries *)
    cbv zeta. set (s0 := upd_proc pid (with_script rest) s).
    set (s1 := log_proc pid (ASusp (WkChange m) (s_nextid s0)) s0).
    assert (E1 : s_err s1 = false) by (unfold s1; rewrite log_proc_err; exact He).
    assert (C1 : same_ctl s s1) by (eapply same_ctl_trans; [|apply log_proc_ctl]; repeat split).
    destruct C1 as (C11 & C12 & C13 & C14).
    apply (EF_quiet s _ [stamped s pid (AWatch (read_mask m s1)); stamped s pid (ASusp (WkChange m) (s_nextid s0))]).
    + destruct (suspend_waitchange_lg pid m (log_watch pid m s1)) as (L & _). rewrite L.
      unfold log_watch. rewrite log_proc_log by exact E1. unfold s1 at 5. rewrite log_proc_log by exact He.
      unfold stamped. rewrite C11, C12, C13, C14. reflexivity.
    + unfold suspend_waitchange, fresh_id. simpl. unfold log_watch, log_proc. rewrite !add_log_circ. reflexivity.
    + destruct (suspend_waitchange_lg pid m (log_watch pid m s1)) as (_ & E & _). rewrite E.
      unfold log_watch. rewrite log_proc_err. exact E1.
    + constructor; [eexists _, _; split; [reflexivity | quiet_tac]|].
      constructor; [eexists _, _; split; [reflexivity | quiet_tac] | constructor].
  - cbv zeta.
    eapply (quiet_one s (upd_proc pid (with_script rest) s) _ pid (ASusp WkStable 0));
      [repeat split | repeat split | reflexivity | repeat split | reflexivity | exact H | quiet_tac].
Qed.

Lemma task_head_effect : forall t s stk s', task_head t s = (stk, s') -> halted s = false -> effect s s'.
Proof.
  intros t s stk s' E H. pose proof (halted_false_err s H) as He.
  assert (E' : s' = snd (task_head t s)) by (rewrite E; reflexivity). clear E. subst s'.
  assert (Z : effect s s) by (apply (EF_quiet s s []); [reflexivity | reflexivity | exact He | constructor]).
  destruct t as [pid|pid w g|pid n]; simpl.
  - exact Z.
  - assert (W : effect s (log_wake pid w g s)).
    { unfold log_wake.
      assert (W1 : effect s (log_proc pid (AWake w g) s)).
      { eapply (quiet_one s s _ pid (AWake w g)); try apply same_lg_refl; try apply same_ctl_refl; try reflexivity; [exact H | quiet_tac]. }
      destruct w; try exact W1.
      set (s1 := log_proc pid (AWake (WkChange mask) g) s).
      assert (E1 : s_err s1 = false) by (unfold s1; rewrite log_proc_err; exact He).
      destruct (log_proc_ctl pid (AWake (WkChange mask) g) s) as (C1 & C2 & C3 & C4). fold s1 in C1, C2, C3, C4.
      apply (EF_quiet s _ [stamped s pid (AWatch (read_mask mask s1)); stamped s pid (AWake (WkChange mask) g)]).
      - unfold log_watch. rewrite log_proc_log by exact E1. unfold s1 at 5. rewrite log_proc_log by exact He.
        unfold stamped. rewrite C1, C2, C3, C4. reflexivity.
      - unfold log_watch, s1, log_proc. rewrite !add_log_circ. reflexivity.
      - unfold log_watch. rewrite log_proc_err. exact E1.
      - constructor; [eexists _, _; split; [reflexivity | quiet_tac]|].
        constructor; [eexists _, _; split; [reflexivity | quiet_tac] | constructor]. }
    destruct (p_fiber (get_proc pid (log_wake pid w g s))); simpl; [|exact W].
    inversion W as [new L Ci Er Fa| | |]; subst.
    apply (EF_quiet s _ new); assumption.
  - destruct n; simpl; [exact Z|]. destruct (p_script (get_proc pid s)); simpl; [exact Z|].
    apply (EF_quiet s _ []); [reflexivity | reflexivity | exact He | constructor].
Qed.

(* ------------------------------------------------------------------------- *)
(** * Log functions under new entries *)

Definition inert (e : entry) : Prop :=
  match e with
  | LEdge _ _ _ _ _ _ | LReeval => False
  | LProc _ _ _ _ _ (AWrite _ _) => False
  | _ => True
  end.

Lemma regs_cons_inert : forall e l, (forall t k r a b c, e <> LEdge t k r a b c) -> regs_of_log (e :: l) = regs_of_log l.
Proof. intros e l H. destruct e; try reflexivity. exfalso. eapply H. reflexivity. Qed.
Lemma pinv_cons_nowrite : forall p e l, is_write e = false -> pinv p (e :: l) = pinv p l.
Proof. intros p e l H. destruct e; try reflexivity. destruct a; try reflexivity. discriminate. Qed.
Lemma after_cons : forall e l, e <> LReeval -> after_reeval (e :: l) = after_reeval l.
Proof. intros e l H. destruct e; try reflexivity. congruence. Qed.
Lemma since_cons : forall e l, e <> LReeval -> since_reeval (e :: l) = e :: since_reeval l.
Proof. intros e l H. destruct e; try reflexivity. congruence. Qed.

Lemma c_of_log_cons : forall e l, e <> LReeval -> c_of_log (e :: l) = c_of_log l.
Proof. intros e l H. unfold c_of_log. rewrite after_cons by exact H. reflexivity. Qed.

Lemma stamped_not_reeval : forall s pid a, stamped s pid a <> LReeval.
Proof. intros. discriminate. Qed.

(* quiet entries change none of the log functions *)
Lemma quiet_entries : forall s new l,
  Forall (fun e => exists pid a, e = stamped s pid a /\ quiet_action a) new ->
  regs_of_log (new ++ l) = regs_of_log l /\ (forall p, pinv p (new ++ l) = pinv p l) /\
  after_reeval (new ++ l) = after_reeval l /\ since_reeval (new ++ l) = new ++ since_reeval l /\
  c_of_log (new ++ l) = c_of_log l /\ Forall (fun e => is_write e = false) new.
Proof.
  intros s new l F. induction F as [|e r (pid & a & -> & Qr & Qw) Fr IH]; simpl app.
  - repeat split; try reflexivity. constructor.
  - destruct IH as (I1 & I2 & I3 & I4 & I5 & I6).
    assert (NW : is_write (stamped s pid a) = false).
    { unfold stamped, is_write. destruct a; try reflexivity. exfalso. eapply Qw. reflexivity. }
    repeat split.
    + rewrite regs_cons_inert by (intros; discriminate). exact I1.
    + intro p. rewrite pinv_cons_nowrite by exact NW. apply I2.
    + rewrite after_cons by discriminate. exact I3.
    + rewrite since_cons by discriminate. rewrite I4. reflexivity.
    + rewrite c_of_log_cons by discriminate. exact I5.
    + constructor; assumption.
Qed.

Lemma log_ok_quiet : forall two s new l,
  Forall (fun e => exists pid a, e = stamped s pid a /\ quiet_action a) new -> log_ok two l -> log_ok two (new ++ l).
Proof.
  intros two s new l F Ho. induction F as [|e r (pid & a & -> & Qr & Qw) Fr IH]; [exact Ho|].
  simpl. split; [exact IH|]. unfold stamped. destruct a; try exact I. exfalso. eapply Qr. reflexivity.
Qed.

Lemma nwb_since_nowrite : forall l, nwb l = true -> forall w, In w (since_reeval l) -> is_write w = false.
Proof.
  induction l as [|e r IH]; intros H w Hw; [destruct Hw|].
  destruct e; simpl in *; try (destruct Hw as [<-|Hw]; [reflexivity | apply IH; assumption]); try (destruct Hw; fail).
  destruct a; try discriminate; destruct Hw as [<-|Hw]; try reflexivity; apply IH; assumption.
Qed.
