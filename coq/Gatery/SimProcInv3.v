(* C19 -- invariants, part 3: the circuit state is a function of the log.
   Registers hold what the last clock edge in the log gave them; a clock edge gives a register the value its pin
   had at the last reevaluate() before the edge; pin writes that happened since that reevaluate() carry the
   stamp of the edge's own micro tick.  Consequences: what reads return, what an edge captures, and that
   BEFORE-phase writes are captured by the edge of their instant. *)
From Coq Require Import List NArith ZArith QArith Qreduction Bool Lia.
From Gatery Require Import SimProcDefs SimProcOrder SimProcSteps SimProcInv1 SimProcInv2.
Import ListNotations.
Local Close Scope Q_scope.

(* ------------------------------------------------------------------------- *)
(** * Reading the circuit state off the log (newest entry first) *)

Definition regs := (val * val * val)%type.
Definition rg_a (r : regs) : val := fst (fst r).
Definition rg_a2 (r : regs) : val := snd (fst r).
Definition rg_b (r : regs) : val := snd r.

Fixpoint regs_of_log (l : list entry) : regs :=
  match l with
  | [] => (None, None, None)
  | LEdge _ _ _ ra ra2 rb :: _ => (ra, ra2, rb)
  | _ :: r => regs_of_log r
  end.

Definition pin_eqb (a b : pinid) : bool := match a, b with PA, PA | PB, PB => true | _, _ => false end.

(* the value a pin was last set to *)
Fixpoint pinv (p : pinid) (l : list entry) : val :=
  match l with
  | [] => None
  | LProc _ _ _ _ _ (AWrite p' v) :: r => if pin_eqb p p' then Some v else pinv p r
  | _ :: r => pinv p r
  end.

(* the log as it was at the last reevaluate() *)
Fixpoint after_reeval (l : list entry) : list entry :=
  match l with
  | [] => []
  | LReeval :: r => LReeval :: r
  | _ :: r => after_reeval r
  end.
(* what has been logged since *)
Fixpoint since_reeval (l : list entry) : list entry :=
  match l with
  | [] => []
  | LReeval :: _ => []
  | e :: r => e :: since_reeval r
  end.

(* the combinational output PA xor RA as of the last reevaluate() *)
Definition c_of_log (l : list entry) : val :=
  val_xor (pinv PA (after_reeval l)) (rg_a (regs_of_log (after_reeval l))).

Definition read_log (x : sig) (l : list entry) : val :=
  match x with
  | SRA => rg_a (regs_of_log l) | SRA2 => rg_a2 (regs_of_log l) | SRB => rg_b (regs_of_log l)
  | SC => c_of_log l
  | SPA => pinv PA (after_reeval l)
  | SZ => Some 0%N
  | SCLO => option_map (fun v => N.land v 15) (c_of_log l)
  | SCHI => option_map (fun v => N.shiftr v 4) (c_of_log l)
  end.

(* register values after a flank of clock pin k, given the log before it *)
Definition edge_regs (two : bool) (k : clk) (rising : bool) (old : list entry) : regs :=
  let r := regs_of_log old in
  if rising then
    let la := pinv PA (after_reeval old) in
    let la2 := rg_a (regs_of_log (after_reeval old)) in
    let lb := pinv PB (after_reeval old) in
    match k with
    | CA => (la, la2, if two then rg_b r else lb)
    | CB => (rg_a r, rg_a2 r, if two then lb else rg_b r)
    end
  else r.

Definition is_write (e : entry) : bool := match e with LProc _ _ _ _ _ (AWrite _ _) => true | _ => false end.

(* every entry is explained by the entries before it *)
Fixpoint log_ok (two : bool) (l : list entry) : Prop :=
  match l with
  | [] => True
  | e :: old =>
    log_ok two old /\
    match e with
    | LProc _ _ _ _ _ (ARead x v) => v = read_log x old
    | LEdge t k rising ra ra2 rb =>
      (ra, ra2, rb) = edge_regs two k rising old /\
      (* pin writes not yet evaluated belong to the edge's own micro tick, which lies in phase DURING *)
      (forall w, In w (since_reeval old) -> is_write w = true ->
         exists mt ro pid a, w = LProc t DURING mt ro pid a)
    | LCommit t ra ra2 rb c => (ra, ra2, rb) = regs_of_log old /\ c = c_of_log old
    | _ => True
    end
  end.

(* ------------------------------------------------------------------------- *)
(** * Shape of queued events *)

Definition ev_shape (e : event) : Prop :=
  match e_type e with
  | ClockPinTrigger | ClockValueChange => e_phase e = DURING /\ e_mt e = 0%N
  | ResetValueChange => False
  | SimProcResume => True
  end.

(* ------------------------------------------------------------------------- *)
(** * The invariant *)

Record inv3 (two : bool) (s : state) : Prop := mk_inv3 {
  i3_shape : forall e, In e (s_queue s) -> ev_shape e;
  i3_log : log_ok two (s_log s);
  i3_state : s_err s = false ->
    (r_a (s_circ s), r_a2 (s_circ s), r_b (s_circ s)) = regs_of_log (s_log s) /\
    pi_a (s_circ s) = pinv PA (s_log s) /\ pi_b (s_circ s) = pinv PB (s_log s) /\
    lat_ra (s_circ s) = pinv PA (after_reeval (s_log s)) /\
    lat_rb (s_circ s) = pinv PB (after_reeval (s_log s)) /\
    lat_ra2 (s_circ s) = rg_a (regs_of_log (after_reeval (s_log s))) /\
    c_out (s_circ s) = c_of_log (s_log s) /\
    (forall w, In w (since_reeval (s_log s)) -> is_write w = true ->
       exists ro pid a, w = LProc (s_now s) (s_phase s) (s_mt s) ro pid a)
}.

(* ------------------------------------------------------------------------- *)
(** * Effect of one process step on circuit and log *)

Definition stamped (s : state) (pid : nat) (a : action) : entry :=
  LProc (s_now s) (s_phase s) (s_mt s) (s_readonly s) pid a.

Definition quiet_action (a : action) : Prop :=
  (forall x v, a <> ARead x v) /\ (forall p v, a <> AWrite p v).
(* [aw]: may the step log that a process has been resumed (only the head of a ready-queue task does) *)
Definition quiet_action' (aw : bool) (a : action) : Prop :=
  quiet_action a /\ (aw = false -> forall w g, a <> AWake w g).

Inductive effect (aw : bool) (s s' : state) : Prop :=
| EF_quiet : forall new,
    s_log s' = new ++ s_log s -> s_circ s' = s_circ s -> s_err s' = false ->
    Forall (fun e => exists pid a, e = stamped s pid a /\ quiet_action' aw a) new -> effect aw s s'
| EF_read : forall pid x,
    s_log s' = stamped s pid (ARead x (circ_read x (s_circ s))) :: s_log s -> s_circ s' = s_circ s -> s_err s' = false ->
    effect aw s s'
| EF_write : forall pid p v,
    s_log s' = stamped s pid (AWrite p v) :: s_log s -> s_circ s' = circ_write p v (s_circ s) -> s_err s' = false ->
    effect aw s s'
| EF_write_err : forall pid p v,
    s_log s' = LErr :: stamped s pid (AWrite p v) :: s_log s -> s_err s' = true -> effect aw s s'.

(* circuit under the bookkeeping operations *)
Definition same_circ (s s' : state) : Prop := s_circ s' = s_circ s.
Lemma cont_states_circ : forall pid s1 s', cont_states pid s1 s' -> s_circ s' = s_circ s1.
Proof. intros pid s1 s' [->| ->]; reflexivity. Qed.
Lemma fold_enqueue_circ : forall (js : list (nat * nat * Q)) s,
  s_circ (fold_left (fun st j => match j with (jp, k, t0) => enqueue (TWake jp (WkJoin k) (ghost0 t0)) st end) js s) = s_circ s.
Proof. induction js as [|[[jp k] t0] r IH]; intro s; simpl; [reflexivity | rewrite IH; reflexivity]. Qed.
Lemma suspend_waitclk_circ : forall cfg pid c ph s, s_circ (suspend_waitclk cfg pid c ph s) = s_circ s.
Proof. intros. unfold suspend_waitclk, fresh_id. destruct (eff_clk cfg c); reflexivity. Qed.

(* a step that logs one quiet entry and leaves the circuit alone *)
Lemma quiet_one : forall aw s s0 s' pid a,
  same_lg s s0 -> same_ctl s s0 -> s_circ s0 = s_circ s ->
  same_lg (log_proc pid a s0) s' -> s_circ s' = s_circ (log_proc pid a s0) ->
  halted s = false -> quiet_action' aw a -> effect aw s s'.
Proof.
  intros aw s s0 s' pid a (L0 & E0 & O0) (C1 & C2 & C3 & C4) Ci0 (L1 & E1 & O1) Ci1 H Qa.
  pose proof (halted_false_err s H) as He.
  apply (EF_quiet aw s s' [stamped s pid a]).
  - rewrite L1, log_proc_log by congruence. unfold stamped. rewrite C1, C2, C3, C4, L0. reflexivity.
  - rewrite Ci1. unfold log_proc. rewrite add_log_circ. exact Ci0.
  - rewrite E1, log_proc_err. congruence.
  - constructor; [|constructor]. exists pid, a. split; [reflexivity | exact Qa].
Qed.

Ltac quiet_tac := split; [split; intros; discriminate | intros; discriminate].

Lemma frame_step_effect : forall cfg f s s', frame_step cfg f s s' -> halted s = false -> effect false s s'.
Proof.
  intros cfg f s s' F H. pose proof (halted_false_err s H) as He.
  inversion F; subst; clear F.
  - eapply (quiet_one false s s _ pid AStart); try apply same_lg_refl; try apply same_ctl_refl; try reflexivity; [exact H | quiet_tac].
  - destruct (cont_states_lg _ _ _ H0) as (L & E & _).
    apply (EF_quiet false s s' []); [exact L | eapply cont_states_circ; eassumption | congruence | constructor].
  - unfold finish_proc.
    eapply (quiet_one false s s _ pid AEnd); try apply same_lg_refl; try apply same_ctl_refl; try reflexivity; [| | exact H | quiet_tac].
    + match goal with |- context [fold_left ?f ?js ?x] => pose proof (fold_enqueue_lg js x) as Q end.
      eapply same_lg_trans; [|exact Q]. repeat split.
    + rewrite fold_enqueue_circ. reflexivity.
  - (* read *)
    destruct (cont_states_lg _ _ _ H0) as (L & E & _). pose proof (cont_states_circ _ _ _ H0) as Ci. cbv zeta in L, E, Ci.
    apply (EF_read false s s' pid x).
    + rewrite L, log_proc_log by exact He. reflexivity.
    + rewrite Ci. unfold log_proc. rewrite add_log_circ. reflexivity.
    + rewrite E, log_proc_err. exact He.
  - (* write in read-only mode *)
    apply (EF_write_err false s _ pid p v); [|reflexivity].
    change (s_log (add_log LErr (log_proc pid (AWrite p v) (upd_proc pid (with_script rest) s))) = LErr :: stamped s pid (AWrite p v) :: s_log s).
    rewrite add_log_log, log_proc_err. change (s_err (upd_proc pid (with_script rest) s)) with (s_err s). rewrite He.
    rewrite log_proc_log by exact He. unfold stamped. reflexivity.
  - (* write *)
    destruct (cont_states_lg _ _ _ H1) as (L & E & _). pose proof (cont_states_circ _ _ _ H1) as Ci. cbv zeta in L, E, Ci.
    apply (EF_write false s s' pid p v).
    + rewrite L. change (s_log (log_proc pid (AWrite p v) (upd_proc pid (with_script rest) s)) = stamped s pid (AWrite p v) :: s_log s).
      rewrite log_proc_log by exact He. reflexivity.
    + rewrite Ci. cbn [s_circ set_circ]. unfold log_proc. rewrite add_log_circ. reflexivity.
    + rewrite E. change (s_err (log_proc pid (AWrite p v) (upd_proc pid (with_script rest) s)) = false).
      rewrite log_proc_err. exact He.
  - cbv zeta.
    eapply (quiet_one false s (upd_proc pid (with_script rest) s) _ pid (AFork sid (length (s_procs (upd_proc pid (with_script rest) s)))));
      [repeat split | repeat split | reflexivity | repeat split | reflexivity | exact H | quiet_tac].
  - eapply (quiet_one false s (upd_proc pid (with_script rest) s) _ pid a);
      [repeat split | repeat split | reflexivity | apply (cont_states_lg _ _ _ H1) | apply (cont_states_circ _ _ _ H1) | exact H |].
    destruct H0; subst; quiet_tac.
  - cbv zeta.
    eapply (quiet_one false s (upd_proc pid (with_script rest) s) _ pid (AJoinWait k));
      [repeat split | repeat split | reflexivity | repeat split | reflexivity | exact H | quiet_tac].
  - cbv zeta.
    eapply (quiet_one false s (upd_proc pid (with_script rest) s) _ pid (ASusp (WkClk c ph) (s_nextid (upd_proc pid (with_script rest) s))));
      [repeat split | repeat split | reflexivity | apply suspend_waitclk_lg | apply suspend_waitclk_circ | exact H | quiet_tac].
  - cbv zeta.
    eapply (quiet_one false s (upd_proc pid (with_script rest) s) _ pid (ASusp (WkFor q) (s_nextid (upd_proc pid (with_script rest) s))));
      [repeat split | repeat split | reflexivity | apply suspend_waitfor_lg | reflexivity | exact H | quiet_tac].
  - (* WaitChange: two entries *)
    cbv zeta. set (s0 := upd_proc pid (with_script rest) s).
    set (s1 := log_proc pid (ASusp (WkChange m) (s_nextid s0)) s0).
    assert (E1 : s_err s1 = false) by (unfold s1; rewrite log_proc_err; exact He).
    assert (C1 : same_ctl s s1) by (eapply same_ctl_trans; [|apply log_proc_ctl]; repeat split).
    destruct C1 as (C11 & C12 & C13 & C14).
    apply (EF_quiet false s _ [stamped s pid (AWatch (read_mask m s1)); stamped s pid (ASusp (WkChange m) (s_nextid s0))]).
    + destruct (suspend_waitchange_lg pid m (log_watch pid m s1)) as (L & _). rewrite L.
      unfold log_watch. rewrite log_proc_log by exact E1.
      change (s_log s1) with (s_log (log_proc pid (ASusp (WkChange m) (s_nextid s0)) s0)).
      rewrite log_proc_log by exact He.
      unfold stamped. rewrite C11, C12, C13, C14. reflexivity.
    + unfold suspend_waitchange, fresh_id. cbn [s_circ set_watches set_nextid]. unfold log_watch, s1, log_proc. rewrite !add_log_circ. reflexivity.
    + destruct (suspend_waitchange_lg pid m (log_watch pid m s1)) as (_ & E & _). rewrite E.
      unfold log_watch. rewrite log_proc_err. exact E1.
    + constructor; [eexists _, _; split; [reflexivity | quiet_tac]|].
      constructor; [eexists _, _; split; [reflexivity | quiet_tac] | constructor].
  - cbv zeta.
    eapply (quiet_one false s (upd_proc pid (with_script rest) s) _ pid (ASusp WkStable 0));
      [repeat split | repeat split | reflexivity | repeat split | reflexivity | exact H | quiet_tac].
  - cbv zeta.
    eapply (quiet_one false s (upd_proc pid (with_script rest) s) _ pid (ASusp (WkX i ph) (s_nextid (upd_proc pid (with_script rest) s))));
      [repeat split | repeat split | reflexivity | apply suspend_waitx_lg | reflexivity | exact H | quiet_tac].
Qed.

Lemma log_wake_quiet : forall pid w g s, halted s = false ->
  exists new, s_log (log_wake pid w g s) = new ++ s_log s /\ s_circ (log_wake pid w g s) = s_circ s /\
              s_err (log_wake pid w g s) = false /\
              Forall (fun e => exists pid a, e = stamped s pid a /\ quiet_action' true a) new.
Proof.
  intros pid w g s H. pose proof (halted_false_err s H) as He. unfold log_wake.
  assert (W1 : exists new, s_log (log_proc pid (AWake w g) s) = new ++ s_log s /\ s_circ (log_proc pid (AWake w g) s) = s_circ s /\
              s_err (log_proc pid (AWake w g) s) = false /\
              Forall (fun e => exists pid a, e = stamped s pid a /\ quiet_action' true a) new).
  { exists [stamped s pid (AWake w g)]. split; [apply log_proc_log; exact He|].
    split; [unfold log_proc; apply add_log_circ|]. split; [rewrite log_proc_err; exact He|].
    constructor; [eexists _, _; split; [reflexivity | quiet_tac] | constructor]. }
  destruct w; try exact W1.
  set (s1 := log_proc pid (AWake (WkChange mask) g) s).
  assert (E1 : s_err s1 = false) by (unfold s1; rewrite log_proc_err; exact He).
  destruct (log_proc_ctl pid (AWake (WkChange mask) g) s) as (C1 & C2 & C3 & C4). fold s1 in C1, C2, C3, C4.
  exists [stamped s pid (AWatch (read_mask mask s1)); stamped s pid (AWake (WkChange mask) g)].
  split; [|split; [|split]].
  - unfold log_watch. rewrite log_proc_log by exact E1.
    change (s_log s1) with (s_log (log_proc pid (AWake (WkChange mask) g) s)).
    rewrite log_proc_log by exact He.
    unfold stamped. rewrite C1, C2, C3, C4. reflexivity.
  - unfold log_watch, s1, log_proc. rewrite !add_log_circ. reflexivity.
  - unfold log_watch. rewrite log_proc_err. exact E1.
  - constructor; [eexists _, _; split; [reflexivity | quiet_tac]|].
    constructor; [eexists _, _; split; [reflexivity | quiet_tac] | constructor].
Qed.

Lemma task_head_effect : forall t s stk s', task_head t s = (stk, s') -> halted s = false -> effect true s s'.
Proof.
  intros t s stk s' E H. pose proof (halted_false_err s H) as He.
  assert (E' : s' = snd (task_head t s)) by (rewrite E; reflexivity). clear E. subst s'.
  assert (Z : effect true s s) by (apply (EF_quiet true s s []); [reflexivity | reflexivity | exact He | constructor]).
  destruct t as [pid|pid w g|pid n]; simpl.
  - exact Z.
  - destruct (log_wake_quiet pid w g s H) as (new & L & Ci & Er & Fa).
    destruct (p_fiber (get_proc pid (log_wake pid w g s))); simpl; apply (EF_quiet true s _ new); assumption.
  - destruct n; simpl; [exact Z|]. destruct (p_script (get_proc pid s)); simpl; [exact Z|].
    apply (EF_quiet true s _ []); [reflexivity | reflexivity | exact He | constructor].
Qed.

(* ------------------------------------------------------------------------- *)
(** * Log functions under new entries *)

Definition inert (e : entry) : Prop :=
  match e with
  | LEdge _ _ _ _ _ _ | LReeval => False
  | LProc _ _ _ _ _ (AWrite _ _) => False
  | _ => True
  end.

Lemma regs_cons_inert : forall e l, (forall t k r a b c, e <> LEdge t k r a b c) -> regs_of_log (e :: l) = regs_of_log l.
Proof. intros e l H. destruct e; try reflexivity. exfalso. eapply H. reflexivity. Qed.
Lemma pinv_cons_nowrite : forall p e l, is_write e = false -> pinv p (e :: l) = pinv p l.
Proof. intros p e l H. destruct e; try reflexivity. destruct a; try reflexivity. discriminate. Qed.
Lemma after_cons : forall e l, e <> LReeval -> after_reeval (e :: l) = after_reeval l.
Proof. intros e l H. destruct e; try reflexivity. congruence. Qed.
Lemma since_cons : forall e l, e <> LReeval -> since_reeval (e :: l) = e :: since_reeval l.
Proof. intros e l H. destruct e; try reflexivity. congruence. Qed.

Lemma c_of_log_cons : forall e l, e <> LReeval -> c_of_log (e :: l) = c_of_log l.
Proof. intros e l H. unfold c_of_log. rewrite after_cons by exact H. reflexivity. Qed.

Lemma stamped_not_reeval : forall s pid a, stamped s pid a <> LReeval.
Proof. intros. discriminate. Qed.

(* quiet entries change none of the log functions *)
Lemma quiet_entries : forall aw s new l,
  Forall (fun e => exists pid a, e = stamped s pid a /\ quiet_action' aw a) new ->
  regs_of_log (new ++ l) = regs_of_log l /\ (forall p, pinv p (new ++ l) = pinv p l) /\
  after_reeval (new ++ l) = after_reeval l /\ since_reeval (new ++ l) = new ++ since_reeval l /\
  c_of_log (new ++ l) = c_of_log l /\ Forall (fun e => is_write e = false) new.
Proof.
  intros aw s new l F. induction F as [|e r (pid & a & -> & (Qr & Qw) & _) Fr IH]; simpl app.
  - repeat split; try reflexivity. constructor.
  - destruct IH as (I1 & I2 & I3 & I4 & I5 & I6).
    assert (NW : is_write (stamped s pid a) = false).
    { unfold stamped, is_write. destruct a; try reflexivity. exfalso. eapply Qw. reflexivity. }
    repeat split.
    + rewrite regs_cons_inert by (intros; discriminate). exact I1.
    + intro p. rewrite pinv_cons_nowrite by exact NW. apply I2.
    + rewrite after_cons by discriminate. exact I3.
    + rewrite since_cons by discriminate. rewrite I4. reflexivity.
    + rewrite c_of_log_cons by discriminate. exact I5.
    + constructor; assumption.
Qed.

Lemma log_ok_quiet : forall aw two s new l,
  Forall (fun e => exists pid a, e = stamped s pid a /\ quiet_action' aw a) new -> log_ok two l -> log_ok two (new ++ l).
Proof.
  intros aw two s new l F Ho. induction F as [|e r (pid & a & -> & (Qr & Qw) & _) Fr IH]; [exact Ho|].
  simpl. split; [exact IH|]. unfold stamped. destruct a; try exact I. exfalso. eapply Qr. reflexivity.
Qed.

Lemma nwb_since_nowrite : forall l, nwb l = true -> forall w, In w (since_reeval l) -> is_write w = false.
Proof.
  induction l as [|e r IH]; intros H w Hw; [destruct Hw|].
  destruct e; simpl in *; try (destruct Hw as [<-|Hw]; [reflexivity | apply IH; assumption]); try (destruct Hw; fail).
  destruct a; try discriminate; destruct Hw as [<-|Hw]; try reflexivity; apply IH; assumption.
Qed.

(* ------------------------------------------------------------------------- *)
(** * Preservation *)

Definition st_part (s : state) : Prop :=
  (r_a (s_circ s), r_a2 (s_circ s), r_b (s_circ s)) = regs_of_log (s_log s) /\
  pi_a (s_circ s) = pinv PA (s_log s) /\ pi_b (s_circ s) = pinv PB (s_log s) /\
  lat_ra (s_circ s) = pinv PA (after_reeval (s_log s)) /\
  lat_rb (s_circ s) = pinv PB (after_reeval (s_log s)) /\
  lat_ra2 (s_circ s) = rg_a (regs_of_log (after_reeval (s_log s))) /\
  c_out (s_circ s) = c_of_log (s_log s) /\
  (forall w, In w (since_reeval (s_log s)) -> is_write w = true ->
     exists ro pid a, w = LProc (s_now s) (s_phase s) (s_mt s) ro pid a).

(* entries that are neither writes, nor edges, nor reevaluations *)
Definition plain (e : entry) : Prop :=
  is_write e = false /\ e <> LReeval /\ (forall t k r a b c, e <> LEdge t k r a b c).

Lemma plain_entries : forall new l, Forall plain new ->
  regs_of_log (new ++ l) = regs_of_log l /\ (forall p, pinv p (new ++ l) = pinv p l) /\
  after_reeval (new ++ l) = after_reeval l /\ since_reeval (new ++ l) = new ++ since_reeval l /\
  c_of_log (new ++ l) = c_of_log l.
Proof.
  intros new l F. induction F as [|e r (P1 & P2 & P3) Fr IH]; simpl app; [repeat split; reflexivity|].
  destruct IH as (I1 & I2 & I3 & I4 & I5). repeat split.
  - rewrite regs_cons_inert by exact P3. exact I1.
  - intro p. rewrite pinv_cons_nowrite by exact P1. apply I2.
  - rewrite after_cons by exact P2. exact I3.
  - rewrite since_cons by exact P2. rewrite I4. reflexivity.
  - rewrite c_of_log_cons by exact P2. exact I5.
Qed.

Definition same_stamp (s s' : state) : Prop := s_now s' = s_now s /\ s_phase s' = s_phase s /\ s_mt s' = s_mt s.
Lemma same_ctl_stamp : forall s s', same_ctl s s' -> same_stamp s s'.
Proof. intros s s' (C1 & C2 & C3 & _). repeat split; assumption. Qed.

Lemma st_part_plain : forall s s' new,
  st_part s -> s_log s' = new ++ s_log s -> Forall plain new -> s_circ s' = s_circ s -> same_stamp s s' -> st_part s'.
Proof.
  intros s s' new (S1 & S2 & S3 & S4 & S5 & S6 & S7 & S8) L F Ci (C1 & C2 & C3).
  destruct (plain_entries new (s_log s) F) as (I1 & I2 & I3 & I4 & I5).
  unfold st_part. rewrite L, Ci, I1, !I2, I3, I4, I5, C1, C2, C3. repeat split; try assumption.
  intros w Hw Ww. apply in_app_or in Hw. destruct Hw as [Hw|Hw]; [|apply S8; assumption].
  pose proof (proj1 (Forall_forall _ _) F w Hw) as (P1 & _). congruence.
Qed.

(* the same when the stamp changes but no write is pending *)
Lemma st_part_restamp : forall s s' new,
  st_part s -> s_log s' = new ++ s_log s -> Forall plain new -> s_circ s' = s_circ s -> nwb (s_log s) = true -> st_part s'.
Proof.
  intros s s' new (S1 & S2 & S3 & S4 & S5 & S6 & S7 & S8) L F Ci Nw.
  destruct (plain_entries new (s_log s) F) as (I1 & I2 & I3 & I4 & I5).
  unfold st_part. rewrite L, Ci, I1, !I2, I3, I4, I5. repeat split; try assumption.
  intros w Hw Ww. exfalso. apply in_app_or in Hw. destruct Hw as [Hw|Hw].
  - pose proof (proj1 (Forall_forall _ _) F w Hw) as (P1 & _). congruence.
  - pose proof (nwb_since_nowrite _ Nw w Hw). congruence.
Qed.

Lemma log_ok_plain_app : forall two new l,
  Forall (fun e => match e with LProc _ _ _ _ _ (ARead _ _) | LEdge _ _ _ _ _ _ | LCommit _ _ _ _ _ => False | _ => True end) new ->
  log_ok two l -> log_ok two (new ++ l).
Proof.
  intros two new l F Ho. induction F as [|e r He Fr IH]; [exact Ho|].
  simpl. split; [exact IH|]. destruct e; try exact I; try contradiction. destruct a; try exact I. contradiction.
Qed.

Lemma quiet_is_plain : forall aw s new,
  Forall (fun e => exists pid a, e = stamped s pid a /\ quiet_action' aw a) new -> Forall plain new.
Proof.
  intros aw s new F. eapply Forall_impl; [|exact F]. intros e (pid & a & -> & (Qr & Qw) & _).
  split; [|split; [discriminate | intros; discriminate]].
  unfold stamped, is_write. destruct a; try reflexivity. exfalso. eapply Qw. reflexivity.
Qed.

(* a process step / task head *)
Lemma inv3_effect : forall aw two s s',
  inv3 two s -> halted s = false -> effect aw s s' -> same_ctl s s' ->
  (forall e, In e (s_queue s') -> ev_shape e) -> inv3 two s'.
Proof.
  intros aw two s s' [Ish Ilg Ist] H Ef Ct Sh. pose proof (halted_false_err s H) as He. specialize (Ist He).
  destruct Ef as [new L Ci Er Fa | pid x L Ci Er | pid p v L Ci Er | pid p v L Er].
  - constructor; [exact Sh | rewrite L; eapply log_ok_quiet; eassumption |].
    intros _. eapply st_part_plain; [exact Ist | exact L | eapply quiet_is_plain; exact Fa | exact Ci | apply same_ctl_stamp; exact Ct].
  - constructor; [exact Sh | |].
    + rewrite L. simpl. split; [exact Ilg|].
      destruct Ist as (S1 & _ & _ & S4 & _ & _ & S7 & _).
      destruct x; unfold read_log, circ_read; try (rewrite <- S1; reflexivity); try exact S7; try exact S4; try reflexivity;
        rewrite S7; reflexivity.
    + intros _. eapply (st_part_plain s s' [stamped s pid (ARead x (circ_read x (s_circ s)))]); try eassumption;
        [|apply same_ctl_stamp; exact Ct].
      constructor; [|constructor]. split; [reflexivity | split; [discriminate | intros; discriminate]].
  - (* write *)
    constructor; [exact Sh | rewrite L; simpl; split; [exact Ilg | exact I] |].
    intros _. destruct Ist as (S1 & S2 & S3 & S4 & S5 & S6 & S7 & S8). destruct Ct as (C1 & C2 & C3 & _).
    unfold st_part. rewrite L, Ci.
    assert (NR : stamped s pid (AWrite p v) <> LReeval) by discriminate.
    rewrite regs_cons_inert by (intros; discriminate). rewrite !(after_cons _ _ NR), (since_cons _ _ NR), (c_of_log_cons _ _ NR).
    rewrite C1, C2, C3.
    destruct p; simpl; repeat split; try assumption.
    + intros w [<-|Hw] Ww; [eexists _, _, _; reflexivity | apply S8; assumption].
    + intros w [<-|Hw] Ww; [eexists _, _, _; reflexivity | apply S8; assumption].
  - constructor; [exact Sh | rewrite L; simpl; split; [split; [exact Ilg | exact I] | exact I] |].
    intro E. congruence.
Qed.

Lemma handle_trigger_circ_log : forall cfg e s, s_err s = false ->
  s_circ (handle_trigger cfg e s) = s_circ s /\
  s_log (handle_trigger cfg e s) = LTrigger (e_time e) (e_pin e) (e_rising e) :: s_log s.
Proof.
  intros cfg e s He. unfold handle_trigger. simpl.
  set (s0 := add_log (LTrigger (e_time e) (e_pin e) (e_rising e)) s).
  assert (C0 : s_circ s0 = s_circ s) by apply add_log_circ.
  assert (L0 : s_log s0 = LTrigger (e_time e) (e_pin e) (e_rising e) :: s_log s) by (unfold s0; rewrite add_log_log, He; reflexivity).
  destruct (e_rising e); [|split; assumption].
  assert (Q1 : forall st, s_circ (set_await (e_pin e) [] st) = s_circ st /\ s_log (set_await (e_pin e) [] st) = s_log st)
    by (intro st; destruct (e_pin e); split; reflexivity).
  destruct (Q1 (fold_left (fun st a => push_event (awaiter_event e a) st) (get_await (e_pin e) s0) s0)) as (Q1a & Q1b).
  rewrite Q1a, Q1b.
  destruct (fold_push_other (awaiter_event e) (get_await (e_pin e) s0) s0) as (_ & _ & _ & _ & _ & Lc & Ll & _).
  rewrite Lc, Ll. split; assumption.
Qed.

Lemma micro_end_circ_log : forall s, s_err s = false ->
  s_circ (micro_end s) = circ_reeval (s_circ s) /\
  exists fires, s_log (micro_end s) = LMicro (s_now s) (s_phase s) (s_mt s) :: fires ++ LReeval :: s_log s
                /\ Forall (fun e => exists p r c, e = LFire p r c) fires.
Proof.
  intros s He. unfold micro_end.
  set (s2 := reevaluate s). set (s3 := check_watches s2).
  assert (E2 : s_err s2 = false) by (unfold s2, reevaluate; rewrite add_log_err; exact He).
  assert (L2 : s_log s2 = LReeval :: s_log s) by (unfold s2, reevaluate; rewrite add_log_log; simpl; rewrite He; reflexivity).
  assert (C2 : s_circ s2 = circ_reeval (s_circ s)) by (unfold s2, reevaluate; rewrite add_log_circ; reflexivity).
  destruct (check_watches_log s2 E2) as (fs & L3 & F3). fold s3 in L3.
  destruct (check_watches_top s2) as ((T1 & T2 & T3 & _) & E3 & _). fold s3 in T1, T2, T3, E3.
  destruct (reevaluate_top s) as ((U1 & U2 & U3 & _) & _). fold s2 in U1, U2, U3.
  assert (C3 : s_circ s3 = s_circ s2).
  { unfold s3, check_watches. simpl.
    assert (G : forall l st, s_circ (fold_left (fun st w => push_event (watch_event s2 w)
                (add_log (LFire (w_pid w) (w_refs w) (map (fun x => circ_read x (s_circ s2)) (w_mask w))) st)) l st) = s_circ st).
    { induction l as [|w r IHl]; intro st; simpl; [reflexivity|]. rewrite IHl. simpl. apply add_log_circ. }
    apply G. }
  split.
  - cbn [s_circ set_mt]. rewrite add_log_circ, C3, C2. reflexivity.
  - exists fs. split; [|exact F3]. cbn [s_log set_mt]. rewrite add_log_log. rewrite E3, E2. rewrite L3, L2.
    rewrite T1, T2, T3, U1, U2, U3. reflexivity.
Qed.

Lemma fires_plain : forall fires, Forall (fun e => exists p r c, e = LFire p r c) fires -> Forall plain fires.
Proof.
  intros fires F. eapply Forall_impl; [|exact F]. intros e (p & r & c & ->).
  split; [reflexivity | split; [discriminate | intros; discriminate]].
Qed.

Section Inv.
Variable cfg : config.
Variables (procs : list script) (fiber : bool) (tb : list bool).
Notation c0 := (boot cfg procs fiber tb, @nil frame).
Notation reach := (treach cfg c0).
Notation two := (c_two cfg).

Lemma boot_inv3 : inv3 two (boot cfg procs fiber tb).
Proof.
  constructor.
  - intros e He. apply (boot_queue cfg procs fiber tb) in He. destruct He as [->|[_ ->]]; split; reflexivity.
  - unfold boot, reevaluate. rewrite add_log_log. destruct (c_two cfg); simpl; exact (conj I I).
  - intros _. unfold st_part, boot, reevaluate. rewrite add_log_log, add_log_circ.
    destruct (c_two cfg); simpl; repeat split; intros w [].
Qed.

Lemma shape_insert : forall e q, ev_shape e -> (forall x, In x q -> ev_shape x) -> forall x, In x (q_insert e q) -> ev_shape x.
Proof. intros e q He Hq x Hx. apply q_insert_in in Hx. destruct Hx as [->|Hx]; [exact He | apply Hq; exact Hx]. Qed.

Lemma reach_inv3 : forall c, reach c -> inv3 two (fst c).
Proof.
  induction 1 as [|c c' R IH T]; [exact boot_inv3|].
  pose proof IH as IH0. destruct IH as [Ish Ilg Ist].
  inv_tstep T; cbn [fst] in *.
  - (* process step *)
    pose proof (step_frame_spec _ _ _ _ _ Hsf) as F.
    pose proof (step_frame_ctl cfg f s) as C. rewrite Hsf in C. cbn [snd] in C.
    apply (inv3_effect false two s s' IH0 Hh (frame_step_effect cfg f s s' F Hh) C).
    destruct (frame_step_bk cfg f s s' F) as [Q|pid q Q|pid c ph Q|pid m Q|pid Q|pid xi ph Q]; rewrite Q; try exact Ish;
      apply shape_insert; [exact I | exact Ish | exact I | exact Ish].
  - pose proof (task_head_ctl t (set_ready r s)) as C. rewrite Hth in C. cbn [snd] in C.
    pose proof (task_head_bk t (set_ready r s)) as B. rewrite Hth in B. cbn [snd] in B. destruct B as (Q & _).
    assert (I0 : inv3 two (set_ready r s)) by (destruct IH0; constructor; assumption).
    apply (inv3_effect true two (set_ready r s) s' I0 Hh (task_head_effect t (set_ready r s) stk s' Hth Hh) C).
    rewrite Q. exact Ish.
  - (* event *)
    destruct (pop_event_queue s e s1 Hpop) as (e2 & rr & Qc & _ & _ & _ & _ & _ & Ci1 & _).
    destruct (pop_event_top _ _ _ Hpop) as (((P1 & P2 & P3 & P4) & PE & PO & PR) & PL).
    destruct (pop_event_stamp s e s1 Hpop Htm) as (St1 & St2 & St3).
    pose proof (halted_false_err s Hh) as He. specialize (Ist He).
    assert (Qin : forall x, In x (s_queue s) <-> x = e \/ In x (s_queue s1)).
    { intro x. destruct Qc as [Q|(Q & Q1 & _)]; rewrite Q; [|rewrite Q1]; simpl; intuition auto. }
    assert (She : ev_shape e) by (apply Ish; apply Qin; left; reflexivity).
    assert (Sh1 : forall x, In x (s_queue s1) -> ev_shape x) by (intros x Hx; apply Ish; apply Qin; right; exact Hx).
    assert (St0 : st_part s1).
    { unfold st_part. rewrite Ci1, PL, P1, P2, P3. exact Ist. }
    assert (He1 : s_err s1 = false) by congruence.
    unfold event_head. unfold ev_shape in She. destruct (e_type e) eqn:Ty.
    + (* trigger *)
      destruct (handle_trigger_circ_log cfg e s1 He1) as (Ci & L).
      destruct (handle_trigger_top cfg e s1) as (Ct & _).
      constructor.
      * intros x Hx. apply handle_trigger_queue in Hx. destruct Hx as [Hx|[->|[->|(_ & Hx)]]].
        -- apply Sh1; exact Hx.
        -- unfold ev_shape. simpl. exact She.
        -- unfold ev_shape. simpl. split; [apply She | reflexivity].
        -- apply in_map_iff in Hx. destruct Hx as (a & <- & _). exact I.
      * rewrite L, PL. simpl. split; [exact Ilg | exact I].
      * intros _. eapply (st_part_plain s1 _ [LTrigger (e_time e) (e_pin e) (e_rising e)]); [exact St0 | exact L | | exact Ci | apply same_ctl_stamp; exact Ct].
        constructor; [|constructor]. split; [reflexivity | split; [discriminate | intros; discriminate]].
    + (* resume *)
      constructor; [exact Sh1 | simpl; rewrite PL; exact Ilg | intros _; exact St0].
    + (* value change *)
      destruct She as (Sp & Sm).
      unfold handle_value_change.
      set (s2 := if e_rising e then set_circ (circ_advance two (e_pin e) (s_circ s1)) s1 else s1).
      assert (E2 : s_err s2 = false) by (unfold s2; destruct (e_rising e); exact He1).
      assert (L2 : s_log s2 = s_log s1) by (unfold s2; destruct (e_rising e); reflexivity).
      assert (N2 : s_now s2 = s_now s1 /\ s_phase s2 = s_phase s1 /\ s_mt s2 = s_mt s1) by (unfold s2; destruct (e_rising e); repeat split).
      destruct N2 as (N21 & N22 & N23).
      assert (Q2 : s_queue s2 = s_queue s1) by (unfold s2; destruct (e_rising e); reflexivity).
      destruct St0 as (S1 & S2 & S3 & S4 & S5 & S6 & S7 & S8).
      inversion S1 as [[R1 R2 R3]].
      assert (Regs : (r_a (s_circ s2), r_a2 (s_circ s2), r_b (s_circ s2)) = edge_regs two (e_pin e) (e_rising e) (s_log s1)).
      { unfold s2, edge_regs. destruct (e_rising e); [|exact S1].
        rewrite <- S1. unfold rg_a, rg_a2, rg_b. simpl fst. simpl snd.
        destruct (e_pin e); simpl; rewrite ?S4, ?S5, ?S6; reflexivity. }
      assert (Oth : pi_a (s_circ s2) = pi_a (s_circ s1) /\ pi_b (s_circ s2) = pi_b (s_circ s1) /\
                    lat_ra (s_circ s2) = lat_ra (s_circ s1) /\ lat_rb (s_circ s2) = lat_rb (s_circ s1) /\
                    lat_ra2 (s_circ s2) = lat_ra2 (s_circ s1) /\ c_out (s_circ s2) = c_out (s_circ s1)).
      { unfold s2. destruct (e_rising e); [destruct (e_pin e)|]; repeat split. }
      destruct Oth as (O1 & O2 & O3 & O4 & O5 & O6).
      set (ent := LEdge (s_now s2) (e_pin e) (e_rising e) (r_a (s_circ s2)) (r_a2 (s_circ s2)) (r_b (s_circ s2))).
      assert (L3 : s_log (add_log ent s2) = ent :: s_log s1) by (rewrite add_log_log, E2, L2; reflexivity).
      assert (NR : ent <> LReeval) by discriminate.
      constructor.
      * intros x Hx. apply Sh1. rewrite <- Q2. destruct (add_log_bk ent s2) as (Qa & _). rewrite <- Qa. exact Hx.
      * rewrite L3. simpl. split; [rewrite PL; exact Ilg|]. split; [exact Regs|].
        intros w Hw Ww. destruct (S8 w Hw Ww) as (ro & pid & a & ->).
        assert (Pd : s_phase s1 = DURING) by congruence.
        rewrite N21, Pd. eexists _, _, _, _. reflexivity.
      * intros _. unfold st_part. rewrite L3, add_log_circ.
        rewrite (after_cons _ _ NR), (since_cons _ _ NR), (c_of_log_cons _ _ NR).
        assert (PV : forall p, pinv p (ent :: s_log s1) = pinv p (s_log s1)) by (intro p; reflexivity).
        rewrite !PV, O1, O2, O3, O4, O5, O6.
        destruct (add_log_ctl ent s2) as (A1 & A2 & A3 & _). rewrite A1, A2, A3, N21, N22, N23.
        repeat split; try assumption.
        intros w [<-|Hw] Ww; [discriminate | apply S8; assumption].
    + destruct She.
  - (* end of micro tick *)
    pose proof (halted_false_err s Hh) as He. specialize (Ist He).
    destruct (micro_end_circ_log s He) as (Ci & fires & L & Ff).
    constructor.
    + intros x Hx. apply micro_end_queue in Hx. destruct Hx as [Hx|Hx]; [apply Ish; exact Hx|].
      apply in_map_iff in Hx. destruct Hx as (w & <- & _). exact I.
    + rewrite L. change (LMicro (s_now s) (s_phase s) (s_mt s) :: fires ++ LReeval :: s_log s)
        with ((LMicro (s_now s) (s_phase s) (s_mt s) :: fires) ++ LReeval :: s_log s).
      apply log_ok_plain_app; [|simpl; split; [exact Ilg | exact I]].
      constructor; [exact I|]. eapply Forall_impl; [|exact Ff]. intros e (p & r & c & ->). exact I.
    + intros _. destruct Ist as (S1 & S2 & S3 & S4 & S5 & S6 & S7 & S8).
      assert (Pl : Forall plain (LMicro (s_now s) (s_phase s) (s_mt s) :: fires)).
      { constructor; [split; [reflexivity | split; [discriminate | intros; discriminate]] | apply fires_plain; exact Ff]. }
      destruct (plain_entries (LMicro (s_now s) (s_phase s) (s_mt s) :: fires) (LReeval :: s_log s) Pl) as (I1 & I2 & I3 & I4 & I5).
      unfold st_part. rewrite L, Ci.
      change (LMicro (s_now s) (s_phase s) (s_mt s) :: fires ++ LReeval :: s_log s)
        with ((LMicro (s_now s) (s_phase s) (s_mt s) :: fires) ++ LReeval :: s_log s).
      rewrite I1, !I2, I3, I4, I5.
      inversion S1 as [[R1 R2 R3]].
      simpl. unfold c_of_log. simpl. unfold rg_a. rewrite <- S1. simpl. rewrite <- S2, <- S3.
      repeat split; try assumption; try reflexivity.
      intros w Hw Ww. exfalso. rewrite app_nil_r in Hw. pose proof (proj1 (Forall_forall _ _) Pl w Hw) as (P1 & _). congruence.
  - (* phase begin *)
    pose proof (halted_false_err s Hh) as He. specialize (Ist He).
    destruct (phase_begin_bk ph s) as (Q & _).
    assert (L : s_log (phase_begin ph s) = [LPhase (s_now s) ph] ++ s_log s).
    { unfold phase_begin. rewrite add_log_log. simpl. rewrite He. reflexivity. }
    constructor.
    + rewrite Q. exact Ish.
    + rewrite L. simpl. split; [exact Ilg | exact I].
    + intros _. eapply st_part_restamp; [exact Ist | exact L | | | exact Hnw].
      * constructor; [|constructor]. split; [reflexivity | split; [discriminate | intros; discriminate]].
      * unfold phase_begin. rewrite add_log_circ. reflexivity.
  - (* commit begin *)
    constructor; [exact Ish | exact Ilg | exact Ist].
  - constructor; [exact Ish | exact Ilg | exact Ist].
  - (* commit end *)
    pose proof (halted_false_err s Hh) as He. specialize (Ist He).
    destruct (commit_end_bk s) as (Q & _).
    set (ent := LCommit (s_now s) (r_a (s_circ s)) (r_a2 (s_circ s)) (r_b (s_circ s)) (c_out (s_circ s))).
    assert (L : s_log (commit_end s) = [ent] ++ s_log s).
    { unfold commit_end. cbn [s_log set_readonly]. rewrite add_log_log, He. reflexivity. }
    constructor.
    + rewrite Q. exact Ish.
    + rewrite L. simpl. split; [exact Ilg|]. destruct Ist as (S1 & _ & _ & _ & _ & _ & S7 & _). split; assumption.
    + intros _. eapply (st_part_plain s _ [ent]); [exact Ist | exact L | | | ].
      * constructor; [|constructor]. split; [reflexivity | split; [discriminate | intros; discriminate]].
      * unfold commit_end. cbn [s_circ set_readonly]. apply add_log_circ.
      * unfold commit_end. destruct (add_log_ctl ent s) as (A1 & A2 & A3 & _). repeat split; assumption.
  - (* set time *)
    pose proof (halted_false_err s Hh) as He. specialize (Ist He).
    constructor; [exact Ish | exact Ilg |].
    intros _. eapply (st_part_restamp s _ []); [exact Ist | reflexivity | constructor | reflexivity | exact Hnw].
  - pose proof (halted_false_err s Hh) as He. specialize (Ist He).
    constructor; [exact Ish | exact Ilg |].
    intros _. eapply (st_part_restamp s _ []); [exact Ist | reflexivity | constructor | reflexivity | exact Hnw].
  - constructor; [exact Ish | exact Ilg | exact Ist].
  - constructor; [exact Ish | exact Ilg | exact Ist].
  - (* fiber start *)
    unfold fiber_start in Hfs.
    assert (E' : s' = snd (fiber_continue pid (log_proc pid AStart s))) by (rewrite Hfs; reflexivity).
    pose proof (fiber_continue_cont pid (log_proc pid AStart s)) as Cs. rewrite <- E' in Cs.
    apply (inv3_effect false two s s' IH0 Hh).
    + eapply (quiet_one false s s s' pid AStart); try apply same_lg_refl; try apply same_ctl_refl; try reflexivity;
        [apply (cont_states_lg _ _ _ Cs) | apply (cont_states_circ _ _ _ Cs) | exact Hh | quiet_tac].
    + eapply same_ctl_trans; [apply log_proc_ctl | apply (cont_states_ctl _ _ _ Cs)].
    + destruct (cont_states_bk _ _ _ Cs) as (Q & _). rewrite Q. destruct (log_proc_bk pid AStart s) as (Q' & _). rewrite Q'. exact Ish.
  - (* reevaluate *)
    pose proof (halted_false_err s Hh) as He. specialize (Ist He).
    destruct (reevaluate_bk s) as (Q & _).
    assert (L : s_log (reevaluate s) = LReeval :: s_log s) by (unfold reevaluate; rewrite add_log_log; simpl; rewrite He; reflexivity).
    assert (Ci : s_circ (reevaluate s) = circ_reeval (s_circ s)) by (unfold reevaluate; rewrite add_log_circ; reflexivity).
    constructor.
    + rewrite Q. exact Ish.
    + rewrite L. simpl. split; [exact Ilg | exact I].
    + intros _. destruct Ist as (S1 & S2 & S3 & S4 & S5 & S6 & S7 & S8).
      unfold st_part. rewrite L, Ci. inversion S1 as [[R1 R2 R3]].
      simpl. unfold c_of_log. simpl. unfold rg_a. rewrite <- S1. simpl. rewrite <- S2, <- S3.
      repeat split; try assumption; try reflexivity. intros w [].
Qed.

End Inv.

(* ------------------------------------------------------------------------- *)
(** * Consequences for complete runs (the log of the final state, newest entry first) *)

Lemma log_ok_suffix : forall two pre l, log_ok two (pre ++ l) -> log_ok two l.
Proof. induction pre as [|e r IH]; intros l H; [exact H|]. simpl in H. apply IH. tauto. Qed.

Lemma run_inv3 : forall cfg procs fiber until tb fuel, inv3 (c_two cfg) (run cfg procs fiber until tb fuel).
Proof.
  intros. destruct (run_reachable cfg procs fiber until tb fuel) as (stk & R).
  exact (reach_inv3 cfg procs fiber tb _ R).
Qed.

(* what a read returns: the register values established by the most recent clock edge in the log, resp. the
   combinational value of the most recent reevaluate() *)
Lemma reads_see_last_edge_proof : forall cfg procs fiber until tb fuel pre t ph mt ro pid x v old,
  s_log (run cfg procs fiber until tb fuel) = pre ++ LProc t ph mt ro pid (ARead x v) :: old ->
  v = read_log x old.
Proof.
  intros cfg procs fiber upto tb fuel pre t ph mt ro pid x v old E.
  pose proof (i3_log _ _ (run_inv3 cfg procs fiber upto tb fuel)) as L. rewrite E in L.
  apply log_ok_suffix in L. simpl in L. tauto.
Qed.

(* what a clock flank does: on the activating (rising) flank every register of the clock's domain takes the value
   its data input had at the last reevaluate() before the flank; all other registers keep their value; and every
   pin write that has not been evaluated yet was made in phase DURING of this very instant *)
Lemma edge_semantics_proof : forall cfg procs fiber until tb fuel pre t k rising ra ra2 rb old,
  s_log (run cfg procs fiber until tb fuel) = pre ++ LEdge t k rising ra ra2 rb :: old ->
  (ra, ra2, rb) = edge_regs (c_two cfg) k rising old /\
  (forall w, In w (since_reeval old) -> is_write w = true -> exists mt ro pid a, w = LProc t DURING mt ro pid a).
Proof.
  intros cfg procs fiber upto tb fuel pre t k rising ra ra2 rb old E.
  pose proof (i3_log _ _ (run_inv3 cfg procs fiber upto tb fuel)) as L. rewrite E in L.
  apply log_ok_suffix in L. simpl in L. tauto.
Qed.

Lemma since_reeval_no_reeval : forall mid rest, ~ In LReeval mid -> since_reeval (mid ++ rest) = mid ++ since_reeval rest.
Proof.
  induction mid as [|e r IH]; intros rest H; [reflexivity|]. simpl app.
  rewrite since_cons by (intro E; apply H; left; exact E). rewrite IH by (intro X; apply H; right; exact X). reflexivity.
Qed.

Lemma in_dec_reeval : forall l, In LReeval l \/ ~ In LReeval l.
Proof.
  induction l as [|e r [IH|IH]]; [right; intros [] | left; right; exact IH |].
  destruct e; try (right; intros [X|X]; [discriminate | contradiction]). left. left. reflexivity.
Qed.

(* a pin write made in phase BEFORE (or AFTER) is followed by a reevaluate() before the next clock flank *)
Lemma write_outside_during_evaluated_proof : forall cfg procs fiber until tb fuel pre t k rising ra ra2 rb mid tw phw mtw ro pid p v old,
  s_log (run cfg procs fiber until tb fuel) = pre ++ LEdge t k rising ra ra2 rb :: mid ++ LProc tw phw mtw ro pid (AWrite p v) :: old ->
  phw <> DURING -> In LReeval mid.
Proof.
  intros cfg procs fiber upto tb fuel pre t k rising ra ra2 rb mid tw phw mtw ro pid p v old E Hp.
  destruct (edge_semantics_proof cfg procs fiber upto tb fuel pre t k rising ra ra2 rb _ E) as (_ & Ctx).
  destruct (in_dec_reeval mid) as [Y|N]; [exact Y|]. exfalso.
  rewrite since_reeval_no_reeval in Ctx by exact N.
  destruct (Ctx (LProc tw phw mtw ro pid (AWrite p v))) as (mt' & ro' & pid' & a' & Eq); [|reflexivity|].
  - apply in_or_app. right. simpl. left. reflexivity.
  - inversion Eq. congruence.
Qed.

(* the log as of the last reevaluate(), when one lies within [mid] *)
Lemma after_reeval_in_mid : forall mid rest, In LReeval mid ->
  exists m1 m2, mid = m1 ++ LReeval :: m2 /\ after_reeval (mid ++ rest) = LReeval :: m2 ++ rest.
Proof.
  induction mid as [|e r IH]; intros rest H; [destruct H|].
  destruct e; try (destruct H as [X|H]; [discriminate|];
                   destruct (IH rest H) as (m1 & m2 & -> & A); eexists (_ :: m1), m2; split; [reflexivity | exact A]).
  exists [], r. split; reflexivity.
Qed.

Lemma pinv_app_nowrite : forall p m rest, (forall t ph mt ro pid v, ~ In (LProc t ph mt ro pid (AWrite p v)) m) ->
  pinv p (m ++ rest) = pinv p rest.
Proof.
  induction m as [|e r IH]; intros rest H; [reflexivity|]. simpl app.
  assert (Hr : forall t ph mt ro pid v, ~ In (LProc t ph mt ro pid (AWrite p v)) r) by (intros; intro X; eapply H; right; exact X).
  destruct e; simpl; try (apply IH; exact Hr). destruct a; try (apply IH; exact Hr).
  destruct (pin_eqb p p0) eqn:Ep; [|apply IH; exact Hr].
  exfalso. assert (p = p0) by (destruct p, p0; try discriminate; reflexivity). subst p0. eapply H. left. reflexivity.
Qed.

(* BEFORE: the value written is what the register holds after the edge (unless written again before the edge) *)
Lemma before_write_captured_proof : forall cfg procs fiber until tb fuel pre t k ra ra2 rb mid tw mtw ro pid p v old,
  s_log (run cfg procs fiber until tb fuel) = pre ++ LEdge t k true ra ra2 rb :: mid ++ LProc tw BEFORE mtw ro pid (AWrite p v) :: old ->
  (forall t' ph' mt' ro' pid' v', ~ In (LProc t' ph' mt' ro' pid' (AWrite p v')) mid) ->
  match p, k with
  | PA, CA => ra = Some v
  | PB, CB => c_two cfg = true -> rb = Some v
  | PB, CA => c_two cfg = false -> rb = Some v
  | PA, CB => True
  end.
Proof.
  intros cfg procs fiber upto tb fuel pre t k ra ra2 rb mid tw mtw ro pid p v old E Nw.
  pose proof (write_outside_during_evaluated_proof cfg procs fiber upto tb fuel pre t k true ra ra2 rb mid tw BEFORE mtw ro pid p v old E) as Hr.
  specialize (Hr ltac:(discriminate)).
  destruct (edge_semantics_proof cfg procs fiber upto tb fuel pre t k true ra ra2 rb _ E) as (Rg & _).
  destruct (after_reeval_in_mid mid (LProc tw BEFORE mtw ro pid (AWrite p v) :: old) Hr) as (m1 & m2 & -> & A).
  unfold edge_regs in Rg. rewrite A in Rg.
  assert (Pv : pinv p (LReeval :: m2 ++ LProc tw BEFORE mtw ro pid (AWrite p v) :: old) = Some v).
  { simpl. rewrite pinv_app_nowrite.
    - simpl. destruct p; reflexivity.
    - intros t' ph' mt' ro' pid' v' X. eapply Nw. apply in_or_app. right. right. exact X. }
  destruct p, k; try exact I; inversion Rg; subst.
  - exact Pv.
  - intro T. rewrite T. exact Pv.
  - intro T. rewrite T. exact Pv.
Qed.
