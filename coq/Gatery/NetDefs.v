(* Circuits and their cycle semantics (single clock pin, rising edge), DESIGN.md 3.4.

   A netlist is a list of nodes in EVALUATION ORDER; a driver is (position, port).
   Sources (input pins, register outputs) read the stimulus / the register state;
   combinational nodes are evaluated with NodeSemDefs.eval from the values of
   earlier positions ([topo_ok] checks that); register inputs and output pins are
   read from the complete valuation.

   One simulated clock cycle = the event list the real simulator processed between
   two sampling points (E = rising edge: every register latches DATA/ENABLE from
   the valuation under the PREVIOUS inputs and advances; R b = reset line changed)
   followed by the evaluation under the new inputs.  Definitions only. *)
From Coq Require Import List Bool Arith Lia.
From Gatery Require Import Bits NodeSemDefs NodeSemReg.
Import ListNotations.

Inductive nkind :=
| NComb (k : node_kind)
| NPinIn (w : nat) (ord : nat)        (* ord-th input pin of the design *)
| NPinOut (w : nat)                   (* inputs: driver (, output enable) *)
| NReg (c : reg_cfg) (ord : nat)      (* ord-th register; inputs DATA, RESET_VALUE, ENABLE *)
| NOpaque (ws : list nat).            (* unsupported node: outputs undefined *)

Record node := mk_node { n_kind : nkind; n_ins : list (option (nat * nat)) }.
Definition netlist := list node.

(* observable register state: output value and the in-reset flag.  INT_DATA /
   INT_ENABLE are overwritten at every edge before they are read, so they are not state. *)
Record rstate := mk_rstate { r_out : bv; r_in_reset : bool }.
Definition state := list rstate.        (* indexed by register ordinal *)

Definition vals := list (list bv).      (* position -> output port values *)

Definition lookup (v : vals) (d : option (nat * nat)) : option bv :=
  match d with
  | None => None
  | Some (pos, port) => Some (nth port (nth pos v []) [])
  end.

Definition reg_cfgs (nl : netlist) : list (nat * reg_cfg) :=
  flat_map (fun n => match n_kind n with NReg c ord => [(ord, c)] | _ => [] end) nl.

Definition node_outputs (st : state) (ins : list bv) (v : vals) (n : node) : list bv :=
  match n_kind n with
  | NComb k => eval k (map (lookup v) (n_ins n))
  | NPinIn w ord => [bv_resize w (nth ord ins [])]
  | NPinOut _ => []
  | NReg c ord => [bv_resize (rc_width c) (r_out (nth ord st (mk_rstate [] false)))]
  | NOpaque ws => map all_X ws
  end.

(* the valuation: fold in evaluation order *)
Definition comb_eval (nl : netlist) (st : state) (ins : list bv) : vals :=
  fold_left (fun v n => v ++ [node_outputs st ins v n]) nl [].

(* drivers of combinational nodes must be earlier positions *)
Definition drv_before (i : nat) (d : option (nat * nat)) : bool :=
  match d with None => true | Some (p, _) => p <? i end.

Fixpoint topo_from (i : nat) (nl : netlist) : bool :=
  match nl with
  | [] => true
  | n :: r =>
      (match n_kind n with
       | NComb _ => forallb (drv_before i) (n_ins n)
       | _ => true
       end) && topo_from (S i) r
  end.
Definition topo_ok (nl : netlist) : bool := topo_from 0 nl.

(* values shown at the output pins, in netlist order *)
Definition outputs (nl : netlist) (v : vals) : list bv :=
  flat_map (fun n => match n_kind n with
                     | NPinOut w => [match lookup v (nth 0 (n_ins n) None) with
                                     | Some x => bv_resize w x
                                     | None => all_X w end]
                     | _ => [] end) nl.

(* --- registers: one clock edge / reset change, built from NodeSemReg --- *)
Definition to_reg_state (c : reg_cfg) (s : rstate) : reg_state :=
  mk_reg_state (all_X (rc_width c)) BX (r_in_reset s) (r_out s).
Definition of_reg_state (s : reg_state) : rstate := mk_rstate (rs_out s) (rs_in_reset s).

Definition reg_edge (c : reg_cfg) (data enable : option bv) (s : rstate) : rstate :=
  of_reg_state (reg_advance c (reg_latch c data enable (to_reg_state c s))).
Definition reg_rst (c : reg_cfg) (high : bool) (s : rstate) : rstate :=
  of_reg_state (reg_reset c high (to_reg_state c s)).
Definition reg_pon (c : reg_cfg) : rstate :=
  of_reg_state (reg_poweron c (reg_init c)).

(* new state of register `ord`, found by scanning the netlist for its node *)
Fixpoint reg_node (nl : netlist) (ord : nat) : option (reg_cfg * list (option (nat * nat))) :=
  match nl with
  | [] => None
  | n :: r => match n_kind n with
              | NReg c o => if o =? ord then Some (c, n_ins n) else reg_node r ord
              | _ => reg_node r ord
              end
  end.

Definition nregs (nl : netlist) : nat :=
  length (reg_cfgs nl).

Definition edge (nl : netlist) (st : state) (ins : list bv) : state :=
  let v := comb_eval nl st ins in
  map (fun ord =>
         let s := nth ord st (mk_rstate [] false) in
         match reg_node nl ord with
         | Some (c, i) => reg_edge c (lookup v (nth 0 i None)) (lookup v (nth 2 i None)) s
         | None => s
         end) (seq 0 (length st)).

Definition reset_change (nl : netlist) (high : bool) (st : state) : state :=
  map (fun ord =>
         let s := nth ord st (mk_rstate [] false) in
         match reg_node nl ord with
         | Some (c, _) => reg_rst c high s
         | None => s
         end) (seq 0 (length st)).

Definition power_on (nl : netlist) : state :=
  map (fun ord => match reg_node nl ord with
                  | Some (c, _) => reg_pon c
                  | None => mk_rstate [] false end) (seq 0 (nregs nl)).

Inductive event := EvEdge | EvReset (high : bool).

(* events between two sampling points; the edge latches under the previous inputs *)
Definition apply_event (nl : netlist) (prev_ins : list bv) (st : state) (e : event) : state :=
  match e with
  | EvEdge => edge nl st prev_ins
  | EvReset h => reset_change nl h st
  end.
Definition apply_events (nl : netlist) (prev_ins : list bv) (st : state) (evs : list event) : state :=
  fold_left (apply_event nl prev_ins) evs st.

(* a schedule: event lists of the first cycles, then [steady] for ever *)
Record schedule := mk_sched { sc_prefix : list (list event); sc_steady : list event }.
Definition sched_at (sc : schedule) (t : nat) : list event := nth t (sc_prefix sc) (sc_steady sc).

(* state in which cycle t is sampled, and the pin values shown in cycle t *)
Fixpoint state_at (nl : netlist) (sc : schedule) (sigma : nat -> list bv) (t : nat) : state :=
  match t with
  | O => apply_events nl [] (power_on nl) (sched_at sc 0)
  | S t' => apply_events nl (sigma t') (state_at nl sc sigma t') (sched_at sc t)
  end.
Definition vals_at nl sc sigma t : vals := comb_eval nl (state_at nl sc sigma t) (sigma t).
Definition out_at nl sc sigma t : list bv := outputs nl (vals_at nl sc sigma t).

(* every value of a valuation defined *)
Definition vals_def (v : vals) : bool := forallb (forallb all_def) v.
Definition ins_def (ins : list bv) : bool := forallb all_def ins.
