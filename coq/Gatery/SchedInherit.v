(* C04 -- inheritance of unset ClockConfig fields by derived clocks (frontend Clock::deriveClock /
   applyConfig on top of hlim::DerivedClock's constructor): every attribute of every clock is the nearest
   explicitly set value up the derivation chain, else the default. *)
From Coq Require Import QArith Lia.
Require Import Gatery.Bits.
Require Import Gatery.SchedDefs.
Import ListNotations.
Local Close Scope Q_scope.

(* a clock is derived from a clock created before it *)
Definition configs_wf (ccs : list clock_config) : Prop :=
  forall i cc p, nth_error ccs i = Some cc -> cc_parent cc = Some p -> p < i.

Lemma resolve_snoc pre cc :
  resolve_clocks (pre ++ [cc]) = resolve_clocks pre ++ [resolve_one (resolve_clocks pre) cc].
Proof. unfold resolve_clocks. rewrite fold_left_app. reflexivity. Qed.

Lemma resolve_length ccs : length (resolve_clocks ccs) = length ccs.
Proof.
  induction ccs as [|cc pre IH] using rev_ind; [reflexivity|].
  rewrite resolve_snoc, !app_length, IH. reflexivity.
Qed.

Section Attr.
  Context {A : Type} (get : clock_config -> option A) (field : clock -> A) (dflt : A).
  Hypothesis field_resolve : forall acc cc,
    field (resolve_one acc cc) =
    inh (get cc) (option_map field (match cc_parent cc with Some p => nth_error acc p | None => None end)) dflt.

  Lemma effective_f_fuel ccs : configs_wf ccs -> forall f1 f2 i, i < f1 -> i < f2 ->
    effective_f get dflt ccs f1 i = effective_f get dflt ccs f2 i.
  Proof.
    intro Hwf. induction f1 as [|a IH]; intros f2 i H1 H2; [lia|].
    destruct f2 as [|b]; [lia|]. simpl.
    destruct (nth_error ccs i) as [cc|] eqn:E; [|reflexivity].
    destruct (get cc); [reflexivity|].
    destruct (cc_parent cc) as [p|] eqn:Hp; [|reflexivity].
    specialize (Hwf i cc p E Hp). apply IH; lia.
  Qed.

  Lemma resolve_prefix ccs : configs_wf ccs -> forall pre rest, ccs = pre ++ rest ->
    forall i c, nth_error (resolve_clocks pre) i = Some c -> field c = effective get dflt ccs i.
  Proof.
    intro Hwf. induction pre as [|cc pre IH] using rev_ind; intros rest E i c Hn.
    - destruct i; discriminate.
    - rewrite resolve_snoc in Hn.
      assert (Hlen : length (resolve_clocks pre) = length pre) by apply resolve_length.
      destruct (Nat.lt_ge_cases i (length pre)) as [Hi|Hi].
      + rewrite nth_error_app1 in Hn by lia.
        apply (IH (cc :: rest)); [rewrite E, <- app_assoc; reflexivity | exact Hn].
      + rewrite nth_error_app2 in Hn by lia. rewrite Hlen in Hn.
        destruct (i - length pre) as [|k] eqn:Ek; [|destruct k; discriminate].
        assert (i = length pre) by lia. subst i. simpl in Hn. inversion Hn; subst c; clear Hn.
        rewrite field_resolve. unfold effective.
        assert (Hcc : nth_error ccs (length pre) = Some cc).
        { rewrite E, <- app_assoc. rewrite nth_error_app2 by lia. rewrite Nat.sub_diag. reflexivity. }
        assert (Hn : length pre < length ccs) by (apply nth_error_Some; congruence).
        destruct (length ccs) as [|f] eqn:El; [lia|]. simpl. rewrite Hcc.
        unfold inh. destruct (get cc); [reflexivity|].
        destruct (cc_parent cc) as [p|] eqn:Hp; [|reflexivity].
        pose proof (Hwf _ _ _ Hcc Hp) as Hlt.
        destruct (nth_error (resolve_clocks pre) p) as [cp|] eqn:Ecp.
        * simpl. rewrite (IH (cc :: rest) (eq_trans E (eq_sym (app_assoc pre [cc] rest))) p cp Ecp).
          unfold effective. rewrite El. apply effective_f_fuel; [exact Hwf | lia | lia].
        * exfalso. apply nth_error_None in Ecp. lia.
  Qed.

  (* resolve_clocks (what constructor + applyConfig compute, clock by clock) = the effective value *)
  Theorem resolve_effective ccs i c :
    configs_wf ccs -> nth_error (resolve_clocks ccs) i = Some c -> field c = effective get dflt ccs i.
  Proof. intros Hwf H. apply (resolve_prefix ccs Hwf ccs [] (eq_sym (app_nil_r ccs)) i c H). Qed.

  (* "nearest explicitly set value up the derivation chain, else the default" *)
  Inductive nearest (ccs : list clock_config) : nat -> A -> Prop :=
  | near_set i cc v : nth_error ccs i = Some cc -> get cc = Some v -> nearest ccs i v
  | near_up i cc p v : nth_error ccs i = Some cc -> get cc = None -> cc_parent cc = Some p ->
                       nearest ccs p v -> nearest ccs i v
  | near_root i cc : nth_error ccs i = Some cc -> get cc = None -> cc_parent cc = None -> nearest ccs i dflt.

  Lemma effective_f_nearest ccs : configs_wf ccs -> forall fuel i, i < fuel -> i < length ccs ->
    nearest ccs i (effective_f get dflt ccs fuel i).
  Proof.
    intro Hwf. induction fuel as [|f IH]; intros i Hi Hl; [lia|]. simpl.
    destruct (nth_error ccs i) as [cc|] eqn:E.
    2:{ apply nth_error_None in E. lia. }
    destruct (get cc) as [v|] eqn:G; [eapply near_set; eassumption|].
    destruct (cc_parent cc) as [p|] eqn:Hp; [|eapply near_root; eassumption].
    pose proof (Hwf _ _ _ E Hp). eapply near_up; try eassumption. apply IH; lia.
  Qed.

  Theorem effective_nearest ccs i : configs_wf ccs -> i < length ccs -> nearest ccs i (effective get dflt ccs i).
  Proof. intros Hwf Hi. apply effective_f_nearest; auto. Qed.

  Theorem nearest_unique ccs i v w : nearest ccs i v -> nearest ccs i w -> v = w.
  Proof.
    intro H. revert w. induction H as [i cc v E G | i cc p v E G Hp Hn IH | i cc E G Hp]; intros w Hw;
      inversion Hw; subst; try congruence.
    apply IH. congruence.
  Qed.
End Attr.

(* instances: every inherited attribute of every clock created through the frontend *)
Theorem resolved_attributes ccs i c :
  configs_wf ccs -> nth_error (resolve_clocks ccs) i = Some c ->
  ck_name c = effective cc_name 0%N ccs i /\
  ck_rstname c = effective cc_rstname 0%N ccs i /\
  ck_trig c = effective cc_trig RISING ccs i /\
  ck_phasesync c = effective cc_phasesync true ccs i /\
  ck_rst c = effective cc_rst RST_SYNC ccs i /\
  ck_active_high c = effective cc_active_high true ccs i /\
  ck_initregs c = effective cc_initregs true ccs i.
Proof.
  intros Hwf H. repeat split.
  - apply (resolve_effective cc_name ck_name 0%N); auto.
  - apply (resolve_effective cc_rstname ck_rstname 0%N); auto.
  - apply (resolve_effective cc_trig ck_trig RISING); auto.
  - apply (resolve_effective cc_phasesync ck_phasesync true); auto.
  - apply (resolve_effective cc_rst ck_rst RST_SYNC); auto.
  - apply (resolve_effective cc_active_high ck_active_high true); auto.
  - apply (resolve_effective cc_initregs ck_initregs true); auto.
Qed.

(* not inherited: parent link, frequency / multiplier (an unset multiplier is 1), minimum reset time / cycles *)
Theorem resolved_own_fields ccs i c cc :
  nth_error (resolve_clocks ccs) i = Some c -> nth_error ccs i = Some cc ->
  ck_parent c = cc_parent cc /\ ck_freq c = match cc_freq cc with Some f => f | None => 1%Q end /\
  ck_minrsttime c = cc_minrsttime cc /\ ck_minrstcycles c = cc_minrstcycles cc.
Proof.
  revert i c cc. induction ccs as [|x pre IH] using rev_ind; intros i c cc Hc Hcc.
  - destruct i; discriminate.
  - rewrite resolve_snoc in Hc. pose proof (resolve_length pre) as Hl.
    destruct (Nat.lt_ge_cases i (length pre)) as [Hi|Hi].
    + rewrite nth_error_app1 in Hc by lia. rewrite nth_error_app1 in Hcc by lia. eapply IH; eassumption.
    + rewrite nth_error_app2 in Hc by lia. rewrite nth_error_app2 in Hcc by lia. rewrite Hl in Hc.
      destruct (i - length pre) as [|k]; [|destruct k; discriminate].
      simpl in *. inversion Hc; inversion Hcc; subst. repeat split; reflexivity.
Qed.

(* the seeded defect's shape: active-low parent, derived clock that does not mention resetActive *)
Example inherit_ex :
  let ccs := [ mk_clock_config None (Some 3%Q) (Some 0%N) (Some 0%N) (Some FALLING) None (Some RST_ASYNC) (Some false) None 0%Q 0%N;
               mk_clock_config (Some 0) None None None None None None None None 0%Q 0%N;
               mk_clock_config (Some 1) (Some 2%Q) (Some 5%N) None (Some RISING) None (Some RST_SYNC) None (Some false) 0%Q 0%N ] in
  map (fun c => (ck_trig c, ck_rst c, ck_active_high c, ck_initregs c, ck_name c, ck_freq c)) (resolve_clocks ccs) =
  [ (FALLING, RST_ASYNC, false, true, 0%N, 3%Q); (FALLING, RST_ASYNC, false, true, 0%N, 1%Q);
    (RISING, RST_SYNC, false, false, 5%N, 2%Q) ].
Proof. vm_compute. reflexivity. Qed.
