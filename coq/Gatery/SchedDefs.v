(* C04 -- model of clocks, clock pins, the reference simulator's event schedule for clock /
   reset pins and the two-phase register update.  Definitions only (no proofs); total,
   computable, extracted as it stands (coq/extract/Extract_C04.v).

   Sources followed (gatery, /repo/source/gatery):
     hlim/Clock.cpp                       absoluteFrequency, inheritsClockPinSource, getClockPinSource,
                                          inheritsResetPinSource, getResetPinSource,
                                          getMinResetTime, getMinResetCycles
     hlim/postprocessing/ClockPinAllocation.cpp   determineRelevantClocks, extractClockPins
     simulation/ReferenceSimulator.cpp    powerOn, advanceMicroTick (clockPinTrigger / clockValueChange /
                                          resetValueChange / simProcResume), handleCurrentTimeStep,
                                          advanceEvent, simulationProcessSuspending(WaitFor)
     simulation/ReferenceSimulator.h      struct Event, Event::operator<   (REGENERATED: gen/EventOrder.v)
     hlim/coreNodes/Node_Register.cpp     simulatePowerOn, simulateResetChange, simulateEvaluate,
                                          simulateAdvance, writeResetValueTo

   Time is Coq's Q (exact).  boost::rational<uint64_t> is exact as long as nothing overflows;
   overflow is outside the model.  Every sum is normalised with Qred like boost::rational does, so
   the numbers printed by the extracted model are the reduced fractions the simulator prints. *)
From Coq Require Import QArith Qreduction.
Require Import Gatery.Bits.
Require Import Gatery.gen.EventOrder.
Import ListNotations.
Local Close Scope Q_scope.

(* ------------------------------------------------------------------------- *)
(** * Generic list helpers *)

Fixpoint mapi_aux {A B} (f : nat -> A -> B) (i : nat) (l : list A) : list B :=
  match l with [] => [] | x :: t => f i x :: mapi_aux f (S i) t end.
Definition mapi {A B} (f : nat -> A -> B) (l : list A) : list B := mapi_aux f 0 l.

(* in-place update of element i (no effect when i is out of range) *)
Fixpoint upd {A} (i : nat) (f : A -> A) (l : list A) : list A :=
  match l, i with
  | [], _ => []
  | x :: t, O => f x :: t
  | x :: t, S j => x :: upd j f t
  end.

(* ------------------------------------------------------------------------- *)
(** * Exact rational helpers *)

Definition Qmax (a b : Q) : Q := if Qle_bool b a then a else b.      (* std::max(a,b) = (a<b)?b:a *)
Definition Qzero : Q := 0%Q.
Definition Qis_zero (q : Q) : bool := Qeq_bool q 0%Q.
Definition Q_of_N (n : N) : Q := inject_Z (Z.of_N n).
(* hlim::ceil(v) = (num + den - 1) / den   (v >= 0) *)
Definition qceil_N (q : Q) : N := Z.to_N ((Qnum q + Zpos (Qden q) - 1) / Zpos (Qden q)).

(* ------------------------------------------------------------------------- *)
(** * Clocks (hlim::Clock, RootClock, DerivedClock) *)

Inductive trigger := RISING | FALLING | RISING_AND_FALLING.
Inductive rstkind := RST_SYNC | RST_ASYNC | RST_NONE.

Record clock := mk_clock {
  ck_parent : option nat;        (* None: RootClock.  Some p: DerivedClock of clock number p (p < own number) *)
  ck_freq : Q;                   (* root: m_frequency; derived: m_parentRelativeMultiplicator *)
  ck_name : N; ck_rstname : N;   (* m_name / m_resetName, only ever compared for equality *)
  ck_trig : trigger;
  ck_phasesync : bool;
  ck_rst : rstkind; ck_active_high : bool; ck_initregs : bool;
  ck_minrsttime : Q; ck_minrstcycles : N }.

Definition default_clock : clock :=
  mk_clock None 1%Q 0%N 0%N RISING true RST_NONE true true 0%Q 0%N.

Definition get_clock (cs : list clock) (i : nat) : clock := nth i cs default_clock.

(* ------------------------------------------------------------------------- *)
(** * frontend ClockConfig: optional fields and their inheritance (frontend/Clock.cpp, hlim/Clock.cpp) *)

(* What the user writes: gtry::ClockConfig.  None = std::optional left unset. *)
Record clock_config := mk_clock_config {
  cc_parent : option nat;             (* None: Clock(config) root clock; Some p: clock p .deriveClock(config) *)
  cc_freq : option Q;                 (* absoluteFrequency (root, mandatory) / frequencyMultiplier (derived) *)
  cc_name : option N; cc_rstname : option N;
  cc_trig : option trigger;
  cc_phasesync : option bool;
  cc_rst : option rstkind; cc_active_high : option bool; cc_initregs : option bool;
  cc_minrsttime : Q; cc_minrstcycles : N }.   (* hlim::Clock::setMinResetTime / setMinResetCycles, not part of ClockConfig *)

(* gtry::Clock::applyConfig: `if (config.x) attribute = *config.x;` on top of what the constructor left there *)
Definition inh {A} (set : option A) (from_parent : option A) (dflt : A) : A :=
  match set with
  | Some v => v
  | None => match from_parent with Some v => v | None => dflt end
  end.

(* One clock being created, `acc` = the hlim clocks created so far.
   hlim::Clock::Clock(): name "clk", resetName "reset", RISING, phaseSynchronousWithParent = true; RegisterAttributes{}:
   resetType SYNCHRONOUS, initializeRegs true, resetActive HIGH.
   hlim::DerivedClock(parent): copies m_name, m_resetName, m_triggerEvent, m_phaseSynchronousWithParent and the
   register attributes from the parent; m_parentRelativeMultiplicator = 1 (NOT inherited).
   Then applyConfig overrides exactly the fields that are set. *)
Definition resolve_one (acc : list clock) (cc : clock_config) : clock :=
  let par := match cc_parent cc with Some p => nth_error acc p | None => None end in
  mk_clock (cc_parent cc)
           (match cc_freq cc with Some f => f | None => 1%Q end)
           (inh (cc_name cc) (option_map ck_name par) 0%N)
           (inh (cc_rstname cc) (option_map ck_rstname par) 0%N)
           (inh (cc_trig cc) (option_map ck_trig par) RISING)
           (inh (cc_phasesync cc) (option_map ck_phasesync par) true)
           (inh (cc_rst cc) (option_map ck_rst par) RST_SYNC)
           (inh (cc_active_high cc) (option_map ck_active_high par) true)
           (inh (cc_initregs cc) (option_map ck_initregs par) true)
           (cc_minrsttime cc) (cc_minrstcycles cc).

(* the clocks of a design in creation order *)
Definition resolve_clocks (ccs : list clock_config) : list clock :=
  fold_left (fun acc cc => acc ++ [resolve_one acc cc]) ccs [].

(* the effective value of one attribute: the nearest explicitly set value up the derivation chain, else the default *)
Fixpoint effective_f {A} (get : clock_config -> option A) (dflt : A) (ccs : list clock_config)
         (fuel : nat) (i : nat) : A :=
  match nth_error ccs i with
  | None => dflt
  | Some cc =>
    match get cc with
    | Some v => v
    | None => match cc_parent cc, fuel with
              | Some p, S f => effective_f get dflt ccs f p
              | _, _ => dflt
              end
    end
  end.
Definition effective {A} (get : clock_config -> option A) (dflt : A) (ccs : list clock_config) (i : nat) : A :=
  effective_f get dflt ccs (length ccs) i.

Definition trigger_eqb (a b : trigger) : bool :=
  match a, b with RISING, RISING | FALLING, FALLING | RISING_AND_FALLING, RISING_AND_FALLING => true | _, _ => false end.
Definition rstkind_eqb (a b : rstkind) : bool :=
  match a, b with RST_SYNC, RST_SYNC | RST_ASYNC, RST_ASYNC | RST_NONE, RST_NONE => true | _, _ => false end.

(* DerivedClock::absoluteFrequency = parent->absoluteFrequency() * multiplicator *)
Fixpoint absfreq_f (cs : list clock) (fuel : nat) (i : nat) : Q :=
  let c := get_clock cs i in
  match ck_parent c, fuel with
  | Some p, S f => Qred (absfreq_f cs f p * ck_freq c)
  | _, _ => ck_freq c
  end.
Definition absfreq (cs : list clock) (i : nat) : Q := absfreq_f cs (length cs) i.

(* Clock::inheritsClockPinSource (self-driven clocks only; logic-driven clocks are not modelled).
   NOTE: the trigger edge is not part of the test. *)
Definition inherits_pin (cs : list clock) (i : nat) : bool :=
  let c := get_clock cs i in
  match ck_parent c with
  | None => false
  | Some p => N.eqb (ck_name (get_clock cs p)) (ck_name c)
              && Qeq_bool (absfreq cs p) (absfreq cs i)
              && ck_phasesync c
  end.

(* Clock::getClockPinSource *)
Fixpoint pinsrc_f (cs : list clock) (fuel : nat) (i : nat) : nat :=
  if inherits_pin cs i then
    match ck_parent (get_clock cs i), fuel with
    | Some p, S f => pinsrc_f cs f p
    | _, _ => i
    end
  else i.
Definition pinsrc (cs : list clock) (i : nat) : nat := pinsrc_f cs (length cs) i.

(* Clock::inheritsResetPinSource / getResetPinSource (nullptr = None):
     own reset type NONE -> no reset pin;  no parent -> self;
     parent's reset type NONE -> self ("a parent without reset has no reset pin to inherit", repair dd54172;
       before it such a derived clock got a null reset pin source);
     (not self-driven -> self: logic-driven resets are not modelled);  reset names differ -> self;
     otherwise the parent's source *)
Definition inherits_rst (cs : list clock) (i : nat) : bool :=
  let c := get_clock cs i in
  match ck_rst c, ck_parent c with
  | RST_NONE, _ => false
  | _, None => false
  | _, Some p =>
    match ck_rst (get_clock cs p) with
    | RST_NONE => false
    | _ => N.eqb (ck_rstname (get_clock cs p)) (ck_rstname c)
    end
  end.
Fixpoint rstsrc_f (cs : list clock) (fuel : nat) (i : nat) : option nat :=
  let c := get_clock cs i in
  match ck_rst c with
  | RST_NONE => None
  | _ => if inherits_rst cs i then
           match ck_parent c, fuel with
           | Some p, S f => rstsrc_f cs f p
           | _, _ => Some i
           end
         else Some i
  end.
Definition rstsrc (cs : list clock) (i : nat) : option nat := rstsrc_f cs (length cs) i.

(* a is j or an ancestor of j *)
Fixpoint is_anc_f (cs : list clock) (fuel : nat) (a j : nat) : bool :=
  Nat.eqb a j ||
  match ck_parent (get_clock cs j), fuel with
  | Some p, S f => is_anc_f cs f a p
  | _, _ => false
  end.
Definition is_anc (cs : list clock) (a j : nat) : bool := is_anc_f cs (length cs) a j.

Definition children (cs : list clock) (i : nat) : list nat :=
  filter (fun j => match ck_parent (get_clock cs j) with Some p => Nat.eqb p i | None => false end)
         (seq 0 (length cs)).

(* ------------------------------------------------------------------------- *)
(** * Registers and the whole configuration *)

Record reg := mk_reg {
  rg_clk : nat;
  rg_width : nat;
  rg_rstval : option bv }.       (* RESET_VALUE input: None = unconnected, Some v = constant v *)

Definition default_reg : reg := mk_reg 0 0 None.

Record config := mk_config {
  cfg_clocks : list clock;
  cfg_regs : list reg;
  cfg_inputs : list (nat * nat);           (* input pins: (width, clock the pin is attached to); undefined until a process drives them *)
  cfg_order : list nat;                    (* register numbers in the order in which clocked nodes are visited *)
  cfg_rstev : list (Q * nat * bool);       (* additional resetValueChange events: time, reset pin (its source clock), newResetHigh *)
  cfg_stim : list (Q * list (nat * bv)) }. (* one simulation process: WaitFor until time t, then drive input pins *)

Definition get_reg (cfg : config) (r : nat) : reg := nth r (cfg_regs cfg) default_reg.
Definition reg_clock (cfg : config) (r : nat) : clock := get_clock (cfg_clocks cfg) (rg_clk (get_reg cfg r)).

(* !m_clockedNodes.empty(): registers, and input pins created inside a ClockScope (Node_Pin::setClockDomain) *)
Definition has_nodes (cfg : config) (i : nat) : bool :=
  existsb (fun r => Nat.eqb (rg_clk r) i) (cfg_regs cfg)
  || existsb (fun p => Nat.eqb (snd p) i) (cfg_inputs cfg).

(* determineRelevantClocks: drives a node, or one of its (transitively) derived clocks does *)
Definition relevant (cfg : config) (i : nat) : bool :=
  existsb (fun j => has_nodes cfg j && is_anc (cfg_clocks cfg) i j) (seq 0 (length (cfg_clocks cfg))).

(* extractClockPins: one clock pin per distinct getClockPinSource() of the relevant clocks, one reset pin
   per distinct non-null getResetPinSource().  Pins are identified by their source clock. *)
Definition clock_pins (cfg : config) : list nat :=
  filter (fun i => relevant cfg i && Nat.eqb (pinsrc (cfg_clocks cfg) i) i) (seq 0 (length (cfg_clocks cfg))).
Definition reset_pins (cfg : config) : list nat :=
  filter (fun i => relevant cfg i &&
                   match rstsrc (cfg_clocks cfg) i with Some s => Nat.eqb s i | None => false end)
         (seq 0 (length (cfg_clocks cfg))).

(* Clock::getMinResetTime (recursive over derived clocks) *)
Fixpoint min_reset_time_f (cfg : config) (fuel : nat) (i : nat) : Q :=
  let cs := cfg_clocks cfg in
  let c := get_clock cs i in
  let own := if rstkind_eqb (ck_rst c) RST_ASYNC && has_nodes cfg i
             then Qmax (ck_minrsttime c) (Qred (1 / absfreq cs i)) else ck_minrsttime c in
  match fuel with
  | O => own
  | S f => fold_left (fun acc d => Qmax acc (min_reset_time_f cfg f d)) (children cs i) own
  end.
Definition min_reset_time (cfg : config) (i : nat) : Q := min_reset_time_f cfg (length (cfg_clocks cfg)) i.

(* Clock::getMinResetCycles: ceil(d->getMinResetCycles() / d->getFrequencyMuliplier()) per derived clock *)
Fixpoint min_reset_cycles_f (cfg : config) (fuel : nat) (i : nat) : N :=
  let cs := cfg_clocks cfg in
  let c := get_clock cs i in
  let own := if rstkind_eqb (ck_rst c) RST_SYNC && has_nodes cfg i
             then N.max (ck_minrstcycles c) 1 else ck_minrstcycles c in
  match fuel with
  | O => own
  | S f => fold_left (fun acc d =>
             N.max acc (qceil_N (Q_of_N (min_reset_cycles_f cfg f d) / ck_freq (get_clock cs d))))
             (children cs i) own
  end.
Definition min_reset_cycles (cfg : config) (i : nat) : N := min_reset_cycles_f cfg (length (cfg_clocks cfg)) i.

(* ReferenceSimulator::powerOn:  minTime = max(minResetTime, minResetCycles / f(reset pin source)) *)
Definition reset_hold_time (cfg : config) (s : nat) : Q :=
  Qmax (min_reset_time cfg s)
       (Qred (Q_of_N (min_reset_cycles cfg s) / absfreq (cfg_clocks cfg) s)).

(* ------------------------------------------------------------------------- *)
(** * The schedule of clock-pin / reset / process events (m_nextEvents restricted to hardware events) *)

Record pinstate := mk_pin {
  ps_clk : nat;             (* the pin's source clock *)
  ps_half : Q;              (* ClockRational(1,2) / pin->absoluteFrequency() *)
  ps_next : Q;              (* timeOfEvent of the one pending clockPinTrigger event of this pin *)
  ps_next_rising : bool;    (* its risingEdge flag *)
  ps_count : N }.           (* ghost: number of events of this pin processed so far *)

Definition half_period (f : Q) : Q := Qred ((1 # 2) / f).

(* powerOn: cs.high = (trigger == RISING); first event at 0 + 1/(2f) with risingEdge = !cs.high *)
Definition pin_init (cfg : config) (p : nat) : pinstate :=
  let cs := cfg_clocks cfg in
  let h := half_period (absfreq cs p) in
  let high := trigger_eqb (ck_trig (get_clock cs p)) RISING in
  mk_pin p h (Qred (0 + h)) (negb high) 0.

(* processing clockPinTrigger: risingEdge flips, timeOfEvent += 1/(2f), microTick = 0, pushed again *)
Definition pin_rearm (p : pinstate) : pinstate :=
  mk_pin (ps_clk p) (ps_half p) (Qred (ps_next p + ps_half p)) (negb (ps_next_rising p)) (N.succ (ps_count p)).

Record sched := mk_sched {
  sc_now : Q;
  sc_pins : list pinstate;
  sc_rst : list (Q * nat * bool);                 (* pending resetValueChange events *)
  sc_stim : list (Q * N * list (nat * bv)) }.     (* pending process resumptions: time, insertionId, pin writes *)

(* release events scheduled by powerOn (only for a non-zero hold time) *)
Definition poweron_releases (cfg : config) : list (Q * nat * bool) :=
  flat_map (fun s =>
    let t := reset_hold_time cfg s in
    if Qis_zero t then []
    else [(Qred (0 + t), s, negb (ck_active_high (get_clock (cfg_clocks cfg) s)))])
    (reset_pins cfg).

Fixpoint number_stims (k : N) (l : list (Q * list (nat * bv))) : list (Q * N * list (nat * bv)) :=
  match l with
  | [] => []
  | (t, w) :: r => (t, k, w) :: number_stims (N.succ k) r
  end.

(* stimulus entries at time 0 are executed when the process starts (inside powerOn), the others
   are WaitFor resumptions; insertion ids count the WaitFor calls *)
Definition stim_at_zero (cfg : config) : list (Q * list (nat * bv)) :=
  filter (fun e => Qis_zero (fst e)) (cfg_stim cfg).
Definition stim_later (cfg : config) : list (Q * list (nat * bv)) :=
  filter (fun e => negb (Qis_zero (fst e))) (cfg_stim cfg).

Definition sched_init (cfg : config) : sched :=
  mk_sched 0%Q (map (pin_init cfg) (clock_pins cfg))
           (poweron_releases cfg ++ cfg_rstev cfg)
           (number_stims 0 (stim_later cfg)).

Definition qmin_opt (a : option Q) (t : Q) : option Q :=
  match a with
  | None => Some t
  | Some x => if Qle_bool x t then Some x else Some t
  end.

(* timeOfEvent of m_nextEvents.top() *)
Definition next_time (s : sched) : option Q :=
  let a := fold_left (fun a p => qmin_opt a (ps_next p)) (sc_pins s) None in
  let b := fold_left (fun a e => qmin_opt a (fst (fst e))) (sc_rst s) a in
  fold_left (fun a e => qmin_opt a (fst (fst e))) (sc_stim s) b.

Definition mk_cvc (t : Q) (p : pinstate) : event :=
  mk_event clockValueChange t default_microtick default_phase 0 (ps_clk p) (ps_next_rising p).
Definition mk_rvc (t : Q) (e : Q * nat * bool) : event :=
  mk_event resetValueChange t default_microtick default_phase 0 (snd (fst e)) (snd e).
(* simulationProcessSuspending(WaitFor): phase AFTER, microTick 0 (the wait is never zero) *)
Definition mk_spr (t : Q) (e : Q * N * list (nat * bv)) : event :=
  mk_event simProcResume t 0 AFTER (snd (fst e)) (N.to_nat (snd (fst e))) false.

Record instant_events := mk_iev {
  ie_time : Q;
  ie_clk : list (nat * bool * N);     (* pins whose clockPinTrigger fires: source clock, risingEdge, ghost index k *)
  ie_events : list event }.           (* what advanceMicroTick will find for this time (besides clockPinTrigger) *)

(* one advanceEvent() as far as m_nextEvents is concerned: take the earliest time, collect every event
   of that time; each firing clock pin is re-armed half a period later *)
Definition sched_step (s : sched) : option (sched * instant_events) :=
  match next_time s with
  | None => None
  | Some t =>
    let fired := filter (fun p => Qeq_bool (ps_next p) t) (sc_pins s) in
    let pins' := map (fun p => if Qeq_bool (ps_next p) t then pin_rearm p else p) (sc_pins s) in
    let rnow := filter (fun e => Qeq_bool (fst (fst e)) t) (sc_rst s) in
    let rlater := filter (fun e => negb (Qeq_bool (fst (fst e)) t)) (sc_rst s) in
    let snow := filter (fun e => Qeq_bool (fst (fst e)) t) (sc_stim s) in
    let slater := filter (fun e => negb (Qeq_bool (fst (fst e)) t)) (sc_stim s) in
    Some (mk_sched t pins' rlater slater,
          mk_iev t (map (fun p => (ps_clk p, ps_next_rising p, N.succ (ps_count p))) fired)
                 (map (mk_cvc t) fired ++ map (mk_rvc t) rnow ++ map (mk_spr t) snow))
  end.

(* ------------------------------------------------------------------------- *)
(** * Node_Register *)

Record rstate := mk_rstate {
  r_out : bv;          (* output 0 (OUTPUT_LATCHED) *)
  r_latD : bv;         (* INT_DATA *)
  r_latEN : tbit;      (* INT_ENABLE *)
  r_inrst : bool }.    (* INT_IN_RESET (VALUE plane only) *)

(* Node_Register::writeResetValueTo(state, {INT_DATA, output}, width, clearDefinedIfUnconnected) *)
Definition write_reset_value (rg : reg) (clear_if_unconnected : bool) (s : rstate) : rstate :=
  match rg_rstval rg with
  | None => if clear_if_unconnected
            then mk_rstate (all_X (rg_width rg)) (all_X (rg_width rg)) (r_latEN s) (r_inrst s)
            else s
  | Some v => mk_rstate v v (r_latEN s) (r_inrst s)
  end.

(* the cleared state vector of powerOn() *)
Definition rstate_cleared (rg : reg) : rstate := mk_rstate (all_X (rg_width rg)) (all_X (rg_width rg)) BX false.

(* Node_Register::simulatePowerOn -- initializeRegs is NOT consulted (the test is commented out in the source) *)
Definition reg_power_on (rg : reg) (s : rstate) : rstate :=
  let s1 := write_reset_value rg true s in
  mk_rstate (r_out s1) (r_latD s1) (r_latEN s1) false.

(* Node_Register::simulateResetChange *)
Definition reg_in_reset (c : clock) (rg : reg) (resetHigh : bool) : bool :=
  xorb resetHigh (negb (ck_active_high c)) && match rg_rstval rg with Some _ => true | None => false end.
Definition reg_reset_change (c : clock) (rg : reg) (resetHigh : bool) (s : rstate) : rstate :=
  let inr := reg_in_reset c rg resetHigh in
  let s1 := mk_rstate (r_out s) (r_latD s) (r_latEN s) inr in
  if inr && rstkind_eqb (ck_rst c) RST_ASYNC then write_reset_value rg false s1 else s1.

(* Node_Register::simulateEvaluate: latch DATA and ENABLE (unconnected DATA = undefined, unconnected ENABLE = '1') *)
Definition reg_latch (rg : reg) (de : option bv * option tbit) (s : rstate) : rstate :=
  mk_rstate (r_out s)
            (match fst de with Some v => v | None => all_X (rg_width rg) end)
            (match snd de with Some e => e | None => B1 end)
            (r_inrst s).

(* Node_Register::simulateAdvance *)
Definition reg_advance (c : clock) (rg : reg) (s : rstate) : rstate :=
  if r_inrst s then
    (if rstkind_eqb (ck_rst c) RST_SYNC then write_reset_value rg false s else s)
  else
    match r_latEN s with
    | BX => mk_rstate (all_X (rg_width rg)) (r_latD s) (r_latEN s) (r_inrst s)
    | B1 => mk_rstate (r_latD s) (r_latD s) (r_latEN s) (r_inrst s)
    | B0 => s
    end.

(* ------------------------------------------------------------------------- *)
(** * The ENABLE of a register created through the frontend inside nested scopes
      (frontend/EnableScope.cpp, ConditionalScope.cpp, Reg.cpp) *)

(* four-state AND / NOT of Node_Logic (AND: a defined 0 dominates) *)
Definition and3 (a b : tbit) : tbit :=
  match a, b with
  | B0, _ | _, B0 => B0
  | B1, B1 => B1
  | _, _ => BX
  end.
Definition not3 (a : tbit) : tbit := match a with B0 => B1 | B1 => B0 | BX => BX end.

(* one enclosing scope, with the current VALUE of its condition *)
Inductive scope :=
| SC_EN (c : tbit)        (* ENIF(c) *)
| SC_ALWAYS               (* ENALWAYS *)
| SC_IF (c : tbit)        (* IF(c) *)
| SC_ELSE (c : tbit).     (* the ELSE branch of IF(c) *)

(* `own condition AND full condition of the parent scope`; no parent: the own condition *)
Definition and_parent (own : tbit) (parent_full : option tbit) : tbit :=
  match parent_full with Some p => and3 own p | None => own end.

(* (m_fullEnableCondition of the innermost EnableScope, m_fullCondition of the innermost ConditionalScope) *)
Definition scope_state := (option tbit * option tbit)%type.

Definition scope_step (st : scope_state) (s : scope) : scope_state :=
  let (en, cond) := st in
  match s with
  | SC_EN c => (Some (and_parent c en), cond)                 (* EnableScope::setEnable(c, checkParent = true) *)
  | SC_ALWAYS => (Some B1, cond)                              (* setEnable('1', checkParent = false) *)
  | SC_IF c => let cf := and_parent c cond in                 (* ConditionalScope::setCondition, then m_enScope.setup(full) *)
               (Some (and_parent cf en), Some cf)
  | SC_ELSE c => let cf := and_parent (not3 c) cond in
                 (Some (and_parent cf en), Some cf)
  end.

(* the scopes from the outermost to the innermost; result: what internal::reg connects to ENABLE
   (None: no scope at all, the input stays unconnected = always enabled) *)
Definition scope_enable (stack : list scope) : option tbit :=
  fst (fold_left scope_step stack (None, None)).

(* ------------------------------------------------------------------------- *)
(** * The data part of the simulator state and one time instant *)

Record data := mk_data { d_regs : list rstate; d_inputs : list bv }.

(* the combinational network between registers: from register outputs and input pins to the (DATA, ENABLE)
   drivers of register r.  It is a parameter: everything below holds for every network. *)
Definition network := list bv -> list bv -> nat -> option bv * option tbit.

(* ReferenceSimulator::reevaluate as seen by the registers *)
Definition latch (cfg : config) (comb : network) (d : data) : data :=
  let outs := map r_out (d_regs d) in
  mk_data (mapi (fun r s => reg_latch (get_reg cfg r) (comb outs (d_inputs d) r) s) (d_regs d)) (d_inputs d).

(* visit the clocked nodes in the order the simulator happens to use, updating the state vector in place *)
Definition apply_regs (order : list nat) (f : nat -> rstate -> rstate) (regs : list rstate) : list rstate :=
  fold_left (fun rs r => upd r (f r) rs) order regs.

Definition edge_matches (t : trigger) (rising : bool) : bool :=
  match t with RISING_AND_FALLING => true | RISING => rising | FALLING => negb rising end.

(* register r belongs to a domain of clock pin `pin` that activates on this edge *)
Definition hit (cfg : config) (pin : nat) (rising : bool) (r : nat) : bool :=
  Nat.eqb (pinsrc (cfg_clocks cfg) (rg_clk (get_reg cfg r))) pin
  && edge_matches (ck_trig (reg_clock cfg r)) rising.

(* Event::Type::clockValueChange *)
Definition clock_value_change (cfg : config) (pin : nat) (rising : bool) (d : data) : data :=
  mk_data (apply_regs (cfg_order cfg)
             (fun r s => if hit cfg pin rising r then reg_advance (reg_clock cfg r) (get_reg cfg r) s else s)
             (d_regs d))
          (d_inputs d).

Definition on_rstpin (cfg : config) (rpin : nat) (r : nat) : bool :=
  match rstsrc (cfg_clocks cfg) (rg_clk (get_reg cfg r)) with Some s => Nat.eqb s rpin | None => false end.

(* Event::Type::resetValueChange (also used by powerOn) *)
Definition reset_value_change (cfg : config) (rpin : nat) (resetHigh : bool) (d : data) : data :=
  mk_data (apply_regs (cfg_order cfg)
             (fun r s => if on_rstpin cfg rpin r
                         then reg_reset_change (reg_clock cfg r) (get_reg cfg r) resetHigh s else s)
             (d_regs d))
          (d_inputs d).

(* a process resumes and drives input pins *)
Definition apply_stim (w : list (nat * bv)) (d : data) : data :=
  mk_data (d_regs d) (fold_left (fun ins e => upd (fst e) (fun _ => snd e) ins) w (d_inputs d)).

Definition stim_writes (cfg : config) (k : nat) : list (nat * bv) :=
  snd (nth k (stim_later cfg) (0%Q, [])).

Definition process_event (cfg : config) (e : event) (d : data) : data :=
  match ev_type e with
  | clockPinTrigger => d                                         (* handled in sched_step *)
  | clockValueChange => clock_value_change cfg (ev_idx e) (ev_flag e) d
  | resetValueChange => reset_value_change cfg (ev_idx e) (ev_flag e) d
  | simProcResume => apply_stim (stim_writes cfg (ev_idx e)) d
  end.

(* std::priority_queue<Event>: the element popped first is one that is not event_lt any other.
   Insertion sort with the REGENERATED comparison; ties keep the order of arrival (any other tie
   break gives the same result: SchedProofs.instant_order_irrelevant). *)
Fixpoint prio_insert (e : event) (l : list event) : list event :=
  match l with
  | [] => [e]
  | x :: t => if event_lt e x then x :: prio_insert e t else e :: x :: t
  end.
Definition prio_sort (l : list event) : list event := fold_right prio_insert [] l.

(* handleCurrentTimeStep, one timing phase: all events of the phase (micro tick 0), then reevaluate *)
Definition run_phase (cfg : config) (comb : network) (ph : timing_phase) (evs : list event) (d : data) : data :=
  match filter (fun e => phase_eqb (ev_phase e) ph) evs with
  | [] => d
  | es => latch cfg comb (fold_left (fun d e => process_event cfg e d) es d)
  end.

(* handleCurrentTimeStep: phases in enum order *)
Definition instant (cfg : config) (comb : network) (evs : list event) (d : data) : data :=
  let s := prio_sort evs in
  fold_left (fun d ph => run_phase cfg comb ph s d) all_phases d.

(* ------------------------------------------------------------------------- *)
(** * powerOn and the run *)

Definition data_cleared (cfg : config) : data :=
  mk_data (map rstate_cleared (cfg_regs cfg)) (map (fun p => all_X (fst p)) (cfg_inputs cfg)).

(* powerOn: assert every reset pin; "immediately disable again" when the hold time is zero: rs.resetHigh is
   flipped and the new (released) level is passed to changeReset() and onReset().
   (Until the repair recorded in KNOWN_FINDINGS.txt the code passed `!rs.resetHigh`, the asserted level, a
   second time; the branch is only reachable for reset pins without any clocked node, so only the onReset
   callback was affected.  The tie keeps such node-less reset pins among its configurations.) *)
Definition poweron_resets (cfg : config) (d : data) : data :=
  fold_left (fun d s =>
    let act := ck_active_high (get_clock (cfg_clocks cfg) s) in
    let d1 := reset_value_change cfg s act d in
    if Qis_zero (reset_hold_time cfg s)
    then (let flipped := negb act in reset_value_change cfg s flipped d1)
    else d1)
    (reset_pins cfg) d.

(* the onReset callbacks of powerOn, in order *)
Definition poweron_reset_log (cfg : config) : list (nat * bool) :=
  flat_map (fun s =>
    let act := ck_active_high (get_clock (cfg_clocks cfg) s) in
    (s, act) :: (if Qis_zero (reset_hold_time cfg s) then [(s, negb act)] else []))
    (reset_pins cfg).

Definition power_on (cfg : config) (comb : network) : data :=
  let d0 := data_cleared cfg in
  let d1 := mk_data (mapi (fun r s => reg_power_on (get_reg cfg r) s) (d_regs d0)) (d_inputs d0) in
  let d2 := poweron_resets cfg d1 in
  let d3 := latch cfg comb d2 in
  (* processes start and run up to their first WaitFor *)
  let d4 := fold_left (fun d e => apply_stim (snd e) d) (stim_at_zero cfg) d3 in
  latch cfg comb d4.

Record instant_log := mk_log {
  lg_time : Q;
  lg_clk : list (nat * bool * N);    (* onClock: source clock of the pin, risingEdge, ghost k *)
  lg_rst : list (nat * bool);        (* onReset: source clock of the reset pin, newResetHigh *)
  lg_regs : list bv }.               (* register outputs at onCommitState *)

Definition rst_of_events (evs : list event) : list (nat * bool) :=
  map (fun e => (ev_idx e, ev_flag e)) (filter (fun e => evtype_eqb (ev_type e) resetValueChange) evs).

Definition step (cfg : config) (comb : network) (st : sched * data) : option (sched * data * instant_log) :=
  match sched_step (fst st) with
  | None => None
  | Some (s', ie) =>
    let d' := instant cfg comb (ie_events ie) (snd st) in
    Some (s', d', mk_log (ie_time ie) (ie_clk ie) (rst_of_events (ie_events ie)) (map r_out (d_regs d')))
  end.

Fixpoint run (cfg : config) (comb : network) (n : nat) (st : sched * data) : list instant_log :=
  match n with
  | O => []
  | S m => match step cfg comb st with
           | None => []
           | Some (s', d', lg) => lg :: run cfg comb m (s', d')
           end
  end.

Definition simulate (cfg : config) (comb : network) (n : nat) : list instant_log :=
  let d := power_on cfg comb in
  mk_log 0%Q [] (poweron_reset_log cfg) (map r_out (d_regs d)) :: run cfg comb n (sched_init cfg, d).

(* the scheduler alone (no data): the instants of the first n advanceEvent() calls *)
Fixpoint sched_run (n : nat) (s : sched) : list instant_events :=
  match n with
  | O => []
  | S m => match sched_step s with
           | None => []
           | Some (s', ie) => ie :: sched_run m s'
           end
  end.

(* what the harness prints about the pin allocation, for the tie *)
Definition alloc_summary (cfg : config) : list (nat * nat * option nat * Q) :=
  map (fun i => (i, pinsrc (cfg_clocks cfg) i, rstsrc (cfg_clocks cfg) i, absfreq (cfg_clocks cfg) i))
      (filter (relevant cfg) (seq 0 (length (cfg_clocks cfg)))).
