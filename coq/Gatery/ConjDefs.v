(* C14 — model of hlim::Conjunction (source/gatery/hlim/CNF.cpp), definitions only.

   A condition network is a list of one-output nodes in topological order: the
   drivers of node i are indices < i (checked by [wf]).  A "port" is an index
   into that list; [None] is an unconnected input (NodePort{nullptr}).

   [parse] is Conjunction::parseOutput transcribed literally: explicit LIFO
   stack of TraceInfo records, the alreadyVisited map keyed by port (first
   polarity wins, other polarity raises m_contradicting), constant handling,
   NOT / AND / signal descent, the m_terms map with its own contradiction
   rule.  The loop runs on fuel; [fuel_bound] is proved sufficient in
   ConjProofs.v so that exhaustion is excluded by the theorems, never returned
   as a normal value. *)
From Coq Require Import List Bool Arith Lia.
From Gatery Require Import Bits.
Import ListNotations.

Inductive pnode :=
| PConst (b : tbit)                 (* Node_Constant, width 1 *)
| PNot (d : option nat)             (* Node_Logic NOT *)
| PAnd (d1 d2 : option nat)         (* Node_Logic AND (two inputs) *)
| PSignal (d : option nat)          (* Node_Signal *)
| PAtom.                            (* any other output: treated as opaque *)

Definition graph := list pnode.

Definition drivers (n : pnode) : list (option nat) :=
  match n with
  | PConst _ | PAtom => []
  | PNot d | PSignal d => [d]
  | PAnd d1 d2 => [d1; d2]
  end.

Definition drv_lt (i : nat) (d : option nat) : bool :=
  match d with None => true | Some j => j <? i end.

Fixpoint wf_from (i : nat) (g : graph) : bool :=
  match g with
  | [] => true
  | n :: r => forallb (drv_lt i) (drivers n) && wf_from (S i) r
  end.
Definition wf (g : graph) : bool := wf_from 0 g.

(* ---------- two-valued semantics under a valuation of the opaque ports ---------- *)
(* rho gives the value of every opaque port (atoms, undefined constants);
   u is the value read from an unconnected input. *)
Definition dval (vals : list bool) (u : bool) (d : option nat) : bool :=
  match d with None => u | Some j => nth j vals u end.

Definition node_val (rho : nat -> bool) (u : bool) (vals : list bool) (i : nat) (n : pnode) : bool :=
  match n with
  | PConst B0 => false
  | PConst B1 => true
  | PConst BX => rho i
  | PNot d => negb (dval vals u d)
  | PAnd d1 d2 => dval vals u d1 && dval vals u d2
  | PSignal d => dval vals u d
  | PAtom => rho i
  end.

(* values of all ports, computed in topological order *)
Fixpoint eval_from (rho : nat -> bool) (u : bool) (acc : list bool) (g : graph) : list bool :=
  match g with
  | [] => acc
  | n :: r => eval_from rho u (acc ++ [node_val rho u acc (length acc) n]) r
  end.
Definition eval_all (rho : nat -> bool) (u : bool) (g : graph) : list bool := eval_from rho u [] g.
Definition denote (g : graph) (rho : nat -> bool) (u : bool) (d : option nat) : bool :=
  dval (eval_all rho u g) u d.

(* ---------- Conjunction ---------- *)
Record term := { t_driver : nat; t_neg : bool; t_cdrv : option nat }.

Record conj := {
  c_terms : list term;      (* m_terms, insertion order; keys (t_driver) unique *)
  c_undef : bool;           (* m_undefined *)
  c_contra : bool           (* m_contradicting *)
}.

Record trace := { tr_sig : option nat; tr_neg : bool; tr_cd : bool; tr_last : option nat }.

Definition opt_eqb (a b : option nat) : bool :=
  match a, b with
  | None, None => true
  | Some x, Some y => x =? y
  | _, _ => false
  end.

Fixpoint vis_find (v : list (option nat * bool)) (k : option nat) : option bool :=
  match v with
  | [] => None
  | (k', b) :: r => if opt_eqb k' k then Some b else vis_find r k
  end.

Fixpoint term_find (ts : list term) (k : nat) : option term :=
  match ts with
  | [] => None
  | t :: r => if t_driver t =? k then Some t else term_find r k
  end.

Record pstate := {
  ps_stack : list trace;
  ps_vis : list (option nat * bool);
  ps_terms : list term;
  ps_undef : bool;
  ps_contra : bool
}.

(* what one visited (not yet seen) port does: (pushed records in push order, add-as-term?, contradiction?) *)
Definition expand (g : graph) (p : nat) (top : trace) : list trace * bool * bool :=
  match nth_error g p with
  | Some (PConst B1) => ([], false, tr_neg top)            (* value xor negated = 0  -> contradicting *)
  | Some (PConst B0) => ([], false, negb (tr_neg top))
  | Some (PConst BX) => ([], true, false)
  | Some (PNot d) =>
      ([{| tr_sig := d; tr_neg := negb (tr_neg top); tr_cd := tr_neg top; tr_last := d |}], false, false)
  | Some (PAnd d1 d2) =>
      if tr_cd top then
        ([{| tr_sig := d1; tr_neg := tr_neg top; tr_cd := true; tr_last := d1 |};
          {| tr_sig := d2; tr_neg := tr_neg top; tr_cd := true; tr_last := d2 |}], false, false)
      else ([], true, false)
  | Some (PSignal d) =>
      ([{| tr_sig := d; tr_neg := tr_neg top; tr_cd := tr_cd top; tr_last := tr_last top |}], false, false)
  | Some PAtom => ([], true, false)
  | None => ([], true, false)    (* port outside the graph: opaque *)
  end.

(* one iteration of the while loop; None when the stack is empty *)
Definition pstep (g : graph) (s : pstate) : option pstate :=
  match ps_stack s with
  | [] => None
  | top :: rest =>
    match vis_find (ps_vis s) (tr_sig top) with
    | Some b =>
        Some {| ps_stack := rest; ps_vis := ps_vis s; ps_terms := ps_terms s;
                ps_undef := ps_undef s;
                ps_contra := ps_contra s || negb (Bool.eqb b (tr_neg top)) |}
    | None =>
      let vis' := (tr_sig top, tr_neg top) :: ps_vis s in
      match tr_sig top with
      | None =>
          Some {| ps_stack := rest; ps_vis := vis'; ps_terms := ps_terms s;
                  ps_undef := true; ps_contra := ps_contra s |}
      | Some p =>
        let '(pushed, asterm, contra) := expand g p top in
        (* push_back in order, pop_back takes the last: the stack head is the last pushed *)
        let stack' := rev pushed ++ rest in
        if asterm then
          match term_find (ps_terms s) p with
          | Some t =>
              Some {| ps_stack := stack'; ps_vis := vis'; ps_terms := ps_terms s;
                      ps_undef := ps_undef s;
                      ps_contra := ps_contra s || contra || negb (Bool.eqb (t_neg t) (tr_neg top)) |}
          | None =>
              Some {| ps_stack := stack'; ps_vis := vis';
                      ps_terms := ps_terms s ++ [{| t_driver := p; t_neg := tr_neg top; t_cdrv := tr_last top |}];
                      ps_undef := ps_undef s; ps_contra := ps_contra s || contra |}
          end
        else
          Some {| ps_stack := stack'; ps_vis := vis'; ps_terms := ps_terms s;
                  ps_undef := ps_undef s; ps_contra := ps_contra s || contra |}
      end
    end
  end.

Fixpoint ploop (fuel : nat) (g : graph) (s : pstate) : option pstate :=
  match pstep g s with
  | None => Some s
  | Some s' => match fuel with O => None | S f => ploop f g s' end
  end.

Definition fuel_bound (g : graph) : nat :=
  2 + length g + fold_right (fun n acc => length (drivers n) + acc) 0 g + 1.

Definition parse_fuel (fuel : nat) (g : graph) (root : option nat) : option conj :=
  match root with
  | None => Some {| c_terms := []; c_undef := true; c_contra := false |}
  | Some _ =>
    match ploop fuel g {| ps_stack := [{| tr_sig := root; tr_neg := false; tr_cd := true; tr_last := root |}];
                          ps_vis := []; ps_terms := []; ps_undef := false; ps_contra := false |} with
    | None => None
    | Some s => Some {| c_terms := ps_terms s; c_undef := ps_undef s; c_contra := ps_contra s |}
    end
  end.

Definition parse (g : graph) (root : option nat) : option conj := parse_fuel (fuel_bound g) g root.

(* ---------- predicates ---------- *)
Definition same_in (other : list term) (t : term) : bool :=
  match term_find other (t_driver t) with
  | Some t' => Bool.eqb (t_neg t') (t_neg t)
  | None => false
  end.

Definition isEqualTo (a b : conj) : bool :=
  if c_undef a || c_undef b then false
  else if c_contra a || c_contra b then c_contra a && c_contra b
  else if negb (length (c_terms a) =? length (c_terms b)) then false
  else forallb (same_in (c_terms b)) (c_terms a).

Definition opposite_in (other : list term) (t : term) : bool :=
  match term_find other (t_driver t) with
  | Some t' => negb (Bool.eqb (t_neg t') (t_neg t))
  | None => false
  end.

(* Conjunction::operator== / the equivalence induced by operator<=> (both defaulted: members compared one
   by one): the conjunction is used as a std::map KEY (Retiming.cpp, cache of rebuilt enable signals), so
   "equal as a key" is a conclusion of the analysis just like isEqualTo.  Terms are compared with all three
   fields (driver, negated, conjunctionDriver), the flags must agree. *)
Definition opt_nat_eqb (a b : option nat) : bool :=
  match a, b with Some x, Some y => x =? y | None, None => true | _, _ => false end.
Definition term_same (other : list term) (t : term) : bool :=
  match term_find other (t_driver t) with
  | Some t' => Bool.eqb (t_neg t') (t_neg t) && opt_nat_eqb (t_cdrv t') (t_cdrv t)
  | None => false
  end.
Definition conj_same (a b : conj) : bool :=
  Bool.eqb (c_undef a) (c_undef b) && Bool.eqb (c_contra a) (c_contra b) &&
  (length (c_terms a) =? length (c_terms b)) && forallb (term_same (c_terms b)) (c_terms a).

Definition isNegationOf (a b : conj) : bool :=
  if c_undef a || c_undef b then false
  else if c_contra a then negb (c_contra b) && (length (c_terms b) =? 0)
  else if c_contra b then negb (c_contra a) && (length (c_terms a) =? 0)
  else if negb (length (c_terms a) =? length (c_terms b)) then false
  else if negb (length (c_terms a) =? 1) then false
  else forallb (opposite_in (c_terms b)) (c_terms a) && (0 <? length (c_terms a)).

Definition isSubsetOf (a b : conj) : bool :=
  if c_undef a || c_undef b then false
  else if c_contra a || c_contra b then false
  else forallb (same_in (c_terms b)) (c_terms a).

(* checkComparisons looks the term's own driver up in the other map, so both
   comparisons are the same node and its constants can never differ: the clause
   never fires (CNF.cpp:199-214); the flag is therefore not a model parameter. *)
Definition cannotBothBeTrue (a b : conj) : bool :=
  if c_undef a || c_undef b then false
  else if c_contra a || c_contra b then true
  else existsb (opposite_in (c_terms b)) (c_terms a).

Definition intersectTermsWith (a b : conj) : conj :=
  {| c_terms := filter (same_in (c_terms b)) (c_terms a); c_undef := c_undef a; c_contra := c_contra a |}.

(* precondition (HCL_ASSERT): every term of b is in a with the same polarity *)
Definition removeTerms_pre (a b : conj) : bool := forallb (same_in (c_terms a)) (c_terms b).
Definition removeTerms (a b : conj) : conj :=
  {| c_terms := filter (fun t => match term_find (c_terms b) (t_driver t) with Some _ => false | None => true end) (c_terms a);
     c_undef := c_undef a; c_contra := c_contra a |}.

(* ---------- build ---------- *)
(* insertion of terms sorted by driver (StableCompare orders by node id, then port) *)
Fixpoint insert_sorted (t : term) (l : list term) : list term :=
  match l with
  | [] => [t]
  | x :: r => if t_driver t <=? t_driver x then t :: l else x :: insert_sorted t r
  end.
Definition sort_terms (l : list term) : list term := fold_right insert_sorted [] l.

(* appends the new nodes to the graph, returns (graph', output port).
   Preconditions (HCL_ASSERT): not undefined, not contradicting.
   Empty conjunction with allowUnconnected=false: a constant one. *)
Fixpoint build_lits (g : graph) (ts : list term) : graph * list (option nat) :=
  match ts with
  | [] => (g, [])
  | t :: r =>
      if t_neg t then
        let g1 := g ++ [PNot (t_cdrv t)] in
        let '(g2, l) := build_lits g1 r in (g2, Some (length g) :: l)
      else
        let '(g2, l) := build_lits g r in (g2, t_cdrv t :: l)
  end.

Fixpoint build_chain (g : graph) (last : option nat) (l : list (option nat)) : graph * option nat :=
  match l with
  | [] => (g, last)
  | x :: r => build_chain (g ++ [PAnd last x]) (Some (length g)) r
  end.

Definition build (g : graph) (c : conj) : graph * option nat :=
  match sort_terms (c_terms c) with
  | [] => (g ++ [PConst B1], Some (length g))
  | ts =>
      let '(g1, lits) := build_lits g ts in
      match lits with
      | [] => (g1, None)
      | x :: r => build_chain g1 x r
      end
  end.

(* ---------- meaning of an analysed conjunction ---------- *)
Definition lit (vals : list bool) (u : bool) (t : term) : bool :=
  xorb (t_neg t) (nth (t_driver t) vals u).

Definition conj_val (vals : list bool) (u : bool) (c : conj) : bool :=
  negb (c_contra c) && forallb (lit vals u) (c_terms c).
