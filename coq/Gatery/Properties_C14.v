(* C14 — Condition reasoning used by optimisation and retiming is logically sound.
   Only statements + `exact`; proofs live in Conj*.v.  A network is a list of
   one-output nodes in topological order (wf); a valuation is any `vals` that is
   consistent with the network (every node's value is the function of its
   drivers' values; opaque ports take arbitrary values rho).  *)
From Coq Require Import List Bool Arith.
From Gatery Require Import Bits ConjDefs ConjProofs ConjPreds ConjBuild ConjTop.
Import ListNotations.

(* consistent valuations exist for every well-formed network and every choice of
   the opaque values: the theorems below are not vacuous *)
Theorem C14_valuations_exist : forall g rho u, wf g = true -> consistent g rho u (eval_all rho u g).
Proof. exact eval_all_consistent. Qed.
Print Assumptions C14_valuations_exist.

(* the transcribed work-list always terminates within its fuel *)
Theorem C14_parse_total : forall g root, parse g root <> None.
Proof. exact parse_fuel_enough. Qed.
Print Assumptions C14_parse_total.

(* the value of the analysed output equals the conjunction of the collected
   literals (false if flagged contradicting), for every valuation *)
Theorem C14_parse_sound : forall g rho u vals,
  wf g = true -> consistent g rho u vals -> forall root c,
  parse g root = Some c -> c_undef c = false ->
  dval vals u root = conj_val vals u c.
Proof. exact parse_sound. Qed.
Print Assumptions C14_parse_sound.

Theorem C14_isEqualTo_sound : forall g rho u vals,
  wf g = true -> consistent g rho u vals -> forall ra rb ca cb,
  parse g ra = Some ca -> parse g rb = Some cb -> isEqualTo ca cb = true ->
  dval vals u ra = dval vals u rb.
Proof. exact equal_sound. Qed.
Print Assumptions C14_isEqualTo_sound.

Theorem C14_isNegationOf_sound : forall g rho u vals,
  wf g = true -> consistent g rho u vals -> forall ra rb ca cb,
  parse g ra = Some ca -> parse g rb = Some cb -> isNegationOf ca cb = true ->
  dval vals u ra = negb (dval vals u rb).
Proof. exact negation_sound. Qed.
Print Assumptions C14_isNegationOf_sound.

(* two analysed conditions that are EQUAL AS std::map KEYS (defaulted Conjunction::operator== / <=>,
   used by the cache of rebuilt enable signals in Retiming.cpp) and defined have equal outputs *)
Theorem C14_same_key_sound : forall g rho u vals,
  wf g = true -> consistent g rho u vals -> forall ra rb ca cb,
  parse g ra = Some ca -> parse g rb = Some cb -> conj_same ca cb = true -> c_undef ca = false ->
  dval vals u ra = dval vals u rb.
Proof. exact same_key_sound. Qed.
Print Assumptions C14_same_key_sound.

(* a's terms are a subset of b's: whenever b is true, a is true *)
Theorem C14_isSubsetOf_sound : forall g rho u vals,
  wf g = true -> consistent g rho u vals -> forall ra rb ca cb,
  parse g ra = Some ca -> parse g rb = Some cb -> isSubsetOf ca cb = true ->
  dval vals u rb = true -> dval vals u ra = true.
Proof. exact subset_sound. Qed.
Print Assumptions C14_isSubsetOf_sound.

Theorem C14_cannotBothBeTrue_sound : forall g rho u vals,
  wf g = true -> consistent g rho u vals -> forall ra rb ca cb,
  parse g ra = Some ca -> parse g rb = Some cb -> cannotBothBeTrue ca cb = true ->
  dval vals u ra && dval vals u rb = false.
Proof. exact cannot_both_sound. Qed.
Print Assumptions C14_cannotBothBeTrue_sound.

(* a condition rebuilt from its analysed form is equivalent to the original, in
   every valuation of the extended network *)
Theorem C14_build_equiv : forall g rho u root c g2 out vals,
  wf g = true ->
  parse g root = Some c -> c_undef c = false -> c_contra c = false ->
  build g c = (g2, out) -> consistent g2 rho u vals ->
  dval vals u out = dval vals u root.
Proof. exact build_equiv. Qed.
Print Assumptions C14_build_equiv.

(* term-set operations used by retiming *)
Theorem C14_intersect_sound : forall vals u a b,
  (forallb (lit vals u) (c_terms a) = true -> forallb (lit vals u) (c_terms (intersectTermsWith a b)) = true) /\
  (forallb (lit vals u) (c_terms b) = true -> forallb (lit vals u) (c_terms (intersectTermsWith a b)) = true).
Proof. exact intersect_sound. Qed.
Print Assumptions C14_intersect_sound.

Theorem C14_removeTerms_sound : forall vals u a b,
  NoDup (map t_driver (c_terms a)) -> removeTerms_pre a b = true ->
  forallb (lit vals u) (c_terms a) =
  forallb (lit vals u) (c_terms (removeTerms a b)) && forallb (lit vals u) (c_terms b).
Proof. exact removeTerms_sound. Qed.
Print Assumptions C14_removeTerms_sound.

(* ---- non-vacuity / regression examples (evaluated by the kernel) ---- *)
(* ports: 0 = a, 1 = b, 2 = AND(a,b), 3 = SIGNAL(2), 4 = NOT(3), 5 = NOT a, 6 = NOT b, 7 = AND(5,6) *)
Definition ex_g : graph :=
  [PAtom; PAtom; PAnd (Some 0) (Some 1); PSignal (Some 2); PNot (Some 3);
   PNot (Some 0); PNot (Some 1); PAnd (Some 5) (Some 6)].

Example ex_wf : wf ex_g = true.
Proof. reflexivity. Qed.

(* the shape behind finding F1: NOT(SIGNAL(AND(a,b))) must be one opaque negated
   term, not {!a,!b}; and it must not be reported equal to AND(NOT a, NOT b) *)
Example ex_f1_terms :
  option_map (fun c => map (fun t => (t_driver t, t_neg t)) (c_terms c)) (parse ex_g (Some 4)) = Some [(2, true)].
Proof. vm_compute. reflexivity. Qed.

Example ex_f1_not_equal :
  match parse ex_g (Some 4), parse ex_g (Some 7) with
  | Some a, Some b => isEqualTo a b = false /\ isSubsetOf a b = false /\ c_undef a = false /\ c_undef b = false
  | _, _ => False
  end.
Proof. vm_compute. repeat split. Qed.

(* hypotheses of C14_isEqualTo_sound are satisfiable with a non-trivial pair:
   AND(a,b) through a signal vs directly *)
Example ex_equal_nontrivial :
  match parse ex_g (Some 3), parse ex_g (Some 2) with
  | Some a, Some b => isEqualTo a b = true /\ length (c_terms a) = 2
  | _, _ => False
  end.
Proof. vm_compute. split; reflexivity. Qed.
