(* C16 -- ready/valid stream stages of gatery's scl (source/gatery/scl/stream/utils.h) as Mealy
   machines.  MODEL ONLY (no proofs): this file must keep compiling when proofs break; it is what
   coq/extract/Extract_C16.v extracts and what the correspondence run compares with the real stages.

   Signals of one stream wire in one clock cycle
     downstream : valid, payload, eop, one per-beat meta word (TxId in the harness)      -> [beat]
     upstream   : ready
   A payload is a list of N "digits" (least significant first): a narrow beat carries one digit,
   extendWidth concatenates, reduceWidth slices.

   A stage is split into its two combinational paths and its register update
     fwd  : state -> ctl -> beat_in  -> beat_out          (valid/payload/eop/meta towards the consumer)
     bwd  : state -> ctl -> beat_in -> ready_out -> ready_in   (ready towards the producer)
     next : state -> ctl -> beat_in -> ready_out -> state  (what the rising clock edge latches)
   For every stage modelled here the forward path does not read ready (otherwise gatery would report
   a combinational loop when two such stages are chained), which is what makes [compose] a plain
   wiring of the two paths within one cycle.  The backward path of the utils.h stages does not read
   the incoming beat either; the Packet.h width converters do (ready(in) depends on eop(in)).
   [ctl] carries the external control inputs of the cycle: stall condition number k is [nth k ctl false].

   Transcription notes (line numbers of utils.h at the time of writing):
   * regDownstreamBlocking (417-433): dsSig = reg(ready(in) ? downstream(in) : dsSig), valid reset '0';
     ready(in) = ready(ret).
   * regDownstream (477-508): IF(ready(in)) { valid_reg = valid(in); dsSig = downstream(in); } both
     registered; ready(in) = ready(ret) | !valid_reg.
   * regReady (436-474), the skid buffer: ready(in) = !valid_reg;
       valid_reg' = ready(ret) ? 0 : (valid_reg ? 1 : valid(in));
       data_reg'  = (ready(ret) | !valid_reg) ? downstream(in) : data_reg;
       downstream(ret) = valid_reg ? (data_reg, valid=1) : downstream(in).
     (The condition of the inner IF(!valid_reg) reads valid_reg AFTER "IF(ready(ret)) valid_reg = '0'",
      i.e. it is  ready(ret) | !valid_reg_q.)
   * regDecouple (750-754) = regReady(regDownstreamBlocking(in)).
   * delay n (512-522) = n-1 times regDownstreamBlocking, then regDownstream (n = 0: wire).
   * stall (683-694): combinational: valid(out) = valid(in) & !c, ready(in) = ready(out) & !c.
   * extendWidth ratio r (540-573): Counter(r) incremented on transfer(source);
     valid(out) = counter.isLast & valid(in); ready(in) = ready(out) | !isLast;
     payload = shift register of r slots of the input width, written on transfer(source), output is
     the combinational "shifted in" value (slots 1..r-1 of the register, then the current input);
     eop and meta are those of the CURRENT input beat (attach keeps the source's meta signals).
   * reduceWidth ratio r (578-613): Counter(r) incremented on transfer(out), reset when !valid(in);
     valid(out) = valid(in); ready(in) = ready(out) & isLast; payload = source.part(r, counter);
     eop(out) = eop(in) & isLast; meta passes.
   The optional `reset` argument of extendWidth/reduceWidth is tied to its default '0'.
   * Packet.h widthExtend ratio r (630-657), stream without Empty/EmptyBits/Sop/ByteEnable:
     Counter(r) incremented on transfer(source), reset on transfer(source) & eop(source);
     valid(out) = valid(in) & (isLast | eop(in)); ready(in) = (isLast | eop(in)) ? ready(out) : '1';
     payload: ret = reg(ret) with part[counter] := in, i.e. a register of r slots that is rewritten
     EVERY cycle with the value shown at the output; the slots above a short last beat keep what
     they held before (stale, initially undefined = digit [XD]); eop and TxId pass.
   * Packet.h widthReduce ratio r (760-794), same stream type: Counter(r) incremented on
     transfer(out), reset on transfer(out) & transfer(source) (NOT on an idle producer);
     sentBits register (here in units of narrow beats: q) = (transfer(source) ? 0 : q) + 1, enabled
     by transfer(out), reset value 1; eop(out) = eop(in) & (q >= r) (no EmptyBits: fullBits = width);
     ready(in) = (isLast | eop(out)) ? ready(out) : '0'; payload = source.part(r, counter).
   * Packet.h matchWidth (796-806) chooses widthExtend / widthReduce / the wire by comparing widths
     at elaboration time: [matchD].
   strm::fifo is NOT modelled here (its machine is C15's FifoDefs.v); the check treats chains with a
   FIFO stage through the independent list oracle only. *)
From Coq Require Import List NArith Bool Arith.
Import ListNotations.

Record beat := mkBeat { bvalid : bool; bdata : list N; beop : bool; bmeta : N }.

Definition beat0 : beat := mkBeat false [] false 0%N.

Record stage := mkStage {
  st : Type;
  init : st;
  fwd : st -> list bool -> beat -> beat;
  bwd : st -> list bool -> beat -> bool -> bool;
  next : st -> list bool -> beat -> bool -> st }.

(* ---------------------------------------------------------------- wire (delay 0) *)
Definition idS : stage :=
  mkStage unit tt (fun _ _ b => b) (fun _ _ _ r => r) (fun _ _ _ _ => tt).

(* ---------------------------------------------------------------- regDownstreamBlocking *)
Definition blockS : stage :=
  mkStage beat beat0
    (fun s _ _ => s)
    (fun _ _ _ r => r)
    (fun s _ b r => if r then b else s).

(* ---------------------------------------------------------------- regDownstream *)
Definition regDownS : stage :=
  mkStage beat beat0
    (fun s _ _ => s)
    (fun s _ _ r => r || negb (bvalid s))
    (fun s _ b r => if r || negb (bvalid s) then b else s).

(* ---------------------------------------------------------------- regReady (skid buffer) *)
Definition readyS : stage :=
  mkStage (bool * beat)%type (false, beat0)
    (fun s _ b => if fst s then mkBeat true (bdata (snd s)) (beop (snd s)) (bmeta (snd s)) else b)
    (fun s _ _ _ => negb (fst s))
    (fun s _ b r =>
       ((if r then false else if fst s then true else bvalid b),
        (if r || negb (fst s) then b else snd s))).

(* ---------------------------------------------------------------- stall *)
Definition stallS (k : nat) : stage :=
  mkStage unit tt
    (fun _ ctl b => if nth k ctl false then mkBeat false (bdata b) (beop b) (bmeta b) else b)
    (fun _ ctl _ r => r && negb (nth k ctl false))
    (fun _ _ _ _ => tt).

(* ---------------------------------------------------------------- scl::Counter(r) as used here *)
Definition isLast (r c : nat) : bool := Nat.eqb c (pred r).
Definition cntInc (r c : nat) : nat := if isLast r c then 0 else S c.

(* ---------------------------------------------------------------- extendWidth *)
Definition extendS (r : nat) : stage :=
  mkStage (nat * list (list N))%type (0, repeat [] r)
    (fun s _ b => mkBeat (isLast r (fst s) && bvalid b) (concat (tl (snd s) ++ [bdata b])) (beop b) (bmeta b))
    (fun s _ _ rdy => rdy || negb (isLast r (fst s)))
    (fun s _ b rdy =>
       if bvalid b && (rdy || negb (isLast r (fst s)))
       then (cntInc r (fst s), tl (snd s) ++ [bdata b])
       else s).

(* ---------------------------------------------------------------- reduceWidth *)
(* part(r, i) of a payload: digits [i*q, (i+1)*q) with q = (number of digits) / r *)
Definition chunk (q i : nat) (d : list N) : list N := firstn q (skipn (i * q) d).

Definition reduceS (r : nat) : stage :=
  mkStage nat 0
    (fun c _ b => mkBeat (bvalid b) (chunk (length (bdata b) / r) c (bdata b)) (beop b && isLast r c) (bmeta b))
    (fun c _ _ rdy => rdy && isLast r c)
    (fun c _ b rdy => if negb (bvalid b) then 0 else if rdy then cntInc r c else c).

(* ---------------------------------------------------------------- Packet.h widthExtend *)
(* digit standing for "undefined" (register without reset value never written): no real digit of the
   correspondence run is that large; the driver prints it as X *)
Definition XD : N := 4294967295%N.

Fixpoint set_nth {A} (n : nat) (l : list A) (x : A) : list A :=
  match l with
  | [] => []
  | y :: l' => match n with O => x :: l' | S n' => y :: set_nth n' l' x end
  end.

(* m = number of digits of one input beat (only used for the undefined initial register contents) *)
Definition pextendS (m r : nat) : stage :=
  mkStage (nat * list (list N))%type (0, repeat (repeat XD m) r)
    (fun s _ b => mkBeat (bvalid b && (isLast r (fst s) || beop b)) (concat (set_nth (fst s) (snd s) (bdata b))) (beop b) (bmeta b))
    (fun s _ b rdy => if isLast r (fst s) || beop b then rdy else true)
    (fun s _ b rdy =>
       ((if bvalid b && (if isLast r (fst s) || beop b then rdy else true)
         then (if beop b then 0 else cntInc r (fst s)) else fst s),
        set_nth (fst s) (snd s) (bdata b))).

(* ---------------------------------------------------------------- Packet.h widthReduce *)
(* state: (counter, q) with q = sentBits / bitsPerBeatOut *)
Definition preduceS (r : nat) : stage :=
  mkStage (nat * nat)%type (0, 1)
    (fun s _ b => mkBeat (bvalid b) (chunk (length (bdata b) / r) (fst s) (bdata b)) (beop b && Nat.leb r (snd s)) (bmeta b))
    (fun s _ b rdy => if isLast r (fst s) || (beop b && Nat.leb r (snd s)) then rdy else false)
    (fun s _ b rdy =>
       let tout := bvalid b && rdy in
       let tin := bvalid b && (if isLast r (fst s) || (beop b && Nat.leb r (snd s)) then rdy else false) in
       ((if tout then (if tin then 0 else cntInc r (fst s)) else fst s),
        (if tout then S (if tin then 0 else snd s) else snd s))).

(* ---------------------------------------------------------------- sequential composition *)
(* valid/payload forward and ready backward are wired combinationally within the cycle *)
Definition compose (A B : stage) : stage :=
  mkStage (st A * st B)%type (init A, init B)
    (fun s ctl b => fwd B (snd s) ctl (fwd A (fst s) ctl b))
    (fun s ctl b r => bwd A (fst s) ctl b (bwd B (snd s) ctl (fwd A (fst s) ctl b) r))
    (fun s ctl b r =>
       (next A (fst s) ctl b (bwd B (snd s) ctl (fwd A (fst s) ctl b) r),
        next B (snd s) ctl (fwd A (fst s) ctl b) r)).

(* ---------------------------------------------------------------- derived stages *)
Definition decoupleS : stage := compose blockS readyS.

Fixpoint blocksS (n : nat) : stage :=
  match n with O => idS | S k => compose (blocksS k) blockS end.

Definition delayS (n : nat) : stage :=
  match n with O => idS | S m => compose (blocksS m) regDownS end.

(* ---------------------------------------------------------------- chain descriptions *)
Inductive sdesc :=
| DRegDown | DRegBlock | DRegReady | DRegDecouple
| DDelay (n : nat) | DStall (k : nat) | DExtend (r : nat) | DReduce (r : nat)
| DPExtend (m r : nat) | DPReduce (r : nat)
| DComp (a b : sdesc).

Fixpoint denote (d : sdesc) : stage :=
  match d with
  | DRegDown => regDownS | DRegBlock => blockS | DRegReady => readyS | DRegDecouple => decoupleS
  | DDelay n => delayS n | DStall k => stallS k | DExtend r => extendS r | DReduce r => reduceS r
  | DPExtend m r => pextendS m r | DPReduce r => preduceS r
  | DComp a b => compose (denote a) (denote b)
  end.

(* Packet.h matchWidth from m digits to t digits: the three-way choice made at elaboration time *)
Definition matchD (m t : nat) : sdesc :=
  if Nat.ltb m t then DPExtend m (t / m) else if Nat.ltb t m then DPReduce (m / t) else DDelay 0.

Fixpoint chainOf (l : list sdesc) : sdesc :=
  match l with
  | [] => DDelay 0
  | [d] => d
  | d :: l' => DComp d (chainOf l')
  end.

(* ---------------------------------------------------------------- running a stage *)
Record cyc := mkCyc { c_ctl : list bool; c_in : beat; c_rdy : bool }.

(* everything observable in one cycle: stage inputs and stage outputs *)
Record ev := mkEv { e_ctl : list bool; e_in : beat; e_rin : bool; e_out : beat; e_rout : bool }.

Definition evAt (S : stage) (s : st S) (c : cyc) : ev :=
  mkEv (c_ctl c) (c_in c) (bwd S s (c_ctl c) (c_in c) (c_rdy c)) (fwd S s (c_ctl c) (c_in c)) (c_rdy c).

Definition stepS (S : stage) (s : st S) (c : cyc) : st S := next S s (c_ctl c) (c_in c) (c_rdy c).

Fixpoint traceFrom (S : stage) (s : st S) (cs : list cyc) : list ev :=
  match cs with
  | [] => []
  | c :: cs' => evAt S s c :: traceFrom S (stepS S s c) cs'
  end.

Definition afterFrom (S : stage) (s : st S) (cs : list cyc) : st S := fold_left (stepS S) cs s.

Definition trace (S : stage) (cs : list cyc) : list ev := traceFrom S (init S) cs.
Definition after (S : stage) (cs : list cyc) : st S := afterFrom S (init S) cs.

(* what the driver of the correspondence run calls: one cycle of a described chain *)
Definition runChain (d : sdesc) (cs : list cyc) : list ev := trace (denote d) cs.
