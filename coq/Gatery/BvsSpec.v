(* C18 -- the specification: the same operations on plain arrays of bits.

   A container is a list of planes, a plane is a [list bool] (index 0 = bit 0); nothing is
   packed into words.  Every mutating operation is a [splice]:
       firstn off l ++ new ++ skipn (off + length new) l
   so "touches no bit outside the addressed range" is built into each equation.
   [abs] reads bits 0 .. size-1 of every plane of the word-level model. *)
From Coq Require Import List NArith ZArith Bool.
From Gatery Require Import Bits BvsDefs.
Import ListNotations.
Local Open Scope N_scope.

Definition sst := list (list bool).

(* bit i of a vector of 64-bit words *)
Definition wbit (w : list N) (i : N) : bool := N.testbit (getw w (i / 64)) (i mod 64).

Definition absP (size : N) (w : list N) : list bool :=
  map (fun i => wbit w (N.of_nat i)) (seq 0 (N.to_nat size)).
Definition abs (s : bvs) : sst := map (absP (bsize s)) (planes s).

(* ---- generic list operations ---- *)
Definition splice (off : nat) (new l : list bool) : list bool :=
  firstn off l ++ new ++ skipn (off + length new) l.
Definition slice (off len : nat) (l : list bool) : list bool := firstn len (skipn off l).
Definition splane (a : sst) (p : nat) : list bool := nth p a [].
Definition on_splane (a : sst) (p : nat) (f : list bool -> list bool) : sst :=
  upd_nat a p (f (splane a p)).
Definition slen (a : sst) : nat := length (splane a 0).

Definition bits_of_N (len : nat) (v : N) : list bool :=
  map (fun i => N.testbit v (N.of_nat i)) (seq 0 len).
Definition bits_of_Z (len : nat) (v : Z) : list bool :=          (* two's complement *)
  map (fun i => Z.testbit v (Z.of_nat i)) (seq 0 len).
Fixpoint N_of_bits (l : list bool) : N :=
  match l with [] => 0 | b :: r => N.b2n b + 2 * N_of_bits r end.

(* four-state view of (VALUE, DEFINED) *)
Definition tbits (v d : list bool) : list tbit := map2 of_planes v d.
Fixpoint list_eqb {A} (eqb : A -> A -> bool) (x y : list A) : bool :=
  match x, y with
  | [], [] => true
  | a :: x', b :: y' => eqb a b && list_eqb eqb x' y'
  | _, _ => false
  end.
Definition forallb2 {A B} (f : A -> B -> bool) (x : list A) (y : list B) : bool :=
  forallb (fun ab => f (fst ab) (snd ab)) (combine x y).

(* ---- the operations, one line each ---- *)
Definition resize_spec (a : sst) (n : N) : sst :=
  map (fun l => firstn (N.to_nat n) l ++ repeat false (N.to_nat n - length l)) a.
Definition get_spec (a : sst) (p : nat) (i : N) : bool := nth (N.to_nat i) (splane a p) false.
Definition setb_spec (a : sst) (p : nat) (i : N) (b : bool) : sst :=
  on_splane a p (splice (N.to_nat i) [b]).
Definition toggle_spec (a : sst) (p : nat) (i : N) : sst :=
  on_splane a p (fun l => splice (N.to_nat i) [negb (nth (N.to_nat i) l false)] l).
Definition setRange_spec (a : sst) (p : nat) (off size : N) (b : bool) : sst :=
  on_splane a p (splice (N.to_nat off) (repeat b (N.to_nat size))).
Definition insertW_spec (a : sst) (p : nat) (off size v : N) : sst :=
  on_splane a p (splice (N.to_nat off) (bits_of_N (N.to_nat size) v)).
Definition extractW_spec (a : sst) (p : nat) (off size : N) : N :=
  N_of_bits (slice (N.to_nat off) (N.to_nat size) (splane a p)).
Definition copyRange_spec (d : sst) (dOff : N) (s : sst) (sOff size : N) : sst :=
  map2 (fun dl sl => splice (N.to_nat dOff) (slice (N.to_nat sOff) (N.to_nat size) sl) dl) d s.
Definition extractS_spec (s : sst) (start size : N) : sst :=
  map (slice (N.to_nat start) (N.to_nat size)) s.
Definition insertS_spec (d s : sst) (off size : N) : sst :=
  map2 (fun dl sl => splice (N.to_nat off)
                            (firstn (if size =? 0 then length sl else N.to_nat size) sl) dl) d s.
Definition append_spec (d s : sst) : sst := map2 (@app bool) d s.
Definition eq_spec (a b : sst) : bool := list_eqb (list_eqb Bool.eqb) a b.

(* compareRange<DefaultConfig> / equalOnDefinedValues: equality of the 0/1/X views *)
Definition tslice (a : sst) (off size : N) : list tbit :=
  tbits (slice (N.to_nat off) (N.to_nat size) (splane a VALUE))
        (slice (N.to_nat off) (N.to_nat size) (splane a DEFINED)).
Definition compareRangeD_spec (d : sst) (dOff : N) (s : sst) (sOff size : N) : bool :=
  list_eqb tbit_eqb (tslice d dOff size) (tslice s sOff size).
(* compareRange<ExtendedConfig>: bit i matches if either side is don't-care, or
   high-impedance and defined flags agree and (if defined) the values agree *)
Definition xbitmatch (a : sst) (ia : nat) (b : sst) (ib : nat) : bool :=
  let bit x p i := nth i (splane x p) false in
  bit a DONT_CARE ia || bit b DONT_CARE ib ||
  (Bool.eqb (bit a HIGH_IMPEDANCE ia) (bit b HIGH_IMPEDANCE ib)
   && Bool.eqb (bit a DEFINED ia) (bit b DEFINED ib)
   && (negb (bit a DEFINED ia) || Bool.eqb (bit a VALUE ia) (bit b VALUE ib))).
Definition compareRangeX_spec (d : sst) (dOff : N) (s : sst) (sOff size : N) : bool :=
  forallb (fun i => xbitmatch s (N.to_nat sOff + i) d (N.to_nat dOff + i)) (seq 0 (N.to_nat size)).

Definition allOne_spec (a : sst) (p : nat) (start size : N) : bool :=
  forallb (fun b => b) (slice (N.to_nat start) (N.to_nat size) (splane a p)).
Definition allZero_spec (a : sst) (p : nat) (start size : N) : bool :=
  forallb negb (slice (N.to_nat start) (N.to_nat size) (splane a p)).
Definition anyDefined_spec (a : sst) (start size : N) : bool :=
  existsb (fun b => b) (slice (N.to_nat start) (N.to_nat size) (splane a DEFINED)).
Definition compareValues_spec (a : sst) (sa : N) (b : sst) (sb size : N) : bool :=
  list_eqb Bool.eqb (slice (N.to_nat sa) (N.to_nat size) (splane a VALUE))
                    (slice (N.to_nat sb) (N.to_nat size) (splane b VALUE)).
Definition equalOnDefined_spec (a : sst) (sa : N) (b : sst) (sb size : N) : bool :=
  list_eqb tbit_eqb (tslice a sa size) (tslice b sb size).
(* canBeReplacedWith: A [= B pointwise (Bits.le_defb); size = ~0 means "rest of A" *)
Definition canBeReplaced_spec (a b : sst) (sa sb size : N) : bool :=
  let n := if size =? size_max then (slen a - N.to_nat sa)%nat else N.to_nat size in
  forallb2 le_defb (tslice a sa (N.of_nat n)) (tslice b sb (N.of_nat n)).
(* mergeUndefinedSelection: dst stays defined only where src is defined with the same value *)
Definition merge_spec (d : sst) (sd : N) (s : sst) (ss size : N) : sst :=
  on_splane d DEFINED (fun l =>
    splice (N.to_nat sd)
      (map (fun i => nth (N.to_nat sd + i) l false
                     && nth (N.to_nat ss + i) (splane s DEFINED) false
                     && Bool.eqb (nth (N.to_nat sd + i) (splane d VALUE) false)
                                 (nth (N.to_nat ss + i) (splane s VALUE) false))
           (seq 0 (N.to_nat size))) l).

Definition extractBigInt_spec (a : sst) (off size : N) : Z :=
  Z.of_N (N_of_bits (slice (N.to_nat off) (N.to_nat size) (splane a VALUE))).
Definition insertBigInt_spec (a : sst) (off size : N) (v : Z) : sst :=
  on_splane a VALUE (splice (N.to_nat off) (bits_of_Z (N.to_nat size) v)).

(* ---- whole-object operations and views ---- *)
Definition head_spec (a : sst) (p : nat) : N := N_of_bits (splane a p).
Definition allDefinedNS_spec (a : sst) (start size : N) : bool :=
  forallb (fun b => b) (slice (N.to_nat start) (N.to_nat size) (splane a DEFINED)).
Definition clearResize_spec (a : sst) (n : N) : sst := map (fun _ => repeat false (N.to_nat n)) a.
Definition asBytes_spec (a : sst) (p : nat) : N := N_of_bits (splane a p).
(* state == bytes: None (exception) unless size = 8 * #bytes; else all bits defined and the VALUE
   plane is the concatenation of the bytes' bits *)
Definition eqBytes_spec (a : sst) (bytes : list N) : option bool :=
  if negb (Nat.eqb (slen a) (8 * length bytes)) then None
  else Some (forallb (fun b => b) (splane a DEFINED)
             && list_eqb Bool.eqb (splane a VALUE) (concat (map (bits_of_N 8) bytes))).
Definition iterRead_spec (a : sst) (p : nat) (off size : N) : N :=
  N_of_bits (slice (N.to_nat off) (N.to_nat size) (splane a p)).
Definition iterWrite_spec (a : sst) (p : nat) (off size v : N) : sst :=
  on_splane a p (splice (N.to_nat off) (bits_of_N (N.to_nat size) v)).

(* ---- sequences ---- *)
Definition sregs := list sst.
Definition sgetr (np : nat) (rs : sregs) (r : nat) : sst := nth r rs (repeat [] np).

Definition step_spec (np : nat) (o : op) (rs : sregs) : sregs * option Z :=
  let g := sgetr np rs in
  match o with
  | OResize r n => (upd_nat rs r (resize_spec (g r) n), None)
  | OGet r p i => (rs, b2z (get_spec (g r) p i))
  | OSet1 r p i => (upd_nat rs r (setb_spec (g r) p i true), None)
  | OSetB r p i b => (upd_nat rs r (setb_spec (g r) p i b), None)
  | OClear r p i => (upd_nat rs r (setb_spec (g r) p i false), None)
  | OToggle r p i => (upd_nat rs r (toggle_spec (g r) p i), None)
  | OSetRange r p off size b => (upd_nat rs r (setRange_spec (g r) p off size b), None)
  | OInsertW r p off size v => (upd_nat rs r (insertW_spec (g r) p off size v), None)
  | OExtractW r p off size => (rs, Some (Z.of_N (extractW_spec (g r) p off size)))
  | OInsertNS r p off size v => (upd_nat rs r (insertW_spec (g r) p off size v), None)
  | OExtractNS r p off size => (rs, Some (Z.of_N (extractW_spec (g r) p off size)))
  | OCopyRange rd dOff r sOff size => (upd_nat rs rd (copyRange_spec (g rd) dOff (g r) sOff size), None)
  | OCompareRange rd dOff r sOff size =>
      (rs, b2z (if Nat.eqb np 2 then compareRangeD_spec (g rd) dOff (g r) sOff size
                else compareRangeX_spec (g rd) dOff (g r) sOff size))
  | OExtractS rd r start size => (upd_nat rs rd (extractS_spec (g r) start size), None)
  | OInsertS rd r off size => (upd_nat rs rd (insertS_spec (g rd) (g r) off size), None)
  | OAppend rd r => (upd_nat rs rd (append_spec (g rd) (g r)), None)
  | OEq ra rb => (rs, b2z (eq_spec (g ra) (g rb)))
  | OAllOne r p start size => (rs, b2z (allOne_spec (g r) p start size))
  | OAllZero r p start size => (rs, b2z (allZero_spec (g r) p start size))
  | OAnyDefined r start size => (rs, b2z (anyDefined_spec (g r) start size))
  | OCompareValues ra sa rb sb size => (rs, b2z (compareValues_spec (g ra) sa (g rb) sb size))
  | OEqualOnDefined ra sa rb sb size => (rs, b2z (equalOnDefined_spec (g ra) sa (g rb) sb size))
  | OCanBeReplaced ra rb sa sb size => (rs, b2z (canBeReplaced_spec (g ra) (g rb) sa sb size))
  | OMerge rd sd r ss size => (upd_nat rs rd (merge_spec (g rd) sd (g r) ss size), None)
  | OInsertBig r off size v => (upd_nat rs r (insertBigInt_spec (g r) off size v), None)
  | OExtractBig r off size => (rs, Some (extractBigInt_spec (g r) off size))
  | OAssign rd r => (upd_nat rs rd (g r), None)
  | OSwap ra rb => (upd_nat (upd_nat rs ra (g rb)) rb (g ra), None)
  | OMove rd r => (upd_nat (upd_nat rs rd (g r)) r (repeat [] np), None)
  | OClearResize r n => (upd_nat rs r (clearResize_spec (g r) n), None)
  | OHead r p => (rs, Some (Z.of_N (head_spec (g r) p)))
  | OAllDefNS r start size => (rs, b2z (allDefinedNS_spec (g r) start size))
  | OAsBytes r p => (rs, Some (Z.of_N (asBytes_spec (g r) p)))
  | OEqBytes r bytes => (rs, match eqBytes_spec (g r) bytes with Some b => b2z b | None => Some (-1)%Z end)
  | OIterRead r p off size => (rs, Some (Z.of_N (iterRead_spec (g r) p off size)))
  | OIterWrite r p off size v => (upd_nat rs r (iterWrite_spec (g r) p off size v), None)
  end.

Definition run_spec (np : nat) (ops : list op) (rs : sregs) : sregs * list (option Z) :=
  fold_left (fun st o => let r := step_spec np o (fst st) in (fst r, snd st ++ [snd r])) ops (rs, []).

(* ---- well-formedness of an operation w.r.t. the current sizes: exactly the C++
        preconditions (HCL_ASSERTs) plus in-bounds access, plus "source and destination are
        different objects" for the binary mutators (the C++ takes `const BitVectorState &src`
        and `*this`; aliasing them is outside the model) ---- *)
Definition sz_of (szs : list N) (r : nat) : N := nth r szs 0.
Definition nwords (sz : N) : N := (sz + 63) / 64.

Definition op_ok (np nr : nat) (o : op) (szs : list N) : bool :=
  let sz := sz_of szs in
  let pl p := Nat.ltb p np in
  let rg r := Nat.ltb r nr in
  match o with
  | OResize r n => rg r
  | OGet r p i | OSet1 r p i | OClear r p i | OToggle r p i => rg r && pl p && (i <? sz r)
  | OSetB r p i _ => rg r && pl p && (i <? sz r)
  | OSetRange r p off size _ => rg r && pl p && (off + size <=? sz r)
  | OInsertW r p off size v => rg r && pl p && (size <=? 64) && (off + size <=? sz r)
  | OExtractW r p off size =>
      rg r && pl p && (size <=? 64) && (off + size <=? sz r) && (off / 64 <? nwords (sz r))
  | OInsertNS r p off size v =>
      rg r && pl p && (off mod 64 + size <=? 64) && (off + size <=? sz r)
  | OExtractNS r p off size =>
      rg r && pl p && (off mod 64 + size <=? 64) && (off + size <=? sz r) && (off / 64 <? nwords (sz r))
  | OCopyRange rd dOff r sOff size =>
      rg rd && rg r && negb (Nat.eqb rd r) && (dOff + size <=? sz rd) && (sOff + size <=? sz r)
  | OCompareRange rd dOff r sOff size =>
      rg rd && rg r && (dOff + size <=? sz rd) && (sOff + size <=? sz r)
  | OExtractS rd r start size => rg rd && rg r && (start + size <=? sz r)
  | OInsertS rd r off size =>
      rg rd && rg r && negb (Nat.eqb rd r) && (sz r + off <=? sz rd) && (size <=? sz r)
  | OAppend rd r => rg rd && rg r && negb (Nat.eqb rd r)
  | OEq ra rb => rg ra && rg rb
  | OAllOne r p start size | OAllZero r p start size => rg r && pl p && (start <=? sz r)
  | OAnyDefined r start size => rg r && Nat.ltb DEFINED np && (start <=? sz r)
  | OCompareValues ra sa rb sb size | OEqualOnDefined ra sa rb sb size =>
      rg ra && rg rb && Nat.ltb DEFINED np && (sa + size <=? sz ra) && (sb + size <=? sz rb)
  | OCanBeReplaced ra rb sa sb size =>
      rg ra && rg rb && Nat.ltb DEFINED np && (sa <=? sz ra) &&
      (let n := if size =? size_max then sz ra - sa else size in
       (sa + n <=? sz ra) && (sb + n <=? sz rb))
  | OMerge rd sd r ss size =>
      rg rd && rg r && negb (Nat.eqb rd r) && Nat.ltb DEFINED np
      && (sd + size <=? sz rd) && (ss + size <=? sz r)
  | OInsertBig r off size v =>
      rg r && Nat.ltb VALUE np && (off + size <=? sz r) && ((size <=? 64) || (off mod 64 =? 0))
  | OExtractBig r off size =>
      rg r && Nat.ltb VALUE np && (off + size <=? sz r) && ((size <=? 64) || (off mod 64 =? 0))
      && (off / 64 <? nwords (sz r))
  | OAssign rd r => rg rd && rg r
  | OSwap ra rb => rg ra && rg rb
  | OMove rd r => rg rd && rg r && negb (Nat.eqb rd r)
  | OClearResize r n => rg r
  | OHead r p => rg r && pl p && (sz r <=? 64) && (0 <? sz r)
  | OAllDefNS r start size =>
      rg r && Nat.ltb DEFINED np && (start mod 64 + size <=? 64) && (start + size <=? sz r)
      && (start / 64 <? nwords (sz r))
  | OAsBytes r p => rg r && pl p
  | OEqBytes r bytes => rg r && Nat.eqb np 2 && (sz r <=? size_max) && forallb (fun b => b <? 256) bytes
  | OIterRead r p off size => rg r && pl p && (off + size <=? sz r)
  | OIterWrite r p off size v => rg r && pl p && (off + size <=? sz r)
  end.

(* how the sizes evolve *)
Definition op_sizes (o : op) (szs : list N) : list N :=
  let sz := sz_of szs in
  match o with
  | OResize r n => upd_nat szs r n
  | OExtractS rd r start size => upd_nat szs rd size
  | OAppend rd r => upd_nat szs rd (sz rd + sz r)
  | OAssign rd r => upd_nat szs rd (sz r)
  | OSwap ra rb => upd_nat (upd_nat szs ra (sz rb)) rb (sz ra)
  | OMove rd r => upd_nat (upd_nat szs rd (sz r)) r 0
  | OClearResize r n => upd_nat szs r n
  | _ => szs
  end.

Fixpoint ops_ok (np nr : nat) (ops : list op) (szs : list N) : bool :=
  match ops with
  | [] => true
  | o :: r => op_ok np nr o szs && ops_ok np nr r (op_sizes o szs)
  end.
