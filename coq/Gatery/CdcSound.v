(* C12 -- soundness and completeness of the detection relative to the specification
   [influences] / [crossing_at], for every map that satisfies the fixpoint characterisation. *)
From Coq Require Import List NArith Bool Arith Lia.
From Gatery Require Import CdcDefs CdcCheck.
Import ListNotations.

(* ------------------------------------------------------------------ *)
(* structure lemmas                                                     *)

Lemma get_node_In : forall n v nd, get_node n v = Some nd -> In nd (nodes n).
Proof. unfold get_node; intros; eapply nth_error_In; eauto. Qed.

Lemma In_get_node : forall n nd, In nd (nodes n) -> exists v, get_node n v = Some nd.
Proof.
  intros n nd H. apply In_nth_error in H. destruct H as [k Hk].
  exists (N.of_nat k). unfold get_node. rewrite Nat2N.id. exact Hk.
Qed.

Lemma in_outs_from : forall l v0 v o,
  In (v, o) (outs_from v0 l) <->
  exists k nd, nth_error l k = Some nd /\ v = (v0 + N.of_nat k)%N /\ (N.to_nat o < nouts nd) .
Proof.
  induction l as [|x l IH]; intros v0 v o; simpl.
  - split; [intros [] | intros (k & nd & H & _); destruct k; discriminate].
  - rewrite in_app_iff, in_map_iff, IH. split.
    + intros [(j & Hj & Hin) | (k & nd & Hk & Hv & Ho)].
      * inversion Hj; subst. apply in_seq in Hin. exists 0, x. simpl. repeat split; auto; try lia; try (rewrite Nat2N.id; lia).
      * exists (S k), nd. simpl. repeat split; auto. lia.
    + intros (k & nd & Hk & Hv & Ho). destruct k; simpl in Hk.
      * inversion Hk; subst. left. exists (N.to_nat o). split.
        -- f_equal; [lia | apply N2Nat.id].
        -- apply in_seq. lia.
      * right. exists k, nd. repeat split; auto. lia.
Qed.

Lemma in_all_outputs : forall n p,
  In p (all_outputs n) <-> exists nd, get_node n (fst p) = Some nd /\ N.to_nat (snd p) < nouts nd.
Proof.
  intros n [v o]. unfold all_outputs, get_node. rewrite in_outs_from. simpl. split.
  - intros (k & nd & Hk & Hv & Ho). exists nd. split; auto. subst. simpl. rewrite Nat2N.id. exact Hk.
  - intros (nd & Hk & Ho). exists (N.to_nat v), nd. repeat split; auto. rewrite N2Nat.id. reflexivity.
Qed.

Lemma valid_port_In : forall n q, valid_port n q = true <-> In q (all_outputs n).
Proof.
  intros. rewrite in_all_outputs. unfold valid_port. destruct (get_node n (fst q)) as [nd|].
  - rewrite Nat.ltb_lt. split; [intros; exists nd; auto | intros (nd' & E & H); inversion E; subst; auto].
  - split; [discriminate | intros (nd' & E & _); discriminate].
Qed.

Lemma wf_node_of : forall n nd, wf n = true -> In nd (nodes n) -> wf_node n nd = true.
Proof. unfold wf; intros n nd H Hin. rewrite forallb_forall in H. auto. Qed.

Lemma wf_driver_valid : forall n nd i q,
  wf n = true -> In nd (nodes n) -> nth_error (nins nd) i = Some (Some q) -> In q (all_outputs n).
Proof.
  intros n nd i q Hwf Hin Hi. pose proof (wf_node_of _ _ Hwf Hin) as H.
  unfold wf_node in H. apply andb_true_iff in H. destruct H as [_ H].
  rewrite forallb_forall in H. specialize (H (Some q) (nth_error_In _ _ Hi)). apply valid_port_In. exact H.
Qed.

Lemma flagged_from_nil : forall n dom l v,
  flagged_from n dom v l = [] <-> (forall nd, In nd l -> node_ok n dom nd = true).
Proof.
  induction l as [|x l IH]; intros v; simpl.
  - split; [intros _ nd [] | reflexivity].
  - split.
    + intros H nd [->|Hin].
      * destruct (node_ok n dom nd); auto. discriminate.
      * apply app_eq_nil in H. destruct H as [_ H]. apply (proj1 (IH _) H). exact Hin.
    + intros H. rewrite (H x (or_introl eq_refl)). simpl. apply IH. intros nd Hin. apply H. right; exact Hin.
Qed.

Lemma flagged_nil : forall n dom,
  flagged n dom = [] <-> (forall nd, In nd (nodes n) -> node_ok n dom nd = true).
Proof. intros. apply flagged_from_nil. Qed.

Lemma in_dep_drivers : forall nd deps q,
  In q (dep_drivers nd deps) <-> exists i, In i deps /\ nth_error (nins nd) i = Some (Some q).
Proof.
  intros. unfold dep_drivers. rewrite in_flat_map. split.
  - intros (i & Hi & Hq). exists i. split; auto.
    destruct (nth_error (nins nd) i) as [[q'|]|]; simpl in Hq; try contradiction.
    destruct Hq as [->|[]]. reflexivity.
  - intros (i & Hi & Hq). exists i. split; auto. rewrite Hq. left; reflexivity.
Qed.

Lemma input_clocks_nth : forall dom nd i q x,
  nth_error (nins nd) i = Some (Some q) -> dom q = Some x -> nth_error (input_clocks dom nd) i = Some x.
Proof.
  intros. unfold input_clocks. erewrite map_nth_error; eauto. simpl. rewrite H0. reflexivity.
Qed.

Lemma input_clocks_inv : forall dom nd i x,
  nth_error (input_clocks dom nd) i = Some x -> x <> SConst ->
  exists q, nth_error (nins nd) i = Some (Some q) /\ dom q = Some x.
Proof.
  intros dom nd i x H Hx. unfold input_clocks in H. rewrite nth_error_map in H.
  destruct (nth_error (nins nd) i) as [[q|]|]; simpl in H; try discriminate.
  - destruct (dom q) as [y|] eqn:E; inversion H; subst; try congruence. exists q. auto.
  - inversion H; subst. congruence.
Qed.

(* for dependent outputs (no clock named by the relation) the node uses the base rule *)
Lemma dependent_uses_base : forall n nd o d ds,
  wf_node n nd = true -> relation nd o = (d :: ds, []) -> uses_base_check (nkind nd) = true.
Proof.
  intros n nd o d ds Hwf Hr. unfold relation, base_relation in Hr. unfold wf_node in Hwf.
  destruct (nkind nd); try reflexivity.
  - discriminate.
  - destruct (nclocks nd); simpl in *; discriminate.
  - destruct (nclocks nd); simpl in *; discriminate.
  - discriminate.
Qed.

Lemma relation_deps_inputs : forall nd o deps cks i,
  relation nd o = (deps, cks) -> In i deps -> i < length (nins nd).
Proof.
  intros nd o deps cks i Hr Hi. unfold relation, base_relation in Hr.
  destruct (nkind nd); try (inversion Hr; subst; apply in_seq in Hi; lia).
  - inversion Hr; subst. contradiction.
  - destruct (N.eqb o 2); inversion Hr; subst; [contradiction|].
    apply filter_In in Hi. destruct Hi as [Hi _]. apply in_seq in Hi. lia.
  - inversion Hr; subst. contradiction.
Qed.

Lemma check_valid_base : forall ps nd ins,
  uses_base_check (nkind nd) = true -> check_valid ps nd ins = base_check ps nd ins.
Proof. intros ps nd ins H. unfold check_valid. destruct (nkind nd); try reflexivity; discriminate. Qed.

(* ------------------------------------------------------------------ *)
(* soundness                                                            *)

Definition covers (ps : clockid -> clockid) (x : scd) (s : src) : Prop :=
  match x, s with
  | SClock c, SrcClk d => ps c = ps d
  | SUnknown, SrcUnk => True
  | _, _ => False
  end.

Lemma covers_nonconst : forall ps x s, covers ps x s -> x <> SConst.
Proof. intros ps x s H E; subst; destruct s; simpl in H; contradiction. Qed.

Lemma covers_equiv : forall ps x y s, scd_equiv ps x y -> covers ps x s -> covers ps y s.
Proof.
  intros ps x y s He Hc. destruct x, y, s; simpl in *; try contradiction; auto. congruence.
Qed.

Lemma covers_same_dom : forall ps x s1 s2, covers ps x s1 -> covers ps x s2 -> same_dom ps s1 s2.
Proof. intros ps x s1 s2 H1 H2. destruct x, s1, s2; simpl in *; try contradiction; auto. congruence. Qed.

Section Sound.
  Variable n : netlist.
  Variable dom : port -> option scd.
  Hypothesis Hwf : wf n = true.
  Hypothesis Hok : domains_ok n dom = true.
  Hypothesis Hfl : flagged n dom = [].

  Let ps := pin_source n.

  Lemma out_ok_of : forall p, In p (all_outputs n) -> out_ok n dom p = true.
  Proof. intros p Hp. unfold domains_ok in Hok. rewrite forallb_forall in Hok. auto. Qed.

  Lemma node_ok_of : forall v nd, get_node n v = Some nd -> node_ok n dom nd = true.
  Proof. intros v nd H. apply (proj1 (flagged_nil n dom) Hfl). eapply get_node_In; eauto. Qed.

  Lemma infl_dom : forall s p, influences n s p -> exists x, dom p = Some x /\ covers ps x s.
  Proof.
    intros s p H.
    induction H as [p nd deps c rest Hin Hg Hr | p nd deps i q s Hin Hg Hr Hi Hq Hinf IH].
    - pose proof (out_ok_of p Hin) as Ho. unfold out_ok in Ho. rewrite Hg, Hr in Ho.
      exists (scd_of_clk c). split.
      + destruct deps; apply oscd_eqb_eq in Ho; exact Ho.
      + destruct c; simpl; auto.
    - destruct IH as (y & Ey & Cy).
      pose proof (out_ok_of p Hin) as Ho. unfold out_ok in Ho. rewrite Hg, Hr in Ho.
      destruct deps as [|d ds]; [contradiction|].
      assert (HqD : In q (dep_drivers nd (d :: ds))) by (apply in_dep_drivers; exists i; auto).
      pose proof (covers_nonconst _ _ _ Cy) as Hy.
      pose proof (get_node_In _ _ _ Hg) as Hnd.
      pose proof (wf_node_of _ _ Hwf Hnd) as Hwn.
      pose proof (dependent_uses_base _ _ _ _ _ Hwn Hr) as Hb.
      pose proof (node_ok_of _ _ Hg) as Hn. unfold node_ok in Hn. rewrite (check_valid_base _ _ _ Hb) in Hn.
      apply base_check_spec in Hn.
      assert (Hagree : forall x q', In q' (dep_drivers nd (d :: ds)) -> dom q' = Some x -> x <> SConst -> covers ps x s).
      { intros x q' Hq' Ex Hx. apply in_dep_drivers in Hq'. destruct Hq' as (j & Hj & Hqj).
        eapply covers_equiv; [|exact Cy].
        eapply (base_ok_agree ps nd (input_clocks dom nd) i j y x); eauto using input_clocks_nth. }
      destruct (dom p) as [x|] eqn:Ep.
      + destruct x.
        * apply existsb_exists in Ho. destruct Ho as (q' & Hq' & E'). apply oscd_eqb_eq in E'.
          exists SUnknown. split; auto. apply (Hagree SUnknown q' Hq' E'). discriminate.
        * rewrite forallb_forall in Ho. specialize (Ho q HqD). apply oscd_eqb_eq in Ho.
          rewrite Ey in Ho. inversion Ho; subst. congruence.
        * apply existsb_exists in Ho. destruct Ho as (q' & Hq' & E'). apply oscd_eqb_eq in E'.
          exists (SClock c). split; auto. apply (Hagree (SClock c) q' Hq' E'). discriminate.
      + apply andb_true_iff in Ho. destruct Ho as [Ho _]. rewrite forallb_forall in Ho.
        specialize (Ho q HqD). rewrite Ey in Ho. destruct y; simpl in Ho; try discriminate. congruence.
  Qed.

  Lemma infl_in_clocks : forall nd i s, infl_in n nd i s ->
    exists x, nth_error (input_clocks dom nd) i = Some x /\ covers ps x s.
  Proof.
    intros nd i s (q & Hq & Hinf). destruct (infl_dom _ _ Hinf) as (x & Ex & Cx).
    exists x. split; auto. eapply input_clocks_nth; eauto.
  Qed.

  Theorem one_domain_per_signal : forall p s1 s2,
    influences n s1 p -> influences n s2 p -> same_dom ps s1 s2.
  Proof.
    intros p s1 s2 H1 H2. destruct (infl_dom _ _ H1) as (x & E1 & C1). destruct (infl_dom _ _ H2) as (y & E2 & C2).
    rewrite E1 in E2. inversion E2; subst. eapply covers_same_dom; eauto.
  Qed.

  Theorem no_crossing : forall v, ~ crossing_at n v.
  Proof.
    intros v H. inversion H as [nd i j a b Hg Hb Hi Hj Hne | nd i j s Hg Hb Hij Hi Hj | nd c i s Hg Hb Hc Hi Hns | nd s Hg Hk Hi Hm | nd i s Hg Hk Hi Hm].
    - pose proof (node_ok_of _ _ Hg) as Hn. unfold node_ok in Hn. rewrite (check_valid_base _ _ _ Hb) in Hn.
      apply base_check_spec in Hn.
      destruct (infl_in_clocks _ _ _ Hi) as (x & Ex & Cx). destruct (infl_in_clocks _ _ _ Hj) as (y & Ey & Cy).
      destruct x, y; simpl in Cx, Cy; try contradiction.
      apply Hne. unfold ps in *. rewrite <- Cx, <- Cy. eapply base_ok_clocks; eauto.
    - pose proof (node_ok_of _ _ Hg) as Hn. unfold node_ok in Hn. rewrite (check_valid_base _ _ _ Hb) in Hn.
      apply base_check_spec in Hn.
      destruct (infl_in_clocks _ _ _ Hi) as (x & Ex & Cx). destruct (infl_in_clocks _ _ _ Hj) as (y & Ey & Cy).
      destruct x; simpl in Cx; try contradiction.
      pose proof (base_ok_unk _ _ _ _ _ _ Hn Hij Ex Ey). subst. eapply covers_nonconst; eauto.
    - pose proof (node_ok_of _ _ Hg) as Hn. unfold node_ok in Hn. rewrite (check_valid_base _ _ _ Hb) in Hn.
      apply base_check_spec in Hn.
      destruct (infl_in_clocks _ _ _ Hi) as (x & Ex & Cx).
      destruct (base_ok_own _ _ _ _ _ _ Hn Hc Ex) as [->|(a & -> & Ha)].
      + eapply covers_nonconst; eauto.
      + apply Hns. destruct s; simpl in *; try contradiction. unfold ps in *. congruence.
    - pose proof (node_ok_of _ _ Hg) as Hn. unfold node_ok, check_valid in Hn. rewrite Hk in Hn.
      destruct (infl_in_clocks _ _ _ Hi) as (x & Ex & Cx).
      unfold cdc_check in Hn. destruct (input_clocks dom nd) as [|x0 l]; [discriminate|].
      simpl in Ex. inversion Ex; subst x0.
      destruct x; simpl in Cx; try (destruct s; contradiction); try discriminate.
      destruct s; try contradiction.
      destruct (nth_error (nclocks nd) 0) as [[ic|]|]; try discriminate.
      apply Nat.eqb_eq in Hn. apply Hm. unfold ps in *. congruence.
    - pose proof (node_ok_of _ _ Hg) as Hn. unfold node_ok, check_valid in Hn. rewrite Hk in Hn.
      destruct (infl_in_clocks _ _ _ Hi) as (x & Ex & Cx).
      destruct (ext_check_true _ _ _ _ _ Hn Ex) as (c & Ec & Hp). rewrite Ec in Hm.
      destruct x; simpl in Cx, Hp; try (destruct s; contradiction); try discriminate.
      destruct s as [d|]; try contradiction.
      destruct c as [ic|]; try discriminate.
      apply Nat.eqb_eq in Hp. apply Hm. unfold ps in *. congruence.
  Qed.

  Theorem external_port_own_domain : forall v nd i q s,
    get_node n v = Some nd -> nkind nd = KExt ->
    nth_error (nins nd) i = Some (Some q) -> influences n s q ->
    exists d ic, s = SrcClk d /\ nth_error (ninclk nd) i = Some (Some ic) /\ ps d = ps ic.
  Proof.
    intros v nd i q s Hg Hk Hq Hinf.
    assert (Hin : infl_in n nd i s) by (exists q; auto).
    destruct s as [d|].
    - destruct (nth_error (ninclk nd) i) as [[ic|]|] eqn:E.
      + destruct (Nat.eq_dec (ps d) (ps ic)) as [He|He]; [exists d, ic; auto|].
        exfalso. apply (no_crossing v). apply (cr_ext n v nd i (SrcClk d) Hg Hk Hin). rewrite E. exact He.
      + exfalso. apply (no_crossing v). apply (cr_ext n v nd i (SrcClk d) Hg Hk Hin). rewrite E. exact I.
      + exfalso. apply (no_crossing v). apply (cr_ext n v nd i (SrcClk d) Hg Hk Hin). rewrite E. exact I.
    - exfalso. apply (no_crossing v). apply (cr_ext n v nd i SrcUnk Hg Hk Hin). exact I.
  Qed.

  (* the property's wording, spelled out for the individual node classes *)
  Lemma same_dom_dec : forall s1 s2, {same_dom ps s1 s2} + {~ same_dom ps s1 s2}.
  Proof.
    intros [a|] [b|]; simpl; auto. destruct (Nat.eq_dec (ps a) (ps b)); auto.
  Qed.

  Theorem clocked_node_own_domain : forall v nd c i q s,
    get_node n v = Some nd -> uses_base_check (nkind nd) = true -> own_clock nd = Some c ->
    nth_error (nins nd) i = Some (Some q) -> influences n s q ->
    same_dom ps s (SrcClk c).
  Proof.
    intros v nd c i q s Hg Hb Hc Hq Hinf.
    destruct (same_dom_dec s (SrcClk c)) as [H|H]; auto.
    exfalso. apply (no_crossing v). apply (cr_own n v nd c i s Hg Hb Hc); [exists q; auto | exact H].
  Qed.

  Theorem marker_input_own_domain : forall v nd q s,
    get_node n v = Some nd -> nkind nd = KCdc ->
    nth_error (nins nd) 0 = Some (Some q) -> influences n s q ->
    exists d ic, s = SrcClk d /\ nth_error (nclocks nd) 0 = Some (Some ic) /\ ps d = ps ic.
  Proof.
    intros v nd q s Hg Hk Hq Hinf.
    assert (Hin : infl_in n nd 0 s) by (exists q; auto).
    destruct s as [d|].
    - destruct (nth_error (nclocks nd) 0) as [[ic|]|] eqn:E.
      + destruct (Nat.eq_dec (ps d) (ps ic)) as [He|He]; [exists d, ic; auto|].
        exfalso. apply (no_crossing v). apply (cr_cdc n v nd (SrcClk d) Hg Hk Hin). rewrite E. exact He.
      + exfalso. apply (no_crossing v). apply (cr_cdc n v nd (SrcClk d) Hg Hk Hin). rewrite E. exact I.
      + exfalso. apply (no_crossing v). apply (cr_cdc n v nd (SrcClk d) Hg Hk Hin). rewrite E. exact I.
    - exfalso. apply (no_crossing v). apply (cr_cdc n v nd SrcUnk Hg Hk Hin). exact I.
  Qed.
End Sound.

(* ------------------------------------------------------------------ *)
(* completeness                                                         *)

Definition src_of_scd (x : scd) : src := match x with SClock c => SrcClk c | _ => SrcUnk end.

(* every non-constant entry of the map is backed by a real path from a source of that domain *)
Definition justified (n : netlist) (dom : port -> option scd) : Prop :=
  forall p x, In p (all_outputs n) -> dom p = Some x -> x <> SConst -> influences n (src_of_scd x) p.

Section Complete.
  Variable n : netlist.
  Variable dom : port -> option scd.
  Hypothesis Hwf : wf n = true.
  Hypothesis Hj : justified n dom.
  Hypothesis Hnc : ~ has_crossing n.

  Let ps := pin_source n.

  Lemma input_infl : forall nd i x, In nd (nodes n) ->
    nth_error (input_clocks dom nd) i = Some x -> x <> SConst -> infl_in n nd i (src_of_scd x).
  Proof.
    intros nd i x Hnd Hi Hx. destruct (input_clocks_inv _ _ _ _ Hi Hx) as (q & Hq & Eq).
    exists q. split; auto. apply Hj; auto. eapply wf_driver_valid; eauto.
  Qed.

  Theorem accepted : flagged n dom = [].
  Proof.
    apply flagged_nil. intros nd Hnd. destruct (In_get_node _ _ Hnd) as [v Hg].
    unfold node_ok. destruct (check_valid (pin_source n) nd (input_clocks dom nd)) eqn:E; auto.
    exfalso. apply Hnc. exists v. unfold check_valid in E.
    destruct (uses_base_check (nkind nd)) eqn:Hb.
    - assert (Eb : base_check (pin_source n) nd (input_clocks dom nd) = false) by (destruct (nkind nd); auto; discriminate).
      destruct (base_not_ok _ _ _ Eb) as [(i & j & a & b & Hi & Hj' & Hne) | [(i & j & x & Hij & Hi & Hj' & Hx) | (c & i & x & Hc & Hi & Hx)]].
      + eapply cr_mix; eauto.
        * apply (input_infl nd i (SClock a)); auto; discriminate.
        * apply (input_infl nd j (SClock b)); auto; discriminate.
      + eapply cr_unk; eauto.
        * apply (input_infl nd i SUnknown); auto; discriminate.
        * apply (input_infl nd j x); auto.
      + destruct Hx as [->|(a & -> & Hne)].
        * eapply cr_own; eauto. apply (input_infl nd i SUnknown); auto; discriminate. simpl. auto.
        * eapply cr_own; eauto. apply (input_infl nd i (SClock a)); auto; discriminate. simpl. exact Hne.
    - destruct (nkind nd) eqn:Hk; try discriminate; [|
        (* external module *)
        pose proof (wf_node_of _ _ Hwf Hnd) as Hw; unfold wf_node in Hw; rewrite Hk in Hw;
        apply andb_true_iff in Hw; destruct Hw as [Hw _]; apply Nat.eqb_eq in Hw;
        assert (El : length (input_clocks dom nd) = length (ninclk nd))
          by (unfold input_clocks; rewrite map_length; symmetry; exact Hw);
        destruct (ext_check_false _ _ _ E El) as (i & x & c & Hi & Hc & Hp);
        assert (Hx : x <> SConst) by (intro; subst; discriminate);
        pose proof (input_infl nd i x Hnd Hi Hx) as Hin;
        apply (cr_ext n v nd i (src_of_scd x) Hg Hk Hin); rewrite Hc;
        destruct x; simpl; auto; destruct c as [ic|]; auto;
        simpl in Hp; apply Nat.eqb_neq; exact Hp ].
      unfold cdc_check in E.
      destruct (input_clocks dom nd) as [|x l] eqn:Ei.
      + pose proof (wf_node_of _ _ Hwf Hnd) as Hw. unfold wf_node in Hw. rewrite Hk in Hw.
        unfold input_clocks in Ei. destruct (nins nd); simpl in *; discriminate.
      + assert (Hx : nth_error (input_clocks dom nd) 0 = Some x) by (rewrite Ei; reflexivity).
        destruct x; try discriminate.
        * assert (Hin : infl_in n nd 0 SrcUnk) by (apply (input_infl nd 0 SUnknown); auto; discriminate).
          apply (cr_cdc n v nd SrcUnk Hg Hk Hin). exact I.
        * assert (Hin : infl_in n nd 0 (SrcClk c)) by (apply (input_infl nd 0 (SClock c)); auto; discriminate).
          apply (cr_cdc n v nd (SrcClk c) Hg Hk Hin).
          destruct (nth_error (nclocks nd) 0) as [[ic|]|]; auto.
          apply Nat.eqb_neq. exact E.
  Qed.
End Complete.

(* On a netlist without combinational loops every map satisfying the fixpoint characterisation
   is justified (on cyclic netlists a loop could "justify itself"; the worklist never produces
   such a map -- see CdcWorklist.worklist_justified). *)
Definition acyclic (n : netlist) : Prop :=
  exists rank : port -> nat,
    forall p nd deps i q, In p (all_outputs n) -> get_node n (fst p) = Some nd ->
      relation nd (snd p) = (deps, []) -> In i deps -> nth_error (nins nd) i = Some (Some q) ->
      rank q < rank p.

Lemma acyclic_justified : forall n dom,
  wf n = true -> acyclic n -> domains_ok n dom = true -> justified n dom.
Proof.
  intros n dom Hwf [rank Hr] Hok.
  assert (H : forall k p x, rank p < k -> In p (all_outputs n) -> dom p = Some x -> x <> SConst ->
                            influences n (src_of_scd x) p).
  { induction k as [|k IH]; intros p x Hk Hp Ep Hx; [lia|].
    unfold domains_ok in Hok. rewrite forallb_forall in Hok. pose proof (Hok p Hp) as Ho.
    unfold out_ok in Ho. destruct (get_node n (fst p)) as [nd|] eqn:Hg; [|discriminate].
    destruct (relation nd (snd p)) as [deps cks] eqn:Hrel.
    assert (Hclk : forall c rest, cks = c :: rest -> oscd_eqb (dom p) (Some (scd_of_clk c)) = true ->
                                  influences n (src_of_scd x) p).
    { intros c rest -> Hc. apply oscd_eqb_eq in Hc. rewrite Ep in Hc. inversion Hc; subst.
      replace (src_of_scd (scd_of_clk c)) with (src_of c) by (destruct c; reflexivity).
      eapply infl_src; eauto. }
    destruct deps as [|d ds]; destruct cks as [|c rest]; try (eapply Hclk; eauto; fail).
    - apply oscd_eqb_eq in Ho. rewrite Ep in Ho. inversion Ho; subst. congruence.
    - rewrite Ep in Ho.
      assert (exists q, In q (dep_drivers nd (d :: ds)) /\ dom q = Some x) as (q & Hq & Eq).
      { destruct x; try congruence; apply existsb_exists in Ho; destruct Ho as (q & Hq & E);
          apply oscd_eqb_eq in E; exists q; auto. }
      apply in_dep_drivers in Hq. destruct Hq as (i & Hi & Hqi).
      eapply infl_step; eauto.
      apply IH; auto.
      + specialize (Hr p nd (d :: ds) i q Hp Hg Hrel Hi Hqi). lia.
      + eapply wf_driver_valid; eauto. eapply get_node_In; eauto. }
  intros p x Hp Ep Hx. eapply (H (S (rank p))); eauto.
Qed.

Theorem complete_acyclic : forall n dom,
  wf n = true -> acyclic n -> domains_ok n dom = true -> ~ has_crossing n -> flagged n dom = [].
Proof. intros. apply accepted; auto. apply acyclic_justified; auto. Qed.

(* ------------------------------------------------------------------ *)
(* packaged statements                                                  *)

Theorem cdc_sound_thm : forall n dom,
  wf n = true -> domains_ok n dom = true -> flagged n dom = [] ->
  (forall p s1 s2, influences n s1 p -> influences n s2 p -> same_dom (pin_source n) s1 s2)
  /\ ~ has_crossing n.
Proof.
  intros n dom Hwf Hok Hfl. split.
  - intros p s1 s2. apply (one_domain_per_signal n dom Hwf Hok Hfl).
  - intros [v H]. exact (no_crossing n dom Hwf Hok Hfl v H).
Qed.

Theorem cdc_sound_nodes_thm : forall n dom,
  wf n = true -> domains_ok n dom = true -> flagged n dom = [] ->
  (forall v nd c i q s,
      get_node n v = Some nd -> uses_base_check (nkind nd) = true -> own_clock nd = Some c ->
      nth_error (nins nd) i = Some (Some q) -> influences n s q ->
      same_dom (pin_source n) s (SrcClk c))
  /\ (forall v nd q s,
      get_node n v = Some nd -> nkind nd = KCdc ->
      nth_error (nins nd) 0 = Some (Some q) -> influences n s q ->
      exists d ic, s = SrcClk d /\ nth_error (nclocks nd) 0 = Some (Some ic)
                   /\ pin_source n d = pin_source n ic).
Proof.
  intros n dom Hwf Hok Hfl. split.
  - apply (clocked_node_own_domain n dom Hwf Hok Hfl).
  - apply (marker_input_own_domain n dom Hwf Hok Hfl).
Qed.

Theorem cdc_sound_external_thm : forall n dom,
  wf n = true -> domains_ok n dom = true -> flagged n dom = [] ->
  forall v nd i q s,
    get_node n v = Some nd -> nkind nd = KExt ->
    nth_error (nins nd) i = Some (Some q) -> influences n s q ->
    exists d ic, s = SrcClk d /\ nth_error (ninclk nd) i = Some (Some ic)
                 /\ pin_source n d = pin_source n ic.
Proof. intros n dom Hwf Hok Hfl. apply (external_port_own_domain n dom Hwf Hok Hfl). Qed.

(* contrapositive of soundness: a design with an unmarked crossing is rejected *)
Theorem crossing_rejected_thm : forall n dom,
  wf n = true -> domains_ok n dom = true -> has_crossing n -> flagged n dom <> [].
Proof.
  intros n dom Hwf Hok Hc Hfl. destruct (cdc_sound_thm n dom Hwf Hok Hfl) as [_ H]. exact (H Hc).
Qed.

(* ------------------------------------------------------------------ *)
(* sinks must be clocked                                                *)

(* the hole: a base-rule node without own clock accepts a single input of ANY domain *)
Lemma clockless_sink_unchecked : forall ps nd x,
  uses_base_check (nkind nd) = true -> own_clock nd = None ->
  check_valid ps nd [x; SConst] = true.
Proof.
  intros ps nd x Hb Hc. rewrite (check_valid_base _ _ _ Hb). unfold base_check. rewrite Hc.
  destruct x; reflexivity.
Qed.

(* with every sink clocked, acceptance means: every input of every register, pin and memory port
   (enable, write enable, address, write data, ...) is only reached by that node's own clock domain *)
Theorem cdc_sound_sinks_thm : forall n dom,
  wf n = true -> domains_ok n dom = true -> flagged n dom = [] -> sinks_clocked n = true ->
  forall v nd i q s,
    get_node n v = Some nd -> is_sink_kind (nkind nd) = true ->
    nth_error (nins nd) i = Some (Some q) -> influences n s q ->
    exists c, own_clock nd = Some c /\ same_dom (pin_source n) s (SrcClk c).
Proof.
  intros n dom Hwf Hok Hfl Hs v nd i q s Hg Hk Hq Hinf.
  unfold sinks_clocked in Hs. rewrite forallb_forall in Hs.
  pose proof (Hs nd (get_node_In _ _ _ Hg)) as H. unfold sink_clocked in H. rewrite Hk in H.
  assert (Hi : has_input nd = true).
  { unfold has_input. apply existsb_exists. exists (Some q). split; [eapply nth_error_In; eauto | reflexivity]. }
  rewrite Hi in H. simpl in H.
  destruct (own_clock nd) as [c|] eqn:Ec; [|discriminate].
  exists c. split; auto.
  eapply (clocked_node_own_domain n dom Hwf Hok Hfl v nd c i q s); eauto.
  destruct (nkind nd); try reflexivity; discriminate.
Qed.
