(* C03 layer (b): the frontend operators on Bit / UInt / SInt / BVec as the node graphs the
   frontend builds, evaluated with NodeSemDefs.eval.  Model only - no proofs in this file.

   Read off (file:function)
     Signal.h / Signal.cpp        NormalizedWidthOperands, SignalReadPort::expand (expansion policy)
     BitVector.cpp                literals (assign(uint64/int64/string_view)), conditional assign (mux)
     UInt.cpp SInt.cpp BVec.cpp   ext / zext / oext / sext  (BitWidth, BitExtend, BitReduce forms)
     SignalArithmeticOp.h/.cpp    add sub mul div rem, Bit operands, addC, signed mul, abs
     SignalLogicOp.h/.cpp         land lor lxor lnand lnor lxnor lnot, Bit broadcast (sext_bit)
     SignalCompareOp.h/.cpp       eq neq lt gt leq geq, signed lt via the (w+1)-bit difference
     SignalBitshiftOp.h/.cpp      static shl/shr/rot (Node_Rewire), dynamic shifts (Node_Shift),
                                  shr(x, n, arithmetic), shr(x, amount, arithmetic)
     BitVectorSlice.cpp           static slices, dynamic bit / slice (mux of extracts)
     Pack.h                       cat / pack
     SignalMiscOp.h               mux(selector, table)
     simulation/BitVectorState.cpp parseBitVector (string literals), parseBitVector(value, width)

   A frontend value is described by its signal type, its expansion policy and its 4-state bits
   (LSB first; the width is the length).  Every primitive below builds exactly the hlim nodes
   the C++ builds (plus the expansion rewires) and evaluates each with [eval]; composite
   operators (abs, signed mul, signed compare, arithmetic shift right) are written as the same
   sequence of frontend calls as the C++.  [None] = rejected by a HCL_DESIGNCHECK at construction.

   Not modelled: ConnectionType BOOL/BITVEC (only decides whether an extra identity rewire is
   inserted); Node_Signal forwarding nodes between operators (identity). *)
From Gatery Require Import Bits NodeSemDefs.
Import ListNotations.

Inductive sty := TU | TS | TV | TB.                 (* UInt, SInt, BVec, Bit *)
Inductive pol := PNone | PZero | POne | PSign.      (* enum class Expansion *)

Record sval := mk_sval { sv_ty : sty; sv_pol : pol; sv_bits : bv }.
Definition sv_w (a : sval) : nat := length (sv_bits a).

Definition sty_eqb (a b : sty) : bool :=
  match a, b with TU, TU | TS, TS | TV, TV | TB, TB => true | _, _ => false end.
Definition is_vec (t : sty) : bool := match t with TB => false | _ => true end.

Definition bind {A B : Type} (o : option A) (f : A -> option B) : option B :=
  match o with Some a => f a | None => None end.
Notation "x <- e ;; f" := (bind e (fun x => f)) (at level 61, e at next level, right associativity).

Definition ret (t : sty) (p : pol) (x : bv) : option sval := Some (mk_sval t p x).

(* one hlim node with all inputs connected: its output 0 *)
Definition node1 (k : node_kind) (args : list bv) : bv := nth 0 (eval k (map (@Some bv) args)) [].

(* ------------------------------------------------------------------ *)
(* Rewire operations                                                     *)

(* RewireOperation::addInput / addConstant: empty ranges are dropped *)
Definition rw_add (rs : list rw_range) (w : nat) (s : rw_source) : list rw_range :=
  if w =? 0 then rs else rs ++ [mk_range w s].

(* Node_Rewire::setPadTo(width, padding) *)
Definition pad_const (wa w : nat) (s : rw_source) : list rw_range :=
  rw_add (rw_add [] (min w wa) (RW_INPUT 0 0)) (w - wa) s.
(* Node_Rewire::setPadTo(width): replicate the top bit (one range per added bit) *)
Definition pad_sign (wa w : nat) : list rw_range :=
  rw_add [] (min w wa) (RW_INPUT 0 0) ++ repeat (mk_range 1 (RW_INPUT 0 (wa - 1))) (w - wa).
(* Node_Rewire::setExtract(offset, count): bits beyond the input are CONST_UNDEFINED *)
Definition extract_ranges (inw off cnt : nat) : list rw_range :=
  let r1 := if off <? inw then rw_add [] (min (off + cnt) inw - off) (RW_INPUT 0 off) else [] in
  if inw <? off + cnt then rw_add r1 (min (off + cnt - inw) cnt) RW_UNDEF else r1.
(* BitVectorSliceStatic::readPort: op.addInput(0, offset, width) *)
Definition slice_ranges (off w : nat) : list rw_range := rw_add [] w (RW_INPUT 0 off).

Definition bit_of (x : bv) (i : nat) : bv := node1 (KRewire (slice_ranges i 1)) [x].

(* ------------------------------------------------------------------ *)
(* SignalReadPort::expand (Signal.cpp)                                   *)

Definition expand (p : pol) (x : bv) (w : nat) : option bv :=
  let wa := length x in
  if w <? wa then None                                   (* "signal width cannot be implicitly decreased" *)
  else if wa =? w then Some x                            (* (a retyping rewire, if any, is the identity) *)
  else match p with
       | PNone => None                                   (* "missmatching operands size and no expansion policy specified" *)
       | PZero => Some (node1 (KRewire (pad_const wa w RW_ZERO)) [x])
       | POne => Some (node1 (KRewire (pad_const wa w RW_ONE)) [x])
       | PSign => if wa =? 0 then None                   (* setPadTo: HCL_DESIGNCHECK(type0.width > 0) *)
                  else Some (node1 (KRewire (pad_sign wa w)) [x])
       end.

(* NormalizedWidthOperands *)
Definition norm (a b : sval) : option (bv * bv) :=
  let w := max (sv_w a) (sv_w b) in
  xa <- expand (sv_pol a) (sv_bits a) w ;;
  xb <- expand (sv_pol b) (sv_bits b) w ;;
  Some (xa, xb).

(* ------------------------------------------------------------------ *)
(* Literals                                                              *)

(* parseBitVector(uint64_t value, size_t width): the low min(64, width) bits of value, zeros above *)
Definition const_bits (v : N) (w : nat) : bv := bv_of_N w (v mod 2 ^ 64)%N.

(* utils::Log2C(v + 1) for v < 2^64 - 1, and the special case 64 for v = 2^64 - 1: the bit length *)
Definition nbits (v : N) : nat := N.to_nat (N.size v).

(* BaseBitVector::assign(std::uint64_t) *)
Definition lit_uint (v : N) : bv := const_bits v (nbits v).
(* BaseBitVector::assign(std::int64_t): width = Log2C(value+1)+1 resp. Log2C(~value+1)+1;
   the constant is uint64_t(value) cut to that width *)
Definition lit_sint_width (z : Z) : nat :=
  if (0 <=? z)%Z then S (nbits (Z.to_N z)) else S (nbits (Z.to_N (- z - 1))).
Definition lit_sint (z : Z) : bv := const_bits (Z.to_N (z mod 2 ^ 64)) (lit_sint_width z).

(* string literals: [<width>](b|o|x)<digits> ; a digit is Some value or None (x/X = undefined) *)
Inductive lit_base := LB_BIN | LB_OCT | LB_HEX.
Definition base_bps (b : lit_base) : nat := match b with LB_BIN => 1 | LB_OCT => 3 | LB_HEX => 4 end.
Definition digit_bits (bps : nat) (d : option N) : bv :=
  match d with Some v => bv_of_N bps v | None => all_X bps end.
(* digits MSB first, as written *)
Definition lit_str (wopt : nat) (b : lit_base) (digits : list (option N)) : option bv :=
  let bps := base_bps b in
  let body := concat (map (digit_bits bps) (rev digits)) in
  if wopt =? 0 then Some body
  else if wopt <? length body then None     (* "string UInt constant width is to small for its value" *)
  else Some (body ++ repeat B0 (wopt - length body)).
(* [<width>]d<decimal> *)
Definition lit_dec (wopt : nat) (n : N) : option bv :=
  let w := nbits n in
  if wopt =? 0 then Some (bv_of_N w n)
  else if wopt <? w then None
  else Some (bv_of_N wopt n).

Definition lit_pol (t : sty) : pol := match t with TU => PZero | TS => PSign | _ => PNone end.

(* ------------------------------------------------------------------ *)
(* ext / zext / oext / sext                                              *)

Definition default_ext_pol (t : sty) : pol := match t with TS => PSign | _ => PZero end.

(* ext(x, BitWidth w, policy)  (Bit operand: result UInt, "ext is not allowed to reduce width" for w = 0) *)
Definition fe_ext_to (p : pol) (w : nat) (a : sval) : option sval :=
  let wa := sv_w a in
  let t := match sv_ty a with TB => TU | t => t end in
  if w <? wa then None
  else if wa <? w then x <- expand p (sv_bits a) w ;; ret t p x
  else ret t p (sv_bits a).

(* ext(x, BitExtend n, policy) *)
Definition fe_ext_by (p : pol) (n : nat) (a : sval) : option sval :=
  let t := match sv_ty a with TB => TU | t => t end in
  if n =? 0 then ret t p (sv_bits a)
  else x <- expand p (sv_bits a) (sv_w a + n) ;; ret t p x.

(* ext(x, BitReduce d, policy): HCL_DESIGNCHECK(d >= size); expand(size - d) in uint64 arithmetic.
   d < size: rejected by the check; d = size > 0: rejected by expand (cannot decrease);
   d > size: ACCEPTED with the nonsensical width 2^64 - (d - size) - reported as [Some] of an
   empty marker here is impossible, so the model rejects it as well and the generator never
   produces it (see Properties_C03b: ext_reduce_rejected). *)
Definition fe_ext_reduce (p : pol) (d : nat) (a : sval) : option sval :=
  if (d =? 0) && (sv_w a =? 0) then ret (sv_ty a) p (sv_bits a) else None.

(* ------------------------------------------------------------------ *)
(* Slices                                                                *)

(* x(off, w): "Slice offset+width is larger than source width!" *)
Definition fe_slice (off w : nat) (a : sval) : option sval :=
  if sv_w a <? off + w then None
  else ret (sv_ty a) (sv_pol a) (node1 (KRewire (slice_ranges off w)) [sv_bits a]).

Definition fe_upper (w : nat) (a : sval) := if sv_w a <? w then None else fe_slice (sv_w a - w) w a.
Definition fe_lower (w : nat) (a : sval) := fe_slice 0 w a.
(* upper(-r_b) = x(r, size - r) ; lower(-r_b) = x(0, size - r) *)
Definition fe_upperR (r : nat) (a : sval) := if sv_w a <? r then None else fe_slice r (sv_w a - r) a.
Definition fe_lowerR (r : nat) (a : sval) := if sv_w a <? r then None else fe_slice 0 (sv_w a - r) a.

(* x[i], msb(), lsb(): Bit aliases ; HCL_DESIGNCHECK(idx < size) / width != 0 *)
Definition fe_bit (i : nat) (a : sval) : option sval :=
  if i <? sv_w a then ret TB PNone (bit_of (sv_bits a) i) else None.
Definition fe_msb (a : sval) : option sval := if sv_w a =? 0 then None else fe_bit (sv_w a - 1) a.
Definition fe_lsb (a : sval) : option sval := fe_bit 0 a.
(* x[int idx] = aliasVec()[(size + idx) % size] ; modelled for -size <= idx *)
Definition fe_bitn (i : Z) (a : sval) : option sval :=
  let w := sv_w a in
  if w =? 0 then None
  else if (i <? - Z.of_nat w)%Z then None
  else fe_bit (Z.to_nat ((Z.of_nat w + i) mod Z.of_nat w)) a.

(* ------------------------------------------------------------------ *)
(* Logic                                                                 *)

Definition fe_not (a : sval) : option sval :=
  ret (sv_ty a) PNone (node1 (KLogic L_NOT (sv_w a)) [sv_bits a]).

(* internal_logic::sext_bit: a Bit operand becomes sext(bit) = 1 bit UInt with Expansion::sign *)
Definition sext_bit (a : sval) : sval :=
  match sv_ty a with TB => mk_sval TU PSign (sv_bits a) | _ => a end.

Definition fe_logic (op : logic_op) (a b : sval) : option sval :=
  let t := if is_vec (sv_ty a) then Some (sv_ty a) else if is_vec (sv_ty b) then Some (sv_ty b) else Some TB in
  let ok := sty_eqb (sv_ty a) (sv_ty b) || negb (is_vec (sv_ty a)) || negb (is_vec (sv_ty b)) in
  if negb ok then None else
  let a' := if sty_eqb (sv_ty a) (sv_ty b) then a else sext_bit a in
  let b' := if sty_eqb (sv_ty a) (sv_ty b) then b else sext_bit b in
  xy <- norm a' b' ;;
  t' <- t ;;
  ret t' PNone (node1 (KLogic op (length (fst xy))) [fst xy; snd xy]).

(* ------------------------------------------------------------------ *)
(* Arithmetic                                                            *)

Definition zext_bit (a : sval) : sval :=
  match sv_ty a with TB => mk_sval TU PZero (sv_bits a) | _ => a end.

(* makeNode(Node_Arithmetic::Op, {lhs, rhs}) *)
Definition fe_arith_node (op : arith_op) (t : sty) (a b : sval) : option sval :=
  xy <- norm a b ;;
  ret t PNone (node1 (KArith op (length (fst xy))) [fst xy; snd xy]).

(* IF (c) target = v : Node_Multiplexer(2), input 0 = previous value, input 1 = v *)
Definition cond_assign (c old new : bv) : bv := node1 (KMux 2 (length new)) [c; old; new].

Definition lit_one : sval := mk_sval TU PZero [B1].

(* UInt abs(const SInt &v): res = zext((UInt) v); IF (v.sign()) res = ~(UInt)v + 1;
   the magnitude carries Expansion::zero (repair 10eda73; before, it inherited v's policy and the
   magnitude 100..0 of the most negative value of a sign-policy operand was sign extended) *)
Definition fe_abs (v : sval) : option sval :=
  let x := sv_bits v in
  s <- fe_msb v ;;
  nx <- fe_not (mk_sval TU (sv_pol v) x) ;;
  neg <- fe_arith_node A_ADD TU nx lit_one ;;
  ret TU PZero (cond_assign (sv_bits s) x (sv_bits neg)).

(* SInt mul(const SInt&, const SInt&)  (SignalArithmeticOp.cpp:49-67) *)
Definition fe_mul_sint (a b : sval) : option sval :=
  if sv_w a =? sv_w b then
    fe_arith_node A_MUL TS (mk_sval TU (sv_pol a) (sv_bits a)) (mk_sval TU (sv_pol b) (sv_bits b))
  else
    ls <- fe_msb a ;; rs <- fe_msb b ;;
    sgn <- fe_logic L_XOR ls rs ;;
    al <- fe_abs a ;; ar <- fe_abs b ;;
    absRes <- fe_arith_node A_MUL TU al ar ;;
    nres <- fe_not absRes ;;
    neg <- fe_arith_node A_ADD TU nres lit_one ;;
    ret TS PNone (cond_assign (sv_bits sgn) (sv_bits absRes) (sv_bits neg)).

Definition fe_arith (op : arith_op) (a b : sval) : option sval :=
  match sv_ty a, sv_ty b with
  | TU, TU => fe_arith_node op TU a b
  | TS, TS => match op with
              | A_ADD | A_SUB => fe_arith_node op TS a b
              | A_MUL => fe_mul_sint a b
              | _ => None                                (* div and rem are reserved for unsigned *)
              end
  | TU, TB | TS, TB => match op with
                       | A_ADD | A_SUB => fe_arith_node op (sv_ty a) a (zext_bit b)
                       | _ => None end
  | TB, TU => match op with A_ADD => fe_arith_node op TU (zext_bit a) b | _ => None end
  | TB, TS => match op with A_ADD | A_SUB => fe_arith_node op TS (zext_bit a) b | _ => None end
  | _, _ => None
  end.

(* addC(lhs, rhs, carryIn): three operand ADD, carry zext'ed to the operand width (must not be 0) *)
Definition fe_addc (a b c : sval) : option sval :=
  match sv_ty a, sv_ty b, sv_ty c with
  | TU, TU, TB =>
      xy <- norm a b ;;
      let w := length (fst xy) in
      zc <- fe_ext_to PZero w c ;;
      ret TU PNone (node1 (KArith A_ADD w) [fst xy; snd xy; sv_bits zc])
  | _, _, _ => None
  end.

(* ------------------------------------------------------------------ *)
(* Compare                                                               *)

Definition fe_cmp_node (op : cmp_op) (a b : sval) : option sval :=
  xy <- norm a b ;;
  ret TB PNone (node1 (KCompare op) [fst xy; snd xy]).

(* Bit lt(const SInt&, const SInt&): (sext(lhs, w) - sext(rhs, w)).sign() with w = max + 1 *)
Definition fe_lt_sint (a b : sval) : option sval :=
  let w := S (max (sv_w a) (sv_w b)) in
  xa <- fe_ext_to PSign w a ;;
  xb <- fe_ext_to PSign w b ;;
  d <- fe_arith_node A_SUB TS xa xb ;;
  fe_msb d.

Definition fe_cmp (op : cmp_op) (a b : sval) : option sval :=
  match sv_ty a, sv_ty b with
  | TS, TS =>
      match op with
      | C_EQ | C_NEQ => fe_cmp_node op a b
      | C_LT => fe_lt_sint a b
      | C_GT => fe_lt_sint b a
      | C_GEQ => r <- fe_lt_sint a b ;; fe_not r
      | C_LEQ => r <- fe_lt_sint b a ;; fe_not r
      end
  | TU, TU => fe_cmp_node op a b
  | TV, TV | TB, TB | TU, TV | TV, TU | TS, TV | TV, TS =>
      match op with C_EQ | C_NEQ => fe_cmp_node op a b | _ => None end
  | _, _ => None
  end.

(* ------------------------------------------------------------------ *)
(* Shifts and rotates                                                    *)

(* rightShiftRewireOp / leftShiftRewireOp (ranges are pushed directly, empty ones included) *)
Definition right_shift_ranges (w amount : nat) (f : shift_fill) : list rw_range :=
  (if amount <? w then [mk_range (w - amount) (RW_INPUT 0 amount)] else []) ++
  match f with
  | F_ROTATE => [mk_range amount (RW_INPUT 0 0)]
  | F_LAST => repeat (mk_range 1 (RW_INPUT 0 (w - 1))) amount
  | F_ONE => [mk_range amount RW_ONE]
  | F_ZERO => [mk_range amount RW_ZERO]
  end.
Definition left_shift_ranges (w amount : nat) (f : shift_fill) : list rw_range :=
  match f with
  | F_ROTATE => [mk_range amount (RW_INPUT 0 (w - amount))]
  | F_LAST => repeat (mk_range 1 (RW_INPUT 0 0)) amount
  | F_ONE => [mk_range amount RW_ONE]
  | F_ZERO => [mk_range amount RW_ZERO]
  end ++
  (if amount <? w then [mk_range (w - amount) (RW_INPUT 0 0)] else []).

(* template shift<T, direction>(operand, amount, fill); since repair 22d8596 the amount is
   clamped first: rotate -> amount % width (0 for width 0), other fills -> min(amount, width);
   fill::last on a zero-width operand becomes fill::zero *)
Definition static_shift (d : shift_dir) (f : shift_fill) (x : bv) (amount : nat) : bv :=
  let w := length x in
  let amount := match f with
                | F_ROTATE => if w =? 0 then 0 else amount mod w
                | _ => min amount w
                end in
  let f := match f with F_LAST => if w =? 0 then F_ZERO else F_LAST | _ => f end in
  node1 (KRewire (match d with SH_RIGHT => right_shift_ranges w amount f
                             | SH_LEFT => left_shift_ranges w amount f end)) [x].

Definition fe_shl (n : nat) (a : sval) : option sval :=
  if is_vec (sv_ty a) then ret (sv_ty a) PNone (static_shift SH_LEFT F_ZERO (sv_bits a) n) else None.
Definition fe_shr (n : nat) (a : sval) : option sval :=
  match sv_ty a with
  | TS => ret TS PNone (static_shift SH_RIGHT F_LAST (sv_bits a) n)
  | TU | TV => ret (sv_ty a) PNone (static_shift SH_RIGHT F_ZERO (sv_bits a) n)
  | TB => None
  end.
(* rot(signal, int amount): amount > 0 rotates left, otherwise right by |amount| ;
   rotl(x, n) = rot(x, n), rotr(x, n) = rot(x, -n) *)
Definition fe_rot (amount : Z) (a : sval) : option sval :=
  if is_vec (sv_ty a) then
    ret (sv_ty a) PNone
        (if (0 <? amount)%Z then static_shift SH_LEFT F_ROTATE (sv_bits a) (Z.to_nat amount)
         else static_shift SH_RIGHT F_ROTATE (sv_bits a) (Z.abs_nat amount))
  else None.

(* internal_shift: Node_Shift ; the simulator rejects amounts wider than 64 bit *)
Definition fe_dshift (d : shift_dir) (f : shift_fill) (a amt : sval) : option sval :=
  match sv_ty amt with
  | TU => if negb (is_vec (sv_ty a)) then None
          else if 64 <? sv_w amt then None
          else ret (sv_ty a) PNone (node1 (KShift d f (sv_w a)) [sv_bits a; sv_bits amt])
  | _ => None
  end.
(* operator<< / operator>> with a UInt amount: shl = zshl; shr = zshr, for SInt sshr *)
Definition fe_dshl (a amt : sval) := fe_dshift SH_LEFT F_ZERO a amt.
Definition fe_dshr (a amt : sval) :=
  fe_dshift SH_RIGHT (match sv_ty a with TS => F_LAST | _ => F_ZERO end) a amt.

(* cat / pack: Node_Rewire::setConcat over all operands (cat: reverse parameter order) *)
Definition concat_ranges (ws : list nat) : list rw_range :=
  map (fun iw => mk_range (snd iw) (RW_INPUT (fst iw) 0)) (combine (seq 0 (length ws)) ws).
Definition fe_pack (args : list sval) : option sval :=
  ret TU PNone (node1 (KRewire (concat_ranges (map sv_w args))) (map sv_bits args)).
Definition fe_cat (args : list sval) : option sval := fe_pack (rev args).

(* UInt shr(const UInt& signal, size_t amount, const Bit& arithmetic) *)
Definition fe_shra (n : nat) (a arith : sval) : option sval :=
  match sv_ty a, sv_ty arith with
  | TU, TB =>
      m <- fe_msb a ;;
      inShift <- fe_logic L_AND arith m ;;
      hi <- fe_ext_to PSign n inShift ;;                 (* sext(inShift, BitWidth{amount}): amount = 0 rejected *)
      if sv_w a <? n then None else                      (* signal(amount, width - amount) *)
      lo <- fe_slice n (sv_w a - n) a ;;
      fe_cat [hi; lo]
  | _, _ => None
  end.

(* UInt shr(const UInt& signal, const UInt& amount, const Bit& arithmetic):
   acc = signal; for i < amount.width: IF (amount[i]) acc = shr(acc, 1 << i, arithmetic) *)
Fixpoint dshra_loop (fuel i : nat) (acc : sval) (amt arith : sval) : option sval :=
  match fuel with
  | O => Some acc
  | S fuel' =>
      c <- fe_bit i amt ;;
      s <- fe_shra (2 ^ i) acc arith ;;
      dshra_loop fuel' (S i) (mk_sval TU (sv_pol acc) (cond_assign (sv_bits c) (sv_bits acc) (sv_bits s))) amt arith
  end.
Definition fe_dshra (a amt arith : sval) : option sval :=
  match sv_ty a, sv_ty amt, sv_ty arith with
  | TU, TU, TB =>
      if (N.of_nat (sv_w a) =? 2 ^ N.of_nat (sv_w amt))%N         (* signal.size() == amount.width().count() *)
      then dshra_loop (sv_w amt) 0 a amt arith else None
  | _, _, _ => None
  end.

(* ------------------------------------------------------------------ *)
(* Dynamic bit / slice, mux                                              *)

(* number of mux inputs as a nat, computed without building 2^k in unary when it is not needed *)
Definition pow2_min (k : nat) (bound : nat) : nat :=
  if (N.of_nat bound <=? 2 ^ N.of_nat k)%N then bound else N.to_nat (2 ^ N.of_nat k).

(* BaseBitVector::operator[](const UInt&): BitVectorSliceDynamic(idx, min(size-1, idx.width().last()), 1, 1_b) *)
Definition fe_dynbit (a idx : sval) : option sval :=
  match sv_ty idx with
  | TU =>
      if negb (is_vec (sv_ty a)) then None else
      let w := sv_w a in
      if w =? 0 then None else                            (* (size()-1 wraps; not modelled) *)
      let n := pow2_min (sv_w idx) w in
      let ins := map (fun i => node1 (KRewire (extract_ranges w i 1)) [sv_bits a]) (seq 0 n) in
      ret TB PNone (node1 (KMux n 1) (sv_bits idx :: ins))
  | _ => None
  end.

(* x(const UInt& offset, BitWidth size): 2^offsetWidth options, each setExtract(i, size) *)
Definition fe_dynslice (sz : nat) (a off : sval) : option sval :=
  match sv_ty off with
  | TU =>
      if negb (is_vec (sv_ty a)) then None else
      if 16 <? sv_w off then None else                    (* (generator bound: 2^16 mux inputs) *)
      let n := N.to_nat (2 ^ N.of_nat (sv_w off)) in
      let ins := map (fun i => node1 (KRewire (extract_ranges (sv_w a) i sz)) [sv_bits a]) (seq 0 n) in
      ret (sv_ty a) (sv_pol a) (node1 (KMux n sz) (sv_bits off :: ins))
  | _ => None
  end.

(* mux(selector, table) *)
Definition fe_mux (sel : sval) (table : list sval) : option sval :=
  match table with
  | [] => None                                             (* HCL_DESIGNCHECK(begin(table) != end(table)) *)
  | t0 :: _ =>
      let n := length table in
      let fits := (N.of_nat n <=? 2 ^ N.of_nat (sv_w sel))%N in
      if negb fits && negb (match sv_pol sel with PZero => true | _ => false end) then None
      else
        let size := if fits then n else N.to_nat (2 ^ N.of_nat (sv_w sel)) in
        let used := firstn size table in
        let w := sv_w (last used t0) in                   (* output type = type of the last connected input *)
        ret (sv_ty t0) PNone (node1 (KMux size w) (sv_bits sel :: map sv_bits used))
  end.

(* ------------------------------------------------------------------ *)
(* Several slices of ONE frontend object, reads and writes (BitVector.h aliasRange / aliasVec /
   aliasMsb / aliasLsb / getDynamicBitAlias, BitVectorSlice.cpp readPort / assignLocal).
   The alias caches (m_rangeAlias keyed by BitVectorSlice*::operator<, m_bitAlias, m_msbAlias,
   m_lsbAlias, m_dynamicBitAlias) are expected to be semantically transparent: the model has no
   cache, every request is evaluated by its own definition on the current value of the object. *)

(* x.part(P, idx) / x.parts(P)[idx]: BitVectorSliceDynamic(idx, P-1, width/P, width/P) *)
Definition fe_part (p : nat) (a idx : sval) : option sval :=
  match sv_ty idx with
  | TU =>
      if negb (is_vec (sv_ty a)) then None else
      if p =? 0 then None else
      if negb (sv_w a mod p =? 0) then None else           (* BitWidth / parts: HCL_DESIGNCHECK(divisibleBy) *)
      let pw := sv_w a / p in
      let ins := map (fun i => node1 (KRewire (extract_ranges (sv_w a) (i * pw) pw)) [sv_bits a]) (seq 0 p) in
      ret (sv_ty a) (sv_pol a) (node1 (KMux p pw) (sv_bits idx :: ins))
  | _ => None
  end.
(* x.part(P, i) with a constant index *)
Definition fe_spart (p i : nat) (a : sval) : option sval :=
  if p =? 0 then None else if negb (i <? p) then None else
  if negb (sv_w a mod p =? 0) then None else fe_slice (i * (sv_w a / p)) (sv_w a / p) a.

(* replaceSelection(rangeOffset, rangeWidth, totalWidth): input 0 = current value, input 1 = new slice value *)
Definition replace_ranges (off w total : nat) : list rw_range :=
  rw_add (rw_add (rw_add [] off (RW_INPUT 0 0)) (min w (total - off)) (RW_INPUT 1 0))
         (total - (off + w)) (RW_INPUT 0 (off + w)).
(* BitVectorSliceStatic::assignLocal; HCL_ASSERT(rangeOffset < totalWidth) *)
Definition write_static (off w : nat) (x v : bv) : option bv :=
  if off <? length x then Some (node1 (KRewire (replace_ranges off w (length x))) [x; v]) else None.
Fixpoint all_some {A} (l : list (option A)) : option (list A) :=
  match l with
  | [] => Some []
  | Some a :: r => match all_some r with Some t => Some (a :: t) | None => None end
  | None :: _ => None
  end.
(* BitVectorSliceDynamic::assignLocal: a mux over every possible position *)
Definition write_dyn (n mul w : nat) (idx x v : bv) : option bv :=
  opts <- all_some (map (fun i => write_static (i * mul) w x v) (seq 0 n)) ;;
  Some (node1 (KMux n (length x)) (idx :: opts)).

Inductive sl_form :=
| SF_dyn (w k : nat) | SF_part (p k : nat) | SF_dynbit (k : nat)
| SF_static (off w : nat) | SF_spart (p i : nat) | SF_bit (i : nat) | SF_msb | SF_lsb | SF_upper (w : nat) | SF_lower (w : nat)
(* whole-object operators that go through the cached sign (msb) alias: abs(x), x * aux[k], x < aux[k] *)
| SF_abs | SF_mul (k : nat) | SF_lt (k : nat).
Inductive sl_req := SR_read (f : sl_form) | SR_write (f : sl_form) (v : nat) | SR_assign (v : nat).

Definition aux_get (aux : list sval) (k : nat) : option sval := nth_error aux k.

Definition read_form (f : sl_form) (x : sval) (aux : list sval) : option sval :=
  match f with
  | SF_dyn w k => idx <- aux_get aux k ;; fe_dynslice w x idx
  | SF_part p k => idx <- aux_get aux k ;; fe_part p x idx
  | SF_dynbit k => idx <- aux_get aux k ;; fe_dynbit x idx
  | SF_static off w => fe_slice off w x
  | SF_spart p i => fe_spart p i x
  | SF_bit i => fe_bit i x
  | SF_msb => fe_msb x
  | SF_lsb => fe_lsb x
  | SF_upper w => fe_upper w x
  | SF_lower w => fe_lower w x
  | SF_abs => match sv_ty x with TS => fe_abs x | _ => None end
  | SF_mul k => y <- aux_get aux k ;; match sv_ty x, sv_ty y with TS, TS => fe_arith A_MUL x y | _, _ => None end
  | SF_lt k => y <- aux_get aux k ;; match sv_ty x, sv_ty y with TS, TS => fe_cmp C_LT x y | _, _ => None end
  end.

(* alias = value: the value is expanded to the alias width by its own policy; vector aliases take a
   value of the object's type, bit aliases a Bit *)
Definition write_form (f : sl_form) (x : sval) (aux : list sval) (v : sval) : option sval :=
  let wx := sv_w x in
  let upd (o : option bv) := match o with Some y => Some (mk_sval (sv_ty x) (sv_pol x) y) | None => None end in
  let vec_val (w : nat) := if sty_eqb (sv_ty v) (sv_ty x) then expand (sv_pol v) (sv_bits v) w else None in
  let bit_val := match sv_ty v with TB => Some (sv_bits v) | _ => None end in
  match f with
  | SF_dyn w k =>
      idx <- aux_get aux k ;;
      match sv_ty idx with
      | TU => if 16 <? sv_w idx then None else
              y <- vec_val w ;; upd (write_dyn (N.to_nat (2 ^ N.of_nat (sv_w idx))) 1 w (sv_bits idx) (sv_bits x) y)
      | _ => None end
  | SF_part p k =>
      idx <- aux_get aux k ;;
      match sv_ty idx with
      | TU => if p =? 0 then None else if negb (wx mod p =? 0) then None else
              y <- vec_val (wx / p) ;; upd (write_dyn p (wx / p) (wx / p) (sv_bits idx) (sv_bits x) y)
      | _ => None end
  | SF_dynbit k =>
      idx <- aux_get aux k ;;
      match sv_ty idx with
      | TU => if wx =? 0 then None else
              y <- bit_val ;; upd (write_dyn (pow2_min (sv_w idx) wx) 1 1 (sv_bits idx) (sv_bits x) y)
      | _ => None end
  | SF_static off w => y <- vec_val w ;; upd (write_static off w (sv_bits x) y)
  | SF_spart p i =>
      if p =? 0 then None else if negb (i <? p) then None else if negb (wx mod p =? 0) then None else
      y <- vec_val (wx / p) ;; upd (write_static (i * (wx / p)) (wx / p) (sv_bits x) y)
  | SF_bit i => if i <? wx then y <- bit_val ;; upd (write_static i 1 (sv_bits x) y) else None
  | SF_msb => if wx =? 0 then None else y <- bit_val ;; upd (write_static (wx - 1) 1 (sv_bits x) y)
  | SF_lsb => if wx =? 0 then None else y <- bit_val ;; upd (write_static 0 1 (sv_bits x) y)
  | SF_upper w => if wx <? w then None else y <- vec_val w ;; upd (write_static (wx - w) w (sv_bits x) y)
  | SF_lower w => y <- vec_val w ;; upd (write_static 0 w (sv_bits x) y)
  | SF_abs | SF_mul _ | SF_lt _ => None
  end.

(* x = v (outside any conditional scope): a wider value makes the object grow, otherwise the value
   is expanded to the object's width *)
Definition assign_whole (x v : sval) : option sval :=
  if negb (sty_eqb (sv_ty v) (sv_ty x)) then None
  else if sv_w x <? sv_w v then Some (mk_sval (sv_ty x) (sv_pol x) (sv_bits v))
  else y <- expand (sv_pol v) (sv_bits v) (sv_w x) ;; Some (mk_sval (sv_ty x) (sv_pol x) y).

(* the requests are executed in order on one object; the result is pack(read_1, .., read_n, x_final) *)
Fixpoint mslice_run (reqs : list sl_req) (x : sval) (aux : list sval) (reads : list sval) : option sval :=
  match reqs with
  | [] => fe_pack (rev reads ++ [x])
  | SR_read f :: rest => r <- read_form f x aux ;; mslice_run rest x aux (r :: reads)
  | SR_write f k :: rest => v <- aux_get aux k ;; x' <- write_form f x aux v ;; mslice_run rest x' aux reads
  | SR_assign k :: rest => v <- aux_get aux k ;; x' <- assign_whole x v ;; mslice_run rest x' aux reads
  end.
Definition fe_mslice (reqs : list sl_req) (x : sval) (aux : list sval) : option sval :=
  if is_vec (sv_ty x) then mslice_run reqs x aux [] else None.

(* ------------------------------------------------------------------ *)
(* The operator language of the correspondence run                       *)

Inductive fop :=
| F_lit_str (t : sty) (wopt : nat) (b : lit_base) (digits : list (option N))
| F_lit_dec (t : sty) (wopt : nat) (n : N)
| F_lit_int (t : sty) (z : Z)
| F_lit_bit (b : tbit)
| F_const (t : sty) (v : N) (w : nat)
| F_undef (t : sty) (w : nat)
| F_not | F_abs | F_cast (t : sty)
| F_ext_to (p : option pol) (w : nat) | F_ext_by (p : option pol) (n : nat) | F_ext_reduce (p : option pol) (n : nat)
| F_slice (off w : nat) | F_upper (w : nat) | F_lower (w : nat) | F_upperR (r : nat) | F_lowerR (r : nat)
| F_msb | F_lsb | F_bit (i : nat) | F_bitn (i : Z)
| F_shl (n : nat) | F_shr (n : nat) | F_rot (amount : Z)
| F_arith (op : arith_op) | F_addc
| F_logic (op : logic_op)
| F_cmp (op : cmp_op)
| F_dshift (d : shift_dir) (f : shift_fill) | F_dshl | F_dshr
| F_shra (n : nat) | F_dshra
| F_dynbit | F_dynslice (w : nat)
| F_cat | F_pack
| F_mux
| F_mslice (reqs : list sl_req).

Definition pol_or_default (p : option pol) (a : sval) : pol :=
  match p with Some q => q | None => default_ext_pol (sv_ty a) end.

Definition fe_cast (t : sty) (a : sval) : option sval :=
  if is_vec t && is_vec (sv_ty a) then ret t (sv_pol a) (sv_bits a) else None.

Definition vec_lit (t : sty) (x : bv) : option sval := if is_vec t then ret t (lit_pol t) x else None.

Definition fe_apply (op : fop) (args : list sval) : option sval :=
  match op, args with
  | F_lit_str t w b ds, [] => x <- lit_str w b ds ;; vec_lit t x
  | F_lit_dec t w n, [] => x <- lit_dec w n ;; vec_lit t x
  | F_lit_int TU z, [] => if (z <? 0)%Z then None else ret TU PZero (lit_uint (Z.to_N z))   (* "Can not assign negative values to UInt" *)
  | F_lit_int TV z, [] => if (z <? 0)%Z then None else ret TV PNone (lit_uint (Z.to_N z))
  | F_lit_int TS z, [] => ret TS PSign (lit_sint z)
  | F_lit_bit b, [] => ret TB PNone [b]
  | F_const t v w, [] => if is_vec t then ret t PNone (const_bits v w) else None
  | F_undef t w, [] => if is_vec t then ret t PNone (all_X w) else None
  | F_not, [a] => fe_not a
  | F_abs, [a] => match sv_ty a with TS => fe_abs a | _ => None end
  | F_cast t, [a] => fe_cast t a
  | F_ext_to p w, [a] => fe_ext_to (pol_or_default p a) w a
  | F_ext_by p n, [a] => fe_ext_by (pol_or_default p a) n a
  | F_ext_reduce p n, [a] => if is_vec (sv_ty a) then fe_ext_reduce (pol_or_default p a) n a else None
  | F_slice off w, [a] => if is_vec (sv_ty a) then fe_slice off w a else None
  | F_upper w, [a] => if is_vec (sv_ty a) then fe_upper w a else None
  | F_lower w, [a] => if is_vec (sv_ty a) then fe_lower w a else None
  | F_upperR r, [a] => if is_vec (sv_ty a) then fe_upperR r a else None
  | F_lowerR r, [a] => if is_vec (sv_ty a) then fe_lowerR r a else None
  | F_msb, [a] => if is_vec (sv_ty a) then fe_msb a else None
  | F_lsb, [a] => if is_vec (sv_ty a) then fe_lsb a else None
  | F_bit i, [a] => if is_vec (sv_ty a) then fe_bit i a else None
  | F_bitn i, [a] => if is_vec (sv_ty a) then fe_bitn i a else None
  | F_shl n, [a] => fe_shl n a
  | F_shr n, [a] => fe_shr n a
  | F_rot z, [a] => fe_rot z a
  | F_arith op, [a; b] => fe_arith op a b
  | F_addc, [a; b; c] => fe_addc a b c
  | F_logic op, [a; b] => match op with L_NOT => None | _ => fe_logic op a b end
  | F_cmp op, [a; b] => fe_cmp op a b
  | F_dshift d f, [a; amt] => fe_dshift d f a amt
  | F_dshl, [a; amt] => fe_dshl a amt
  | F_dshr, [a; amt] => fe_dshr a amt
  | F_shra n, [a; c] => fe_shra n a c
  | F_dshra, [a; amt; c] => fe_dshra a amt c
  | F_dynbit, [a; i] => fe_dynbit a i
  | F_dynslice w, [a; off] => fe_dynslice w a off
  | F_cat, _ :: _ => fe_cat args
  | F_pack, _ :: _ => fe_pack args
  | F_mux, sel :: table => fe_mux sel table
  | F_mslice reqs, x :: aux => fe_mslice reqs x aux
  | _, _ => None
  end.

(* ------------------------------------------------------------------ *)
(* Integer readings used by the theorems (no proofs here)                *)

(* two's complement reading of an unsigned value at width w *)
Definition sint (w : nat) (v : N) : Z :=
  if w =? 0 then 0%Z
  else if (v <? 2 ^ N.of_nat (w - 1))%N then Z.of_N v else (Z.of_N v - 2 ^ Z.of_nat w)%Z.
Definition bv_sval (x : bv) : option Z :=
  match bv_val x with Some v => Some (sint (length x) v) | None => None end.
Definition bv_of_Z (w : nat) (z : Z) : bv := bv_of_N w (Z.to_N (z mod 2 ^ Z.of_nat w)).
