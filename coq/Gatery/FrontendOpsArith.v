(* C03 layer (b), part 2: arithmetic, comparison and logic operators of the frontend, unsigned
   over N and signed over Z (two's complement), for all widths. *)
From Gatery Require Import Bits NodeSemDefs NodeSemBits NodeSemSpec NodeSemSpecArith NodeSemSpecShift
  FrontendOpsDefs FrontendOpsBits FrontendOpsSpec.
Import ListNotations.
Local Open Scope Z_scope.

(* ================================================================== *)
(* NormalizedWidthOperands                                               *)

Lemma norm_inv a b xa xb :
  norm a b = Some (xa, xb) ->
  expand (sv_pol a) (sv_bits a) (max (sv_w a) (sv_w b)) = Some xa /\
  expand (sv_pol b) (sv_bits b) (max (sv_w a) (sv_w b)) = Some xb.
Proof.
  unfold norm, bind. destruct (expand (sv_pol a) (sv_bits a) _) as [x|]; [|discriminate].
  destruct (expand (sv_pol b) (sv_bits b) _) as [y|]; [|discriminate].
  intro H. injection H as <- <-. split; reflexivity.
Qed.

Lemma norm_lengths a b xa xb :
  norm a b = Some (xa, xb) -> length xa = max (sv_w a) (sv_w b) /\ length xb = max (sv_w a) (sv_w b).
Proof. intro H. destruct (norm_inv _ _ _ _ H) as [Ha Hb]. split; eapply expand_length; eassumption. Qed.

Lemma norm_same_width a b :
  sv_w a = sv_w b -> norm a b = Some (sv_bits a, sv_bits b).
Proof.
  intro E. unfold norm, bind, expand. rewrite <- E, Nat.max_id. unfold sv_w in *.
  rewrite Nat.ltb_irrefl, Nat.eqb_refl. rewrite E, Nat.ltb_irrefl, Nat.eqb_refl. reflexivity.
Qed.

(* exactly the rejected operand pairs *)
Theorem norm_rejected a b :
  norm a b = None <->
  ((sv_w a < sv_w b)%nat /\ (sv_pol a = PNone \/ (sv_pol a = PSign /\ sv_w a = 0%nat))) \/
  ((sv_w b < sv_w a)%nat /\ (sv_pol b = PNone \/ (sv_pol b = PSign /\ sv_w b = 0%nat))).
Proof.
  unfold norm, bind.
  destruct (expand (sv_pol a) (sv_bits a) (max (sv_w a) (sv_w b))) as [x|] eqn:Ea.
  - destruct (expand (sv_pol b) (sv_bits b) (max (sv_w a) (sv_w b))) as [y|] eqn:Eb.
    + split; [discriminate|]. intros [[L H]|[L H]].
      * assert (N : expand (sv_pol a) (sv_bits a) (max (sv_w a) (sv_w b)) = None); [|congruence].
        apply expand_rejected. unfold sv_w in *. destruct H as [H|[H1 H2]]; [right; left | right; right]; repeat split; try assumption; lia.
      * assert (N : expand (sv_pol b) (sv_bits b) (max (sv_w a) (sv_w b)) = None); [|congruence].
        apply expand_rejected. unfold sv_w in *. destruct H as [H|[H1 H2]]; [right; left | right; right]; repeat split; try assumption; lia.
    + split; [intros _|reflexivity]. apply expand_rejected in Eb. unfold sv_w in *.
      right. destruct Eb as [H|[[H1 H2]|[H1 [H2 H3]]]]; [lia | |]; split; try lia; [left | right]; auto.
  - split; [intros _|reflexivity]. apply expand_rejected in Ea. unfold sv_w in *.
    left. destruct Ea as [H|[[H1 H2]|[H1 [H2 H3]]]]; [lia | |]; split; try lia; [left | right]; auto.
Qed.

(* ================================================================== *)
(* One arithmetic node on normalised operands                            *)

Definition arith2 (op : arith_op) (va vb : N) : option Z := arith_math op [va; vb].

Lemma node1_arith2 op w xa xb va vb :
  length xa = w -> length xb = w -> bv_val xa = Some va -> bv_val xb = Some vb ->
  node1 (KArith op w) [xa; xb] = match arith2 op va vb with Some z => bv_of_Z w z | None => all_X w end.
Proof.
  intros La Lb Ha Hb. apply node1_eq. cbn [map].
  rewrite (eval_arith_spec op w _ [va; vb]).
  - reflexivity.
  - simpl. rewrite Ha, Hb. reflexivity.
  - intros _. repeat constructor; [rewrite <- La | rewrite <- Lb]; apply bv_val_lt; assumption.
Qed.

Theorem arith_node_spec op t a b xa xb va vb :
  norm a b = Some (xa, xb) -> bv_val xa = Some va -> bv_val xb = Some vb ->
  fe_arith_node op t a b =
  Some (mk_sval t PNone (match arith2 op va vb with
                         | Some z => bv_of_Z (max (sv_w a) (sv_w b)) z
                         | None => all_X (max (sv_w a) (sv_w b))
                         end)).
Proof.
  intros Hn Ha Hb. destruct (norm_lengths _ _ _ _ Hn) as [La Lb].
  unfold fe_arith_node, bind, ret. rewrite Hn. cbn [fst snd]. rewrite La.
  f_equal. f_equal. apply node1_arith2; assumption.
Qed.

Lemma arith2_add va vb : arith2 A_ADD va vb = Some (Z.of_N va + Z.of_N vb).  Proof. reflexivity. Qed.
Lemma arith2_sub va vb : arith2 A_SUB va vb = Some (Z.of_N va - Z.of_N vb).  Proof. reflexivity. Qed.
Lemma arith2_mul va vb : arith2 A_MUL va vb = Some (Z.of_N va * Z.of_N vb).  Proof. reflexivity. Qed.
Lemma arith2_div va vb : arith2 A_DIV va vb = if (vb =? 0)%N then None else Some (Z.of_N (va / vb)).
Proof.
  unfold arith2, arith_math, arith_math_from, arith_opZ.
  destruct (N.eqb_spec vb 0) as [->|H]; [reflexivity|].
  replace (Z.of_N vb =? 0) with false by (symmetry; apply Z.eqb_neq; lia). rewrite N2Z.inj_div. reflexivity.
Qed.
Lemma arith2_rem va vb : arith2 A_REM va vb = if (vb =? 0)%N then None else Some (Z.of_N (va mod vb)).
Proof.
  unfold arith2, arith_math, arith_math_from, arith_opZ.
  destruct (N.eqb_spec vb 0) as [->|H]; [reflexivity|].
  replace (Z.of_N vb =? 0) with false by (symmetry; apply Z.eqb_neq; lia). rewrite N2Z.inj_mod. reflexivity.
Qed.

(* the definition over the integers *)
Definition uint_def (op : arith_op) (va vb : N) : option N :=
  match op with
  | A_ADD => Some (va + vb)%N
  | A_SUB => None                                   (* stated over Z below *)
  | A_MUL => Some (va * vb)%N
  | A_DIV => if (vb =? 0)%N then None else Some (va / vb)%N
  | A_REM => if (vb =? 0)%N then None else Some (va mod vb)%N
  end.

(* UInt + - * / % : operands normalised by their policies, result modulo 2^w; x / 0 and x % 0 undefined *)
Theorem arith_uint_spec op a b xa xb va vb :
  sv_ty a = TU -> sv_ty b = TU ->
  norm a b = Some (xa, xb) -> bv_val xa = Some va -> bv_val xb = Some vb ->
  let w := max (sv_w a) (sv_w b) in
  fe_arith op a b =
  Some (mk_sval TU PNone
     match op with
     | A_ADD => bv_of_N w ((va + vb) mod 2 ^ N.of_nat w)%N
     | A_SUB => bv_of_Z w (Z.of_N va - Z.of_N vb)
     | A_MUL => bv_of_N w ((va * vb) mod 2 ^ N.of_nat w)%N
     | A_DIV => if (vb =? 0)%N then all_X w else bv_of_N w (va / vb)%N
     | A_REM => if (vb =? 0)%N then all_X w else bv_of_N w (va mod vb)%N
     end).
Proof.
  intros Ta Tb Hn Ha Hb w. unfold fe_arith. rewrite Ta, Tb.
  rewrite (arith_node_spec op TU a b xa xb va vb Hn Ha Hb). fold w. f_equal. f_equal.
  destruct op.
  - rewrite arith2_add, bv_of_N_mod, <- N2Z.inj_add. apply bv_of_Z_of_N.
  - rewrite arith2_sub. reflexivity.
  - rewrite arith2_mul, bv_of_N_mod, <- N2Z.inj_mul. apply bv_of_Z_of_N.
  - rewrite arith2_div. destruct (vb =? 0)%N; [reflexivity | apply bv_of_Z_of_N].
  - rewrite arith2_rem. destruct (vb =? 0)%N; [reflexivity | apply bv_of_Z_of_N].
Qed.

(* SInt + - : the two's complement sum / difference of the (policy-normalised) operands *)
Theorem arith_sint_addsub_spec op a b xa xb sa sb :
  sv_ty a = TS -> sv_ty b = TS -> (op = A_ADD \/ op = A_SUB) ->
  norm a b = Some (xa, xb) -> bv_sval xa = Some sa -> bv_sval xb = Some sb ->
  fe_arith op a b =
  Some (mk_sval TS PNone (bv_of_Z (max (sv_w a) (sv_w b)) (match op with A_ADD => sa + sb | _ => sa - sb end))).
Proof.
  intros Ta Tb Hop Hn Ha Hb. destruct (norm_lengths _ _ _ _ Hn) as [La Lb].
  destruct (bv_sval_val _ _ Ha) as [va [Hva Ea]]. destruct (bv_sval_val _ _ Hb) as [vb [Hvb Eb]].
  pose proof (bv_val_eqm_sval _ _ _ Hva Ha) as Ca. pose proof (bv_val_eqm_sval _ _ _ Hvb Hb) as Cb.
  rewrite La in Ca. rewrite Lb in Cb.
  unfold fe_arith. rewrite Ta, Tb.
  destruct Hop as [-> | ->]; rewrite (arith_node_spec _ TS a b xa xb va vb Hn Hva Hvb); f_equal; f_equal.
  - rewrite arith2_add. apply bv_of_Z_eqm. apply eqm_add; assumption.
  - rewrite arith2_sub. apply bv_of_Z_eqm. apply eqm_sub; assumption.
Qed.

(* arithmetic with a Bit operand: the bit is zero extended (zext(bit)) *)
Theorem arith_bit_spec op a c :
  (sv_ty a = TU \/ sv_ty a = TS) -> sv_ty c = TB -> (op = A_ADD \/ op = A_SUB) ->
  fe_arith op a c = fe_arith_node op (sv_ty a) a (mk_sval TU PZero (sv_bits c)).
Proof.
  intros [Ta|Ta] Tc [-> | ->]; unfold fe_arith, zext_bit; rewrite Ta, Tc; reflexivity.
Qed.

(* addC *)
Theorem addc_spec a b c xa xb va vb (vc : bool) :
  sv_ty a = TU -> sv_ty b = TU -> sv_ty c = TB ->
  norm a b = Some (xa, xb) -> bv_val xa = Some va -> bv_val xb = Some vb -> sv_bits c = [of_bool vc] ->
  let w := max (sv_w a) (sv_w b) in
  fe_addc a b c =
  if (w =? 0)%nat then None
  else Some (mk_sval TU PNone (bv_of_N w ((va + vb + N.b2n vc) mod 2 ^ N.of_nat w)%N)).
Proof.
  intros Ta Tb Tc Hn Ha Hb Hc w. destruct (norm_lengths _ _ _ _ Hn) as [La Lb]. fold w in La, Lb.
  unfold fe_addc. rewrite Ta, Tb, Tc. unfold bind. rewrite Hn. cbn [fst snd]. rewrite La.
  rewrite fe_ext_to_spec. unfold sv_w at 1. rewrite Hc. cbn [length].
  destruct (Nat.eqb_spec w 0) as [W0|W0]; [rewrite W0; reflexivity|].
  replace (w <? 1)%nat with false by (symmetry; apply Nat.ltb_ge; lia).
  destruct (expand PZero [of_bool vc] w) as [zc|] eqn:Ez.
  2:{ apply expand_rejected in Ez. cbn [length] in Ez. destruct Ez as [H|[[_ H]|[_ [H _]]]]; [lia | discriminate | discriminate]. }
  assert (Hvc : bv_val [of_bool vc] = Some (N.b2n vc)) by (destruct vc; reflexivity).
  destruct (expand_zero_value _ _ _ _ Ez Hvc) as [Hzc Lzc].
  unfold ret. cbn [sv_bits]. f_equal. f_equal.
  apply node1_eq. cbn [map].
  rewrite (eval_arith_spec A_ADD w _ [va; vb; N.b2n vc]).
  - cbn [arith_math arith_math_from arith_opZ]. rewrite bv_of_N_mod. f_equal. symmetry. apply bv_of_N_Z.
    rewrite !N2Z.inj_add. reflexivity.
  - simpl. rewrite Ha, Hb, Hzc. reflexivity.
  - discriminate.
Qed.

(* ================================================================== *)
(* Compare and logic nodes                                               *)

Theorem cmp_node_spec op a b xa xb va vb :
  norm a b = Some (xa, xb) -> bv_val xa = Some va -> bv_val xb = Some vb ->
  fe_cmp_node op a b = Some (mk_sval TB PNone [of_bool (cmp_N op va vb)]).
Proof.
  intros Hn Ha Hb. unfold fe_cmp_node, bind, ret. rewrite Hn. cbn [fst snd]. f_equal. f_equal.
  apply node1_eq. cbn [map]. apply eval_compare_spec; assumption.
Qed.

(* UInt == != < > <= >= *)
Theorem cmp_uint_spec op a b xa xb va vb :
  sv_ty a = TU -> sv_ty b = TU ->
  norm a b = Some (xa, xb) -> bv_val xa = Some va -> bv_val xb = Some vb ->
  fe_cmp op a b = Some (mk_sval TB PNone [of_bool (cmp_N op va vb)]).
Proof. intros Ta Tb. unfold fe_cmp. rewrite Ta, Tb. apply cmp_node_spec. Qed.

Lemma node1_logic2 op w xa xb va vb :
  length xa = w -> length xb = w -> bv_val xa = Some va -> bv_val xb = Some vb ->
  node1 (KLogic op w) [xa; xb] = bv_of_N w (logic_N op w va vb).
Proof. intros. apply node1_eq. cbn [map]. apply eval_logic_spec; assumption. Qed.

Definition logic_result_ty (a b : sval) : sty :=
  if is_vec (sv_ty a) then sv_ty a else if is_vec (sv_ty b) then sv_ty b else TB.

(* & | ^ nand nor xnor on two signals of the same type *)
Theorem logic_spec op a b xa xb va vb :
  sv_ty a = sv_ty b ->
  norm a b = Some (xa, xb) -> bv_val xa = Some va -> bv_val xb = Some vb ->
  fe_logic op a b =
  Some (mk_sval (sv_ty a) PNone (bv_of_N (max (sv_w a) (sv_w b)) (logic_N op (max (sv_w a) (sv_w b)) va vb))).
Proof.
  intros T Hn Ha Hb. destruct (norm_lengths _ _ _ _ Hn) as [La Lb].
  unfold fe_logic. rewrite <- T.
  assert (E : sty_eqb (sv_ty a) (sv_ty a) = true) by (destruct (sv_ty a); reflexivity).
  rewrite E. cbn [orb negb]. unfold bind. rewrite Hn. cbn [fst snd]. rewrite La.
  assert (E2 : node1 (KLogic op (max (sv_w a) (sv_w b))) [xa; xb] = bv_of_N (max (sv_w a) (sv_w b)) (logic_N op (max (sv_w a) (sv_w b)) va vb))
    by (apply node1_logic2; assumption).
  destruct (sv_ty a); cbn [is_vec bind ret]; unfold ret; rewrite E2; reflexivity.
Qed.

(* vector op Bit: the Bit is broadcast (sext(bit), Expansion::sign) *)
Theorem logic_bit_spec op a c va (vc : bool) :
  is_vec (sv_ty a) = true -> sv_ty c = TB -> (0 < sv_w a)%nat ->
  bv_val (sv_bits a) = Some va -> sv_bits c = [of_bool vc] ->
  let w := sv_w a in
  fe_logic op a c = Some (mk_sval (sv_ty a) PNone (bv_of_N w (logic_N op w va (if vc then N.ones (N.of_nat w) else 0%N)))) /\
  fe_logic op c a = Some (mk_sval (sv_ty a) PNone (bv_of_N w (logic_N op w (if vc then N.ones (N.of_nat w) else 0%N) va))).
Proof.
  intros Va Tc Hw Ha Hc w.
  assert (Hx : expand PSign [of_bool vc] w = Some (repeat (of_bool vc) w)).
  { rewrite expand_bits.
    - cbn [length fill_bit Nat.sub bv_get nth app]. f_equal.
      replace w with (S (w - 1)) at 2 by (unfold w; lia). reflexivity.
    - unfold expand_ok. cbn [length]. destruct (Nat.eq_dec 1 w); [left; assumption | right]. unfold w in *. repeat split; try lia; discriminate. }
  assert (Hv : bv_val (repeat (of_bool vc) w) = Some (if vc then N.ones (N.of_nat w) else 0%N)).
  { destruct vc; cbn [of_bool]; [rewrite bv_val_repeat1, N.ones_equiv, N.sub_1_r | rewrite bv_val_repeat0]; reflexivity. }
  assert (Hself : expand (sv_pol a) (sv_bits a) w = Some (sv_bits a)).
  { unfold expand, w, sv_w. rewrite Nat.ltb_irrefl, Nat.eqb_refl. reflexivity. }
  assert (NE : sty_eqb (sv_ty a) (sv_ty c) = false /\ sty_eqb (sv_ty c) (sv_ty a) = false).
  { rewrite Tc. destruct (sv_ty a); try discriminate; split; reflexivity. }
  destruct NE as [NE1 NE2].
  assert (M1 : max (sv_w a) 1%nat = w) by (unfold w; lia). assert (M2 : max 1%nat (sv_w a) = w) by (unfold w; lia).
  split.
  - unfold fe_logic. rewrite NE1, Tc, Va. cbn [is_vec negb orb].
    unfold sext_bit. rewrite Tc.
    assert (Sa : (match sv_ty a with TB => mk_sval TU PSign (sv_bits a) | _ => a end) = a) by (destruct (sv_ty a); try discriminate; reflexivity).
    rewrite Sa. unfold norm, bind. cbn [sv_bits sv_pol]. rewrite Hc. change (sv_w (mk_sval TU PSign [of_bool vc])) with 1%nat. rewrite M1, Hself, Hx.
    cbn [fst snd]. unfold ret. f_equal. f_equal.
    apply node1_logic2; [reflexivity | apply repeat_length | exact Ha | exact Hv].
  - unfold fe_logic. rewrite NE2, Tc, Va. cbn [is_vec negb orb].
    unfold sext_bit. rewrite Tc.
    assert (Sa : (match sv_ty a with TB => mk_sval TU PSign (sv_bits a) | _ => a end) = a) by (destruct (sv_ty a); try discriminate; reflexivity).
    rewrite Sa. unfold norm, bind. cbn [sv_bits sv_pol]. rewrite Hc. change (sv_w (mk_sval TU PSign [of_bool vc])) with 1%nat. rewrite M2, Hself, Hx.
    cbn [fst snd]. unfold ret. rewrite repeat_length. f_equal. f_equal.
    apply node1_logic2; [apply repeat_length | reflexivity | exact Hv | exact Ha].
Qed.

Theorem not_spec a va :
  bv_val (sv_bits a) = Some va ->
  fe_not a = Some (mk_sval (sv_ty a) PNone (bv_of_N (sv_w a) (N.lxor va (N.ones (N.of_nat (sv_w a)))))).
Proof.
  intro Ha. unfold fe_not, ret. f_equal. f_equal. apply node1_eq. cbn [map]. apply eval_not_spec; [reflexivity | exact Ha].
Qed.

(* ~v as a number *)
Lemma lxor_ones v w : (v < 2 ^ w)%N -> N.lxor v (N.ones w) = (2 ^ w - 1 - v)%N.
Proof.
  intro H. change (N.lxor v (N.ones w)) with (N.lnot v w).
  destruct (N.eq_dec v 0) as [->|Hv].
  - rewrite N.lnot_0_l, N.ones_equiv. lia.
  - assert (L : (N.log2 v < w)%N) by (apply N.log2_lt_pow2; lia).
    pose proof (N.add_lnot_diag_low v w L) as E. rewrite N.ones_equiv in E. lia.
Qed.

Lemma eqm_opp w a b : eqm w a b -> eqm w (- a) (- b).
Proof. intro H. replace (- a) with (0 - a) by lia. replace (- b) with (0 - b) by lia. apply eqm_sub; [apply eqm_refl | exact H]. Qed.

(* ================================================================== *)
(* two's complement negation  ~x + 1                                     *)

Lemma expand_lit_one w : (0 < w)%nat -> exists y, expand PZero [B1] w = Some y /\ bv_val y = Some 1%N /\ length y = w.
Proof.
  intro Hw. destruct (expand PZero [B1] w) as [y|] eqn:E.
  - exists y. destruct (expand_zero_value [B1] w y 1%N E eq_refl) as [V L]. repeat split; assumption.
  - apply expand_rejected in E. cbn [length] in E. destruct E as [H|[[_ H]|[_ [H _]]]]; [lia | discriminate | discriminate].
Qed.

Lemma negate_spec p x v :
  (0 < length x)%nat -> bv_val x = Some v ->
  exists nx, fe_not (mk_sval TU p x) = Some nx /\
             fe_arith_node A_ADD TU nx lit_one = Some (mk_sval TU PNone (bv_of_Z (length x) (- Z.of_N v))).
Proof.
  intros Hw Hv. set (w := length x) in *.
  rewrite (not_spec (mk_sval TU p x) v Hv). cbn [sv_ty sv_bits]. change (sv_w (mk_sval TU p x)) with w.
  set (nx := mk_sval TU PNone (bv_of_N w (N.lxor v (N.ones (N.of_nat w))))).
  exists nx. split; [reflexivity|].
  destruct (expand_lit_one w Hw) as [y1 [E1 [V1 L1]]].
  assert (Wn : sv_w nx = w) by (unfold nx, sv_w; cbn [sv_bits]; apply bv_of_N_length).
  assert (Hn : norm nx lit_one = Some (sv_bits nx, y1)).
  { unfold norm, bind. rewrite Wn. cbn [lit_one sv_w sv_bits sv_pol length].
    replace (max w 1%nat) with w by lia. rewrite E1.
    unfold expand. change (length (sv_bits nx)) with (sv_w nx). rewrite Wn, Nat.ltb_irrefl, Nat.eqb_refl. reflexivity. }
  pose proof (bv_val_lt x v Hv) as Bv. fold w in Bv.
  assert (Vn : bv_val (sv_bits nx) = Some (2 ^ N.of_nat w - 1 - v)%N).
  { unfold nx. cbn [sv_bits]. rewrite lxor_ones by exact Bv. apply bv_of_N_small_val. pose proof (pow2_N_pos (N.of_nat w)). lia. }
  rewrite (arith_node_spec A_ADD TU nx lit_one _ _ _ _ Hn Vn V1).
  rewrite Wn. cbn [lit_one sv_w sv_bits length]. replace (max w 1%nat) with w by lia.
  f_equal. f_equal. rewrite arith2_add. apply bv_of_Z_eqm.
  pose proof (pow2_N_pos (N.of_nat w)) as P.
  rewrite N2Z.inj_sub, N2Z.inj_sub, of_N_pow2 by lia.
  replace (2 ^ Z.of_nat w - Z.of_N 1 - Z.of_N v + Z.of_N 1) with (- Z.of_N v + 1 * 2 ^ Z.of_nat w) by lia.
  apply eqm_plus_pow.
Qed.

(* conditional assignment with a defined condition *)
Lemma cond_assign_spec (c : bool) old new :
  length old = length new -> cond_assign [of_bool c] old new = if c then new else old.
Proof.
  intro L. unfold cond_assign. apply node1_eq. cbn [map].
  rewrite (eval_mux_spec 2 (length new) [of_bool c] (N.b2n c)) by (destruct c; reflexivity).
  destruct c; cbn -[bv_resize all_X].
  - change (Pos.to_nat 1) with 1%nat. cbv iota. rewrite bv_resize_id. reflexivity.
  - rewrite <- L, bv_resize_id. reflexivity.
Qed.

(* ================================================================== *)
(* abs                                                                   *)

Lemma msb_bool x z :
  (0 < length x)%nat -> bv_sval x = Some z -> bv_get x (length x - 1) = of_bool (z <? 0).
Proof.
  intros Hw Hz. destruct (bv_sval_val _ _ Hz) as [v [Hv ->]].
  pose proof (bv_val_lt x v Hv) as Bv.
  destruct (length x) as [|k] eqn:Lx; [lia|]. cbn [Nat.sub]. rewrite Nat.sub_0_r.
  rewrite (bv_get_val x v k Hv) by lia. f_equal.
  rewrite sint_neg_iff by exact Bv. apply testbit_top.
  replace (N.succ (N.of_nat k)) with (N.of_nat (S k)) by lia. exact Bv.
Qed.

Lemma msb_bool_sv a z :
  (0 < sv_w a)%nat -> bv_sval (sv_bits a) = Some z -> bv_get (sv_bits a) (sv_w a - 1) = of_bool (z <? 0).
Proof. intros H1 H2. exact (msb_bool _ _ H1 H2). Qed.

Lemma sval_of_neg_val x v :
  (0 < length x)%nat -> bv_val x = Some v -> sint (length x) v < 0 -> sint (length x) v = Z.of_N v - 2 ^ Z.of_nat (length x).
Proof.
  intros Hw Hv Hneg. destruct (length x) as [|k]; [lia|]. rewrite sint_unfold in *.
  destruct (v <? 2 ^ N.of_nat k)%N; lia.
Qed.
Lemma sval_of_nonneg_val x v :
  (0 < length x)%nat -> bv_val x = Some v -> 0 <= sint (length x) v -> sint (length x) v = Z.of_N v.
Proof.
  intros Hw Hv Hpos. pose proof (bv_val_lt x v Hv) as Bv.
  destruct (length x) as [|k]; [lia|]. rewrite sint_unfold in *.
  assert (B : Z.of_N v < 2 ^ Z.of_nat (S k)) by (rewrite <- of_N_pow2; lia).
  destruct (v <? 2 ^ N.of_nat k)%N; lia.
Qed.

(* abs of an SInt of any width >= 1: the magnitude as an unsigned number (2^(w-1) for the most
   negative value), carrying the zero expansion policy *)
Theorem abs_spec a s :
  (0 < sv_w a)%nat -> bv_sval (sv_bits a) = Some s ->
  fe_abs a = Some (mk_sval TU PZero (bv_of_N (sv_w a) (Z.to_N (Z.abs s)))) /\ (Z.abs s < 2 ^ Z.of_nat (sv_w a)).
Proof.
  intros Hw Hs. destruct (bv_sval_val _ _ Hs) as [v [Hv Es]].
  pose proof (bv_val_lt _ v Hv) as Bv. fold (sv_w a) in Bv.
  pose proof (sint_bounds (sv_w a) v Hw Bv) as Bs. fold (sv_w a) in Es. rewrite <- Es in Bs.
  assert (P2 : 2 ^ Z.of_nat (sv_w a) = 2 * 2 ^ Z.of_nat (sv_w a - 1)).
  { replace (sv_w a) with (S (sv_w a - 1)) at 1 by lia. apply pow2_Z_succ. }
  split; [|lia].
  unfold fe_abs. rewrite fe_msb_spec. replace (sv_w a =? 0)%nat with false by (symmetry; apply Nat.eqb_neq; lia).
  cbn [bind sv_bits]. unfold sv_w at 1. rewrite (msb_bool _ s Hw Hs).
  destruct (negate_spec (sv_pol a) (sv_bits a) v Hw Hv) as [nx [N1 N2]]. rewrite N1. cbn [bind]. rewrite N2. cbn [bind sv_bits]. unfold ret. f_equal. f_equal.
  rewrite cond_assign_spec by (rewrite bv_of_Z_length; reflexivity).
  fold (sv_w a).
  destruct (Z.ltb_spec s 0) as [Neg|Pos].
  - pose proof (sval_of_neg_val _ v Hw Hv) as E. fold (sv_w a) in E. rewrite <- Es in E. specialize (E Neg).
    rewrite Z.abs_neq by lia. symmetry. apply bv_of_N_as_Z. rewrite Z2N.id by lia.
    replace (- Z.of_N v) with (- s + (-1) * 2 ^ Z.of_nat (sv_w a)) by lia. symmetry. apply eqm_plus_pow.
  - pose proof (sval_of_nonneg_val _ v Hw Hv) as E. fold (sv_w a) in E. rewrite <- Es in E. specialize (E Pos).
    rewrite Z.abs_eq by lia. rewrite E, N2Z.id. symmetry. apply bv_of_N_val. exact Hv.
Qed.

Theorem abs_rejected a : sv_w a = 0%nat -> fe_abs a = None.
Proof. intro H. unfold fe_abs. rewrite fe_msb_spec, H. reflexivity. Qed.

(* ================================================================== *)
(* signed multiplication                                                 *)

Theorem mul_sint_same_width a b sa sb :
  sv_ty a = TS -> sv_ty b = TS -> sv_w a = sv_w b ->
  bv_sval (sv_bits a) = Some sa -> bv_sval (sv_bits b) = Some sb ->
  fe_arith A_MUL a b = Some (mk_sval TS PNone (bv_of_Z (sv_w a) (sa * sb))).
Proof.
  intros Ta Tb W Ha Hb. unfold fe_arith. rewrite Ta, Tb. unfold fe_mul_sint.
  replace (sv_w a =? sv_w b)%nat with true by (symmetry; apply Nat.eqb_eq; exact W).
  destruct (bv_sval_val _ _ Ha) as [va [Hva Ea]]. destruct (bv_sval_val _ _ Hb) as [vb [Hvb Eb]].
  set (a' := mk_sval TU (sv_pol a) (sv_bits a)). set (b' := mk_sval TU (sv_pol b) (sv_bits b)).
  assert (Hn : norm a' b' = Some (sv_bits a, sv_bits b)) by (apply (norm_same_width a' b'); exact W).
  rewrite (arith_node_spec A_MUL TS a' b' _ _ va vb Hn Hva Hvb).
  change (sv_w a') with (sv_w a). change (sv_w b') with (sv_w b). rewrite <- W, Nat.max_id.
  f_equal. f_equal. rewrite arith2_mul. apply bv_of_Z_eqm.
  apply eqm_mul; [apply (bv_val_eqm_sval _ _ _ Hva Ha) | rewrite W; apply (bv_val_eqm_sval _ _ _ Hvb Hb)].
Qed.

(* SInt * SInt of DIFFERENT widths (both >= 1): the product of the two's complement values, each
   read at its own width, modulo 2^max - for every pair of values and every expansion policy. *)
Theorem mul_sint_mixed_width a b sa sb :
  sv_ty a = TS -> sv_ty b = TS -> sv_w a <> sv_w b -> (0 < sv_w a)%nat -> (0 < sv_w b)%nat ->
  bv_sval (sv_bits a) = Some sa -> bv_sval (sv_bits b) = Some sb ->
  fe_arith A_MUL a b = Some (mk_sval TS PNone (bv_of_Z (max (sv_w a) (sv_w b)) (sa * sb))).
Proof.
  intros Ta Tb W Wa Wb Ha Hb. unfold fe_arith. rewrite Ta, Tb. unfold fe_mul_sint.
  replace (sv_w a =? sv_w b)%nat with false by (symmetry; apply Nat.eqb_neq; exact W).
  rewrite !fe_msb_spec.
  replace (sv_w a =? 0)%nat with false by (symmetry; apply Nat.eqb_neq; lia).
  replace (sv_w b =? 0)%nat with false by (symmetry; apply Nat.eqb_neq; lia).
  cbn [bind]. rewrite (msb_bool_sv a sa Wa Ha), (msb_bool_sv b sb Wb Hb).
  (* the sign of the result *)
  assert (Hx : fe_logic L_XOR (mk_sval TB PNone [of_bool (sa <? 0)]) (mk_sval TB PNone [of_bool (sb <? 0)])
               = Some (mk_sval TB PNone [of_bool (xorb (sa <? 0) (sb <? 0))])).
  { destruct (sa <? 0), (sb <? 0); reflexivity. }
  rewrite Hx. cbn [bind].
  destruct (abs_spec a sa Wa Ha) as [Aa Ba]. destruct (abs_spec b sb Wb Hb) as [Ab Bb].
  rewrite Aa, Ab. cbn [bind].
  set (w := max (sv_w a) (sv_w b)).
  set (al := mk_sval TU PZero (bv_of_N (sv_w a) (Z.to_N (Z.abs sa)))).
  set (ar := mk_sval TU PZero (bv_of_N (sv_w b) (Z.to_N (Z.abs sb)))).
  assert (Wal : sv_w al = sv_w a) by (unfold al, sv_w; cbn [sv_bits]; apply bv_of_N_length).
  assert (War : sv_w ar = sv_w b) by (unfold ar, sv_w; cbn [sv_bits]; apply bv_of_N_length).
  assert (Val : bv_val (sv_bits al) = Some (Z.to_N (Z.abs sa))).
  { unfold al. cbn [sv_bits]. apply bv_of_N_small_val. apply N2Z.inj_lt. rewrite Z2N.id, of_N_pow2 by lia. exact Ba. }
  assert (Var : bv_val (sv_bits ar) = Some (Z.to_N (Z.abs sb))).
  { unfold ar. cbn [sv_bits]. apply bv_of_N_small_val. apply N2Z.inj_lt. rewrite Z2N.id, of_N_pow2 by lia. exact Bb. }
  (* both magnitudes are zero extended to the common width *)
  destruct (norm al ar) as [[xa xb]|] eqn:Hn.
  2:{ apply norm_rejected in Hn. cbn [al ar sv_pol] in Hn. destruct Hn as [[_ [H|[H _]]]|[_ [H|[H _]]]]; discriminate. }
  destruct (norm_inv _ _ _ _ Hn) as [Ea Eb]. cbn [al ar sv_pol] in Ea, Eb.
  destruct (expand_zero_value _ _ _ _ Ea Val) as [Vxa Lxa]. destruct (expand_zero_value _ _ _ _ Eb Var) as [Vxb Lxb].
  rewrite (arith_node_spec A_MUL TU al ar xa xb _ _ Hn Vxa Vxb).
  rewrite Wal, War. fold w. rewrite arith2_mul. rewrite !Z2N.id by lia.
  set (absRes := bv_of_Z w (Z.abs sa * Z.abs sb)).
  assert (Wpos : (0 < w)%nat) by (unfold w; lia).
  assert (Labs : length absRes = w) by apply bv_of_Z_length.
  pose proof (bv_val_of_Z w (Z.abs sa * Z.abs sb)) as Vabs. fold absRes in Vabs.
  destruct (negate_spec PNone absRes _ ltac:(rewrite Labs; exact Wpos) Vabs) as [nx [N1 N2]]. rewrite Labs in N2.
  cbn [bind]. rewrite N1. cbn [bind]. rewrite N2. cbn [bind sv_bits]. unfold ret. f_equal. f_equal.
  rewrite cond_assign_spec by (rewrite bv_of_Z_length, Labs; reflexivity).
  rewrite Z2N.id by (apply Z.mod_pos_bound, pow2_Z_pos).
  destruct (Z.ltb_spec sa 0) as [Na|Pa]; destruct (Z.ltb_spec sb 0) as [Nb|Pb]; cbn [xorb]; unfold absRes; apply bv_of_Z_eqm.
  - rewrite !Z.abs_neq by lia. unfold eqm. f_equal. lia.
  - eapply eqm_trans; [apply eqm_opp; apply eqm_mod|].
    rewrite Z.abs_neq, Z.abs_eq by lia. unfold eqm. f_equal. lia.
  - eapply eqm_trans; [apply eqm_opp; apply eqm_mod|].
    rewrite Z.abs_eq, Z.abs_neq by lia. unfold eqm. f_equal. lia.
  - rewrite !Z.abs_eq by lia. reflexivity.
Qed.

Theorem mul_sint_rejected a b :
  sv_ty a = TS -> sv_ty b = TS -> sv_w a <> sv_w b -> (sv_w a = 0%nat \/ sv_w b = 0%nat) -> fe_arith A_MUL a b = None.
Proof.
  intros Ta Tb W H. unfold fe_arith. rewrite Ta, Tb. unfold fe_mul_sint.
  replace (sv_w a =? sv_w b)%nat with false by (symmetry; apply Nat.eqb_neq; exact W).
  rewrite !fe_msb_spec. destruct H as [H|H]; rewrite H; [reflexivity|].
  destruct (sv_w a =? 0)%nat; reflexivity.
Qed.

(* ================================================================== *)
(* signed comparison                                                     *)

Lemma top_bit_of_Z w z :
  (0 < w)%nat -> - 2 ^ Z.of_nat (w - 1) <= z < 2 ^ Z.of_nat (w - 1) ->
  bv_get (bv_of_Z w z) (w - 1) = of_bool (z <? 0).
Proof.
  intros Hw Hz. pose proof (bv_sval_of_Z w z Hw Hz) as S.
  rewrite <- (bv_of_Z_length w z) at 2. apply msb_bool; [rewrite bv_of_Z_length; exact Hw | exact S].
Qed.

Lemma pow2_Z_mono a b : (a <= b)%nat -> 2 ^ Z.of_nat a <= 2 ^ Z.of_nat b.
Proof. intro H. apply Z.pow_le_mono_r; lia. Qed.

(* a < b on SInt: the sign of the (max+1)-bit difference - correct for ALL operand pairs of all widths
   >= 1 and independent of the operands' expansion policies *)
Theorem lt_sint_spec a b sa sb :
  (0 < sv_w a)%nat -> (0 < sv_w b)%nat ->
  bv_sval (sv_bits a) = Some sa -> bv_sval (sv_bits b) = Some sb ->
  fe_lt_sint a b = Some (mk_sval TB PNone [of_bool (sa <? sb)]).
Proof.
  intros Wa Wb Ha Hb. unfold fe_lt_sint. set (m := max (sv_w a) (sv_w b)).
  rewrite !fe_ext_to_spec.
  replace (S m <? sv_w a)%nat with false by (symmetry; apply Nat.ltb_ge; unfold m; lia).
  replace (S m <? sv_w b)%nat with false by (symmetry; apply Nat.ltb_ge; unfold m; lia).
  destruct (expand PSign (sv_bits a) (S m)) as [xa|] eqn:Ea.
  2:{ apply expand_rejected in Ea. unfold m, sv_w in *. destruct Ea as [H|[[_ H]|[_ [_ H]]]]; [lia | discriminate | lia]. }
  destruct (expand PSign (sv_bits b) (S m)) as [xb|] eqn:Eb.
  2:{ apply expand_rejected in Eb. unfold m, sv_w in *. destruct Eb as [H|[[_ H]|[_ [_ H]]]]; [lia | discriminate | lia]. }
  destruct (expand_sign_value_Z _ _ _ _ Ea Ha) as [Sxa Lxa]. destruct (expand_sign_value_Z _ _ _ _ Eb Hb) as [Sxb Lxb].
  cbn [bind].
  set (ea := mk_sval (ext_ty a) PSign xa). set (eb := mk_sval (ext_ty b) PSign xb).
  assert (Wea : sv_w ea = S m) by exact Lxa. assert (Web : sv_w eb = S m) by exact Lxb.
  assert (Hn : norm ea eb = Some (xa, xb)) by (apply (norm_same_width ea eb); rewrite Wea, Web; reflexivity).
  destruct (bv_sval_val _ _ Sxa) as [va [Hva Eva]]. destruct (bv_sval_val _ _ Sxb) as [vb [Hvb Evb]].
  rewrite (arith_node_spec A_SUB TS ea eb xa xb va vb Hn Hva Hvb). rewrite Wea, Web, Nat.max_id, arith2_sub.
  cbn [bind]. rewrite fe_msb_spec. unfold sv_w at 1 2. cbn [sv_bits]. rewrite bv_of_Z_length. cbn [Nat.eqb Nat.sub]. rewrite Nat.sub_0_r.
  f_equal. f_equal. f_equal.
  (* the difference is congruent to sa - sb, which fits into m+1 bits *)
  assert (C : bv_of_Z (S m) (Z.of_N va - Z.of_N vb) = bv_of_Z (S m) (sa - sb)).
  { apply bv_of_Z_eqm. apply eqm_sub.
    - pose proof (bv_val_eqm_sval _ _ _ Hva Sxa) as C. rewrite Lxa in C. exact C.
    - pose proof (bv_val_eqm_sval _ _ _ Hvb Sxb) as C. rewrite Lxb in C. exact C. }
  rewrite C.
  destruct (bv_sval_val _ _ Ha) as [ua [Hua Eua]]. destruct (bv_sval_val _ _ Hb) as [ub [Hub Eub]].
  pose proof (sint_bounds _ ua Wa (bv_val_lt _ _ Hua)) as Ba. pose proof (sint_bounds _ ub Wb (bv_val_lt _ _ Hub)) as Bb.
  fold (sv_w a) in Ba, Eua. fold (sv_w b) in Bb, Eub. rewrite <- Eua in Ba. rewrite <- Eub in Bb.
  assert (Ma : 2 ^ Z.of_nat (sv_w a - 1) <= 2 ^ Z.of_nat (m - 1)) by (apply pow2_Z_mono; unfold m; lia).
  assert (Mb : 2 ^ Z.of_nat (sv_w b - 1) <= 2 ^ Z.of_nat (m - 1)) by (apply pow2_Z_mono; unfold m; lia).
  assert (Pm : 2 ^ Z.of_nat m = 2 * 2 ^ Z.of_nat (m - 1)).
  { replace m with (S (m - 1)) at 1 by (unfold m; lia). apply pow2_Z_succ. }
  replace m with (S m - 1)%nat at 2 by lia.
  rewrite top_bit_of_Z.
  - f_equal. destruct (Z.ltb_spec (sa - sb) 0); destruct (Z.ltb_spec sa sb); try lia; reflexivity.
  - lia.
  - cbn [Nat.sub]. rewrite Nat.sub_0_r. lia.
Qed.

Theorem lt_sint_rejected a b : sv_w a = 0%nat \/ sv_w b = 0%nat -> fe_lt_sint a b = None.
Proof.
  intro H. unfold fe_lt_sint. rewrite !fe_ext_to_spec.
  set (m := max (sv_w a) (sv_w b)).
  replace (S m <? sv_w a)%nat with false by (symmetry; apply Nat.ltb_ge; unfold m; lia).
  replace (S m <? sv_w b)%nat with false by (symmetry; apply Nat.ltb_ge; unfold m; lia).
  destruct H as [H|H].
  - assert (E : expand PSign (sv_bits a) (S m) = None).
    { apply expand_rejected. right; right. unfold sv_w in *. repeat split; [lia | exact H]. }
    rewrite E. reflexivity.
  - assert (E : expand PSign (sv_bits b) (S m) = None).
    { apply expand_rejected. right; right. unfold sv_w in *. repeat split; [lia | exact H]. }
    rewrite E. destruct (expand PSign (sv_bits a) (S m)); reflexivity.
Qed.

Lemma not_bit (c : bool) : fe_not (mk_sval TB PNone [of_bool c]) = Some (mk_sval TB PNone [of_bool (negb c)]).
Proof. destruct c; reflexivity. Qed.

(* SInt < > <= >= : the comparison of the two's complement values, all widths >= 1, all values *)
Theorem cmp_sint_spec op a b sa sb :
  sv_ty a = TS -> sv_ty b = TS -> (op = C_LT \/ op = C_GT \/ op = C_LEQ \/ op = C_GEQ) ->
  (0 < sv_w a)%nat -> (0 < sv_w b)%nat ->
  bv_sval (sv_bits a) = Some sa -> bv_sval (sv_bits b) = Some sb ->
  fe_cmp op a b = Some (mk_sval TB PNone [of_bool (cmp_Z op sa sb)]).
Proof.
  intros Ta Tb Hop Wa Wb Ha Hb. unfold fe_cmp. rewrite Ta, Tb.
  destruct Hop as [-> | [-> | [-> | ->]]]; cbn [cmp_Z].
  - apply lt_sint_spec; assumption.
  - apply lt_sint_spec; assumption.
  - rewrite (lt_sint_spec b a sb sa) by assumption. cbn [bind]. rewrite not_bit. f_equal. f_equal. f_equal. f_equal.
    destruct (Z.ltb_spec sb sa); destruct (Z.leb_spec sa sb); try lia; reflexivity.
  - rewrite (lt_sint_spec a b sa sb) by assumption. cbn [bind]. rewrite not_bit. f_equal. f_equal. f_equal. f_equal.
    destruct (Z.ltb_spec sa sb); destruct (Z.leb_spec sb sa); try lia; reflexivity.
Qed.

Theorem cmp_sint_rejected op a b :
  sv_ty a = TS -> sv_ty b = TS -> (op = C_LT \/ op = C_GT \/ op = C_LEQ \/ op = C_GEQ) ->
  (sv_w a = 0%nat \/ sv_w b = 0%nat) -> fe_cmp op a b = None.
Proof.
  intros Ta Tb Hop H. unfold fe_cmp. rewrite Ta, Tb.
  assert (H' : sv_w b = 0%nat \/ sv_w a = 0%nat) by (destruct H; [right | left]; assumption).
  destruct Hop as [-> | [-> | [-> | ->]]]; rewrite ?(lt_sint_rejected a b H), ?(lt_sint_rejected b a H'); reflexivity.
Qed.

(* SInt == != on policy-normalised operands: equality of the two's complement values *)
Theorem eq_sint_spec op a b xa xb sa sb :
  sv_ty a = TS -> sv_ty b = TS -> (op = C_EQ \/ op = C_NEQ) ->
  norm a b = Some (xa, xb) -> bv_sval xa = Some sa -> bv_sval xb = Some sb ->
  fe_cmp op a b = Some (mk_sval TB PNone [of_bool (cmp_Z op sa sb)]).
Proof.
  intros Ta Tb Hop Hn Ha Hb. destruct (norm_lengths _ _ _ _ Hn) as [La Lb].
  destruct (bv_sval_val _ _ Ha) as [va [Hva Ea]]. destruct (bv_sval_val _ _ Hb) as [vb [Hvb Eb]].
  assert (Inj : (va =? vb)%N = (sa =? sb)).
  { subst sa sb. rewrite La, Lb.
    destruct (N.eqb_spec va vb) as [->|Ne]; [symmetry; apply Z.eqb_refl|].
    symmetry. apply Z.eqb_neq. intro E. apply Ne.
    pose proof (bv_val_lt _ _ Hva) as B1. pose proof (bv_val_lt _ _ Hvb) as B2. rewrite La in B1. rewrite Lb in B2.
    apply N2Z.inj. rewrite <- (sint_mod _ _ B1), <- (sint_mod _ _ B2), E. reflexivity. }
  unfold fe_cmp. rewrite Ta, Tb.
  destruct Hop as [-> | ->]; rewrite (cmp_node_spec _ a b xa xb va vb Hn Hva Hvb); cbn [cmp_N cmp_Z]; rewrite Inj; reflexivity.
Qed.

(* the graph the frontend built before repair 1bb3187: the sign of the difference at operand width *)
Definition fe_lt_sint_old (a b : sval) : option sval :=
  d <- fe_arith_node A_SUB TS a b ;; fe_msb d.
