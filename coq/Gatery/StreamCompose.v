(* C16 -- sequential composition: the run of [compose A B] decomposes into a run of A and a run of B
   that share the middle wire; Safe / Lag / Strong and the hold rule are closed under composition. *)
From Coq Require Import List NArith Bool Arith Lia.
From Gatery Require Import StreamDefs StreamSpec.
Import ListNotations.

Section Compose.
Variables A B : stage.

(* the per-cycle inputs that A resp. B see inside the composition *)
Definition upc (sa : st A) (sb : st B) (c : cyc) : cyc :=
  mkCyc (c_ctl c) (c_in c) (bwd B sb (c_ctl c) (fwd A sa (c_ctl c) (c_in c)) (c_rdy c)).
Definition midc (sa : st A) (sb : st B) (c : cyc) : cyc :=
  mkCyc (c_ctl c) (fwd A sa (c_ctl c) (c_in c)) (c_rdy c).

Fixpoint upcsFrom (sa : st A) (sb : st B) (cs : list cyc) : list cyc :=
  match cs with
  | [] => []
  | c :: cs' => upc sa sb c :: upcsFrom (stepS A sa (upc sa sb c)) (stepS B sb (midc sa sb c)) cs'
  end.
Fixpoint midcsFrom (sa : st A) (sb : st B) (cs : list cyc) : list cyc :=
  match cs with
  | [] => []
  | c :: cs' => midc sa sb c :: midcsFrom (stepS A sa (upc sa sb c)) (stepS B sb (midc sa sb c)) cs'
  end.

Definition upcs (cs : list cyc) := upcsFrom (init A) (init B) cs.
Definition midcs (cs : list cyc) := midcsFrom (init A) (init B) cs.

Lemma step_compose : forall sa sb c,
  stepS (compose A B) (sa, sb) c = (stepS A sa (upc sa sb c), stepS B sb (midc sa sb c)).
Proof. reflexivity. Qed.

Lemma afterFrom_compose : forall cs sa sb,
  afterFrom (compose A B) (sa, sb) cs =
  (afterFrom A sa (upcsFrom sa sb cs), afterFrom B sb (midcsFrom sa sb cs)).
Proof.
  induction cs as [|c cs IH]; intros; [reflexivity|].
  unfold afterFrom in *. cbn [fold_left upcsFrom midcsFrom]. rewrite step_compose. apply IH.
Qed.

Lemma after_compose : forall cs, after (compose A B) cs = (after A (upcs cs), after B (midcs cs)).
Proof. intros; apply afterFrom_compose. Qed.

Lemma upcsFrom_app : forall cs1 cs2 sa sb,
  upcsFrom sa sb (cs1 ++ cs2) =
  upcsFrom sa sb cs1 ++ upcsFrom (afterFrom A sa (upcsFrom sa sb cs1)) (afterFrom B sb (midcsFrom sa sb cs1)) cs2.
Proof. induction cs1 as [|c cs1 IH]; intros; simpl; [reflexivity|]. now rewrite IH. Qed.

Lemma midcsFrom_app : forall cs1 cs2 sa sb,
  midcsFrom sa sb (cs1 ++ cs2) =
  midcsFrom sa sb cs1 ++ midcsFrom (afterFrom A sa (upcsFrom sa sb cs1)) (afterFrom B sb (midcsFrom sa sb cs1)) cs2.
Proof. induction cs1 as [|c cs1 IH]; intros; simpl; [reflexivity|]. now rewrite IH. Qed.

Lemma upcs_snoc : forall cs c, upcs (cs ++ [c]) = upcs cs ++ [upc (after A (upcs cs)) (after B (midcs cs)) c].
Proof. intros; unfold upcs; rewrite upcsFrom_app; reflexivity. Qed.
Lemma midcs_snoc : forall cs c, midcs (cs ++ [c]) = midcs cs ++ [midc (after A (upcs cs)) (after B (midcs cs)) c].
Proof. intros; unfold midcs; rewrite midcsFrom_app; reflexivity. Qed.

Lemma upcs_app : forall cs1 cs2, upcs (cs1 ++ cs2) = upcs cs1 ++ upcsFrom (after A (upcs cs1)) (after B (midcs cs1)) cs2.
Proof. intros; unfold upcs; now rewrite upcsFrom_app. Qed.
Lemma midcs_app : forall cs1 cs2, midcs (cs1 ++ cs2) = midcs cs1 ++ midcsFrom (after A (upcs cs1)) (after B (midcs cs1)) cs2.
Proof. intros; unfold midcs; now rewrite midcsFrom_app. Qed.

(* the events of the three runs, cycle by cycle *)
Lemma ev_compose : forall sa sb c,
  let e := evAt (compose A B) (sa, sb) c in
  let ea := evAt A sa (upc sa sb c) in
  let eb := evAt B sb (midc sa sb c) in
  e_in e = e_in ea /\ e_rin e = e_rin ea /\ e_out e = e_out eb /\ e_rout e = e_rout eb /\
  e_out ea = e_in eb /\ e_rout ea = e_rin eb /\ e_ctl ea = e_ctl e /\ e_ctl eb = e_ctl e.
Proof. intros; repeat split. Qed.

Lemma xio_compose : forall sa sb c,
  xin (evAt (compose A B) (sa, sb) c) = xin (evAt A sa (upc sa sb c)) /\
  xout (evAt (compose A B) (sa, sb) c) = xout (evAt B sb (midc sa sb c)) /\
  xout (evAt A sa (upc sa sb c)) = xin (evAt B sb (midc sa sb c)) /\
  offin (evAt (compose A B) (sa, sb) c) = offin (evAt A sa (upc sa sb c)) /\
  offout (evAt (compose A B) (sa, sb) c) = offout (evAt B sb (midc sa sb c)) /\
  offout (evAt A sa (upc sa sb c)) = offin (evAt B sb (midc sa sb c)).
Proof. intros; repeat split. Qed.

Lemma T_composeFrom : forall cs sa sb,
  Tin (traceFrom (compose A B) (sa, sb) cs) = Tin (traceFrom A sa (upcsFrom sa sb cs)) /\
  Tout (traceFrom (compose A B) (sa, sb) cs) = Tout (traceFrom B sb (midcsFrom sa sb cs)) /\
  Tout (traceFrom A sa (upcsFrom sa sb cs)) = Tin (traceFrom B sb (midcsFrom sa sb cs)).
Proof.
  induction cs as [|c cs IH]; intros; [repeat split|].
  cbn [traceFrom upcsFrom midcsFrom]. rewrite step_compose.
  destruct (IH (stepS A sa (upc sa sb c)) (stepS B sb (midc sa sb c))) as (I1 & I2 & I3).
  destruct (xio_compose sa sb c) as (X1 & X2 & X3 & _).
  unfold Tin, Tout in *. cbn [flat_map]. rewrite I1, I2, I3, X1, X2, X3. repeat split.
Qed.

Lemma Tin_compose : forall cs, Tin (trace (compose A B) cs) = Tin (trace A (upcs cs)).
Proof. intros; apply T_composeFrom. Qed.
Lemma Tout_compose : forall cs, Tout (trace (compose A B) cs) = Tout (trace B (midcs cs)).
Proof. intros; apply T_composeFrom. Qed.
Lemma Tmid_compose : forall cs, Tout (trace A (upcs cs)) = Tin (trace B (midcs cs)).
Proof. intros; apply T_composeFrom. Qed.

Lemma W_composeFrom : forall cs sa sb,
  inW (traceFrom (compose A B) (sa, sb) cs) = inW (traceFrom A sa (upcsFrom sa sb cs)) /\
  outW (traceFrom (compose A B) (sa, sb) cs) = outW (traceFrom B sb (midcsFrom sa sb cs)) /\
  outW (traceFrom A sa (upcsFrom sa sb cs)) = inW (traceFrom B sb (midcsFrom sa sb cs)).
Proof.
  induction cs as [|c cs IH]; intros; [repeat split|].
  cbn [traceFrom upcsFrom midcsFrom]. rewrite step_compose.
  destruct (IH (stepS A sa (upc sa sb c)) (stepS B sb (midc sa sb c))) as (I1 & I2 & I3).
  unfold inW, outW in *. cbn [map]. rewrite I1, I2, I3. repeat split.
Qed.

Lemma inW_compose : forall cs, inW (trace (compose A B) cs) = inW (trace A (upcs cs)).
Proof. intros; apply W_composeFrom. Qed.
Lemma outW_compose : forall cs, outW (trace (compose A B) cs) = outW (trace B (midcs cs)).
Proof. intros; apply W_composeFrom. Qed.
Lemma midW_compose : forall cs, outW (trace A (upcs cs)) = inW (trace B (midcs cs)).
Proof. intros; apply W_composeFrom. Qed.

(* the environment of the composition: A's assumption on what A sees, B's on what B sees *)
Definition Ecomp (EA EB : list cyc -> Prop) : list cyc -> Prop := fun cs => EA (upcs cs) /\ EB (midcs cs).

Theorem compose_Safe : forall EA EB fA fB,
  mono fB -> Safe A EA fA -> Safe B EB fB -> Safe (compose A B) (Ecomp EA EB) (fun l => fB (fA l)).
Proof.
  intros EA EB fA fB MB SA SB cs c [HA HB].
  rewrite upcs_snoc in HA. rewrite midcs_snoc in HB.
  specialize (SA _ _ HA). specialize (SB _ _ HB).
  rewrite after_compose, Tin_compose, Tout_compose.
  destruct (xio_compose (after A (upcs cs)) (after B (midcs cs)) c) as (_ & _ & _ & X4 & X5 & X6).
  rewrite X4, X5.
  eapply prefix_trans; [exact SB|].
  apply MB. rewrite <- Tmid_compose, <- X6. exact SA.
Qed.

Theorem compose_Strong : forall EA EB fA fB,
  mono fB -> Strong A EA fA -> Strong B EB fB -> Strong (compose A B) (Ecomp EA EB) (fun l => fB (fA l)).
Proof.
  intros EA EB fA fB MB SA SB cs [HA HB].
  rewrite Tin_compose, Tout_compose.
  eapply prefix_trans; [exact (SB _ HB)|]. apply MB. rewrite <- Tmid_compose. exact (SA _ HA).
Qed.

Theorem compose_Lag : forall EA EB fA fB capA capB kB,
  mono fA -> mono fB -> lip fB kB ->
  Safe A EA fA -> Lag A EA fA capA -> Lag B EB fB capB ->
  Lag (compose A B) (Ecomp EA EB) (fun l => fB (fA l)) (capB + kB * capA).
Proof.
  intros EA EB fA fB capA capB kB MA MB LB SA LA LBg cs [HA HB].
  rewrite Tin_compose, Tout_compose.
  specialize (LA _ HA). specialize (LBg _ HB). rewrite <- Tmid_compose in LBg.
  set (ta := trace A (upcs cs)) in *. set (tb := trace B (midcs cs)) in *.
  (* Tout ta and fA (Tin ta) are prefixes of a common list, hence comparable *)
  assert (C : prefix (Tout ta) (fA (Tin ta)) \/ prefix (fA (Tin ta)) (Tout ta)).
  { destruct cs as [|c0 cs0 _] using rev_ind.
    - left. subst ta. unfold upcs; simpl. apply prefix_nil.
    - rewrite upcs_snoc in HA. subst ta. rewrite upcs_snoc.
      destruct (Safe_end A EA fA MA SA _ _ HA) as (X & P1 & P2).
      eapply prefix_comparable; eassumption. }
  destruct C as [[u Hu]|C].
  - rewrite Hu. pose proof (LB (Tout ta) u). rewrite Hu, app_length in LA.
    assert (length u <= capA) by lia. nia.
  - pose proof (prefix_length _ _ _ (MB _ _ C)). lia.
Qed.

(* the hold rule through a composition, from two-step local facts *)
End Compose.

Arguments upcs A B cs : assert.
Arguments midcs A B cs : assert.
Arguments Ecomp A B EA EB _ : assert.

(* ------------------------------------------------------------------ weakening the environment *)
Lemma Safe_weaken : forall S (E E' : list cyc -> Prop) f, (forall cs, E' cs -> E cs) -> Safe S E f -> Safe S E' f.
Proof. intros S E E' f H HS cs c HE; apply HS, H, HE. Qed.
Lemma Lag_weaken : forall S (E E' : list cyc -> Prop) f cap cap', (forall cs, E' cs -> E cs) -> cap <= cap' -> Lag S E f cap -> Lag S E' f cap'.
Proof. intros S E E' f cap cap' H Hc HL cs HE; specialize (HL cs (H _ HE)); lia. Qed.
Lemma Strong_weaken : forall S (E E' : list cyc -> Prop) f, (forall cs, E' cs -> E cs) -> Strong S E f -> Strong S E' f.
Proof. intros S E E' f H HS cs HE; apply HS, H, HE. Qed.

Lemma Safe_ext : forall S E f g, (forall l, f l = g l) -> Safe S E f -> Safe S E g.
Proof. intros S E f g H HS cs c HE. rewrite <- H. apply HS, HE. Qed.
Lemma Lag_ext : forall S E f g cap, (forall l, f l = g l) -> Lag S E f cap -> Lag S E g cap.
Proof. intros S E f g cap H HL cs HE. rewrite <- H. apply HL, HE. Qed.
Lemma Strong_ext : forall S E f g, (forall l, f l = g l) -> Strong S E f -> Strong S E g.
Proof. intros S E f g H HS cs HE. rewrite <- H. apply HS, HE. Qed.
