(* C19 -- a small-step semantics for the scheduler model and the proof that the interpreter of
   SimProcDefs.v only ever performs such steps (every state the interpreter passes through, and in
   particular its result, is reachable).  Invariants are then proved once, per kind of step
   (SimProcInv*.v), instead of once per interpreter loop.

   A configuration is the simulator state together with the call stack of the coroutine that is currently
   executing (empty = control is in the simulator proper).  The guards of the steps are exactly the
   conditions the interpreter has tested at that point (loop conditions, `halted`, empty ready queue). *)
From Coq Require Import List NArith ZArith QArith Bool Lia.
From Gatery Require Import SimProcDefs.
Import ListNotations.
Local Close Scope Q_scope.

Definition conf := (state * list frame)%type.

(* no pin write has happened since the last reevaluate() *)
Fixpoint nwb (l : list entry) : bool :=
  match l with
  | [] => true
  | LReeval :: _ => true
  | LProc _ _ _ _ _ (AWrite _ _) :: _ => false
  | _ :: r => nwb r
  end.

Inductive tstep (cfg : config) : conf -> conf -> Prop :=
| TS_frame : forall s f rest fs s',
    halted s = false -> step_frame cfg f s = (fs, s') ->
    tstep cfg (s, f :: rest) (s', fs ++ rest)
| TS_task : forall s t r stk s',
    halted s = false -> s_ready s = t :: r -> task_head t (set_ready r s) = (stk, s') ->
    tstep cfg (s, []) (s', stk)
| TS_event : forall s e s1,
    halted s = false -> s_ready s = [] -> s_readonly s = false ->
    top_matches false true s = true -> pop_event s = Some (e, s1) ->
    tstep cfg (s, []) (event_head cfg e s1, [])
| TS_micro_end : forall s,
    halted s = false -> s_ready s = [] -> s_readonly s = false ->
    top_matches false true s = false ->
    tstep cfg (s, []) (micro_end s, [])
| TS_phase : forall s ph,
    halted s = false -> s_ready s = [] -> s_readonly s = false -> nwb (s_log s) = true ->
    match ph with
    | BEFORE => top_matches true false s = true
    | DURING => s_phase s = BEFORE /\ top_matches false false s = false
    | AFTER => s_phase s = DURING /\ top_matches false false s = false
    end ->
    tstep cfg (s, []) (phase_begin ph s, [])
| TS_commit_begin : forall s,
    halted s = false -> s_ready s = [] -> s_readonly s = false -> nwb (s_log s) = true ->
    s_phase s = AFTER -> top_matches true false s = false ->
    tstep cfg (s, []) (commit_begin s, [])
| TS_enq_stable : forall s pid t0,
    halted s = false -> s_ready s = [] -> s_readonly s = true ->
    tstep cfg (s, []) (enqueue (TWake pid WkStable (ghost0 t0)) s, [])
| TS_commit_end : forall s,
    halted s = false -> s_ready s = [] -> s_readonly s = true ->
    tstep cfg (s, []) (commit_end s, [])
| TS_set_time : forall s e q,
    halted s = false -> s_ready s = [] -> s_readonly s = false -> nwb (s_log s) = true ->
    s_phase s = AFTER -> s_queue s = e :: q ->
    tstep cfg (s, []) (set_mt 0 (set_time (e_time e) s), [])
| TS_set_target : forall s t,
    halted s = false -> s_ready s = [] -> s_readonly s = false -> nwb (s_log s) = true ->
    s_phase s = AFTER -> clock_less (s_now s) t = true ->
    match s_queue s with [] => True | e :: _ => clock_more (e_time e) t = true end ->
    tstep cfg (s, []) (set_time t s, [])
| TS_oof : forall s stk,
    tstep cfg (s, stk) (set_oof s, stk)
(* powerOn: starting the processes, the reevaluate() that follows *)
| TS_enq_start : forall s pid,
    halted s = false -> s_ready s = [] -> s_readonly s = false -> s_phase s = AFTER ->
    tstep cfg (s, []) (enqueue (TStart pid) s, [])
| TS_fiber_start : forall s pid fs s',
    halted s = false -> s_ready s = [] -> s_readonly s = false -> s_phase s = AFTER ->
    fiber_start pid s = (fs, s') ->
    tstep cfg (s, []) (s', fs)
| TS_reeval : forall s,
    halted s = false -> s_ready s = [] -> s_readonly s = false -> s_phase s = AFTER ->
    tstep cfg (s, []) (reevaluate s, []).

Inductive treach (cfg : config) (c0 : conf) : conf -> Prop :=
| TR_init : treach cfg c0 c0
| TR_step : forall c c', treach cfg c0 c -> tstep cfg c c' -> treach cfg c0 c'.

(* ------------------------------------------------------------------------- *)
(** * Frame facts: what the building blocks leave alone *)

Definition same_ctl (s s' : state) : Prop :=
  s_now s' = s_now s /\ s_phase s' = s_phase s /\ s_mt s' = s_mt s /\ s_readonly s' = s_readonly s.

Lemma same_ctl_refl : forall s, same_ctl s s.
Proof. intro s. repeat split. Qed.
Lemma same_ctl_trans : forall a b c, same_ctl a b -> same_ctl b c -> same_ctl a c.
Proof. unfold same_ctl. intros a b c (A1 & A2 & A3 & A4) (B1 & B2 & B3 & B4). repeat split; congruence. Qed.

Lemma add_log_ctl : forall e s, same_ctl s (add_log e s).
Proof. intros e s. unfold add_log. destruct (s_err s); repeat split. Qed.
Lemma log_proc_ctl : forall pid a s, same_ctl s (log_proc pid a s).
Proof. intros. apply add_log_ctl. Qed.
Lemma enqueue_ctl : forall t s, same_ctl s (enqueue t s).
Proof. repeat split. Qed.
Lemma push_event_ctl : forall e s, same_ctl s (push_event e s).
Proof. repeat split. Qed.
Lemma upd_proc_ctl : forall pid f s, same_ctl s (upd_proc pid f s).
Proof. repeat split. Qed.

Lemma fold_enqueue_ctl : forall (js : list (nat * nat * Q)) s,
  same_ctl s (fold_left (fun st j => match j with (jp, k, t0) => enqueue (TWake jp (WkJoin k) (ghost0 t0)) st end) js s).
Proof.
  induction js as [|[[jp k] t0] r IH]; intro s; simpl; [apply same_ctl_refl|].
  eapply same_ctl_trans; [|apply IH]. apply enqueue_ctl.
Qed.

Lemma finish_proc_ctl : forall pid s, same_ctl s (finish_proc pid s).
Proof.
  intros pid s. unfold finish_proc.
  eapply same_ctl_trans; [apply (log_proc_ctl pid AEnd s)|].
  eapply same_ctl_trans; [apply (upd_proc_ctl pid with_done)|]. apply fold_enqueue_ctl.
Qed.

Lemma fiber_continue_ctl : forall pid s, same_ctl s (snd (fiber_continue pid s)).
Proof.
  intros pid s. unfold fiber_continue. destruct (p_script (get_proc pid s)); simpl; [apply same_ctl_refl | apply enqueue_ctl].
Qed.

Lemma suspend_waitfor_ctl : forall pid q s, same_ctl s (suspend_waitfor pid q s).
Proof. intros. unfold suspend_waitfor, fresh_id. repeat split. Qed.
Lemma suspend_waitclk_ctl : forall cfg pid c ph s, same_ctl s (suspend_waitclk cfg pid c ph s).
Proof. intros. unfold suspend_waitclk, fresh_id. destruct (eff_clk cfg c); repeat split. Qed.
Lemma suspend_waitchange_ctl : forall pid m s, same_ctl s (suspend_waitchange pid m s).
Proof. intros. unfold suspend_waitchange, fresh_id. repeat split. Qed.
Lemma suspend_waitstable_ctl : forall pid s, same_ctl s (suspend_waitstable pid s).
Proof. repeat split. Qed.

Lemma step_frame_ctl : forall cfg f s, same_ctl s (snd (step_frame cfg f s)).
Proof.
  intros cfg f s. destruct f as [pid|pid|pid]; simpl.
  - apply log_proc_ctl.
  - destruct (p_script (get_proc pid s)) as [|st rest] eqn:E; simpl; [apply finish_proc_ctl|].
    set (s0 := upd_proc pid (with_script rest) s).
    assert (C0 : same_ctl s s0) by apply upd_proc_ctl.
    assert (K : forall s', same_ctl s s' ->
                 same_ctl s (snd (if p_fiber (get_proc pid s) then fiber_continue pid s' else ([FRun pid], s')))).
    { intros s' H. destruct (p_fiber (get_proc pid s)); simpl; [|exact H].
      eapply same_ctl_trans; [exact H | apply fiber_continue_ctl]. }
    destruct st; simpl.
    + eapply same_ctl_trans; [exact C0|]. eapply same_ctl_trans; [apply log_proc_ctl | apply suspend_waitclk_ctl].
    + eapply same_ctl_trans; [exact C0|]. eapply same_ctl_trans; [apply log_proc_ctl | apply suspend_waitfor_ctl].
    + eapply same_ctl_trans; [exact C0|]. eapply same_ctl_trans; [apply log_proc_ctl|].
      eapply same_ctl_trans; [apply log_proc_ctl | apply suspend_waitchange_ctl].
    + eapply same_ctl_trans; [exact C0|]. eapply same_ctl_trans; [apply log_proc_ctl | apply suspend_waitstable_ctl].
    + apply K. eapply same_ctl_trans; [exact C0 | apply log_proc_ctl].
    + destruct (s_readonly (log_proc pid (AWrite p v) s0)); simpl.
      * eapply same_ctl_trans; [exact C0|]. eapply same_ctl_trans; [apply log_proc_ctl|].
        eapply same_ctl_trans; [apply add_log_ctl|]. repeat split.
      * apply K. eapply same_ctl_trans; [exact C0|]. eapply same_ctl_trans; [apply log_proc_ctl|]. repeat split.
    + eapply same_ctl_trans; [exact C0|]. eapply same_ctl_trans; [apply log_proc_ctl|]. repeat split.
    + match goal with |- context [nth_error ?l k] => destruct (nth_error l k) as [cp|] end;
        [match goal with |- context [p_done ?x] => destruct (p_done x) end|]; simpl.
      * apply K. eapply same_ctl_trans; [exact C0 | apply log_proc_ctl].
      * eapply same_ctl_trans; [exact C0|]. eapply same_ctl_trans; [apply log_proc_ctl | apply upd_proc_ctl].
      * apply K. eapply same_ctl_trans; [exact C0 | apply log_proc_ctl].
  - apply fiber_continue_ctl.
Qed.

Lemma log_wake_ctl : forall pid w g s, same_ctl s (log_wake pid w g s).
Proof.
  intros. unfold log_wake, log_watch. destruct w; try apply log_proc_ctl.
  eapply same_ctl_trans; apply log_proc_ctl.
Qed.

Lemma task_head_ctl : forall t s, same_ctl s (snd (task_head t s)).
Proof.
  intros t s. destruct t as [pid|pid w g|pid n]; simpl.
  - apply same_ctl_refl.
  - destruct (p_fiber (get_proc pid (log_wake pid w g s))); simpl;
      [eapply same_ctl_trans; [apply log_wake_ctl | apply enqueue_ctl] | apply log_wake_ctl].
  - destruct n; simpl; [apply same_ctl_refl|].
    destruct (p_script (get_proc pid s)); simpl; [apply same_ctl_refl | apply enqueue_ctl].
Qed.

Lemma halted_set_oof : forall s, halted (set_oof s) = true.
Proof. intro s. unfold halted. simpl. apply orb_true_r. Qed.

(* ------------------------------------------------------------------------- *)
(** * One process step, case by case *)

(* state after a step that did not suspend: the coroutine goes on, or (fiber) the next step is handed to the
   ready queue *)
Definition cont_states (pid : nat) (s1 : state) (s' : state) : Prop :=
  s' = s1 \/ s' = enqueue (THop pid 0) s1.

Inductive frame_step (cfg : config) : frame -> state -> state -> Prop :=
| FS_start : forall pid s, frame_step cfg (FStart pid) s (log_proc pid AStart s)
| FS_after : forall pid s s', cont_states pid s s' -> frame_step cfg (FAfter pid) s s'
| FS_finish : forall pid s, frame_step cfg (FRun pid) s (finish_proc pid s)
| FS_read : forall pid s x rest s',
    cont_states pid (let s0 := upd_proc pid (with_script rest) s in log_proc pid (ARead x (circ_read x (s_circ s0))) s0) s' ->
    frame_step cfg (FRun pid) s s'
| FS_write_err : forall pid s p v rest,
    s_readonly s = true ->
    frame_step cfg (FRun pid) s
      (set_err (add_log LErr (log_proc pid (AWrite p v) (upd_proc pid (with_script rest) s))))
| FS_write : forall pid s p v rest s',
    s_readonly s = false ->
    cont_states pid (let s1 := log_proc pid (AWrite p v) (upd_proc pid (with_script rest) s) in
                     set_circ (circ_write p v (s_circ s1)) s1) s' ->
    frame_step cfg (FRun pid) s s'
| FS_fork : forall pid s sid rest,
    frame_step cfg (FRun pid) s
      (let s0 := upd_proc pid (with_script rest) s in
       let cpid := length (s_procs s0) in
       let s1 := log_proc pid (AFork sid cpid) s0 in
       set_forked (s_forked s1 ++ [cpid]) (set_procs (s_procs s1 ++ [mk_proc (nth sid (c_subs cfg) []) false false []]) s1))
| FS_join_nowait : forall pid s k rest a s',
    (a = AJoinSkip k \/ a = AJoinDone k) ->
    cont_states pid (log_proc pid a (upd_proc pid (with_script rest) s)) s' ->
    frame_step cfg (FRun pid) s s'
| FS_join_wait : forall pid s k cp rest,
    frame_step cfg (FRun pid) s
      (let s0 := upd_proc pid (with_script rest) s in
       upd_proc cp (add_joiner (pid, k, s_now s0)) (log_proc pid (AJoinWait k) s0))
| FS_wclk : forall pid s c ph rest,
    frame_step cfg (FRun pid) s
      (let s0 := upd_proc pid (with_script rest) s in
       suspend_waitclk cfg pid c ph (log_proc pid (ASusp (WkClk c ph) (s_nextid s0)) s0))
| FS_wfor : forall pid s q rest,
    frame_step cfg (FRun pid) s
      (let s0 := upd_proc pid (with_script rest) s in
       suspend_waitfor pid q (log_proc pid (ASusp (WkFor q) (s_nextid s0)) s0))
| FS_wchange : forall pid s m rest,
    frame_step cfg (FRun pid) s
      (let s0 := upd_proc pid (with_script rest) s in
       suspend_waitchange pid m (log_watch pid m (log_proc pid (ASusp (WkChange m) (s_nextid s0)) s0)))
| FS_wstable : forall pid s rest,
    frame_step cfg (FRun pid) s
      (let s0 := upd_proc pid (with_script rest) s in
       suspend_waitstable pid (log_proc pid (ASusp WkStable 0) s0)).

Lemma fiber_continue_cont : forall pid s, cont_states pid s (snd (fiber_continue pid s)).
Proof.
  intros pid s. unfold fiber_continue, cont_states. destruct (p_script (get_proc pid s)); simpl; auto.
Qed.

Lemma step_frame_spec : forall cfg f s fs s', step_frame cfg f s = (fs, s') -> frame_step cfg f s s'.
Proof.
  intros cfg f s fs s' E.
  assert (E' : s' = snd (step_frame cfg f s)) by (rewrite E; reflexivity). clear E. subst s'.
  destruct f as [pid|pid|pid]; simpl.
  - constructor.
  - destruct (p_script (get_proc pid s)) as [|st rest] eqn:Es; simpl; [constructor|].
    assert (K : forall s1, cont_states pid s1
              (snd (if p_fiber (get_proc pid s) then fiber_continue pid s1 else ([FRun pid], s1)))).
    { intro s1. destruct (p_fiber (get_proc pid s)); simpl; [apply fiber_continue_cont | left; reflexivity]. }
    destruct st; simpl.
    + apply FS_wclk.
    + apply FS_wfor.
    + apply FS_wchange.
    + apply FS_wstable.
    + eapply FS_read. apply K.
    + destruct (s_readonly (log_proc pid (AWrite p v) (upd_proc pid (with_script rest) s))) eqn:Ro; simpl.
      * apply FS_write_err. pose proof (log_proc_ctl pid (AWrite p v) (upd_proc pid (with_script rest) s)) as (_ & _ & _ & H).
        rewrite H in Ro. exact Ro.
      * eapply FS_write; [|apply K].
        pose proof (log_proc_ctl pid (AWrite p v) (upd_proc pid (with_script rest) s)) as (_ & _ & _ & H).
        rewrite H in Ro. exact Ro.
    + apply FS_fork.
    + match goal with |- context [nth_error ?l k] => destruct (nth_error l k) as [cp|] end;
        [match goal with |- context [p_done ?x] => destruct (p_done x) end|]; simpl.
      * eapply FS_join_nowait; [right; reflexivity | apply K].
      * apply FS_join_wait.
      * eapply FS_join_nowait; [left; reflexivity | apply K].
  - apply FS_after. apply fiber_continue_cont.
Qed.

(* ------------------------------------------------------------------------- *)
(** * Log bookkeeping *)

Lemma add_log_log : forall e s, s_log (add_log e s) = if s_err s then s_log s else e :: s_log s.
Proof. intros e s. unfold add_log. destruct (s_err s); reflexivity. Qed.
Lemma add_log_err : forall e s, s_err (add_log e s) = s_err s.
Proof. intros e s. unfold add_log. destruct (s_err s) eqn:E; simpl; auto. Qed.
Lemma add_log_oof : forall e s, s_oof (add_log e s) = s_oof s.
Proof. intros e s. unfold add_log. destruct (s_err s); reflexivity. Qed.
Lemma add_log_halted : forall e s, halted (add_log e s) = halted s.
Proof. intros. unfold halted. rewrite add_log_err, add_log_oof. reflexivity. Qed.

Lemma halted_false_err : forall s, halted s = false -> s_err s = false.
Proof. unfold halted. intros s H. apply orb_false_elim in H. tauto. Qed.

(* the fields [s_log], [s_err], [s_oof] under the building blocks *)
Definition same_lg (s s' : state) : Prop := s_log s' = s_log s /\ s_err s' = s_err s /\ s_oof s' = s_oof s.
Lemma same_lg_refl : forall s, same_lg s s. Proof. repeat split. Qed.
Lemma same_lg_trans : forall a b c, same_lg a b -> same_lg b c -> same_lg a c.
Proof. unfold same_lg. intros a b c (A1 & A2 & A3) (B1 & B2 & B3). repeat split; congruence. Qed.

Lemma suspend_waitfor_lg : forall pid q s, same_lg s (suspend_waitfor pid q s).
Proof. intros. unfold suspend_waitfor, fresh_id. repeat split. Qed.
Lemma suspend_waitclk_lg : forall cfg pid c ph s, same_lg s (suspend_waitclk cfg pid c ph s).
Proof. intros. unfold suspend_waitclk, fresh_id. destruct (eff_clk cfg c); repeat split. Qed.
Lemma suspend_waitchange_lg : forall pid m s, same_lg s (suspend_waitchange pid m s).
Proof. intros. unfold suspend_waitchange, fresh_id. repeat split. Qed.
Lemma fold_enqueue_lg : forall (js : list (nat * nat * Q)) s,
  same_lg s (fold_left (fun st j => match j with (jp, k, t0) => enqueue (TWake jp (WkJoin k) (ghost0 t0)) st end) js s).
Proof.
  induction js as [|[[jp k] t0] r IH]; intro s; simpl; [apply same_lg_refl|].
  eapply same_lg_trans; [|apply IH]. repeat split.
Qed.
Lemma cont_states_lg : forall pid s1 s', cont_states pid s1 s' -> same_lg s1 s'.
Proof. intros pid s1 s' [->| ->]; repeat split. Qed.
Lemma cont_states_ctl : forall pid s1 s', cont_states pid s1 s' -> same_ctl s1 s'.
Proof. intros pid s1 s' [->| ->]; repeat split. Qed.

Lemma log_proc_log : forall pid a s, s_err s = false ->
  s_log (log_proc pid a s) = LProc (s_now s) (s_phase s) (s_mt s) (s_readonly s) pid a :: s_log s.
Proof. intros. unfold log_proc. rewrite add_log_log, H. reflexivity. Qed.
Lemma log_proc_err : forall pid a s, s_err (log_proc pid a s) = s_err s.
Proof. intros. apply add_log_err. Qed.
Lemma log_proc_oof : forall pid a s, s_oof (log_proc pid a s) = s_oof s.
Proof. intros. apply add_log_oof. Qed.

(* the entries a process step appends: stamped with the current instant; a write only outside read-only mode *)
Definition proc_entry (s : state) (e : entry) : Prop :=
  exists pid a, e = LProc (s_now s) (s_phase s) (s_mt s) (s_readonly s) pid a
                /\ (s_readonly s = true -> forall p v, a <> AWrite p v).

Lemma frame_step_log : forall cfg f s s',
  frame_step cfg f s s' -> halted s = false ->
  halted s' = true \/
  (halted s' = false /\ exists new, s_log s' = new ++ s_log s /\ Forall (proc_entry s) new).
Proof.
  intros cfg f s s' F H. pose proof (halted_false_err s H) as He.
  assert (Ho : s_oof s = false) by (unfold halted in H; apply orb_false_elim in H; tauto).
  assert (P1 : forall pid a, (s_readonly s = true -> forall p v, a <> AWrite p v) ->
               proc_entry s (LProc (s_now s) (s_phase s) (s_mt s) (s_readonly s) pid a)).
  { intros pid a Ha. exists pid, a. split; [reflexivity | exact Ha]. }
  assert (NH : forall x, s_err x = false -> s_oof x = false -> halted x = false).
  { intros x A B. unfold halted. rewrite A, B. reflexivity. }
  inversion F; subst; clear F.
  - right. split; [apply NH; [rewrite log_proc_err | rewrite log_proc_oof]; assumption|].
    exists [LProc (s_now s) (s_phase s) (s_mt s) (s_readonly s) pid AStart]. split; [apply log_proc_log; exact He|].
    constructor; [apply P1; intros; discriminate | constructor].
  - right. destruct (cont_states_lg _ _ _ H0) as (L & E & O). split; [apply NH; congruence|].
    exists []. split; [exact L | constructor].
  - right. unfold finish_proc.
    match goal with |- context [fold_left ?f ?js ?x] => destruct (fold_enqueue_lg js x) as (L & E & O) end.
    simpl in L, E, O. split; [apply NH; [rewrite E, log_proc_err | rewrite O, log_proc_oof]; assumption|].
    exists [LProc (s_now s) (s_phase s) (s_mt s) (s_readonly s) pid AEnd]. split.
    + rewrite L. apply (log_proc_log pid AEnd s He).
    + constructor; [apply P1; intros; discriminate | constructor].
  - right. destruct (cont_states_lg _ _ _ H0) as (L & E & O). simpl in L, E, O.
    split; [apply NH; [rewrite E, log_proc_err | rewrite O, log_proc_oof]; assumption|].
    eexists [_]. split; [rewrite L; apply log_proc_log; exact He|].
    constructor; [apply P1; intros; discriminate | constructor].
  - left. unfold halted. simpl. reflexivity.
  - right. destruct (cont_states_lg _ _ _ H1) as (L & E & O). simpl in L, E, O.
    split; [apply NH; [rewrite E, log_proc_err | rewrite O, log_proc_oof]; assumption|].
    eexists [_]. split; [rewrite L; apply log_proc_log; exact He|].
    constructor; [apply P1; intros Ro; congruence | constructor].
  - right. simpl. split; [apply NH; [rewrite log_proc_err | rewrite log_proc_oof]; assumption|].
    eexists [_]. split; [apply (log_proc_log pid _ (upd_proc pid (with_script rest) s)); exact He|].
    constructor; [apply P1; intros; discriminate | constructor].
  - right. destruct (cont_states_lg _ _ _ H1) as (L & E & O). simpl in L, E, O.
    split; [apply NH; [rewrite E, log_proc_err | rewrite O, log_proc_oof]; assumption|].
    eexists [_]. split; [rewrite L; apply log_proc_log; exact He|].
    constructor; [apply P1; intros; destruct H0; subst; discriminate | constructor].
  - right. simpl. split; [apply NH; [rewrite log_proc_err | rewrite log_proc_oof]; assumption|].
    eexists [_]. split; [apply (log_proc_log pid _ (upd_proc pid (with_script rest) s)); exact He|].
    constructor; [apply P1; intros; discriminate | constructor].
  - right. simpl.
    match goal with |- context [suspend_waitclk ?c ?p ?k ?h ?x] => destruct (suspend_waitclk_lg c p k h x) as (L & E & O) end.
    split; [apply NH; [rewrite E, log_proc_err | rewrite O, log_proc_oof]; assumption|].
    eexists [_]. split; [rewrite L; apply (log_proc_log pid _ (upd_proc pid (with_script rest) s)); exact He|].
    constructor; [apply P1; intros; discriminate | constructor].
  - right. simpl.
    match goal with |- context [suspend_waitfor ?p ?q ?x] => destruct (suspend_waitfor_lg p q x) as (L & E & O) end.
    split; [apply NH; [rewrite E, log_proc_err | rewrite O, log_proc_oof]; assumption|].
    eexists [_]. split; [rewrite L; apply (log_proc_log pid _ (upd_proc pid (with_script rest) s)); exact He|].
    constructor; [apply P1; intros; discriminate | constructor].
  - right. simpl.
    match goal with |- context [suspend_waitchange ?p ?q ?x] => destruct (suspend_waitchange_lg p q x) as (L & E & O) end.
    unfold log_watch in *.
    split; [apply NH; [rewrite E, !log_proc_err | rewrite O, !log_proc_oof]; assumption|].
    eexists [_; _]. split.
    + rewrite L. rewrite log_proc_log by (rewrite log_proc_err; exact He).
      rewrite (log_proc_log pid _ (upd_proc pid (with_script rest) s)) by exact He.
      destruct (log_proc_ctl pid (ASusp (WkChange m) (s_nextid (upd_proc pid (with_script rest) s))) (upd_proc pid (with_script rest) s)) as (C1 & C2 & C3 & C4).
      rewrite C1, C2, C3, C4. reflexivity.
    + constructor; [apply P1; intros; discriminate|]. constructor; [apply P1; intros; discriminate | constructor].
  - right. simpl. split; [apply NH; [rewrite log_proc_err | rewrite log_proc_oof]; assumption|].
    eexists [_]. split; [apply (log_proc_log pid _ (upd_proc pid (with_script rest) s)); exact He|].
    constructor; [apply P1; intros; discriminate | constructor].
Qed.

(* ------------------------------------------------------------------------- *)
(** * The interpreter performs only such steps *)

Section Refine.
Variable cfg : config.
Variable c0 : conf.
Notation reach := (treach cfg c0).

(* control is back in the simulator proper, or everything has stopped *)
Definition settled (c : conf) : Prop := halted (fst c) = true \/ snd c = [].

Lemma run_stack_reach : forall fuel stk s,
  reach (s, stk) ->
  exists stk', reach (run_stack cfg fuel stk s, stk') /\ settled (run_stack cfg fuel stk s, stk')
               /\ same_ctl s (run_stack cfg fuel stk s).
Proof.
  induction fuel as [|n IH]; intros stk s R.
  - destruct stk as [|f rest]; simpl.
    + exists []. split; [exact R|]. split; [right; reflexivity | apply same_ctl_refl].
    + destruct (halted s) eqn:H.
      * exists (f :: rest). split; [exact R|]. split; [left; exact H | apply same_ctl_refl].
      * exists (f :: rest). split; [eapply TR_step; [exact R | apply TS_oof]|].
        split; [left; apply halted_set_oof | repeat split].
  - destruct stk as [|f rest]; simpl.
    + exists []. split; [exact R|]. split; [right; reflexivity | apply same_ctl_refl].
    + destruct (halted s) eqn:H.
      * exists (f :: rest). split; [exact R|]. split; [left; exact H | apply same_ctl_refl].
      * destruct (step_frame cfg f s) as [fs s'] eqn:E.
        assert (R' : reach (s', fs ++ rest)) by (eapply TR_step; [exact R | apply TS_frame; assumption]).
        destruct (IH (fs ++ rest) s' R') as (stk' & R2 & S2 & C2).
        exists stk'. split; [exact R2|]. split; [exact S2|].
        eapply same_ctl_trans; [|exact C2]. pose proof (step_frame_ctl cfg f s) as C. rewrite E in C. exact C.
Qed.

Definition quiet (s : state) : Prop := halted s = true \/ s_ready s = [].

Lemma run_ready_reach : forall fuel s,
  reach (s, []) ->
  exists stk', reach (run_ready cfg fuel s, stk') /\ settled (run_ready cfg fuel s, stk')
               /\ quiet (run_ready cfg fuel s) /\ same_ctl s (run_ready cfg fuel s).
Proof.
  induction fuel as [|n IH]; intros s R; simpl.
  - destruct (s_ready s) as [|t r] eqn:E.
    + exists []. split; [exact R|]. split; [right; reflexivity|]. split; [right; exact E | apply same_ctl_refl].
    + destruct (halted s) eqn:H.
      * exists []. split; [exact R|]. split; [left; exact H|]. split; [left; exact H | apply same_ctl_refl].
      * exists []. split; [eapply TR_step; [exact R | apply TS_oof]|].
        split; [left; apply halted_set_oof|]. split; [left; apply halted_set_oof | repeat split].
  - destruct (s_ready s) as [|t r] eqn:E.
    + exists []. split; [exact R|]. split; [right; reflexivity|]. split; [right; exact E | apply same_ctl_refl].
    + destruct (halted s) eqn:H.
      * exists []. split; [exact R|]. split; [left; exact H|]. split; [left; exact H | apply same_ctl_refl].
      * unfold exec_task. destruct (task_head t (set_ready r s)) as [stk s1] eqn:T.
        assert (R1 : reach (s1, stk)) by (eapply TR_step; [exact R | eapply TS_task; eassumption]).
        destruct (run_stack_reach (S n) stk s1 R1) as (stk' & R2 & S2 & C2).
        assert (C1 : same_ctl s s1).
        { pose proof (task_head_ctl t (set_ready r s)) as C. rewrite T in C. simpl in C.
          eapply same_ctl_trans; [|exact C]. repeat split. }
        set (s2 := run_stack cfg (S n) stk s1) in *.
        destruct S2 as [Hh|Hs]; [simpl in Hh | simpl in Hs].
        -- (* halted: run_ready returns at once *)
           assert (Q : run_ready cfg n s2 = s2).
           { destruct n; simpl; destruct (s_ready s2); try reflexivity; rewrite Hh; reflexivity. }
           rewrite Q. exists stk'. split; [exact R2|]. split; [left; exact Hh|]. split; [left; exact Hh|].
           eapply same_ctl_trans; [exact C1 | exact C2].
        -- subst stk'. destruct (IH s2 R2) as (stk'' & R3 & S3 & Q3 & C3).
           exists stk''. split; [exact R3|]. split; [exact S3|]. split; [exact Q3|].
           eapply same_ctl_trans; [exact C1|]. eapply same_ctl_trans; [exact C2 | exact C3].
Qed.

End Refine.
