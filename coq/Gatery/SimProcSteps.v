(* C19 -- a small-step semantics for the scheduler model and the proof that the interpreter of
   SimProcDefs.v only ever performs such steps (every state the interpreter passes through, and in
   particular its result, is reachable).  Invariants are then proved once, per kind of step
   (SimProcInv*.v), instead of once per interpreter loop.

   A configuration is the simulator state together with the call stack of the coroutine that is currently
   executing (empty = control is in the simulator proper).  The guards of the steps are exactly the
   conditions the interpreter has tested at that point (loop conditions, `halted`, empty ready queue). *)
From Coq Require Import List NArith ZArith QArith Bool Lia.
From Gatery Require Import SimProcDefs.
Import ListNotations.
Local Close Scope Q_scope.

Definition conf := (state * list frame)%type.

(* no pin write has happened since the last reevaluate() *)
Fixpoint nwb (l : list entry) : bool :=
  match l with
  | [] => true
  | LReeval :: _ => true
  | LProc _ _ _ _ _ (AWrite _ _) :: _ => false
  | _ :: r => nwb r
  end.

Inductive tstep (cfg : config) : conf -> conf -> Prop :=
| TS_frame : forall s f rest fs s',
    halted s = false -> step_frame cfg f s = (fs, s') ->
    tstep cfg (s, f :: rest) (s', fs ++ rest)
| TS_task : forall s t r stk s',
    halted s = false -> s_ready s = t :: r -> task_head t (set_ready r s) = (stk, s') ->
    tstep cfg (s, []) (s', stk)
| TS_event : forall s e s1,
    halted s = false -> s_ready s = [] -> s_readonly s = false ->
    top_matches false true s = true -> pop_event s = Some (e, s1) ->
    tstep cfg (s, []) (event_head cfg e s1, [])
| TS_micro_end : forall s,
    halted s = false -> s_ready s = [] -> s_readonly s = false ->
    top_matches false true s = false ->
    tstep cfg (s, []) (micro_end s, [])
| TS_phase : forall s ph,
    halted s = false -> s_ready s = [] -> s_readonly s = false -> nwb (s_log s) = true ->
    match ph with
    | BEFORE => top_matches true false s = true
    | DURING => s_phase s = BEFORE /\ top_matches false false s = false
    | AFTER => s_phase s = DURING /\ top_matches false false s = false
    end ->
    tstep cfg (s, []) (phase_begin ph s, [])
| TS_commit_begin : forall s,
    halted s = false -> s_ready s = [] -> s_readonly s = false -> nwb (s_log s) = true ->
    s_phase s = AFTER -> top_matches true false s = false ->
    tstep cfg (s, []) (commit_begin s, [])
| TS_enq_stable : forall s pid t0,
    halted s = false -> s_ready s = [] -> s_readonly s = true ->
    tstep cfg (s, []) (enqueue (TWake pid WkStable (ghost0 t0)) s, [])
| TS_commit_end : forall s,
    halted s = false -> s_ready s = [] -> s_readonly s = true ->
    tstep cfg (s, []) (commit_end s, [])
| TS_set_time : forall s e q,
    halted s = false -> s_ready s = [] -> s_readonly s = false -> nwb (s_log s) = true ->
    s_phase s = AFTER -> s_queue s = e :: q ->
    tstep cfg (s, []) (set_mt 0 (set_time (e_time e) s), [])
| TS_set_target : forall s t,
    halted s = false -> s_ready s = [] -> s_readonly s = false -> nwb (s_log s) = true ->
    s_phase s = AFTER -> clock_less (s_now s) t = true ->
    match s_queue s with [] => True | e :: _ => clock_more (e_time e) t = true end ->
    tstep cfg (s, []) (set_time t s, [])
| TS_oof : forall s stk,
    tstep cfg (s, stk) (set_oof s, stk)
(* powerOn: starting the processes, the reevaluate() that follows *)
| TS_enq_start : forall s pid,
    halted s = false -> s_ready s = [] -> s_readonly s = false -> s_phase s = AFTER ->
    tstep cfg (s, []) (enqueue (TStart pid) s, [])
| TS_fiber_start : forall s pid fs s',
    halted s = false -> s_ready s = [] -> s_readonly s = false -> s_phase s = AFTER ->
    fiber_start pid s = (fs, s') ->
    tstep cfg (s, []) (s', fs)
| TS_reeval : forall s,
    halted s = false -> s_ready s = [] -> s_readonly s = false -> s_phase s = AFTER ->
    tstep cfg (s, []) (reevaluate s, []).

Inductive treach (cfg : config) (c0 : conf) : conf -> Prop :=
| TR_init : treach cfg c0 c0
| TR_step : forall c c', treach cfg c0 c -> tstep cfg c c' -> treach cfg c0 c'.

(* inversion of one step with stable names *)
Ltac inv_tstep T :=
  inversion T as
    [ s f rest fs s' Hh Hsf
    | s t r stk s' Hh Hrd Hth
    | s e s1 Hh Hrd Hro Htm Hpop
    | s Hh Hrd Hro Htm
    | s ph Hh Hrd Hro Hnw Hg
    | s Hh Hrd Hro Hnw Hph Htm
    | s pid t0 Hh Hrd Hro
    | s Hh Hrd Hro
    | s e q Hh Hrd Hro Hnw Hph Hq
    | s t Hh Hrd Hro Hnw Hph Hcl Hq
    | s stk
    | s pid Hh Hrd Hro Hph
    | s pid fs s' Hh Hrd Hro Hph Hfs
    | s Hh Hrd Hro Hph ]; subst.

(* ------------------------------------------------------------------------- *)
(** * Frame facts: what the building blocks leave alone *)

Definition same_ctl (s s' : state) : Prop :=
  s_now s' = s_now s /\ s_phase s' = s_phase s /\ s_mt s' = s_mt s /\ s_readonly s' = s_readonly s.

Lemma same_ctl_refl : forall s, same_ctl s s.
Proof. intro s. repeat split. Qed.
Lemma same_ctl_trans : forall a b c, same_ctl a b -> same_ctl b c -> same_ctl a c.
Proof. unfold same_ctl. intros a b c (A1 & A2 & A3 & A4) (B1 & B2 & B3 & B4). repeat split; congruence. Qed.

Lemma add_log_ctl : forall e s, same_ctl s (add_log e s).
Proof. intros e s. unfold add_log. destruct (s_err s); repeat split. Qed.
Lemma log_proc_ctl : forall pid a s, same_ctl s (log_proc pid a s).
Proof. intros. apply add_log_ctl. Qed.
Lemma enqueue_ctl : forall t s, same_ctl s (enqueue t s).
Proof. repeat split. Qed.
Lemma push_event_ctl : forall e s, same_ctl s (push_event e s).
Proof. repeat split. Qed.
Lemma upd_proc_ctl : forall pid f s, same_ctl s (upd_proc pid f s).
Proof. repeat split. Qed.

Lemma fold_enqueue_ctl : forall (js : list (nat * nat * Q)) s,
  same_ctl s (fold_left (fun st j => match j with (jp, k, t0) => enqueue (TWake jp (WkJoin k) (ghost0 t0)) st end) js s).
Proof.
  induction js as [|[[jp k] t0] r IH]; intro s; simpl; [apply same_ctl_refl|].
  eapply same_ctl_trans; [|apply IH]. apply enqueue_ctl.
Qed.

Lemma finish_proc_ctl : forall pid s, same_ctl s (finish_proc pid s).
Proof.
  intros pid s. unfold finish_proc.
  eapply same_ctl_trans; [apply (log_proc_ctl pid AEnd s)|].
  eapply same_ctl_trans; [apply (upd_proc_ctl pid with_done)|]. apply fold_enqueue_ctl.
Qed.

Lemma fiber_continue_ctl : forall pid s, same_ctl s (snd (fiber_continue pid s)).
Proof.
  intros pid s. unfold fiber_continue. destruct (p_script (get_proc pid s)); simpl; [apply same_ctl_refl | apply enqueue_ctl].
Qed.

Lemma suspend_waitfor_ctl : forall pid q s, same_ctl s (suspend_waitfor pid q s).
Proof. intros. unfold suspend_waitfor, fresh_id. repeat split. Qed.
Lemma suspend_waitclk_ctl : forall cfg pid c ph s, same_ctl s (suspend_waitclk cfg pid c ph s).
Proof. intros. unfold suspend_waitclk, fresh_id. destruct (eff_clk cfg c); repeat split. Qed.
Lemma suspend_waitchange_ctl : forall pid m s, same_ctl s (suspend_waitchange pid m s).
Proof. intros. unfold suspend_waitchange, fresh_id. repeat split. Qed.
Lemma suspend_waitx_ctl : forall cfg pid i ph s, same_ctl s (suspend_waitx cfg pid i ph s).
Proof. intros. unfold suspend_waitx, fresh_id. repeat split. Qed.
Lemma suspend_waitstable_ctl : forall pid s, same_ctl s (suspend_waitstable pid s).
Proof. repeat split. Qed.

Lemma step_frame_ctl : forall cfg f s, same_ctl s (snd (step_frame cfg f s)).
Proof.
  intros cfg f s. destruct f as [pid|pid|pid]; simpl.
  - apply log_proc_ctl.
  - destruct (p_script (get_proc pid s)) as [|st rest] eqn:E; simpl; [apply finish_proc_ctl|].
    set (s0 := upd_proc pid (with_script rest) s).
    assert (C0 : same_ctl s s0) by apply upd_proc_ctl.
    assert (K : forall s', same_ctl s s' ->
                 same_ctl s (snd (if p_fiber (get_proc pid s) then fiber_continue pid s' else ([FRun pid], s')))).
    { intros s' H. destruct (p_fiber (get_proc pid s)); simpl; [|exact H].
      eapply same_ctl_trans; [exact H | apply fiber_continue_ctl]. }
    destruct st; simpl.
    + eapply same_ctl_trans; [exact C0|]. eapply same_ctl_trans; [apply log_proc_ctl | apply suspend_waitclk_ctl].
    + eapply same_ctl_trans; [exact C0|]. eapply same_ctl_trans; [apply log_proc_ctl | apply suspend_waitfor_ctl].
    + eapply same_ctl_trans; [exact C0|]. eapply same_ctl_trans; [apply log_proc_ctl|].
      eapply same_ctl_trans; [apply log_proc_ctl | apply suspend_waitchange_ctl].
    + eapply same_ctl_trans; [exact C0|]. eapply same_ctl_trans; [apply log_proc_ctl | apply suspend_waitstable_ctl].
    + apply K. eapply same_ctl_trans; [exact C0 | apply log_proc_ctl].
    + destruct (s_readonly (log_proc pid (AWrite p v) s0)); simpl.
      * eapply same_ctl_trans; [exact C0|]. eapply same_ctl_trans; [apply log_proc_ctl|].
        eapply same_ctl_trans; [apply add_log_ctl|]. repeat split.
      * apply K. eapply same_ctl_trans; [exact C0|]. eapply same_ctl_trans; [apply log_proc_ctl|]. repeat split.
    + eapply same_ctl_trans; [exact C0|]. eapply same_ctl_trans; [apply log_proc_ctl|]. repeat split.
    + match goal with |- context [nth_error ?l k] => destruct (nth_error l k) as [cp|] end;
        [match goal with |- context [p_done ?x] => destruct (p_done x) end|]; simpl.
      * apply K. eapply same_ctl_trans; [exact C0 | apply log_proc_ctl].
      * eapply same_ctl_trans; [exact C0|]. eapply same_ctl_trans; [apply log_proc_ctl | apply upd_proc_ctl].
      * apply K. eapply same_ctl_trans; [exact C0 | apply log_proc_ctl].
    + eapply same_ctl_trans; [exact C0|]. eapply same_ctl_trans; [apply log_proc_ctl | apply suspend_waitx_ctl].
  - apply fiber_continue_ctl.
Qed.

Lemma log_wake_ctl : forall pid w g s, same_ctl s (log_wake pid w g s).
Proof.
  intros. unfold log_wake, log_watch. destruct w; try apply log_proc_ctl.
  eapply same_ctl_trans; apply log_proc_ctl.
Qed.

Lemma task_head_ctl : forall t s, same_ctl s (snd (task_head t s)).
Proof.
  intros t s. destruct t as [pid|pid w g|pid n]; simpl.
  - apply same_ctl_refl.
  - destruct (p_fiber (get_proc pid (log_wake pid w g s))); simpl;
      [eapply same_ctl_trans; [apply log_wake_ctl | apply enqueue_ctl] | apply log_wake_ctl].
  - destruct n; simpl; [apply same_ctl_refl|].
    destruct (p_script (get_proc pid s)); simpl; [apply same_ctl_refl | apply enqueue_ctl].
Qed.

Lemma halted_set_oof : forall s, halted (set_oof s) = true.
Proof. intro s. unfold halted. simpl. apply orb_true_r. Qed.

(* ------------------------------------------------------------------------- *)
(** * One process step, case by case *)

(* state after a step that did not suspend: the coroutine goes on, or (fiber) the next step is handed to the
   ready queue *)
Definition cont_states (pid : nat) (s1 : state) (s' : state) : Prop :=
  s' = s1 \/ s' = enqueue (THop pid 0) s1.

Inductive frame_step (cfg : config) : frame -> state -> state -> Prop :=
| FS_start : forall pid s, frame_step cfg (FStart pid) s (log_proc pid AStart s)
| FS_after : forall pid s s', cont_states pid s s' -> frame_step cfg (FAfter pid) s s'
| FS_finish : forall pid s, frame_step cfg (FRun pid) s (finish_proc pid s)
| FS_read : forall pid s x rest s',
    cont_states pid (let s0 := upd_proc pid (with_script rest) s in log_proc pid (ARead x (circ_read x (s_circ s0))) s0) s' ->
    frame_step cfg (FRun pid) s s'
| FS_write_err : forall pid s p v rest,
    s_readonly s = true ->
    frame_step cfg (FRun pid) s
      (set_err (add_log LErr (log_proc pid (AWrite p v) (upd_proc pid (with_script rest) s))))
| FS_write : forall pid s p v rest s',
    s_readonly s = false ->
    cont_states pid (let s1 := log_proc pid (AWrite p v) (upd_proc pid (with_script rest) s) in
                     set_circ (circ_write p v (s_circ s1)) s1) s' ->
    frame_step cfg (FRun pid) s s'
| FS_fork : forall pid s sid rest,
    frame_step cfg (FRun pid) s
      (let s0 := upd_proc pid (with_script rest) s in
       let cpid := length (s_procs s0) in
       let s1 := log_proc pid (AFork sid cpid) s0 in
       set_forked (s_forked s1 ++ [cpid]) (set_procs (s_procs s1 ++ [mk_proc (nth sid (c_subs cfg) []) false false []]) s1))
| FS_join_nowait : forall pid s k rest a s',
    (a = AJoinSkip k \/ a = AJoinDone k) ->
    cont_states pid (log_proc pid a (upd_proc pid (with_script rest) s)) s' ->
    frame_step cfg (FRun pid) s s'
| FS_join_wait : forall pid s k cp rest,
    frame_step cfg (FRun pid) s
      (let s0 := upd_proc pid (with_script rest) s in
       upd_proc cp (add_joiner (pid, k, s_now s0)) (log_proc pid (AJoinWait k) s0))
| FS_wclk : forall pid s c ph rest,
    frame_step cfg (FRun pid) s
      (let s0 := upd_proc pid (with_script rest) s in
       suspend_waitclk cfg pid c ph (log_proc pid (ASusp (WkClk c ph) (s_nextid s0)) s0))
| FS_wfor : forall pid s q rest,
    frame_step cfg (FRun pid) s
      (let s0 := upd_proc pid (with_script rest) s in
       suspend_waitfor pid q (log_proc pid (ASusp (WkFor q) (s_nextid s0)) s0))
| FS_wchange : forall pid s m rest,
    frame_step cfg (FRun pid) s
      (let s0 := upd_proc pid (with_script rest) s in
       suspend_waitchange pid m (log_watch pid m (log_proc pid (ASusp (WkChange m) (s_nextid s0)) s0)))
| FS_wstable : forall pid s rest,
    frame_step cfg (FRun pid) s
      (let s0 := upd_proc pid (with_script rest) s in
       suspend_waitstable pid (log_proc pid (ASusp WkStable 0) s0))
| FS_wx : forall pid s i ph rest,
    frame_step cfg (FRun pid) s
      (let s0 := upd_proc pid (with_script rest) s in
       suspend_waitx cfg pid i ph (log_proc pid (ASusp (WkX i ph) (s_nextid s0)) s0)).

Lemma fiber_continue_cont : forall pid s, cont_states pid s (snd (fiber_continue pid s)).
Proof.
  intros pid s. unfold fiber_continue, cont_states. destruct (p_script (get_proc pid s)); simpl; auto.
Qed.

Lemma step_frame_spec : forall cfg f s fs s', step_frame cfg f s = (fs, s') -> frame_step cfg f s s'.
Proof.
  intros cfg f s fs s' E.
  assert (E' : s' = snd (step_frame cfg f s)) by (rewrite E; reflexivity). clear E. subst s'.
  destruct f as [pid|pid|pid]; simpl.
  - constructor.
  - destruct (p_script (get_proc pid s)) as [|st rest] eqn:Es; simpl; [constructor|].
    assert (K : forall s1, cont_states pid s1
              (snd (if p_fiber (get_proc pid s) then fiber_continue pid s1 else ([FRun pid], s1)))).
    { intro s1. destruct (p_fiber (get_proc pid s)); simpl; [apply fiber_continue_cont | left; reflexivity]. }
    destruct st; simpl.
    + apply FS_wclk.
    + apply FS_wfor.
    + apply FS_wchange.
    + apply FS_wstable.
    + eapply FS_read. apply K.
    + destruct (s_readonly (log_proc pid (AWrite p v) (upd_proc pid (with_script rest) s))) eqn:Ro; simpl.
      * apply FS_write_err. pose proof (log_proc_ctl pid (AWrite p v) (upd_proc pid (with_script rest) s)) as (_ & _ & _ & H).
        rewrite H in Ro. exact Ro.
      * eapply FS_write; [|apply K].
        pose proof (log_proc_ctl pid (AWrite p v) (upd_proc pid (with_script rest) s)) as (_ & _ & _ & H).
        rewrite H in Ro. exact Ro.
    + apply FS_fork.
    + match goal with |- context [nth_error ?l k] => destruct (nth_error l k) as [cp|] end;
        [match goal with |- context [p_done ?x] => destruct (p_done x) end|]; simpl.
      * eapply FS_join_nowait; [right; reflexivity | apply K].
      * apply FS_join_wait.
      * eapply FS_join_nowait; [left; reflexivity | apply K].
    + apply FS_wx.
  - apply FS_after. apply fiber_continue_cont.
Qed.

(* ------------------------------------------------------------------------- *)
(** * Log bookkeeping *)

Lemma add_log_log : forall e s, s_log (add_log e s) = if s_err s then s_log s else e :: s_log s.
Proof. intros e s. unfold add_log. destruct (s_err s); reflexivity. Qed.
Lemma add_log_err : forall e s, s_err (add_log e s) = s_err s.
Proof. intros e s. unfold add_log. destruct (s_err s) eqn:E; simpl; auto. Qed.
Lemma add_log_oof : forall e s, s_oof (add_log e s) = s_oof s.
Proof. intros e s. unfold add_log. destruct (s_err s); reflexivity. Qed.
Lemma add_log_halted : forall e s, halted (add_log e s) = halted s.
Proof. intros. unfold halted. rewrite add_log_err, add_log_oof. reflexivity. Qed.

Lemma halted_false_err : forall s, halted s = false -> s_err s = false.
Proof. unfold halted. intros s H. apply orb_false_elim in H. tauto. Qed.

(* the fields [s_log], [s_err], [s_oof] under the building blocks *)
Definition same_lg (s s' : state) : Prop := s_log s' = s_log s /\ s_err s' = s_err s /\ s_oof s' = s_oof s.
Lemma same_lg_refl : forall s, same_lg s s. Proof. repeat split. Qed.
Lemma same_lg_trans : forall a b c, same_lg a b -> same_lg b c -> same_lg a c.
Proof. unfold same_lg. intros a b c (A1 & A2 & A3) (B1 & B2 & B3). repeat split; congruence. Qed.

Lemma suspend_waitx_lg : forall cfg pid i ph s, same_lg s (suspend_waitx cfg pid i ph s).
Proof. intros. unfold suspend_waitx, fresh_id. repeat split. Qed.
Lemma suspend_waitfor_lg : forall pid q s, same_lg s (suspend_waitfor pid q s).
Proof. intros. unfold suspend_waitfor, fresh_id. repeat split. Qed.
Lemma suspend_waitclk_lg : forall cfg pid c ph s, same_lg s (suspend_waitclk cfg pid c ph s).
Proof. intros. unfold suspend_waitclk, fresh_id. destruct (eff_clk cfg c); repeat split. Qed.
Lemma suspend_waitchange_lg : forall pid m s, same_lg s (suspend_waitchange pid m s).
Proof. intros. unfold suspend_waitchange, fresh_id. repeat split. Qed.
Lemma fold_enqueue_lg : forall (js : list (nat * nat * Q)) s,
  same_lg s (fold_left (fun st j => match j with (jp, k, t0) => enqueue (TWake jp (WkJoin k) (ghost0 t0)) st end) js s).
Proof.
  induction js as [|[[jp k] t0] r IH]; intro s; simpl; [apply same_lg_refl|].
  eapply same_lg_trans; [|apply IH]. repeat split.
Qed.
Lemma cont_states_lg : forall pid s1 s', cont_states pid s1 s' -> same_lg s1 s'.
Proof. intros pid s1 s' [->| ->]; repeat split. Qed.
Lemma cont_states_ctl : forall pid s1 s', cont_states pid s1 s' -> same_ctl s1 s'.
Proof. intros pid s1 s' [->| ->]; repeat split. Qed.

Lemma log_proc_log : forall pid a s, s_err s = false ->
  s_log (log_proc pid a s) = LProc (s_now s) (s_phase s) (s_mt s) (s_readonly s) pid a :: s_log s.
Proof. intros. unfold log_proc. rewrite add_log_log, H. reflexivity. Qed.
Lemma log_proc_err : forall pid a s, s_err (log_proc pid a s) = s_err s.
Proof. intros. apply add_log_err. Qed.
Lemma log_proc_oof : forall pid a s, s_oof (log_proc pid a s) = s_oof s.
Proof. intros. apply add_log_oof. Qed.

(* the entries a process step appends: stamped with the current instant; a write only outside read-only mode *)
Definition proc_entry (s : state) (e : entry) : Prop :=
  exists pid a, e = LProc (s_now s) (s_phase s) (s_mt s) (s_readonly s) pid a
                /\ (s_readonly s = true -> forall p v, a <> AWrite p v).

Lemma one_entry_case : forall s s0 s' pid a,
  same_lg s s0 -> same_ctl s s0 -> same_lg (log_proc pid a s0) s' -> halted s = false ->
  (s_readonly s = true -> forall p v, a <> AWrite p v) ->
  halted s' = false /\ exists new, s_log s' = new ++ s_log s /\ Forall (proc_entry s) new.
Proof.
  intros s s0 s' pid a (L0 & E0 & O0) (C1 & C2 & C3 & C4) (L1 & E1 & O1) H Ha.
  pose proof (halted_false_err s H) as He.
  assert (Ho : s_oof s = false) by (unfold halted in H; apply orb_false_elim in H; tauto).
  split.
  - unfold halted. rewrite E1, O1, log_proc_err, log_proc_oof, E0, O0, He, Ho. reflexivity.
  - exists [LProc (s_now s) (s_phase s) (s_mt s) (s_readonly s) pid a]. split.
    + rewrite L1, log_proc_log by congruence. rewrite C1, C2, C3, C4, L0. reflexivity.
    + constructor; [|constructor]. exists pid, a. split; [reflexivity | exact Ha].
Qed.

Lemma frame_step_log : forall cfg f s s',
  frame_step cfg f s s' -> halted s = false ->
  halted s' = true \/
  (halted s' = false /\ exists new, s_log s' = new ++ s_log s /\ Forall (proc_entry s) new).
Proof.
  intros cfg f s s' F H.
  inversion F; subst; clear F.
  - right. eapply one_entry_case with (s0 := s); try apply same_lg_refl; try apply same_ctl_refl; try exact H.
    intros; discriminate.
  - right. destruct (cont_states_lg _ _ _ H0) as (L & E & O). split; [unfold halted in *; congruence|].
    exists []. split; [exact L | constructor].
  - right. unfold finish_proc.
    eapply one_entry_case with (s0 := s) (a := AEnd); try apply same_lg_refl; try apply same_ctl_refl; try exact H.
    + match goal with |- context [fold_left ?f ?js ?x] => pose proof (fold_enqueue_lg js x) as Q end.
      eapply same_lg_trans; [|exact Q]. repeat split.
    + intros; discriminate.
  - right. eapply one_entry_case with (s0 := upd_proc pid (with_script rest) s);
      [repeat split | repeat split | apply (cont_states_lg _ _ _ H0) | exact H | intros; discriminate].
  - left. unfold halted. simpl. reflexivity.
  - right. eapply one_entry_case with (s0 := upd_proc pid (with_script rest) s) (a := AWrite p v);
      [repeat split | repeat split | | exact H | intros; congruence].
    eapply same_lg_trans; [|apply (cont_states_lg _ _ _ H1)]. repeat split.
  - right. eapply one_entry_case with (s0 := upd_proc pid (with_script rest) s)
             (a := AFork sid (length (s_procs (upd_proc pid (with_script rest) s))));
      [repeat split | repeat split | | exact H | intros; discriminate]. repeat split.
  - right. eapply one_entry_case with (s0 := upd_proc pid (with_script rest) s);
      [repeat split | repeat split | apply (cont_states_lg _ _ _ H1) | exact H
       | intros Ro p' v' Eq; match goal with Hd : _ \/ _ |- _ => destruct Hd; subst; discriminate end].
  - right. eapply one_entry_case with (s0 := upd_proc pid (with_script rest) s) (a := AJoinWait k);
      [repeat split | repeat split | | exact H | intros; discriminate]. repeat split.
  - right. eapply one_entry_case with (s0 := upd_proc pid (with_script rest) s);
      [repeat split | repeat split | apply suspend_waitclk_lg | exact H | intros; discriminate].
  - right. eapply one_entry_case with (s0 := upd_proc pid (with_script rest) s);
      [repeat split | repeat split | apply suspend_waitfor_lg | exact H | intros; discriminate].
  - right. (* two entries: ASusp, AWatch *)
    cbv zeta.
    set (s0 := upd_proc pid (with_script rest) s).
    destruct (one_entry_case s s0 (log_proc pid (ASusp (WkChange m) (s_nextid s0)) s0) pid (ASusp (WkChange m) (s_nextid s0)))
      as (H1 & n1 & L1 & F1); [repeat split | repeat split | apply same_lg_refl | exact H | intros; discriminate |].
    set (s1 := log_proc pid (ASusp (WkChange m) (s_nextid s0)) s0) in *.
    destruct (one_entry_case s1 s1 (suspend_waitchange pid m (log_watch pid m s1)) pid (AWatch (read_mask m s1)))
      as (H2 & n2 & L2 & F2); [apply same_lg_refl | apply same_ctl_refl | apply suspend_waitchange_lg | exact H1 | intros; discriminate |].
    split; [exact H2|]. exists (n2 ++ n1). split; [rewrite L2, L1, app_assoc; reflexivity|].
    apply Forall_app. split; [|exact F1].
    assert (C : same_ctl s s1) by (eapply same_ctl_trans; [|apply log_proc_ctl]; repeat split).
    destruct C as (C1 & C2 & C3 & C4).
    eapply Forall_impl; [|exact F2]. intros e (pid' & a' & -> & Ha). exists pid', a'. rewrite C1, C2, C3, C4. split; [reflexivity|].
    intro Ro. apply Ha. congruence.
  - right. eapply one_entry_case with (s0 := upd_proc pid (with_script rest) s) (a := ASusp WkStable 0);
      [repeat split | repeat split | | exact H | intros; discriminate]. repeat split.
  - right. eapply one_entry_case with (s0 := upd_proc pid (with_script rest) s);
      [repeat split | repeat split | apply suspend_waitx_lg | exact H | intros; discriminate].
Qed.

Lemma proc_entry_ctl : forall s s1 e, same_ctl s s1 -> proc_entry s1 e -> proc_entry s e.
Proof.
  intros s s1 e (C1 & C2 & C3 & C4) (pid & a & -> & Ha). exists pid, a. rewrite C1, C2, C3, C4.
  split; [reflexivity|]. intro Ro. apply Ha. congruence.
Qed.

Lemma log_wake_log : forall pid w g s, halted s = false ->
  halted (log_wake pid w g s) = false /\
  exists new, s_log (log_wake pid w g s) = new ++ s_log s /\ Forall (proc_entry s) new.
Proof.
  intros pid w g s H. unfold log_wake.
  destruct (one_entry_case s s (log_proc pid (AWake w g) s) pid (AWake w g))
    as (H1 & n1 & L1 & F1); [apply same_lg_refl | apply same_ctl_refl | apply same_lg_refl | exact H | intros; discriminate |].
  destruct w; try (split; [exact H1 | exists n1; split; assumption]).
  set (s1 := log_proc pid (AWake (WkChange mask) g) s) in *.
  destruct (one_entry_case s1 s1 (log_watch pid mask s1) pid (AWatch (read_mask mask s1)))
    as (H2 & n2 & L2 & F2); [apply same_lg_refl | apply same_ctl_refl | apply same_lg_refl | exact H1 | intros; discriminate |].
  split; [exact H2|]. exists (n2 ++ n1). split; [rewrite L2, L1, app_assoc; reflexivity|].
  apply Forall_app. split; [|exact F1].
  eapply Forall_impl; [|exact F2]. intros e. apply proc_entry_ctl. apply log_proc_ctl.
Qed.

Lemma task_head_log : forall t s stk s', task_head t s = (stk, s') -> halted s = false ->
  halted s' = false /\ exists new, s_log s' = new ++ s_log s /\ Forall (proc_entry s) new.
Proof.
  intros t s stk s' E H.
  assert (E' : s' = snd (task_head t s)) by (rewrite E; reflexivity). clear E. subst s'.
  destruct t as [pid|pid w g|pid n]; simpl.
  - split; [exact H|]. exists []. split; [reflexivity | constructor].
  - destruct (log_wake_log pid w g s H) as (H1 & n1 & L1 & F1).
    destruct (p_fiber (get_proc pid (log_wake pid w g s))); simpl.
    + split; [exact H1|]. exists n1. split; assumption.
    + split; [exact H1|]. exists n1. split; assumption.
  - destruct n; simpl; [split; [exact H|]; exists []; split; [reflexivity | constructor]|].
    destruct (p_script (get_proc pid s)); simpl; (split; [exact H|]; exists []; split; [reflexivity | constructor]).
Qed.

(* appending entries that contain no write keeps "no write since the last reevaluate" *)
Lemma nwb_app_nowrite : forall new l,
  Forall (fun e => forall t ph mt ro pid p v, e <> LProc t ph mt ro pid (AWrite p v)) new ->
  nwb l = true -> nwb (new ++ l) = true.
Proof.
  induction new as [|e r IH]; intros l F H; simpl; [exact H|].
  inversion F as [|? ? He Fr]; subst.
  destruct e; try (apply IH; assumption); try reflexivity.
  destruct a; try (apply IH; assumption).
  exfalso. eapply He. reflexivity.
Qed.

Lemma proc_entries_ro_nowrite : forall s new, s_readonly s = true -> Forall (proc_entry s) new ->
  Forall (fun e => forall t ph mt ro pid p v, e <> LProc t ph mt ro pid (AWrite p v)) new.
Proof.
  intros s new Ro F. eapply Forall_impl; [|exact F].
  intros e (pid & a & -> & Ha) t ph mt ro pid' p v Eq. inversion Eq; subst. eapply Ha; [exact Ro | reflexivity].
Qed.

(* ------------------------------------------------------------------------- *)
(** * Simulator-level building blocks: what they leave alone *)

(* fields other than the queue / bookkeeping lists *)
Definition same_top (s s' : state) : Prop :=
  same_ctl s s' /\ s_err s' = s_err s /\ s_oof s' = s_oof s /\ s_ready s' = s_ready s.
Lemma same_top_refl : forall s, same_top s s.
Proof. intro s. split; [apply same_ctl_refl | repeat split]. Qed.
Lemma same_top_trans : forall a b c, same_top a b -> same_top b c -> same_top a c.
Proof.
  intros a b c (A1 & A2 & A3 & A4) (B1 & B2 & B3 & B4).
  split; [eapply same_ctl_trans; eassumption | repeat split; congruence].
Qed.
Lemma same_top_halted : forall s s', same_top s s' -> halted s' = halted s.
Proof. intros s s' (_ & E & O & _). unfold halted. congruence. Qed.

Lemma add_log_top : forall e s, same_top s (add_log e s).
Proof.
  intros e s. split; [apply add_log_ctl|]. rewrite add_log_err, add_log_oof. repeat split.
  unfold add_log. destruct (s_err s); reflexivity.
Qed.
Lemma push_event_top : forall e s, same_top s (push_event e s).
Proof. intros. split; [apply push_event_ctl | repeat split]. Qed.

Lemma fold_push_top : forall {A} (f : A -> event) (l : list A) s,
  same_top s (fold_left (fun st a => push_event (f a) st) l s).
Proof.
  induction l as [|a r IH]; intro s; simpl; [apply same_top_refl|].
  eapply same_top_trans; [apply push_event_top | apply IH].
Qed.

Lemma handle_trigger_top : forall cfg e s, same_top s (handle_trigger cfg e s).
Proof.
  intros cfg e s. unfold handle_trigger.
  eapply same_top_trans; [|apply push_event_top]. eapply same_top_trans; [|apply push_event_top].
  set (s0 := add_log (LTrigger (e_time e) (e_pin e) (e_rising e)) s).
  assert (T0 : same_top s s0) by apply add_log_top.
  destruct (e_rising e); [|exact T0].
  eapply same_top_trans; [exact T0|].
  eapply same_top_trans; [apply (fold_push_top (awaiter_event e) (get_await (e_pin e) s0) s0)|].
  destruct (e_pin e); split; repeat split.
Qed.

Lemma handle_value_change_top : forall cfg e s, same_top s (handle_value_change cfg e s).
Proof.
  intros cfg e s. unfold handle_value_change.
  destruct (e_rising e); (eapply same_top_trans; [|apply add_log_top]); [split; repeat split | apply same_top_refl].
Qed.

Lemma pop_event_top : forall s e s1, pop_event s = Some (e, s1) -> same_top s s1 /\ s_log s1 = s_log s.
Proof.
  intros s e s1 P. unfold pop_event in P.
  assert (A : forall q, same_top s (set_queue q s) /\ s_log (set_queue q s) = s_log s)
    by (intro; split; [split; repeat split | reflexivity]).
  assert (B : forall q a b, same_top s (set_tb a b (set_queue q s)) /\ s_log (set_tb a b (set_queue q s)) = s_log s)
    by (intros; split; [split; repeat split | reflexivity]).
  destruct (s_queue s) as [|e1 [|e2 r]]; [discriminate | inversion P; subst; apply A |].
  destruct (e_type e1), (e_type e2); try (inversion P; subst; apply A).
  destruct (equivalent e1 e2 && (tie_observable s e1 || tie_observable s e2)).
  - destruct (s_tb s) as [|[|] tb]; inversion P; subst; apply B.
  - inversion P; subst; apply A.
Qed.

Lemma pop_event_nonempty : forall s, s_queue s <> [] -> pop_event s <> None.
Proof.
  intros s H. unfold pop_event. destruct (s_queue s) as [|e1 [|e2 r]]; [contradiction | discriminate |].
  destruct (e_type e1), (e_type e2); try discriminate.
  destruct (equivalent e1 e2 && (tie_observable s e1 || tie_observable s e2)); [|discriminate].
  destruct (s_tb s) as [|[|] tb]; discriminate.
Qed.

Lemma top_matches_nonempty : forall a b s, top_matches a b s = true -> s_queue s <> [].
Proof. intros a b s H E. unfold top_matches in H. rewrite E in H. discriminate. Qed.

Lemma event_head_ctl : forall cfg e s, same_ctl s (event_head cfg e s).
Proof.
  intros cfg e s. unfold event_head. destruct (e_type e).
  - apply handle_trigger_top.
  - apply enqueue_ctl.
  - apply handle_value_change_top.
  - apply same_ctl_refl.
Qed.
Lemma event_head_halted : forall cfg e s, halted (event_head cfg e s) = halted s.
Proof.
  intros cfg e s. unfold event_head. destruct (e_type e).
  - apply same_top_halted. apply handle_trigger_top.
  - reflexivity.
  - apply same_top_halted. apply handle_value_change_top.
  - reflexivity.
Qed.
Lemma event_head_ready : forall cfg e s, e_type e <> SimProcResume -> s_ready (event_head cfg e s) = s_ready s.
Proof.
  intros cfg e s H. unfold event_head. destruct (e_type e); try congruence.
  - apply handle_trigger_top.
  - apply handle_value_change_top.
Qed.

Lemma check_watches_top : forall s, same_top s (check_watches s).
Proof.
  intro s. unfold check_watches.
  set (fired := filter (watch_changed (s_circ s)) (s_watches s)).
  assert (G : forall l st, same_top st (fold_left (fun st w => push_event (watch_event s w)
                (add_log (LFire (w_pid w) (w_refs w) (map (fun x => circ_read x (s_circ s)) (w_mask w))) st)) l st)).
  { induction l as [|w r IH]; intro st; simpl; [apply same_top_refl|].
    eapply same_top_trans; [|apply IH]. eapply same_top_trans; [apply add_log_top | apply push_event_top]. }
  eapply same_top_trans; [apply (G fired s)|]. split; repeat split.
Qed.

Lemma reevaluate_top : forall s, same_top s (reevaluate s).
Proof. intro s. unfold reevaluate. eapply same_top_trans; [|apply add_log_top]. split; repeat split. Qed.

Lemma micro_end_fields : forall s,
  s_now (micro_end s) = s_now s /\ s_phase (micro_end s) = s_phase s /\ s_readonly (micro_end s) = s_readonly s
  /\ s_ready (micro_end s) = s_ready s /\ halted (micro_end s) = halted s /\ s_mt (micro_end s) = N.succ (s_mt s).
Proof.
  intro s. unfold micro_end.
  set (s2 := reevaluate s). set (s3 := check_watches s2).
  set (s4 := add_log (LMicro (s_now s3) (s_phase s3) (s_mt s3)) s3).
  assert (T : same_top s s4).
  { eapply same_top_trans; [apply reevaluate_top|]. eapply same_top_trans; [apply check_watches_top | apply add_log_top]. }
  destruct T as ((C1 & C2 & C3 & C4) & E & O & R). simpl.
  repeat split; try assumption; try congruence. unfold halted. simpl. congruence.
Qed.

(* after the end of a micro tick no write is pending *)
Lemma nwb_skip : forall e l, (forall t ph mt ro pid a, e <> LProc t ph mt ro pid a) -> e <> LReeval -> nwb (e :: l) = nwb l.
Proof.
  intros e l H1 H2. destruct e; try reflexivity; [exfalso; eapply H1; reflexivity | congruence].
Qed.

Lemma check_watches_log : forall s, s_err s = false ->
  exists fires, s_log (check_watches s) = fires ++ s_log s /\ Forall (fun e => exists p r c, e = LFire p r c) fires.
Proof.
  intros s He. unfold check_watches.
  set (fired := filter (watch_changed (s_circ s)) (s_watches s)).
  assert (G : forall l st, s_err st = false ->
    exists fires, s_log (fold_left (fun st w => push_event (watch_event s w)
                (add_log (LFire (w_pid w) (w_refs w) (map (fun x => circ_read x (s_circ s)) (w_mask w))) st)) l st) = fires ++ s_log st
                  /\ Forall (fun e => exists p r c, e = LFire p r c) fires).
  { induction l as [|w r IH]; intros st Hs; simpl; [exists []; split; [reflexivity | constructor]|].
    set (st1 := push_event (watch_event s w) (add_log (LFire (w_pid w) (w_refs w) (map (fun x => circ_read x (s_circ s)) (w_mask w))) st)).
    assert (E1 : s_err st1 = false) by (unfold st1; simpl; rewrite add_log_err; exact Hs).
    destruct (IH st1 E1) as (fs & L & F).
    exists (fs ++ [LFire (w_pid w) (w_refs w) (map (fun x => circ_read x (s_circ s)) (w_mask w))]). split.
    - rewrite L. unfold st1. simpl. rewrite add_log_log, Hs. rewrite <- app_assoc. reflexivity.
    - apply Forall_app. split; [exact F|]. constructor; [eexists _, _, _; reflexivity | constructor]. }
  destruct (G fired s He) as (fs & L & F). exists fs. split; [exact L | exact F].
Qed.

Lemma nwb_fires : forall fires l, Forall (fun e => exists p r c, e = LFire p r c) fires -> nwb (fires ++ l) = nwb l.
Proof.
  induction fires as [|e r IH]; intros l F; simpl; [reflexivity|].
  inversion F as [|? ? (p & rr & c & ->) Fr]; subst. simpl. apply IH. exact Fr.
Qed.

Lemma micro_end_nwb : forall s, s_err s = false -> nwb (s_log (micro_end s)) = true.
Proof.
  intros s He. unfold micro_end.
  set (s2 := reevaluate s). set (s3 := check_watches s2).
  assert (E2 : s_err s2 = false) by (unfold s2, reevaluate; rewrite add_log_err; exact He).
  assert (L2 : s_log s2 = LReeval :: s_log s) by (unfold s2, reevaluate; rewrite add_log_log; simpl; rewrite He; reflexivity).
  destruct (check_watches_log s2 E2) as (fs & L3 & F3). fold s3 in L3.
  assert (E3 : s_err s3 = false) by (destruct (check_watches_top s2) as (_ & E & _); fold s3 in E; congruence).
  simpl. rewrite add_log_log, E3, L3. simpl. rewrite nwb_fires by exact F3. rewrite L2. reflexivity.
Qed.

Lemma phase_begin_fields : forall ph s,
  s_now (phase_begin ph s) = s_now s /\ s_phase (phase_begin ph s) = ph /\ s_readonly (phase_begin ph s) = s_readonly s
  /\ s_ready (phase_begin ph s) = s_ready s /\ halted (phase_begin ph s) = halted s /\ s_mt (phase_begin ph s) = 0%N
  /\ s_queue (phase_begin ph s) = s_queue s /\ nwb (s_log (phase_begin ph s)) = nwb (s_log s).
Proof.
  intros ph s. unfold phase_begin.
  set (s1 := set_mt 0 (set_phase ph s)).
  destruct (add_log_top (LPhase (s_now s1) ph) s1) as ((C1 & C2 & C3 & C4) & E & O & R).
  repeat split; try (rewrite C1; reflexivity); try (rewrite C2; reflexivity); try (rewrite C3; reflexivity);
    try (rewrite C4; reflexivity); try (rewrite R; reflexivity).
  - unfold halted. rewrite E, O. reflexivity.
  - unfold add_log. destruct (s_err s1); reflexivity.
  - rewrite add_log_log. destruct (s_err s1); reflexivity.
Qed.

(* ------------------------------------------------------------------------- *)
(** * The interpreter performs only such steps *)

Section Refine.
Variable cfg : config.
Variable c0 : conf.
Notation reach := (treach cfg c0).

(* control is back in the simulator proper, or everything has stopped *)
Definition settled (c : conf) : Prop := halted (fst c) = true \/ snd c = [].

Lemma run_stack_reach : forall fuel stk s,
  reach (s, stk) ->
  exists stk', reach (run_stack cfg fuel stk s, stk') /\ settled (run_stack cfg fuel stk s, stk')
               /\ same_ctl s (run_stack cfg fuel stk s).
Proof.
  induction fuel as [|n IH]; intros stk s R.
  - destruct stk as [|f rest]; simpl.
    + exists []. split; [exact R|]. split; [right; reflexivity | apply same_ctl_refl].
    + destruct (halted s) eqn:H.
      * exists (f :: rest). split; [exact R|]. split; [left; exact H | apply same_ctl_refl].
      * exists (f :: rest). split; [eapply TR_step; [exact R | apply TS_oof]|].
        split; [left; apply halted_set_oof | repeat split].
  - destruct stk as [|f rest]; simpl.
    + exists []. split; [exact R|]. split; [right; reflexivity | apply same_ctl_refl].
    + destruct (halted s) eqn:H.
      * exists (f :: rest). split; [exact R|]. split; [left; exact H | apply same_ctl_refl].
      * destruct (step_frame cfg f s) as [fs s'] eqn:E.
        assert (R' : reach (s', fs ++ rest)) by (eapply TR_step; [exact R | apply TS_frame; assumption]).
        destruct (IH (fs ++ rest) s' R') as (stk' & R2 & S2 & C2).
        exists stk'. split; [exact R2|]. split; [exact S2|].
        eapply same_ctl_trans; [|exact C2]. pose proof (step_frame_ctl cfg f s) as C. rewrite E in C. exact C.
Qed.

Definition quiet (s : state) : Prop := halted s = true \/ s_ready s = [].

Lemma run_ready_reach : forall fuel s,
  reach (s, []) ->
  exists stk', reach (run_ready cfg fuel s, stk') /\ settled (run_ready cfg fuel s, stk')
               /\ quiet (run_ready cfg fuel s) /\ same_ctl s (run_ready cfg fuel s).
Proof.
  induction fuel as [|n IH]; intros s R; simpl.
  - destruct (s_ready s) as [|t r] eqn:E.
    + exists []. split; [exact R|]. split; [right; reflexivity|]. split; [right; exact E | apply same_ctl_refl].
    + destruct (halted s) eqn:H.
      * exists []. split; [exact R|]. split; [left; exact H|]. split; [left; exact H | apply same_ctl_refl].
      * exists []. split; [eapply TR_step; [exact R | apply TS_oof]|].
        split; [left; apply halted_set_oof|]. split; [left; apply halted_set_oof | repeat split].
  - destruct (s_ready s) as [|t r] eqn:E.
    + exists []. split; [exact R|]. split; [right; reflexivity|]. split; [right; exact E | apply same_ctl_refl].
    + destruct (halted s) eqn:H.
      * exists []. split; [exact R|]. split; [left; exact H|]. split; [left; exact H | apply same_ctl_refl].
      * unfold exec_task. destruct (task_head t (set_ready r s)) as [stk s1] eqn:T.
        assert (R1 : reach (s1, stk)) by (eapply TR_step; [exact R | eapply TS_task; eassumption]).
        destruct (run_stack_reach (S n) stk s1 R1) as (stk' & R2 & S2 & C2).
        assert (C1 : same_ctl s s1).
        { pose proof (task_head_ctl t (set_ready r s)) as C. rewrite T in C. simpl in C.
          eapply same_ctl_trans; [|exact C]. repeat split. }
        set (s2 := run_stack cfg (S n) stk s1) in *.
        destruct S2 as [Hh|Hs]; [simpl in Hh | simpl in Hs].
        -- (* halted: run_ready returns at once *)
           assert (Q : run_ready cfg n s2 = s2).
           { destruct n; simpl; destruct (s_ready s2); try reflexivity; rewrite Hh; reflexivity. }
           rewrite Q. exists stk'. split; [exact R2|]. split; [left; exact Hh|]. split; [left; exact Hh|].
           eapply same_ctl_trans; [exact C1 | exact C2].
        -- subst stk'. destruct (IH s2 R2) as (stk'' & R3 & S3 & Q3 & C3).
           exists stk''. split; [exact R3|]. split; [exact S3|]. split; [exact Q3|].
           eapply same_ctl_trans; [exact C1|]. eapply same_ctl_trans; [exact C2 | exact C3].
Qed.


(* ---- immediate return once halted ---- *)
Lemma run_ready_halted : forall fuel s, halted s = true -> run_ready cfg fuel s = s.
Proof. intros fuel s H. destruct fuel; simpl; destruct (s_ready s); try reflexivity; rewrite H; reflexivity. Qed.
Lemma advance_micro_tick_halted : forall fuel s, halted s = true -> advance_micro_tick cfg fuel s = s.
Proof. intros fuel s H. destruct fuel; simpl; rewrite H; reflexivity. Qed.
Lemma phase_loop_halted : forall fuel s, halted s = true -> phase_loop cfg fuel s = s.
Proof. intros fuel s H. destruct fuel; simpl; rewrite H; reflexivity. Qed.
Lemma time_step_loop_halted : forall fuel s, halted s = true -> time_step_loop cfg fuel s = s.
Proof. intros fuel s H. destruct fuel; simpl; rewrite H; reflexivity. Qed.
Lemma commit_resume_halted : forall fuel l s, halted s = true -> commit_resume cfg fuel l s = s.
Proof. intros fuel l s H. destruct l; simpl; [reflexivity | rewrite H; reflexivity]. Qed.
Lemma phase_pass_halted : forall fuel ph s, halted s = true -> phase_pass cfg fuel ph s = s.
Proof. intros fuel ph s H. unfold phase_pass. rewrite H. reflexivity. Qed.
Lemma advance_loop_halted : forall fuel t s, halted s = true -> advance_loop cfg fuel t s = s.
Proof. intros fuel t s H. destruct fuel; simpl; rewrite H; reflexivity. Qed.
Lemma start_all_halted : forall fuel fb l s, halted s = true -> start_all cfg fuel fb l s = s.
Proof. intros fuel fb l s H. destruct l; simpl; [reflexivity | rewrite H; reflexivity]. Qed.

Lemma phase_loop_S : forall n s, phase_loop cfg (S n) s =
  if halted s then s else
  if top_matches false false s then
    let s1 := advance_micro_tick cfg (S n) s in
    if halted s1 then s1 else phase_loop cfg n (micro_end s1)
  else s.
Proof. reflexivity. Qed.
Lemma time_step_loop_S : forall n s, time_step_loop cfg (S n) s =
  if halted s then s else
  if top_matches true false s then
    time_step_loop cfg n (phase_pass cfg (S n) AFTER (phase_pass cfg (S n) DURING (phase_pass cfg (S n) BEFORE s)))
  else s.
Proof. reflexivity. Qed.
Lemma advance_loop_S : forall n target s, advance_loop cfg (S n) target s =
  if halted s then s else
  if clock_less (s_now s) target then
    match s_queue s with
    | [] => set_time target s
    | e :: _ => if clock_more (e_time e) target then set_time target s
                else advance_loop cfg n target (advance_event cfg (S n) s)
    end
  else s.
Proof. reflexivity. Qed.

Hypothesis Hc0 : s_readonly (fst c0) = false.

(* while the state is being committed (read-only mode) no pin write is pending *)
Lemma reach_ro_nw : forall c, reach c -> s_readonly (fst c) = true ->
  halted (fst c) = true \/ nwb (s_log (fst c)) = true.
Proof.
  induction 1 as [|c c' R IH T]; intro Ro; [rewrite Hc0 in Ro; discriminate|].
  inv_tstep T; cbn [fst snd] in *.
  - (* frame *)
    pose proof (step_frame_ctl cfg f s) as C. rewrite Hsf in C. cbn [snd] in C. destruct C as (_ & _ & _ & C4).
    assert (Ro0 : s_readonly s = true) by congruence.
    destruct (IH Ro0) as [Hx|Hn]; [congruence|].
    destruct (frame_step_log cfg f s s' (step_frame_spec _ _ _ _ _ Hsf) Hh) as [Hx|(_ & new & L & F)]; [left; exact Hx|].
    right. rewrite L. apply nwb_app_nowrite; [eapply proc_entries_ro_nowrite; eassumption | exact Hn].
  - (* task *)
    pose proof (task_head_ctl t (set_ready r s)) as C. rewrite Hth in C. cbn [snd] in C. destruct C as (_ & _ & _ & C4).
    assert (Ro0 : s_readonly s = true) by (rewrite <- Ro, C4; reflexivity).
    destruct (IH Ro0) as [Hx|Hn]; [congruence|].
    destruct (task_head_log t (set_ready r s) stk s' Hth Hh) as (_ & new & L & F).
    right. rewrite L. apply nwb_app_nowrite; [|exact Hn].
    eapply (proc_entries_ro_nowrite (set_ready r s)); [exact Ro0 | exact F].
  - exfalso. destruct (pop_event_top _ _ _ Hpop) as (((_ & _ & _ & C4) & _) & _).
    destruct (event_head_ctl cfg e s1) as (_ & _ & _ & D4). congruence.
  - exfalso. destruct (micro_end_fields s) as (_ & _ & M & _). congruence.
  - exfalso. destruct (phase_begin_fields ph s) as (_ & _ & M & _). congruence.
  - right. exact Hnw.
  - destruct (IH Hro) as [Hx|Hn]; [congruence | right; exact Hn].
  - discriminate.
  - exfalso. cbn in Ro. congruence.
  - exfalso. cbn in Ro. congruence.
  - left. apply halted_set_oof.
  - exfalso. cbn in Ro. congruence.
  - exfalso. unfold fiber_start in Hfs.
    pose proof (fiber_continue_ctl pid (log_proc pid AStart s)) as C. rewrite Hfs in C. cbn [snd] in C.
    destruct C as (_ & _ & _ & C4). destruct (log_proc_ctl pid AStart s) as (_ & _ & _ & D4). congruence.
  - exfalso. destruct (reevaluate_top s) as ((_ & _ & _ & C4) & _). congruence.
Qed.

Definition calm (ro : bool) (s : state) : Prop := s_ready s = [] /\ s_readonly s = ro.

Lemma advance_micro_tick_reach : forall fuel s,
  reach (s, []) -> (halted s = true \/ calm false s) ->
  exists stk', reach (advance_micro_tick cfg fuel s, stk') /\ settled (advance_micro_tick cfg fuel s, stk')
    /\ (halted (advance_micro_tick cfg fuel s) = true
        \/ (calm false (advance_micro_tick cfg fuel s) /\ top_matches false true (advance_micro_tick cfg fuel s) = false))
    /\ same_ctl s (advance_micro_tick cfg fuel s).
Proof.
  induction fuel as [|n IH]; intros s R Pre; simpl.
  - destruct (halted s) eqn:H.
    + exists []. split; [exact R|]. split; [left; exact H|]. split; [left; exact H | apply same_ctl_refl].
    + destruct (top_matches false true s) eqn:Tm.
      * exists []. split; [eapply TR_step; [exact R | apply TS_oof]|]. split; [left; apply halted_set_oof|].
        split; [left; apply halted_set_oof | repeat split].
      * exists []. split; [exact R|]. split; [right; reflexivity|]. destruct Pre as [Hh|Hc]; [congruence|].
        split; [right; split; assumption | apply same_ctl_refl].
  - destruct (halted s) eqn:H.
    + exists []. split; [exact R|]. split; [left; exact H|]. split; [left; exact H | apply same_ctl_refl].
    + destruct Pre as [Hh|[Hr Hro]]; [congruence|].
      destruct (top_matches false true s) eqn:Tm.
      2:{ exists []. split; [exact R|]. split; [right; reflexivity|]. split; [right; split; [split|]; assumption | apply same_ctl_refl]. }
      destruct (pop_event s) as [[e s1]|] eqn:P.
      2:{ exfalso. eapply pop_event_nonempty; [eapply top_matches_nonempty; exact Tm | exact P]. }
      destruct (pop_event_top _ _ _ P) as ((Cp & Ep & Op & Rp) & Lp).
      assert (R1 : reach (event_head cfg e s1, [])) by (eapply TR_step; [exact R | apply TS_event; assumption]).
      assert (C1 : same_ctl s (event_head cfg e s1)) by (eapply same_ctl_trans; [exact Cp | apply event_head_ctl]).
      unfold handle_event.
      destruct (e_type e) eqn:Ty.
      * (* trigger *)
        assert (Pre1 : halted (event_head cfg e s1) = true \/ calm false (event_head cfg e s1)).
        { right. split; [rewrite event_head_ready by congruence; congruence | destruct C1 as (_ & _ & _ & C4); congruence]. }
        destruct (IH _ R1 Pre1) as (stk' & R2 & S2 & Q2 & C2). exists stk'.
        split; [exact R2|]. split; [exact S2|]. split; [exact Q2|]. eapply same_ctl_trans; eassumption.
      * (* resume *)
        destruct (run_ready_reach (S n) _ R1) as (stk1 & R2 & S2 & Q2 & C2).
        set (s2 := run_ready cfg (S n) (event_head cfg e s1)) in *.
        assert (C12 : same_ctl s s2) by (eapply same_ctl_trans; eassumption).
        destruct S2 as [Hh|Hs]; [simpl in Hh | simpl in Hs].
        -- rewrite advance_micro_tick_halted by exact Hh. exists stk1. split; [exact R2|].
           split; [left; exact Hh|]. split; [left; exact Hh | exact C12].
        -- subst stk1.
           assert (Pre2 : halted s2 = true \/ calm false s2).
           { destruct Q2 as [Hh|Hq]; [left; exact Hh | right; split; [exact Hq | destruct C12 as (_ & _ & _ & C4); congruence]]. }
           destruct (IH _ R2 Pre2) as (stk' & R3 & S3 & Q3 & C3). exists stk'.
           split; [exact R3|]. split; [exact S3|]. split; [exact Q3|]. eapply same_ctl_trans; eassumption.
      * (* value change *)
        assert (Pre1 : halted (event_head cfg e s1) = true \/ calm false (event_head cfg e s1)).
        { right. split; [rewrite event_head_ready by congruence; congruence | destruct C1 as (_ & _ & _ & C4); congruence]. }
        destruct (IH _ R1 Pre1) as (stk' & R2 & S2 & Q2 & C2). exists stk'.
        split; [exact R2|]. split; [exact S2|]. split; [exact Q2|]. eapply same_ctl_trans; eassumption.
      * assert (Pre1 : halted (event_head cfg e s1) = true \/ calm false (event_head cfg e s1)).
        { right. split; [rewrite event_head_ready by congruence; congruence | destruct C1 as (_ & _ & _ & C4); congruence]. }
        destruct (IH _ R1 Pre1) as (stk' & R2 & S2 & Q2 & C2). exists stk'.
        split; [exact R2|]. split; [exact S2|]. split; [exact Q2|]. eapply same_ctl_trans; eassumption.
Qed.

Lemma phase_loop_reach : forall fuel s,
  reach (s, []) -> (halted s = true \/ calm false s) ->
  exists stk', reach (phase_loop cfg fuel s, stk') /\ settled (phase_loop cfg fuel s, stk')
    /\ (halted (phase_loop cfg fuel s) = true
        \/ (calm false (phase_loop cfg fuel s) /\ top_matches false false (phase_loop cfg fuel s) = false
            /\ s_phase (phase_loop cfg fuel s) = s_phase s /\ s_now (phase_loop cfg fuel s) = s_now s
            /\ (nwb (s_log s) = true -> nwb (s_log (phase_loop cfg fuel s)) = true))).
Proof.
  induction fuel as [|n IH]; intros s R Pre; [simpl | rewrite phase_loop_S].
  - destruct (halted s) eqn:H.
    + exists []. split; [exact R|]. split; [left; exact H | left; exact H].
    + destruct (top_matches false false s) eqn:Tm.
      * exists []. split; [eapply TR_step; [exact R | apply TS_oof]|]. split; left; apply halted_set_oof.
      * exists []. split; [exact R|]. split; [right; reflexivity|]. destruct Pre as [Hh|Hc]; [congruence|].
        right. repeat split; try apply Hc; auto.
  - destruct (halted s) eqn:H.
    + exists []. split; [exact R|]. split; [left; exact H | left; exact H].
    + destruct (top_matches false false s) eqn:Tm.
      2:{ exists []. split; [exact R|]. split; [right; reflexivity|]. destruct Pre as [Hh|Hc]; [congruence|].
          right. repeat split; try apply Hc; auto. }
      assert (Pre' : halted s = true \/ calm false s) by (destruct Pre as [Hx|Hx]; [discriminate | right; exact Hx]).
      destruct (advance_micro_tick_reach (S n) s R Pre') as (stk1 & R1 & S1 & Q1 & C1).
      cbv zeta. set (s1 := advance_micro_tick cfg (S n) s) in *.
      destruct (halted s1) eqn:H1.
      * exists stk1. split; [exact R1|]. split; [left; exact H1 | left; exact H1].
      * destruct S1 as [Hh|Hs]; [simpl in Hh; congruence | simpl in Hs; subst stk1].
        destruct Q1 as [Hh|((Hr1 & Hro1) & Tm1)]; [congruence|].
        assert (R2 : reach (micro_end s1, [])) by (eapply TR_step; [exact R1 | apply TS_micro_end; assumption]).
        destruct (micro_end_fields s1) as (M1 & M2 & M3 & M4 & M5 & M6).
        assert (Pre2 : halted (micro_end s1) = true \/ calm false (micro_end s1)).
        { right. split; congruence. }
        destruct (IH _ R2 Pre2) as (stk' & R3 & S3 & Q3). exists stk'. split; [exact R3|]. split; [exact S3|].
        destruct Q3 as [Hh|(Hc & Tm3 & Ph3 & Nw3 & Nb3)]; [left; exact Hh|].
        right. destruct C1 as (C11 & C12 & _ & _). repeat split; try apply Hc; try assumption; try congruence.
        intros _. apply Nb3. apply micro_end_nwb. apply halted_false_err. exact H1.
Qed.

Definition phase_guard (ph : phase) (s : state) : Prop :=
  match ph with
  | BEFORE => top_matches true false s = true
  | DURING => s_phase s = BEFORE /\ top_matches false false s = false
  | AFTER => s_phase s = DURING /\ top_matches false false s = false
  end.

Lemma phase_pass_reach : forall fuel ph s,
  reach (s, []) -> (halted s = true \/ (calm false s /\ nwb (s_log s) = true /\ phase_guard ph s)) ->
  exists stk', reach (phase_pass cfg fuel ph s, stk') /\ settled (phase_pass cfg fuel ph s, stk')
    /\ (halted (phase_pass cfg fuel ph s) = true
        \/ (calm false (phase_pass cfg fuel ph s) /\ nwb (s_log (phase_pass cfg fuel ph s)) = true
            /\ s_phase (phase_pass cfg fuel ph s) = ph /\ top_matches false false (phase_pass cfg fuel ph s) = false
            /\ s_now (phase_pass cfg fuel ph s) = s_now s)).
Proof.
  intros fuel ph s R Pre. unfold phase_pass.
  destruct (halted s) eqn:H.
  - exists []. split; [exact R|]. split; [left; exact H | left; exact H].
  - destruct Pre as [Hh|((Hr & Hro) & Nw & G)]; [congruence|].
    assert (R1 : reach (phase_begin ph s, [])).
    { eapply TR_step; [exact R|]. apply TS_phase; assumption. }
    destruct (phase_begin_fields ph s) as (F1 & F2 & F3 & F4 & F5 & F6 & F7 & F8).
    assert (Pre1 : halted (phase_begin ph s) = true \/ calm false (phase_begin ph s)) by (right; split; congruence).
    destruct (phase_loop_reach fuel _ R1 Pre1) as (stk' & R2 & S2 & Q2).
    exists stk'. split; [exact R2|]. split; [exact S2|].
    destruct Q2 as [Hh|(Hc & Tm & Ph & Nw2 & Nb)]; [left; exact Hh|].
    right. repeat split; try apply Hc; try assumption; try congruence. apply Nb. congruence.
Qed.

Lemma time_step_loop_reach : forall fuel s,
  reach (s, []) -> (halted s = true \/ (calm false s /\ nwb (s_log s) = true /\ s_phase s = AFTER)) ->
  exists stk', reach (time_step_loop cfg fuel s, stk') /\ settled (time_step_loop cfg fuel s, stk')
    /\ (halted (time_step_loop cfg fuel s) = true
        \/ (calm false (time_step_loop cfg fuel s) /\ nwb (s_log (time_step_loop cfg fuel s)) = true
            /\ s_phase (time_step_loop cfg fuel s) = AFTER /\ top_matches true false (time_step_loop cfg fuel s) = false
            /\ s_now (time_step_loop cfg fuel s) = s_now s)).
Proof.
  induction fuel as [|n IH]; intros s R Pre; [simpl | rewrite time_step_loop_S].
  - destruct (halted s) eqn:H.
    + exists []. split; [exact R|]. split; [left; exact H | left; exact H].
    + destruct (top_matches true false s) eqn:Tm.
      * exists []. split; [eapply TR_step; [exact R | apply TS_oof]|]. split; left; apply halted_set_oof.
      * exists []. split; [exact R|]. split; [right; reflexivity|]. destruct Pre as [Hh|(Hc & Nw & Ph)]; [congruence|].
        right. repeat split; try apply Hc; auto.
  - destruct (halted s) eqn:H.
    + exists []. split; [exact R|]. split; [left; exact H | left; exact H].
    + destruct (top_matches true false s) eqn:Tm.
      2:{ exists []. split; [exact R|]. split; [right; reflexivity|]. destruct Pre as [Hh|(Hc & Nw & Ph)]; [congruence|].
          right. repeat split; try apply Hc; auto. }
      destruct Pre as [Hh|(Hc & Nw & Ph)]; [congruence|].
      (* BEFORE *)
      destruct (phase_pass_reach (S n) BEFORE s R) as (k1 & R1 & S1 & Q1); [right; repeat split; try apply Hc; assumption|].
      set (s1 := phase_pass cfg (S n) BEFORE s) in *.
      assert (Stop : forall x k, reach (x, k) -> halted x = true ->
                exists stk', reach (time_step_loop cfg n x, stk') /\ settled (time_step_loop cfg n x, stk')
                  /\ (halted (time_step_loop cfg n x) = true \/ False)).
      { intros x k Rx Hx. rewrite time_step_loop_halted by exact Hx. exists k. split; [exact Rx|]. split; left; exact Hx. }
      destruct Q1 as [H1|(Hc1 & Nw1 & Ph1 & Tm1 & Now1)].
      { rewrite (phase_pass_halted (S n) DURING s1 H1), (phase_pass_halted (S n) AFTER s1 H1).
        destruct (Stop s1 k1 R1 H1) as (k' & Rk & Sk & [Hk|[]]). exists k'. split; [exact Rk|]. split; [exact Sk | left; exact Hk]. }
      destruct S1 as [Hh|Hs]; [simpl in Hh | simpl in Hs; subst k1].
      { rewrite (phase_pass_halted (S n) DURING s1 Hh), (phase_pass_halted (S n) AFTER s1 Hh).
        destruct (Stop s1 k1 R1 Hh) as (k' & Rk & Sk & [Hk|[]]). exists k'. split; [exact Rk|]. split; [exact Sk | left; exact Hk]. }
      (* DURING *)
      destruct (phase_pass_reach (S n) DURING s1 R1) as (k2 & R2 & S2 & Q2);
        [right; repeat split; try apply Hc1; assumption|].
      set (s2 := phase_pass cfg (S n) DURING s1) in *.
      destruct Q2 as [H2|(Hc2 & Nw2 & Ph2 & Tm2 & Now2)].
      { rewrite (phase_pass_halted (S n) AFTER s2 H2).
        destruct (Stop s2 k2 R2 H2) as (k' & Rk & Sk & [Hk|[]]). exists k'. split; [exact Rk|]. split; [exact Sk | left; exact Hk]. }
      destruct S2 as [Hh|Hs]; [simpl in Hh | simpl in Hs; subst k2].
      { rewrite (phase_pass_halted (S n) AFTER s2 Hh).
        destruct (Stop s2 k2 R2 Hh) as (k' & Rk & Sk & [Hk|[]]). exists k'. split; [exact Rk|]. split; [exact Sk | left; exact Hk]. }
      (* AFTER *)
      destruct (phase_pass_reach (S n) AFTER s2 R2) as (k3 & R3 & S3 & Q3);
        [right; repeat split; try apply Hc2; assumption|].
      set (s3 := phase_pass cfg (S n) AFTER s2) in *.
      destruct Q3 as [H3|(Hc3 & Nw3 & Ph3 & Tm3 & Now3)].
      { destruct (Stop s3 k3 R3 H3) as (k' & Rk & Sk & [Hk|[]]). exists k'. split; [exact Rk|]. split; [exact Sk | left; exact Hk]. }
      destruct S3 as [Hh|Hs]; [simpl in Hh | simpl in Hs; subst k3].
      { destruct (Stop s3 k3 R3 Hh) as (k' & Rk & Sk & [Hk|[]]). exists k'. split; [exact Rk|]. split; [exact Sk | left; exact Hk]. }
      destruct (IH s3 R3) as (k' & Rk & Sk & Qk); [right; repeat split; try apply Hc3; assumption|].
      exists k'. split; [exact Rk|]. split; [exact Sk|].
      destruct Qk as [Hk|(Hck & Nwk & Phk & Tmk & Nowk)]; [left; exact Hk|].
      right. repeat split; try apply Hck; try assumption. congruence.
Qed.

Lemma nwb_commit_entry : forall t a b c d l, nwb (LCommit t a b c d :: l) = nwb l.
Proof. reflexivity. Qed.

Lemma commit_resume_reach : forall fuel waiting s,
  reach (s, []) -> (halted s = true \/ (calm true s /\ nwb (s_log s) = true)) ->
  exists stk', reach (commit_resume cfg fuel waiting s, stk') /\ settled (commit_resume cfg fuel waiting s, stk')
    /\ (halted (commit_resume cfg fuel waiting s) = true
        \/ (calm true (commit_resume cfg fuel waiting s) /\ nwb (s_log (commit_resume cfg fuel waiting s)) = true
            /\ same_ctl s (commit_resume cfg fuel waiting s))).
Proof.
  induction waiting as [|p r IH]; intros s R Pre; simpl.
  - exists []. split; [exact R|]. split; [right; reflexivity|].
    destruct Pre as [Hh|(Hc & Nw)]; [left; exact Hh | right; split; [exact Hc | split; [exact Nw | apply same_ctl_refl]]].
  - destruct (halted s) eqn:H.
    + exists []. split; [exact R|]. split; [left; exact H | left; exact H].
    + destruct Pre as [Hh|((Hr & Hro) & Nw)]; [congruence|].
      unfold resume_now.
      assert (R1 : reach (enqueue (TWake (fst p) WkStable (ghost0 (snd p))) s, []))
        by (eapply TR_step; [exact R | apply TS_enq_stable; assumption]).
      destruct (run_ready_reach fuel _ R1) as (k1 & R2 & S2 & Q2 & C2).
      set (s2 := run_ready cfg fuel (enqueue (TWake (fst p) WkStable (ghost0 (snd p))) s)) in *.
      assert (C02 : same_ctl s s2) by (eapply same_ctl_trans; [apply enqueue_ctl | exact C2]).
      destruct S2 as [Hh|Hs]; [simpl in Hh | simpl in Hs; subst k1].
      * rewrite commit_resume_halted by exact Hh. exists k1. split; [exact R2|]. split; left; exact Hh.
      * assert (Pre2 : halted s2 = true \/ (calm true s2 /\ nwb (s_log s2) = true)).
        { destruct Q2 as [Hh|Hq]; [left; exact Hh|].
          assert (Ro2 : s_readonly s2 = true) by (destruct C02 as (_ & _ & _ & C4); congruence).
          destruct (reach_ro_nw _ R2 Ro2) as [Hh|Hn]; [left; exact Hh | right; split; [split|]; assumption]. }
        destruct (IH s2 R2 Pre2) as (k' & Rk & Sk & Qk). exists k'. split; [exact Rk|]. split; [exact Sk|].
        destruct Qk as [Hk|(Hck & Nwk & Ck)]; [left; exact Hk|].
        right. split; [exact Hck|]. split; [exact Nwk|]. eapply same_ctl_trans; eassumption.
Qed.

Lemma commit_state_reach : forall fuel s,
  reach (s, []) -> halted s = false -> calm false s -> nwb (s_log s) = true -> s_phase s = AFTER ->
  top_matches true false s = false ->
  exists stk', reach (commit_state cfg fuel s, stk') /\ settled (commit_state cfg fuel s, stk')
    /\ (halted (commit_state cfg fuel s) = true
        \/ (calm false (commit_state cfg fuel s) /\ nwb (s_log (commit_state cfg fuel s)) = true
            /\ s_phase (commit_state cfg fuel s) = AFTER /\ s_now (commit_state cfg fuel s) = s_now s)).
Proof.
  intros fuel s R H (Hr & Hro) Nw Ph Tm. unfold commit_state.
  assert (R1 : reach (commit_begin s, [])) by (eapply TR_step; [exact R | apply TS_commit_begin; assumption]).
  destruct (commit_resume_reach fuel (s_commitq s) (commit_begin s) R1) as (k & R2 & S2 & Q2);
    [right; split; [split; [exact Hr | reflexivity] | exact Nw]|].
  set (s3 := commit_resume cfg fuel (s_commitq s) (commit_begin s)) in *.
  destruct (halted s3) eqn:H3.
  - exists k. split; [exact R2|]. split; left; exact H3.
  - destruct Q2 as [Hh|((Hr3 & Hro3) & Nw3 & (C1 & C2 & C3 & C4))]; [congruence|].
    destruct S2 as [Hh|Hs]; [simpl in Hh; congruence | simpl in Hs; subst k].
    exists []. split; [eapply TR_step; [exact R2 | apply TS_commit_end; assumption]|]. split; [right; reflexivity|].
    right. unfold commit_end.
    set (e := LCommit (s_now s3) (r_a (s_circ s3)) (r_a2 (s_circ s3)) (r_b (s_circ s3)) (c_out (s_circ s3))).
    destruct (add_log_top e s3) as ((D1 & D2 & D3 & D4) & DE & DO & DR).
    repeat split; simpl; try congruence.
    + rewrite add_log_log. rewrite (halted_false_err s3 H3). exact Nw3.
    + rewrite D2, C2. exact Ph.
    + rewrite D1, C1. reflexivity.
Qed.

Definition rest_ok (s : state) : Prop :=
  halted s = true \/ (calm false s /\ nwb (s_log s) = true /\ s_phase s = AFTER).

Lemma handle_time_step_reach : forall fuel s,
  reach (s, []) -> rest_ok s ->
  exists stk', reach (handle_time_step cfg fuel s, stk') /\ settled (handle_time_step cfg fuel s, stk')
    /\ rest_ok (handle_time_step cfg fuel s).
Proof.
  intros fuel s R Pre. unfold handle_time_step.
  destruct (time_step_loop_reach fuel s R Pre) as (k & R1 & S1 & Q1).
  set (s1 := time_step_loop cfg fuel s) in *.
  destruct (halted s1) eqn:H1.
  - exists k. split; [exact R1|]. split; left; exact H1.
  - destruct Q1 as [Hh|(Hc & Nw & Ph & Tm & _)]; [congruence|].
    destruct S1 as [Hh|Hs]; [simpl in Hh; congruence | simpl in Hs; subst k].
    destruct (commit_state_reach fuel s1 R1 H1 Hc Nw Ph Tm) as (k' & R2 & S2 & Q2).
    exists k'. split; [exact R2|]. split; [exact S2|].
    destruct Q2 as [Hh|(Hc2 & Nw2 & Ph2 & _)]; [left; exact Hh | right; repeat split; try apply Hc2; assumption].
Qed.

Lemma advance_event_reach : forall fuel s,
  reach (s, []) -> halted s = false -> rest_ok s ->
  exists stk', reach (advance_event cfg fuel s, stk') /\ settled (advance_event cfg fuel s, stk')
    /\ rest_ok (advance_event cfg fuel s).
Proof.
  intros fuel s R H Pre. unfold advance_event.
  destruct (s_queue s) as [|e q] eqn:Q.
  - exists []. split; [exact R|]. split; [right; reflexivity | exact Pre].
  - destruct Pre as [Hh|((Hr & Hro) & Nw & Ph)]; [congruence|].
    assert (R1 : reach (set_mt 0 (set_time (e_time e) s), []))
      by (eapply TR_step; [exact R | eapply TS_set_time; eassumption]).
    apply handle_time_step_reach; [exact R1|]. right. repeat split; assumption.
Qed.

Lemma advance_loop_reach : forall fuel target s,
  reach (s, []) -> rest_ok s ->
  exists stk', reach (advance_loop cfg fuel target s, stk').
Proof.
  induction fuel as [|n IH]; intros target s R Pre; [simpl | rewrite advance_loop_S].
  - destruct (halted s) eqn:H; [exists []; exact R|].
    destruct Pre as [Hh|((Hr & Hro) & Nw & Ph)]; [congruence|].
    destruct (clock_less (s_now s) target) eqn:Cl; [|exists []; exact R].
    destruct (s_queue s) as [|e q] eqn:Q.
    + exists []. eapply TR_step; [exact R|]. apply TS_set_target; try assumption. rewrite Q. exact I.
    + destruct (clock_more (e_time e) target) eqn:Cm.
      * exists []. eapply TR_step; [exact R|]. apply TS_set_target; try assumption. rewrite Q. exact Cm.
      * exists []. eapply TR_step; [exact R | apply TS_oof].
  - destruct (halted s) eqn:H; [exists []; exact R|].
    destruct (clock_less (s_now s) target) eqn:Cl; [|exists []; exact R].
    destruct (s_queue s) as [|e q] eqn:Q.
    + destruct Pre as [Hh|((Hr & Hro) & Nw & Ph)]; [congruence|].
      exists []. eapply TR_step; [exact R|]. apply TS_set_target; try assumption. rewrite Q. exact I.
    + destruct (clock_more (e_time e) target) eqn:Cm.
      * destruct Pre as [Hh|((Hr & Hro) & Nw & Ph)]; [congruence|].
        exists []. eapply TR_step; [exact R|]. apply TS_set_target; try assumption. rewrite Q. exact Cm.
      * destruct (advance_event_reach (S n) s R H Pre) as (k & R1 & S1 & Q1).
        destruct S1 as [Hh|Hs]; [simpl in Hh | simpl in Hs; subst k].
        -- rewrite advance_loop_halted by exact Hh. exists k. exact R1.
        -- apply IH; assumption.
Qed.

Definition boot_ok (s : state) : Prop := halted s = true \/ (calm false s /\ s_phase s = AFTER).

Lemma start_all_reach : forall fuel fb pids s,
  reach (s, []) -> boot_ok s ->
  exists stk', reach (start_all cfg fuel fb pids s, stk') /\ settled (start_all cfg fuel fb pids s, stk')
    /\ boot_ok (start_all cfg fuel fb pids s).
Proof.
  induction pids as [|pid r IH]; intros s R Pre; simpl.
  - exists []. split; [exact R|]. split; [right; reflexivity | exact Pre].
  - destruct (halted s) eqn:H.
    + exists []. split; [exact R|]. split; [left; exact H | left; exact H].
    + destruct Pre as [Hh|((Hr & Hro) & Ph)]; [congruence|].
      assert (Next : forall x k, reach (x, k) -> settled (x, k) -> (halted x = true \/ s_ready x = []) -> same_ctl s x ->
                exists stk', reach (start_all cfg fuel fb r x, stk') /\ settled (start_all cfg fuel fb r x, stk')
                  /\ boot_ok (start_all cfg fuel fb r x)).
      { intros x k Rx Sx Qx (C1 & C2 & C3 & C4).
        destruct Sx as [Hh|Hs]; [simpl in Hh | simpl in Hs; subst k].
        - rewrite start_all_halted by exact Hh. exists k. split; [exact Rx|]. split; left; exact Hh.
        - apply IH; [exact Rx|]. destruct Qx as [Hh|Hq]; [left; exact Hh | right; split; [split|]; congruence]. }
      destruct fb.
      * destruct (fiber_start pid s) as [fs s1] eqn:F.
        assert (R1 : reach (s1, fs)) by (eapply TR_step; [exact R | eapply TS_fiber_start; eassumption]).
        assert (C1 : same_ctl s s1).
        { unfold fiber_start in F. pose proof (fiber_continue_ctl pid (log_proc pid AStart s)) as C. rewrite F in C.
          eapply same_ctl_trans; [apply log_proc_ctl | exact C]. }
        destruct (run_stack_reach fuel fs s1 R1) as (k1 & R2 & S2 & C2).
        set (s2 := run_stack cfg fuel fs s1) in *.
        destruct S2 as [Hh|Hs]; [simpl in Hh | simpl in Hs; subst k1].
        -- rewrite run_ready_halted by exact Hh.
           apply (Next s2 k1 R2); [left; exact Hh | left; exact Hh | eapply same_ctl_trans; eassumption].
        -- destruct (run_ready_reach fuel s2 R2) as (k2 & R3 & S3 & Q3 & C3).
           apply (Next _ k2 R3 S3 Q3). eapply same_ctl_trans; [exact C1|]. eapply same_ctl_trans; eassumption.
      * unfold resume_now.
        assert (R1 : reach (enqueue (TStart pid) s, [])) by (eapply TR_step; [exact R | apply TS_enq_start; assumption]).
        destruct (run_ready_reach fuel _ R1) as (k2 & R3 & S3 & Q3 & C3).
        apply (Next _ k2 R3 S3 Q3). eapply same_ctl_trans; [apply enqueue_ctl | exact C3].
Qed.

End Refine.

(* ------------------------------------------------------------------------- *)
(** * Every state the interpreter returns is reachable from the boot state *)

Lemma boot_fields : forall cfg procs fiber tb,
  halted (boot cfg procs fiber tb) = false /\ s_ready (boot cfg procs fiber tb) = []
  /\ s_readonly (boot cfg procs fiber tb) = false /\ s_phase (boot cfg procs fiber tb) = AFTER.
Proof.
  intros. unfold boot. destruct (c_two cfg); repeat split.
Qed.

Theorem run_reachable : forall cfg procs fiber until tb fuel,
  exists stk, treach cfg (boot cfg procs fiber tb, []) (run cfg procs fiber until tb fuel, stk).
Proof.
  intros cfg procs fiber until tb fuel.
  set (c0 := (boot cfg procs fiber tb, @nil frame)).
  destruct (boot_fields cfg procs fiber tb) as (B1 & B2 & B3 & B4).
  assert (Hc0 : s_readonly (fst c0) = false) by exact B3.
  unfold run, power_on.
  destruct (start_all_reach cfg c0 fuel fiber (seq 0 (length procs)) (boot cfg procs fiber tb)) as (k & R1 & S1 & Q1);
    [apply TR_init | right; split; [split|]; assumption|].
  set (s4 := start_all cfg fuel fiber (seq 0 (length procs)) (boot cfg procs fiber tb)) in *.
  destruct (halted s4) eqn:H4.
  - rewrite advance_loop_halted by exact H4. exists k. exact R1.
  - destruct Q1 as [Hh|((Hr & Hro) & Ph)]; [congruence|].
    destruct S1 as [Hh|Hs]; [simpl in Hh; congruence | simpl in Hs; subst k].
    assert (R2 : treach cfg c0 (reevaluate s4, [])) by (eapply TR_step; [exact R1 | apply TS_reeval; assumption]).
    destruct (reevaluate_top s4) as ((C1 & C2 & C3 & C4) & E & O & Rd).
    assert (Pre : rest_ok (reevaluate s4)).
    { right. repeat split; try congruence. unfold reevaluate. rewrite add_log_log. simpl.
      rewrite (halted_false_err s4 H4). reflexivity. }
    destruct (handle_time_step_reach cfg c0 Hc0 fuel (reevaluate s4) R2 Pre) as (k' & R3 & S3 & Q3).
    set (s6 := handle_time_step cfg fuel (reevaluate s4)) in *.
    destruct S3 as [Hh|Hs]; [simpl in Hh | simpl in Hs; subst k'].
    + rewrite advance_loop_halted by exact Hh. exists k'. exact R3.
    + apply (advance_loop_reach cfg c0 Hc0); assumption.
Qed.
