(* Node_Register (coreNodes/Node_Register.cpp): the four simulation entry points as
   functions on the node's slice of the simulator state.  Model only. *)
From Gatery Require Import Bits NodeSemDefs.
Import ListNotations.

Inductive reset_type := RST_SYNC | RST_ASYNC | RST_NONE.     (* RegisterAttributes::ResetType *)

(* static configuration of one register *)
Record reg_cfg := mk_reg_cfg {
  rc_width : nat;
  (* value the RESET_VALUE input evaluates to (constant or evaluateStatically), None = no reset driver *)
  rc_reset_value : option bv;
  rc_reset_type : reset_type;                                 (* of the clock *)
  rc_reset_active_high : bool                                 (* of the clock *)
}.

(* internal state INT_DATA, INT_ENABLE, INT_IN_RESET and output 0 *)
Record reg_state := mk_reg_state {
  rs_int_data : bv;
  rs_int_enable : tbit;
  rs_in_reset : bool;
  rs_out : bv
}.

(* the state the harness starts from: nothing defined, not in reset *)
Definition reg_init (c : reg_cfg) : reg_state :=
  mk_reg_state (all_X (rc_width c)) BX false (all_X (rc_width c)).

(* writeResetValueTo(state, {INT_DATA, out}, width, clearDefinedIfUnconnected) *)
Definition write_reset_value (c : reg_cfg) (clearDefinedIfUnconnected : bool) (s : reg_state) : reg_state :=
  match rc_reset_value c with
  | None =>
      if clearDefinedIfUnconnected
      then mk_reg_state (all_X (rc_width c)) (rs_int_enable s) (rs_in_reset s) (all_X (rc_width c))
      else s
  | Some rv =>
      let v := bv_resize (rc_width c) rv in       (* HCL_ASSERT(value.size() == width) *)
      mk_reg_state v (rs_int_enable s) (rs_in_reset s) v
  end.

(* simulatePowerOn *)
Definition reg_poweron (c : reg_cfg) (s : reg_state) : reg_state :=
  let s1 := write_reset_value c true s in
  mk_reg_state (rs_int_data s1) (rs_int_enable s1) false (rs_out s1).

(* simulateResetChange(resetHigh) *)
Definition reg_reset (c : reg_cfg) (resetHigh : bool) (s : reg_state) : reg_state :=
  let inReset := xorb resetHigh (negb (rc_reset_active_high c))
                 && match rc_reset_value c with Some _ => true | None => false end in
  let s1 := mk_reg_state (rs_int_data s) (rs_int_enable s) inReset (rs_out s) in
  if inReset && match rc_reset_type c with RST_ASYNC => true | _ => false end
  then write_reset_value c false s1 else s1.

(* simulateEvaluate: latch data and enable into the internal state *)
Definition reg_latch (c : reg_cfg) (data enable : option bv) (s : reg_state) : reg_state :=
  let d := match data with Some x => bv_resize (rc_width c) x | None => all_X (rc_width c) end in
  let e := match enable with Some x => bv_get x 0 | None => B1 end in
  mk_reg_state d e (rs_in_reset s) (rs_out s).

(* simulateAdvance *)
Definition reg_advance (c : reg_cfg) (s : reg_state) : reg_state :=
  if rs_in_reset s then
    match rc_reset_type c with
    | RST_SYNC => write_reset_value c false s
    | _ => s                                                   (* handled in simulateResetChange *)
    end
  else
    match rs_int_enable s with
    | BX => mk_reg_state (rs_int_data s) (rs_int_enable s) (rs_in_reset s) (all_X (rc_width c))
    | B1 => mk_reg_state (rs_int_data s) (rs_int_enable s) (rs_in_reset s) (bv_resize (rc_width c) (rs_int_data s))
    | B0 => s
    end.

(* relations on register states used by the C08 theorems *)
Definition reg_rel (R : tbit -> tbit -> Prop) (s t : reg_state) : Prop :=
  Forall2 R (rs_int_data s) (rs_int_data t) /\ R (rs_int_enable s) (rs_int_enable t)
  /\ rs_in_reset s = rs_in_reset t /\ Forall2 R (rs_out s) (rs_out t).

(* all vectors of a state have the register's width *)
Definition reg_wf (c : reg_cfg) (s : reg_state) : Prop :=
  length (rs_int_data s) = rc_width c /\ length (rs_out s) = rc_width c.
