(* C12 -- non-vacuity: a two-clock design (plus a derived clock that shares its parent's pin source)
   with the crossing marked (accepted) and the same design with the marker bypassed (rejected);
   the hypotheses of the theorems in Properties_C12.v are satisfiable by these designs. *)
From Coq Require Import List NArith Bool Arith Lia Permutation.
From Gatery Require Import CdcDefs CdcClocks CdcCheck CdcSound CdcWorklist CdcSpecExec.
Import ListNotations.

(* a sufficient, checkable condition for [acyclic]: drivers precede their users *)
Fixpoint topo_from (v : N) (l : list node) : bool :=
  match l with
  | [] => true
  | nd :: r =>
      forallb (fun d => match d with None => true | Some q => N.ltb (fst q) v end) (nins nd)
      && topo_from (N.succ v) r
  end.

Definition topo_b (n : netlist) : bool := topo_from 0%N (nodes n).

Lemma topo_from_spec : forall l v0 k nd q,
  topo_from v0 l = true -> nth_error l k = Some nd -> In (Some q) (nins nd) -> (fst q < v0 + N.of_nat k)%N.
Proof.
  induction l as [|x l IH]; intros v0 k nd q Ht Hk Hq; [destruct k; discriminate|].
  simpl in Ht. apply andb_true_iff in Ht. destruct Ht as [H1 H2].
  destruct k; simpl in Hk.
  - inversion Hk; subst. rewrite forallb_forall in H1. specialize (H1 _ Hq). simpl in H1.
    apply N.ltb_lt in H1. lia.
  - specialize (IH _ _ _ _ H2 Hk Hq). lia.
Qed.

Lemma topo_acyclic : forall n, topo_b n = true -> acyclic n.
Proof.
  intros n Ht. exists (fun p => N.to_nat (fst p)).
  intros p nd deps i q _ Hg _ _ Hq. unfold get_node in Hg.
  pose proof (topo_from_spec _ _ _ _ q Ht Hg (nth_error_In _ _ Hq)). lia.
Qed.

(* clocks: 0 = clkA (root), 1 = clkB (root, same frequency), 2 = derived from clkA, same name /
   frequency / phase -> shares clkA's pin source *)
Definition ex_clocks : list clock :=
  [ mkClock None true true 0 100 1 true;
    mkClock None true true 1 100 1 true;
    mkClock (Some 0) true true 0 100 1 true ].

(* pin(clkA) -> reg(clk2) -> marker(clkA -> clkB) -> reg(clkB) -> pin(clkB) *)
Definition ex_marked : netlist :=
  mkNetlist
    [ mkNode KPin 0 [None] 1 [Some 0] [] [];
      mkNode KReg 1 [Some (0, 0); None; None]%N 1 [Some 2] [] [];
      mkNode KCdc 2 [Some (1, 0)]%N 1 [Some 0; Some 1] [] [];
      mkNode KReg 3 [Some (2, 0); None; None]%N 1 [Some 1] [] [];
      mkNode KPin 4 [Some (3, 0)]%N 1 [Some 1] [] [] ]
    ex_clocks.

(* the same with the second register reading the first one directly *)
Definition ex_unmarked : netlist :=
  mkNetlist
    [ mkNode KPin 0 [None] 1 [Some 0] [] [];
      mkNode KReg 1 [Some (0, 0); None; None]%N 1 [Some 2] [] [];
      mkNode KCdc 2 [Some (1, 0)]%N 1 [Some 0; Some 1] [] [];
      mkNode KReg 3 [Some (1, 0); None; None]%N 1 [Some 1] [] [];
      mkNode KPin 4 [Some (3, 0)]%N 1 [Some 1] [] [] ]
    ex_clocks.

Example ex_pin_source : pin_source ex_marked 2 = 0 /\ pin_source ex_marked 1 = 1.
Proof. vm_compute. auto. Qed.

Example ex_wf : wf ex_marked = true /\ wf ex_unmarked = true.
Proof. vm_compute. auto. Qed.

Example ex_acyclic : acyclic ex_marked /\ acyclic ex_unmarked.
Proof. split; apply topo_acyclic; vm_compute; reflexivity. Qed.

Example ex_worklist_map :
  map (infer_real ex_marked) (all_outputs ex_marked)
  = [Some (SClock 0); Some (SClock 2); Some (SClock 1); Some (SClock 1); Some (SClock 1)].
Proof. vm_compute. reflexivity. Qed.

Example ex_domains_ok : domains_ok ex_marked (infer_real ex_marked) = true
                        /\ domains_ok ex_unmarked (infer_real ex_unmarked) = true.
Proof. vm_compute. auto. Qed.

(* a map that is NOT a fixpoint is refused by the characterisation *)
Example ex_domains_not_ok : domains_ok ex_marked (fun _ => Some SConst) = false.
Proof. vm_compute. reflexivity. Qed.

Example ex_marked_accepted : flagged ex_marked (infer_real ex_marked) = [].
Proof. vm_compute. reflexivity. Qed.

Example ex_unmarked_rejected : flagged ex_unmarked (infer_real ex_unmarked) = [3%N].
Proof. vm_compute. reflexivity. Qed.

Example ex_spec_closed : infl_closed ex_marked (infl_sets ex_marked) = true
                         /\ infl_closed ex_unmarked (infl_sets ex_unmarked) = true.
Proof. vm_compute. auto. Qed.

Example ex_marked_no_crossing : ~ has_crossing ex_marked.
Proof.
  intro H. apply (spec_verdict_exact ex_marked) in H; [|vm_compute; reflexivity].
  vm_compute in H. discriminate.
Qed.

Example ex_unmarked_crossing : has_crossing ex_unmarked.
Proof. apply (spec_verdict_exact ex_unmarked); vm_compute; reflexivity. Qed.

(* the influence relation is inhabited: clkA's derived clock reaches the marker's input *)
Example ex_influence : influences ex_marked (SrcClk 2) (1, 0)%N.
Proof.
  apply (infl_src ex_marked (1, 0)%N (mkNode KReg 1 [Some (0, 0); None; None]%N 1 [Some 2] [] []) [0; 1; 2] (Some 2) []);
    vm_compute; auto.
Qed.

(* a permutation of the processing order different from the C++ one *)
Example ex_other_order :
  Permutation (rev (all_outputs ex_unmarked)) (all_outputs ex_unmarked)
  /\ domains_ok ex_unmarked (infer ex_unmarked (fun l => length l - 1) (rev (all_outputs ex_unmarked))) = true.
Proof. split; [apply Permutation_sym, Permutation_rev | vm_compute; reflexivity]. Qed.

(* clocks with the same pin source are interchangeable in the rule: the derived clock 2 may stand for
   clkA in a register's inputs *)
Example ex_same_source :
  check_valid (pin_source ex_marked) (mkNode KReg 9 [] 1 [Some 0] [] []) [SClock 2; SConst; SClock 0] = true
  /\ check_valid (pin_source ex_marked) (mkNode KReg 9 [] 1 [Some 0] [] []) [SClock 1; SConst; SClock 0] = false.
Proof. vm_compute. auto. Qed.

(* ------------------------------------------------------------------ *)
(* a derived clock whose net is driven by logic in ONE view only (the idiom of
   ExternalModule::addClockOut: `Bit d; d.exportOverride(x); clk.overrideClkWith(d)`).  It keeps the
   parent's name, frequency and phase, and still is a domain of its own. *)

Definition drv_clocks (selfsim selfexp : bool) : list clock :=
  [ mkClock None true true 0 100 1 true;
    mkClock (Some 0) selfsim selfexp 0 100 1 true ].

(* pin(clkA) ; export-override(-, pin) -> signal2clk(clk1) ; reg(clk1) reads the pin ; pin(clk1) *)
Definition drv_unmarked (selfsim selfexp : bool) : netlist :=
  mkNetlist
    [ mkNode KPin 0 [None] 1 [Some 0] [] [];
      mkNode KOther 1 [None; Some (0, 0)]%N 1 [] [] [];
      mkNode KSig2Clk 2 [Some (1, 0)]%N 0 [Some 1] [] [];
      mkNode KReg 3 [Some (0, 0); None; None]%N 1 [Some 1] [] [];
      mkNode KPin 4 [Some (3, 0)]%N 1 [Some 1] [] [] ]
    (drv_clocks selfsim selfexp).

Definition drv_marked (selfsim selfexp : bool) : netlist :=
  mkNetlist
    [ mkNode KPin 0 [None] 1 [Some 0] [] [];
      mkNode KOther 1 [None; Some (0, 0)]%N 1 [] [] [];
      mkNode KSig2Clk 2 [Some (1, 0)]%N 0 [Some 1] [] [];
      mkNode KCdc 3 [Some (0, 0)]%N 1 [Some 0; Some 1] [] [];
      mkNode KReg 4 [Some (3, 0); None; None]%N 1 [Some 1] [] [];
      mkNode KPin 5 [Some (4, 0)]%N 1 [Some 1] [] [] ]
    (drv_clocks selfsim selfexp).

Example drv_clocks_ok : clocks_ok (drv_clocks true false) = true /\ wf (drv_unmarked true false) = true.
Proof. vm_compute. auto. Qed.

(* undriven: same domain as the parent; driven in the export view only, the simulation view only, or
   both: its own domain *)
Example drv_pin_sources :
  pin_source (drv_unmarked true true) 1 = 0
  /\ pin_source (drv_unmarked true false) 1 = 1
  /\ pin_source (drv_unmarked false true) 1 = 1
  /\ pin_source (drv_unmarked false false) 1 = 1.
Proof. vm_compute. auto. Qed.

Example drv_verdicts :
  flagged (drv_unmarked true true) (infer_real (drv_unmarked true true)) = []
  /\ flagged (drv_unmarked true false) (infer_real (drv_unmarked true false)) = [3%N]
  /\ flagged (drv_unmarked false true) (infer_real (drv_unmarked false true)) = [3%N]
  /\ flagged (drv_unmarked false false) (infer_real (drv_unmarked false false)) = [3%N]
  /\ flagged (drv_marked true false) (infer_real (drv_marked true false)) = []
  /\ flagged (drv_marked false true) (infer_real (drv_marked false true)) = [].
Proof. vm_compute. repeat split; reflexivity. Qed.

Example drv_export_only_crossing : has_crossing (drv_unmarked true false) /\ ~ has_crossing (drv_marked true false).
Proof.
  split.
  - apply (spec_verdict_exact (drv_unmarked true false)); vm_compute; reflexivity.
  - intro H. apply (spec_verdict_exact (drv_marked true false)) in H; [|vm_compute; reflexivity].
    vm_compute in H. discriminate.
Qed.

(* ------------------------------------------------------------------ *)
(* external module with three input ports declared for clkA, clkB, clkA and one output on clkA.
   In [ext_first_port] a clkB signal enters the FIRST port (declared clkA) while the later ports are
   driven from their own domains; in [ext_clean] every port gets its own domain. *)

Definition ext_clocks : list clock :=
  [ mkClock None true true 0 100 1 true; mkClock None true true 1 300 1 true ].

Definition ext_design (first : port) : netlist :=
  mkNetlist
    [ mkNode KPin 0 [None] 1 [Some 0] [] [];
      mkNode KPin 1 [None] 1 [Some 1] [] [];
      mkNode KExt 2 [Some first; Some (1, 0); Some (0, 0)]%N 1 [] [Some 0; Some 1; Some 0] [Some 0];
      mkNode KPin 3 [Some (2, 0)]%N 1 [Some 0] [] [] ]
    ext_clocks.

Definition ext_first_port : netlist := ext_design (1, 0)%N.
Definition ext_clean : netlist := ext_design (0, 0)%N.

Example ext_wf : wf ext_first_port = true /\ wf ext_clean = true.
Proof. vm_compute. auto. Qed.

Example ext_verdicts :
  flagged ext_first_port (infer_real ext_first_port) = [2%N]
  /\ flagged ext_clean (infer_real ext_clean) = []
  /\ domains_ok ext_first_port (infer_real ext_first_port) = true.
Proof. vm_compute. repeat split; reflexivity. Qed.

Example ext_crossing : has_crossing ext_first_port /\ ~ has_crossing ext_clean.
Proof.
  split.
  - apply (spec_verdict_exact ext_first_port); vm_compute; reflexivity.
  - intro H. apply (spec_verdict_exact ext_clean) in H; [|vm_compute; reflexivity].
    vm_compute in H. discriminate.
Qed.

(* the rule on its own: a mismatch on the first port, an unknown on the middle port, all fine *)
Example ext_rule :
  let nd := mkNode KExt 2 [] 1 [] [Some 0; Some 1; Some 0] [Some 0] in
  check_valid (pin_source ext_clean) nd [SClock 1; SClock 1; SClock 0] = false
  /\ check_valid (pin_source ext_clean) nd [SClock 0; SUnknown; SClock 0] = false
  /\ check_valid (pin_source ext_clean) nd [SClock 0; SConst; SClock 0] = true.
Proof. vm_compute. auto. Qed.
