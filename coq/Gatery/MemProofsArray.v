(* C07 -- the simulator's memory ports refine a plain array whose ports act in declaration order
   (defined, in-range inputs); out-of-range accesses. *)
From Gatery Require Import Bits MemDefs.
Import ListNotations.
Open Scope N_scope.

(* ------------------------------------------------------------------ addresses *)

Lemma bv_val_addr_val x v : bv_val x = Some v -> addr_val x = v.
Proof.
  revert v; induction x as [|b r IH]; intros v H; simpl in *.
  - congruence.
  - destruct b; try discriminate; destruct (bv_val r) as [u|]; try discriminate;
      inversion H; subst; rewrite (IH u eq_refl); cbn [bit_val N.b2n]; lia.
Qed.

Lemma addr_val_of_N n a : addr_val (bv_of_N n a) = a mod 2 ^ N.of_nat n.
Proof. apply bv_val_addr_val, bv_val_of_N. Qed.

Lemma addr_val_of_N_small n a : a < 2 ^ N.of_nat n -> addr_val (bv_of_N n a) = a.
Proof. intro H. rewrite addr_val_of_N. apply N.mod_small; exact H. Qed.

Lemma can_collide_defined x y :
  all_def x = true -> all_def y = true -> length x = length y ->
  can_collide x y = (addr_val x =? addr_val y).
Proof.
  revert y; induction x as [|a x IH]; intros [|b y] Hx Hy Hl;
    cbn [can_collide addr_val all_def forallb length] in *; try discriminate; auto.
  apply andb_prop in Hx as [Ha Hx]; apply andb_prop in Hy as [Hb Hy].
  rewrite (IH y Hx Hy) by lia.
  destruct (N.eqb_spec (addr_val x) (addr_val y)) as [E|E];
    destruct a, b; cbn [is_def compatb tbit_eqb bit_val N.b2n andb] in *; try discriminate;
    symmetry; try (apply N.eqb_eq; lia); apply N.eqb_neq; lia.
Qed.

(* ------------------------------------------------------------------ lists *)

Lemma replace_nth_length n x m : length (replace_nth n x m) = length m.
Proof. revert n; induction m as [|y r IH]; intros [|n]; simpl; auto. Qed.

Lemma nth_replace_nth_same n x m d : (n < length m)%nat -> nth n (replace_nth n x m) d = x.
Proof. revert n; induction m as [|y r IH]; intros [|n] H; simpl in *; try lia; auto. apply IH; lia. Qed.

Lemma nth_replace_nth_other n k x m d : n <> k -> nth k (replace_nth n x m) d = nth k m d.
Proof. revert n k; induction m as [|y r IH]; intros [|n] [|k] H; simpl; auto; try congruence. Qed.

Lemma out_of_range_iff w m a : (0 < w)%nat ->
  out_of_range w m a = (N.of_nat (length m) <=? a).
Proof.
  intro Hw. unfold out_of_range.
  destruct (N.leb_spec (N.of_nat (length m)) a) as [H|H].
  - apply N.leb_le. apply N.mul_le_mono_r; exact H.
  - apply N.leb_gt. apply N.mul_lt_mono_pos_r; [lia | exact H].
Qed.

(* ------------------------------------------------------------------ latches as array updates *)

Definition apply_latch (f : arr) (l : latch) : arr :=
  if l_wr l then arr_upd f (addr_val (l_addr l)) (l_data l) else f.

Definition latch_def (n : nat) (l : latch) : Prop := all_def (l_addr l) = true /\ length (l_addr l) = n.

Lemma fwd_fold w ra ls : forall out (g : arr),
  all_def ra = true -> Forall (latch_def (length ra)) ls ->
  out = g (addr_val ra) ->
  fold_left (fwd_one w ra) ls out = (fold_left apply_latch ls g) (addr_val ra).
Proof.
  induction ls as [|l ls IH]; intros out g Hra Hls Ho; simpl; auto.
  inversion Hls as [|? ? [Hd Hn] Hr]; subst.
  apply IH; auto.
  unfold fwd_one, apply_latch. destruct (l_wr l); auto.
  rewrite Hd; simpl. rewrite can_collide_defined by (auto; lia). rewrite Hra.
  unfold arr_upd. rewrite N.eqb_sym. destruct (N.eqb (addr_val ra) (addr_val (l_addr l))); reflexivity.
Qed.

Lemma commit_fold c : forall ls m, (0 < c_width c)%nat ->
  Forall (fun l => all_def (l_addr l) = true) ls ->
  let m' := fold_left (mem_commit c) ls m in
  length m' = length m /\
  forall a, a < N.of_nat (length m) ->
    word_at (c_width c) m' a = fold_left apply_latch ls (arr_of (c_width c) m) a.
Proof.
  induction ls as [|l ls IH]; intros m Hw Hls; simpl.
  - split; auto.
  - inversion Hls as [|? ? Hd Hr]; subst.
    destruct (IH (mem_commit c m l) Hw Hr) as [Hlen Hval].
    assert (Hl1 : length (mem_commit c m l) = length m).
    { unfold mem_commit. destruct (l_wr l); auto. rewrite Hd; simpl.
      destruct (out_of_range _ _ _); auto. apply replace_nth_length. }
    split; [congruence|].
    intros a Ha. rewrite Hval by (rewrite Hl1; exact Ha).
    (* the two arrays agree below depth, and fold_left apply_latch preserves that *)
    clear Hval Hlen IH.
    assert (Hagree : forall x, x < N.of_nat (length m) ->
              arr_of (c_width c) (mem_commit c m l) x = apply_latch (arr_of (c_width c) m) l x).
    { intros x Hx. unfold mem_commit, apply_latch, arr_of, word_at. destruct (l_wr l); auto.
      rewrite Hd; simpl. rewrite out_of_range_iff by exact Hw. unfold arr_upd.
      destruct (N.leb_spec (N.of_nat (length m)) (addr_val (l_addr l))) as [Ho|Hi].
      - destruct (N.eqb_spec x (addr_val (l_addr l))); [lia | reflexivity].
      - destruct (N.eqb_spec x (addr_val (l_addr l))) as [E|E].
        + subst x. apply nth_replace_nth_same. lia.
        + apply nth_replace_nth_other. lia. }
    revert Hagree. generalize (arr_of (c_width c) (mem_commit c m l)) (apply_latch (arr_of (c_width c) m) l).
    clear Hd Hls Hl1. induction ls as [|l2 ls IH2]; intros g1 g2 Hg; simpl.
    + apply Hg; exact Ha.
    + inversion Hr; subst. apply IH2; auto.
      intros x Hx. unfold apply_latch. destruct (l_wr l2); auto. unfold arr_upd.
      destruct (N.eqb x (addr_val (l_addr l2))); auto.
Qed.

(* ------------------------------------------------------------------ one port *)

Lemma en_rel_sure b e : en_rel b e -> en_sure e = b /\ en_maybe e = b /\ en_defined e = true.
Proof. destruct b; intros [-> | [-> H]]; try discriminate; simpl; auto. Qed.

Definition ain_ok (c : mem_cfg) (depth : N) (i : aport_in) : Prop :=
  ai_addr i < depth /\ ai_addr i < 2 ^ N.of_nat (c_abits c).

Definition st_inv (c : mem_cfg) (st : pstate) : Prop :=
  ps_fwd st = rev (ps_all st) /\ Forall (latch_def (c_abits c)) (ps_all st).

Lemma port_step_spec c m st pt i pin f :
  c_noconf c = false -> (0 < c_width c)%nat ->
  st_inv c st -> ain_ok c (N.of_nat (length m)) i -> pin_rel c i pin ->
  (forall a, a < N.of_nat (length m) -> f a = fold_left apply_latch (ps_all st) (arr_of (c_width c) m) a) ->
  let '(rd, st') := port_step c m st pt pin in
  let rd' := if p_read pt then Some (if ai_en i then f (ai_addr i) else all_X (c_width c)) else None in
  let f' := if p_write pt && ai_en i && ai_wen i then arr_upd f (ai_addr i) (ai_wdata i) else f in
  rd = rd' /\ st_inv c st' /\
  (forall a, a < N.of_nat (length m) -> f' a = fold_left apply_latch (ps_all st') (arr_of (c_width c) m) a).
Proof.
  intros Hnc Hw [Hfwd Hall] [Hin Hsm] (Haddr & Hen & Hwen & Hdata) Hf.
  unfold port_step. cbv zeta.
  destruct (en_rel_sure _ _ Hen) as (Hs & Hm & Hd).
  destruct (en_rel_sure _ _ Hwen) as (Hs2 & Hm2 & Hd2).
  assert (Hav : addr_val (bv_of_N (c_abits c) (ai_addr i)) = ai_addr i) by (apply addr_val_of_N_small; exact Hsm).
  split; [|split].
  - destruct (p_read pt); auto. f_equal.
    unfold mem_read. rewrite Haddr, Hs. destruct (ai_en i); simpl; auto.
    rewrite Hfwd, rev_involutive.
    rewrite (fwd_fold (c_width c) _ (ps_all st) _ (arr_of (c_width c) m)).
    + rewrite Hav. symmetry. apply Hf; exact Hin.
    + apply bv_of_N_all_def.
    + rewrite bv_of_N_length. exact Hall.
    + unfold read_base. rewrite bv_of_N_all_def, Hav, out_of_range_iff by exact Hw.
      destruct (N.leb_spec (N.of_nat (length m)) (ai_addr i)); [lia | reflexivity].
  - destruct (p_write pt); [|split; auto]. rewrite Hnc. unfold st_inv; simpl. split.
    + rewrite rev_app_distr. simpl. f_equal. exact Hfwd.
    + apply Forall_app; split; auto. constructor; auto.
      unfold latch_def, mem_latch_write; simpl. rewrite Haddr.
      split; [apply bv_of_N_all_def | apply bv_of_N_length].
  - intros a Ha. destruct (p_write pt); simpl; [| apply Hf; exact Ha].
    rewrite fold_left_app. simpl. unfold apply_latch at 1. unfold mem_latch_write; simpl.
    rewrite Hm, Hm2, Hd, Hd2, Haddr, Hdata, Hav. simpl.
    destruct (ai_en i), (ai_wen i); simpl; try (apply Hf; exact Ha).
    unfold arr_upd. destruct (N.eqb a (ai_addr i)); auto.
Qed.

Lemma eval_ports_spec c m : c_noconf c = false -> (0 < c_width c)%nat ->
  forall ps ins pins st f,
  st_inv c st ->
  Forall (ain_ok c (N.of_nat (length m))) ins -> Forall2 (pin_rel c) ins pins -> length ps = length ins ->
  (forall a, a < N.of_nat (length m) -> f a = fold_left apply_latch (ps_all st) (arr_of (c_width c) m) a) ->
  let '(rds, st') := eval_ports c m st ps pins in
  let '(rds', f') := spec_ports (c_width c) f ps ins in
  rds = rds' /\ Forall (fun l => all_def (l_addr l) = true) (ps_all st') /\
  (forall a, a < N.of_nat (length m) -> f' a = fold_left apply_latch (ps_all st') (arr_of (c_width c) m) a).
Proof.
  intros Hnc Hw. induction ps as [|pt ps IH]; intros ins pins st f Hinv Hok Hrel Hlen Hf.
  - simpl. destruct ins; simpl in *; try discriminate. split; auto. split; auto.
    destruct Hinv as [_ Hall]. eapply Forall_impl; [|exact Hall]. intros l [H _]; exact H.
  - destruct ins as [|i ins]; simpl in Hlen; try discriminate.
    inversion Hrel as [|? pin ? pins' Hp Hr]; subst. inversion Hok as [|? ? Hi Hoks]; subst.
    cbn [eval_ports spec_ports].
    pose proof (port_step_spec c m st pt i pin f Hnc Hw Hinv Hi Hp Hf) as Hstep.
    destruct (port_step c m st pt pin) as [rd st1]. cbv zeta in Hstep.
    destruct Hstep as (Hrd & Hinv1 & Hf1).
    specialize (IH ins pins' st1 _ Hinv1 Hoks Hr ltac:(lia) Hf1).
    destruct (eval_ports c m st1 ps pins') as [rds st2].
    destruct (spec_ports (c_width c) _ ps ins) as [rds' f2].
    destruct IH as (Hrds & Hall2 & Hf2). split; [|split]; auto. congruence.
Qed.

Lemma cycle_spec c ps m ins pins :
  c_noconf c = false -> (0 < c_width c)%nat ->
  Forall (ain_ok c (N.of_nat (length m))) ins -> Forall2 (pin_rel c) ins pins -> length ps = length ins ->
  forall f, (forall a, a < N.of_nat (length m) -> f a = arr_of (c_width c) m a) ->
  let '(rds, m') := cycle c ps m pins in
  let '(rds', f') := spec_ports (c_width c) f ps ins in
  rds = rds' /\ length m' = length m /\
  (forall a, a < N.of_nat (length m) -> f' a = arr_of (c_width c) m' a).
Proof.
  intros Hnc Hw Hok Hrel Hlen f Hf. unfold cycle.
  pose proof (eval_ports_spec c m Hnc Hw ps ins pins ps_init f) as H.
  assert (Hinv0 : st_inv c ps_init) by (split; simpl; auto).
  specialize (H Hinv0 Hok Hrel Hlen Hf).
  destruct (eval_ports c m ps_init ps pins) as [rds st].
  destruct (spec_ports (c_width c) f ps ins) as [rds' f'].
  destruct H as (Hrds & Hall & Hf').
  destruct (commit_fold c (ps_all st) m Hw Hall) as [Hl Hv].
  split; auto. split; auto. intros a Ha. rewrite Hf' by exact Ha. unfold arr_of at 2.
  rewrite Hv by exact Ha. reflexivity.
Qed.

(* ------------------------------------------------------------------ all cycles *)

Definition cycle_ok (c : mem_cfg) (depth : N) (ps : list port) (ins : list aport_in) (pins : list port_in) : Prop :=
  length ps = length ins /\ Forall (ain_ok c depth) ins /\ Forall2 (pin_rel c) ins pins.

Lemma memports_refine_array_proof : forall c ps cycles pcycles m f,
  c_noconf c = false -> (0 < c_width c)%nat ->
  Forall2 (cycle_ok c (N.of_nat (length m)) ps) cycles pcycles ->
  (forall a, a < N.of_nat (length m) -> f a = arr_of (c_width c) m a) ->
  let '(outs, m') := run c ps m pcycles in
  let '(souts, f') := spec_run (c_width c) ps f cycles in
  outs = souts /\ length m' = length m /\
  (forall a, a < N.of_nat (length m) -> f' a = arr_of (c_width c) m' a).
Proof.
  intros c ps cycles. induction cycles as [|ins cycles IH]; intros pcycles m f Hnc Hw Hcy Hf.
  - inversion Hcy; subst. simpl. auto.
  - inversion Hcy as [|? pins ? pcs (Hlen & Hok & Hrel) Hrest]; subst.
    cbn [run spec_run].
    pose proof (cycle_spec c ps m ins pins Hnc Hw Hok Hrel Hlen f Hf) as H1.
    destruct (cycle c ps m pins) as [rds m1].
    destruct (spec_ports (c_width c) f ps ins) as [rds' f1].
    destruct H1 as (Hrds & Hl1 & Hf1).
    rewrite <- Hl1 in Hrest, Hf1.
    specialize (IH pcs m1 f1 Hnc Hw Hrest Hf1).
    destruct (run c ps m1 pcs) as [outs m2].
    destruct (spec_run (c_width c) ps f1 cycles) as [souts f2].
    destruct IH as (Ho & Hl2 & Hf2).
    split; [congruence|]. split; [congruence|]. rewrite <- Hl1. exact Hf2.
Qed.

(* ------------------------------------------------------------------ out of range *)

(* a defined read address at or beyond the depth never returns stored data: the result does not
   depend on the memory contents, and it is undefined unless an EARLIER write port of the same cycle
   is writing to the very same (out-of-range) address, whose data is then forwarded *)
Lemma read_out_of_range_proof : forall c m prev pin addr,
  (0 < c_width c)%nat -> pi_addr pin = Some addr -> all_def addr = true ->
  N.of_nat (length m) <= addr_val addr ->
  mem_read c m prev pin = (if en_sure (pi_en pin)
                           then fold_left (fwd_one (c_width c) addr) (rev prev) (all_X (c_width c))
                           else all_X (c_width c)) /\
  (Forall (fun l => l_wr l = false \/ (all_def (l_addr l) = true /\ can_collide (l_addr l) addr = false)) prev ->
   mem_read c m prev pin = all_X (c_width c)).
Proof.
  intros c m prev pin addr Hw Ha Hd Hr.
  assert (Hb : read_base c m addr = all_X (c_width c)).
  { unfold read_base. rewrite Hd, out_of_range_iff by exact Hw.
    destruct (N.leb_spec (N.of_nat (length m)) (addr_val addr)); [reflexivity | lia]. }
  unfold mem_read. rewrite Ha, Hb. split.
  - destruct (en_sure (pi_en pin)); reflexivity.
  - intro Hp. destruct (en_sure (pi_en pin)); simpl; auto.
    apply Forall_rev in Hp. induction (rev prev) as [|l ls IH]; simpl; auto.
    inversion Hp as [|? ? H1 H2]; subst.
    replace (fwd_one (c_width c) addr (all_X (c_width c)) l) with (all_X (c_width c)); auto.
    unfold fwd_one. destruct H1 as [-> | [H3 H4]]; auto. rewrite H3, H4. destruct (l_wr l); reflexivity.
Qed.

(* a write to a defined address at or beyond the depth changes nothing (F3 repaired) *)
Lemma write_out_of_range_proof : forall c m l,
  (0 < c_width c)%nat -> all_def (l_addr l) = true ->
  N.of_nat (length m) <= addr_val (l_addr l) -> mem_commit c m l = m.
Proof.
  intros c m l Hw Hd Hr. unfold mem_commit. destruct (l_wr l); auto. rewrite Hd; simpl.
  rewrite out_of_range_iff by exact Hw.
  destruct (N.leb_spec (N.of_nat (length m)) (addr_val (l_addr l))); [reflexivity | lia].
Qed.

(* an in-range write replaces exactly the addressed word *)
Lemma write_in_range_proof : forall c m l,
  (0 < c_width c)%nat -> all_def (l_addr l) = true -> l_wr l = true ->
  addr_val (l_addr l) < N.of_nat (length m) ->
  let m' := mem_commit c m l in
  length m' = length m /\
  word_at (c_width c) m' (addr_val (l_addr l)) = l_data l /\
  forall a, a <> addr_val (l_addr l) -> word_at (c_width c) m' a = word_at (c_width c) m a.
Proof.
  intros c m l Hw Hd Hwr Hr. unfold mem_commit. rewrite Hwr, Hd; simpl.
  rewrite out_of_range_iff by exact Hw.
  destruct (N.leb_spec (N.of_nat (length m)) (addr_val (l_addr l))); [lia|].
  split; [apply replace_nth_length|]. unfold word_at. split.
  - apply nth_replace_nth_same. lia.
  - intros a Ha. apply nth_replace_nth_other. lia.
Qed.

(* a disabled write port (enable or write-enable defined low) does not write *)
Lemma write_disabled_proof : forall c m pin,
  pi_en pin = Some B0 \/ pi_wren pin = Some B0 ->
  mem_commit c m (mem_latch_write c pin) = m.
Proof.
  intros c m pin H. unfold mem_commit, mem_latch_write; simpl.
  destruct H as [-> | ->]; simpl; auto. rewrite andb_false_r. reflexivity.
Qed.
