(* C02 — Exported VHDL behaves like the reference simulation.
   Proof shape S2, translation validation with a TRUSTED VHDL front end (DESIGN.md 6 "C02", 10.2):

     exported VHDL text --(lib/C02_vhdl*.py: parse, elaborate, symbolic execution; TRUSTED)--> netlist L
     circuit the exporter serialised --(harness/netdump.h dump; tied to the real simulator)--> netlist D
     verified checker:  check_cert MRefine D L schedule widths layers = true

   The theorems below are about the CHECKER: whenever it accepts, then for ALL stimulus
   sequences of the pins' widths and ALL cycles
     - no output-pin bit that both D and L define differs, and
     - while D's run has been free of undefined values, L's pin values are identical to D's.
   Nothing in Coq speaks about VHDL text: that L means what the VHDL means under IEEE 1076 /
   1164 / numeric_std is the trusted reading implemented in lib/C02_vhdl_lift.py (on undefined
   values L is evaluated with gatery's node semantics, so for VHDL only the two-valued agreement
   and "never contradicts" are claimed).  VhdlSemProofs.v relates, operator by operator, the
   node patterns the lifter emits to a two-valued numeric_std semantics.  *)
From Coq Require Import List Bool Arith.
From Gatery Require Import Bits NodeSemDefs NodeSemReg NetDefs ProductCert.
Import ListNotations.

Theorem C02_vhdl_netlist_refines_dump : forall (dumped lifted : netlist) (sc : schedule) (ws : list nat) (sigma : nat -> list bv),
  (forall t, ins_wf ws (sigma t)) ->
  forall layers, check_cert MRefine dumped lifted sc ws layers = true ->
  forall t, Forall2 bv_compat (out_at dumped sc sigma t) (out_at lifted sc sigma t) /\
            (clean_upto dumped sc sigma t = true -> out_at lifted sc sigma t = out_at dumped sc sigma t).
Proof. intros nl1 nl2 sc ws sigma Hs layers H. exact (cert_sound MRefine nl1 nl2 sc ws sigma Hs layers eq_refl H). Qed.
Print Assumptions C02_vhdl_netlist_refines_dump.

(* the product run of dump and lifted netlist never leaves the certified sets *)
Theorem C02_cert_invariant : forall (dumped lifted : netlist) (sc : schedule) (ws : list nat) (sigma : nat -> list bv),
  (forall t, ins_wf ws (sigma t)) ->
  forall layers, check_cert MRefine dumped lifted sc ws layers = true ->
  forall t, In (pstate_at dumped lifted sc sigma t) (layer sc layers t).
Proof. intros nl1 nl2 sc ws sigma Hs layers H. exact (cert_invariant MRefine nl1 nl2 sc ws sigma Hs layers H). Qed.
Print Assumptions C02_cert_invariant.

(* every 4-state input vector of the pins' widths is enumerated by the checker *)
Theorem C02_all_inputs_enumerated : forall ws ins, ins_wf ws ins -> In ins (all_ins ws).
Proof. exact all_ins_complete. Qed.
Print Assumptions C02_all_inputs_enumerated.

(* ---- non-vacuity --------------------------------------------------------------------------- *)
(* D: the dumped circuit  q = reg(a + b) (one-bit operands) with synchronous, active-high reset to "1", enable en.
   L: what the lifter produces from
        s_sum <= (UNSIGNED(a) + UNSIGNED(b));
        IF rising_edge(clk) THEN IF (reset = '1') THEN q <= "1"; ELSE IF (en = '1') THEN q <= s_sum; END IF; END IF; END IF;
      (forwarding node per VHDL signal, operands zero-extended to max length = no-op rewires) *)
Definition rc : reg_cfg := mk_reg_cfg 1 (Some [B1]) RST_SYNC true.
Definition exD_wired : netlist :=
  [ mk_node (NPinIn 1 0) []; mk_node (NPinIn 1 1) []; mk_node (NPinIn 1 2) [];
    mk_node (NReg rc 0) [Some (4, 0); None; Some (2, 0)];
    mk_node (NComb (KArith A_ADD 1)) [Some (0, 0); Some (1, 0)];
    mk_node (NPinOut 1) [Some (3, 0)] ].
Definition exL : netlist :=
  [ mk_node (NPinIn 1 0) []; mk_node (NPinIn 1 1) []; mk_node (NPinIn 1 2) [];
    mk_node (NReg rc 0) [Some (7, 0); None; Some (2, 0)];
    mk_node (NComb (KRewire [mk_range 1 (RW_INPUT 0 0)])) [Some (0, 0)];
    mk_node (NComb (KRewire [mk_range 1 (RW_INPUT 0 0)])) [Some (1, 0)];
    mk_node (NComb (KArith A_ADD 1)) [Some (4, 0); Some (5, 0)];
    mk_node (NComb (KForward FW_SIGNAL 1)) [Some (6, 0)];
    mk_node (NComb (KForward FW_SIGNAL 1)) [Some (3, 0)];
    mk_node (NPinOut 1) [Some (8, 0)] ].
(* the same VHDL with the reset polarity inverted:  IF (reset = '0') THEN q <= "1"; *)
Definition rc_low : reg_cfg := mk_reg_cfg 1 (Some [B1]) RST_SYNC false.
Definition exL_bad : netlist :=
  [ mk_node (NPinIn 1 0) []; mk_node (NPinIn 1 1) []; mk_node (NPinIn 1 2) [];
    mk_node (NReg rc_low 0) [Some (7, 0); None; Some (2, 0)];
    mk_node (NComb (KRewire [mk_range 1 (RW_INPUT 0 0)])) [Some (0, 0)];
    mk_node (NComb (KRewire [mk_range 1 (RW_INPUT 0 0)])) [Some (1, 0)];
    mk_node (NComb (KArith A_ADD 1)) [Some (4, 0); Some (5, 0)];
    mk_node (NComb (KForward FW_SIGNAL 1)) [Some (6, 0)];
    mk_node (NComb (KForward FW_SIGNAL 1)) [Some (3, 0)];
    mk_node (NPinOut 1) [Some (8, 0)] ].
Definition ex_sched : schedule := mk_sched [[EvReset true]; [EvEdge; EvReset false]] [EvEdge].
Definition ex_ws : list nat := [1; 1; 1].

(* certificate: the product states reachable per cycle, computed by unfolding the product step
   (what the unverified search of the OCaml driver does); the verified checker then decides *)
Definition step_set (A B : netlist) (evs : list event) (cur : list pstate) : list pstate :=
  flat_map (fun s => map (fun i => pnext MRefine A B evs s i) (all_ins ex_ws)) cur.
Fixpoint dedup (l : list pstate) : list pstate :=
  match l with
  | [] => []
  | x :: r => if existsb (pstate_eqb x) r then dedup r else x :: dedup r
  end.
Definition ex_layers (A B : netlist) : list (list pstate) :=
  let l0 := [p_init A B ex_sched] in
  let l1 := dedup (step_set A B (sched_at ex_sched 1) l0) in
  let l2 := dedup (step_set A B (sched_at ex_sched 2) l1) in
  let l3 := dedup (l2 ++ step_set A B [EvEdge] l2) in
  let l4 := dedup (l3 ++ step_set A B [EvEdge] l3) in
  [l0; l1; l4].

Example ex_vhdl_accepted : check_cert MRefine exD_wired exL ex_sched ex_ws (ex_layers exD_wired exL) = true.
Proof. vm_compute. reflexivity. Qed.
Example ex_vhdl_inverted_reset_rejected : check_cert MRefine exD_wired exL_bad ex_sched ex_ws (ex_layers exD_wired exL_bad) = false.
Proof. vm_compute. reflexivity. Qed.
