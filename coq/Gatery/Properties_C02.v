(* C02 — Exported VHDL behaves like the reference simulation.
   Proof shape S2, translation validation with a TRUSTED VHDL front end (DESIGN.md 6 "C02", 10.2):

     exported VHDL text --(lib/C02_vhdl*.py: parse, elaborate, symbolic execution; TRUSTED)--> netlist L
     circuit the exporter serialised --(harness/netdump.h dump; tied to the real simulator)--> netlist D
     verified checker:  check_cert MRefine D L schedule widths layers = true

   The theorems below are about the CHECKER: whenever it accepts, then for ALL stimulus
   sequences of the pins' widths and ALL cycles
     - no output-pin bit that both D and L define differs, and
     - while D's run has been free of undefined values, L's pin values are identical to D's.
   Nothing in Coq speaks about VHDL text: that L means what the VHDL means under IEEE 1076 /
   1164 / numeric_std is the trusted reading implemented in lib/C02_vhdl_lift.py (on undefined
   values L is evaluated with gatery's node semantics, so for VHDL only the two-valued agreement
   and "never contradicts" are claimed).  VhdlSemProofs.v relates, operator by operator, the
   node patterns the lifter emits to a two-valued numeric_std semantics.  *)
From Coq Require Import List Bool Arith.
From Gatery Require Import Bits NodeSemDefs NodeSemReg NetDefs ProductCert.
Import ListNotations.

Theorem C02_vhdl_netlist_refines_dump : forall (dumped lifted : netlist) (sc : schedule) (ws : list nat) (sigma : nat -> list bv),
  (forall t, ins_wf ws (sigma t)) ->
  forall layers, check_cert MRefine dumped lifted sc ws layers = true ->
  forall t, Forall2 bv_compat (out_at dumped sc sigma t) (out_at lifted sc sigma t) /\
            (clean_upto dumped sc sigma t = true -> out_at lifted sc sigma t = out_at dumped sc sigma t).
Proof. intros nl1 nl2 sc ws sigma Hs layers H. exact (cert_sound MRefine nl1 nl2 sc ws sigma Hs layers eq_refl H). Qed.
Print Assumptions C02_vhdl_netlist_refines_dump.

(* the product run of dump and lifted netlist never leaves the certified sets *)
Theorem C02_cert_invariant : forall (dumped lifted : netlist) (sc : schedule) (ws : list nat) (sigma : nat -> list bv),
  (forall t, ins_wf ws (sigma t)) ->
  forall layers, check_cert MRefine dumped lifted sc ws layers = true ->
  forall t, In (pstate_at dumped lifted sc sigma t) (layer sc layers t).
Proof. intros nl1 nl2 sc ws sigma Hs layers H. exact (cert_invariant MRefine nl1 nl2 sc ws sigma Hs layers H). Qed.
Print Assumptions C02_cert_invariant.

(* every 4-state input vector of the pins' widths is enumerated by the checker *)
Theorem C02_all_inputs_enumerated : forall ws ins, ins_wf ws ins -> In ins (all_ins ws).
Proof. exact all_ins_complete. Qed.
Print Assumptions C02_all_inputs_enumerated.

(* ---- non-vacuity --------------------------------------------------------------------------- *)
(* D: the dumped circuit  q = reg(a + b) (one-bit operands) with synchronous, active-high reset to "1", enable en.
   L: what the lifter produces from
        s_sum <= (UNSIGNED(a) + UNSIGNED(b));
        IF rising_edge(clk) THEN IF (reset = '1') THEN q <= "1"; ELSE IF (en = '1') THEN q <= s_sum; END IF; END IF; END IF;
      (forwarding node per VHDL signal, operands zero-extended to max length = no-op rewires) *)
Definition rc : reg_cfg := mk_reg_cfg 1 (Some [B1]) RST_SYNC true.
Definition exD_wired : netlist :=
  [ mk_node (NPinIn 1 0) []; mk_node (NPinIn 1 1) []; mk_node (NPinIn 1 2) [];
    mk_node (NReg rc 0) [Some (4, 0); None; Some (2, 0)];
    mk_node (NComb (KArith A_ADD 1)) [Some (0, 0); Some (1, 0)];
    mk_node (NPinOut 1) [Some (3, 0)] ].
Definition exL : netlist :=
  [ mk_node (NPinIn 1 0) []; mk_node (NPinIn 1 1) []; mk_node (NPinIn 1 2) [];
    mk_node (NReg rc 0) [Some (7, 0); None; Some (2, 0)];
    mk_node (NComb (KRewire [mk_range 1 (RW_INPUT 0 0)])) [Some (0, 0)];
    mk_node (NComb (KRewire [mk_range 1 (RW_INPUT 0 0)])) [Some (1, 0)];
    mk_node (NComb (KArith A_ADD 1)) [Some (4, 0); Some (5, 0)];
    mk_node (NComb (KForward FW_SIGNAL 1)) [Some (6, 0)];
    mk_node (NComb (KForward FW_SIGNAL 1)) [Some (3, 0)];
    mk_node (NPinOut 1) [Some (8, 0)] ].
(* the same VHDL with the reset polarity inverted:  IF (reset = '0') THEN q <= "1"; *)
Definition rc_low : reg_cfg := mk_reg_cfg 1 (Some [B1]) RST_SYNC false.
Definition exL_bad : netlist :=
  [ mk_node (NPinIn 1 0) []; mk_node (NPinIn 1 1) []; mk_node (NPinIn 1 2) [];
    mk_node (NReg rc_low 0) [Some (7, 0); None; Some (2, 0)];
    mk_node (NComb (KRewire [mk_range 1 (RW_INPUT 0 0)])) [Some (0, 0)];
    mk_node (NComb (KRewire [mk_range 1 (RW_INPUT 0 0)])) [Some (1, 0)];
    mk_node (NComb (KArith A_ADD 1)) [Some (4, 0); Some (5, 0)];
    mk_node (NComb (KForward FW_SIGNAL 1)) [Some (6, 0)];
    mk_node (NComb (KForward FW_SIGNAL 1)) [Some (3, 0)];
    mk_node (NPinOut 1) [Some (8, 0)] ].
Definition ex_sched : schedule := mk_sched [[EvReset true]; [EvEdge; EvReset false]] [EvEdge].
Definition ex_ws : list nat := [1; 1; 1].

(* certificate: the product states reachable per cycle, computed by unfolding the product step
   (what the unverified search of the OCaml driver does); the verified checker then decides *)
Definition step_set (A B : netlist) (evs : list event) (cur : list pstate) : list pstate :=
  flat_map (fun s => map (fun i => pnext MRefine A B evs s i) (all_ins ex_ws)) cur.
Fixpoint dedup (l : list pstate) : list pstate :=
  match l with
  | [] => []
  | x :: r => if existsb (pstate_eqb x) r then dedup r else x :: dedup r
  end.
Definition ex_layers (A B : netlist) : list (list pstate) :=
  let l0 := [p_init A B ex_sched] in
  let l1 := dedup (step_set A B (sched_at ex_sched 1) l0) in
  let l2 := dedup (step_set A B (sched_at ex_sched 2) l1) in
  let l3 := dedup (l2 ++ step_set A B [EvEdge] l2) in
  let l4 := dedup (l3 ++ step_set A B [EvEdge] l3) in
  [l0; l1; l4].

Example ex_vhdl_accepted : check_cert MRefine exD_wired exL ex_sched ex_ws (ex_layers exD_wired exL) = true.
Proof. vm_compute. reflexivity. Qed.
Example ex_vhdl_inverted_reset_rejected : check_cert MRefine exD_wired exL_bad ex_sched ex_ws (ex_layers exD_wired exL_bad) = false.
Proof. vm_compute. reflexivity. Qed.

(* ---- the lifter's node patterns compute the two-valued VHDL operators (VhdlSemDefs / VhdlSemProofs) ----
   vec w v = the two-valued vector of length w holding v.  For operands of EVERY length: *)
From Coq Require Import NArith.
From Gatery Require Import VhdlSemDefs VhdlSemProofs NodeSemSpec.

(* UNSIGNED "+": zero-extend both operands to max(len) and add modulo 2^max(len)  (numeric_std) *)
Theorem C02_lift_add : forall wa wb a b, (a < p2 wa)%N -> (b < p2 wb)%N ->
  lift_add wa wb (vec wa a) (vec wb b) = vecp (ns_add wa wb a b).
Proof. exact lift_add_sound. Qed.
Print Assumptions C02_lift_add.

Theorem C02_lift_sub : forall wa wb a b, (a < p2 wa)%N -> (b < p2 wb)%N ->
  lift_sub wa wb (vec wa a) (vec wb b) = vecp (ns_sub wa wb a b).
Proof. exact lift_sub_sound. Qed.
Print Assumptions C02_lift_sub.

(* UNSIGNED "*": result length = sum of the lengths, the exact product *)
Theorem C02_lift_mul : forall wa wb a b, (a < p2 wa)%N -> (b < p2 wb)%N ->
  lift_mul wa wb (vec wa a) (vec wb b) = vecp (ns_mul wa wb a b).
Proof. exact lift_mul_sound. Qed.
Print Assumptions C02_lift_mul.

(* RESIZE: truncation keeps the low bits, extension pads zeros *)
Theorem C02_lift_resize : forall w n v, (v < p2 w)%N -> lift_resize w n (vec w v) = vecp (ns_resize n v).
Proof. exact lift_resize_sound. Qed.
Print Assumptions C02_lift_resize.

(* a & b: the left operand is the most significant part *)
Theorem C02_lift_concat : forall wa wb a b, (b < p2 wb)%N ->
  lift_concat wa wb (vec wa a) (vec wb b) = vecp (vh_concat wa wb a b).
Proof. exact lift_concat_sound. Qed.
Print Assumptions C02_lift_concat.

(* x(hi downto lo) and x(i) *)
Theorem C02_lift_slice : forall w v hi lo, lo <= hi -> hi < w ->
  lift_slice hi lo (vec w v) = vecp (vh_slice hi lo v).
Proof. exact lift_slice_sound. Qed.
Print Assumptions C02_lift_slice.

Theorem C02_lift_index : forall w v i, i < w -> lift_index i (vec w v) = [of_bool (vh_index i v)].
Proof. exact lift_index_sound. Qed.
Print Assumptions C02_lift_index.

(* = /= < <= > >= on UNSIGNED of any two lengths: the numeric comparison *)
Theorem C02_lift_rel : forall op wa wb a b, (a < p2 wa)%N -> (b < p2 wb)%N ->
  lift_rel op wa wb (vec wa a) (vec wb b) = [of_bool (cmp_N op a b)].
Proof. exact lift_rel_sound. Qed.
Print Assumptions C02_lift_rel.

(* SHIFT_LEFT / SHIFT_RIGHT (x, to_integer(n)): zero fill, length unchanged *)
Theorem C02_lift_shift_left : forall w wn a n, (a < p2 w)%N -> (n < p2 wn)%N -> wn <= 64 ->
  lift_shl w (vec w a) (vec wn n) = vecp (ns_shift_left w a n).
Proof. exact lift_shl_sound. Qed.
Print Assumptions C02_lift_shift_left.

Theorem C02_lift_shift_right : forall w wn a n, (a < p2 w)%N -> (n < p2 wn)%N -> wn <= 64 ->
  lift_shr w (vec w a) (vec wn n) = vecp (ns_shift_right w a n).
Proof. exact lift_shr_sound. Qed.
Print Assumptions C02_lift_shift_right.

(* IF c THEN t ELSE e;  CASE sel IS WHEN "0.." => d0 .. WHEN OTHERS: the selected branch; a selector
   value without WHEN branch (non-total mux) gives the all-X of OTHERS *)
Theorem C02_lift_if : forall w c t e, length t = w -> length e = w -> lift_if w c t e = if c then t else e.
Proof. exact lift_if_sound. Qed.
Print Assumptions C02_lift_if.

Theorem C02_lift_case : forall n w ws s ds, (s < p2 ws)%N -> length ds = n -> Forall (fun d => length d = w) ds ->
  lift_case n w (vec ws s) ds = if (N.of_nat n <=? s)%N then all_X w else nth (N.to_nat s) ds (all_X w).
Proof. exact lift_case_sound. Qed.
Print Assumptions C02_lift_case.

(* and or xor nand nor xnor not on vectors: bit-wise *)
Theorem C02_lift_logic : forall op w a b, (a < p2 w)%N -> (b < p2 w)%N ->
  eval (KLogic op w) [Some (vec w a); Some (vec w b)] = [vec w (logic_N op w a b)].
Proof. exact lift_logic_sound. Qed.
Print Assumptions C02_lift_logic.

(* non-vacuity: mixed-length addition "011" + "11111" = "00010" (3 + 31 mod 32), product "11" * "111" = "10101" *)
Example ex_add_mixed : lift_add 3 5 (vec 3 3) (vec 5 31) = vec 5 2.
Proof. vm_compute. reflexivity. Qed.
Example ex_mul_full : lift_mul 2 3 (vec 2 3) (vec 3 7) = vec 5 21.
Proof. vm_compute. reflexivity. Qed.
Example ex_slice : lift_slice 3 1 (vec 5 22) = vec 3 3.      (* "10110"(3 downto 1) = "011" *)
Proof. vm_compute. reflexivity. Qed.
