(* C18 -- "The four-state bit-vector container behaves like a plain array of bits".
   Property theorems: statements only; every proof is `exact <lemma>` with the lemma proved in
   Bvs*.v.  Model: BvsDefs.v (word level, follows the C++), specification: BvsSpec.v (list bool).

   Reading guide: [abs s] = the planes of s as lists of bits 0..size-1;  [wf] = representation
   invariant (ceil(size/64) words per plane, all < 2^64);  [clean] = bits >= size are zero.
   Every mutator equation has the form  abs (op s ..) = splice-based spec (abs s) ..  for ALL
   sizes, offsets, lengths and contents, under exactly the stated in-bounds precondition, so it
   also says that no other bit of any plane changes. *)
From Coq Require Import List NArith ZArith Bool Ascii String.
From Gatery Require Import Bits BvsDefs BvsSpec BvsLeaf BvsWords BvsCopy BvsAbs BvsOps BvsEq
     BvsQuery BvsCmp BvsMerge BvsBig BvsMore BvsSeq BvsText BvsParse BvsRound.
Import ListNotations.
Local Open Scope N_scope.

(* ---------------- BitManipulation.h leaves ---------------- *)
Theorem C18_bitMaskRange : forall start count i,
  N.testbit (bitMaskRange start count) i = (i <? 64) && ((start <=? i) && (i - start <? count)).
Proof. exact tb_bitMaskRange. Qed.
Print Assumptions C18_bitMaskRange.

Theorem C18_bitMaskRange_value : forall start count,
  start + count <= 64 -> bitMaskRange start count = (2 ^ count - 1) * 2 ^ start.
Proof. exact bitMaskRange_value. Qed.
Print Assumptions C18_bitMaskRange_value.
Example ex_bitMaskRange : bitMaskRange 60 4 = 0xF000000000000000 /\ bitMaskRange 0 64 = N.ones 64 /\ bitMaskRange 3 0 = 0.
Proof. repeat split. Qed.

Theorem C18_bitfieldExtract : forall a start count i,
  start < 256 -> count < 256 ->
  N.testbit (bitfieldExtract a start count) i = (i <? 64) && (i <? count) && N.testbit a (i + start).
Proof. exact tb_bitfieldExtract. Qed.
Print Assumptions C18_bitfieldExtract.

Theorem C18_bitfieldInsert : forall a start count v i,
  lt64 a ->
  N.testbit (bitfieldInsert a start count v) i
  = if (i <? 64) && (start <=? i) && (i - start <? count) then N.testbit v (i - start) else N.testbit a i.
Proof. exact tb_bitfieldInsert. Qed.
Print Assumptions C18_bitfieldInsert.
Example ex_bitfield : bitfieldInsert 0xFFFF 4 8 0xA5 = 0xFA5F /\ bitfieldExtract 0xFA5F 4 8 = 0xA5.
Proof. split; reflexivity. Qed.

(* ---------------- a non-trivial well-formed state for the examples ---------------- *)
Definition ex_s : bvs := insertW (setRange (resize (mk_empty 2) 130) DEFINED 0 130 true) VALUE 60 10 1023.
Example ex_s_wf : wf ex_s /\ clean ex_s /\ bsize ex_s = 130 /\ length (planes ex_s) = 2%nat.
Proof.
  assert (W0 : wf (resize (mk_empty 2) 130)) by (apply wf_resize; apply (good_empty 2)).
  assert (C0 : clean (resize (mk_empty 2) 130)) by (apply clean_resize; apply (good_empty 2)).
  repeat split.
  - apply wf_insertW, wf_setRange, W0.
  - apply clean_insertW; [apply wf_setRange, W0 | apply clean_setRange; [exact W0 | exact C0 | vm_compute; discriminate]
                          | vm_compute; discriminate | vm_compute; discriminate].
Qed.
(* it really straddles the 63/64 word border *)
Example ex_s_bits : extractW ex_s VALUE 58 8 = 0xFC /\ plane ex_s VALUE = [0xF000000000000000; 0x3F; 0].
Proof. split; vm_compute; reflexivity. Qed.

(* ---------------- resize ---------------- *)
Theorem C18_resize : forall s n, wf s -> clean s -> abs (resize s n) = resize_spec (abs s) n.
Proof. exact abs_resize. Qed.
Print Assumptions C18_resize.

Theorem C18_resize_establishes_invariant : forall s n, wf s -> wf (resize s n) /\ clean (resize s n).
Proof. exact (fun s n H => conj (wf_resize s n H) (clean_resize s n H)). Qed.
Print Assumptions C18_resize_establishes_invariant.

Theorem C18_resize_keeps_prefix : forall s n, wf s ->
  map (firstn (N.to_nat (N.min n (bsize s)))) (abs (resize s n))
  = map (firstn (N.to_nat (N.min n (bsize s)))) (abs s).
Proof. exact abs_resize_prefix. Qed.
Print Assumptions C18_resize_keeps_prefix.

(* ---------------- single bits ---------------- *)
Theorem C18_get : forall s p i,
  (p < length (planes s))%nat -> i < bsize s -> get s p i = get_spec (abs s) p i.
Proof. exact get_abs. Qed.
Print Assumptions C18_get.

Theorem C18_set : forall s p i b, wf s -> i < bsize s -> abs (setb s p i b) = setb_spec (abs s) p i b.
Proof. exact abs_setb. Qed.
Print Assumptions C18_set.

Theorem C18_set1 : forall s p i, wf s -> i < bsize s -> abs (set1 s p i) = setb_spec (abs s) p i true.
Proof. exact abs_set1. Qed.
Print Assumptions C18_set1.

Theorem C18_clear : forall s p i, wf s -> i < bsize s -> abs (clear1 s p i) = setb_spec (abs s) p i false.
Proof. exact abs_clear1. Qed.
Print Assumptions C18_clear.

Theorem C18_toggle : forall s p i, wf s -> i < bsize s -> abs (toggle s p i) = toggle_spec (abs s) p i.
Proof. exact abs_toggle. Qed.
Print Assumptions C18_toggle.

(* ---------------- setRange / clearRange ---------------- *)
Theorem C18_setRange : forall s p off size b,
  wf s -> off + size <= bsize s ->
  abs (setRange s p off size b) = setRange_spec (abs s) p off size b.
Proof. exact abs_setRange. Qed.
Print Assumptions C18_setRange.
Example ex_setRange : wf ex_s /\ 61 + 69 <= bsize ex_s.   (* head + body + tail, ends at size *)
Proof. split; [apply ex_s_wf | vm_compute; discriminate]. Qed.

(* ---------------- insert / extract of <= 64 bits at any offset ---------------- *)
Theorem C18_insert_word : forall s p off size v,
  wf s -> size <= 64 -> off + size <= bsize s ->
  abs (insertW s p off size v) = insertW_spec (abs s) p off size v.
Proof. exact abs_insertW. Qed.
Print Assumptions C18_insert_word.

Theorem C18_extract_word : forall s p off size,
  wf s -> (p < length (planes s))%nat -> size <= 64 -> off + size <= bsize s ->
  extractW s p off size = extractW_spec (abs s) p off size.
Proof. exact extractW_abs. Qed.
Print Assumptions C18_extract_word.
Example ex_word : wf ex_s /\ (VALUE < length (planes ex_s))%nat /\ 64 <= 64 /\ 63 + 64 <= bsize ex_s.
Proof. repeat split; try apply ex_s_wf; vm_compute; try discriminate; auto. Qed.

Theorem C18_insertNonStraddling : forall s p off size v,
  wf s -> off mod 64 + size <= 64 -> off + size <= bsize s ->
  abs (insertNS s p off size v) = insertW_spec (abs s) p off size v.
Proof. exact abs_insertNS. Qed.
Print Assumptions C18_insertNonStraddling.

Theorem C18_extractNonStraddling : forall s p off size,
  wf s -> (p < length (planes s))%nat -> off mod 64 + size <= 64 -> off + size <= bsize s ->
  extractNS s p off size = extractW_spec (abs s) p off size.
Proof. exact extractNS_abs. Qed.
Print Assumptions C18_extractNonStraddling.

(* ---------------- copyRange / extract(state) / insert(state) / append / == ---------------- *)
Theorem C18_copyRange : forall d dOff s sOff size,
  wf d -> wf s -> dOff + size <= bsize d -> sOff + size <= bsize s ->
  abs (copyRange d dOff s sOff size) = copyRange_spec (abs d) dOff (abs s) sOff size.
Proof. exact abs_copyRange. Qed.
Print Assumptions C18_copyRange.
Example ex_copyRange : wf ex_s /\ 1 + 129 <= bsize ex_s /\ 0 + 129 <= bsize ex_s.
Proof. repeat split; try apply ex_s_wf; vm_compute; discriminate. Qed.

Theorem C18_extract_state : forall s start size,
  wf s -> start + size <= bsize s ->
  abs (extractS s start size) = extractS_spec (abs s) start size.
Proof. exact abs_extractS. Qed.
Print Assumptions C18_extract_state.

Theorem C18_insert_state : forall d st off size,
  wf d -> wf st -> bsize st + off <= bsize d -> size <= bsize st ->
  abs (insertS d st off size) = insertS_spec (abs d) (abs st) off size.
Proof. exact abs_insertS. Qed.
Print Assumptions C18_insert_state.

Theorem C18_append : forall d s, wf d -> wf s -> abs (append d s) = append_spec (abs d) (abs s).
Proof. exact abs_append. Qed.
Print Assumptions C18_append.

Theorem C18_equal : forall a b,
  wf a -> wf b -> length (planes a) = length (planes b) -> planes a <> [] ->
  eqS a b = eq_spec (abs a) (abs b).
Proof. exact eqS_abs. Qed.
Print Assumptions C18_equal.
Example ex_equal : eqS ex_s (extractS (append ex_s ex_s) 130 130) = true.
Proof. vm_compute. reflexivity. Qed.

(* operator== returns true iff the sizes are equal and every plane is bit-wise equal *)
Theorem C18_equal_iff : forall a b,
  wf a -> wf b -> length (planes a) = length (planes b) -> planes a <> [] ->
  (eqS a b = true <-> bsize a = bsize b /\ abs a = abs b).
Proof. exact eqS_true_iff. Qed.
Print Assumptions C18_equal_iff.
(* sizes that are multiples of 64 with a difference only in the last block *)
Example ex_equal_last_block :
  eqS (st_defined 64 0x0123456789ABCDEF) (st_defined 64 0xFEDCBA9876543210) = false
  /\ eqS {| bsize := 128; planes := [[5; 1]; [0; 0]] |} {| bsize := 128; planes := [[5; 0x8000000000000001]; [0; 0]] |} = false
  /\ eqS {| bsize := 128; planes := [[5; 1]; [0; 0]] |} {| bsize := 128; planes := [[5; 1]; [0; 0]] |} = true.
Proof. repeat split; vm_compute; reflexivity. Qed.

(* ---------------- whole-object operations and views ---------------- *)
Theorem C18_clear_then_resize : forall s n,
  let r := clearResize s n in
  wf r /\ clean r /\ bsize r = n /\ length (planes r) = length (planes s)
  /\ abs r = clearResize_spec (abs s) n.
Proof. exact clearResize_all. Qed.
Print Assumptions C18_clear_then_resize.

Theorem C18_head : forall s p,
  wf s -> (p < length (planes s))%nat -> bsize s <= 64 -> head s p = head_spec (abs s) p.
Proof. exact head_abs. Qed.
Print Assumptions C18_head.

Theorem C18_allDefinedNonStraddling : forall s start size,
  wf s -> (DEFINED < length (planes s))%nat -> start mod 64 + size <= 64 -> start + size <= bsize s ->
  allDefinedNS s start size = allDefinedNS_spec (abs s) start size.
Proof. exact allDefinedNS_abs. Qed.
Print Assumptions C18_allDefinedNonStraddling.

Theorem C18_asBytes : forall s p,
  wf s -> clean s -> (p < length (planes s))%nat -> bytesToN (asBytes s p) = asBytes_spec (abs s) p.
Proof. exact asBytes_abs. Qed.
Print Assumptions C18_asBytes.

(* operator==(state, span of bytes): exception unless size = 8 * #bytes, else
   "all bits defined and the VALUE plane is the concatenation of the bytes" *)
Theorem C18_equal_bytes : forall s bytes,
  wf s -> (DEFINED < length (planes s))%nat -> bsize s <= size_max ->
  Forall (fun b => b < 256) bytes ->
  eqBytes s bytes = eqBytes_spec (abs s) bytes.
Proof. exact eqBytes_abs. Qed.
Print Assumptions C18_equal_bytes.
Example ex_equal_bytes :
  eqBytes (st_defined 24 0x030201) [1; 2; 3] = Some true /\ eqBytes (st_defined 24 0x830201) [1; 2; 3] = Some false
  /\ eqBytes (st_defined 16 0x0201) [1; 2; 3] = None.
Proof. repeat split; vm_compute; reflexivity. Qed.

(* range(plane, offset, size): reading all chunks / assigning all chunks through the iterator *)
Theorem C18_iterator_read : forall s p off size,
  wf s -> (p < length (planes s))%nat -> off + size <= bsize s ->
  iterRead s p off size = iterRead_spec (abs s) p off size.
Proof. exact iterRead_abs. Qed.
Print Assumptions C18_iterator_read.

Theorem C18_iterator_write : forall s p off size v,
  wf s -> off + size <= bsize s ->
  abs (iterWrite s p off size v) = iterWrite_spec (abs s) p off size v.
Proof. exact abs_iterWrite. Qed.
Print Assumptions C18_iterator_write.
(* copy-assignment, swap and move are the constructors OAssign / OSwap / OMove of [op]; their
   equations are part of C18_step / C18_sequences *)

(* ---------------- range queries ---------------- *)
Theorem C18_compareRange_default : forall d dOff s sOff size,
  wf d -> wf s -> (DEFINED < length (planes d))%nat -> (DEFINED < length (planes s))%nat ->
  dOff + size <= bsize d -> sOff + size <= bsize s ->
  compareRangeD d dOff s sOff size = compareRangeD_spec (abs d) dOff (abs s) sOff size.
Proof. exact compareRangeD_abs. Qed.
Print Assumptions C18_compareRange_default.

Theorem C18_compareRange_extended : forall d dOff s sOff size,
  wf d -> wf s -> (HIGH_IMPEDANCE < length (planes d))%nat -> (HIGH_IMPEDANCE < length (planes s))%nat ->
  dOff + size <= bsize d -> sOff + size <= bsize s ->
  compareRangeX d dOff s sOff size = compareRangeX_spec (abs d) dOff (abs s) sOff size.
Proof. exact compareRangeX_abs. Qed.
Print Assumptions C18_compareRange_extended.

Theorem C18_allOne : forall s p start size,
  wf s -> (p < length (planes s))%nat -> start <= bsize s ->
  allOne s p start size = allOne_spec (abs s) p start size.
Proof. exact allOne_abs. Qed.
Print Assumptions C18_allOne.

Theorem C18_allZero : forall s p start size,
  wf s -> (p < length (planes s))%nat -> start <= bsize s ->
  allZero s p start size = allZero_spec (abs s) p start size.
Proof. exact allZero_abs. Qed.
Print Assumptions C18_allZero.

Theorem C18_anyDefined : forall s start size,
  wf s -> (DEFINED < length (planes s))%nat -> start <= bsize s ->
  anyDefined s start size = anyDefined_spec (abs s) start size.
Proof. exact anyDefined_abs. Qed.
Print Assumptions C18_anyDefined.

Theorem C18_compareValues : forall a b sa sb size,
  (DEFINED < length (planes a))%nat -> (DEFINED < length (planes b))%nat ->
  sa + size <= bsize a -> sb + size <= bsize b ->
  compareValues a sa b sb size = compareValues_spec (abs a) sa (abs b) sb size.
Proof. exact compareValues_abs. Qed.
Print Assumptions C18_compareValues.

Theorem C18_equalOnDefinedValues : forall a b sa sb size,
  (DEFINED < length (planes a))%nat -> (DEFINED < length (planes b))%nat ->
  sa + size <= bsize a -> sb + size <= bsize b ->
  equalOnDefinedValues a sa b sb size = equalOnDefined_spec (abs a) sa (abs b) sb size.
Proof. exact equalOnDefined_abs. Qed.
Print Assumptions C18_equalOnDefinedValues.

Theorem C18_canBeReplacedWith : forall a b sa sb size,
  (DEFINED < length (planes a))%nat -> (DEFINED < length (planes b))%nat ->
  sa <= bsize a ->
  (let n := if size =? size_max then bsize a - sa else size in sa + n <= bsize a /\ sb + n <= bsize b) ->
  canBeReplacedWith a b sa sb size = canBeReplaced_spec (abs a) (abs b) sa sb size.
Proof. exact canBeReplaced_abs. Qed.
Print Assumptions C18_canBeReplacedWith.

Theorem C18_mergeUndefinedSelection : forall dst sd src ss size,
  wf dst -> clean dst -> wf src ->
  (DEFINED < length (planes dst))%nat -> (DEFINED < length (planes src))%nat ->
  sd + size <= bsize dst -> ss + size <= bsize src ->
  let r := mergeUndefinedSelection dst sd src ss size in
  wf r /\ clean r /\ bsize r = bsize dst /\ length (planes r) = length (planes dst)
  /\ abs r = merge_spec (abs dst) sd (abs src) ss size.
Proof. exact merge_all. Qed.
Print Assumptions C18_mergeUndefinedSelection.

(* ---------------- BigInt ---------------- *)
Theorem C18_insertBigInt : forall s off size v,
  wf s -> off + size <= bsize s -> (size <= 64 \/ off mod 64 = 0) ->
  abs (insertBigInt s off size v) = insertBigInt_spec (abs s) off size v.
Proof. exact abs_insertBigInt. Qed.
Print Assumptions C18_insertBigInt.

Theorem C18_extractBigInt : forall s off size,
  wf s -> (VALUE < length (planes s))%nat -> off + size <= bsize s -> (size <= 64 \/ off mod 64 = 0) ->
  extractBigInt s off size = extractBigInt_spec (abs s) off size.
Proof. exact extractBigInt_abs. Qed.
Print Assumptions C18_extractBigInt.

Theorem C18_bigint_roundtrip : forall s off n z,
  wf s -> (VALUE < length (planes s))%nat -> off + n <= bsize s -> (n <= 64 \/ off mod 64 = 0) ->
  extractBigInt (insertBigInt s off n z) off n = (z mod 2 ^ Z.of_N n)%Z.
Proof. exact bigint_roundtrip. Qed.
Print Assumptions C18_bigint_roundtrip.
Example ex_bigint : extractBigInt (insertBigInt ex_s 64 66 (-5)) 64 66 = (2 ^ 66 - 5)%Z
                    /\ extractBigInt (insertBigInt ex_s 61 9 (-3)) 61 9 = 509%Z.
Proof. split; vm_compute; reflexivity. Qed.

(* ---------------- operation sequences ---------------- *)
Theorem C18_step : forall np nr, (np = 2 \/ np = 4)%nat -> forall o rs,
  length rs = nr -> inv np rs -> op_ok np nr o (map bsize rs) = true ->
  inv np (fst (step np o rs)) /\ length (fst (step np o rs)) = nr
  /\ map bsize (fst (step np o rs)) = op_sizes o (map bsize rs)
  /\ map abs (fst (step np o rs)) = fst (step_spec np o (map abs rs))
  /\ snd (step np o rs) = snd (step_spec np o (map abs rs)).
Proof. exact step_correct. Qed.
Print Assumptions C18_step.

Theorem C18_sequences : forall np nr, (np = 2 \/ np = 4)%nat -> forall ops rs,
  length rs = nr -> inv np rs -> ops_ok np nr ops (map bsize rs) = true ->
  map abs (fst (run np ops rs)) = fst (run_spec np ops (map abs rs))
  /\ snd (run np ops rs) = snd (run_spec np ops (map abs rs))
  /\ inv np (fst (run np ops rs)).
Proof. exact run_correct. Qed.
Print Assumptions C18_sequences.

(* a straddling multi-operation sequence meets every precondition *)
Definition ex_ops : list op :=
  [ OResize 0 130; OResize 1 200;
    OSetRange 0 1 61 69 true;                 (* head + body + tail, up to the last bit *)
    OInsertW 0 0 60 10 1023;                  (* straddles words 0/1 *)
    OCopyRange 1 61 0 3 127;                  (* unaligned, 2 chunks, both sides straddle *)
    OCopyRange 1 8 0 0 130;                   (* byte path (16 bytes) + 2 remaining bits *)
    OExtractW 1 0 120 16;                     (* straddles words 1/2 *)
    OInsertBig 0 64 66 (-5)%Z;                (* chunk path, negative *)
    OExtractBig 0 64 66;
    OExtractS 1 0 3 127; OAppend 1 0; OInsertS 1 0 1 0;
    OCompareRange 1 1 0 0 130; OEq 0 1; OAllOne 0 1 61 size_max; OMerge 1 3 0 1 129;
    OToggle 1 1 256; OGet 1 1 256 ].
Example ex_ops_ok : ops_ok 2 2 ex_ops (map bsize [mk_empty 2; mk_empty 2]) = true.
Proof. vm_compute. reflexivity. Qed.
Example ex_ops_inv : length [mk_empty 2; mk_empty 2] = 2%nat /\ inv 2 [mk_empty 2; mk_empty 2].
Proof.
  split; [reflexivity|]. constructor; [apply (good_empty 2) | constructor; [apply (good_empty 2) | constructor]].
Qed.
Example ex_ops_run :
  snd (run 2 ex_ops [mk_empty 2; mk_empty 2])
  = snd (run_spec 2 ex_ops (map abs [mk_empty 2; mk_empty 2])).
Proof. apply (C18_sequences 2 2 (or_introl eq_refl) ex_ops _ (proj1 ex_ops_inv) (proj2 ex_ops_inv) ex_ops_ok). Qed.

(* ---------------- text ---------------- *)
Theorem C18_print_binary : forall s,
  wf s -> (DEFINED < length (planes s))%nat -> printState false s = print_spec (abs s).
Proof. exact printState_bin_abs. Qed.
Print Assumptions C18_print_binary.

(* literals "b..", "x..", "o.." without width prefix: bit j of plane p of the result is bit (j mod bps)
   of digit number (j / bps) counted from the right ([digits_spec]); x/X digits are undefined *)
Theorem C18_parse_binary_literal : forall body,
  bin_body body = true ->
  exists s, parseBitVector ("b"%char :: body) = Some s /\ wf s /\ clean s
            /\ bsize s = N.of_nat (length body) /\ abs s = digits_spec 1 body.
Proof. exact parse_binary_literal. Qed.
Print Assumptions C18_parse_binary_literal.

Theorem C18_parse_hex_literal : forall body,
  hex_body body = true ->
  exists s, parseBitVector ("x"%char :: body) = Some s /\ wf s /\ clean s
            /\ bsize s = N.of_nat (length body) * 4 /\ abs s = digits_spec 4 body.
Proof. exact parse_hex_literal. Qed.
Print Assumptions C18_parse_hex_literal.

(* octal: any number of digits (digits may straddle 64-bit word borders; literals of 22 or more
   digits were rejected before /repo 659d324) *)
Theorem C18_parse_octal_literal : forall body,
  oct_body body = true ->
  exists s, parseBitVector ("o"%char :: body) = Some s /\ wf s /\ clean s
            /\ bsize s = N.of_nat (length body) * 3 /\ abs s = digits_spec 3 body.
Proof. exact parse_octal_literal. Qed.
Print Assumptions C18_parse_octal_literal.
Example ex_parse_octal_long :
  oct_body (list_ascii_of_string "1234567012345670123456701234567012345670123") = true
  /\ option_map bsize (parseBitVector (list_ascii_of_string "o0000000000000000000000")) = Some 66.
Proof. split; vm_compute; reflexivity. Qed.
Example ex_parse : hex_body (list_ascii_of_string "fX09") = true
                   /\ digits_spec 4 (list_ascii_of_string "A5") = [[true;false;true;false; false;true;false;true]; repeat true 8].
Proof. split; vm_compute; reflexivity. Qed.

(* formatState(base 16, dropLeadingZeros = false) on a state whose size is a multiple of 4: the hex
   digit string of the bit array, most significant nibble first, 'X' for a nibble with an undefined bit *)
Theorem C18_formatState_hex : forall s,
  wf s -> (DEFINED < length (planes s))%nat -> bsize s mod 4 = 0 ->
  formatState s 16 false = formatHex_spec (abs s).
Proof. exact formatState_hex_abs. Qed.
Print Assumptions C18_formatState_hex.
Example ex_formatState_hex :
  formatState (st_defined 16 171) 16 true = list_ascii_of_string "AB"
  /\ formatState (st_defined 16 4113) 16 true = list_ascii_of_string "1011"
  /\ formatState (st_defined 12 416) 16 false = list_ascii_of_string "1A0"
  /\ formatState (st_defined 12 2816) 16 false = list_ascii_of_string "B00"
  /\ formatState (st_defined 16 171) 16 false = list_ascii_of_string "00AB".
Proof. exact formatState_hex_regression. Qed.

(* parse (print s) = the same 0/1/X array (the VALUE bit under an undefined position is not
   preserved by the text form, hence the comparison of the four-state views) *)
Theorem C18_parse_print_roundtrip : forall s,
  wf s -> length (planes s) = 2%nat ->
  exists s', parseBitVector ("b"%char :: printState false s) = Some s'
             /\ wf s' /\ bsize s' = bsize s /\ tview (abs s') = tview (abs s).
Proof. exact parse_print_roundtrip. Qed.
Print Assumptions C18_parse_print_roundtrip.
Example ex_roundtrip : wf ex_s /\ length (planes ex_s) = 2%nat.
Proof. split; apply ex_s_wf. Qed.

(* ---------------- necessity of a hypothesis; all three deviations found while building this check
   (formatState decimal digits, createRandom* tail bits, long octal literals) are repaired in /repo
   and regression-probed by checks/C18.py ---------------- *)
(* the `clean` hypothesis of C18_resize cannot be dropped (no modelled operation produces an unclean
   state; createRandom*DefaultBitVectorState used to, repaired in /repo 0690f16 and regression-probed) *)
Theorem C18_resize_clean_hypothesis_necessary :
  wf st_dirty /\ wf st_cleaned /\ abs st_dirty = abs st_cleaned /\ eqS st_dirty st_cleaned = true
  /\ abs (resize st_dirty 20) <> resize_spec (abs st_dirty) 20
  /\ eqS (resize st_dirty 20) (resize st_cleaned 20) = false.
Proof. exact resize_clean_hypothesis_necessary. Qed.
Print Assumptions C18_resize_clean_hypothesis_necessary.
