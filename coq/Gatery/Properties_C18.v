(* C18 -- property theorems (statements only; proofs live in Bvs*.v). *)
From Coq Require Import List NArith ZArith Bool.
From Gatery Require Import Bits BvsDefs BvsSpec BvsLeaf BvsWords BvsCopy BvsAbs BvsOps.
Import ListNotations.
Local Open Scope N_scope.

Theorem C18_setRange : forall s p off size b,
  wf s -> off + size <= bsize s ->
  abs (setRange s p off size b) = setRange_spec (abs s) p off size b.
Proof. exact abs_setRange. Qed.
Print Assumptions C18_setRange.
