(* C03 at node level, part 3: Node_Shift (dynamic amount) and Node_Rewire. *)
From Gatery Require Import Bits NodeSemDefs NodeSemBits.
Import ListNotations.

(* ================================================================== *)
(* Shift                                                                 *)

(* the bit-vector definition: output bit i of shifting / rotating x (w bits) by a *)
Definition shift_spec_bit (d : shift_dir) (f : shift_fill) (w : nat) (x : bv) (a : N) (i : nat) : tbit :=
  match f with
  | F_ROTATE =>
      let r := N.to_nat (a mod N.of_nat w)%N in
      match d with
      | SH_LEFT => bv_get x ((i + w - r) mod w)
      | SH_RIGHT => bv_get x ((i + r) mod w)
      end
  | _ =>
      let fill := shift_fillbit d f w x in      (* 0, 1, or the first / last bit of x *)
      match d with
      | SH_LEFT => if (N.of_nat i <? a)%N then fill else bv_get x (i - N.to_nat a)
      | SH_RIGHT => if (N.of_nat i + a <? N.of_nat w)%N then bv_get x (i + N.to_nat a) else fill
      end
  end.

Lemma rot_left_index i w r : i < w -> r < w -> (i + w - r) mod w = if i <? r then w - r + i else i - r.
Proof.
  intros Hi Hr. destruct (Nat.ltb_spec i r) as [H|H].
  - rewrite Nat.mod_small by lia. lia.
  - symmetry. apply Nat.mod_unique with (q := 1); lia.
Qed.

Lemma rot_right_index i w r : i < w -> r < w -> (i + r) mod w = if i <? w - r then i + r else i - (w - r).
Proof.
  intros Hi Hr. destruct (Nat.ltb_spec i (w - r)) as [H|H].
  - rewrite Nat.mod_small by lia. lia.
  - symmetry. apply Nat.mod_unique with (q := 1); lia.
Qed.

Lemma shift_core_spec d f w x a :
  shift_core d f w x a = bv_build w (shift_spec_bit d f w x a).
Proof.
  unfold shift_core.
  destruct (N.leb_spec (N.of_nat w) a) as [Hge|Hlt]; destruct (is_rotate f) eqn:Hrot; cbn [andb negb].
  - (* rotate, a >= w *)
    destruct (Nat.eqb_spec w 0) as [->|Hw]; [reflexivity|].
    destruct f; try discriminate. unfold shift_spec_bit.
    assert (Hr : N.to_nat (a mod N.of_nat w) < w).
    { pose proof (N.mod_lt a (N.of_nat w)). lia. }
    destruct d; apply bv_build_ext; intros i Hi; cbv beta.
    + rewrite rot_left_index by assumption. destruct (i <? N.to_nat (a mod N.of_nat w)); reflexivity.
    + rewrite rot_right_index by assumption. destruct (i <? w - N.to_nat (a mod N.of_nat w)); reflexivity.
  - (* fill everything *)
    rewrite <- bv_build_repeat. apply bv_build_ext. intros i Hi. unfold shift_spec_bit.
    destruct f; try discriminate; destruct d;
      try (replace (N.of_nat i <? a)%N with true by (symmetry; apply N.ltb_lt; lia); reflexivity);
      (replace (N.of_nat i + a <? N.of_nat w)%N with false by (symmetry; apply N.ltb_ge; lia); reflexivity).
  - (* rotate, a < w *)
    destruct (Nat.eqb_spec w 0) as [->|Hw]; [reflexivity|].
    destruct f; try discriminate. unfold shift_spec_bit.
    assert (Hr : N.to_nat (a mod N.of_nat w) < w).
    { pose proof (N.mod_lt a (N.of_nat w)). lia. }
    destruct d; apply bv_build_ext; intros i Hi; cbv beta.
    + rewrite rot_left_index by assumption. destruct (i <? N.to_nat (a mod N.of_nat w)); reflexivity.
    + rewrite rot_right_index by assumption. destruct (i <? w - N.to_nat (a mod N.of_nat w)); reflexivity.
  - (* proper shift, a < w *)
    destruct (Nat.eqb_spec w 0) as [->|Hw]; [reflexivity|].
    rewrite N.mod_small by exact Hlt.
    destruct d; apply bv_build_ext; intros i Hi; unfold shift_spec_bit; destruct f; try discriminate;
      cbv beta iota zeta.
    all: try (destruct (Nat.ltb_spec i (N.to_nat a)); destruct (N.ltb_spec (N.of_nat i) a); try lia; reflexivity).
    all: destruct (Nat.ltb_spec i (w - N.to_nat a)); destruct (N.ltb_spec (N.of_nat i + a) (N.of_nat w)); try lia; reflexivity.
Qed.

(* For every width and every fully defined amount (amount width <= 64): the bit-vector
   definition, bit by bit, including undefined operand bits (they are moved, not spread). *)
Theorem eval_shift_spec d f w x amt a :
  length amt <= 64 -> bv_val amt = Some a ->
  eval (KShift d f w) [Some x; Some amt] = [bv_build w (shift_spec_bit d f w x a)].
Proof.
  intros Haw Ha. unfold eval, eval_shift. cbn [inp nth opt_bits].
  replace (64 <? length amt) with false by (symmetry; apply Nat.ltb_ge; exact Haw).
  rewrite Ha. rewrite shift_core_spec. reflexivity.
Qed.

(* an amount with any undefined bit (or no amount driver) makes every output bit undefined *)
Theorem eval_shift_undef_amount d f w x amt :
  bv_val amt = None -> eval (KShift d f w) [x; Some amt] = [all_X w].
Proof.
  intro H. unfold eval, eval_shift. cbn [inp nth]. destruct (64 <? length amt); [reflexivity|].
  rewrite H. reflexivity.
Qed.

(* numeric reading of the zero-fill shifts on a fully defined operand *)
Corollary eval_shl_num w x amt vx a :
  length x = w -> length amt <= 64 -> bv_val x = Some vx -> bv_val amt = Some a ->
  eval (KShift SH_LEFT F_ZERO w) [Some x; Some amt] = [bv_of_N w ((vx * 2 ^ a) mod 2 ^ N.of_nat w)%N].
Proof.
  intros Lx Haw Hx Ha. rewrite (eval_shift_spec _ _ _ _ _ a Haw Ha). f_equal.
  rewrite bv_of_N_mod. apply bv_ext.
  - rewrite bv_build_length, bv_of_N_length. reflexivity.
  - intros i Hi. rewrite bv_build_length in Hi. rewrite bv_get_build, bv_get_of_N.
    apply Nat.ltb_lt in Hi as Hi'. rewrite Hi'. unfold shift_spec_bit. cbn [shift_fillbit].
    rewrite <- N.shiftl_mul_pow2.
    destruct (N.ltb_spec (N.of_nat i) a) as [H|H].
    + rewrite N.shiftl_spec_low by exact H. reflexivity.
    + rewrite N.shiftl_spec_high' by exact H.
      rewrite (bv_get_val x vx) by (try exact Hx; lia). f_equal. f_equal. lia.
Qed.

Corollary eval_shr_num w x amt vx a :
  length x = w -> length amt <= 64 -> bv_val x = Some vx -> bv_val amt = Some a ->
  eval (KShift SH_RIGHT F_ZERO w) [Some x; Some amt] = [bv_of_N w (vx / 2 ^ a)%N].
Proof.
  intros Lx Haw Hx Ha. rewrite (eval_shift_spec _ _ _ _ _ a Haw Ha). f_equal.
  apply bv_ext.
  - rewrite bv_build_length, bv_of_N_length. reflexivity.
  - intros i Hi. rewrite bv_build_length in Hi. rewrite bv_get_build, bv_get_of_N.
    apply Nat.ltb_lt in Hi as Hi'. rewrite Hi'. unfold shift_spec_bit. cbn [shift_fillbit].
    rewrite <- N.shiftr_div_pow2, N.shiftr_spec by lia.
    destruct (N.ltb_spec (N.of_nat i + a) (N.of_nat w)) as [H|H].
    + rewrite (bv_get_val x vx) by (try exact Hx; lia). f_equal. f_equal. lia.
    + (* bit beyond the operand: vx < 2^w *)
      pose proof (bv_val_lt x vx Hx) as B. rewrite Lx in B.
      destruct (N.eq_dec vx 0) as [->|Hnz]; [rewrite N.bits_0; reflexivity|].
      rewrite N.bits_above_log2; [reflexivity|].
      apply N.lt_le_trans with (m := N.of_nat w); [|lia].
      apply N.log2_lt_pow2; lia.
Qed.

(* ================================================================== *)
(* Rewire                                                                *)

(* no bit at or above position off *)
Definition clean (V D : N) (off : nat) : Prop :=
  forall i, off <= i -> N.testbit V (N.of_nat i) = false /\ N.testbit D (N.of_nat i) = false.

Lemma testbit_mod_u64 a i :
  N.testbit (a mod u64) (N.of_nat i) = if i <? 64 then N.testbit a (N.of_nat i) else false.
Proof.
  unfold u64. destruct (Nat.ltb_spec i 64) as [H|H].
  - apply N.mod_pow2_bits_low. lia.
  - apply N.mod_pow2_bits_high. lia.
Qed.

Lemma testbit_shiftl_nat p off i :
  N.testbit (N.shiftl p (N.of_nat off)) (N.of_nat i) = if i <? off then false else N.testbit p (N.of_nat (i - off)).
Proof.
  destruct (Nat.ltb_spec i off) as [H|H].
  - apply N.shiftl_spec_low. lia.
  - rewrite N.shiftl_spec_high' by lia. f_equal. lia.
Qed.

(* OR-ing the plane words of a sw-bit piece at bit position off appends the piece *)
Lemma planes_append V D off pv pd sw (piece : bv) :
  off + sw <= 64 -> clean V D off -> length piece = sw ->
  (forall j, N.testbit pv (N.of_nat j) = bit_val (bv_get piece j)) ->
  (forall j, N.testbit pd (N.of_nat j) = is_def (bv_get piece j)) ->
  let V' := N.lor V (N.shiftl pv (N.of_nat off) mod u64) in
  let D' := N.lor D (N.shiftl pd (N.of_nat off) mod u64) in
  clean V' D' (off + sw) /\ bv_of_planes (off + sw) V' D' = bv_of_planes off V D ++ piece.
Proof.
  intros Hle Hc Hl Hv Hd V' D'. split.
  - intros i Hi. subst V' D'. rewrite !N.lor_spec, !testbit_mod_u64, !testbit_shiftl_nat.
    destruct (Hc i) as [-> ->]; [lia|].
    replace (i <? off) with false by (symmetry; apply Nat.ltb_ge; lia).
    rewrite Hv, Hd. rewrite bv_get_overflow by lia.
    destruct (i <? 64); split; reflexivity.
  - apply bv_ext.
    + rewrite app_length, !bv_of_planes_length, Hl. reflexivity.
    + intros i Hi. rewrite bv_of_planes_length in Hi.
      rewrite bv_get_of_planes, bv_get_app, bv_of_planes_length.
      apply Nat.ltb_lt in Hi as Hi'. rewrite Hi'.
      subst V' D'. rewrite !N.lor_spec, !testbit_mod_u64, !testbit_shiftl_nat.
      replace (i <? 64) with true by (symmetry; apply Nat.ltb_lt; lia).
      destruct (Nat.ltb_spec i off) as [H|H].
      * rewrite !orb_false_r. rewrite bv_get_of_planes.
        replace (i <? off) with true by (symmetry; apply Nat.ltb_lt; lia). reflexivity.
      * destruct (Hc i H) as [-> ->]. cbn [orb]. rewrite Hv, Hd. apply of_planes_bit.
Qed.

Lemma ones_testbit_nat sw j : N.testbit (N.ones (N.of_nat sw)) (N.of_nat j) = (j <? sw).
Proof.
  destruct (Nat.ltb_spec j sw) as [H|H].
  - apply N.ones_spec_low. lia.
  - apply N.ones_spec_high. lia.
Qed.

Lemma lor_nothing V off : N.lor V (N.shiftl 0 (N.of_nat off) mod u64) = V.
Proof. rewrite N.shiftl_0_l. rewrite N.mod_0_l by discriminate. apply N.lor_0_r. Qed.

Lemma rewire_step_ok xs V D off r :
  off + rw_width r <= 64 -> clean V D off ->
  exists V' D',
    rewire_step64 xs (V, D, off) r = (V', D', off + rw_width r) /\
    clean V' D' (off + rw_width r) /\
    bv_of_planes (off + rw_width r) V' D' = bv_of_planes off V D ++ rewire_piece xs r.
Proof.
  intros Hle Hc. unfold rewire_step64, rewire_piece.
  set (sw := rw_width r) in *.
  assert (Z0 : forall j, N.testbit 0 (N.of_nat j) = false) by (intro; apply N.bits_0).
  destruct (rw_src r) as [idx ioff| | |].
  - destruct (inp xs idx) as [x|].
    + eexists _, _. split; [reflexivity|].
      apply planes_append; try assumption.
      * apply bv_slice_length.
      * intro j. apply plane_v_testbit.
      * intro j. apply plane_d_testbit.
    + exists V, D. split; [reflexivity|].
      pose proof (planes_append V D off 0%N 0%N sw (all_X sw) Hle Hc (all_X_length sw)) as P.
      cbv zeta in P. rewrite !lor_nothing in P. apply P; intro j; rewrite bv_get_allX; apply Z0.
  - (* zero *)
    eexists V, _. split; [reflexivity|].
    pose proof (planes_append V D off 0%N (N.ones (N.of_nat sw)) sw (repeat B0 sw) Hle Hc (repeat_length B0 sw)) as P.
    cbv zeta in P. rewrite lor_nothing in P. apply P.
    + intro j. rewrite bv_get_repeat, Z0. destruct (j <? sw); reflexivity.
    + intro j. rewrite bv_get_repeat, ones_testbit_nat. destruct (j <? sw); reflexivity.
  - (* one *)
    eexists _, _. split; [reflexivity|].
    apply planes_append; try assumption.
    + apply repeat_length.
    + intro j. rewrite bv_get_repeat, ones_testbit_nat. destruct (j <? sw); reflexivity.
    + intro j. rewrite bv_get_repeat, ones_testbit_nat. destruct (j <? sw); reflexivity.
  - (* undefined *)
    exists V, D. split; [reflexivity|].
    pose proof (planes_append V D off 0%N 0%N sw (all_X sw) Hle Hc (all_X_length sw)) as P.
    cbv zeta in P. rewrite !lor_nothing in P. apply P; intro j; rewrite bv_get_allX; apply Z0.
Qed.

Lemma rewire_fold_ok xs ranges V D off :
  off + rewire_width ranges <= 64 -> clean V D off ->
  exists V' D',
    fold_left (rewire_step64 xs) ranges (V, D, off) = (V', D', off + rewire_width ranges) /\
    bv_of_planes (off + rewire_width ranges) V' D' = bv_of_planes off V D ++ concat (map (rewire_piece xs) ranges).
Proof.
  revert V D off. induction ranges as [|r rs IH]; intros V D off Hle Hc.
  - exists V, D. cbn [rewire_width fold_right fold_left map concat]. rewrite Nat.add_0_r, app_nil_r. split; reflexivity.
  - cbn [rewire_width fold_right] in Hle. fold (rewire_width rs) in Hle.
    destruct (rewire_step_ok xs V D off r) as [V1 [D1 [E1 [C1 B1]]]]; [lia | exact Hc |].
    destruct (IH V1 D1 (off + rw_width r)) as [V2 [D2 [E2 B2]]]; [lia | exact C1 |].
    exists V2, D2. cbn [fold_left map concat rewire_width fold_right]. fold (rewire_width rs).
    rewrite E1, E2. rewrite Nat.add_assoc. split; [reflexivity|].
    rewrite B2, B1, app_assoc. reflexivity.
Qed.

(* For every total width: the output is the concatenation of the described ranges; the
   64-bit accumulate path and the range-by-range copy path agree. *)
Theorem eval_rewire_spec ranges xs :
  eval (KRewire ranges) xs = [concat (map (rewire_piece xs) ranges)].
Proof.
  unfold eval, eval_rewire. destruct (Nat.leb_spec (rewire_width ranges) 64) as [H|H]; [|reflexivity].
  destruct (rewire_fold_ok xs ranges 0%N 0%N 0) as [V [D [E B]]].
  - exact H.
  - intros i _. rewrite N.bits_0. split; reflexivity.
  - rewrite E. cbn [Nat.add] in B. rewrite B. reflexivity.
Qed.

(* the usual instances *)
Lemma bv_get_firstn n l i : bv_get (firstn n l) i = if i <? n then bv_get l i else BX.
Proof.
  revert l i. induction n as [|n IH]; intros l i.
  - simpl. apply bv_get_nil.
  - destruct l as [|a l]; [simpl; rewrite bv_get_nil; destruct (i <? S n); reflexivity|].
    destruct i as [|i]; [reflexivity|]. cbn [firstn]. unfold bv_get. cbn [nth]. apply IH.
Qed.

Lemma bv_get_skipn k l i : bv_get (skipn k l) i = bv_get l (k + i).
Proof.
  revert l. induction k as [|k IH]; intro l; [reflexivity|].
  destruct l as [|a l]; [simpl; rewrite !bv_get_nil; reflexivity|]. cbn [skipn Nat.add]. unfold bv_get. cbn [nth]. apply IH.
Qed.

Corollary eval_extract_spec x off cnt :
  off + cnt <= length x ->
  eval (KRewire [mk_range cnt (RW_INPUT 0 off)]) [Some x] = [firstn cnt (skipn off x)].
Proof.
  intro H. rewrite eval_rewire_spec. cbn [map concat rewire_piece rw_src rw_width inp nth].
  rewrite app_nil_r. f_equal. apply bv_ext.
  - rewrite bv_slice_length, firstn_length, skipn_length. lia.
  - intros i Hi. rewrite bv_slice_length in Hi. unfold bv_slice. rewrite bv_get_build.
    apply Nat.ltb_lt in Hi as Hi'. rewrite Hi'.
    rewrite bv_get_firstn, Hi', bv_get_skipn. reflexivity.
Qed.

Corollary eval_concat_spec lo hi :
  eval (KRewire [mk_range (length lo) (RW_INPUT 0 0); mk_range (length hi) (RW_INPUT 1 0)]) [Some lo; Some hi]
  = [lo ++ hi].
Proof.
  rewrite eval_rewire_spec. cbn [map concat rewire_piece rw_src rw_width inp nth]. rewrite app_nil_r.
  assert (S : forall x, bv_slice x 0 (length x) = x).
  { intro x. unfold bv_slice. cbn [Nat.add]. apply bv_resize_id. }
  rewrite !S. reflexivity.
Qed.
