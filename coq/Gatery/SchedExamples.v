(* C04 -- a concrete configuration showing that the hypotheses of the theorems are satisfiable:
   two root clocks with frequencies 3 and 7 (different edges, different reset kinds and polarities),
   a derived clock sharing clock 0's pin with the opposite edge (DESIGN.md Q7), three registers
   (feedback, cross-domain copy with enable, copy), an injected asynchronous reset event, a process. *)
From Coq Require Import QArith Qreduction Permutation Lia.
Require Import Gatery.Bits.
Require Import Gatery.gen.EventOrder.
Require Import Gatery.SchedDefs Gatery.SchedOrder Gatery.SchedClocks Gatery.SchedTime Gatery.SchedRegs Gatery.SchedRun Gatery.SchedReset.
Import ListNotations.
Local Close Scope Q_scope.

Definition ex_clocks : list clock :=
  [ mk_clock None 3%Q 0%N 0%N RISING true RST_SYNC true true 0%Q 0%N;
    mk_clock None 7%Q 1%N 1%N FALLING true RST_ASYNC false false 0%Q 0%N;
    mk_clock (Some 0) 1%Q 0%N 0%N FALLING true RST_SYNC true true 0%Q 0%N ].

Definition ex_regs : list reg :=
  [ mk_reg 0 3 (Some [B0; B0; B0]); mk_reg 1 3 (Some [B1; B0; B1]); mk_reg 2 3 None ].

Definition ex_cfg : config :=
  mk_config ex_clocks ex_regs [(1, 1)] [2; 0; 1]
            [((5 # 4)%Q, 1, false)]
            [(0%Q, [(0, [B1])]); ((1 # 3)%Q, [(0, [B0])])].

(* r0 <= not r0;  r1 <= r0 when input 0;  r2 <= r1 *)
Definition ex_comb : network := fun outs ins r =>
  match r with
  | 0 => (Some (map (fun b => match b with B0 => B1 | B1 => B0 | BX => BX end) (nth 0 outs [])), None)
  | 1 => (Some (nth 0 outs []), Some (nth 0 (nth 0 ins []) BX))
  | _ => (Some (nth 1 outs []), None)
  end.

(* 3 : 7 -- the first instants, exact *)
Example ex_instants :
  map ie_time (sched_run 8 (sched_init ex_cfg)) =
  [(1 # 14); (1 # 7); (1 # 6); (3 # 14); (2 # 7); (1 # 3); (5 # 14); (3 # 7)]%Q.
Proof. vm_compute. reflexivity. Qed.

(* clock 2 shares pin 0 (same name, frequency, phase) although it triggers on the other edge *)
Example ex_alloc :
  alloc_summary ex_cfg = [ (0, 0, Some 0, 3%Q); (1, 1, Some 1, 7%Q); (2, 0, Some 0, 3%Q) ].
Proof. vm_compute. reflexivity. Qed.

Example ex_clock_pins : clock_pins ex_cfg = [0; 1].
Proof. vm_compute. reflexivity. Qed.

Example ex_wf : clocks_wf ex_clocks.
Proof.
  intros i p H. destruct i as [|[|[|i]]]; simpl in H; try discriminate.
  - inversion H. lia.
  - unfold get_clock in H. simpl in H. destruct i; discriminate.
Qed.

Example ex_times_ok : times_ok ex_cfg.
Proof.
  constructor.
  - intros c H. rewrite ex_clock_pins in H. destruct H as [<-|[<-|[]]]; reflexivity.
  - split.
    + intros e [<-|[]]. reflexivity.
    + intros s H. vm_compute in H. destruct H as [<-|[<-|[]]]; vm_compute; discriminate.
  - intros e [<-|[<-|[]]]; vm_compute; discriminate.
Qed.

Example ex_cfg_ok : cfg_ok ex_cfg.
Proof.
  constructor.
  - split.
    + simpl. repeat constructor; simpl; intuition discriminate.
    + intros r Hr. simpl in *. destruct r as [|[|[|r]]]; auto; lia.
  - intro t. split.
    + assert (E : sc_rst (sched_init ex_cfg) =
                  [((1 # 3)%Q, 0, false); ((1 # 7)%Q, 1, true); ((5 # 4)%Q, 1, false)]) by (vm_compute; reflexivity).
      rewrite E. simpl.
      destruct (Qeq_bool (1 # 3) t) eqn:E1, (Qeq_bool (1 # 7) t) eqn:E2, (Qeq_bool (5 # 4) t) eqn:E3; simpl;
        try (repeat constructor; simpl; intuition discriminate);
        exfalso; apply Qeq_bool_eq in E2, E3; rewrite <- E3 in E2; vm_compute in E2; discriminate.
    + assert (E : sc_stim (sched_init ex_cfg) = [((1 # 3)%Q, 0%N, [(0, [B0])])]) by (vm_compute; reflexivity).
      rewrite E. simpl. destruct (Qeq_bool (1 # 3) t); simpl; lia.
Qed.

(* clock 2: relevant, single edge, opposite to its pin's edge *)
Example ex_q7 :
  relevant ex_cfg 2 = true /\ pinsrc ex_clocks 2 = 0 /\ trig_of ex_cfg 2 = FALLING /\ trig_of ex_cfg 0 = RISING.
Proof. vm_compute. auto. Qed.

(* its registers are advanced at 1/6, 1/2, 5/6, ... = (j + 1/2)/3 and not at the multiples of 1/3 *)
Example ex_q7_activations :
  map (fun ie => (ie_time ie, domain_advanced ex_cfg ie 2, domain_advanced ex_cfg ie 0))
      (filter (fun ie => existsb (fun x => Nat.eqb (fst (fst x)) 0) (ie_clk ie)) (sched_run 14 (sched_init ex_cfg))) =
  [((1 # 6)%Q, true, false); ((1 # 3)%Q, false, true); ((1 # 2)%Q, true, false); ((2 # 3)%Q, false, true)].
Proof. vm_compute. reflexivity. Qed.

(* a reachable state and a step from it: at t = 1 both pins toggle (pin 0 rising, pin 1 falling) and the
   registers of clock 0 and clock 1 are advanced in the same instant *)
Example ex_reach :
  match reach ex_cfg ex_comb 17 with
  | Some (s, d) =>
    match step ex_cfg ex_comb (s, d) with
    | Some (s', d', lg) =>
      (lg_time lg, lg_clk lg, map r_out (d_regs d), lg_regs lg) =
      (1%Q, [(0, true, 6%N); (1, false, 14%N)],
       [[B1; B1; B1]; [B0; B0; B0]; [B0; B0; B0]], [[B0; B0; B0]; [B0; B0; B0]; [B0; B0; B0]])
    | None => False
    end
  | None => False
  end.
Proof. vm_compute. reflexivity. Qed.

(* the injected asynchronous reset at 5/4 (no clock edge there): register 1 jumps to its reset value at once *)
Example ex_async :
  map (fun lg => (lg_time lg, lg_clk lg, lg_rst lg, nth 1 (lg_regs lg) []))
      (filter (fun lg => Qeq_bool (lg_time lg) (5 # 4)) (simulate ex_cfg ex_comb 30)) =
  [((5 # 4)%Q, [], [(1, false)], [B1; B0; B1])].
Proof. vm_compute. reflexivity. Qed.

(* two events that the comparison cannot separate: clock value changes of two pins at the same time *)
Example ex_same_key :
  same_key (cvc_ev 1%Q (0, true)) (cvc_ev 1%Q (1, false)) /\ cvc_ev 1%Q (0, true) <> cvc_ev 1%Q (1, false).
Proof. split; [repeat split; try reflexivity; discriminate | discriminate]. Qed.

(* DESIGN.md Q7, as a refutation of the property's literal wording ("a RISING or FALLING clock of frequency f
   activates its registers exactly at the positive multiples of 1/f"): clock 2 of ex_cfg (FALLING, 3 Hz, derived from
   the RISING clock 0 with the same name, frequency and phase, hence on clock 0's pin) is advanced at t = 1/6. *)
Lemma ex_q7_refutes :
  exists ie, In ie (sched_run 3 (sched_init ex_cfg)) /\ ie_time ie = (1 # 6)%Q /\
             domain_advanced ex_cfg ie 2 = true /\
             ~ exists j : N, (ie_time ie == Q_of_N j * (1 / absfreq (cfg_clocks ex_cfg) 2))%Q.
Proof.
  assert (E : exists ie, nth_error (sched_run 3 (sched_init ex_cfg)) 2 = Some ie /\ ie_time ie = (1 # 6)%Q /\
                         domain_advanced ex_cfg ie 2 = true).
  { vm_compute. eexists. split; [reflexivity|]. split; reflexivity. }
  destruct E as (ie & Hn & Ht & Hd). exists ie. split; [eapply nth_error_In; exact Hn|].
  split; [exact Ht|]. split; [exact Hd|].
  intros [j Hj]. rewrite Ht in Hj.
  assert (Ef : absfreq (cfg_clocks ex_cfg) 2 = 3%Q) by (vm_compute; reflexivity).
  rewrite Ef in Hj. unfold Qeq, Q_of_N, Qmult, Qdiv, Qinv in Hj. simpl in Hj. lia.
Qed.

Lemma ex_refuted_full :
  exists cfg c n ie,
    times_ok cfg /\ clocks_wf (cfg_clocks cfg) /\ relevant cfg c = true /\ trig_of cfg c <> RISING_AND_FALLING /\
    In ie (sched_run n (sched_init cfg)) /\ domain_advanced cfg ie c = true /\
    ~ exists j : N, (ie_time ie == Q_of_N j * (1 / absfreq (cfg_clocks cfg) c))%Q.
Proof.
  destruct ex_q7_refutes as (ie & Hin & _ & Hd & Hn).
  exists ex_cfg, 2, 3, ie.
  split; [exact ex_times_ok|]. split; [exact ex_wf|]. split; [exact (proj1 ex_q7)|].
  split; [rewrite (proj1 (proj2 (proj2 ex_q7))); discriminate|].
  split; [exact Hin|]. split; [exact Hd | exact Hn].
Qed.

Example ex_hold :
  mults_positive (cfg_clocks ex_cfg) /\
  map (fun s => (s, reset_hold_time ex_cfg s)) (reset_pins ex_cfg) = [(0, (1 # 3)%Q); (1, (1 # 7)%Q)].
Proof.
  split; [|vm_compute; reflexivity].
  intros i Hi. simpl in Hi. destruct i as [|[|[|i]]]; try reflexivity. lia.
Qed.
