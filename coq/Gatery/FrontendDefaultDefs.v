(* C05 -- declarations with a default value:  Bit x = BitDefault(d);  /  UInt x = w_b; x = UIntDefault(d);

   What the frontend builds (Bit.cpp / BitVector.cpp operator=(Default)): a Node_Default whose input 0 is
   the variable's own signal node m_node (still undriven, so "whatever m_node will FINALLY be driven
   by" -- a forward reference) and whose input 1 is the constant d; the variable is then driven by that
   node.  Node_Default cannot be simulated; hlim/postprocessing/DefaultValueResolution.cpp resolves it:
     explore input 0 backwards through combinational nodes; if the exploration reaches the default node
     itself ("loopy": the final value of the variable is derived from the default node's output, e.g.
     only conditional / partial assignments followed) the node is bypassed to its constant d, otherwise
     (the variable is overwritten later by something that does not depend on it) it is bypassed to input
     0, i.e. every EARLIER read of the variable shows its FINAL value.  Nodes are handled in id order and
     an already bypassed node is transparent for the later explorations.

   Model.  A defaulted declaration number k is written  Decl x isbit (EIn (B + k))  where B is the number
   of real input pins: the output of the default node is an extra input of the elaborated circuit, so
   [elab_correct] applies verbatim for EVERY value rho_k of it.  This file adds what decides rho_k:
     [fin_prog]     for every k: the placeholder node and the node that finally drives the variable
                    (its driver when the C++ object dies at the end of its block),
     [resolve_all]  the loop test of defaultValueResolution on the node table, in creation order,
     [resolved_rho] rho_k = d_k if loopy, else the value of the final driver (iterated: a non-loopy
                    final driver does not depend on its own placeholder).
   No proofs in this file. *)
From Gatery Require Import Bits FrontendDefs.
Import ListNotations.

(* the variable at stack position p counted from the bottom (positions are stable while it lives) *)
Definition sig_at_pos (p : nat) (S : list (sig * sigrec)) : option (sig * sigrec) := nth_error (rev S) p.

Definition is_placeholder (B : nat) (e : expr) : option nat :=
  match e with EIn j => if Nat.leb B j then Some (j - B) else None | _ => None end.

(* (k, placeholder node, final driver) *)
Definition fin := (nat * nid * nid)%type.

Fixpoint fin_stmt (B : nat) (s : stmt) (st : est) : list fin :=
  match s with
  | If c th ch =>
      let (cn, G1) := elab_expr (eSigs st) c (eG st) in
      let st1 := ctor_if cn (set_G st G1) in
      let st2 := elab_block th st1 in
      fin_items B th st1 (eSigs st2) ++ fin_chain B ch (dtor (leave_block (length (eSigs st)) st2))
  | _ => []
  end
(* the declarations of block b (whose final signal table is Send) and everything nested in it *)
with fin_items (B : nat) (b : block) (st : est) (Send : list (sig * sigrec)) : list fin :=
  match b with
  | BNil => []
  | BCons s b' =>
      (match s with
       | Decl _ _ e =>
           match is_placeholder B e with
           | Some k =>
               match sig_at_pos (length (eSigs st)) Send with
               | Some (_, r) => [(k, length (eG st), sr_drv r)]     (* elab_expr (EIn _) emits at |G| *)
               | None => []
               end
           | None => []
           end
       | _ => []
       end) ++ fin_stmt B s st ++ fin_items B b' (elab_stmt s st) Send
  end
with fin_chain (B : nat) (ch : chain) (st : est) : list fin :=
  match ch with
  | CEnd => []
  | CElse b =>
      let st1 := ctor_else st in
      fin_items B b st1 (eSigs (elab_block b st1))
  | CElseIf c b ch' =>
      let (cn, G1) := elab_expr (eSigs st) c (eG st) in
      let st1 := ctor_elseif cn (set_G st G1) in
      let st2 := elab_block b st1 in
      fin_items B b st1 (eSigs st2) ++ fin_chain B ch' (dtor (leave_block (length (eSigs st)) st2))
  | CElseSp c b ch' =>
      let st1 := ctor_else st in
      let (cn, G1) := elab_expr (eSigs st1) c (eG st1) in
      let st2 := ctor_if cn (set_G st1 G1) in
      let st3e := elab_block b st2 in
      fin_items B b st2 (eSigs st3e) ++
      fin_chain B ch' (dtor (dtor (leave_block (length (eSigs st)) st3e)))
  end.

Definition fin_prog (B n0 : nat) (p : block) : list fin :=
  let st := init_st n0 in fin_items B p st (eSigs (elab_block p st)).

(* ---- the loop test ---- *)

Definition node_deps (n : gnode) : list nid :=
  match n with
  | NIn _ | NConst _ => []
  | NSig a | NNot a | NCNot a | NExtract a _ _ => [a]
  | NAnd a b | NOr a b | NXor a b | NAdd a b | NEq a b | NCAnd a b | NCOr a b => [a; b]
  | NReplace c n _ _ => [c; n]
  | NMux s ins => s :: ins
  end.

Fixpoint assoc_nid (n : nid) (l : list (nid * nid)) : option nid :=
  match l with
  | [] => None
  | (a, b) :: r => if Nat.eqb n a then Some b else assoc_nid n r
  end.

(* backward exploration from [work] looking for [target]; [fwd] maps the placeholders that are still
   default nodes (or were bypassed to their signal) to the final driver of their variable *)
Fixpoint reach (fuel : nat) (G : list gnode) (fwd : list (nid * nid)) (target : nid)
               (visited work : list nid) : bool :=
  match fuel with
  | O => false
  | S f =>
      match work with
      | [] => false
      | n :: w =>
          if Nat.eqb n target then true
          else if existsb (Nat.eqb n) visited then reach f G fwd target visited w
          else
            let deps := match assoc_nid n fwd with
                        | Some fi => [fi]
                        | None => node_deps (nth n G (NConst []))
                        end in
            reach f G fwd target (n :: visited) (deps ++ w)
      end
  end.

Definition reach_fuel (G : list gnode) (nf : nat) : nat :=
  S (S (fold_left (fun acc n => acc + S (length (node_deps n))) G 0 + nf + nf)).

Fixpoint insert_fin (f : fin) (l : list fin) : list fin :=
  match l with
  | [] => [f]
  | g :: r => if Nat.leb (snd (fst f)) (snd (fst g)) then f :: l else g :: insert_fin f r
  end.
Definition sort_fins (l : list fin) : list fin := fold_right insert_fin [] l.

(* (k, final driver, loopy) in creation order; a default already resolved to its constant is a dead end *)
Fixpoint resolve_from (G : list gnode) (todo : list fin) (done : list (nat * nid * bool)) (all : list fin)
  : list (nat * nid * bool) :=
  match todo with
  | [] => done
  | (k, ph, fi) :: rest =>
      let fwd := flat_map (fun f : fin =>
                   let '(k', ph', fi') := f in
                   match find (fun d : nat * nid * bool => Nat.eqb (fst (fst d)) k') done with
                   | Some (_, _, true) => []                 (* bypassed to the constant *)
                   | _ => [(ph', fi')]
                   end) all in
      let loopy := reach (reach_fuel G (length all)) G fwd ph [] [fi] in
      resolve_from G rest (done ++ [(k, fi, loopy)]) all
  end.

Definition resolve_all (G : list gnode) (fins : list fin) : list (nat * nid * bool) :=
  let s := sort_fins fins in resolve_from G s [] s.

(* ---- the values of the default nodes ---- *)

Definition rho_step (pins dfl : list bv) (G : list gnode) (res : list (nat * nid * bool)) (rho : list bv) : list bv :=
  let vs := eval_all (pins ++ rho) G in
  map (fun k => match find (fun d : nat * nid * bool => Nat.eqb (fst (fst d)) k) res with
                | Some (_, fi, false) => getv vs fi
                | _ => nth k dfl []
                end) (seq 0 (length dfl)).

Fixpoint rho_iter (n : nat) (pins dfl : list bv) (G : list gnode) (res : list (nat * nid * bool)) (rho : list bv) : list bv :=
  match n with
  | O => rho
  | S m => rho_iter m pins dfl G res (rho_step pins dfl G res rho)
  end.

Definition resolved_rho (pins dfl : list bv) (G : list gnode) (res : list (nat * nid * bool)) : list bv :=
  rho_iter (S (length dfl)) pins dfl G res dfl.

Definition all_loopy (res : list (nat * nid * bool)) : bool := forallb (fun d : nat * nid * bool => snd d) res.

(* the input valuation under which the elaborated circuit (and the software run) is evaluated *)
Definition resolved_inputs (n0 : nat) (pins dfl : list bv) (p : block) : list bv :=
  let G := eG (elab_prog n0 p) in
  pins ++ resolved_rho pins dfl G (resolve_all G (fin_prog (length pins) n0 p)).
