(* C18 -- proofs, part 6: operator== and preservation of "bits above size are zero". *)
From Coq Require Import List NArith ZArith Bool Lia.
From Gatery Require Import BvsDefs BvsSpec BvsLeaf BvsWords BvsCopy BvsAbs BvsOps.
Import ListNotations.
Ltac Zify.zify_post_hook ::= Z.to_euclidean_division_equations.
Local Open Scope N_scope.

(* ---- nrange ---- *)
Lemma In_nrange_from a n k : In k (nrange_from a n) <-> a <= k < a + N.of_nat n.
Proof.
  revert a; induction n as [|n IH]; intro a; cbn [nrange_from].
  - split; [intros [] | lia].
  - cbn [In]. rewrite IH. lia.
Qed.

Lemma In_nrange a b k : In k (nrange a b) <-> a <= k < b.
Proof. unfold nrange. rewrite In_nrange_from. lia. Qed.

Lemma length_nrange_from a n : length (nrange_from a n) = n.
Proof. revert a; induction n as [|n IH]; intro a; simpl; [reflexivity | rewrite IH; reflexivity]. Qed.

Lemma nrange_from_map a n : nrange_from a n = map (fun i => a + N.of_nat i) (seq 0 n).
Proof.
  revert a; induction n as [|n IH]; intro a; [reflexivity|].
  cbn [nrange_from seq map]. f_equal; [lia|].
  rewrite IH, <- seq_shift, map_map. apply map_ext. intro i. lia.
Qed.

(* ---- list equality as a boolean ---- *)
Lemma list_eqb_length {A} (e : A -> A -> bool) x y : list_eqb e x y = true -> length x = length y.
Proof.
  revert y; induction x as [|a x IH]; intros [|b y] H; simpl in *; try discriminate; auto.
  apply andb_true_iff in H. destruct H as [_ H]. f_equal. apply IH. exact H.
Qed.

Lemma list_eqb_spec {A} (e : A -> A -> bool) :
  (forall a b, e a b = true <-> a = b) -> forall x y, list_eqb e x y = true <-> x = y.
Proof.
  intros He x. induction x as [|a x IH]; intros [|b y]; simpl; split; intro H; try discriminate; auto.
  - apply andb_true_iff in H. destruct H as [H1 H2]. apply He in H1. apply IH in H2. subst. reflexivity.
  - inversion H; subst. apply andb_true_iff. split; [apply He; reflexivity | apply IH; reflexivity].
Qed.

Lemma bool_eqb_spec a b : Bool.eqb a b = true <-> a = b.
Proof. apply eqb_true_iff. Qed.

(* ---- one plane ---- *)
Lemma absP_eq_iff sz a b : absP sz a = absP sz b <-> (forall i, i < sz -> wbit a i = wbit b i).
Proof.
  split.
  - intros H i Hi. rewrite <- (nth_absP_N sz a i Hi), <- (nth_absP_N sz b i Hi), H. reflexivity.
  - intro H. apply absP_ext. intros i Hi. apply H. exact Hi.
Qed.

Lemma masked_eq_iff x y cnt :
  cnt <= 64 ->
  (N.land x (bitMaskRange 0 cnt) = N.land y (bitMaskRange 0 cnt)
   <-> forall j, j < cnt -> N.testbit x j = N.testbit y j).
Proof.
  intro Hc. split.
  - intros H j Hj.
    assert (E : N.testbit (N.land x (bitMaskRange 0 cnt)) j = N.testbit (N.land y (bitMaskRange 0 cnt)) j)
      by (rewrite H; reflexivity).
    rewrite !N.land_spec, tb_bitMaskRange in E.
    replace (j - 0) with j in E by lia.
    destruct (N.ltb_spec j 64); [|lia]. destruct (N.leb_spec 0 j); [|lia]. destruct (N.ltb_spec j cnt); [|lia].
    cbn [andb] in E. rewrite !andb_true_r in E. exact E.
  - intro H. apply N.bits_inj. intro j. rewrite !N.land_spec, tb_bitMaskRange.
    replace (j - 0) with j by lia.
    destruct (N.ltb_spec j cnt).
    + rewrite (H j) by assumption. reflexivity.
    + rewrite !andb_false_r. reflexivity.
Qed.

Lemma eqPlane_iff sz a b :
  wfP sz a -> wfP sz b -> (eqPlane sz a b = true <-> forall i, i < sz -> wbit a i = wbit b i).
Proof.
  intros [La Wa] [Lb Wb]. unfold eqPlane. rewrite forallb_forall. split.
  - intros H i Hi.
    assert (Hk : In (i / 64) (nrange 0 (N.of_nat (length a)))).
    { apply In_nrange. fold (wlen a). rewrite La. lia. }
    specialize (H _ Hk). apply N.eqb_eq in H.
    set (cnt := N.min 64 (sz - i / 64 * 64)) in H.
    assert (Hc : cnt <= 64) by (subst cnt; lia).
    pose proof (proj1 (masked_eq_iff _ _ cnt Hc) H (i mod 64)) as H'.
    apply H'. subst cnt. lia.
  - intros H k Hk. apply In_nrange in Hk. fold (wlen a) in Hk. rewrite La in Hk.
    apply N.eqb_eq. apply masked_eq_iff; [lia|]. intros j Hj.
    specialize (H (64 * k + j)). unfold wbit in H.
    replace ((64 * k + j) / 64) with k in H by lia.
    replace ((64 * k + j) mod 64) with j in H by lia.
    apply H. lia.
Qed.

Lemma eqPlane_spec sz a b :
  wfP sz a -> wfP sz b -> eqPlane sz a b = list_eqb Bool.eqb (absP sz a) (absP sz b).
Proof.
  intros Ha Hb. apply eq_true_iff_eq.
  rewrite (eqPlane_iff sz a b Ha Hb), (list_eqb_spec Bool.eqb bool_eqb_spec), absP_eq_iff. reflexivity.
Qed.

(* ---- operator== ---- *)
Theorem eqS_abs a b :
  wf a -> wf b -> length (planes a) = length (planes b) -> planes a <> [] ->
  eqS a b = eq_spec (abs a) (abs b).
Proof.
  intros Ha Hb Hl Hne. unfold eqS, eq_spec, abs.
  destruct (N.eqb_spec (bsize a) (bsize b)) as [E | E]; cbn [negb].
  - rewrite <- E in *. unfold wf in Ha, Hb. rewrite <- E in Hb.
    revert Ha Hb Hl. generalize (planes a) (planes b) (bsize a). clear.
    intros pa. induction pa as [|x pa IH]; intros [|y pb] sz Ha Hb Hl; simpl in *; try discriminate; auto.
    inversion Ha; subst. inversion Hb; subst.
    rewrite eqPlane_spec by assumption. f_equal. apply IH; auto.
  - destruct (planes a) as [|x pa]; [contradiction|]. destruct (planes b) as [|y pb]; [discriminate|].
    simpl. symmetry. apply andb_false_iff. left.
    destruct (list_eqb Bool.eqb (absP (bsize a) x) (absP (bsize b) y)) eqn:F; [|reflexivity].
    apply list_eqb_length in F. rewrite !length_absP in F. lia.
Qed.

(* ------------------------------------------------------------------ *)
(* cleanliness: bits at or above size stay zero                        *)
(* ------------------------------------------------------------------ *)
Lemma cleanP_keep sz w w' :
  cleanP sz w -> (forall i, sz <= i -> wbit w' i = wbit w i) -> cleanP sz w'.
Proof. intros Hc H i Hi. rewrite H by exact Hi. apply Hc. exact Hi. Qed.

Lemma cleanP_plane s p : clean s -> (p < length (planes s))%nat -> cleanP (bsize s) (plane s p).
Proof.
  intros H Hp. eapply Forall_forall; [exact H|]. apply nth_In. exact Hp.
Qed.

Lemma clean_on_plane s p f :
  clean s ->
  ((p < length (planes s))%nat -> cleanP (bsize s) (plane s p) -> cleanP (bsize s) (f (plane s p))) ->
  clean (on_plane s p f).
Proof.
  intros H Hf. unfold clean, on_plane. cbn [bsize planes].
  destruct (Nat.lt_ge_cases p (length (planes s))) as [Hp | Hp].
  - apply Forall_upd_nat; [exact H|]. apply Hf; [exact Hp | apply cleanP_plane; assumption].
  - rewrite upd_nat_beyond by exact Hp. exact H.
Qed.

Theorem clean_set1 s p i : wf s -> clean s -> i < bsize s -> clean (set1 s p i).
Proof.
  intros H Hc Hi. apply clean_on_plane; [exact Hc|]. intros Hp Hcp.
  pose proof (wfP_plane s p H Hp) as Hw. pose proof (wfP_in _ _ Hw).
  eapply cleanP_keep; [exact Hcp|]. intros j Hj. rewrite wbit_bitSet by lia.
  destruct (N.eqb_spec j i); [lia | reflexivity].
Qed.

Theorem clean_clear1 s p i : wf s -> clean s -> i < bsize s -> clean (clear1 s p i).
Proof.
  intros H Hc Hi. apply clean_on_plane; [exact Hc|]. intros Hp Hcp.
  pose proof (wfP_plane s p H Hp) as Hw. pose proof (wfP_in _ _ Hw).
  eapply cleanP_keep; [exact Hcp|]. intros j Hj. rewrite wbit_bitClear; [| apply Hw | lia].
  destruct (N.eqb_spec j i); [lia | reflexivity].
Qed.

Theorem clean_setb s p i b : wf s -> clean s -> i < bsize s -> clean (setb s p i b).
Proof. intros. unfold setb. destruct b; [apply clean_set1 | apply clean_clear1]; assumption. Qed.

Theorem clean_toggle s p i : wf s -> clean s -> i < bsize s -> clean (toggle s p i).
Proof.
  intros H Hc Hi. apply clean_on_plane; [exact Hc|]. intros Hp Hcp.
  pose proof (wfP_plane s p H Hp) as Hw. pose proof (wfP_in _ _ Hw).
  eapply cleanP_keep; [exact Hcp|]. intros j Hj. rewrite wbit_bitToggle by lia.
  destruct (N.eqb_spec j i); [lia | reflexivity].
Qed.

Theorem clean_setRange s p off size b :
  wf s -> clean s -> off + size <= bsize s -> clean (setRange s p off size b).
Proof.
  intros H Hc Hin. apply clean_on_plane; [exact Hc|]. intros Hp Hcp.
  pose proof (wfP_plane s p H Hp) as Hw. pose proof (wfP_in _ _ Hw).
  eapply cleanP_keep; [exact Hcp|]. intros j Hj. rewrite wbit_setRangeP; [| apply Hw | lia].
  destruct (N.leb_spec off j); bsimpl; [|reflexivity].
  destruct (N.ltb_spec j (off + size)); [lia | reflexivity].
Qed.

Theorem clean_insertW s p off size v :
  wf s -> clean s -> size <= 64 -> off + size <= bsize s -> clean (insertW s p off size v).
Proof.
  intros H Hc Hsz Hin. apply clean_on_plane; [exact Hc|]. intros Hp Hcp.
  pose proof (wfP_plane s p H Hp) as Hw. pose proof (wfP_in _ _ Hw).
  eapply cleanP_keep; [exact Hcp|]. intros j Hj. rewrite wbit_insertWP; [| apply Hw | lia | lia].
  destruct (N.leb_spec off j); bsimpl; [|reflexivity].
  destruct (N.ltb_spec j (off + size)); [lia | reflexivity].
Qed.

Theorem clean_insertNS s p off size v :
  wf s -> clean s -> off mod 64 + size <= 64 -> off + size <= bsize s -> clean (insertNS s p off size v).
Proof.
  intros H Hc Hsz Hin. apply clean_on_plane; [exact Hc|]. intros Hp Hcp.
  pose proof (wfP_plane s p H Hp) as Hw. pose proof (wfP_in _ _ Hw).
  eapply cleanP_keep; [exact Hcp|]. intros j Hj. rewrite wbit_insertNSP; [| apply Hw | lia | lia].
  destruct (N.leb_spec off j); bsimpl; [|reflexivity].
  destruct (N.ltb_spec j (off + size)); [lia | reflexivity].
Qed.

Lemma Forall_map2_l {A B C} (P : A -> Prop) (Q : B -> Prop) (R : C -> Prop) (f : A -> B -> C) a b :
  Forall P a -> Forall Q b -> (forall x y, P x -> Q y -> R (f x y)) -> Forall R (map2 f a b).
Proof. apply Forall_map2. Qed.

Lemma Forall_and {A} (P Q : A -> Prop) l : Forall P l -> Forall Q l -> Forall (fun x => P x /\ Q x) l.
Proof. intros H1 H2. induction H1; inversion H2; subst; constructor; auto. Qed.

Theorem clean_copyRange d dOff s sOff size :
  wf d -> wf s -> clean d -> dOff + size <= bsize d -> clean (copyRange d dOff s sOff size).
Proof.
  intros Hd Hs Hc Hin. unfold clean, copyRange. cbn [bsize planes].
  apply (Forall_map2 (fun w => wfP (bsize d) w /\ cleanP (bsize d) w) (wfP (bsize s)));
    [apply Forall_and; assumption | exact Hs |].
  intros dw sw [Hdw Hcp] Hsw. pose proof (wfP_in _ _ Hdw).
  eapply cleanP_keep; [exact Hcp|]. intros j Hj. rewrite wbit_copyRangeP; [| apply Hdw | apply Hsw | lia].
  destruct (N.leb_spec dOff j); bsimpl; [|reflexivity].
  destruct (N.ltb_spec j (dOff + size)); [lia | reflexivity].
Qed.

Theorem clean_insertS d st off size :
  wf d -> wf st -> clean d -> bsize st + off <= bsize d -> size <= bsize st ->
  clean (insertS d st off size).
Proof.
  intros Hd Hs Hc Hin Hsz. unfold clean, insertS. cbn [bsize planes].
  apply (Forall_map2 (fun w => wfP (bsize d) w /\ cleanP (bsize d) w) (wfP (bsize st)));
    [apply Forall_and; assumption | exact Hs |].
  intros dw sw [Hdw Hcp] Hsw. pose proof (wfP_in _ _ Hdw).
  set (width := if size =? 0 then bsize st else size).
  assert (Hwd : width <= bsize st) by (subst width; destruct (size =? 0); lia).
  eapply cleanP_keep; [exact Hcp|]. intros j Hj.
  rewrite wbit_insertSLoop; [| apply Hdw | lia | lia | lia].
  destruct (N.leb_spec off j); bsimpl; [|reflexivity].
  destruct (N.ltb_spec j (off + (width - 0))); [lia | reflexivity].
Qed.

Theorem clean_extractS s start size : wf s -> clean (extractS s start size).
Proof.
  intro H. pose proof (wfP_nil size) as [Hl Hw].
  assert (Hn : cleanP size (resizeP size [])).
  { intros i Hi. rewrite wbit_resizeP by constructor. destruct (N.ltb_spec i size); [lia | reflexivity]. }
  unfold extractS. destruct ((start mod 8 =? 0) && (size mod 8 =? 0)) eqn:C.
  - apply andb_true_iff in C. destruct C as [C1 C2]. apply N.eqb_eq in C1. apply N.eqb_eq in C2.
    unfold clean. cbn [bsize planes]. rewrite planes_resize_empty, map2_repeat_l.
    apply Forall_map. apply Forall_forall. intros sw _.
    eapply cleanP_keep; [exact Hn|]. intros j Hj.
    rewrite wbit_memcpyB; [| exact Hw | rewrite N2Nat.id; lia]. rewrite N2Nat.id.
    destruct (N.leb_spec (8 * 0) j); bsimpl; [|reflexivity].
    destruct (N.ltb_spec j (8 * (0 + (size + 7) / 8))); [lia | reflexivity].
  - unfold clean, copyRange. cbn [bsize planes]. rewrite planes_resize_empty, map2_repeat_l.
    apply Forall_map. apply Forall_forall. intros sw Hsw.
    assert (Hsw' : wordsok sw) by (eapply Forall_forall in H; [apply H | exact Hsw]).
    eapply cleanP_keep; [exact Hn|]. intros j Hj. simpl bsize in Hj.
    rewrite wbit_copyRangeP; [| exact Hw | exact Hsw' | lia].
    destruct (N.leb_spec 0 j); bsimpl; [|reflexivity].
    destruct (N.ltb_spec j (0 + size)); [lia | reflexivity].
Qed.

Theorem clean_append d s : wf d -> wf s -> clean (append d s).
Proof.
  intros Hd Hs. unfold append. apply clean_copyRange.
  - apply wf_resize. exact Hd.
  - exact Hs.
  - apply clean_resize. exact Hd.
  - cbn [bsize resize]. lia.
Qed.
