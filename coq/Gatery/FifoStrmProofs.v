(* C15 -- strm::fifo (stream wrapper, incl. the fall-through mode) refines a queue at the
   stream interface -- for the fall-through mode exactly under the side condition that the
   inner FIFO has latency 1; with latency 2 the wrapper reorders (refuted below). *)
From Coq Require Import NArith List Bool Arith Lia.
From Gatery Require Import FifoDefs FifoGray FifoArith FifoInv FifoProofs FifoStrmDefs.
Import ListNotations.
Open Scope N_scope.

(* with latency 1 (no delay registers) the flags are exact, not only conservative *)
Definition Exact (c : cfg) (g : ghost) (s : st) : Prop :=
  s_empty s = (gP g =? g_G g) /\ s_full s = (gP g =? g_G g + 2 ^ c_k c).

Lemma exact_init c : Exact c (g_init c) (init c).
Proof.
  pose proof (pow2_pos (c_k c)). split; [reflexivity|].
  change (false = (0 =? 0 + 2 ^ c_k c)). symmetry. apply N.eqb_neq. lia.
Qed.

Lemma single_step_gen c g s e : cfg_ok c -> c_dual c = false -> Inv c g s ->
  step c s e = gen_step c s true true (e_pushReq e) (e_data e) (e_popReq e) false false /\
  gstep c s g e = gen_gstep s g true true (e_pushReq e) (e_data e) (e_popReq e) false false.
Proof.
  intros Hc Hd HI. split.
  - rewrite (step_gen c s e) by (intros E; congruence).
    unfold has_push, has_pop, ev_metaP, ev_metaG. rewrite Hd. reflexivity.
  - unfold gstep, has_push, has_pop, ev_metaP, ev_metaG. rewrite Hd. reflexivity.
Qed.

Lemma exact_step c g s e : cfg_ok c -> c_dual c = false -> c_lat c = 1%nat -> Inv c g s ->
  Exact c (gstep c s g e) (step c s e).
Proof.
  intros Hc Hd HL HI. destruct (single_step_gen c g s e Hc Hd HI) as [Es Eg]. rewrite Es, Eg.
  assert (Hp : g_lp g = []).
  { pose proof (i_lenp _ _ _ HI) as H. rewrite HL in H. destruct (g_lp g); [reflexivity | discriminate]. }
  assert (Hg : g_lg g = []).
  { pose proof (i_leng _ _ _ HI) as H. rewrite HL in H. destruct (g_lg g); [reflexivity | discriminate]. }
  split.
  - rewrite (s'_empty c g s HI). rewrite Hp. reflexivity.
  - rewrite (s'_full c g s HI). rewrite Hg. reflexivity.
Qed.

Lemma observe_single c s e : c_dual c = false ->
  observe c s e = mkObs (s_full s) (s_afull s) (s_empty s) (s_aempty s) (s_peek s)
                        (if e_pushReq e && negb (s_full s) then Some (e_data e) else None)
                        (e_popReq e && negb (s_empty s)).
Proof. intros Hd. unfold observe, has_push, has_pop. rewrite Hd. reflexivity. Qed.

Lemma q_of_empty g : g_G g = gP g -> q_of g = [].
Proof. intros E. unfold q_of. apply skipn_all2. rewrite E. unfold gP. lia. Qed.

(* one cycle of the wrapper *)
Lemma strm_step_ok c ft g s i : cfg_ok c -> c_dual c = false -> (ft = true -> c_lat c = 1%nat) ->
  Inv c g s -> (c_lat c = 1%nat -> Exact c g s) ->
  let e := strm_event ft s i in
  sq_step_ok (depth c) (q_of g) (strm_out ft s i) i /\
  sq_next (q_of g) (strm_out ft s i) i = q_of (gstep c s g e).
Proof.
  intros Hc Hd Hft HI Hex e.
  destruct (step_inv c g s e Hc HI) as [_ [Hok Hq]].
  rewrite (observe_single c s e Hd) in Hok, Hq. rewrite <- Hq. clear Hq.
  destruct Hok as [Hcap [Hpk [_ Hacc]]]. cbn [o_empty o_peek o_acc o_full] in *.
  unfold sq_step_ok, sq_next, sq_with_in, in_fire, out_fire, q_next, strm_out.
  cbn [so_ready so_valid so_data o_del o_acc].
  unfold e, strm_event. cbn [e_pushReq e_popReq e_data].
  destruct (strm_bypass ft s) eqn:Eb.
  - (* bypass: fall-through mode and the FIFO reports empty *)
    unfold strm_bypass in Eb. apply andb_prop in Eb. destruct Eb as [Eft Eemp].
    destruct (Hex (Hft Eft)) as [Ee Ef].
    rewrite Eemp in Ee. symmetry in Ee. apply N.eqb_eq in Ee.
    assert (Hfull : s_full s = false).
    { rewrite Ef. apply N.eqb_neq. pose proof (pow2_pos (c_k c)). lia. }
    rewrite (q_of_empty g) by congruence. rewrite Eemp, Hfull. cbn [negb andb app length].
    pose proof (pow2_pos (c_k c)) as HK. unfold depth.
    destruct (si_valid i), (si_ready i); cbn [andb negb app tl hd_error];
      (split; [split; [cbn; lia | split; [intros _; cbn; lia | intros Hv; try discriminate Hv; eexists; split; reflexivity]] | reflexivity]).
  - (* ordinary path *)
    assert (Ev : (if false && si_ready i then false else si_valid i) = si_valid i) by reflexivity.
    cbn [andb].
    replace (si_valid i && negb (s_full s) && negb (s_full s)) with (si_valid i && negb (s_full s))
      by (destruct (si_valid i), (s_full s); reflexivity).
    replace (negb (s_empty s) && si_ready i && negb (s_empty s)) with (negb (s_empty s) && si_ready i)
      by (destruct (s_empty s), (si_ready i); reflexivity).
    set (acc := if si_valid i && negb (s_full s) then [si_data i] else []).
    assert (Eacc : (match (if si_valid i && negb (s_full s) then Some (si_data i) else None) with
                    | Some x => [x] | None => [] end) = acc).
    { unfold acc. destruct (si_valid i && negb (s_full s)); reflexivity. }
    rewrite Eacc.
    split.
    + split; [exact Hcap|]. split.
      * intros Hf. apply (Hacc (si_data i)). unfold e, strm_event. cbn [e_pushReq e_data]. rewrite Eb.
        cbn [andb]. destruct (si_valid i), (s_full s); try discriminate Hf; reflexivity.
      * intros Hv. apply negb_true_iff in Hv. destruct (Hpk Hv) as [h [t [Eq Ep]]].
        exists h. rewrite Eq. split; [reflexivity | exact Ep].
    + destruct (s_empty s) eqn:Ee; cbn [negb andb]; [reflexivity|].
      destruct (si_ready i); [|reflexivity].
      destruct (Hpk eq_refl) as [h [t [Eq _]]]. rewrite Eq. reflexivity.
Qed.

Fixpoint strm_grun (c : cfg) (ft : bool) (s : st) (g : ghost) (ins : list sin) : ghost :=
  match ins with
  | [] => g
  | i :: r => strm_grun c ft (strm_step c ft s i) (gstep c s g (strm_event ft s i)) r
  end.

Lemma strm_run_cons c ft s i r :
  strm_run c ft s (i :: r) = ((strm_out ft s i, i) :: fst (strm_run c ft (strm_step c ft s i) r),
                              snd (strm_run c ft (strm_step c ft s i) r)).
Proof. cbn [strm_run]. destruct (strm_run c ft (strm_step c ft s i) r); reflexivity. Qed.

Lemma strm_run_inv c ft : cfg_ok c -> c_dual c = false -> (ft = true -> c_lat c = 1%nat) ->
  forall ins s g, Inv c g s -> (c_lat c = 1%nat -> Exact c g s) ->
  sq_spec (depth c) (q_of g) (fst (strm_run c ft s ins)).
Proof.
  intros Hc Hd Hft. induction ins as [|i r IH]; intros s g HI Hex.
  - exact I.
  - rewrite strm_run_cons. cbn [fst sq_spec].
    destruct (strm_step_ok c ft g s i Hc Hd Hft HI Hex) as [Hok Hn].
    split; [exact Hok|]. rewrite Hn. apply IH.
    + apply step_inv; assumption.
    + intros HL. apply exact_step; assumption.
Qed.

(* strm::fifo with latency >= 1, and the fall-through mode on a latency-1 FIFO, behave as a
   queue at the stream interface: a beat enters when valid(in) & ready(in), the oldest beat
   not yet delivered (possibly the one entering right now) is on the output whenever
   valid(out), it leaves when valid(out) & ready(out) *)
Lemma strm_fifo_refines_queue_proof : forall c ft ins, cfg_ok c -> c_dual c = false ->
  (ft = true -> c_lat c = 1%nat) ->
  sq_spec (depth c) [] (fst (strm_run c ft (init c) ins)).
Proof.
  intros c ft ins Hc Hd Hft. rewrite <- (q_of_init c).
  apply (strm_run_inv c ft Hc Hd Hft ins (init c) (g_init c) (inv_init c)).
  intros _. apply exact_init.
Qed.

(* a legal stream-queue trace delivers exactly what entered, in order *)
Lemma sq_conservation cap : forall tr q, sq_spec cap q tr ->
  map Some q ++ map Some (s_accepted tr) = s_delivered tr ++ map Some (sq_after q tr).
Proof.
  induction tr as [|[o i] r IH]; intros q H.
  - cbn. rewrite app_nil_r. reflexivity.
  - destruct H as [[_ [_ Hv]] Hr]. specialize (IH _ Hr).
    unfold s_accepted, s_delivered in *. cbn [flat_map sq_after fst snd]. rewrite map_app.
    unfold sq_next, sq_with_in in *.
    set (a := if in_fire o i then [si_data i] else []) in *.
    rewrite app_assoc, <- map_app.
    destruct (out_fire o i) eqn:Ef.
    + unfold out_fire in Ef. apply andb_prop in Ef. destruct Ef as [Ev _].
      destruct (Hv Ev) as [h [Hh Hd]]. rewrite Hd.
      destruct (q ++ a) as [|x t] eqn:Eq; [discriminate|]. cbn in Hh. injection Hh as ->.
      cbn [tl] in IH. cbn [map app]. f_equal. exact IH.
    + cbn [app]. exact IH.
Qed.

Lemma strm_fifo_in_order_proof : forall c ft ins, cfg_ok c -> c_dual c = false ->
  (ft = true -> c_lat c = 1%nat) ->
  let tr := fst (strm_run c ft (init c) ins) in
  s_delivered tr ++ map Some (sq_after [] tr) = map Some (s_accepted tr).
Proof.
  intros c ft ins Hc Hd Hft tr. symmetry.
  apply (sq_conservation (depth c) tr []). apply strm_fifo_refines_queue_proof; assumption.
Qed.

(* ---------------- the side condition is necessary ---------------- *)
(* depth 128, inner latency 2, fall-through: beat 1 arrives while the consumer stalls, beat 2
   arrives in the next cycle with the consumer ready: 2 is delivered before 1 *)
Definition ft_bad_cfg := mkCfg 7 2 false 0 0.
Definition ft_bad_ins :=
  [mkSin false 0 false; mkSin true 1 false; mkSin true 2 true; mkSin false 0 true; mkSin false 0 true;
   mkSin false 0 true].

Lemma strm_fallthrough_latency2_trace :
  let tr := fst (strm_run ft_bad_cfg true (init ft_bad_cfg) ft_bad_ins) in
  s_accepted tr = [1; 2] /\ s_delivered tr = [Some 2; Some 1].
Proof. vm_compute. split; reflexivity. Qed.

Lemma strm_fallthrough_latency2_refuted_proof :
  cfg_ok ft_bad_cfg /\ c_dual ft_bad_cfg = false /\ c_lat ft_bad_cfg = 2%nat /\
  ~ sq_spec (depth ft_bad_cfg) [] (fst (strm_run ft_bad_cfg true (init ft_bad_cfg) ft_bad_ins)).
Proof.
  split; [split; cbn; intros; [lia | discriminate]|]. split; [reflexivity|]. split; [reflexivity|].
  intros H. apply sq_conservation in H.
  destruct strm_fallthrough_latency2_trace as [Ea Ed]. cbn zeta in Ea, Ed.
  rewrite Ea, Ed in H. cbn in H. discriminate.
Qed.
