(* C19 -- invariants, part 8: the tick grid.
   Clock pins toggle at the multiples of the half period; the activating (rising) flanks are the even ones, i.e.
   the multiples of 1/f.  A process that waits for a clock is resumed at a tick k/f (k >= 1) of that clock with no
   tick between its suspension and its resumption -- whether the clock drives clocked nodes (the process sits in
   ClockDomain::awaitingSimProcs until the next activating clockPinTrigger) or not (the simulator computes
   (floor(now*f)+1)/f and queues an ordinary event).  Two clocks of equal frequency therefore resume their waiters
   at the same instants. *)
From Coq Require Import List NArith ZArith QArith Qreduction Bool Lia Lqa.
From Gatery Require Import SimProcDefs SimProcOrder SimProcSteps SimProcInv1 SimProcInv2 SimProcInv3 SimProcInv4.
Import ListNotations.
Local Close Scope Q_scope.

(* ------------------------------------------------------------------------- *)
(** * Arithmetic of ticks *)

Definition peven (m : positive) : bool := match m with xO _ => true | _ => false end.

Lemma inject_Z_succ_mul : forall m h, (inject_Z (m + 1) * h == inject_Z m * h + h)%Q.
Proof. intros. rewrite inject_Z_plus. change (inject_Z 1) with 1%Q. ring. Qed.

Lemma half_period_double : forall f, (0 < f)%Q -> (2 * half_period f == / f)%Q.
Proof. intros f Hf. unfold half_period. rewrite Qred_correct. field. intro E. rewrite E in Hf. exact (Qlt_irrefl _ Hf). Qed.

Lemma clk_half_double : forall cfg k, (2 * clk_half cfg k == / clk_freq cfg k)%Q.
Proof. intros cfg k. destruct k; apply half_period_double; apply pQ_pos. Qed.

(* j/f for the tick number j *)
Definition tick (f : Q) (j : Z) : Q := (inject_Z j / f)%Q.

Lemma even_grid_is_tick : forall cfg k j, (inject_Z (Zpos (xO j)) * clk_half cfg k == tick (clk_freq cfg k) (Zpos j))%Q.
Proof.
  intros cfg k j. unfold tick, Qdiv. rewrite <- (clk_half_double cfg k).
  change (Zpos (xO j)) with (2 * Zpos j)%Z. rewrite inject_Z_mult. change (inject_Z 2) with 2%Q. ring.
Qed.

Lemma qfloor_unique : forall x n, (inject_Z n <= x)%Q -> (x < inject_Z (n + 1))%Q -> qfloor x = n.
Proof.
  intros [a d] n H1 H2. unfold qfloor, Qle, Qlt, inject_Z in *. simpl in *. rewrite Z.mul_1_r in *.
  symmetry. apply (Z.div_unique a (Zpos d) n (a - Zpos d * n)); lia.
Qed.

Lemma next_tick_is_tick : forall f now, (next_tick f now == tick f (qfloor (now * f) + 1))%Q.
Proof. intros. unfold next_tick, tick. apply Qred_correct. Qed.

(* the tick after which no earlier tick lies beyond t0 is THE next tick of t0 *)
Lemma tick_unique : forall f t0 j, (0 < f)%Q ->
  (tick f j - / f <= t0)%Q -> (t0 < tick f j)%Q -> (tick f j == next_tick f t0)%Q.
Proof.
  intros f t0 j Hf H1 H2. rewrite next_tick_is_tick.
  assert (Nz : ~ (f == 0)%Q) by (intro E; rewrite E in Hf; exact (Qlt_irrefl _ Hf)).
  assert (E : qfloor (t0 * f) = (j - 1)%Z).
  { apply qfloor_unique.
    - unfold tick in H1. assert (X : (inject_Z (j - 1) == (inject_Z j / f - / f) * f)%Q).
      { replace (j - 1)%Z with (j + -1)%Z by lia. rewrite inject_Z_plus. change (inject_Z (-1)) with (-(1))%Q. field. exact Nz. }
      rewrite X. apply Qmult_le_compat_r; [exact H1 | apply Qlt_le_weak; exact Hf].
    - replace (j - 1 + 1)%Z with j by lia. unfold tick in H2.
      assert (X : (inject_Z j == (inject_Z j / f) * f)%Q) by (field; exact Nz).
      rewrite X. apply Qmult_lt_r; assumption. }
  rewrite E. replace (j - 1 + 1)%Z with j by lia. reflexivity.
Qed.

Lemma next_tick_prev_le : forall f t0, (0 < f)%Q -> (next_tick f t0 - / f <= t0)%Q.
Proof.
  intros f t0 Hf. rewrite next_tick_is_tick. unfold tick.
  assert (Nz : ~ (f == 0)%Q) by (intro E; rewrite E in Hf; exact (Qlt_irrefl _ Hf)).
  assert (X : (inject_Z (qfloor (t0 * f) + 1) / f - / f == inject_Z (qfloor (t0 * f)) / f)%Q).
  { rewrite inject_Z_plus. change (inject_Z 1) with 1%Q. field. exact Nz. }
  rewrite X. apply Qle_shift_div_r; [exact Hf | apply qfloor_le].
Qed.

Lemma qfloor_nonneg : forall x, (0 <= x)%Q -> (0 <= qfloor x)%Z.
Proof. intros [a d] H. unfold qfloor, Qle in *. simpl in *. apply Z.div_pos; lia. Qed.

(* ------------------------------------------------------------------------- *)
(** * The invariant *)

(* a resumption of a clock wait: at tick j >= 1 of its clock, not before the suspension, no tick in between *)
Definition clk_wake_ok (f : Q) (t t0 : Q) : Prop :=
  exists j : positive, (t == tick f (Zpos j))%Q /\ (t0 <= t)%Q /\ (t - / f <= t0)%Q.

Definition gwake_ok (cfg : config) (t : Q) (ph : phase) (w : wake) (g : ghost) : Prop :=
  match w with
  | WkClk c _ => clk_wake_ok (clk_freq cfg (eff_clk cfg c)) t (g_t0 g)
  | WkX i ph' => (t == next_tick (extra_freq cfg i) (g_t0 g))%Q /\ ph = ph' /\ (0 <= g_t0 g)%Q
  | _ => True
  end.

Definition gentry_ok (cfg : config) (e : entry) : Prop :=
  match e with
  | LProc t ph _ _ _ (AWake w g) => gwake_ok cfg t ph w g
  | _ => True
  end.

(* time of the next activating flank, given the pending clockPinTrigger x *)
Definition next_rise (cfg : config) (x : event) : Q :=
  if e_rising x then e_time x else (e_time x + clk_half cfg (e_pin x))%Q.

Record inv8 (cfg : config) (s : state) : Prop := mk_inv8 {
  i8_now : (0 <= s_now s)%Q;
  i8_trig : forall x, In x (s_queue s) -> e_type x = ClockPinTrigger ->
              exists m : positive, (e_time x == inject_Z (Zpos m) * clk_half cfg (e_pin x))%Q /\ e_rising x = peven m
                                   /\ (e_time x - clk_half cfg (e_pin x) <= s_now s)%Q;
  i8_await : forall k a x, In a (get_await k s) -> In x (s_queue s) -> e_type x = ClockPinTrigger -> e_pin x = k ->
               (next_rise cfg x - 2 * clk_half cfg k <= aw_t0 a)%Q /\ (aw_t0 a <= s_now s)%Q;
  i8_event : forall e, In e (s_queue s) -> e_type e = SimProcResume -> gwake_ok cfg (e_time e) (e_phase e) (e_why e) (e_g e);
  i8_task : forall pid w g, In (TWake pid w g) (s_ready s) -> gwake_ok cfg (s_now s) (s_phase s) w g;
  i8_log : forall e, In e (s_log s) -> gentry_ok cfg e
}.

Lemma gwake_ok_time : forall cfg t t' ph w g, (t == t')%Q -> gwake_ok cfg t ph w g -> gwake_ok cfg t' ph w g.
Proof.
  intros cfg t t' ph w g E H. destruct w; simpl in *; try exact H.
  - destruct H as (j & H1 & H2 & H3). exists j. rewrite <- E. repeat split; assumption.
  - destruct H as (H1 & H2 & H3). rewrite <- E. repeat split; assumption.
Qed.

Lemma handle_trigger_await : forall cfg e s k,
  get_await k (handle_trigger cfg e s) = if e_rising e && clk_eqb k (e_pin e) then [] else get_await k s.
Proof.
  intros cfg e s k. unfold handle_trigger.
  set (s0 := add_log (LTrigger (e_time e) (e_pin e) (e_rising e)) s).
  assert (A0 : forall k', get_await k' s0 = get_await k' s).
  { intro k'. destruct (add_log_bk (LTrigger (e_time e) (e_pin e) (e_rising e)) s) as (_ & Aa & Bb & _). destruct k'; assumption. }
  assert (PA : forall x st k', get_await k' (push_event x st) = get_await k' st) by (intros x st k'; destruct k'; reflexivity).
  rewrite !PA. destruct (e_rising e); simpl; [|apply A0].
  destruct (fold_push_other (awaiter_event e) (get_await (e_pin e) s0) s0) as (La & Lb & _).
  destruct k, (e_pin e); cbn [get_await set_await s_await_a s_await_b clk_eqb] in *; try reflexivity;
    rewrite ?La, ?Lb; [apply (A0 CA) | apply (A0 CB)].
Qed.

Section Inv.
Variable cfg : config.
Variables (procs : list script) (fiber : bool) (tb : list bool).
Notation c0 := (boot cfg procs fiber tb, @nil frame).
Notation reach := (treach cfg c0).

Lemma boot_inv8 : inv8 cfg (boot cfg procs fiber tb).
Proof.
  assert (Z : s_now (boot cfg procs fiber tb) = 0%Q) by (unfold boot; destruct (c_two cfg); reflexivity).
  constructor.
  - rewrite Z. apply Qle_refl.
  - intros x Hx Tx. apply (boot_queue cfg procs fiber tb) in Hx. rewrite Z.
    destruct Hx as [->|[_ ->]]; exists 1%positive; unfold trigger_event; cbn [e_time e_pin e_rising]; rewrite tadd_eq;
      (split; [change (inject_Z 1) with 1%Q; ring | split; [reflexivity | ring_simplify; apply Qle_refl]]).
  - unfold boot. destruct (c_two cfg); intros [|] a x [].
  - intros e He Ty. apply (boot_queue cfg procs fiber tb) in He. destruct He as [->|[_ ->]]; discriminate.
  - unfold boot. destruct (c_two cfg); intros pid w g [].
  - intros e He. unfold boot, reevaluate in He. rewrite add_log_log in He.
    destruct (c_two cfg); simpl in He; destruct He as [<-|[]]; exact I.
Qed.

(* entries of a process step: no AWake *)
Lemma effect_glog : forall s s', effect false s s' -> (forall e, In e (s_log s) -> gentry_ok cfg e) ->
  forall e, In e (s_log s') -> gentry_ok cfg e.
Proof.
  intros s s' Ef Ho e He.
  destruct Ef as [new L _ _ Fa | pid x L _ _ | pid p v L _ _ | pid p v L _]; rewrite L in He.
  - apply in_app_or in He. destruct He as [He|He]; [|apply Ho; exact He].
    destruct (proj1 (Forall_forall _ _) Fa e He) as (pid & a & -> & _ & Na). unfold stamped, gentry_ok.
    destruct a; try exact I. exfalso. eapply Na; reflexivity.
  - destruct He as [<-|He]; [exact I | apply Ho; exact He].
  - destruct He as [<-|He]; [exact I | apply Ho; exact He].
  - destruct He as [<-|[<-|He]]; [exact I | exact I | apply Ho; exact He].
Qed.

Lemma reach_inv8 : forall c, reach c -> inv8 cfg (fst c).
Proof.
  induction 1 as [|c c' R IH T]; [exact boot_inv8|].
  pose proof (reach_sorted cfg procs fiber tb _ R) as Srt.
  pose proof (reach_inv4a cfg procs fiber tb _ R) as I4.
  pose proof IH as IH0. destruct IH as [In0 It Ia Ie Ik Il].
  inv_tstep T; cbn [fst] in *.
  - (* process step *)
    pose proof (step_frame_spec _ _ _ _ _ Hsf) as F.
    pose proof (step_frame_ctl cfg f s) as C. rewrite Hsf in C. cbn [snd] in C. destruct C as (C1 & C2 & C3 & C4).
    pose proof (frame_step_effect cfg f s s' F Hh) as Ef.
    assert (Lg : forall e, In e (s_log s') -> gentry_ok cfg e) by (apply (effect_glog s s' Ef Il)).
    assert (Tk : forall pid w g, In (TWake pid w g) (s_ready s') -> gwake_ok cfg (s_now s') (s_phase s') w g).
    { intros pid w g Hin. destruct (frame_step_ready cfg f s s' _ F Hin) as [Hin'|B].
      - rewrite C1, C2. eapply Ik; exact Hin'.
      - destruct B as [(p & n & E)|[(p & k & g' & E)|(p & E)]]; inversion E; subst; exact I. }
    destruct (frame_step_bk cfg f s s' F) as [Q A B W N Cq|pid q Q A B W N Cq|pid c ph Q A B W N Cq|pid m Q A B W N Cq|pid Q A B W N Cq|pid xi ph Q A B W N Cq].
    + constructor; try assumption; rewrite ?C1, ?Q; try assumption.
      intros k a x Ha. apply Ia. destruct k; simpl in *; congruence.
    + constructor; try assumption; rewrite ?C1; try assumption.
      * rewrite Q. intros x Hx Tx. apply q_insert_in in Hx. destruct Hx as [->|Hx]; [discriminate | apply It; assumption].
      * rewrite Q. intros k a x Ha Hx Tx Px. apply q_insert_in in Hx. destruct Hx as [->|Hx]; [discriminate|].
        apply Ia; try assumption. destruct k; simpl in *; congruence.
      * rewrite Q. intros e He Ty. apply q_insert_in in He. destruct He as [->|He]; [exact I | apply Ie; assumption].
    + (* WaitClock on a clock with clocked nodes: a new awaiter *)
      constructor; try assumption; rewrite ?C1; try assumption.
      * rewrite Q. exact It.
      * rewrite Q. intros k a x Ha Hx Tx Px.
        assert (Old : forall a0, In a0 (get_await k s) -> (next_rise cfg x - 2 * clk_half cfg k <= aw_t0 a0)%Q /\ (aw_t0 a0 <= s_now s)%Q)
          by (intros a0 Ha0; apply Ia; assumption).
        destruct (clk_eqb k (eff_clk cfg c)) eqn:Ek.
        -- assert (Kc : k = eff_clk cfg c) by (destruct k, (eff_clk cfg c); try discriminate; reflexivity).
           rewrite Kc in Ha. rewrite A in Ha. apply in_app_or in Ha. destruct Ha as [Ha|[<-|[]]]; [apply Old; rewrite Kc; exact Ha|].
           simpl. destruct (It x Hx Tx) as (m & E1 & E2 & E3). rewrite Px in E3.
           pose proof (clk_half_pos cfg k) as Hp.
           split; [|apply Qle_refl]. unfold next_rise. rewrite Px. destruct (e_rising x); lra.
        -- assert (k <> eff_clk cfg c) by (intro Kc; rewrite Kc in Ek; destruct (eff_clk cfg c); discriminate).
           rewrite (B k) in Ha by assumption. apply Old; exact Ha.
      * rewrite Q. exact Ie.
    + constructor; try assumption; rewrite ?C1, ?Q; try assumption.
      intros k a x Ha. apply Ia. destruct k; simpl in *; congruence.
    + constructor; try assumption; rewrite ?C1, ?Q; try assumption.
      intros k a x Ha. apply Ia. destruct k; simpl in *; congruence.
    + (* WaitClock on a clock without clocked nodes *)
      constructor; try assumption; rewrite ?C1; try assumption.
      * rewrite Q. intros x Hx Tx. apply q_insert_in in Hx. destruct Hx as [->|Hx]; [discriminate | apply It; assumption].
      * rewrite Q. intros k a x Ha Hx Tx Px. apply q_insert_in in Hx. destruct Hx as [->|Hx]; [discriminate|].
        apply Ia; try assumption. destruct k; simpl in *; congruence.
      * rewrite Q. intros e He Ty. apply q_insert_in in He. destruct He as [->|He]; [|apply Ie; assumption].
        simpl. split; [reflexivity | split; [reflexivity | exact In0]].
  - (* task: the only place where AWake entries are written *)
    pose proof (task_head_bk t (set_ready r s)) as B. rewrite Hth in B. cbn [snd] in B. destruct B as (Q & A & B & _).
    pose proof (task_head_ctl t (set_ready r s)) as C. rewrite Hth in C. cbn [snd] in C. destruct C as (C1 & C2 & _).
    cbn in C1, C2.
    constructor; rewrite ?C1, ?Q; try assumption.
    + intros k a x Ha. apply Ia. destruct k; simpl in *; congruence.
    + intros pid w g Hin.
      assert (Hin' : In (TWake pid w g) (s_ready (snd (task_head t (set_ready r s))))) by (rewrite Hth; exact Hin).
      apply task_head_ready in Hin'. rewrite C2. destruct Hin' as [Hin'|Bn].
      * apply (Ik pid w g). rewrite Hrd. right. exact Hin'.
      * destruct Bn as [(p & n & E)|[(p & k & g' & E)|(p & E)]]; inversion E; subst; exact I.
    + intros e He.
      assert (E' : s' = snd (task_head t (set_ready r s))) by (rewrite Hth; reflexivity).
      destruct t as [pid|pid w g|pid n].
      * simpl in E'. subst s'. apply Il. exact He.
      * assert (L : s_log s' = s_log (log_wake pid w g (set_ready r s))).
        { subst s'. simpl. destruct (p_fiber _); reflexivity. }
        rewrite L in He. clear L E'.
        assert (Ok : gwake_ok cfg (s_now s) (s_phase s) w g) by (apply (Ik pid w g); rewrite Hrd; left; reflexivity).
        assert (He0 : s_err (set_ready r s) = false) by (apply halted_false_err; exact Hh).
        unfold log_wake in He.
        assert (L1 : forall x, In x (s_log (log_proc pid (AWake w g) (set_ready r s))) -> gentry_ok cfg x).
        { intros x Hx. rewrite log_proc_log in Hx by exact He0. destruct Hx as [<-|Hx]; [exact Ok | apply Il; exact Hx]. }
        destruct w; try (apply L1; exact He).
        unfold log_watch in He. rewrite log_proc_log in He by (rewrite log_proc_err; exact He0).
        destruct He as [<-|He]; [exact I | apply L1; exact He].
      * assert (L : s_log s' = s_log s).
        { subst s'. destruct n; simpl; [reflexivity|]. destruct (p_script _); reflexivity. }
        rewrite L in He. apply Il. exact He.
  - (* event *)
    destruct (pop_event_queue s e s1 Hpop) as (e2 & rr & Qc & A1 & B1 & _).
    destruct (pop_event_top _ _ _ Hpop) as (((P1 & P2 & P3 & P4) & PE & PO & PR) & PL).
    destruct (pop_event_stamp s e s1 Hpop Htm) as (St1 & St2 & St3).
    assert (Qin : forall x, In x (s_queue s) <-> x = e \/ In x (s_queue s1)).
    { intro x. destruct Qc as [Q|(Q & Q1 & _)]; rewrite Q; [|rewrite Q1]; simpl; intuition auto. }
    assert (Aw1 : forall k, get_await k s1 = get_await k s) by (intro k; destruct k; assumption).
    assert (It1 : forall x, In x (s_queue s1) -> e_type x = ClockPinTrigger ->
              exists m : positive, (e_time x == inject_Z (Zpos m) * clk_half cfg (e_pin x))%Q /\ e_rising x = peven m
                                   /\ (e_time x - clk_half cfg (e_pin x) <= s_now s)%Q)
      by (intros x Hx; apply It; apply Qin; right; exact Hx).
    assert (Ie1 : forall x, In x (s_queue s1) -> e_type x = SimProcResume -> gwake_ok cfg (e_time x) (e_phase x) (e_why x) (e_g x))
      by (intros x Hx; apply Ie; apply Qin; right; exact Hx).
    assert (Il1 : forall x, In x (s_log s1) -> gentry_ok cfg x) by (rewrite PL; exact Il).
    pose proof (halted_false_err s Hh) as He. assert (He1 : s_err s1 = false) by congruence.
    unfold event_head. destruct (e_type e) eqn:Ty.
    + (* clockPinTrigger *)
      destruct (handle_trigger_circ_log cfg e s1 He1) as (_ & L).
      destruct (handle_trigger_top cfg e s1) as ((T1 & T2 & T3 & T4) & _ & _ & TR).
      destruct (It e (proj2 (Qin e) (or_introl eq_refl)) Ty) as (m & Em & Rm & Lm).
      pose proof (clk_half_pos cfg (e_pin e)) as Hp.
      constructor.
      * rewrite T1, P1. exact In0.
      * rewrite T1, P1. intros x Hx Tx. apply handle_trigger_queue in Hx. destruct Hx as [Hx|[->|[->|(_ & Hx)]]].
        -- apply It1; assumption.
        -- discriminate.
        -- exists (m + 1)%positive. simpl. rewrite tadd_eq. split; [|split].
           ++ rewrite Pos2Z.inj_add, inject_Z_succ_mul, Em. reflexivity.
           ++ rewrite Rm. destruct m; reflexivity.
           ++ rewrite <- St1. lra.
        -- apply in_map_iff in Hx. destruct Hx as (a & <- & _). discriminate.
      * rewrite T1, P1. intros k a x Ha Hx Tx Px. rewrite handle_trigger_await in Ha.
        destruct (e_rising e && clk_eqb k (e_pin e)) eqn:Cl; [destruct Ha|]. rewrite Aw1 in Ha.
        apply handle_trigger_queue in Hx. destruct Hx as [Hx|[->|[->|(_ & Hx)]]].
        -- apply Ia; try assumption. apply Qin. right. exact Hx.
        -- discriminate.
        -- (* the re-armed trigger: the flank just served was a falling one, the next activating flank is unchanged *)
           simpl in Px. subst k.
           assert (Rf : e_rising e = false).
           { destruct (e_rising e); [|reflexivity]. simpl in Cl. destruct (e_pin e); discriminate. }
           destruct (Ia (e_pin e) a e Ha (proj2 (Qin e) (or_introl eq_refl)) Ty eq_refl) as (G1 & G2).
           split; [|exact G2]. unfold next_rise in *. simpl. rewrite Rf in *. simpl. rewrite tadd_eq. exact G1.
        -- apply in_map_iff in Hx. destruct Hx as (a' & <- & _). discriminate.
      * intros x Hx Tx. apply handle_trigger_queue in Hx. destruct Hx as [Hx|[->|[->|(Hr & Hx)]]]; try discriminate Tx.
        -- apply Ie1; assumption.
        -- (* the awaiters become resumptions at this activating flank: a tick of the clock *)
           apply in_map_iff in Hx. destruct Hx as (a & <- & Ha). simpl.
           rewrite Aw1 in Ha.
           destruct (i4_await _ _ I4 _ _ Ha) as (c' & Hw & Hk). rewrite Hw. simpl. rewrite Hk.
           destruct (Ia (e_pin e) a e Ha (proj2 (Qin e) (or_introl eq_refl)) Ty eq_refl) as (G1 & G2).
           unfold next_rise in G1. rewrite Hr in G1.
           rewrite Hr in Rm. destruct m as [m'|j|]; try discriminate Rm.
           exists j. split; [rewrite Em; apply even_grid_is_tick|]. split; [rewrite St1; exact G2|].
           rewrite <- (clk_half_double cfg (e_pin e)). exact G1.
      * intros pid w g Hin. rewrite TR, PR, Hrd in Hin. destruct Hin.
      * rewrite L. intros x [<-|Hx]; [exact I | apply Il1; exact Hx].
    + (* resumption *)
      constructor; simpl; rewrite ?P1; try assumption.
      * intros k a x Ha Hx. assert (Ha' : In a (get_await k s)) by (destruct k; simpl in *; congruence).
        apply Ia; [exact Ha' | apply Qin; right; exact Hx].
      * intros pid w g Hin. rewrite PR, Hrd in Hin. destruct Hin as [Hin|[]]. inversion Hin; subst.
        rewrite P2, <- St2. eapply gwake_ok_time; [exact St1|].
        apply Ie; [apply Qin; left; reflexivity | exact Ty].
    + (* value change *)
      destruct (handle_value_change_bk cfg e s1) as (Q2 & A2 & B2 & _).
      destruct (handle_value_change_top cfg e s1) as ((T1 & T2 & T3 & T4) & _ & _ & TR).
      constructor; rewrite ?T1, ?P1, ?Q2; try assumption.
      * intros k a x Ha Hx. assert (Ha' : In a (get_await k s)) by (destruct k; simpl in *; congruence).
        apply Ia; [exact Ha' | apply Qin; right; exact Hx].
      * intros pid w g Hin. rewrite TR, PR, Hrd in Hin. destruct Hin.
      * intros x Hx. unfold handle_value_change in Hx. rewrite add_log_log in Hx.
        destruct (e_rising e); simpl in Hx; rewrite He1 in Hx; (destruct Hx as [<-|Hx]; [exact I | apply Il1; exact Hx]).
    + constructor; rewrite ?P1; try assumption.
      * intros k a x Ha Hx. rewrite (Aw1 k) in Ha. apply Ia; [exact Ha | apply Qin; right; exact Hx].
      * intros pid w g Hin. rewrite PR, Hrd in Hin. destruct Hin.
  - (* micro end *)
    destruct (micro_end_fields s) as (M1 & M2 & M3 & M4 & M5 & M6).
    pose proof (halted_false_err s Hh) as He.
    destruct (micro_end_circ_log s He) as (_ & fires & L & Ff).
    constructor; rewrite ?M1; try assumption.
    + intros x Hx Tx. apply micro_end_queue in Hx. destruct Hx as [Hx|Hx]; [apply It; assumption|].
      apply in_map_iff in Hx. destruct Hx as (w & <- & _). discriminate.
    + intros k a x Ha Hx Tx Px. destruct (micro_end_other s k) as (_ & E). rewrite E in Ha.
      apply micro_end_queue in Hx. destruct Hx as [Hx|Hx]; [apply Ia; assumption|].
      apply in_map_iff in Hx. destruct Hx as (w & <- & _). discriminate.
    + intros x Hx Tx. apply micro_end_queue in Hx. destruct Hx as [Hx|Hx]; [apply Ie; assumption|].
      apply in_map_iff in Hx. destruct Hx as (w & <- & _). exact I.
    + intros pid w g Hin. rewrite M4, Hrd in Hin. destruct Hin.
    + rewrite L. intros x [<-|Hx]; [exact I|]. apply in_app_or in Hx. destruct Hx as [Hx|[<-|Hx]]; [|exact I | apply Il; exact Hx].
      destruct (proj1 (Forall_forall _ _) Ff x Hx) as (p & r & c & ->). exact I.
  - (* phase begin *)
    destruct (phase_begin_fields ph s) as (F1 & F2 & F3 & F4 & F5 & F6 & F7 & F8).
    destruct (phase_begin_bk ph s) as (Q & A & B & _).
    constructor; rewrite ?F1, ?F7; try assumption.
    + intros k a x Ha. apply Ia. destruct k; simpl in *; congruence.
    + intros pid w g Hin. rewrite F4, Hrd in Hin. destruct Hin.
    + intros x Hx. unfold phase_begin in Hx. rewrite add_log_log in Hx. simpl in Hx.
      destruct (s_err s); [|destruct Hx as [<-|Hx]; [exact I|]]; apply Il; exact Hx.
  - constructor; assumption.
  - constructor; try assumption.
    intros pid' w g Hin. simpl in Hin. rewrite Hrd in Hin. destruct Hin as [Hin|[]]. inversion Hin; subst. exact I.
  - (* commit end *)
    destruct (commit_end_bk s) as (Q & A & B & _).
    assert (Nw : s_now (commit_end s) = s_now s) by (unfold commit_end; cbn [s_now set_readonly]; apply add_log_ctl).
    constructor; rewrite ?Nw, ?Q; try assumption.
    + intros k a x Ha. apply Ia. destruct k; simpl in *; congruence.
    + intros pid w g Hin. unfold commit_end in Hin. simpl in Hin. rewrite add_log_ready, Hrd in Hin. destruct Hin.
    + intros x Hx. unfold commit_end in Hx. cbn [s_log set_readonly] in Hx. rewrite add_log_log in Hx.
      destruct (s_err s); [|destruct Hx as [<-|Hx]; [exact I|]]; apply Il; exact Hx.
  - (* set time: time only moves forward *)
    assert (Ge : (s_now s <= e_time e)%Q) by (apply (i4_future _ _ I4); rewrite Hq; left; reflexivity).
    constructor; simpl; try assumption.
    + lra.
    + intros x Hx Tx. destruct (It x Hx Tx) as (m & E1 & E2 & E3). exists m. repeat split; try assumption. lra.
    + intros k a x Ha Hx Tx Px. destruct (Ia k a x Ha Hx Tx Px) as (G1 & G2). split; [exact G1 | lra].
    + intros pid w g Hin. rewrite Hrd in Hin. destruct Hin.
  - apply clock_less_lt in Hcl.
    constructor; simpl; try assumption.
    + lra.
    + intros x Hx Tx. destruct (It x Hx Tx) as (m & E1 & E2 & E3). exists m. repeat split; try assumption. lra.
    + intros k a x Ha Hx Tx Px. destruct (Ia k a x Ha Hx Tx Px) as (G1 & G2). split; [exact G1 | lra].
    + intros pid w g Hin. rewrite Hrd in Hin. destruct Hin.
  - constructor; assumption.
  - constructor; try assumption.
    intros pid' w g Hin. simpl in Hin. rewrite Hrd in Hin. destruct Hin as [Hin|[]]. discriminate.
  - (* fiber start *)
    unfold fiber_start in Hfs.
    assert (E' : s' = snd (fiber_continue pid (log_proc pid AStart s))) by (rewrite Hfs; reflexivity).
    pose proof (fiber_continue_cont pid (log_proc pid AStart s)) as Cs. rewrite <- E' in Cs.
    destruct (cont_states_bk _ _ _ Cs) as (Q & A & B & _). destruct (log_proc_bk pid AStart s) as (Q' & A' & B' & _).
    assert (Ct : same_ctl s s') by (eapply same_ctl_trans; [apply log_proc_ctl | apply (cont_states_ctl _ _ _ Cs)]).
    destruct Ct as (C1 & C2 & C3 & C4).
    constructor; rewrite ?C1, ?Q, ?Q'; try assumption.
    + intros k a x Ha. apply Ia. destruct k; simpl in *; congruence.
    + intros pid' w g Hin. destruct (cont_states_ready _ _ _ _ Cs Hin) as [Hin'|Bn].
      * exfalso. unfold log_proc in Hin'. rewrite add_log_ready, Hrd in Hin'. destruct Hin'.
      * destruct Bn as [(p & n & E)|[(p & k & g' & E)|(p & E)]]; inversion E; subst; exact I.
    + intros x Hx. destruct (cont_states_lg _ _ _ Cs) as (L & _). rewrite L in Hx.
      rewrite log_proc_log in Hx by (apply halted_false_err; exact Hh). destruct Hx as [<-|Hx]; [exact I | apply Il; exact Hx].
  - (* reevaluate *)
    destruct (reevaluate_bk s) as (Q & A & B & _). destruct (reevaluate_top s) as ((C1 & C2 & C3 & C4) & _ & _ & C5).
    constructor; rewrite ?C1, ?Q; try assumption.
    + intros k a x Ha. apply Ia. destruct k; simpl in *; congruence.
    + intros pid w g Hin. rewrite C5, Hrd in Hin. destruct Hin.
    + intros x Hx. unfold reevaluate in Hx. rewrite add_log_log in Hx. simpl in Hx.
      destruct (s_err s); [|destruct Hx as [<-|Hx]; [exact I|]]; apply Il; exact Hx.
Qed.

End Inv.

(* ------------------------------------------------------------------------- *)
(** * Consequences for complete runs *)

Lemma run_inv8 : forall cfg procs fiber until tb fuel, inv8 cfg (run cfg procs fiber until tb fuel).
Proof.
  intros. destruct (run_reachable cfg procs fiber until tb fuel) as (stk & R).
  exact (reach_inv8 cfg procs fiber tb _ R).
Qed.

(* Every resumption from a clock wait happens at a tick k/f (k >= 1) of the awaited clock, not before the
   suspension, with no tick strictly between suspension and resumption -- for clocks with clocked nodes (WkClk)
   and for clocks that are not part of the simulation program (WkX: exactly (floor(t0*f)+1)/f, in the
   requested phase). *)
Lemma waitclk_on_tick_grid_proof : forall cfg procs fiber until tb fuel,
  (forall t ph mt ro pid c wph g,
     In (LProc t ph mt ro pid (AWake (WkClk c wph) g)) (res_log (simulate cfg procs fiber until tb fuel)) ->
     exists j : positive, (t == tick (clk_freq cfg (eff_clk cfg c)) (Zpos j))%Q /\ (g_t0 g <= t)%Q
                          /\ (t - / clk_freq cfg (eff_clk cfg c) <= g_t0 g)%Q) /\
  (forall t ph mt ro pid i wph g,
     In (LProc t ph mt ro pid (AWake (WkX i wph) g)) (res_log (simulate cfg procs fiber until tb fuel)) ->
     (t == next_tick (extra_freq cfg i) (g_t0 g))%Q /\ ph = wph /\
     (exists j : Z, (1 <= j)%Z /\ (t == tick (extra_freq cfg i) j)%Q) /\
     (g_t0 g < t)%Q /\ (t - / extra_freq cfg i <= g_t0 g)%Q).
Proof.
  intros cfg procs fiber upto tb fuel. split.
  - intros t ph mt ro pid c wph g H. apply simulate_log_in in H.
    exact (i8_log _ _ (run_inv8 _ _ _ _ _ _) _ H).
  - intros t ph mt ro pid i wph g H. apply simulate_log_in in H.
    destruct (i8_log _ _ (run_inv8 _ _ _ _ _ _) _ H) as (E & P & Nn).
    pose proof (extra_freq_pos cfg i) as Hf.
    split; [exact E|]. split; [exact P|]. split; [|split].
    + exists (qfloor (g_t0 g * extra_freq cfg i) + 1)%Z. split.
      * assert (0 <= qfloor (g_t0 g * extra_freq cfg i))%Z by (apply qfloor_nonneg; apply Qmult_le_0_compat; [exact Nn | apply Qlt_le_weak; exact Hf]). lia.
      * rewrite E. apply next_tick_is_tick.
    + rewrite E. apply next_tick_gt. exact Hf.
    + rewrite E. apply next_tick_prev_le. exact Hf.
Qed.

(* Hence a clock that drives registers and a register-less clock of the same frequency wake their waiters at the
   same instants: a process that waited on clock c from t0 and was resumed strictly later was resumed exactly at
   the instant at which a wait on the register-less clock i, issued at the same t0, ends. *)
Lemma equal_frequency_same_instants_proof : forall cfg procs fiber until tb fuel t ph mt ro pid c wph g i,
  In (LProc t ph mt ro pid (AWake (WkClk c wph) g)) (res_log (simulate cfg procs fiber until tb fuel)) ->
  (clk_freq cfg (eff_clk cfg c) == extra_freq cfg i)%Q -> (g_t0 g < t)%Q ->
  (t == next_tick (extra_freq cfg i) (g_t0 g))%Q.
Proof.
  intros cfg procs fiber upto tb fuel t ph mt ro pid c wph g i H Ef Lt.
  destruct (proj1 (waitclk_on_tick_grid_proof cfg procs fiber upto tb fuel) t ph mt ro pid c wph g H) as (j & E1 & E2 & E3).
  pose proof (extra_freq_pos cfg i) as Hf.
  assert (Tk : (tick (clk_freq cfg (eff_clk cfg c)) (Zpos j) == tick (extra_freq cfg i) (Zpos j))%Q) by (unfold tick; rewrite Ef; reflexivity).
  rewrite E1, Tk. apply tick_unique; [exact Hf | |].
  - rewrite <- Tk, <- E1, <- Ef. exact E3.
  - rewrite <- Tk, <- E1. exact Lt.
Qed.
