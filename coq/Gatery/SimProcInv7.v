(* C19 -- invariants, part 7: with a single clock there is never more than one clockPinTrigger event in the
   queue, hence no two equivalent events, and the run never consults the tie-break stream. *)
From Coq Require Import List NArith ZArith QArith Qreduction Bool Lia.
From Gatery Require Import SimProcDefs SimProcOrder SimProcSteps SimProcInv1.
Import ListNotations.
Local Close Scope Q_scope.

Definition is_trigger (e : event) : bool := match e_type e with ClockPinTrigger => true | _ => false end.
Definition ntrig (q : list event) : nat := length (filter is_trigger q).

Lemma ntrig_cons : forall e q, ntrig (e :: q) = (if is_trigger e then 1 else 0) + ntrig q.
Proof. intros e q. unfold ntrig. simpl. destruct (is_trigger e); reflexivity. Qed.
Lemma ntrig_insert : forall e q, ntrig (q_insert e q) = ntrig (e :: q).
Proof.
  induction q as [|x r IH]; simpl; [reflexivity|]. destruct (ev_less x e); [reflexivity|].
  rewrite ntrig_cons, IH, !ntrig_cons. lia.
Qed.
Lemma ntrig_fold_resumes : forall {A} (f : A -> event) (l : list A) s,
  (forall a, is_trigger (f a) = false) ->
  ntrig (s_queue (fold_left (fun st a => push_event (f a) st) l s)) = ntrig (s_queue s).
Proof.
  induction l as [|a r IH]; intros s H; simpl; [reflexivity|]. rewrite IH by exact H.
  simpl. rewrite ntrig_insert, ntrig_cons, H. reflexivity.
Qed.

Record inv7 (s : state) : Prop := mk_inv7 { i7_one : ntrig (s_queue s) <= 1; i7_ties : s_ties s = 0%N }.

Section Inv.
Variable cfg : config.
Variables (procs : list script) (fiber : bool) (tb : list bool).
Hypothesis One : c_two cfg = false.
Notation c0 := (boot cfg procs fiber tb, @nil frame).
Notation reach := (treach cfg c0).

Lemma boot_inv7 : inv7 (boot cfg procs fiber tb).
Proof.
  unfold boot. rewrite One.
  assert (Q : forall st, s_queue (reevaluate st) = s_queue st /\ s_ties (reevaluate st) = s_ties st).
  { intro st. destruct (reevaluate_bk st) as (Q & _ & _ & _ & _ & _ & _ & T). split; assumption. }
  constructor; [rewrite (proj1 (Q _)) | rewrite (proj2 (Q _))]; reflexivity.
Qed.

Lemma same_bk_inv7 : forall s s', same_bk s s' -> inv7 s -> inv7 s'.
Proof. intros s s' (Q & _ & _ & _ & _ & _ & _ & T) [I1 I2]. constructor; congruence. Qed.

Lemma reach_inv7 : forall c, reach c -> inv7 (fst c).
Proof.
  induction 1 as [|c c' R IH T]; [exact boot_inv7|].
  pose proof IH as IH0. destruct IH as [I1 I2].
  inv_tstep T; cbn [fst] in *.
  - pose proof (step_frame_spec _ _ _ _ _ Hsf) as F.
    assert (Ti : s_ties s' = s_ties s).
    { clear -F. inversion F; subst; clear F; try reflexivity;
        try (match goal with H : cont_states _ _ _ |- _ => destruct H as [->| ->] end);
        cbv zeta; unfold finish_proc, log_watch, log_proc, suspend_waitclk, suspend_waitfor, suspend_waitchange, suspend_waitstable, suspend_waitx, fresh_id;
        try (destruct (eff_clk cfg c)); simpl;
        repeat match goal with |- context [add_log ?e ?x] => let H := fresh in pose proof (add_log_bk e x) as H; destruct H as (_ & _ & _ & _ & _ & _ & _ & ->) end;
        try reflexivity.
      match goal with |- context [fold_left ?f ?js ?x] => destruct (fold_enqueue_bk js x) as (_ & _ & _ & _ & _ & _ & _ & ->) end.
      simpl. repeat match goal with |- context [add_log ?e ?x] => let H := fresh in pose proof (add_log_bk e x) as H; destruct H as (_ & _ & _ & _ & _ & _ & _ & ->) end.
      reflexivity. }
    constructor; [|congruence].
    destruct (frame_step_bk cfg f s s' F) as [Q|pid q Q|pid c ph Q|pid m Q|pid Q|pid xi ph Q]; rewrite Q; try exact I1;
      rewrite ntrig_insert, ntrig_cons; simpl; exact I1.
  - pose proof (task_head_bk t (set_ready r s)) as B. rewrite Hth in B. cbn [snd] in B.
    apply (same_bk_inv7 (set_ready r s) s' B). constructor; assumption.
  - (* event *)
    assert (NoTie : s_ties s1 = s_ties s /\ s_queue s = e :: s_queue s1).
    { unfold pop_event in Hpop. destruct (s_queue s) as [|e1 [|e2 rr]] eqn:Q; [discriminate | inversion Hpop; subst; split; reflexivity|].
      destruct (e_type e1) eqn:T1; destruct (e_type e2) eqn:T2; try (inversion Hpop; subst; split; reflexivity).
      exfalso. rewrite !ntrig_cons in I1. unfold is_trigger in I1. rewrite T1, T2 in I1. lia. }
    destruct NoTie as (Ti & Qe).
    assert (N1 : ntrig (s_queue s1) + (if is_trigger e then 1 else 0) <= 1) by (rewrite Qe, ntrig_cons in I1; lia).
    unfold event_head. destruct (e_type e) eqn:Ty.
    + assert (Te : is_trigger e = true) by (unfold is_trigger; rewrite Ty; reflexivity). rewrite Te in N1.
      constructor.
      * unfold handle_trigger. simpl. rewrite ntrig_insert, ntrig_cons. simpl. rewrite ntrig_insert, ntrig_cons. simpl.
        set (s0 := add_log (LTrigger (e_time e) (e_pin e) (e_rising e)) s1).
        assert (Q0 : s_queue s0 = s_queue s1) by apply add_log_bk.
        destruct (e_rising e); [|rewrite Q0; lia].
        assert (Q1 : forall st, s_queue (set_await (e_pin e) [] st) = s_queue st) by (intro st; destruct (e_pin e); reflexivity).
        rewrite Q1, ntrig_fold_resumes by reflexivity. rewrite Q0. lia.
      * unfold handle_trigger. simpl.
        set (s0 := add_log (LTrigger (e_time e) (e_pin e) (e_rising e)) s1).
        assert (T0 : s_ties s0 = s_ties s1) by apply add_log_bk.
        destruct (e_rising e); [|congruence].
        assert (Q1 : forall st, s_ties (set_await (e_pin e) [] st) = s_ties st) by (intro st; destruct (e_pin e); reflexivity).
        rewrite Q1.
        assert (G : forall l st, s_ties (fold_left (fun st a => push_event (awaiter_event e a) st) l st) = s_ties st).
        { induction l as [|a r IHl]; intro st; simpl; [reflexivity | rewrite IHl; reflexivity]. }
        rewrite G. congruence.
    + constructor; simpl; [lia | congruence].
    + apply (same_bk_inv7 s1 _ (handle_value_change_bk cfg e s1)). constructor; [lia | congruence].
    + constructor; [lia | congruence].
  - (* micro end *)
    constructor.
    + unfold micro_end. simpl.
      assert (Q : forall e st, s_queue (add_log e st) = s_queue st) by (intros; apply add_log_bk). rewrite Q.
      unfold check_watches. simpl.
      set (s2 := reevaluate s).
      assert (G : forall l st, ntrig (s_queue (fold_left (fun st w => push_event (watch_event s2 w)
                (add_log (LFire (w_pid w) (w_refs w) (map (fun x => circ_read x (s_circ s2)) (w_mask w))) st)) l st)) = ntrig (s_queue st)).
      { induction l as [|w r IHl]; intro st; simpl; [reflexivity|]. rewrite IHl. simpl. rewrite ntrig_insert, ntrig_cons, Q. reflexivity. }
      rewrite G. destruct (reevaluate_bk s) as (Q2 & _). fold s2 in Q2. rewrite Q2. exact I1.
    + unfold micro_end. simpl.
      assert (Q : forall e st, s_ties (add_log e st) = s_ties st) by (intros; apply add_log_bk). rewrite Q.
      unfold check_watches. simpl.
      set (s2 := reevaluate s).
      assert (G : forall l st, s_ties (fold_left (fun st w => push_event (watch_event s2 w)
                (add_log (LFire (w_pid w) (w_refs w) (map (fun x => circ_read x (s_circ s2)) (w_mask w))) st)) l st) = s_ties st).
      { induction l as [|w r IHl]; intro st; simpl; [reflexivity|]. rewrite IHl. simpl. apply Q. }
      rewrite G. destruct (reevaluate_bk s) as (_ & _ & _ & _ & _ & _ & _ & T2). fold s2 in T2. congruence.
  - apply (same_bk_inv7 s _ (phase_begin_bk ph s) IH0).
  - constructor; assumption.
  - constructor; assumption.
  - apply (same_bk_inv7 s _ (commit_end_bk s) IH0).
  - constructor; assumption.
  - constructor; assumption.
  - constructor; assumption.
  - constructor; assumption.
  - pose proof (fiber_start_bk pid s) as B. rewrite Hfs in B. cbn [snd] in B. apply (same_bk_inv7 s s' B IH0).
  - apply (same_bk_inv7 s _ (reevaluate_bk s) IH0).
Qed.

End Inv.

Lemma single_clock_no_ties_proof : forall cfg procs fiber until tb fuel,
  c_two cfg = false -> res_ties (simulate cfg procs fiber until tb fuel) = 0%N.
Proof.
  intros cfg procs fiber upto tb fuel One. destruct (run_reachable cfg procs fiber upto tb fuel) as (stk & R).
  exact (i7_ties _ (reach_inv7 cfg procs fiber tb One _ R)).
Qed.
