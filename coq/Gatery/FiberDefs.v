(* C19 -- the thread hand-off protocol of simulation fibers (SimulationFiber.cpp:27-87) as a
   two-thread transition system with ARBITRARY interleaving and spurious wake-ups.
   Definitions only.

       void SimulationFiber::start() {                       void SimulationFiber::suspend() {      // fiber thread
           std::unique_lock lock(m_mutex);                       std::unique_lock lock(m_mutex);
           m_terminate = false; m_threadRunning = true;          m_threadRunning = false;
           m_thread = std::thread([this](){                      m_wakeMain.notify_one();
               m_thisFiber = this;                               while (!m_threadRunning) {
               try { m_body(); }                                     m_wakeFiber.wait(lock);
               catch (const SimulationTerminated &) { }              if (m_terminate) throw SimulationTerminated{};
               std::unique_lock lock(m_mutex);                   }
               m_threadRunning = false;                      }
               m_wakeMain.notify_one();                      void SimulationFiber::resume() {       // simulator thread
           });                                                   std::unique_lock lock(m_mutex);
           while (m_threadRunning) m_wakeMain.wait(lock);        m_threadRunning = true;
       }                                                         m_wakeFiber.notify_one();
       void SimulationFiber::terminate() {                       while (m_threadRunning) m_wakeMain.wait(lock);
           std::unique_lock lock(m_mutex);                   }
           m_terminate = true; m_wakeFiber.notify_one();     SimulationFiber::~SimulationFiber() { terminate(); m_thread.join(); }
           while (m_threadRunning) m_wakeMain.wait(lock);
       }

   Every statement between two synchronisation operations is one atomic step of its thread; the scheduler
   picks any enabled step of any thread.  std::condition_variable::wait(lock) = release the mutex and
   block (one step), be woken (by notify_one or spuriously, at any time), re-acquire the mutex (one step,
   only when it is free).  notify_one on a condition variable nobody is blocked on is lost.
   "User code" is what runs outside these four functions: the simulator proper on the main thread
   (between start/resume/terminate calls) and the fiber body on the fiber thread (between suspend calls,
   including the destructors run while SimulationTerminated unwinds the body).

   Environment: the simulator calls resume() only for a fiber that is inside suspend() (that is what the
   wrapper coroutine of SimulationFiber::awaitCoroutine does), and destroys a fiber at any time it is
   itself running. *)
From Coq Require Import List Bool.
Import ListNotations.

Inductive mcall := KStart | KResume | KTerm.

Inductive mpc :=
| MInit                 (* start() not yet called; no fiber thread exists *)
| MStartHold            (* start(): holds the mutex, about to set the flags and create the thread *)
| MLoop (k : mcall)     (* holds the mutex, at the test of `while (m_threadRunning)` *)
| MWait (k : mcall)     (* blocked in m_wakeMain.wait *)
| MWoken (k : mcall)    (* woken, re-acquiring the mutex *)
| MUnlock (k : mcall)   (* loop left, holds the mutex, about to release it and return *)
| MUser                 (* simulator user code *)
| MResLock | MResHold   (* resume(): acquiring the mutex / holding it before the assignments *)
| MTermLock | MTermHold (* terminate() *)
| MJoin                 (* m_thread.join() *)
| MDone.

Inductive fpc :=
| FNone                 (* thread not created yet *)
| FUser                 (* fiber body (user code) *)
| FSuspLock | FSuspHold (* suspend(): acquiring / holding before the assignments *)
| FLoop                 (* holds the mutex, at the test of `while (!m_threadRunning)` *)
| FWait | FWoken        (* in m_wakeFiber.wait: blocked / re-acquiring *)
| FCheckTerm            (* holds the mutex, `if (m_terminate) throw` *)
| FUnlock               (* loop left, about to release the mutex and return into the body *)
| FUnwind               (* SimulationTerminated unwinds the body (mutex released): user destructors *)
| FEndLock | FEndHold   (* after the body: acquiring / holding before the assignments *)
| FDone.

Inductive owner := Free | HeldM | HeldF.

Record fstate := mk_fstate { pm : mpc; pf : fpc; mtx : owner; running : bool; term : bool }.

Definition init : fstate := mk_fstate MInit FNone Free true false.

Definition notify_main (p : mpc) : mpc := match p with MWait k => MWoken k | _ => p end.
Definition notify_fiber (p : fpc) : fpc := match p with FWait => FWoken | _ => p end.

Definition in_suspend (p : fpc) : bool :=
  match p with FSuspLock | FSuspHold | FLoop | FWait | FWoken | FCheckTerm | FUnlock => true | _ => false end.

(* successors by a step of the main thread that is not a spurious wake-up *)
Definition step_main (s : fstate) : list fstate :=
  match pm s with
  | MInit => match mtx s with Free => [mk_fstate MStartHold (pf s) HeldM (running s) (term s)] | _ => [] end
  | MStartHold => [mk_fstate (MLoop KStart) FUser HeldM true false]
  | MLoop k => if running s then [mk_fstate (MWait k) (pf s) Free (running s) (term s)]
               else [mk_fstate (MUnlock k) (pf s) HeldM (running s) (term s)]
  | MWait k => []
  | MWoken k => match mtx s with Free => [mk_fstate (MLoop k) (pf s) HeldM (running s) (term s)] | _ => [] end
  | MUnlock k => [mk_fstate (match k with KTerm => MJoin | _ => MUser end) (pf s) Free (running s) (term s)]
  | MUser => (if in_suspend (pf s) then [mk_fstate MResLock (pf s) (mtx s) (running s) (term s)] else [])
             ++ [mk_fstate MTermLock (pf s) (mtx s) (running s) (term s)]
  | MResLock => match mtx s with Free => [mk_fstate MResHold (pf s) HeldM (running s) (term s)] | _ => [] end
  | MResHold => [mk_fstate (MLoop KResume) (notify_fiber (pf s)) HeldM true (term s)]
  | MTermLock => match mtx s with Free => [mk_fstate MTermHold (pf s) HeldM (running s) (term s)] | _ => [] end
  | MTermHold => [mk_fstate (MLoop KTerm) (notify_fiber (pf s)) HeldM (running s) true]
  | MJoin => match pf s with FDone => [mk_fstate MDone (pf s) (mtx s) (running s) (term s)] | _ => [] end
  | MDone => []
  end.

(* successors by a step of the fiber thread that is not a spurious wake-up *)
Definition step_fiber (s : fstate) : list fstate :=
  match pf s with
  | FNone => []
  | FUser => [mk_fstate (pm s) FSuspLock (mtx s) (running s) (term s);
              mk_fstate (pm s) FEndLock (mtx s) (running s) (term s)]
  | FSuspLock => match mtx s with Free => [mk_fstate (pm s) FSuspHold HeldF (running s) (term s)] | _ => [] end
  | FSuspHold => [mk_fstate (notify_main (pm s)) FLoop HeldF false (term s)]
  | FLoop => if running s then [mk_fstate (pm s) FUnlock HeldF (running s) (term s)]
             else [mk_fstate (pm s) FWait Free (running s) (term s)]
  | FWait => []
  | FWoken => match mtx s with Free => [mk_fstate (pm s) FCheckTerm HeldF (running s) (term s)] | _ => [] end
  | FCheckTerm => if term s then [mk_fstate (pm s) FUnwind Free (running s) (term s)]
                  else [mk_fstate (pm s) FLoop HeldF (running s) (term s)]
  | FUnlock => [mk_fstate (pm s) FUser Free (running s) (term s)]
  | FUnwind => [mk_fstate (pm s) FEndLock (mtx s) (running s) (term s)]
  | FEndLock => match mtx s with Free => [mk_fstate (pm s) FEndHold HeldF (running s) (term s)] | _ => [] end
  | FEndHold => [mk_fstate (notify_main (pm s)) FDone Free false (term s)]
  | FDone => []
  end.

(* spurious wake-ups: a blocked thread may wake at any time *)
Definition step_spurious (s : fstate) : list fstate :=
  (match pm s with MWait k => [mk_fstate (MWoken k) (pf s) (mtx s) (running s) (term s)] | _ => [] end)
  ++ (match pf s with FWait => [mk_fstate (pm s) FWoken (mtx s) (running s) (term s)] | _ => [] end).

Definition step_nospurious (s : fstate) : list fstate := step_main s ++ step_fiber s.
Definition step_all (s : fstate) : list fstate := step_nospurious s ++ step_spurious s.

Inductive reachable : fstate -> Prop :=
| reach_init : reachable init
| reach_step : forall s s', reachable s -> In s' (step_all s) -> reachable s'.

(* user code *)
Definition main_user (s : fstate) : bool := match pm s with MUser => true | _ => false end.
Definition fiber_user (s : fstate) : bool := match pf s with FUser | FUnwind => true | _ => false end.
(* a thread is "outside a wait" when it is neither blocked in a condition-variable wait (or re-acquiring after
   one), nor blocked acquiring the mutex, nor joining, nor finished / not yet created *)
Definition main_in_wait (s : fstate) : bool :=
  match pm s with MWait _ | MWoken _ | MJoin | MDone | MInit => true | _ => false end.
Definition fiber_in_wait (s : fstate) : bool :=
  match pf s with FWait | FWoken | FNone | FDone => true | _ => false end.

Definition final (s : fstate) : bool :=
  match pm s, pf s with MDone, FDone => true | _, _ => false end.

(* ------------------------------------------------------------------------- *)
(** * Several fibers, one simulator thread *)

(* Every fiber has its own mutex, flags and condition variables; the simulator thread is inside at most one
   start()/resume()/terminate() call at a time.  A state of the n-fiber system is the list of the per-fiber
   states, each with the simulator's control point *as far as this fiber is concerned*: the point inside the
   call if the simulator is in a call on this fiber, else one of the resting points MInit (not started),
   MUser (started, simulator elsewhere), MDone (destroyed). *)
Definition resting (p : mpc) : bool := match p with MInit | MUser | MDone => true | _ => false end.

Fixpoint upd_nth (j : nat) (x : fstate) (l : list fstate) : list fstate :=
  match l, j with
  | [], _ => []
  | _ :: r, O => x :: r
  | y :: r, S k => y :: upd_nth k x r
  end.

(* a step of component j; the simulator thread may ENTER a call on fiber j only when it is in no other call *)
Definition mstep (ss ss' : list fstate) : Prop :=
  exists j s s', nth_error ss j = Some s /\ In s' (step_all s) /\ ss' = upd_nth j s' ss /\
    (resting (pm s) = true -> resting (pm s') = false ->
       forall i t, i <> j -> nth_error ss i = Some t -> resting (pm t) = true).

Inductive mreachable (n : nat) : list fstate -> Prop :=
| mreach_init : mreachable n (repeat init n)
| mreach_step : forall ss ss', mreachable n ss -> mstep ss ss' -> mreachable n ss'.

(* the simulator proper runs (it is in no fiber call) *)
Definition sim_user (ss : list fstate) : Prop := forall s, In s ss -> resting (pm s) = true.
