(* Circuits with memories: NetDefs extended by Node_Memory / Node_MemPort, using the memory-port
   semantics of MemDefs.v (mem_read with forwarding from the earlier write ports of the same
   cycle, mem_latch_write, mem_commit).  Definitions + the machine instance for MachineCert.v.

   A memory port node carries the ordinal of its memory, the memory's configuration, its
   role and the POSITIONS of its previous write ports, closest first (getPrevWritePorts()).
   Its inputs are Node_MemPort::Inputs: enable(0) wrEnable(1) address(2) wrData(3)
   wrWordEnable(4) orderAfter(5) memoryReadDependency(6); output 0 is rdData, the dependency
   outputs 1 and 2 are zero-width.  Evaluation order must place a port after the drivers of
   its own inputs AND of the inputs of its previous write ports ([mtopo_ok]). *)
From Coq Require Import List Bool Arith NArith Lia.
From Gatery Require Import Bits NodeSemDefs NodeSemReg NetDefs ProductCert MemDefs MachineCert.
Import ListNotations.

Inductive mkind :=
| MBase (k : nkind)
| MMemPort (mem : nat) (cfg : mem_cfg) (isRead isWrite : bool) (prev : list nat)
| MMemory.                                    (* Node_Memory itself: only dependency outputs *)

Record mnode := mk_mnode { mn_kind : mkind; mn_ins : list (option (nat * nat)) }.
Definition mnetlist := list mnode.

Record mstate := mk_mstate { ms_regs : list rstate; ms_mems : list memory }.

Definition bit_of (o : option bv) : option tbit :=
  match o with Some x => Some (bv_get x 0) | None => None end.

(* wrData is brought to the word width (the two agree in every circuit gatery builds: the frontend
   and Node_MemPort::connectWrData enforce it; the resize makes the model total on malformed netlists) *)
Definition pin_of (cfg : mem_cfg) (v : vals) (ins : list (option (nat * nat))) : port_in :=
  MkPin (lookup v (nth 2 ins None)) (bit_of (lookup v (nth 0 ins None)))
        (bit_of (lookup v (nth 1 ins None)))
        (option_map (bv_resize (c_width cfg)) (lookup v (nth 3 ins None))).

(* the latch a write port would store under valuation v *)
Definition latch_of (nl : mnetlist) (v : vals) (pos : nat) : latch :=
  match nth_error nl pos with
  | Some (mk_mnode (MMemPort _ cfg _ _ _) ins) => mem_latch_write cfg (pin_of cfg v ins)
  | _ => MkLatch [] [] false
  end.

Definition as_node (n : mnode) : node :=
  match mn_kind n with
  | MBase k => mk_node k (mn_ins n)
  | _ => mk_node (NOpaque []) (mn_ins n)
  end.

Definition mnode_outputs (nl : mnetlist) (st : mstate) (ins : list bv) (v : vals) (n : mnode) : list bv :=
  match mn_kind n with
  | MBase _ => node_outputs (ms_regs st) ins v (as_node n)
  | MMemPort mem cfg isRead _ prev =>
      [ if isRead
        then mem_read cfg (nth mem (ms_mems st) []) (map (latch_of nl v) prev) (pin_of cfg v (mn_ins n))
        else all_X (c_width cfg); []; [] ]
  | MMemory => [[]; []]
  end.

Definition mcomb_eval (nl : mnetlist) (st : mstate) (ins : list bv) : vals :=
  fold_left (fun v n => v ++ [mnode_outputs nl st ins v n]) nl [].

(* pin values: NPinOut nodes in netlist order *)
Definition moutputs (nl : mnetlist) (v : vals) : list bv := outputs (map as_node nl) v.

(* ---- clock edge ---- *)
Fixpoint mreg_node (nl : mnetlist) (ord : nat) : option (reg_cfg * list (option (nat * nat))) :=
  match nl with
  | [] => None
  | n :: r => match mn_kind n with
              | MBase (NReg c o) => if o =? ord then Some (c, mn_ins n) else mreg_node r ord
              | _ => mreg_node r ord
              end
  end.

(* positions of the write ports of memory `mem`, in netlist (= commit) order *)
Definition write_ports (nl : mnetlist) (mem : nat) : list (nat * mem_cfg) :=
  flat_map (fun pn => match mn_kind (snd pn) with
                      | MMemPort m cfg _ true _ => if m =? mem then [(fst pn, cfg)] else []
                      | _ => [] end)
           (combine (seq 0 (length nl)) nl).

Definition medge (nl : mnetlist) (st : mstate) (ins : list bv) : mstate :=
  let v := mcomb_eval nl st ins in
  mk_mstate
    (map (fun ord =>
            let s := nth ord (ms_regs st) (mk_rstate [] false) in
            match mreg_node nl ord with
            | Some (c, i) => reg_edge c (lookup v (nth 0 i None)) (lookup v (nth 2 i None)) s
            | None => s
            end) (seq 0 (length (ms_regs st))))
    (map (fun mem =>
            fold_left (fun m pc => mem_commit (snd pc) m (latch_of nl v (fst pc)))
                      (write_ports nl mem) (nth mem (ms_mems st) []))
         (seq 0 (length (ms_mems st)))).

Definition mreset_change (nl : mnetlist) (high : bool) (st : mstate) : mstate :=
  mk_mstate
    (map (fun ord =>
            let s := nth ord (ms_regs st) (mk_rstate [] false) in
            match mreg_node nl ord with
            | Some (c, _) => reg_rst c high s
            | None => s
            end) (seq 0 (length (ms_regs st))))
    (ms_mems st).

Definition mapply_event (nl : mnetlist) (prev_ins : list bv) (st : mstate) (e : event) : mstate :=
  match e with
  | EvEdge => medge nl st prev_ins
  | EvReset h => mreset_change nl h st
  end.
Definition mapply_events (nl : mnetlist) (evs : list event) (prev_ins : list bv) (st : mstate) : mstate :=
  fold_left (mapply_event nl prev_ins) evs st.

Definition mnregs (nl : mnetlist) : nat :=
  length (flat_map (fun n => match mn_kind n with MBase (NReg _ _) => [tt] | _ => [] end) nl).

(* power-on: registers as in NetDefs, memories get the dumped power-on contents *)
Definition mpower_on (nl : mnetlist) (mems0 : list memory) : mstate :=
  mk_mstate
    (map (fun ord => match mreg_node nl ord with
                     | Some (c, _) => reg_pon c
                     | None => mk_rstate [] false end) (seq 0 (mnregs nl)))
    mems0.

(* drivers of a node for the purpose of ordering: its own inputs plus, for a memory port, the
   inputs of its previous write ports *)
Definition mdeps (nl : mnetlist) (n : mnode) : list (option (nat * nat)) :=
  match mn_kind n with
  | MMemPort _ _ _ _ prev =>
      mn_ins n ++ flat_map (fun p => match nth_error nl p with Some m => mn_ins m | None => [] end) prev
  | _ => mn_ins n
  end.

Fixpoint mtopo_from (nl0 : mnetlist) (i : nat) (nl : mnetlist) : bool :=
  match nl with
  | [] => true
  | n :: r =>
      (match mn_kind n with
       | MBase (NComb _) | MMemPort _ _ _ _ _ => forallb (drv_before i) (mdeps nl0 n)
       | _ => true
       end) && mtopo_from nl0 (S i) r
  end.
Definition mtopo_ok (nl : mnetlist) : bool := mtopo_from nl 0 nl.

(* ---- decidable equality of states ---- *)
Definition mem_eqb (a b : memory) : bool := list_eqb bv_eqb a b.
Definition mstate_eqb (a b : mstate) : bool :=
  list_eqb rstate_eqb (ms_regs a) (ms_regs b) && list_eqb mem_eqb (ms_mems a) (ms_mems b).
Lemma mstate_eqb_eq a b : mstate_eqb a b = true <-> a = b.
Proof.
  destruct a as [r1 m1], b as [r2 m2]; unfold mstate_eqb; simpl. split; intro H.
  - apply andb_prop in H as [H1 H2]. apply (list_eqb_eq _ rstate_eqb_eq) in H1.
    apply (list_eqb_eq _ (list_eqb_eq _ bv_eqb_eq)) in H2. congruence.
  - inversion H; subst. apply andb_true_intro. split.
    + apply (list_eqb_eq _ rstate_eqb_eq). reflexivity.
    + apply (list_eqb_eq _ (list_eqb_eq _ bv_eqb_eq)). reflexivity.
Qed.

(* everything defined: all node values and all memory words *)
Definition mclean (nl : mnetlist) (st : mstate) (ins : list bv) : bool :=
  vals_def (mcomb_eval nl st ins) && forallb (forallb all_def) (ms_mems st).

Definition machine_of (nl : mnetlist) (mems0 : list memory) : machine :=
  mk_machine mstate mstate_eqb mstate_eqb_eq (mpower_on nl mems0)
             (mapply_events nl) (fun st ins => moutputs nl (mcomb_eval nl st ins)) (mclean nl).
