(* C05 -- the statements exported to Properties_C05.v *)
From Gatery Require Import Bits FrontendDefs FrontendGraph FrontendWrite FrontendSteps FrontendProofs FrontendMain.
Import ListNotations.

Lemma rel_sig_values inp G S E : rel inp G S E -> sig_values (eval_all inp G) S = E.
Proof.
  induction 1 as [|[x r] [y v] S E [Hk Hv] H IH]; simpl in *; auto.
  subst y. unfold V in Hv. rewrite Hv, IH. reflexivity.
Qed.

(* For EVERY program (any nesting depth, any ELSEIF chain length, any mix of full / slice /
   bit / dynamic assignments, declarations inside scopes, shadowing), every start value
   n0 >= 1 of the scope id counter, every input valuation under which the software run
   only branches on defined single-bit conditions:
     - the variables in scope at the end carry, in the elaborated circuit, exactly the
       final values of the software run (same variables, same order, same four-state value),
     - the snapshots taken by the Read statements whose enclosing full condition evaluates
       to true are exactly the values the software run saw, in program order. *)
Theorem elab_correct_main : forall (p : block) (n0 : nat) (inp : list bv) (E : env) (R : list rdval),
  1 <= n0 ->
  no_bare_else_if p = true ->
  run_prog inp p = Some (E, R) ->
  let st := elab_prog n0 p in
  let vs := eval_all inp (eG st) in
  sig_values vs (eSigs st) = E /\ live_reads vs (eReads st) = R.
Proof.
  intros p n0 inp E R Hn Hok Hrun st vs.
  destruct (all_ok inp) as (_ & HPb & _).
  destruct (HPb p Hok (init_st n0) (WF_init n0 Hn)) as (W & F & _ & PL).
  destruct (PL [] E R I (Forall2_nil _) Hrun) as [HR Hrd].
  split.
  - apply rel_sig_values. exact HR.
  - exact Hrd.
Qed.

(* the same, variable by variable *)
Theorem elab_correct_signal_main : forall p n0 inp E R x v,
  1 <= n0 -> no_bare_else_if p = true -> run_prog inp p = Some (E, R) -> lookup x E = Some v ->
  exists r, lookup x (eSigs (elab_prog n0 p)) = Some r /\
            getv (eval_all inp (eG (elab_prog n0 p))) (sr_drv r) = v.
Proof.
  intros p n0 inp E R x v Hn Hok Hrun Hl.
  destruct (elab_correct_main p n0 inp E R Hn Hok Hrun) as [HS _].
  revert Hl. rewrite <- HS. generalize (eSigs (elab_prog n0 p)). intro S.
  induction S as [|[y r] S IH]; simpl; [discriminate|].
  destruct (Nat.eqb x y).
  - intro H. inversion H; subst. exists r. auto.
  - exact IH.
Qed.

(* The scope id counter must not start at 0: a top level variable has m_initialScopeId = 0 and
   the test is  scope->getId() > m_initialScopeId.  (gatery initialises s_nextId to 1.) *)
Definition id0_prog : block :=
  block_of [Decl 0 true (EConst [B0]);
            If (EIn 0) (block_of [Assign 0 [] (EConst [B1])]) CEnd].

Theorem elab_needs_positive_ids_main :
  exists E R, run_prog [[B0]] id0_prog = Some (E, R) /\
    sig_values (eval_all [[B0]] (eG (elab_prog 0 id0_prog))) (eSigs (elab_prog 0 id0_prog)) <> E.
Proof.
  exists [(0, [B0])], []. split; [reflexivity|]. vm_compute. discriminate.
Qed.

(* REFUTED for the unrestricted statement: `IF (b) x = 1; ELSE IF (b) x = 2; ELSE x = 3;` with the
   SAME Bit variable b in both conditions.  The ELSE destructor decides "a nested scope changed
   m_lastCondition" by comparing ports (ConditionalScope.cpp: m_lastConditionOnEntry != m_lastCondition);
   here both are b's port, so the final ELSE gets the condition NOT(NOT b) = b.
   Software: x = 1 for b = 1, x = 3 for b = 0.  Circuit: x = 3 for b = 1, x = 0 for b = 0
   (confirmed against the real library, see the report / corpus/C05/else_if_same_condition.txt). *)
Definition same_cond_prog : block :=
  block_of [Decl 0 true (EIn 0);
            Decl 1 false (EConst (bv_of_N 2 0));
            If (ESig 0) (block_of [Assign 1 [] (EConst (bv_of_N 2 1))])
               (CElseSp (ESig 0) (block_of [Assign 1 [] (EConst (bv_of_N 2 2))])
                  (CElse (block_of [Assign 1 [] (EConst (bv_of_N 2 3))])))].

Theorem elab_else_if_same_condition_refuted_main :
  no_bare_else_if same_cond_prog = false /\
  (forall b, exists E,
     run_prog [[of_bool b]] same_cond_prog = Some (E, []) /\
     lookup 1 E = Some (bv_of_N 2 (if b then 1 else 3)) /\
     lookup 1 (sig_values (eval_all [[of_bool b]] (eG (elab_prog 1 same_cond_prog))) (eSigs (elab_prog 1 same_cond_prog)))
       = Some (bv_of_N 2 (if b then 3 else 0))).
Proof.
  split; [reflexivity|]. intros [|]; eexists; repeat split; vm_compute; reflexivity.
Qed.

(* ---- the dynamic index semantics used by the interpreter is the expected one ---- *)

Lemma nth_map_seq {A} (f : nat -> A) n k d : k < n -> nth k (map f (seq 0 n)) d = f k.
Proof.
  intro H. rewrite nth_indep with (d' := f 0) by (rewrite map_length, seq_length; exact H).
  rewrite map_nth. rewrite seq_nth by exact H. reflexivity.
Qed.

(* defined index within 0..maxIdx: an ordinary read-modify-write at offset idx*mul *)
Theorem dyn_write_in_range_main : forall cur iv k maxi mul w inner,
  all_def iv = true -> bv_val iv = Some (N.of_nat k) -> k <= maxi ->
  dyn_write cur iv (maxi, mul, w) inner =
  replace_sem cur (inner (extract_sem cur (k * mul) w)) (k * mul) w.
Proof.
  intros cur iv k maxi mul w inner Hd Hv Hk. unfold dyn_write, mux_sem. rewrite Hd, Hv, Nat2N.id.
  apply (nth_map_seq (fun k => replace_sem cur (inner (extract_sem cur (k * mul) w)) (k * mul) w)). lia.
Qed.

(* defined index above maxIdx: the frontend's multiplexer has no such input, the result is
   entirely undefined *)
Theorem dyn_write_out_of_range_main : forall cur iv k maxi mul w inner,
  all_def iv = true -> bv_val iv = Some (N.of_nat k) -> maxi < k ->
  dyn_write cur iv (maxi, mul, w) inner =
  all_X (length (replace_sem cur (inner (extract_sem cur 0 w)) 0 w)).
Proof.
  intros cur iv k maxi mul w inner Hd Hv Hk. unfold dyn_write, mux_sem. rewrite Hd, Hv, Nat2N.id.
  rewrite nth_overflow by (rewrite map_length, seq_length; lia). reflexivity.
Qed.

(* a dynamic read with a defined index within 0..maxIdx is the static slice at offset idx*mul *)
Theorem dyn_read_in_range_main : forall av iv k maxi mul w,
  all_def iv = true -> bv_val iv = Some (N.of_nat k) -> k <= maxi ->
  dyn_read av iv (maxi, mul, w) = extract_sem av (k * mul) w.
Proof.
  intros av iv k maxi mul w Hd Hv Hk. unfold dyn_read, mux_sem. rewrite Hd, Hv, Nat2N.id.
  apply (nth_map_seq (fun k => extract_sem av (k * mul) w)). lia.
Qed.

(* on single-bit operands the BOOL logic of the scope bookkeeping is the vector logic *)
Theorem scope_logic_is_node_logic_main : forall a b, length a = 1 -> length b = 1 ->
  cand a b = bv_and a b /\ cor a b = bv_or a b /\ cnot a = bv_not a.
Proof. intros. auto using cand_is_bv_and, cor_is_bv_or, cnot_is_bv_not. Qed.
