(* Property C18, source-regenerated part: theorems about gen/BitManipSrc.v, which
   translate/C18_bitmanip.py rewrites from source/gatery/utils/BitManipulation.h on every run of
   checks/C18.py (fail closed).  The word helpers are the leaves of every BitVectorState
   operation (setRange, insert, extract, copyRange ... are compositions of bitMaskRange /
   bitfieldExtract / bitfieldInsert / andNot on 64-bit blocks); the theorems of
   Properties_C18.v are stated over the hand transcriptions in BvsDefs.v, which are shown here
   to be what the current source text says. *)
From Coq Require Import NArith Bool.
From Gatery Require Import BvsDefs BitManipSrcProofs.
From Gatery.gen Require Import BitManipSrc.
Local Open Scope N_scope.

Theorem C18_src_andNot_is_model : forall a b, src_andNot a b = andNot a b.
Proof. exact src_andNot_is_model_proof. Qed.
Print Assumptions C18_src_andNot_is_model.

Theorem C18_src_bitMaskRange_is_model : forall start count, src_bitMaskRange start count = bitMaskRange start count.
Proof. exact src_bitMaskRange_is_model_proof. Qed.
Print Assumptions C18_src_bitMaskRange_is_model.

Theorem C18_src_bitfieldExtract_is_model : forall a start count, src_bitfieldExtract a start count = bitfieldExtract a start count.
Proof. exact src_bitfieldExtract_is_model_proof. Qed.
Print Assumptions C18_src_bitfieldExtract_is_model.

Theorem C18_src_bitfieldInsert_is_model : forall a start count v, src_bitfieldInsert a start count v = bitfieldInsert a start count v.
Proof. exact src_bitfieldInsert_is_model_proof. Qed.
Print Assumptions C18_src_bitfieldInsert_is_model.

(* single-bit helpers of the source, for every word and every index below 64 *)
Theorem C18_src_bitExtract_spec : forall a idx, idx < 64 -> src_bitExtract a idx = N.testbit a idx.
Proof. exact src_bitExtract_spec_proof. Qed.
Print Assumptions C18_src_bitExtract_spec.

Theorem C18_src_bitSet_spec : forall a idx i, idx < 64 -> N.testbit (src_bitSet a idx) i = N.testbit a i || (i =? idx).
Proof. exact src_bitSet_spec_proof. Qed.
Print Assumptions C18_src_bitSet_spec.

Theorem C18_src_bitClear_spec : forall a idx i, idx < 64 -> a < 2^64 ->
  N.testbit (src_bitClear a idx) i = N.testbit a i && negb (i =? idx).
Proof. exact src_bitClear_spec_proof. Qed.
Print Assumptions C18_src_bitClear_spec.

Theorem C18_src_bitToggle_spec : forall a idx i, idx < 64 -> N.testbit (src_bitToggle a idx) i = xorb (N.testbit a i) (i =? idx).
Proof. exact src_bitToggle_spec_proof. Qed.
Print Assumptions C18_src_bitToggle_spec.

(* non-vacuity / regression: the mask of bits 60..63 and an insert across it *)
Example ex_src_bitmanip :
  src_bitMaskRange 60 4 = 17293822569102704640 /\ src_bitMaskRange 3 64 = 18446744073709551608 /\
  src_bitfieldInsert 0 60 4 255 = 17293822569102704640 /\ src_bitfieldExtract 17293822569102704640 60 4 = 15 /\
  src_isMaskSet 255 4 4 = true /\ src_isMaskSet 127 4 4 = false /\ src_lowestSetBitMask 40 = 8.
Proof. vm_compute. repeat split. Qed.
