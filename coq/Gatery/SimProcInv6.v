(* C19 -- invariants, part 6: a pin write made in phase DURING of time t is not evaluated before the clock
   flanks of time t have been served -- so the registers that advance at t do not capture it.

   Why: a process runs in phase DURING only after every clockPinTrigger of this time has been handled and when
   no BEFORE-phase resumption of this time is pending (these are served earlier); from then on the DURING micro
   tick cannot end (reevaluate()) before all clockValueChange events of this time have been served. *)
From Coq Require Import List NArith ZArith QArith Qreduction Bool Lia.
From Gatery Require Import SimProcDefs SimProcOrder SimProcSteps SimProcInv1 SimProcInv2 SimProcInv3 SimProcInv4 SimProcInv5.
Import ListNotations.
Local Close Scope Q_scope.

Definition during_write (tw : Q) (w : entry) : Prop :=
  exists mt ro pid p v, w = LProc tw DURING mt ro pid (AWrite p v).

(* a clock event (trigger or value change) of time t is still queued *)
Definition clock_event_at (t : Q) (q : list event) : Prop :=
  exists x, In x q /\ (e_type x = ClockPinTrigger \/ e_type x = ClockValueChange) /\ (e_time x == t)%Q.
Definition trigger_at (t : Q) (q : list event) : Prop :=
  exists x, In x q /\ e_type x = ClockPinTrigger /\ (e_time x == t)%Q.
Definition before_at (t : Q) (q : list event) : Prop :=
  exists x, In x q /\ e_phase x = BEFORE /\ (e_time x == t)%Q.

(* the DURING micro tick in which processes run *)
Definition during_clear (s : state) : Prop :=
  s_mt s = 0%N /\ ~ trigger_at (s_now s) (s_queue s) /\ ~ before_at (s_now s) (s_queue s).

Fixpoint log_ok6 (l : list entry) : Prop :=
  match l with
  | [] => True
  | e :: old =>
    log_ok6 old /\
    match e with
    | LEdge t _ _ _ _ _ => forall w tw, In w (after_reeval old) -> during_write tw w -> ~ (tw == t)%Q
    | _ => True
    end
  end.

Record inv6 (c : conf) : Prop := mk_inv6 {
  i6_busy : s_phase (fst c) = DURING -> (snd c <> [] \/ s_ready (fst c) <> []) -> during_clear (fst c);
  i6_pending : s_phase (fst c) = DURING -> (exists w, In w (since_reeval (s_log (fst c))) /\ is_write w = true) ->
               during_clear (fst c);
  i6_sealed : forall w tw, In w (after_reeval (s_log (fst c))) -> during_write tw w -> ~ clock_event_at tw (s_queue (fst c));
  i6_log : log_ok6 (s_log (fst c))
}.

Lemma after_app_noreeval : forall new l, ~ In LReeval new -> after_reeval (new ++ l) = after_reeval l.
Proof.
  induction new as [|e r IH]; intros l H; [reflexivity|]. simpl app.
  rewrite after_cons by (intro X; apply H; left; exact X). apply IH. intro X. apply H. right. exact X.
Qed.

Lemma since_after_split : forall l w, In w l -> In w (since_reeval l) \/ In w (after_reeval l).
Proof.
  induction l as [|e r IH]; intros w H; [destruct H|].
  destruct e; simpl; try (destruct H as [<-|H]; [left; left; reflexivity | destruct (IH w H); [left; right; assumption | right; assumption]]).
  right. exact H.
Qed.

Lemma log_ok6_app : forall new l, log_ok6 l -> Forall no_edge new -> log_ok6 (new ++ l).
Proof.
  intros new l Ho F. induction F as [|e r Ne Fr IH]; [exact Ho|]. simpl. split; [exact IH|].
  destruct e; try exact I. exfalso. eapply Ne. reflexivity.
Qed.

Lemma new_no_reeval : forall aw s new,
  Forall (fun e => e = LErr \/ exists pid a, e = stamped s pid a /\ (aw = false -> forall w g, a <> AWake w g)) new -> ~ In LReeval new.
Proof.
  intros aw s new F H. destruct (proj1 (Forall_forall _ _) F _ H) as [X|(pid & a & X & _)]; discriminate.
Qed.

Section Inv.
Variable cfg : config.
Variables (procs : list script) (fiber : bool) (tb : list bool).
Notation c0 := (boot cfg procs fiber tb, @nil frame).
Notation reach := (treach cfg c0).

Lemma boot_inv6 : inv6 c0.
Proof.
  constructor; cbn [fst snd].
  - unfold boot. destruct (c_two cfg); discriminate.
  - unfold boot. destruct (c_two cfg); discriminate.
  - intros w tw Hw (mt & ro & pid & p & v & ->). unfold boot, reevaluate in Hw. rewrite add_log_log in Hw.
    destruct (c_two cfg); simpl in Hw; destruct Hw as [X|[]]; discriminate.
  - unfold boot, reevaluate. rewrite add_log_log. destruct (c_two cfg); simpl; exact (conj I I).
Qed.

(* queue facts that survive when only AFTER-phase resumptions are added *)
Lemma clear_mono : forall s s',
  s_now s' = s_now s -> s_mt s' = s_mt s ->
  (forall x, In x (s_queue s') -> In x (s_queue s) \/ (e_type x = SimProcResume /\ (e_phase x = AFTER \/ (s_now s < e_time x)%Q))) ->
  during_clear s -> during_clear s'.
Proof.
  intros s s' N M Q (C1 & C2 & C3). unfold during_clear. rewrite N, M. split; [exact C1|]. split.
  - intros (x & Hx & Tx & Ex). destruct (Q x Hx) as [Ho|(Tr & _)]; [apply C2; exists x; auto | congruence].
  - intros (x & Hx & Px & Ex). destruct (Q x Hx) as [Ho|(_ & [Pa|Lt])]; [apply C3; exists x; auto | congruence |].
    rewrite Ex in Lt. exact (Qlt_irrefl _ Lt).
Qed.

Lemma sealed_mono : forall (q q' : list event) (P : Prop),
  (forall x, In x q' -> In x q \/ e_type x = SimProcResume) ->
  forall tw, ~ clock_event_at tw q -> ~ clock_event_at tw q'.
Proof.
  intros q q' _ Q tw H (x & Hx & Tx & Ex). destruct (Q x Hx) as [Ho|Tr]; [apply H; exists x; auto|].
  destruct Tx; congruence.
Qed.

Lemma reach_inv6 : forall c, reach c -> inv6 c.
Proof.
  induction 1 as [|c c' R IH T]; [exact boot_inv6|].
  pose proof (reach_sorted cfg procs fiber tb _ R) as Srt.
  pose proof (reach_inv3 cfg procs fiber tb _ R) as I3.
  pose proof (reach_inv4a cfg procs fiber tb _ R) as I4.
  pose proof IH as IH0. destruct IH as [Ib Ip Is Il].
  inv_tstep T; cbn [fst snd] in *.
  - (* process step *)
    pose proof (step_frame_spec _ _ _ _ _ Hsf) as F.
    pose proof (step_frame_ctl cfg f s) as C. rewrite Hsf in C. cbn [snd] in C. destruct C as (C1 & C2 & C3 & C4).
    pose proof (frame_step_effect cfg f s s' F Hh) as Ef.
    destruct (effect_new false s s' Ef) as (new & L & Fn).
    pose proof (new_no_edge false s new Fn) as Ne. pose proof (new_no_reeval false s new Fn) as Nr.
    assert (Qn : forall x, In x (s_queue s') -> In x (s_queue s) \/ (e_type x = SimProcResume /\ (e_phase x = AFTER \/ (s_now s < e_time x)%Q))).
    { intros x Hx. destruct (frame_step_bk cfg f s s' F) as [Q|pid q Q|pid c ph Q|pid m Q|pid Q|pid xi ph Q]; rewrite Q in Hx; try (left; exact Hx).
      - apply q_insert_in in Hx. destruct Hx as [->|Hx]; [right; split; [reflexivity | left; reflexivity] | left; exact Hx].
      - apply q_insert_in in Hx. destruct Hx as [->|Hx]; [right; split; [reflexivity | right; simpl; apply next_tick_gt; apply extra_freq_pos] | left; exact Hx]. }
    assert (Cl : s_phase s = DURING -> during_clear s') by (intro Pd; apply (clear_mono s s' C1 C3 Qn); apply Ib; [exact Pd | left; discriminate]).
    constructor; cbn [fst snd].
    + rewrite C2. intros Pd _. exact (Cl Pd).
    + rewrite C2. intros Pd _. exact (Cl Pd).
    + rewrite L, (after_app_noreeval new _ Nr). intros w tw Hw Dw.
      apply (sealed_mono (s_queue s) (s_queue s') True); [|exact (Is w tw Hw Dw)].
      intros x Hx. destruct (Qn x Hx) as [Ho|(Tr & _)]; [left; exact Ho | right; exact Tr].
    + rewrite L. apply log_ok6_app; assumption.
  - (* task *)
    pose proof (task_head_ctl t (set_ready r s)) as C. rewrite Hth in C. cbn [snd] in C. destruct C as (C1 & C2 & C3 & C4).
    pose proof (task_head_bk t (set_ready r s)) as B. rewrite Hth in B. cbn [snd] in B. destruct B as (Q & _).
    pose proof (task_head_effect t (set_ready r s) stk s' Hth Hh) as Ef.
    destruct (effect_new true (set_ready r s) s' Ef) as (new & L & Fn). cbn [s_log set_ready] in L.
    pose proof (new_no_edge true _ new Fn) as Ne. pose proof (new_no_reeval true _ new Fn) as Nr.
    cbn in C1, C2, C3.
    assert (Cl : s_phase s = DURING -> during_clear s').
    { intro Pd. apply (clear_mono s s' C1 C3); [rewrite Q; intros x Hx; left; exact Hx|].
      apply Ib; [exact Pd | right; rewrite Hrd; discriminate]. }
    constructor; cbn [fst snd].
    + rewrite C2. intros Pd _. exact (Cl Pd).
    + rewrite C2. intros Pd _. exact (Cl Pd).
    + rewrite L, (after_app_noreeval new _ Nr), Q. exact Is.
    + rewrite L. apply log_ok6_app; assumption.
  - (* event *)
    destruct (pop_event_queue s e s1 Hpop) as (e2 & rr & Qc & _).
    destruct (pop_event_top _ _ _ Hpop) as (((P1 & P2 & P3 & P4) & PE & PO & PR) & PL).
    destruct (pop_event_stamp s e s1 Hpop Htm) as (St1 & St2 & St3).
    destruct (pop_event_sorted s e s1 Hpop Srt) as (Srt1 & Hfirst & Qin).
    pose proof (halted_false_err s Hh) as He. assert (He1 : s_err s1 = false) by congruence.
    assert (She : ev_shape e) by (apply (i3_shape _ _ I3); apply Qin; left; reflexivity).
    assert (Sub : forall x, In x (s_queue s1) -> In x (s_queue s)) by (intros x Hx; apply Qin; right; exact Hx).
    assert (Is1 : forall w tw, In w (after_reeval (s_log s1)) -> during_write tw w -> ~ clock_event_at tw (s_queue s1)).
    { rewrite PL. intros w tw Hw Dw (x & Hx & Tx & Ex). apply (Is w tw Hw Dw). exists x. split; [apply Sub; exact Hx | split; assumption]. }
    assert (Pend1 : s_phase s = DURING -> (exists w, In w (since_reeval (s_log s)) /\ is_write w = true) -> during_clear s1).
    { intros Pd Pw. destruct (Ip Pd Pw) as (D1 & D2 & D3). unfold during_clear. rewrite P1, P3. split; [exact D1|]. split.
      - intros (x & Hx & Tx & Ex). apply D2. exists x. split; [apply Sub; exact Hx | split; assumption].
      - intros (x & Hx & Px & Ex). apply D3. exists x. split; [apply Sub; exact Hx | split; assumption]. }
    unfold event_head. unfold ev_shape in She. destruct (e_type e) eqn:Ty.
    + (* trigger *)
      destruct (handle_trigger_circ_log cfg e s1 He1) as (_ & L).
      destruct (handle_trigger_top cfg e s1) as ((T1 & T2 & T3 & T4) & _ & _ & TR).
      assert (NoPend : s_phase s = DURING -> ~ (exists w, In w (since_reeval (s_log s)) /\ is_write w = true)).
      { intros Pd Pw. destruct (Ip Pd Pw) as (_ & D2 & _). apply D2. exists e. split; [apply Qin; left; reflexivity | split; assumption]. }
      assert (Nr : LTrigger (e_time e) (e_pin e) (e_rising e) <> LReeval) by discriminate.
      constructor; cbn [fst snd].
      * rewrite TR, PR, Hrd. intros _ [X|X]; exfalso; apply X; reflexivity.
      * intros Pd Pw. rewrite T2, P2 in Pd. rewrite L, PL, (since_cons _ _ Nr) in Pw.
        destruct Pw as (w & [<-|Hw] & Ww); [discriminate|].
        exfalso. apply (NoPend Pd). exists w. split; assumption.
      * rewrite L, (after_cons _ _ Nr). intros w tw Hw Dw (x & Hx & Tx & Ex).
        apply handle_trigger_queue in Hx.
        (* a sealed DURING write of this time cannot exist while the trigger was still queued *)
        assert (Old : ~ clock_event_at tw (s_queue s)) by (rewrite PL in Hw; exact (Is w tw Hw Dw)).
        destruct Hx as [Hx|[->|[->|(_ & Hx)]]].
        -- apply Old. exists x. split; [apply Sub; exact Hx | split; assumption].
        -- apply Old. exists e. split; [apply Qin; left; reflexivity|]. split; [left; exact Ty | exact Ex].
        -- (* the re-armed trigger lies strictly in the future of every logged entry *)
           simpl in Ex.
           assert (Lw : In w (s_log s)).
           { rewrite PL in Hw. clear -Hw. induction (s_log s) as [|y r IH]; [destruct Hw|].
             destruct y; simpl in Hw; try (right; apply IH; exact Hw). exact Hw. }
           destruct Dw as (mt & ro & pid & p & v & ->).
           assert (Le : (tw <= s_now s)%Q) by (eapply (i4_past _ _ I4); [exact Lw | reflexivity]).
           assert (Gt : (s_now s < tadd (e_time e) (clk_half cfg (e_pin e)))%Q).
           { rewrite <- St1. apply tadd_gt. apply clk_half_pos. }
           rewrite Ex in Gt. exact (Qlt_irrefl _ (Qle_lt_trans _ _ _ Le Gt)).
        -- apply in_map_iff in Hx. destruct Hx as (a & <- & _). destruct Tx; discriminate.
      * rewrite L, PL. simpl. split; [exact Il | exact I].
    + (* resumption: from now on a process runs *)
      constructor; cbn [fst snd].
      * simpl. rewrite P2. intros Pd _.
        (* the popped resumption was the head: no trigger and no BEFORE-phase event of this time is left *)
        unfold during_clear. simpl. rewrite P1, P3. split; [|split].
        -- rewrite <- St3. apply (i4_mt0 _ _ I4 e (proj2 (Qin e) (or_introl eq_refl)) Ty). rewrite St2, Pd. discriminate.
        -- intros (x & Hx & Tx & Ex). apply (Hfirst x Hx). right. split; [rewrite Ex, St1; reflexivity|].
           assert (Sx : ev_shape x) by (apply (i3_shape _ _ I3); apply Sub; exact Hx).
           unfold ev_shape in Sx. rewrite Tx in Sx. destruct Sx as (Sp & Sm).
           right. split; [congruence|]. right. split.
           ++ rewrite Sm. symmetry. apply (i4_mt0 _ _ I4 e (proj2 (Qin e) (or_introl eq_refl)) Ty). rewrite St2, Pd. discriminate.
           ++ left. rewrite Tx, Ty. reflexivity.
        -- intros (x & Hx & Px & Ex). apply (Hfirst x Hx). right. split; [rewrite Ex, St1; reflexivity|].
           left. rewrite Px, St2, Pd. reflexivity.
      * simpl. rewrite P2, PL. intros Pd Pw. destruct (Pend1 Pd Pw) as (D1 & D2 & D3). split; [exact D1 | split; assumption].
      * simpl. exact Is1.
      * simpl. rewrite PL. exact Il.
    + (* value change *)
      destruct She as (Sp & Sm).
      destruct (handle_value_change_bk cfg e s1) as (Q2 & _).
      destruct (handle_value_change_top cfg e s1) as ((T1 & T2 & T3 & T4) & _ & _ & TR).
      set (s2 := if e_rising e then set_circ (circ_advance (c_two cfg) (e_pin e) (s_circ s1)) s1 else s1).
      assert (L2 : s_log (handle_value_change cfg e s1) =
                   LEdge (s_now s1) (e_pin e) (e_rising e) (r_a (s_circ s2)) (r_a2 (s_circ s2)) (r_b (s_circ s2)) :: s_log s1).
      { unfold handle_value_change. fold s2. rewrite add_log_log.
        assert (E2 : s_err s2 = false) by (unfold s2; destruct (e_rising e); exact He1). rewrite E2.
        assert (N2 : s_now s2 = s_now s1 /\ s_log s2 = s_log s1) by (unfold s2; destruct (e_rising e); split; reflexivity).
        destruct N2 as (-> & ->). reflexivity. }
      assert (Nr : forall a b c d f g, LEdge a b c d f g <> LReeval) by (intros; discriminate).
      constructor; cbn [fst snd].
      * rewrite TR, PR, Hrd. intros _ [X|X]; exfalso; apply X; reflexivity.
      * intros Pd Pw. rewrite T2, P2 in Pd. rewrite L2, (since_cons _ _ (Nr _ _ _ _ _ _)) in Pw.
        destruct Pw as (w & [<-|Hw] & Ww); [discriminate|].
        rewrite PL in Hw. destruct (Pend1 Pd (ex_intro _ w (conj Hw Ww))) as (D1 & D2 & D3).
        unfold during_clear. rewrite T1, T3, Q2. split; [exact D1 | split; assumption].
      * rewrite L2, (after_cons _ _ (Nr _ _ _ _ _ _)), Q2. exact Is1.
      * rewrite L2, PL. simpl. split; [exact Il|].
        (* the value change was queued until now: no DURING write of this time has been evaluated *)
        intros w tw Hw Dw Eq. apply (Is w tw Hw Dw). exists e. split; [apply Qin; left; reflexivity|].
        split; [right; exact Ty|]. rewrite Eq, P1. exact St1.
    + destruct She.
  - (* end of micro tick: reevaluate() *)
    destruct (micro_end_fields s) as (M1 & M2 & M3 & M4 & M5 & M6).
    pose proof (halted_false_err s Hh) as He.
    destruct (micro_end_circ_log s He) as (_ & fires & L & Ff).
    set (pre := LMicro (s_now s) (s_phase s) (s_mt s) :: fires).
    assert (L' : s_log (micro_end s) = pre ++ LReeval :: s_log s) by (rewrite L; reflexivity).
    assert (Pp : Forall plain pre) by (unfold pre; constructor; [split; [reflexivity | split; [discriminate | intros; discriminate]] | apply fires_plain; exact Ff]).
    destruct (plain_entries pre (LReeval :: s_log s) Pp) as (_ & _ & A3 & A4 & _).
    constructor; cbn [fst snd].
    + rewrite M4, Hrd. intros _ [X|X]; exfalso; apply X; reflexivity.
    + rewrite L', A4. simpl. rewrite app_nil_r. intros _ (w & Hw & Ww). exfalso.
      destruct (proj1 (Forall_forall _ _) Pp w Hw) as (X & _). congruence.
    + (* everything logged so far becomes evaluated *)
      rewrite L', A3. simpl. intros w tw Hw Dw Ce.
      assert (Hw' : In w (s_log s)) by (destruct Hw as [X|Hw]; [destruct Dw as (? & ? & ? & ? & ? & ->); discriminate | exact Hw]).
      assert (Ce0 : clock_event_at tw (s_queue s)).
      { destruct Ce as (x & Hx & Tx & Ex). apply micro_end_queue in Hx. destruct Hx as [Hx|Hx]; [exists x; auto|].
        apply in_map_iff in Hx. destruct Hx as (ww & <- & _). destruct Tx; discriminate. }
      destruct (since_after_split _ _ Hw') as [Hs|Ha]; [|exact (Is w tw Ha Dw Ce0)].
      (* a pending DURING write: we are in its micro tick, which cannot end while a clock event of this time is queued *)
      destruct Dw as (mt & ro & pid & p & v & ->).
      destruct (i3_state _ _ I3 He) as (_ & _ & _ & _ & _ & _ & _ & S8).
      destruct (S8 _ Hs eq_refl) as (ro' & pid' & a' & Eq). inversion Eq; subst.
      assert (Pd : s_phase s = DURING) by congruence.
      destruct (Ip Pd (ex_intro _ _ (conj Hs eq_refl))) as (D1 & D2 & D3).
      destruct Ce0 as (x & Hx & Tx & Ex).
      assert (Sx : ev_shape x) by (apply (i3_shape _ _ I3); exact Hx).
      assert (Px : e_phase x = DURING /\ e_mt x = 0%N) by (unfold ev_shape in Sx; destruct Tx as [Tx|Tx]; rewrite Tx in Sx; exact Sx).
      destruct Px as (Px & Mx).
      (* the head of the queue matches the current micro tick *)
      unfold top_matches in Htm. destruct (s_queue s) as [|h q] eqn:Qe; [destruct Hx|].
      assert (Hle : (e_time h <= e_time x)%Q) by (apply (sorted_head_time h q x Srt Hx)).
      assert (Hge : (s_now s <= e_time h)%Q) by (apply (i4_future _ _ I4); rewrite Qe; left; reflexivity).
      assert (Ht : (e_time h == s_now s)%Q) by (apply Qle_antisym; [rewrite <- Ex; exact Hle | exact Hge]).
      assert (Hnk : ~ klt x h) by (destruct Hx as [->|Hx]; [apply klt_irrefl | exact (sorted_head_first h q x Srt Hx)]).
      assert (Hph : e_phase h = DURING).
      { destruct (e_phase h) eqn:Ph; [|reflexivity|].
        - exfalso. apply D3. exists h. split; [left; reflexivity | split; [exact Ph | exact Ht]].
        - exfalso. apply Hnk. right. split; [rewrite Ex, Ht; reflexivity|]. left. rewrite Px, Ph. reflexivity. }
      assert (Hmt : e_mt h = 0%N).
      { destruct (N.eq_dec (e_mt h) 0) as [Z|Z]; [exact Z|]. exfalso. apply Hnk. right. split; [rewrite Ex, Ht; reflexivity|].
        right. split; [congruence|]. left. rewrite Mx. lia. }
      simpl in Htm. rewrite (proj2 (Qeq_bool_iff _ _) Ht) in Htm. rewrite Hph, Pd, Hmt, D1 in Htm. simpl in Htm. discriminate.
    + rewrite L'. apply log_ok6_app; [simpl; split; [exact Il | exact I]|].
      unfold pre. constructor; [intros t k r a b c; discriminate|].
      eapply Forall_impl; [|exact Ff]. intros x (p & r & c & ->) t k r' a b c'. discriminate.
  - (* phase begin *)
    destruct (phase_begin_fields ph s) as (F1 & F2 & F3 & F4 & F5 & F6 & F7 & F8).
    pose proof (halted_false_err s Hh) as He.
    assert (L : s_log (phase_begin ph s) = LPhase (s_now s) ph :: s_log s).
    { unfold phase_begin. rewrite add_log_log. simpl. rewrite He. reflexivity. }
    assert (Nr : LPhase (s_now s) ph <> LReeval) by discriminate.
    constructor; cbn [fst snd].
    + rewrite F4, Hrd. intros _ [X|X]; exfalso; apply X; reflexivity.
    + rewrite L, (since_cons _ _ Nr). intros _ (w & [<-|Hw] & Ww); [discriminate|]. exfalso.
      pose proof (nwb_since_nowrite _ Hnw w Hw). congruence.
    + rewrite L, (after_cons _ _ Nr), F7. exact Is.
    + rewrite L. simpl. split; [exact Il | exact I].
  - (* commit begin *)
    constructor; cbn [fst snd]; assumption.
  - (* enqueue WaitStable waiter: read-only mode, phase AFTER *)
    pose proof (i4_ro _ _ I4 Hro) as Pa.
    constructor; cbn [fst snd]; try assumption; intros Pd; simpl in Pd; congruence.
  - (* commit end *)
    pose proof (i4_ro _ _ I4 Hro) as Pa.
    pose proof (halted_false_err s Hh) as He.
    destruct (commit_end_bk s) as (Q & _).
    set (ent := LCommit (s_now s) (r_a (s_circ s)) (r_a2 (s_circ s)) (r_b (s_circ s)) (c_out (s_circ s))).
    assert (L : s_log (commit_end s) = ent :: s_log s).
    { unfold commit_end. cbn [s_log set_readonly]. rewrite add_log_log, He. reflexivity. }
    assert (Ph : s_phase (commit_end s) = s_phase s) by (unfold commit_end; cbn [s_phase set_readonly]; apply add_log_ctl).
    assert (Nr : ent <> LReeval) by discriminate.
    constructor; cbn [fst snd].
    + rewrite Ph. intros Pd. congruence.
    + rewrite Ph. intros Pd. congruence.
    + rewrite L, (after_cons _ _ Nr), Q. exact Is.
    + rewrite L. simpl. split; [exact Il | exact I].
  - (* set time *)
    constructor; cbn [fst snd]; try assumption; intros Pd; simpl in Pd; congruence.
  - constructor; cbn [fst snd]; try assumption; intros Pd; simpl in Pd; congruence.
  - (* out of fuel *)
    constructor; cbn [fst snd]; assumption.
  - constructor; cbn [fst snd]; try assumption; intros Pd; simpl in Pd; congruence.
  - (* fiber start *)
    unfold fiber_start in Hfs.
    assert (E' : s' = snd (fiber_continue pid (log_proc pid AStart s))) by (rewrite Hfs; reflexivity).
    pose proof (fiber_continue_cont pid (log_proc pid AStart s)) as Cs. rewrite <- E' in Cs.
    pose proof (halted_false_err s Hh) as He.
    destruct (cont_states_bk _ _ _ Cs) as (Q & _). destruct (log_proc_bk pid AStart s) as (Q' & _).
    assert (Ct : same_ctl s s') by (eapply same_ctl_trans; [apply log_proc_ctl | apply (cont_states_ctl _ _ _ Cs)]).
    destruct Ct as (C1 & C2 & C3 & C4).
    assert (L : s_log s' = stamped s pid AStart :: s_log s).
    { destruct (cont_states_lg _ _ _ Cs) as (L & _). rewrite L. rewrite log_proc_log by exact He. reflexivity. }
    assert (Nr : stamped s pid AStart <> LReeval) by discriminate.
    constructor; cbn [fst snd].
    + rewrite C2. intros Pd. congruence.
    + rewrite C2. intros Pd. congruence.
    + rewrite L, (after_cons _ _ Nr), Q, Q'. exact Is.
    + rewrite L. simpl. split; [exact Il | exact I].
  - (* reevaluate in phase AFTER *)
    pose proof (halted_false_err s Hh) as He.
    destruct (reevaluate_bk s) as (Q & _). destruct (reevaluate_top s) as ((C1 & C2 & C3 & C4) & _ & _ & C5).
    assert (L : s_log (reevaluate s) = LReeval :: s_log s) by (unfold reevaluate; rewrite add_log_log; simpl; rewrite He; reflexivity).
    constructor; cbn [fst snd].
    + rewrite C2. intros Pd. congruence.
    + rewrite C2. intros Pd. congruence.
    + rewrite L, Q. simpl. intros w tw Hw Dw.
      assert (Hw' : In w (s_log s)) by (destruct Hw as [X|Hw]; [destruct Dw as (? & ? & ? & ? & ? & ->); discriminate | exact Hw]).
      destruct (since_after_split _ _ Hw') as [Hs|Ha]; [|exact (Is w tw Ha Dw)].
      exfalso. destruct Dw as (mt & ro & pid & p & v & ->).
      destruct (i3_state _ _ I3 He) as (_ & _ & _ & _ & _ & _ & _ & S8).
      destruct (S8 _ Hs eq_refl) as (ro' & pid' & a' & Eq). inversion Eq. congruence.
    + rewrite L. simpl. split; [exact Il | exact I].
Qed.

End Inv.

(* ------------------------------------------------------------------------- *)
(** * Consequences for complete runs *)

Lemma log_ok6_suffix : forall pre l, log_ok6 (pre ++ l) -> log_ok6 l.
Proof. induction pre as [|e r IH]; intros l H; [exact H|]. simpl in H. apply IH. tauto. Qed.

(* DURING: a write made in phase DURING of the edge's instant is not evaluated before the edge ... *)
Lemma during_write_not_evaluated_proof : forall cfg procs fiber until tb fuel pre t k rising ra ra2 rb mid tw mtw ro pid p v old,
  s_log (run cfg procs fiber until tb fuel) = pre ++ LEdge t k rising ra ra2 rb :: mid ++ LProc tw DURING mtw ro pid (AWrite p v) :: old ->
  (tw == t)%Q -> ~ In LReeval mid.
Proof.
  intros cfg procs fiber upto tb fuel pre t k rising ra ra2 rb mid tw mtw ro pid p v old E Eq Hr.
  destruct (run_reachable cfg procs fiber upto tb fuel) as (stk & R).
  pose proof (i6_log _ (reach_inv6 cfg procs fiber tb _ R)) as L. cbn [fst] in L. rewrite E in L.
  apply log_ok6_suffix in L. simpl in L. destruct L as (_ & L).
  destruct (after_reeval_in_mid mid (LProc tw DURING mtw ro pid (AWrite p v) :: old) Hr) as (m1 & m2 & -> & A).
  apply (L (LProc tw DURING mtw ro pid (AWrite p v)) tw).
  - rewrite A. right. apply in_or_app. right. left. reflexivity.
  - eexists _, _, _, _, _. reflexivity.
  - exact Eq.
Qed.

(* ... hence the registers that advance take the value their pin had at the reevaluate() before that write *)
Lemma during_write_not_captured_proof : forall cfg procs fiber until tb fuel pre t k rising ra ra2 rb mid tw mtw ro pid p v old,
  s_log (run cfg procs fiber until tb fuel) = pre ++ LEdge t k rising ra ra2 rb :: mid ++ LProc tw DURING mtw ro pid (AWrite p v) :: old ->
  (tw == t)%Q ->
  (ra, ra2, rb) = edge_regs (c_two cfg) k rising (mid ++ LProc tw DURING mtw ro pid (AWrite p v) :: old) /\
  after_reeval (mid ++ LProc tw DURING mtw ro pid (AWrite p v) :: old) = after_reeval old.
Proof.
  intros cfg procs fiber upto tb fuel pre t k rising ra ra2 rb mid tw mtw ro pid p v old E Eq.
  pose proof (during_write_not_evaluated_proof _ _ _ _ _ _ _ _ _ _ _ _ _ _ _ _ _ _ _ _ _ E Eq) as Nr.
  destruct (edge_semantics_proof cfg procs fiber upto tb fuel pre t k rising ra ra2 rb _ E) as (Rg & _).
  split; [exact Rg|]. rewrite (after_app_noreeval mid _ Nr). reflexivity.
Qed.

(* ------------------------------------------------------------------------- *)
(** * The statements of Properties_C19.v, assembled *)

Lemma before_sees_old_and_is_captured_proof : forall cfg procs fiber until tb fuel,
  (forall pre t mt ro pid a old,
     s_log (run cfg procs fiber until tb fuel) = pre ++ LProc t BEFORE mt ro pid a :: old -> ~ edge_at t old) /\
  (forall pre t k rising ra ra2 rb mid tw mtw ro pid p v old,
     s_log (run cfg procs fiber until tb fuel) =
       pre ++ LEdge t k rising ra ra2 rb :: mid ++ LProc tw BEFORE mtw ro pid (AWrite p v) :: old ->
     In LReeval mid) /\
  (forall pre t k ra ra2 rb mid tw mtw ro pid p v old,
     s_log (run cfg procs fiber until tb fuel) =
       pre ++ LEdge t k true ra ra2 rb :: mid ++ LProc tw BEFORE mtw ro pid (AWrite p v) :: old ->
     (forall t' ph' mt' ro' pid' v', ~ In (LProc t' ph' mt' ro' pid' (AWrite p v')) mid) ->
     match p, k with
     | PA, CA => ra = Some v
     | PB, CB => c_two cfg = true -> rb = Some v
     | PB, CA => c_two cfg = false -> rb = Some v
     | PA, CB => True
     end).
Proof.
  intros cfg procs fiber upto tb fuel. split; [|split].
  - intros pre t mt ro pid a old E. eapply before_during_precede_edges_proof; [exact E | discriminate].
  - intros pre t k rising ra ra2 rb mid tw mtw ro pid p v old E.
    eapply write_outside_during_evaluated_proof; [exact E | discriminate].
  - apply before_write_captured_proof.
Qed.

Lemma during_sees_old_not_captured_proof : forall cfg procs fiber until tb fuel,
  (forall pre t mt ro pid a old,
     s_log (run cfg procs fiber until tb fuel) = pre ++ LProc t DURING mt ro pid a :: old -> ~ edge_at t old) /\
  (forall pre t k rising ra ra2 rb mid tw mtw ro pid p v old,
     s_log (run cfg procs fiber until tb fuel) =
       pre ++ LEdge t k rising ra ra2 rb :: mid ++ LProc tw DURING mtw ro pid (AWrite p v) :: old ->
     (tw == t)%Q ->
     ~ In LReeval mid /\
     (ra, ra2, rb) = edge_regs (c_two cfg) k rising (mid ++ LProc tw DURING mtw ro pid (AWrite p v) :: old) /\
     after_reeval (mid ++ LProc tw DURING mtw ro pid (AWrite p v) :: old) = after_reeval old).
Proof.
  intros cfg procs fiber upto tb fuel. split.
  - intros pre t mt ro pid a old E. eapply before_during_precede_edges_proof; [exact E | discriminate].
  - intros pre t k rising ra ra2 rb mid tw mtw ro pid p v old E Eq. split.
    + eapply during_write_not_evaluated_proof; eassumption.
    + eapply during_write_not_captured_proof; eassumption.
Qed.

Lemma event_order_strict_weak_proof :
  (forall a b, ev_less b a = true <-> klt a b) /\
  (forall a, ~ klt a a) /\ (forall a b c, klt a b -> klt b c -> klt a c) /\
  (forall a b c, incomparable a b -> incomparable b c -> incomparable a c).
Proof. exact (conj ev_less_klt (conj klt_irrefl (conj klt_trans incomparable_trans))). Qed.

Lemma event_order_total_on_resumptions_proof : forall a b,
  e_type a = SimProcResume -> e_type b = SimProcResume -> e_id a <> e_id b ->
  (klt a b \/ klt b a) /\ (stamp_eq a b -> (klt a b <-> (e_id a < e_id b)%N)).
Proof. intros a b Ra Rb Hne. split; [apply klt_total_resume; assumption | apply klt_same_instant_resume; assumption]. Qed.

Lemma same_instant_fifo_all_proof : forall cfg procs fiber tb s stk,
  treach cfg (boot cfg procs fiber tb, []) (s, stk) ->
  qsorted (s_queue s) /\
  (forall l1 a l2 b l3, s_queue s = l1 ++ a :: l2 ++ b :: l3 ->
     e_type a = SimProcResume -> e_type b = SimProcResume -> stamp_eq a b -> (e_id a < e_id b)%N) /\
  (forall e s1, pop_event s = Some (e, s1) ->
     (forall x, In x (s_queue s1) -> ~ klt x e) /\
     (exists q, s_queue s = e :: q \/ exists e2 r, s_queue s = e2 :: e :: r /\ incomparable e2 e
                                      /\ e_type e2 = ClockPinTrigger /\ e_type e = ClockPinTrigger)).
Proof.
  intros cfg procs fiber tb s stk R. split; [exact (reach_sorted cfg procs fiber tb (s, stk) R)|]. split.
  - exact (same_instant_fifo_proof cfg procs fiber tb s stk R).
  - intros e s1 P. exact (pop_serves_first_proof cfg procs fiber tb s stk e s1 R P).
Qed.
