(* C03 layer (b), part 4: several slices of one frontend object - dynamic word selection
   (part / parts), writes through static and dynamic slices, and the transparency of the alias
   caches: every request of a sequence is evaluated by its own definition. *)
From Gatery Require Import Bits NodeSemDefs NodeSemBits NodeSemSpec NodeSemSpecArith NodeSemSpecShift
  FrontendOpsDefs FrontendOpsBits FrontendOpsSpec FrontendOpsArith FrontendOpsMisc.
Import ListNotations.

(* x.part(P, idx) / x.parts(P)[idx]: word idx of P equal words; beyond the last word: undefined *)
Theorem part_spec p a idx i :
  is_vec (sv_ty a) = true -> sv_ty idx = TU -> 0 < p -> sv_w a mod p = 0 -> bv_val (sv_bits idx) = Some i ->
  let pw := sv_w a / p in
  fe_part p a idx =
  Some (mk_sval (sv_ty a) (sv_pol a) (if (i <? N.of_nat p)%N then bv_slice (sv_bits a) (N.to_nat i * pw) pw else all_X pw)).
Proof.
  intros Va Ti Hp Hd Hi pw. unfold fe_part. rewrite Ti, Va. cbn [negb].
  replace (p =? 0) with false by (symmetry; apply Nat.eqb_neq; lia).
  rewrite Hd. cbn [Nat.eqb negb]. fold pw. unfold ret. f_equal. f_equal.
  rewrite (node1_mux p pw _ i _ Hi).
  - destruct (N.ltb_spec i (N.of_nat p)) as [L|L]; [|reflexivity].
    rewrite (nth_indep _ [] (node1 (KRewire (extract_ranges (sv_w a) (0 * pw) pw)) [sv_bits a])) by (rewrite map_length, seq_length; lia).
    rewrite (map_nth (fun i0 => node1 (KRewire (extract_ranges (sv_w a) (i0 * pw) pw)) [sv_bits a]) (seq 0 p) 0).
    rewrite seq_nth by lia. cbn [Nat.add]. unfold sv_w at 1. apply extract_ranges_spec.
  - rewrite map_length, seq_length. lia.
  - intros x Hx. apply in_map_iff in Hx as [j [<- _]]. unfold sv_w. rewrite extract_ranges_spec. apply bv_slice_length.
Qed.

Theorem part_rejected p a idx :
  p = 0 \/ sv_w a mod p <> 0 -> fe_part p a idx = None.
Proof.
  intros H. unfold fe_part. destruct (sv_ty idx); try reflexivity. destruct (negb (is_vec (sv_ty a))); [reflexivity|].
  destruct (Nat.eqb_spec p 0) as [E|E]; [reflexivity|]. destruct H as [H|H]; [contradiction|].
  replace (sv_w a mod p =? 0) with false by (symmetry; apply Nat.eqb_neq; exact H). reflexivity.
Qed.

(* alias = value through a static slice: exactly the addressed bits are replaced *)
Theorem write_static_spec off w x v :
  off + w <= length x -> off < length x -> length v = w ->
  write_static off w x v = Some (firstn off x ++ v ++ skipn (off + w) x).
Proof.
  intros Hr Ho Lv. unfold write_static. replace (off <? length x) with true by (symmetry; apply Nat.ltb_lt; exact Ho).
  f_equal. rewrite node1_rewire. unfold replace_ranges, rw_add. change (map (@Some bv) [x; v]) with [Some x; Some v].
  replace (Init.Nat.min w (length x - off)) with w by lia.
  assert (P0 : forall o n, rewire_piece [Some x; Some v] (mk_range n (RW_INPUT 0 o)) = bv_slice x o n) by reflexivity.
  assert (P1 : forall n, rewire_piece [Some x; Some v] (mk_range n (RW_INPUT 1 0)) = bv_slice v 0 n) by reflexivity.
  assert (F : bv_slice x 0 off = firstn off x) by (rewrite bv_slice_firstn_skipn by lia; reflexivity).
  assert (S : bv_slice x (off + w) (length x - (off + w)) = skipn (off + w) x).
  { rewrite bv_slice_firstn_skipn by lia. apply firstn_all2. rewrite skipn_length. lia. }
  assert (V : bv_slice v 0 w = v) by (rewrite <- Lv; apply bv_slice_full).
  destruct (Nat.eqb_spec off 0) as [O0|O0]; destruct (Nat.eqb_spec w 0) as [W0|W0];
    destruct (Nat.eqb_spec (length x - (off + w)) 0) as [R0|R0];
    cbn [app map concat]; rewrite ?P0, ?P1, ?F, ?S, ?V, ?app_nil_r;
    try (subst off; cbn [firstn app]);
    try (assert (v = []) by (destruct v; [reflexivity | simpl in Lv; lia]); subst v; cbn [app]);
    try (rewrite (skipn_all2 x) by lia; rewrite ?app_nil_r);
    try reflexivity.
Qed.

Lemma all_some_map_some {A B} (f : A -> option B) (g : A -> B) l :
  (forall a, In a l -> f a = Some (g a)) -> all_some (map f l) = Some (map g l).
Proof.
  induction l as [|a l IH]; intro H; [reflexivity|]. cbn [map all_some].
  rewrite (H a (or_introl eq_refl)), IH by (intros b Hb; apply H; right; exact Hb). reflexivity.
Qed.

(* alias = value through a dynamic slice (x(idx, w), part, x[idx]) with a defined index: the write
   lands at position idx * stride, like the static write there; an index beyond the n positions
   makes the whole object undefined *)
Theorem write_dyn_spec n mul w idx i x v :
  bv_val idx = Some i -> length v = w ->
  (forall j, j < n -> j * mul + w <= length x /\ j * mul < length x) ->
  write_dyn n mul w idx x v =
  Some (if (i <? N.of_nat n)%N
        then firstn (N.to_nat i * mul) x ++ v ++ skipn (N.to_nat i * mul + w) x
        else all_X (length x)).
Proof.
  intros Hi Lv Hr. unfold write_dyn, bind.
  set (g := fun j => firstn (j * mul) x ++ v ++ skipn (j * mul + w) x).
  rewrite (all_some_map_some _ g).
  - f_equal. rewrite (node1_mux n (length x) idx i _ Hi).
    + destruct (N.ltb_spec i (N.of_nat n)) as [L|L]; [|reflexivity].
      rewrite (nth_indep _ [] (g 0)) by (rewrite map_length, seq_length; lia).
      rewrite (map_nth g (seq 0 n) 0), seq_nth by lia. reflexivity.
    + rewrite map_length, seq_length. lia.
    + intros y Hy. apply in_map_iff in Hy as [j [<- Hj]]. apply in_seq in Hj. destruct (Hr j ltac:(lia)) as [H1 H2].
      unfold g. rewrite !app_length, firstn_length, skipn_length. lia.
  - intros j Hj. apply in_seq in Hj. destruct (Hr j ltac:(lia)) as [H1 H2]. apply write_static_spec; assumption.
Qed.

(* Transparency of the alias caches: a sequence of READ requests on one object yields, for every
   request, the value of its own definition on the object - independent of which other slices were
   requested before, and of the order. *)
Theorem mslice_reads_spec fs x aux :
  is_vec (sv_ty x) = true ->
  fe_mslice (map SR_read fs) x aux =
  match all_some (map (fun f => read_form f x aux) fs) with
  | Some rs => fe_pack (rs ++ [x])
  | None => None
  end.
Proof.
  intro Vx. unfold fe_mslice. rewrite Vx.
  assert (G : forall l reads,
    mslice_run (map SR_read l) x aux reads =
    match all_some (map (fun f => read_form f x aux) l) with
    | Some rs => fe_pack (rev reads ++ rs ++ [x])
    | None => None
    end).
  { induction l as [|f l IH]; intro reads; [reflexivity|].
    cbn [map mslice_run all_some]. unfold bind. destruct (read_form f x aux) as [r|]; [|reflexivity].
    rewrite IH. destruct (all_some (map (fun f0 => read_form f0 x aux) l)); [|reflexivity].
    cbn [rev]. rewrite <- app_assoc. reflexivity. }
  apply (G fs []).
Qed.

(* a write followed by further requests: the later requests see the updated object *)
Theorem mslice_write_then f k rest x aux v x' :
  is_vec (sv_ty x) = true -> aux_get aux k = Some v -> write_form f x aux v = Some x' ->
  fe_mslice (SR_write f k :: rest) x aux =
  (if is_vec (sv_ty x') then mslice_run rest x' aux [] else None).
Proof.
  intros Vx Hv Hw. unfold fe_mslice. rewrite Vx. cbn [mslice_run]. unfold bind. rewrite Hv, Hw.
  assert (T : sv_ty x' = sv_ty x).
  { unfold write_form in Hw. destruct f; try discriminate; repeat match type of Hw with
      | context [bind ?o _] => destruct o; cbn [bind] in Hw; try discriminate
      | context [match ?o with _ => _ end] => destruct o; try discriminate
      end; try (injection Hw as <-; reflexivity). }
  rewrite T, Vx. reflexivity.
Qed.
