(* C18 -- proofs, part 2: effect of every single-plane word-level operation on [wbit]
   (for ALL bit positions, hence including "no other bit changes"), and preservation of
   the representation invariant (length, every word < 2^64). *)
From Coq Require Import List NArith ZArith Bool Lia.
From Gatery Require Import BvsDefs BvsSpec BvsLeaf.
Import ListNotations.
Ltac Zify.zify_post_hook ::= Z.to_euclidean_division_equations.
Local Open Scope N_scope.

Definition wordsok (w : list N) : Prop := Forall lt64 w.
Definition wlen (w : list N) : N := N.of_nat (length w).

(* ---- upd_nat / getw / setw ---- *)
Lemma length_upd_nat {A} (l : list A) k v : length (upd_nat l k v) = length l.
Proof. revert k; induction l as [|h t IH]; intros [|k]; simpl; auto. Qed.

Lemma nth_upd_nat {A} (l : list A) k v j d :
  nth j (upd_nat l k v) d = if Nat.eqb j k && Nat.ltb k (length l) then v else nth j l d.
Proof.
  revert k j; induction l as [|h t IH]; intros [|k] [|j]; simpl; auto.
  - destruct (Nat.eqb j k); reflexivity.
  - rewrite IH. reflexivity.
Qed.

Lemma nth_upd_nat_same {A} (l : list A) k v d : (k < length l)%nat -> nth k (upd_nat l k v) d = v.
Proof.
  intro H. rewrite nth_upd_nat, Nat.eqb_refl. destruct (Nat.ltb_spec k (length l)); [reflexivity | lia].
Qed.

Lemma nth_upd_nat_other {A} (l : list A) k v j d : j <> k -> nth j (upd_nat l k v) d = nth j l d.
Proof.
  intro H. rewrite nth_upd_nat. destruct (Nat.eqb_spec j k); [contradiction | reflexivity].
Qed.

Lemma upd_nat_beyond {A} (l : list A) k v : (length l <= k)%nat -> upd_nat l k v = l.
Proof.
  revert k; induction l as [|h t IH]; intros [|k] H; simpl in *; auto; try lia.
  f_equal. apply IH. lia.
Qed.

Lemma length_setw w k v : length (setw w k v) = length w.
Proof. apply length_upd_nat. Qed.

Lemma wlen_setw w k v : wlen (setw w k v) = wlen w.
Proof. unfold wlen. rewrite length_setw. reflexivity. Qed.

Lemma getw_setw w k v j :
  getw (setw w k v) j = if (j =? k) && (k <? wlen w) then v else getw w j.
Proof.
  unfold getw, setw, wlen. rewrite nth_upd_nat.
  destruct (Nat.eqb_spec (N.to_nat j) (N.to_nat k)), (N.eqb_spec j k); try lia;
  destruct (Nat.ltb_spec (N.to_nat k) (length w)), (N.ltb_spec k (N.of_nat (length w))); try lia; reflexivity.
Qed.

Lemma wordsok_getw w k : wordsok w -> lt64 (getw w k).
Proof.
  intro H. unfold getw. destruct (Nat.lt_ge_cases (N.to_nat k) (length w)) as [Hk | Hk].
  - eapply Forall_forall; [exact H | apply nth_In; exact Hk].
  - rewrite nth_overflow by exact Hk. apply lt64_0.
Qed.

Lemma wordsok_upd w k v : wordsok w -> lt64 v -> wordsok (upd_nat w k v).
Proof.
  intros H Hv. revert k. induction H as [|h t Hh Ht IH]; intros [|k]; simpl; constructor; auto.
  apply IH.
Qed.

Lemma wordsok_setw w k v : wordsok w -> lt64 v -> wordsok (setw w k v).
Proof. apply wordsok_upd. Qed.

Lemma wbit_setw w k v i :
  wbit (setw w k v) i = if (i / 64 =? k) && (k <? wlen w) then N.testbit v (i mod 64) else wbit w i.
Proof.
  unfold wbit. rewrite getw_setw. destruct ((i / 64 =? k) && (k <? wlen w)); reflexivity.
Qed.

Lemma wbit_beyond w i : wordsok w -> 64 * wlen w <= i -> wbit w i = false.
Proof.
  intros _ H. unfold wbit, getw. rewrite nth_overflow. apply tb_0. unfold wlen in H. lia.
Qed.

Lemma getw_beyond w k : wlen w <= k -> getw w k = 0.
Proof. intro H. unfold getw. apply nth_overflow. unfold wlen in H. lia. Qed.

(* two word vectors with the same bits are equal *)
Lemma words_ext a b :
  wordsok a -> wordsok b -> length a = length b -> (forall i, wbit a i = wbit b i) -> a = b.
Proof.
  intros Ha Hb Hl H. apply (nth_ext a b 0 0 Hl). intros n Hn.
  apply N.bits_inj. intro j. destruct (N.lt_ge_cases j 64) as [Hj | Hj].
  - specialize (H (64 * N.of_nat n + j)). unfold wbit, getw in H.
    replace ((64 * N.of_nat n + j) / 64) with (N.of_nat n) in H by lia.
    replace ((64 * N.of_nat n + j) mod 64) with j in H by lia.
    rewrite Nat2N.id in H. exact H.
  - rewrite !lt64_tb; auto.
    + eapply Forall_forall; [exact Hb | apply nth_In; lia].
    + eapply Forall_forall; [exact Ha | apply nth_In; lia].
Qed.

(* ---- single bit operations ---- *)
Lemma tb_1 j : N.testbit 1 j = (j =? 0).
Proof.
  destruct (N.eqb_spec j 0) as [-> | H]; [reflexivity |].
  change 1 with (N.ones 1). rewrite tb_ones. destruct (N.ltb_spec j 1); [lia | reflexivity].
Qed.

Lemma tb_bit r j : N.testbit (shl64 1 r) j = (j <? 64) && (j =? r).
Proof.
  rewrite tb_shl64, tb_1. cmp_cases; bool_close.
Qed.

Lemma bitExtract_wbit w i : bitExtract w i = wbit w i.
Proof.
  unfold bitExtract, wbit. set (a := getw w (i / 64)). set (r := i mod 64).
  assert (Hr : r < 64) by (subst r; lia).
  destruct (N.testbit a r) eqn:E.
  - destruct (N.eqb_spec (N.land a (shl64 1 r)) 0) as [Z | Z]; [|reflexivity].
    exfalso. assert (F : N.testbit (N.land a (shl64 1 r)) r = true).
    { rewrite N.land_spec, tb_bit, E, N.eqb_refl. destruct (N.ltb_spec r 64); [reflexivity | lia]. }
    rewrite Z, tb_0 in F. discriminate.
  - destruct (N.eqb_spec (N.land a (shl64 1 r)) 0) as [Z | Z]; [reflexivity |].
    exfalso. apply Z. apply N.bits_inj. intro j. rewrite N.land_spec, tb_bit, tb_0.
    destruct (N.eqb_spec j r) as [-> | H].
    + rewrite E. reflexivity.
    + rewrite andb_false_r, andb_false_r. reflexivity.
Qed.

Lemma wbit_bitSet w idx i :
  idx < 64 * wlen w -> wbit (bitSet w idx) i = if i =? idx then true else wbit w i.
Proof.
  intro H. unfold bitSet. rewrite wbit_setw, N.lor_spec, tb_bit. fold (wbit w i).
  destruct (N.eqb_spec i idx) as [-> | Hne].
  - rewrite N.eqb_refl. destruct (N.ltb_spec (idx / 64) (wlen w)); [|lia]. bsimpl.
    rewrite N.eqb_refl. destruct (N.ltb_spec (idx mod 64) 64); [|lia]. apply orb_true_r.
  - destruct (N.eqb_spec (i / 64) (idx / 64)) as [E | E]; bsimpl; [|reflexivity].
    destruct (N.ltb_spec (idx / 64) (wlen w)); [|lia].
    unfold wbit. rewrite E.
    destruct (N.eqb_spec (i mod 64) (idx mod 64)); [lia|]. rewrite andb_false_r, orb_false_r. reflexivity.
Qed.

Lemma wbit_bitClear w idx i :
  wordsok w -> idx < 64 * wlen w -> wbit (bitClear w idx) i = if i =? idx then false else wbit w i.
Proof.
  intros Hw H. unfold bitClear. rewrite wbit_setw, tb_andNot, tb_bit.
  destruct (N.eqb_spec i idx) as [-> | Hne].
  - rewrite N.eqb_refl. destruct (N.ltb_spec (idx / 64) (wlen w)); [|lia]. bsimpl.
    rewrite N.eqb_refl. destruct (N.ltb_spec (idx mod 64) 64); [|lia]. reflexivity.
  - destruct (N.eqb_spec (i / 64) (idx / 64)) as [E | E]; bsimpl; [|reflexivity].
    destruct (N.ltb_spec (idx / 64) (wlen w)); [|lia].
    unfold wbit. rewrite E.
    destruct (N.eqb_spec (i mod 64) (idx mod 64)); [lia|].
    destruct (N.ltb_spec (i mod 64) 64); [|lia]. reflexivity.
Qed.

Lemma wbit_bitToggle w idx i :
  idx < 64 * wlen w -> wbit (bitToggle w idx) i = if i =? idx then negb (wbit w i) else wbit w i.
Proof.
  intro H. unfold bitToggle. rewrite wbit_setw, N.lxor_spec, tb_bit.
  destruct (N.eqb_spec i idx) as [-> | Hne].
  - rewrite N.eqb_refl. destruct (N.ltb_spec (idx / 64) (wlen w)); [|lia]. bsimpl.
    rewrite N.eqb_refl. destruct (N.ltb_spec (idx mod 64) 64); [|lia]. bsimpl.
    unfold wbit. apply xorb_true_r.
  - destruct (N.eqb_spec (i / 64) (idx / 64)) as [E | E]; bsimpl; [|reflexivity].
    destruct (N.ltb_spec (idx / 64) (wlen w)); [|lia].
    unfold wbit. rewrite E.
    destruct (N.eqb_spec (i mod 64) (idx mod 64)); [lia|]. rewrite andb_false_r. apply xorb_false_r.
Qed.

Lemma wordsok_bitSet w idx : wordsok w -> wordsok (bitSet w idx).
Proof.
  intro H. apply wordsok_setw; [exact H|]. apply lt64_lor; [apply wordsok_getw; exact H | apply lt64_shl64].
Qed.
Lemma wordsok_bitClear w idx : wordsok w -> wordsok (bitClear w idx).
Proof. intro H. apply wordsok_setw; [exact H | apply lt64_andNot]. Qed.
Lemma wordsok_bitToggle w idx : wordsok w -> wordsok (bitToggle w idx).
Proof.
  intro H. apply wordsok_setw; [exact H|]. apply lt64_lxor; [apply wordsok_getw; exact H | apply lt64_shl64].
Qed.
Lemma length_bitSet w idx : length (bitSet w idx) = length w.
Proof. apply length_setw. Qed.
Lemma length_bitClear w idx : length (bitClear w idx) = length w.
Proof. apply length_setw. Qed.
Lemma length_bitToggle w idx : length (bitToggle w idx) = length w.
Proof. apply length_setw. Qed.

(* ---- non-straddling insert / extract ---- *)
Lemma wbit_insertNSP w start size v i :
  wordsok w -> start mod 64 + size <= 64 -> start + size <= 64 * wlen w ->
  wbit (insertNSP w start size v) i
  = if (start <=? i) && (i <? start + size) then N.testbit v (i - start) else wbit w i.
Proof.
  intros Hw Hns Hin. unfold insertNSP.
  destruct (N.eqb_spec size 0) as [-> | Hsz].
  - cmp_cases; bool_close.
  - rewrite wbit_setw, tb_bitfieldInsert by (apply wordsok_getw; exact Hw).
    destruct (N.eqb_spec (i / 64) (start / 64)) as [E | E]; bsimpl.
    + destruct (N.ltb_spec (start / 64) (wlen w)); [|lia].
      destruct (N.ltb_spec (i mod 64) 64); [|lia]. bsimpl.
      destruct (N.leb_spec (start mod 64) (i mod 64)); bsimpl.
      * destruct (N.ltb_spec (i mod 64 - start mod 64) size); bsimpl.
        -- destruct (N.leb_spec start i); [|lia]. destruct (N.ltb_spec i (start + size)); [|lia].
           bsimpl. f_equal. lia.
        -- destruct (N.leb_spec start i); [|lia]. destruct (N.ltb_spec i (start + size)); [lia|].
           bsimpl. unfold wbit. rewrite E. reflexivity.
      * destruct (N.leb_spec start i); [lia|]. bsimpl. unfold wbit. rewrite E. reflexivity.
    + destruct (N.leb_spec start i); bsimpl; [|reflexivity].
      destruct (N.ltb_spec i (start + size)); [lia | reflexivity].
Qed.

Lemma length_insertNSP w start size v : length (insertNSP w start size v) = length w.
Proof. unfold insertNSP. destruct (size =? 0); [reflexivity | apply length_setw]. Qed.

Lemma wordsok_insertNSP w start size v : wordsok w -> wordsok (insertNSP w start size v).
Proof.
  intro H. unfold insertNSP. destruct (size =? 0); [exact H|].
  apply wordsok_setw; [exact H | apply lt64_bitfieldInsert].
Qed.

Lemma tb_extractNSP w start size j :
  start mod 64 + size <= 64 ->
  N.testbit (extractNSP w start size) j = (j <? size) && wbit w (start + j).
Proof.
  intro H. unfold extractNSP. rewrite tb_bitfieldExtract by lia.
  destruct (N.ltb_spec j size); bsimpl.
  - destruct (N.ltb_spec j 64); [|lia]. bsimpl. unfold wbit.
    replace ((start + j) / 64) with (start / 64) by lia.
    replace ((start + j) mod 64) with (j + start mod 64) by lia. reflexivity.
  - rewrite andb_false_r. reflexivity.
Qed.

Lemma lt64_extractNSP w start size : lt64 (extractNSP w start size).
Proof. apply lt64_bitfieldExtract. Qed.

(* ---- extract(plane, offset, size), size <= 64, any offset ---- *)
Lemma tb_extractWP w off size j :
  wordsok w -> size <= 64 ->
  N.testbit (extractWP w off size) j = (j <? size) && wbit w (off + j).
Proof.
  intros Hw Hsz. unfold extractWP.
  rewrite N.land_spec, tb_bitMaskRange.
  replace (j - 0) with j by lia.
  replace (0 <=? j) with true by (symmetry; apply N.leb_le; lia).
  bsimpl.
  destruct (N.ltb_spec j size); bsimpl.
  2:{ rewrite !andb_false_r. reflexivity. }
  destruct (N.ltb_spec j 64); [|lia]. bsimpl. rewrite andb_true_r.
  assert (Hk : lt64 (getw w (off / 64))) by (apply wordsok_getw; exact Hw).
  destruct (N.lt_ge_cases (off mod 64 + j) 64) as [Hlo | Hhi].
  - (* the bit lives in the first word *)
    assert (E : N.testbit (N.shiftr (getw w (off / 64)) (off mod 64)) j = wbit w (off + j)).
    { rewrite tb_shr. unfold wbit.
      replace ((off + j) / 64) with (off / 64) by lia.
      replace ((off + j) mod 64) with (j + off mod 64) by lia. reflexivity. }
    destruct (N.ltb_spec 64 (off mod 64 + size)).
    + rewrite N.lor_spec, E, tb_shl64.
      destruct (N.leb_spec (64 - off mod 64) j); [lia|]. rewrite andb_false_r. apply orb_false_r.
    + exact E.
  - (* the bit lives in the second word *)
    destruct (N.ltb_spec 64 (off mod 64 + size)); [|lia].
    rewrite N.lor_spec, tb_shr, tb_shl64.
    rewrite (lt64_tb _ _ Hk) by lia. bsimpl.
    destruct (N.ltb_spec j 64); [|lia].
    destruct (N.leb_spec (64 - off mod 64) j); [|lia]. bsimpl. unfold wbit.
    replace ((off + j) / 64) with (off / 64 + 1) by lia.
    replace ((off + j) mod 64) with (j - (64 - off mod 64)) by lia. reflexivity.
Qed.

Lemma lt64_extractWP w off size : lt64 (extractWP w off size).
Proof. unfold extractWP. apply lt64_land_r. apply lt64_bitMaskRange. Qed.

(* ---- insert(plane, offset, size, value), size <= 64, any offset ---- *)
Lemma length_insertWP w off size v : length (insertWP w off size v) = length w.
Proof.
  unfold insertWP. destruct (off mod 64 + size <=? 64).
  - apply length_insertNSP.
  - rewrite !length_setw. reflexivity.
Qed.

Lemma wordsok_insertWP w off size v : wordsok w -> wordsok (insertWP w off size v).
Proof.
  intro H. unfold insertWP. destruct (off mod 64 + size <=? 64).
  - apply wordsok_insertNSP. exact H.
  - apply wordsok_setw; [apply wordsok_setw; [exact H|] |]; apply lt64_bitfieldInsert.
Qed.

Lemma wbit_insertWP w off size v i :
  wordsok w -> size <= 64 -> off + size <= 64 * wlen w ->
  wbit (insertWP w off size v) i
  = if (off <=? i) && (i <? off + size) then N.testbit v (i - off) else wbit w i.
Proof.
  intros Hw Hsz Hin. unfold insertWP.
  destruct (N.leb_spec (off mod 64 + size) 64) as [Hns | Hst].
  - apply wbit_insertNSP; assumption.
  - set (k := off / 64). set (wo := off mod 64).
    set (w1 := setw w k (bitfieldInsert (getw w k) wo (64 - wo) v)).
    assert (Hw1 : wordsok w1) by (apply wordsok_setw; [exact Hw | apply lt64_bitfieldInsert]).
    assert (Hl1 : wlen w1 = wlen w) by apply wlen_setw.
    rewrite wbit_setw, Hl1.
    rewrite tb_bitfieldInsert by (apply wordsok_getw; exact Hw1).
    assert (Hwo : wo < 64) by (subst wo; lia).
    assert (Hoff : off = 64 * k + wo) by (subst k wo; lia).
    destruct (N.eqb_spec (i / 64) (k + 1)) as [E | E]; bsimpl.
    + (* second word *)
      destruct (N.ltb_spec (k + 1) (wlen w)); [|lia].
      destruct (N.ltb_spec (i mod 64) 64); [|lia]. bsimpl.
      destruct (N.leb_spec 0 (i mod 64)); [|lia]. bsimpl.
      replace (i mod 64 - 0) with (i mod 64) by lia.
      destruct (N.leb_spec off i); [|lia]. bsimpl.
      destruct (N.ltb_spec (i mod 64) ((wo + size) mod 64)).
      * destruct (N.ltb_spec i (off + size)); [|lia].
        rewrite tb_shr. f_equal. lia.
      * destruct (N.ltb_spec i (off + size)); [lia|].
        subst w1. rewrite getw_setw.
        destruct (N.eqb_spec (k + 1) k); [lia|]. bsimpl. unfold wbit. rewrite E. reflexivity.
    + (* first word or elsewhere *)
      subst w1. rewrite wbit_setw.
      rewrite tb_bitfieldInsert by (apply wordsok_getw; exact Hw).
      destruct (N.eqb_spec (i / 64) k) as [E2 | E2]; bsimpl.
      * destruct (N.ltb_spec k (wlen w)); [|lia].
        destruct (N.ltb_spec (i mod 64) 64); [|lia]. bsimpl.
        destruct (N.leb_spec wo (i mod 64)); bsimpl.
        -- destruct (N.ltb_spec (i mod 64 - wo) (64 - wo)); [|lia].
           destruct (N.leb_spec off i); [|lia]. destruct (N.ltb_spec i (off + size)); [|lia].
           bsimpl. f_equal. lia.
        -- destruct (N.leb_spec off i); [lia|]. bsimpl. unfold wbit. rewrite E2. reflexivity.
      * destruct (N.leb_spec off i); bsimpl; [|reflexivity].
        destruct (N.ltb_spec i (off + size)); [lia | reflexivity].
Qed.

(* ---- setRange ---- *)
Lemma length_fillw w k n c : length (fillw w k n c) = length w.
Proof. revert w k; induction n as [|n IH]; intros w k; cbn [fillw]; [reflexivity|]. rewrite IH. apply length_setw. Qed.

Lemma wordsok_fillw w k n c : wordsok w -> lt64 c -> wordsok (fillw w k n c).
Proof.
  revert w k; induction n as [|n IH]; intros w k Hw Hc; cbn [fillw]; [exact Hw|].
  apply IH; [apply wordsok_setw; assumption | exact Hc].
Qed.

Lemma wbit_fillw w k n c i :
  k + N.of_nat n <= wlen w ->
  wbit (fillw w k n c) i
  = if (k <=? i / 64) && (i / 64 <? k + N.of_nat n) then N.testbit c (i mod 64) else wbit w i.
Proof.
  revert w k; induction n as [|n IH]; intros w k H.
  - cbn [fillw]. cmp_cases; bool_close.
  - cbn [fillw]. rewrite IH by (rewrite wlen_setw; lia). rewrite wbit_setw.
    destruct (N.eqb_spec (i / 64) k) as [E | E].
    + rewrite E. destruct (N.ltb_spec k (wlen w)); [|lia]. cmp_cases; bool_close.
    + cmp_cases; bool_close.
Qed.

Lemma tb_content (b : bool) j :
  j < 64 -> N.testbit (if b then not64 0 else 0) j = b.
Proof.
  intro H. destruct b.
  - rewrite tb_not64, tb_0. destruct (N.ltb_spec j 64); [reflexivity | lia].
  - apply tb_0.
Qed.

Lemma lt64_content (b : bool) : lt64 (if b then not64 0 else 0).
Proof. destruct b; [apply lt64_not64 | apply lt64_0]. Qed.

Lemma length_setRangeP w off size b : length (setRangeP w off size b) = length w.
Proof.
  unfold setRangeP. destruct (off mod 64 =? 0); cbn [fst snd];
  match goal with |- context [if ?c then _ else _] => destruct c end;
  rewrite ?length_insertNSP, ?length_fillw, ?length_insertNSP; reflexivity.
Qed.

Lemma wordsok_setRangeP w off size b : wordsok w -> wordsok (setRangeP w off size b).
Proof.
  intro H. pose proof (lt64_content b) as Hc. unfold setRangeP.
  destruct (off mod 64 =? 0); cbn [fst snd];
  match goal with |- context [if ?c then _ else _] => destruct c end;
  repeat first [apply wordsok_insertNSP | apply wordsok_fillw]; assumption.
Qed.

Lemma wbit_insertNSP_content w start size (b : bool) i :
  wordsok w -> start mod 64 + size <= 64 -> start + size <= 64 * wlen w ->
  wbit (insertNSP w start size (if b then not64 0 else 0)) i
  = if (start <=? i) && (i <? start + size) then b else wbit w i.
Proof.
  intros Hw Hns Hin. rewrite wbit_insertNSP by assumption.
  destruct ((start <=? i) && (i <? start + size)) eqn:E; [|reflexivity].
  apply andb_true_iff in E. destruct E as [E1 E2]. apply N.leb_le in E1. apply N.ltb_lt in E2.
  apply tb_content. lia.
Qed.

Lemma wbit_setRangeP w off size b i :
  wordsok w -> off + size <= 64 * wlen w ->
  wbit (setRangeP w off size b) i = if (off <=? i) && (i <? off + size) then b else wbit w i.
Proof.
  intros Hw Hin. pose proof (lt64_content b) as Hc. unfold setRangeP.
  assert (Hi64 : i mod 64 < 64) by lia.
  destruct (N.eqb_spec (off mod 64) 0) as [Ha | Ha]; cbn [fst snd].
  - (* aligned start *)
    replace (size - 0) with size by lia.
    destruct (N.ltb_spec 0 (size mod 64)) as [Ht | Ht].
    + rewrite wbit_insertNSP_content.
      * rewrite wbit_fillw by (rewrite N2Nat.id; lia). rewrite N2Nat.id.
        rewrite tb_content by exact Hi64.
        cmp_cases; bool_close.
      * apply wordsok_fillw; assumption.
      * lia.
      * unfold wlen. rewrite length_fillw. fold (wlen w). lia.
    + rewrite wbit_fillw by (rewrite N2Nat.id; lia). rewrite N2Nat.id.
      rewrite tb_content by exact Hi64.
      cmp_cases; bool_close.
  - (* unaligned start *)
    set (f := N.min size (64 - off mod 64)).
    assert (Hf : f <= size /\ f <= 64 - off mod 64 /\ (f = size \/ f = 64 - off mod 64)) by (subst f; lia).
    set (w1 := insertNSP w off f (if b then not64 0 else 0)).
    assert (Hw1 : wordsok w1) by (apply wordsok_insertNSP; exact Hw).
    assert (Hl1 : wlen w1 = wlen w) by (unfold wlen, w1; rewrite length_insertNSP; reflexivity).
    assert (B1 : forall x, wbit w1 x = if (off <=? x) && (x <? off + f) then b else wbit w x).
    { intro x. apply wbit_insertNSP_content; [exact Hw | lia | lia]. }
    destruct (N.ltb_spec 0 ((size - f) mod 64)) as [Ht | Ht].
    + rewrite wbit_insertNSP_content.
      * rewrite wbit_fillw by (rewrite N2Nat.id, Hl1; lia). rewrite N2Nat.id, B1.
        rewrite tb_content by exact Hi64.
        cmp_cases; bool_close.
      * apply wordsok_fillw; assumption.
      * lia.
      * unfold wlen. rewrite length_fillw. fold (wlen w1). lia.
    + rewrite wbit_fillw by (rewrite N2Nat.id, Hl1; lia). rewrite N2Nat.id, B1.
      rewrite tb_content by exact Hi64.
      cmp_cases; bool_close.
Qed.
