(* C05 -- defaults: when every default node is classified "loopy" the defaults are ordinary initial
   values of a sequential program; in general the circuit equals the software run in which every
   defaulted variable starts with the value the resolution gives its default node. *)
From Gatery Require Import Bits FrontendDefs FrontendSpec FrontendDefaultDefs.
Import ListNotations.

Lemma map_nth_seq {A} (l : list A) d : map (fun k => nth k l d) (seq 0 (length l)) = l.
Proof.
  induction l as [|a l IH]; simpl; auto. f_equal. rewrite <- seq_shift, map_map. exact IH.
Qed.

Lemma find_all_loopy res k d :
  all_loopy res = true -> find (fun d : nat * nid * bool => Nat.eqb (fst (fst d)) k) res = Some d -> snd d = true.
Proof.
  unfold all_loopy. induction res as [|a res IH]; simpl; [discriminate|].
  intro H. apply andb_prop in H as [Ha Hr]. destruct (Nat.eqb (fst (fst a)) k).
  - intro E. inversion E; subst. exact Ha.
  - auto.
Qed.

Lemma rho_step_all_loopy pins dfl G res rho : all_loopy res = true -> rho_step pins dfl G res rho = dfl.
Proof.
  intro H. unfold rho_step. rewrite <- (map_nth_seq dfl []) at 2. apply map_ext. intro k.
  destruct (find _ res) as [[[k' fi] [|]]|] eqn:Hf; auto.
  apply (find_all_loopy _ _ _ H) in Hf. discriminate.
Qed.

Lemma resolved_rho_all_loopy pins dfl G res : all_loopy res = true -> resolved_rho pins dfl G res = dfl.
Proof.
  intro H. unfold resolved_rho. generalize (S (length dfl)). intro n.
  induction n; simpl; auto. rewrite rho_step_all_loopy; auto.
Qed.

(* whatever the resolution decides: the circuit equals the software run in which the k-th defaulted
   variable starts with the value given to its default node *)
Theorem elab_correct_resolved_main : forall p n0 pins dfl E R,
  1 <= n0 -> no_bare_else_if p = true ->
  run_prog (resolved_inputs n0 pins dfl p) p = Some (E, R) ->
  let st := elab_prog n0 p in
  let vs := eval_all (resolved_inputs n0 pins dfl p) (eG st) in
  sig_values vs (eSigs st) = E /\ live_reads vs (eReads st) = R.
Proof. intros. apply elab_correct_main; auto. Qed.

(* every default node loopy (each defaulted variable is only assigned conditionally / partially / from
   itself afterwards): the defaults are the initial values of an ordinary sequential program *)
Theorem elab_correct_defaults_main : forall p n0 pins dfl E R,
  1 <= n0 -> no_bare_else_if p = true ->
  all_loopy (resolve_all (eG (elab_prog n0 p)) (fin_prog (length pins) n0 p)) = true ->
  run_prog (pins ++ dfl) p = Some (E, R) ->
  resolved_inputs n0 pins dfl p = pins ++ dfl /\
  let st := elab_prog n0 p in
  let vs := eval_all (resolved_inputs n0 pins dfl p) (eG st) in
  sig_values vs (eSigs st) = E /\ live_reads vs (eReads st) = R.
Proof.
  intros p n0 pins dfl E R Hn Hok Hl Hrun.
  assert (Hr : resolved_inputs n0 pins dfl p = pins ++ dfl).
  { unfold resolved_inputs. rewrite resolved_rho_all_loopy; auto. }
  split; [exact Hr|]. rewrite Hr. apply elab_correct_main; auto.
Qed.
