(* C20 -- VCD waveform files: the WRITER as gatery does it and a READER.

   Sources followed (branch by branch):
     simulation/WaveformRecorder.cpp    initializeStates (tracked state: DEFINED cleared, VALUE zero),
                                        onCommitState (change detection over BOTH planes, size-0 skip),
                                        onNewTick (only after onAfterPowerOn)
     simulation/waveformFormats/VCDSink.cpp
                                        VCDIdentifierGenerator (id codes), signalChanged (scalar form only for
                                        size==1 && !isBVec), advanceTick (tick = floor(time / 1ps)),
                                        onClock/onReset (scalar lines), initialize ($dumpvars section)
     simulation/waveformFormats/VCDWriter.cpp
                                        writeState ('b' + MSB-first 0/1/X + ' ' + code), writeBitState, writeTime

   The writer is a function of the sequence of simulator callbacks the sink receives after
   onAfterPowerOn (type [vev]); the simulator state itself is not modelled here: a commit event
   carries the values `Simulator::getValueOfOutput` returned for every recorded signal.

   No proofs in this file (it must keep compiling when proofs break). *)
From Coq Require Import List Bool Arith NArith ZArith QArith Qround String Ascii DecimalString DecimalN.
From Gatery Require Import Bits.
Import ListNotations.
Local Open Scope string_scope.

(* ------------------------------------------------------------------------------------------ *)
(* raw simulator bits                                                                          *)
(* ------------------------------------------------------------------------------------------ *)

(* one bit of a DefaultBitVectorState: (DEFINED plane, VALUE plane).  The VALUE plane of an
   undefined bit is invisible in every output but takes part in the change detection. *)
Definition rbit := (bool * bool)%type.
Definition rvec := list rbit.                       (* LSB first *)

Definition view (r : rbit) : tbit := of_planes (snd r) (fst r).
Definition viewv (v : rvec) : bv := map view v.

Definition rbit_eq_dec (a b : rbit) : {a = b} + {a <> b}.
Proof. decide equality; apply bool_dec. Defined.
Definition rvec_eq_dec : forall a b : rvec, {a = b} + {a <> b} := list_eq_dec rbit_eq_dec.

Definition rzero : rbit := (false, false).
(* initializeStates: resize (zero fill) + clearRange(DEFINED) *)
Definition rzeros (w : nat) : rvec := repeat rzero w.

(* WaveformRecorder::onCommitState:
     for p in {VALUE, DEFINED}: for i in 0..size: if (newState.get(p,i) != tracked.get(p,offset+i)) changed *)
Definition plane_value (r : rbit) : bool := snd r.
Definition plane_defined (r : rbit) : bool := fst r.
Definition plane_differs (pl : rbit -> bool) (nw old : rvec) : bool :=
  existsb (fun p => xorb (pl (fst p)) (pl (snd p))) (combine nw old).
Definition changed (nw old : rvec) : bool :=
  plane_differs plane_value nw old || plane_differs plane_defined nw old.

(* ------------------------------------------------------------------------------------------ *)
(* identifier codes (VCDIdentifierGenerator)                                                   *)
(* ------------------------------------------------------------------------------------------ *)

Definition IDENT_BEG : N := 33.
Definition IDENT_END : N := 127.

(* one call of getIdentifer() advances m_nextIdentifier like this (index 0 is incremented first) *)
Fixpoint id_next (l : list N) : list N :=
  match l with
  | [] => [IDENT_BEG]                                            (* idx >= size(): push_back(IDENT_BEG) *)
  | d :: r => if (IDENT_END <=? d + 1)%N then IDENT_BEG :: id_next r   (* wrap this position, carry *)
              else (d + 1)%N :: r
  end.

Fixpoint id_state (n : nat) : list N :=
  match n with O => [IDENT_BEG] | S k => id_next (id_state k) end.

Definition string_of_codes (l : list N) : string :=
  fold_right (fun c s => String (ascii_of_N c) s) EmptyString l.

(* the code handed out by the (n+1)-th call of getIdentifer() *)
Definition ident (n : nat) : string := string_of_codes (id_state n).

(* the first k codes, computed with one pass *)
Fixpoint idents_from (st : list N) (k : nat) : list string :=
  match k with O => [] | S k' => string_of_codes st :: idents_from (id_next st) k' end.
Definition idents (k : nat) : list string := idents_from [IDENT_BEG] k.

(* ------------------------------------------------------------------------------------------ *)
(* lines                                                                                       *)
(* ------------------------------------------------------------------------------------------ *)

Inductive vline :=
| LTime (n : N)                               (* #<n> *)
| LScalar (b : tbit) (id : string)            (* <0|1|X><id> *)
| LVector (bs : list tbit) (id : string)      (* b<bits MSB first> <id> *)
| LRaw (s : string).                          (* anything else: $end, $dumpvars, string variables, ... *)

Definition bitchar (b : tbit) : ascii :=
  match b with B0 => "0"%char | B1 => "1"%char | BX => "X"%char end.

Definition string_of_bits (bs : list tbit) : string :=
  fold_right (fun b s => String (bitchar b) s) EmptyString bs.

(* std::ostream << size_t *)
Definition dec (n : N) : string := NilEmpty.string_of_uint (N.to_uint n).

Definition print_line (l : vline) : string :=
  match l with
  | LTime n => String "#"%char (dec n)
  | LScalar b id => String (bitchar b) id
  | LVector bs id => String "b"%char (string_of_bits bs ++ String " "%char id)
  | LRaw s => s
  end.

(* ---- reader side: one line back into its structure ---- *)

Definition parse_bitchar (c : ascii) : option tbit :=
  if Ascii.eqb c "0"%char then Some B0
  else if Ascii.eqb c "1"%char then Some B1
  else if Ascii.eqb c "X"%char then Some BX
  else if Ascii.eqb c "x"%char then Some BX
  else None.

(* splits at the first blank: (text before, text after) *)
Fixpoint split_blank (s : string) : string * string :=
  match s with
  | EmptyString => (EmptyString, EmptyString)
  | String c r => if Ascii.eqb c " "%char then (EmptyString, r)
                  else let (a, b) := split_blank r in (String c a, b)
  end.

Fixpoint parse_bits (s : string) : option (list tbit) :=
  match s with
  | EmptyString => Some []
  | String c r => match parse_bitchar c, parse_bits r with
                  | Some b, Some bs => Some (b :: bs)
                  | _, _ => None
                  end
  end.

Definition parse_line (s : string) : vline :=
  match s with
  | EmptyString => LRaw s
  | String c r =>
      if Ascii.eqb c "#"%char then
        match NilEmpty.uint_of_string r with
        | Some u => LTime (N.of_uint u)
        | None => LRaw s
        end
      else if (Ascii.eqb c "b"%char || Ascii.eqb c "B"%char)%bool then
        let (bits, id) := split_blank r in
        match parse_bits bits with
        | Some bs => LVector bs id
        | None => LRaw s
        end
      else match parse_bitchar c with
           | Some b => LScalar b r
           | None => LRaw s
           end
  end.

(* ------------------------------------------------------------------------------------------ *)
(* the writer                                                                                  *)
(* ------------------------------------------------------------------------------------------ *)

Record sigd := {
  sg_id : string;      (* m_id2sigCode[id] *)
  sg_width : nat;      (* m_id2StateOffsetSize[id].size *)
  sg_bvec : bool;      (* m_id2Signal[id].isBVec *)
  sg_name : string     (* m_id2Signal[id].name (only used by the header) *)
}.

(* what the sink receives, in call order, from onAfterPowerOn on *)
Inductive vev :=
| EvTick (t : Q)                       (* onNewTick(simulationTime)                              *)
| EvBit (id : string) (v : bool)       (* onClock / onReset of a known pin, and the $dumpvars entries *)
| EvRaw (s : string)                   (* literal line ($end of the $dumpvars section)           *)
| EvCommit (news : list rvec).         (* onCommitState: getValueOfOutput of every signal        *)

Definition PS_PER_S : Q := 1000000000000 # 1.

(* VCDSink::advanceTick: ratTickIdx = simulationTime / (1/10^12); tickIdx = numerator / denominator *)
Definition tick (t : Q) : N := Z.to_N (Qfloor (t * PS_PER_S)).

(* VCDSink::signalChanged *)
Definition sig_line (d : sigd) (v : rvec) : vline :=
  if (Nat.eqb (sg_width d) 1 && negb (sg_bvec d))%bool
  then LScalar (view (hd rzero v)) (sg_id d)
  else LVector (rev (viewv v)) (sg_id d).

(* writer state: every signal with its tracked (last written) raw value *)
Definition wstate := list (sigd * rvec).

Definition wstate_init (ds : list sigd) : wstate := map (fun d => (d, rzeros (sg_width d))) ds.

(* WaveformRecorder::onCommitState, signals in id order *)
Fixpoint commit (st : wstate) (news : list rvec) : wstate * list vline :=
  match st, news with
  | (d, old) :: st', nw :: news' =>
      let (st2, ls) := commit st' news' in
      if Nat.eqb (length nw) 0 then ((d, old) :: st2, ls)                 (* newState.size() == 0: continue *)
      else if changed nw old then ((d, nw) :: st2, sig_line d nw :: ls)   (* copyRange + signalChanged *)
      else ((d, old) :: st2, ls)
  | _, _ => (st, [])
  end.

Definition wr_step (st : wstate) (e : vev) : wstate * list vline :=
  match e with
  | EvTick t => (st, [LTime (tick t)])
  | EvBit id v => (st, [LScalar (of_bool v) id])       (* writeBitState(code, true, v) *)
  | EvRaw s => (st, [LRaw s])
  | EvCommit news => commit st news
  end.

Fixpoint wr_run (st : wstate) (evs : list vev) : wstate * list vline :=
  match evs with
  | [] => (st, [])
  | e :: r => let (st1, l1) := wr_step st e in
              let (st2, l2) := wr_run st1 r in (st2, (l1 ++ l2)%list)
  end.

(* the value-change section (everything after the `$dumpvars` line) *)
Definition write_body (ds : list sigd) (evs : list vev) : list vline := snd (wr_run (wstate_init ds) evs).

Definition ENDDEFS : string := "$enddefinitions $end".
Definition DUMPVARS : string := "$dumpvars".

Definition var_line (d : sigd) : string :=
  "$var wire " ++ dec (N.of_nat (sg_width d)) ++ " " ++ sg_id d ++ " " ++ sg_name d ++ " $end".

(* whole file: an uninterpreted header (date, version, timescale, scopes, $var lines in scope order),
   then the two fixed lines of VCDWriter::beginDumpVars, then the body *)
Definition write_file (header : list string) (ds : list sigd) (evs : list vev) : list string :=
  (header ++ ENDDEFS :: DUMPVARS :: map print_line (write_body ds evs))%list.

(* signal table as VCDSink::initialize builds it: codes in id order *)
Fixpoint mk_sigs (ids : list string) (decls : list (nat * bool * string)) : list sigd :=
  match ids, decls with
  | id :: ids', (w, bvec, name) :: decls' =>
      {| sg_id := id; sg_width := w; sg_bvec := bvec; sg_name := name |} :: mk_sigs ids' decls'
  | _, _ => []
  end.
Definition declare (decls : list (nat * bool * string)) : list sigd := mk_sigs (idents (length decls)) decls.

(* ------------------------------------------------------------------------------------------ *)
(* the reader                                                                                  *)
(* ------------------------------------------------------------------------------------------ *)

(* value carried by a change line, LSB first *)
Definition line_change (l : vline) : option (string * bv) :=
  match l with
  | LScalar b id => Some (id, [b])
  | LVector bs id => Some (id, rev bs)
  | _ => None
  end.

(* reader state while scanning: (current time, latest value of the queried code at or before T) *)
Definition rd_step (T : N) (id : string) (st : N * option bv) (l : vline) : N * option bv :=
  match l with
  | LTime n => (n, snd st)
  | LScalar b id' => if (String.eqb id' id && (fst st <=? T)%N)%bool then (fst st, Some [b]) else st
  | LVector bs id' => if (String.eqb id' id && (fst st <=? T)%N)%bool then (fst st, Some (rev bs)) else st
  | LRaw _ => st
  end.

(* value changes before the first `#` line belong to time 0 *)
Definition read_lines (ls : list vline) (T : N) (id : string) : option bv :=
  snd (fold_left (rd_step T id) ls (0%N, None)).

(* a variable that was never dumped is unknown *)
Definition read_sig (ls : list vline) (T : N) (d : sigd) : bv :=
  match read_lines ls T (sg_id d) with
  | Some v => v
  | None => repeat BX (sg_width d)
  end.

(* skip the declaration part: everything up to and including `$enddefinitions $end` *)
Fixpoint body_of (file : list string) : list string :=
  match file with
  | [] => []
  | l :: r => if String.eqb l ENDDEFS then r else body_of r
  end.

Definition read_file (file : list string) (T : N) (d : sigd) : bv :=
  read_sig (map parse_line (body_of file)) T d.

(* `$var wire <width> <code> <name> $end` -> (code, width, name) *)
Definition parse_var (s : string) : option (string * N * string) :=
  let (k, r1) := split_blank s in
  if negb (String.eqb k "$var") then None else
  let (ty, r2) := split_blank r1 in
  let (w, r3) := split_blank r2 in
  let (code, r4) := split_blank r3 in
  let (name, _) := split_blank r4 in
  if negb (String.eqb ty "wire") then None else
  match NilEmpty.uint_of_string w with
  | Some u => Some (code, N.of_uint u, name)
  | None => None
  end.

(* ------------------------------------------------------------------------------------------ *)
(* reference semantics of a run (what the theorems compare the reader with)                    *)
(* ------------------------------------------------------------------------------------------ *)

(* tick of the callback sequence after [evs], starting from tick [now] *)
Fixpoint now_after (now : N) (evs : list vev) : N :=
  match evs with
  | [] => now
  | EvTick t :: r => now_after (tick t) r
  | _ :: r => now_after now r
  end.

(* raw value of signal number i in the last commit at a tick <= T; [dflt] if there is none *)
Fixpoint last_commit (T now : N) (i : nat) (dflt : rvec) (evs : list vev) : rvec :=
  match evs with
  | [] => dflt
  | EvTick t :: r => last_commit T (tick t) i dflt r
  | EvCommit news :: r =>
      last_commit T now i (if (now <=? T)%N then nth i news dflt else dflt) r
  | _ :: r => last_commit T now i dflt r
  end.

(* ticks never go backwards *)
Fixpoint ticks_mono (now : N) (evs : list vev) : Prop :=
  match evs with
  | [] => True
  | EvTick t :: r => (now <= tick t)%N /\ ticks_mono (tick t) r
  | _ :: r => ticks_mono now r
  end.

(* every commit supplies one value of the declared width per signal *)
Definition commit_ok (ds : list sigd) (news : list rvec) : Prop :=
  Forall2 (fun d v => length v = sg_width d) ds news.
Definition evs_ok (ds : list sigd) (evs : list vev) : Prop :=
  Forall (fun e => match e with
                   | EvCommit news => commit_ok ds news
                   | EvBit id _ => ~ In id (map sg_id ds)     (* clock / reset codes are not signal codes *)
                   | EvRaw s => exists r, s = String "$"%char r
                   | EvTick _ => True
                   end) evs.
