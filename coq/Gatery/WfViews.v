(* C09 -- how each primitive write changes each view (drv / cons / otype / grp_of / members / clk_of /
   clocked / validity / skeleton).  All later proofs reason about views only. *)
From Coq Require Import List NArith Arith Bool Lia.
From Gatery Require Import WfDefs WfLemmas.
Import ListNotations.

(* the part of the store that only creation / destruction change *)
Definition nskel (g : graph) := map (fun kv => (fst kv, n_role (snd kv))) (g_nodes g).
Definition skeleton (g : graph) :=
  (keys (g_nodes g), map (fun kv => (fst kv, gr_parent (snd kv))) (g_groups g), keys (g_clocks g),
   (g_next g, g_gnext g, g_cnext g), nskel g, g_drv g).

Definition req_of (g : graph) (n : N) : option (list constr) := option_map n_req (getn g n).

Lemma getn_upd_node : forall g n f k,
  getn (upd_node g n f) k = if N.eq_dec k n then option_map f (getn g n) else getn g k.
Proof. intros. unfold getn, upd_node. simpl. apply get_upd. Qed.

Lemma node_view_upd_same : forall {T} (F : node -> T) (D : T) g n f k,
  (forall nd, F (f nd) = F nd) ->
  match getn (upd_node g n f) k with Some nd => F nd | None => D end =
  match getn g k with Some nd => F nd | None => D end.
Proof.
  intros. rewrite getn_upd_node. destruct (N.eq_dec k n); auto. subst.
  destruct (getn g n); simpl; auto.
Qed.

Lemma map_upd_proj : forall {V T} (proj : V -> T) (m : amap V) k f,
  (forall v, proj (f v) = proj v) ->
  map (fun kv => (fst kv, proj (snd kv))) (upd k f m) = map (fun kv => (fst kv, proj (snd kv))) m.
Proof.
  induction m as [|[k0 v0] r IH]; intros; simpl; auto.
  destruct (N.eqb k k0); simpl; [rewrite H; auto | f_equal; auto].
Qed.

Lemma skeleton_upd_node : forall g n f, (forall nd, n_role (f nd) = n_role nd) -> skeleton (upd_node g n f) = skeleton g.
Proof.
  intros. unfold skeleton, nskel, upd_node. simpl. rewrite keys_upd.
  rewrite (map_upd_proj n_role) by auto. reflexivity.
Qed.

Lemma skeleton_set_members : forall g gid l, skeleton (set_members g gid l) = skeleton g.
Proof.
  intros. unfold skeleton, set_members. simpl.
  rewrite (map_upd_proj gr_parent) by reflexivity. reflexivity.
Qed.

Lemma skeleton_set_clocked : forall g c l, skeleton (set_clocked g c l) = skeleton g.
Proof. intros. unfold skeleton, set_clocked. simpl. rewrite keys_upd. reflexivity. Qed.

Lemma skeleton_set_in : forall g a v, skeleton (set_in g a v) = skeleton g.
Proof. intros; apply skeleton_upd_node; reflexivity. Qed.
Lemma skeleton_set_cons : forall g b l, skeleton (set_cons g b l) = skeleton g.
Proof. intros; apply skeleton_upd_node; reflexivity. Qed.
Lemma skeleton_set_otype : forall g b t, skeleton (set_otype g b t) = skeleton g.
Proof. intros; apply skeleton_upd_node; reflexivity. Qed.
Lemma skeleton_set_grp : forall g n v, skeleton (set_grp g n v) = skeleton g.
Proof. intros; apply skeleton_upd_node; reflexivity. Qed.
Lemma skeleton_set_clk : forall g a v, skeleton (set_clk g a v) = skeleton g.
Proof. intros; apply skeleton_upd_node; reflexivity. Qed.

(* ---- what depends only on the skeleton ---- *)
Lemma liveb_keys : forall g n, liveb g n = memb N.eq_dec n (keys (g_nodes g)).
Proof.
  intros. unfold liveb, getn. destruct (get n (g_nodes g)) eqn:E.
  - symmetry. apply memb_true. eapply get_Some_keys; eauto.
  - symmetry. apply memb_false. apply get_None_keys; auto.
Qed.

Lemma clockb_keys : forall g n, clockb g n = memb N.eq_dec n (keys (g_clocks g)).
Proof.
  intros. unfold clockb. destruct (get n (g_clocks g)) eqn:E.
  - symmetry. apply memb_true. eapply get_Some_keys; eauto.
  - symmetry. apply memb_false. apply get_None_keys; auto.
Qed.

Definition gskel (g : graph) := map (fun kv => (fst kv, gr_parent (snd kv))) (g_groups g).

Lemma get_gskel : forall (m : amap group) k,
  get k (map (fun kv => (fst kv, gr_parent (snd kv))) m) = option_map gr_parent (get k m).
Proof.
  induction m as [|[k0 v0] r IH]; intros; simpl; auto.
  destruct (N.eqb k k0); auto.
Qed.

Lemma keys_gskel : forall (m : amap group), keys (map (fun kv => (fst kv, gr_parent (snd kv))) m) = keys m.
Proof. intros. unfold keys. rewrite map_map. reflexivity. Qed.

Lemma groupb_gskel : forall g n, groupb g n = match get n (gskel g) with Some _ => true | None => false end.
Proof. intros. unfold groupb, gskel. rewrite get_gskel. destruct (get n (g_groups g)); auto. Qed.

Section Skel.
  Variables g g' : graph.
  Hypothesis S : skeleton g' = skeleton g.

  Lemma skel_nodes : keys (g_nodes g') = keys (g_nodes g). Proof. unfold skeleton in S. congruence. Qed.
  Lemma skel_groups : gskel g' = gskel g. Proof. unfold skeleton in S. unfold gskel. congruence. Qed.
  Lemma skel_clocks : keys (g_clocks g') = keys (g_clocks g). Proof. unfold skeleton in S. congruence. Qed.
  Lemma skel_next : g_next g' = g_next g. Proof. unfold skeleton in S. congruence. Qed.
  Lemma skel_gnext : g_gnext g' = g_gnext g. Proof. unfold skeleton in S. congruence. Qed.
  Lemma skel_cnext : g_cnext g' = g_cnext g. Proof. unfold skeleton in S. congruence. Qed.

  Lemma skel_nskel : nskel g' = nskel g. Proof. unfold skeleton in S. congruence. Qed.
  Lemma skel_drv : g_drv g' = g_drv g. Proof. unfold skeleton in S. congruence. Qed.

  Lemma liveb_skel : forall n, liveb g' n = liveb g n.
  Proof. intros. rewrite !liveb_keys, skel_nodes. reflexivity. Qed.
  Lemma groupb_skel : forall n, groupb g' n = groupb g n.
  Proof. intros. rewrite !groupb_gskel, skel_groups. reflexivity. Qed.
  Lemma clockb_skel : forall n, clockb g' n = clockb g n.
  Proof. intros. rewrite !clockb_keys, skel_clocks. reflexivity. Qed.

  Lemma ids_ok_skel : ids_ok g -> ids_ok g'.
  Proof.
    unfold ids_ok. pose proof (keys_gskel (g_groups g)) as K1. pose proof (keys_gskel (g_groups g')) as K2.
    fold (gskel g) in K1. fold (gskel g') in K2. rewrite skel_groups in K2.
    assert (KG : keys (g_groups g') = keys (g_groups g)) by congruence.
    rewrite skel_nodes, KG, skel_clocks, skel_next, skel_gnext, skel_cnext. auto.
  Qed.

  Lemma parents_ok_skel : parents_ok g -> parents_ok g'.
  Proof.
    unfold parents_ok. intros H gid gr p Hg Hp. rewrite groupb_skel.
    assert (E : get gid (gskel g') = Some (Some p)).
    { unfold gskel. rewrite get_gskel, Hg. simpl. congruence. }
    rewrite skel_groups in E. unfold gskel in E. rewrite get_gskel in E.
    destruct (get gid (g_groups g)) as [gr0|] eqn:E0; simpl in E; [|discriminate].
    apply (H gid gr0 p); auto. congruence.
  Qed.
End Skel.

Lemma get_nskel : forall (m : amap node) k,
  get k (map (fun kv => (fst kv, n_role (snd kv))) m) = option_map n_role (get k m).
Proof.
  induction m as [|[k0 v0] r IH]; intros; simpl; auto.
  destruct (N.eqb k k0); auto.
Qed.

Lemma role_of_nskel : forall g n, role_of g n = match get n (nskel g) with Some r => r | None => 0%N end.
Proof. intros. unfold role_of, nskel, getn. rewrite get_nskel. destruct (get n (g_nodes g)); auto. Qed.

Lemma role_of_skel : forall g g' n, skeleton g' = skeleton g -> role_of g' n = role_of g n.
Proof. intros. rewrite !role_of_nskel, (skel_nskel g g' H). reflexivity. Qed.

(* ---- validity facts ---- *)
Lemma drv_Some_valid : forall g a b, drv g a = Some b -> in_validb g a = true.
Proof.
  unfold drv, in_validb. intros. destruct (getn g (fst a)); [|discriminate].
  apply Nat.ltb_lt. destruct (Nat.lt_ge_cases (snd a) (length (n_ins n))); auto.
  rewrite nth_overflow in H by auto. discriminate.
Qed.

Lemma clk_Some_valid : forall g a c, clk_of g a = Some c -> clk_validb g a = true.
Proof.
  unfold clk_of, clk_validb. intros. destruct (getn g (fst a)); [|discriminate].
  apply Nat.ltb_lt. destruct (Nat.lt_ge_cases (snd a) (length (n_clks n))); auto.
  rewrite nth_overflow in H by auto. discriminate.
Qed.

Lemma cons_nonempty_valid : forall g b, cons g b <> [] -> out_validb g b = true.
Proof. unfold cons, out_validb. intros. destruct (outp g b); auto. Qed.

Lemma In_cons_valid : forall g b a, In a (cons g b) -> out_validb g b = true.
Proof. intros. apply cons_nonempty_valid. intros E. rewrite E in H. inversion H. Qed.

Lemma out_validb_otype : forall g b, out_validb g b = match otype g b with Some _ => true | None => false end.
Proof. intros. unfold out_validb, otype. destruct (outp g b); auto. Qed.

Lemma in_valid_live : forall g a, in_validb g a = true -> liveb g (fst a) = true.
Proof. unfold in_validb, liveb. intros. destruct (getn g (fst a)); auto. Qed.

Lemma out_valid_live : forall g b, out_validb g b = true -> liveb g (fst b) = true.
Proof. unfold out_validb, outp, liveb. intros. destruct (getn g (fst b)); auto. Qed.

Lemma members_nonempty_group : forall g gid n, In n (members g gid) -> groupb g gid = true.
Proof. unfold members, groupb. intros. destruct (get gid (g_groups g)); auto. Qed.

Lemma clocked_nonempty_clock : forall g c a, In a (clocked g c) -> clockb g c = true.
Proof. unfold clocked, clockb. intros. destruct (get c (g_clocks g)); auto. Qed.

(* ---- node primitives: unchanged views ---- *)
Ltac same_view :=
  intros; unfold drv, outp, grp_of, clk_of, in_validb, clk_validb, liveb, req_of, option_map,
          set_in, set_cons, set_otype, set_grp, set_clk, addRef, removeRef;
  (apply node_view_upd_same || (rewrite node_view_upd_same; [reflexivity|]));
  intros; simpl; rewrite ?length_upd_nth; try reflexivity.

Lemma members_upd_node : forall g n f k, members (upd_node g n f) k = members g k. Proof. reflexivity. Qed.
Lemma clocked_upd_node : forall g n f k, clocked (upd_node g n f) k = clocked g k. Proof. reflexivity. Qed.
Lemma getn_set_members : forall g gid l k, getn (set_members g gid l) k = getn g k. Proof. reflexivity. Qed.
Lemma getn_set_clocked : forall g c l k, getn (set_clocked g c l) k = getn g k. Proof. reflexivity. Qed.
Lemma clocked_set_members : forall g gid l k, clocked (set_members g gid l) k = clocked g k. Proof. reflexivity. Qed.
Lemma members_set_clocked : forall g c l k, members (set_clocked g c l) k = members g k. Proof. reflexivity. Qed.

Lemma members_set_grp : forall g n v k, members (set_grp g n v) k = members g k. Proof. reflexivity. Qed.
Lemma members_set_clk : forall g a v k, members (set_clk g a v) k = members g k. Proof. reflexivity. Qed.
Lemma clocked_set_grp : forall g n v k, clocked (set_grp g n v) k = clocked g k. Proof. reflexivity. Qed.
Lemma clocked_set_clk : forall g a v k, clocked (set_clk g a v) k = clocked g k. Proof. reflexivity. Qed.

(* set_in *)
Lemma outp_set_in : forall g a v y, outp (set_in g a v) y = outp g y. Proof. same_view. Qed.
Lemma grp_of_set_in : forall g a v k, grp_of (set_in g a v) k = grp_of g k. Proof. same_view. Qed.
Lemma clk_of_set_in : forall g a v x, clk_of (set_in g a v) x = clk_of g x. Proof. same_view. Qed.
Lemma in_validb_set_in : forall g a v x, in_validb (set_in g a v) x = in_validb g x. Proof. same_view. Qed.
Lemma clk_validb_set_in : forall g a v x, clk_validb (set_in g a v) x = clk_validb g x. Proof. same_view. Qed.
Lemma req_of_set_in : forall g a v k, req_of (set_in g a v) k = req_of g k.
Proof. intros. unfold req_of, set_in, option_map. apply node_view_upd_same. reflexivity. Qed.

Lemma drv_set_in : forall g a v x,
  drv (set_in g a v) x = if nport_eq_dec x a then (if in_validb g a then v else None) else drv g x.
Proof.
  intros g [m j] v [n i]. unfold drv, set_in, in_validb. simpl. rewrite getn_upd_node.
  destruct (N.eq_dec n m) as [->|Hn].
  - destruct (getn g m) as [nd|] eqn:E; simpl.
    + rewrite nth_upd_nth. destruct (Nat.eq_dec i j) as [->|Hi].
      * destruct (nport_eq_dec (m, j) (m, j)); [|congruence]. reflexivity.
      * destruct (nport_eq_dec (m, i) (m, j)); [congruence|]. reflexivity.
    + destruct (nport_eq_dec (m, i) (m, j)); simpl; reflexivity.
  - destruct (nport_eq_dec (n, i) (m, j)); [congruence|]. reflexivity.
Qed.

(* set_cons / set_otype *)
Lemma drv_set_cons : forall g b l x, drv (set_cons g b l) x = drv g x. Proof. same_view. Qed.
Lemma grp_of_set_cons : forall g b l k, grp_of (set_cons g b l) k = grp_of g k. Proof. same_view. Qed.
Lemma clk_of_set_cons : forall g b l x, clk_of (set_cons g b l) x = clk_of g x. Proof. same_view. Qed.
Lemma in_validb_set_cons : forall g b l x, in_validb (set_cons g b l) x = in_validb g x. Proof. same_view. Qed.
Lemma clk_validb_set_cons : forall g b l x, clk_validb (set_cons g b l) x = clk_validb g x. Proof. same_view. Qed.
Lemma req_of_set_cons : forall g b l k, req_of (set_cons g b l) k = req_of g k.
Proof. intros. unfold req_of, set_cons, option_map. apply node_view_upd_same. reflexivity. Qed.

Lemma drv_set_otype : forall g b t x, drv (set_otype g b t) x = drv g x. Proof. same_view. Qed.
Lemma grp_of_set_otype : forall g b t k, grp_of (set_otype g b t) k = grp_of g k. Proof. same_view. Qed.
Lemma clk_of_set_otype : forall g b t x, clk_of (set_otype g b t) x = clk_of g x. Proof. same_view. Qed.
Lemma in_validb_set_otype : forall g b t x, in_validb (set_otype g b t) x = in_validb g x. Proof. same_view. Qed.
Lemma clk_validb_set_otype : forall g b t x, clk_validb (set_otype g b t) x = clk_validb g x. Proof. same_view. Qed.
Lemma req_of_set_otype : forall g b t k, req_of (set_otype g b t) k = req_of g k.
Proof. intros. unfold req_of, set_otype, option_map. apply node_view_upd_same. reflexivity. Qed.

Lemma outp_upd_outs : forall g b (h : outport -> outport) y,
  outp (upd_node g (fst b) (fun nd => with_outs nd (upd_nth (snd b) h (n_outs nd)))) y =
  if nport_eq_dec y b then option_map h (outp g b) else outp g y.
Proof.
  intros g [m p] h [n q]. unfold outp. simpl. rewrite getn_upd_node.
  destruct (N.eq_dec n m) as [->|Hn].
  - destruct (getn g m) as [nd|] eqn:E; simpl.
    + rewrite nth_error_upd_nth. destruct (Nat.eq_dec q p) as [->|Hq].
      * destruct (nport_eq_dec (m, p) (m, p)); [|congruence]. reflexivity.
      * destruct (nport_eq_dec (m, q) (m, p)); [congruence|]. reflexivity.
    + destruct (nport_eq_dec (m, q) (m, p)); simpl; reflexivity.
  - destruct (nport_eq_dec (n, q) (m, p)); [congruence|]. reflexivity.
Qed.

Lemma cons_set_cons : forall g b l y,
  cons (set_cons g b l) y = if nport_eq_dec y b then (if out_validb g b then l else []) else cons g y.
Proof.
  intros. unfold cons, set_cons, out_validb. rewrite outp_upd_outs.
  destruct (nport_eq_dec y b); auto. destruct (outp g b); reflexivity.
Qed.

Lemma otype_set_cons : forall g b l y, otype (set_cons g b l) y = otype g y.
Proof.
  intros. unfold otype, set_cons. rewrite outp_upd_outs.
  destruct (nport_eq_dec y b); auto. subst. destruct (outp g b); reflexivity.
Qed.

Lemma cons_set_otype : forall g b t y, cons (set_otype g b t) y = cons g y.
Proof.
  intros. unfold cons, set_otype. rewrite outp_upd_outs.
  destruct (nport_eq_dec y b); auto. subst. destruct (outp g b); reflexivity.
Qed.

Lemma otype_set_otype : forall g b t y,
  otype (set_otype g b t) y = if nport_eq_dec y b then (if out_validb g b then Some t else None) else otype g y.
Proof.
  intros. unfold otype, set_otype, out_validb. rewrite outp_upd_outs.
  destruct (nport_eq_dec y b); auto. destruct (outp g b); reflexivity.
Qed.

Lemma otype_set_in : forall g a v y, otype (set_in g a v) y = otype g y.
Proof. intros. unfold otype. rewrite outp_set_in. reflexivity. Qed.
Lemma cons_set_in : forall g a v y, cons (set_in g a v) y = cons g y.
Proof. intros. unfold cons. rewrite outp_set_in. reflexivity. Qed.
Lemma out_validb_set_in : forall g a v y, out_validb (set_in g a v) y = out_validb g y.
Proof. intros. unfold out_validb. rewrite outp_set_in. reflexivity. Qed.
Lemma out_validb_set_cons : forall g b l y, out_validb (set_cons g b l) y = out_validb g y.
Proof. intros. rewrite !out_validb_otype, otype_set_cons. reflexivity. Qed.

(* set_grp *)
Lemma drv_set_grp : forall g n v x, drv (set_grp g n v) x = drv g x. Proof. same_view. Qed.
Lemma outp_set_grp : forall g n v y, outp (set_grp g n v) y = outp g y. Proof. same_view. Qed.
Lemma clk_of_set_grp : forall g n v x, clk_of (set_grp g n v) x = clk_of g x. Proof. same_view. Qed.
Lemma req_of_set_grp : forall g n v k, req_of (set_grp g n v) k = req_of g k.
Proof. intros. unfold req_of, set_grp, option_map. apply node_view_upd_same. reflexivity. Qed.
Lemma grp_of_set_grp : forall g n v k,
  grp_of (set_grp g n v) k = if N.eq_dec k n then (if liveb g n then v else None) else grp_of g k.
Proof.
  intros. unfold grp_of, set_grp, liveb. rewrite getn_upd_node.
  destruct (N.eq_dec k n); auto. destruct (getn g n); reflexivity.
Qed.

(* set_clk *)
Lemma drv_set_clk : forall g a v x, drv (set_clk g a v) x = drv g x. Proof. same_view. Qed.
Lemma outp_set_clk : forall g a v y, outp (set_clk g a v) y = outp g y. Proof. same_view. Qed.
Lemma grp_of_set_clk : forall g a v k, grp_of (set_clk g a v) k = grp_of g k. Proof. same_view. Qed.
Lemma req_of_set_clk : forall g a v k, req_of (set_clk g a v) k = req_of g k.
Proof. intros. unfold req_of, set_clk, option_map. apply node_view_upd_same. reflexivity. Qed.
Lemma clk_validb_set_clk : forall g a v x, clk_validb (set_clk g a v) x = clk_validb g x. Proof. same_view. Qed.
Lemma clk_of_set_clk : forall g a v x,
  clk_of (set_clk g a v) x = if nport_eq_dec x a then (if clk_validb g a then v else None) else clk_of g x.
Proof.
  intros g [m j] v [n i]. unfold clk_of, set_clk, clk_validb. simpl. rewrite getn_upd_node.
  destruct (N.eq_dec n m) as [->|Hn].
  - destruct (getn g m) as [nd|] eqn:E; simpl.
    + rewrite nth_upd_nth. destruct (Nat.eq_dec i j) as [->|Hi].
      * destruct (nport_eq_dec (m, j) (m, j)); [|congruence]. reflexivity.
      * destruct (nport_eq_dec (m, i) (m, j)); [congruence|]. reflexivity.
    + destruct (nport_eq_dec (m, i) (m, j)); simpl; reflexivity.
  - destruct (nport_eq_dec (n, i) (m, j)); [congruence|]. reflexivity.
Qed.

(* group / clock tables *)
Lemma members_set_members : forall g gid l k,
  members (set_members g gid l) k = if N.eq_dec k gid then (if groupb g gid then l else []) else members g k.
Proof.
  intros. unfold members, set_members, groupb. simpl. rewrite get_upd.
  destruct (N.eq_dec k gid); auto. destruct (get gid (g_groups g)); reflexivity.
Qed.

Lemma clocked_set_clocked : forall g c l k,
  clocked (set_clocked g c l) k = if N.eq_dec k c then (if clockb g c then l else []) else clocked g k.
Proof.
  intros. unfold clocked, set_clocked, clockb. simpl. rewrite get_upd.
  destruct (N.eq_dec k c); auto. destruct (get c (g_clocks g)); reflexivity.
Qed.

(* views of group/clock writes on node views: definitional *)
Lemma drv_set_members : forall g gid l x, drv (set_members g gid l) x = drv g x. Proof. reflexivity. Qed.
Lemma outp_set_members : forall g gid l x, outp (set_members g gid l) x = outp g x. Proof. reflexivity. Qed.
Lemma cons_set_members : forall g gid l x, cons (set_members g gid l) x = cons g x. Proof. reflexivity. Qed.
Lemma otype_set_members : forall g gid l x, otype (set_members g gid l) x = otype g x. Proof. reflexivity. Qed.
Lemma grp_of_set_members : forall g gid l x, grp_of (set_members g gid l) x = grp_of g x. Proof. reflexivity. Qed.
Lemma clk_of_set_members : forall g gid l x, clk_of (set_members g gid l) x = clk_of g x. Proof. reflexivity. Qed.
Lemma req_of_set_members : forall g gid l x, req_of (set_members g gid l) x = req_of g x. Proof. reflexivity. Qed.
Lemma drv_set_clocked : forall g c l x, drv (set_clocked g c l) x = drv g x. Proof. reflexivity. Qed.
Lemma outp_set_clocked : forall g c l x, outp (set_clocked g c l) x = outp g x. Proof. reflexivity. Qed.
Lemma cons_set_clocked : forall g c l x, cons (set_clocked g c l) x = cons g x. Proof. reflexivity. Qed.
Lemma otype_set_clocked : forall g c l x, otype (set_clocked g c l) x = otype g x. Proof. reflexivity. Qed.
Lemma grp_of_set_clocked : forall g c l x, grp_of (set_clocked g c l) x = grp_of g x. Proof. reflexivity. Qed.
Lemma clk_of_set_clocked : forall g c l x, clk_of (set_clocked g c l) x = clk_of g x. Proof. reflexivity. Qed.
Lemma clk_validb_set_clocked : forall g c l x, clk_validb (set_clocked g c l) x = clk_validb g x. Proof. reflexivity. Qed.
Lemma req_of_set_clocked : forall g c l x, req_of (set_clocked g c l) x = req_of g x. Proof. reflexivity. Qed.
Lemma liveb_set_members : forall g gid l x, liveb (set_members g gid l) x = liveb g x. Proof. reflexivity. Qed.

(* ---- clause (ii) through the views ---- *)
Definition tin_at (g : graph) (n : N) (i : nat) : option ctype :=
  match drv g (n, i) with Some b => otype g b | None => None end.

Lemma tin_tin_at : forall g n nd i, getn g n = Some nd -> tin g nd i = tin_at g n i.
Proof. intros. unfold tin, tin_at, drv. simpl. rewrite H. reflexivity. Qed.

Lemma tout_otype : forall g n nd o, getn g n = Some nd -> tout nd o = otype g (n, o).
Proof. intros. unfold tout, otype, outp. simpl. rewrite H. reflexivity. Qed.

Lemma constr_ok_mono : forall (ti ti' to to' : nat -> option ctype) c,
  (forall i, ti' i = None \/ ti' i = ti i) -> (forall o, to' o = to o) ->
  constr_ok ti to c = true -> constr_ok ti' to' c = true.
Proof.
  intros ti ti' to to' c Hi Ho H.
  destruct c as [i o|i j|i j|i o|i o|i w|i w|i j]; simpl in *.
  - destruct (Hi i) as [E|E]; rewrite E; auto. rewrite Ho. auto.
  - destruct (Hi i) as [E|E]; rewrite E; auto. destruct (ti i); auto.
    destruct (Hi j) as [E2|E2]; rewrite E2; auto.
  - destruct (Hi i) as [E|E]; rewrite E; auto. destruct (ti i); auto.
    destruct (Hi j) as [E2|E2]; rewrite E2; auto.
  - destruct (Hi i) as [E|E]; rewrite E; auto. rewrite Ho. auto.
  - destruct (Hi i) as [E|E]; rewrite E; auto. rewrite Ho. auto.
  - destruct (Hi i) as [E|E]; rewrite E; auto.
  - destruct (Hi i) as [E|E]; rewrite E; auto.
  - destruct (Hi i) as [E|E]; rewrite E; auto. destruct (ti i); auto.
    destruct (Hi j) as [E2|E2]; rewrite E2; auto.
Qed.

(* a node whose own input types only got "less connected", whose output types and requirement are
   unchanged, still satisfies its requirement *)
Lemma node_ok_at_mono : forall g g' n,
  (forall i, tin_at g' n i = None \/ tin_at g' n i = tin_at g n i) ->
  (forall o, otype g' (n, o) = otype g (n, o)) ->
  req_of g' n = req_of g n ->
  node_ok_at g n = true -> node_ok_at g' n = true.
Proof.
  unfold node_ok_at, req_of. intros g g' n Hi Ho Hr H.
  destruct (getn g' n) as [nd'|] eqn:E'; auto.
  destruct (getn g n) as [nd|] eqn:E; simpl in Hr; [|discriminate].
  inversion Hr as [Hr']. unfold node_okb in *. rewrite Hr'.
  rewrite forallb_forall in *. intros c Hc. specialize (H c Hc).
  eapply constr_ok_mono; [| |exact H].
  - intros i. rewrite (tin_tin_at g' n nd' i E'), (tin_tin_at g n nd i E). apply Hi.
  - intros o. rewrite (tout_otype g' n nd' o E'), (tout_otype g n nd o E). apply Ho.
Qed.

Lemma types_ok_at : forall g, types_ok g <-> forall n, node_ok_at g n = true.
Proof.
  unfold types_ok, node_ok_at. split; intros.
  - destruct (getn g n) eqn:E; auto. eapply H; eauto.
  - specialize (H n). rewrite H0 in H. auto.
Qed.

(* frame rule for clause (ii): nodes outside T keep their requirement because nothing they look at
   changed (or only got disconnected); nodes in T are the caller's obligation *)
Lemma types_frame : forall g g' (T : list N),
  types_ok g ->
  (forall n, ~ In n T ->
     (forall i, tin_at g' n i = None \/ tin_at g' n i = tin_at g n i) /\
     (forall o, otype g' (n, o) = otype g (n, o)) /\
     (req_of g' n = req_of g n \/ req_of g' n = None)) ->
  forallb (node_ok_at g') T = true ->
  types_ok g'.
Proof.
  intros g g' T H HF HT. apply types_ok_at. intros n.
  destruct (in_dec N.eq_dec n T) as [Hin|Hin].
  - rewrite forallb_forall in HT. auto.
  - destruct (HF n Hin) as (Hi & Ho & [Hr|Hr]).
    + eapply node_ok_at_mono; eauto. apply types_ok_at; auto.
    + unfold node_ok_at. unfold req_of in Hr. destruct (getn g' n); auto. discriminate.
Qed.
