(* C16 -- what is FALSE for the faithful model (witnesses), so that the hypotheses of the positive
   theorems are seen to be necessary:
   * stall withdraws a waiting beat when its condition rises (DESIGN Q5; by design),
   * reduceWidth without producer hold delivers sub-beats of a beat that is never accepted,
   * reduceWidth runs ahead of the accepted input even with a conformant producer (so "delivered is a
     prefix of unpack(accepted)" is false; the true statement includes the beat on offer),
   * extendWidth drops an eop that is not on the last member of a group,
   * a blocking register in front of reduceWidth never accepts anything (documented restriction of
     regDownstreamBlocking). *)
From Coq Require Import List NArith Bool Arith Lia.
From Gatery Require Import StreamDefs StreamSpec StreamCompose StreamStages StreamHold StreamLive.
Import ListNotations.

Definition bt (v : bool) (d : list N) (e : bool) (m : N) : beat := mkBeat v d e m.

(* ------------------------------------------------------------------ stall *)
Definition stall_witness : list cyc :=
  [ mkCyc [false] (bt true [5%N] false 1%N) false;      (* beat offered, consumer not ready: it waits *)
    mkCyc [true]  (bt true [5%N] false 1%N) false ].     (* condition rises: valid is withdrawn *)

Lemma stall_hold_refuted_w :
  holdW (inW (trace (stallS 0) stall_witness)) /\ ~ holdW (outW (trace (stallS 0) stall_witness)).
Proof.
  split.
  - vm_compute. split; [|exact I]. intros _ _. split; reflexivity.
  - vm_compute. intros [H _]. destruct (H eq_refl eq_refl) as [H1 _]. discriminate H1.
Qed.

Lemma stall_not_HoldU : ~ HoldU (stallS 0).
Proof.
  intro H. destruct stall_hold_refuted_w as [_ N]. apply N. apply (holdU_traceFrom _ H).
Qed.

(* the transfer sequence is nevertheless untouched: see stall_inv (Tin = Tout always) *)

(* ------------------------------------------------------------------ reduceWidth without producer hold *)
Definition reduce_nohold_witness : list cyc :=
  [ mkCyc [] (bt true [1%N; 2%N] false 0%N) true;      (* A offered: sub-beat 1 delivered, A not yet accepted *)
    mkCyc [] (bt false [1%N; 2%N] false 0%N) true;     (* producer withdraws A (protocol violation) *)
    mkCyc [] (bt true [3%N; 4%N] true 7%N) true;       (* B offered: sub-beat 3 *)
    mkCyc [] (bt true [3%N; 4%N] true 7%N) true ].     (* sub-beat 4, B accepted *)

Lemma reduce_nohold_run :
  Tin (trace (reduceS 2) reduce_nohold_witness) = [ ([3%N; 4%N], true, 7%N) ] /\
  Tout (trace (reduceS 2) reduce_nohold_witness) = [ ([1%N], false, 0%N); ([3%N], false, 7%N); ([4%N], true, 7%N) ].
Proof. split; vm_compute; reflexivity. Qed.

Lemma reduce_nohold_refuted_w : forall l,
  ~ prefix (Tout (trace (reduceS 2) reduce_nohold_witness)) (unpack 2 (Tin (trace (reduceS 2) reduce_nohold_witness) ++ l)).
Proof.
  intros l [t H]. destruct reduce_nohold_run as [E1 E2]. rewrite E1, E2 in H.
  rewrite unpack_app in H. vm_compute in H. discriminate H.
Qed.

(* ------------------------------------------------------------------ reduceWidth is ahead of its input *)
Definition reduce_ahead_witness : list cyc := [ mkCyc [] (bt true [1%N; 2%N] false 0%N) true ].

Lemma reduce_ahead_w :
  EHold (reduceS 2) reduce_ahead_witness /\
  Tin (trace (reduceS 2) reduce_ahead_witness) = [] /\
  Tout (trace (reduceS 2) reduce_ahead_witness) = [ ([1%N], false, 0%N) ] /\
  ~ Strong (reduceS 2) (EHold (reduceS 2)) (unpack 2).
Proof.
  assert (H : EHold (reduceS 2) reduce_ahead_witness) by (vm_compute; exact I).
  repeat split; try exact H; try (vm_compute; reflexivity).
  intro S. specialize (S _ H). destruct S as [t Ht]. vm_compute in Ht. discriminate Ht.
Qed.

(* ------------------------------------------------------------------ extendWidth and unaligned eop *)
Definition extend_eop_witness : list cyc :=
  [ mkCyc [] (bt true [1%N] true 3%N) true;        (* one-beat packet: eop on the FIRST member of the group *)
    mkCyc [] (bt true [2%N] false 4%N) true ].      (* first beat of the next packet, packed into the same wide beat *)

Lemma extend_unaligned_eop_w :
  Tin (trace (extendS 2) extend_eop_witness) = [ ([1%N], true, 3%N); ([2%N], false, 4%N) ] /\
  Tout (trace (extendS 2) extend_eop_witness) = [ ([1%N; 2%N], false, 4%N) ].
Proof. split; vm_compute; reflexivity. Qed.

(* ------------------------------------------------------------------ blocking register before reduceWidth *)
Definition always_offer : cyc := mkCyc [] (bt true [1%N; 2%N] false 0%N) true.

Lemma block_reduce_stuck : forall n s,
  s = init (compose blockS (reduceS 2)) ->
  Tin (traceFrom (compose blockS (reduceS 2)) s (repeat always_offer n)) = [] /\
  Tout (traceFrom (compose blockS (reduceS 2)) s (repeat always_offer n)) = [].
Proof.
  induction n as [|n IH]; intros s ->; [split; reflexivity|].
  cbn [repeat traceFrom].
  destruct (IH (stepS (compose blockS (reduceS 2)) (init (compose blockS (reduceS 2))) always_offer) eq_refl) as [I1 I2].
  unfold Tin, Tout in *. cbn [flat_map]. rewrite I1, I2. split; reflexivity.
Qed.

Lemma block_reduce_deadlock_w : forall n,
  Tin (trace (compose blockS (reduceS 2)) (repeat always_offer n)) = [] /\
  count_rdy (repeat always_offer n) = n.
Proof.
  intro n. split.
  - apply (block_reduce_stuck n _ eq_refl).
  - induction n; [reflexivity|]. unfold count_rdy in *; simpl. now rewrite IHn.
Qed.
