(* C16 -- liveness of the register stages: every beat accepted so far has been delivered as soon as
   the consumer has been ready in d further cycles (d = 1 for the single registers, 2 for
   regDecouple, n for delay n), whatever the producer does meanwhile. *)
From Coq Require Import List NArith Bool Arith Lia.
From Gatery Require Import StreamDefs StreamSpec StreamCompose StreamStages.
Import ListNotations.

Definition count_rdy (cs : list cyc) : nat := length (filter c_rdy cs).

Lemma count_rdy_app : forall a b, count_rdy (a ++ b) = count_rdy a + count_rdy b.
Proof. intros; unfold count_rdy; now rewrite filter_app, app_length. Qed.

Definition Live (S : stage) (d : nat) : Prop :=
  forall cs1 cs2, d <= count_rdy cs2 ->
    length (Tin (trace S cs1)) <= length (Tout (trace S (cs1 ++ cs2))).

Lemma Live_weaken : forall S d d', d <= d' -> Live S d -> Live S d'.
Proof. intros S d d' H L cs1 cs2 Hc; apply L; lia. Qed.

(* ------------------------------------------------------------------ work conserving flight stages *)
Section LiveFlight.
Variable S : stage.
Variable fl : st S -> list xfer.
Variable cap : nat.
Hypothesis fl_init : fl (init S) = [].
Hypothesis fl_step : forall s c, fl s ++ xin (evAt S s c) = xout (evAt S s c) ++ fl (stepS S s c).
Hypothesis fl_cap : forall s, length (fl s) <= cap.
(* work conserving: something in flight and the consumer ready => a transfer at the output *)
Hypothesis fl_wc : forall s c, fl s <> [] -> c_rdy c = true -> xout (evAt S s c) <> [].

Lemma xout_not_rdy : forall s c, c_rdy c = false -> xout (evAt S s c) = [].
Proof. intros s c H; unfold xout, evAt; simpl. rewrite H. now rewrite andb_false_r. Qed.

Lemma drain : forall cs s k, k <= length (fl s) -> k <= count_rdy cs -> k <= length (Tout (traceFrom S s cs)).
Proof.
  induction cs as [|c cs IH]; intros s k Hk Hc.
  - unfold count_rdy in Hc; simpl in Hc; lia.
  - destruct k as [|k]; [lia|].
    cbn [traceFrom]. change (Tout (evAt S s c :: traceFrom S (stepS S s c) cs))
      with (xout (evAt S s c) ++ Tout (traceFrom S (stepS S s c) cs)).
    rewrite app_length.
    pose proof (f_equal (@length _) (fl_step s c)) as L. rewrite !app_length in L.
    pose proof (xin_length (evAt S s c)). pose proof (xout_length (evAt S s c)).
    unfold count_rdy in Hc. simpl in Hc. destruct (c_rdy c) eqn:Er.
    + simpl in Hc. assert (N : fl s <> []) by (destruct (fl s); [simpl in Hk; lia | discriminate]).
      pose proof (fl_wc s c N Er) as W.
      assert (length (xout (evAt S s c)) = 1) by (destruct (xout (evAt S s c)) as [|? [|? ?]]; simpl in *; [congruence | reflexivity | lia]).
      specialize (IH (stepS S s c) k). unfold count_rdy in IH. lia.
    + rewrite (xout_not_rdy s c Er) in *. simpl in *.
      specialize (IH (stepS S s c) (Datatypes.S k)). unfold count_rdy in IH. lia.
Qed.

Lemma live_flight : Live S cap.
Proof.
  intros cs1 cs2 Hc. rewrite trace_app, Tout_app, app_length.
  rewrite (flight_inv S fl fl_init fl_step cs1), app_length.
  pose proof (fl_cap (after S cs1)).
  pose proof (drain cs2 (after S cs1) (length (fl (after S cs1))) (le_n _)). lia.
Qed.
End LiveFlight.

Lemma regDown_Live : Live regDownS 1.
Proof.
  apply (live_flight regDownS fl_reg); [reflexivity | apply regDown_step | apply fl_reg_cap|].
  intros s [ctl b r] N Hr. simpl in Hr. subst r. unfold fl_reg in N. unfold xout, evAt; simpl.
  destruct (bvalid s); [discriminate | congruence].
Qed.

Lemma block_Live : Live blockS 1.
Proof.
  apply (live_flight blockS fl_reg); [reflexivity | apply block_step | apply fl_reg_cap|].
  intros s [ctl b r] N Hr. simpl in Hr. subst r. unfold fl_reg in N. unfold xout, evAt; simpl.
  destruct (bvalid s); [discriminate | congruence].
Qed.

Lemma ready_Live : Live readyS 1.
Proof.
  apply (live_flight readyS fl_ready); [reflexivity | apply ready_step | apply fl_ready_cap|].
  intros [vr d] [ctl b r] N Hr. simpl in Hr. subst r. unfold fl_ready in N. unfold xout, evAt; simpl.
  destruct vr; simpl in *; [discriminate | congruence].
Qed.

Lemma id_Live : Live idS 0.
Proof.
  apply (live_flight idS fl_id); [reflexivity | apply id_step | intros; simpl; lia|].
  intros s c N; now elim N.
Qed.

(* regDecouple: flight = skid buffer contents, then the blocking register *)
Definition fl_dec (s : st decoupleS) : list xfer := fl_ready (snd s) ++ fl_reg (fst s).

Lemma flight_compose_step : forall A B (fa : st A -> list xfer) (fb : st B -> list xfer),
  (forall s c, fa s ++ xin (evAt A s c) = xout (evAt A s c) ++ fa (stepS A s c)) ->
  (forall s c, fb s ++ xin (evAt B s c) = xout (evAt B s c) ++ fb (stepS B s c)) ->
  forall (s : st (compose A B)) c,
    (fb (snd s) ++ fa (fst s)) ++ xin (evAt (compose A B) s c) =
    xout (evAt (compose A B) s c) ++ (fb (snd (stepS (compose A B) s c)) ++ fa (fst (stepS (compose A B) s c))).
Proof.
  intros A B fa fb HA HB [sa sb] c. rewrite step_compose. cbn [fst snd].
  destruct (xio_compose A B sa sb c) as (X1 & X2 & X3 & _).
  rewrite X1, X2, <- app_assoc, HA, app_assoc, X3, HB, <- app_assoc. reflexivity.
Qed.

Lemma decouple_Live : Live decoupleS 2.
Proof.
  apply (live_flight decoupleS fl_dec).
  - reflexivity.
  - intros s c. apply (flight_compose_step blockS readyS fl_reg fl_ready block_step ready_step).
  - intros [sa [vr d]]. unfold fl_dec, fl_ready, fl_reg; simpl. destruct vr, (bvalid sa); simpl; lia.
  - intros [sa [vr d]] [ctl b r] N Hr. simpl in Hr. subst r.
    unfold fl_dec, fl_ready, fl_reg in N. unfold xout, evAt; simpl in *.
    destruct vr; simpl in *; [discriminate|]. destruct (bvalid sa); simpl in *; [discriminate | congruence].
Qed.

(* ------------------------------------------------------------------ composition with a ready-transparent tail *)
Definition RT (S : stage) : Prop := forall s ctl b, bwd S s ctl b true = true.

Lemma RT_id : RT idS. Proof. intros s ctl b; reflexivity. Qed.
Lemma RT_block : RT blockS. Proof. intros s ctl b; reflexivity. Qed.
Lemma RT_regDown : RT regDownS. Proof. intros s ctl b; reflexivity. Qed.

Lemma split_count : forall cs n, n <= count_rdy cs ->
  exists c1 c2, cs = c1 ++ c2 /\ count_rdy c1 = n.
Proof.
  induction cs as [|c cs IH]; intros n H.
  - exists [], []; unfold count_rdy in *; simpl in *; split; [reflexivity | lia].
  - destruct n as [|n]; [exists [], (c :: cs); split; reflexivity|].
    unfold count_rdy in H; simpl in H. destruct (c_rdy c) eqn:Er; simpl in H.
    + destruct (IH n) as (c1 & c2 & -> & Hc); [unfold count_rdy; lia|].
      exists (c :: c1), c2. split; [reflexivity|]. unfold count_rdy in *; simpl; rewrite Er; simpl; lia.
    + destruct (IH (S n)) as (c1 & c2 & -> & Hc); [unfold count_rdy; lia|].
      exists (c :: c1), c2. split; [reflexivity|]. unfold count_rdy in *; simpl; rewrite Er; simpl; lia.
Qed.

Section LiveCompose.
Variables A B : stage.

Lemma count_midcsFrom : forall cs sa sb, count_rdy (midcsFrom A B sa sb cs) = count_rdy cs.
Proof.
  induction cs as [|c cs IH]; intros; [reflexivity|].
  unfold count_rdy in *; cbn [midcsFrom filter]. unfold midc at 1; simpl.
  destruct (c_rdy c); simpl; now rewrite IH.
Qed.

Lemma count_upcsFrom : RT B -> forall cs sa sb, count_rdy cs <= count_rdy (upcsFrom A B sa sb cs).
Proof.
  intros HB cs; induction cs as [|c cs IH]; intros; [unfold count_rdy; simpl; lia|].
  unfold count_rdy in *; cbn [upcsFrom filter]. unfold upc at 1; simpl.
  specialize (IH (stepS A sa (upc A B sa sb c)) (stepS B sb (midc A B sa sb c))).
  destruct (c_rdy c) eqn:Er; simpl.
  - rewrite HB. simpl. lia.
  - destruct (bwd B sb (c_ctl c) _ false); simpl; lia.
Qed.

Theorem Live_compose : forall dA dB, Live A dA -> Live B dB -> RT B -> Live (compose A B) (dA + dB).
Proof.
  intros dA dB LA LB HB cs1 cs2 Hc.
  destruct (split_count cs2 dA ltac:(lia)) as (c2a & c2b & -> & Ha).
  rewrite count_rdy_app in Hc.
  rewrite Tin_compose, Tout_compose.
  rewrite app_assoc.
  (* A has delivered everything it accepted during cs1 once c2a is over *)
  assert (S1 : length (Tin (trace A (upcs A B cs1))) <= length (Tin (trace B (midcs A B (cs1 ++ c2a))))).
  { rewrite <- Tmid_compose. rewrite upcs_app. apply LA.
    pose proof (count_upcsFrom HB c2a (after A (upcs A B cs1)) (after B (midcs A B cs1))). lia. }
  (* and B has passed that on once c2b is over *)
  assert (S2 : length (Tin (trace B (midcs A B (cs1 ++ c2a)))) <= length (Tout (trace B (midcs A B ((cs1 ++ c2a) ++ c2b))))).
  { rewrite (midcs_app A B (cs1 ++ c2a) c2b). apply LB. rewrite count_midcsFrom. lia. }
  lia.
Qed.

Lemma RT_compose : RT A -> RT B -> RT (compose A B).
Proof. intros HA HB [sa sb] ctl b. simpl. now rewrite HB, HA. Qed.
End LiveCompose.

Lemma blocks_Live : forall n, Live (blocksS n) n.
Proof.
  induction n as [|n IH]; [apply id_Live|].
  apply Live_weaken with (d := n + 1); [lia|].
  apply (Live_compose (blocksS n) blockS n 1); [exact IH | apply block_Live | apply RT_block].
Qed.

Lemma delay_Live : forall n, Live (delayS n) n.
Proof.
  intros [|n]; [apply id_Live|].
  apply Live_weaken with (d := n + 1); [lia|].
  apply (Live_compose (blocksS n) regDownS n 1); [apply blocks_Live | apply regDown_Live | apply RT_regDown].
Qed.
