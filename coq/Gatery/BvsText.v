(* C18 -- proofs, part 12: formatting / parsing.
   * operator<< (binary branch) prints exactly the 0/1/X view of the bit array, MSB first;
   * formatState(base 16) prints the hex digit string of the array;
   * regression examples for the two repaired text-level defects (decimal digits in formatState,
     long octal literals), and the witness that abs_resize needs its `clean` hypothesis. *)
From Coq Require Import List NArith ZArith Bool Lia Ascii String.
From Gatery Require Import Bits BvsDefs BvsSpec BvsLeaf BvsWords BvsCopy BvsAbs BvsOps BvsEq BvsQuery.
Import ListNotations.
Local Open Scope N_scope.

(* ---- operator<< in binary ---- *)
Definition tchar (t : tbit) : ascii :=
  match t with BX => "X"%char | B1 => "1"%char | B0 => "0"%char end.
Definition print_spec (a : sst) : list ascii :=
  rev (map tchar (tbits (splane a VALUE) (splane a DEFINED))).

Lemma map_ext_seq {A} (f g : nat -> A) n :
  (forall i, (i < n)%nat -> f i = g i) -> map f (seq 0 n) = map g (seq 0 n).
Proof. intro H. apply map_ext_in. intros i Hi. apply in_seq in Hi. apply H. lia. Qed.

Theorem printState_bin_abs s :
  wf s -> (DEFINED < length (planes s))%nat ->
  printState false s = print_spec (abs s).
Proof.
  intros H Hp. unfold printState, print_spec. cbn [andb]. unfold down_from.
  rewrite map_rev. f_equal.
  unfold nrange. replace (bsize s - 0) with (bsize s) by lia. rewrite nrange_from_map.
  rewrite map_map.
  unfold VALUE, DEFINED in *.
  assert (L0 : length (splane (abs s) 0) = N.to_nat (bsize s)) by (apply length_splane_abs; lia).
  assert (L1 : length (splane (abs s) 1) = N.to_nat (bsize s)) by (apply length_splane_abs; lia).
  apply (nth_ext _ _ "0"%char "0"%char).
  - rewrite !map_length, seq_length. unfold tbits. rewrite length_map2. lia.
  - intros i Hi. rewrite map_length, seq_length in Hi.
    rewrite (nth_indep _ "0"%char (bitChar s (0 + N.of_nat 0))) by (rewrite map_length, seq_length; lia).
    rewrite (map_nth (fun i => bitChar s (0 + N.of_nat i))), seq_nth by lia.
    change "0"%char with (tchar B0) at 1. rewrite map_nth.
    unfold tbits. change B0 with (of_planes false true).
    rewrite nth_map2 by lia.
    unfold bitChar. unfold VALUE, DEFINED.
    rewrite !get_sbit by lia. unfold sbit.
    replace (N.to_nat (0 + N.of_nat (0 + i))) with i by lia.
    destruct (nth i (splane (abs s) 1) true) eqn:D1; destruct (nth i (splane (abs s) 1) false) eqn:D2;
      rewrite (nth_indep _ true false) in D1 by lia; try congruence;
      destruct (nth i (splane (abs s) 0) false); reflexivity.
Qed.

(* ---- formatState in base 16 (without dropLeadingZeros): one hex digit per nibble of the bit
        array, most significant nibble first; 'X' if any of the four bits is undefined.
        (Before /repo b90a265 nibbles above 9 were printed as two decimal digits, which made
        0x00AB / 0x1011 and 0x1A0 / 0xB00 print alike; see the regression examples below.) ---- *)
Definition hexdigit_spec (a : sst) (k : nat) : ascii :=          (* nibble k, counted from bit 0 *)
  let v j := sbit a VALUE (4 * k + j) in
  let d j := sbit a DEFINED (4 * k + j) in
  if d 0%nat && d 1%nat && d 2%nat && d 3%nat
  then hex_upper (N_of_bits [v 0%nat; v 1%nat; v 2%nat; v 3%nat]) else "X"%char.
Definition formatHex_spec (a : sst) : list ascii :=
  rev (map (hexdigit_spec a) (seq 0 (slen a / 4))).

Lemma nth_map_seq' {A} (f : nat -> A) n k d : (k < n)%nat -> nth k (map f (seq 0 n)) d = f k.
Proof.
  intro H. rewrite (nth_indep _ d (f 0%nat)) by (rewrite map_length, seq_length; lia).
  rewrite map_nth, seq_nth by lia. reflexivity.
Qed.

Lemma rev_map_seq {A} (f : nat -> A) n :
  rev (map f (seq 0 n)) = map (fun i => f (n - 1 - i)%nat) (seq 0 n).
Proof.
  destruct n as [|m]; [reflexivity|].
  apply (nth_ext _ _ (f 0%nat) (f 0%nat)).
  - rewrite rev_length, !map_length. reflexivity.
  - intros i Hi. rewrite rev_length, map_length, seq_length in Hi.
    rewrite rev_nth by (rewrite map_length, seq_length; lia).
    rewrite map_length, seq_length.
    rewrite !nth_map_seq' by lia. f_equal. lia.
Qed.

Lemma nibble_abs s i :
  wf s -> (DEFINED < length (planes s))%nat -> bsize s mod 4 = 0 -> i < bsize s / 4 ->
  (if negb (fst (nibble s i)) then "X"%char else hex_upper (snd (nibble s i)))
  = hexdigit_spec (abs s) (N.to_nat (bsize s / 4 - 1 - i)).
Proof.
  intros W P M Hi. unfold nibble, hexdigit_spec.
  change (nrange 0 4) with [0; 1; 2; 3]. cbn [fold_left fst snd].
  unfold VALUE, DEFINED in *.
  rewrite !get_sbit by lia.
  set (k := N.to_nat (bsize s / 4 - 1 - i)).
  replace (N.to_nat (bsize s - 1 - i * 4 - 0)) with (4 * k + 3)%nat by lia.
  replace (N.to_nat (bsize s - 1 - i * 4 - 1)) with (4 * k + 2)%nat by lia.
  replace (N.to_nat (bsize s - 1 - i * 4 - 2)) with (4 * k + 1)%nat by lia.
  replace (N.to_nat (bsize s - 1 - i * 4 - 3)) with (4 * k + 0)%nat by lia.
  destruct (sbit (abs s) 1 (4 * k + 0)), (sbit (abs s) 1 (4 * k + 1)),
           (sbit (abs s) 1 (4 * k + 2)), (sbit (abs s) 1 (4 * k + 3)); try reflexivity.
  destruct (sbit (abs s) 0 (4 * k + 0)), (sbit (abs s) 0 (4 * k + 1)),
           (sbit (abs s) 0 (4 * k + 2)), (sbit (abs s) 0 (4 * k + 3)); reflexivity.
Qed.

Theorem formatState_hex_abs s :
  wf s -> (DEFINED < length (planes s))%nat -> bsize s mod 4 = 0 ->
  formatState s 16 false = formatHex_spec (abs s).
Proof.
  intros W P M. unfold formatState. change (16 =? 16) with true. rewrite M. cbn [andb N.eqb].
  set (G := fun i => if negb (fst (nibble s i)) then "X"%char else hex_upper (snd (nibble s i))).
  assert (F : forall l acc,
            snd (fold_left (fun (st : bool * list ascii) i =>
                   let n := nibble s i in
                   if negb (fst st) || negb (snd n =? 0) || (bsize s / 4 <=? i + 1)
                   then (false, snd st ++ [if negb (fst n) then "X"%char else hex_upper (snd n)])
                   else st) l (false, acc)) = acc ++ map G l).
  { induction l as [|i l IH]; intro acc; cbn [fold_left map].
    - rewrite app_nil_r. reflexivity.
    - cbn [fst snd negb orb]. rewrite IH, <- app_assoc. reflexivity. }
  rewrite F. cbn [app]. unfold formatHex_spec.
  assert (El : slen (abs s) = N.to_nat (bsize s)).
  { unfold slen. unfold DEFINED in P. apply length_splane_abs. lia. }
  rewrite El, rev_map_seq.
  unfold nrange. rewrite nrange_from_map, map_map. replace (bsize s / 4 - 0) with (bsize s / 4) by lia.
  replace (N.to_nat (bsize s) / 4)%nat with (N.to_nat (bsize s / 4)).
  2:{ rewrite N2Nat.inj_div. reflexivity. }
  apply map_ext_in. intros i Hi. apply in_seq in Hi.
  unfold G. rewrite nibble_abs by (try assumption; lia). f_equal. lia.
Qed.

(* regression examples for the repaired defect: these pairs used to print alike *)
Definition st_defined (size v : N) : bvs := {| bsize := size; planes := [[v]; [N.ones size]] |}.
Example formatState_hex_regression :
  formatState (st_defined 16 171) 16 true = list_ascii_of_string "AB"
  /\ formatState (st_defined 16 4113) 16 true = list_ascii_of_string "1011"
  /\ formatState (st_defined 12 416) 16 false = list_ascii_of_string "1A0"
  /\ formatState (st_defined 12 2816) 16 false = list_ascii_of_string "B00"
  /\ formatState (st_defined 16 171) 16 false = list_ascii_of_string "00AB".
Proof. repeat split; vm_compute; reflexivity. Qed.

(* ---- regression examples for the repaired octal defect (/repo 659d324): literals of 22 and more
        octal digits (digit 21 occupies bits 63..65, digit 42 bits 126..128) parse; the general
        statement for any number of digits is BvsParse.parse_octal_literal ---- *)
Example parse_octal_long_regression :
  option_map bsize (parseBitVector (list_ascii_of_string "o0000000000000000000000")) = Some 66
  /\ option_map (fun s => print_spec (abs s)) (parseBitVector (list_ascii_of_string "66o7000000000000000000001"))
     = Some (list_ascii_of_string "111000000000000000000000000000000000000000000000000000000000000001")
  /\ option_map (fun s => print_spec (abs s)) (parseBitVector (list_ascii_of_string "o5x000000000000000000003"))
     = Some (list_ascii_of_string "101XXX000000000000000000000000000000000000000000000000000000000000011")
  /\ option_map bsize (parseBitVector (list_ascii_of_string "o1234567012345670123456701234567012345670123")) = Some 129.
Proof. repeat split; vm_compute; reflexivity. Qed.

(* ---- the `clean` hypothesis of abs_resize is necessary: a representation whose last word carries
        bits above `size` is well-formed and equal (operator==) to its cleaned copy, and yet growing
        both by resize gives different containers.  No modelled operation produces such a state
        (every one preserves `clean`, see BvsSeq.step_correct); writing whole words through data()
        does, which is why createRandom*DefaultBitVectorState re-mask with resize() since /repo 0690f16
        (regression-probed by the harness on every run). ---- *)
Definition st_dirty : bvs := {| bsize := 10; planes := [[0x7FF]; [N.ones 64]] |}.
Definition st_cleaned : bvs := {| bsize := 10; planes := [[0x3FF]; [0x3FF]] |}.

Theorem resize_clean_hypothesis_necessary :
  wf st_dirty /\ wf st_cleaned /\ abs st_dirty = abs st_cleaned /\ eqS st_dirty st_cleaned = true
  /\ abs (resize st_dirty 20) <> resize_spec (abs st_dirty) 20
  /\ eqS (resize st_dirty 20) (resize st_cleaned 20) = false.
Proof.
  assert (W : forall a b, a < 2 ^ 64 -> b < 2 ^ 64 -> wf {| bsize := 10; planes := [[a]; [b]] |}).
  { intros a b Ha Hb. unfold wf. cbn [bsize planes]. repeat constructor; assumption. }
  repeat split.
  - apply W; reflexivity.
  - apply W; reflexivity.
  - vm_compute. discriminate.
Qed.

(* positive sanity: a few literals parse to the expected 0/1/X arrays *)
Example parse_examples :
  option_map (fun s => print_spec (abs s)) (parseBitVector (list_ascii_of_string "b10X1"))
    = Some (list_ascii_of_string "10X1")
  /\ option_map (fun s => print_spec (abs s)) (parseBitVector (list_ascii_of_string "8xAx"))
    = Some (list_ascii_of_string "1010XXXX")
  /\ option_map (fun s => print_spec (abs s)) (parseBitVector (list_ascii_of_string "6d5"))
    = Some (list_ascii_of_string "000101")
  /\ parseBitVector (list_ascii_of_string "3xFF") = None.
Proof. repeat split; vm_compute; reflexivity. Qed.
