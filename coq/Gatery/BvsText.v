(* C18 -- proofs, part 12: formatting / parsing.
   * operator<< (binary branch) prints exactly the 0/1/X view of the bit array, MSB first;
   * two witnesses that the real behaviour (which the model follows faithfully, and which the
     harness confirms on the real library on every run) deviates from "the same operation on an
     array of bits":
       - formatState(base 16) is ambiguous (nibble values 10..15 are printed in decimal),
       - parseBitVector rejects valid octal literals of 22 or more digits. *)
From Coq Require Import List NArith ZArith Bool Lia Ascii String.
From Gatery Require Import Bits BvsDefs BvsSpec BvsLeaf BvsWords BvsCopy BvsAbs BvsOps BvsEq BvsQuery.
Import ListNotations.
Local Open Scope N_scope.

(* ---- operator<< in binary ---- *)
Definition tchar (t : tbit) : ascii :=
  match t with BX => "X"%char | B1 => "1"%char | B0 => "0"%char end.
Definition print_spec (a : sst) : list ascii :=
  rev (map tchar (tbits (splane a VALUE) (splane a DEFINED))).

Lemma map_ext_seq {A} (f g : nat -> A) n :
  (forall i, (i < n)%nat -> f i = g i) -> map f (seq 0 n) = map g (seq 0 n).
Proof. intro H. apply map_ext_in. intros i Hi. apply in_seq in Hi. apply H. lia. Qed.

Theorem printState_bin_abs s :
  wf s -> (DEFINED < length (planes s))%nat ->
  printState false s = print_spec (abs s).
Proof.
  intros H Hp. unfold printState, print_spec. cbn [andb]. unfold down_from.
  rewrite map_rev. f_equal.
  unfold nrange. replace (bsize s - 0) with (bsize s) by lia. rewrite nrange_from_map.
  rewrite map_map.
  unfold VALUE, DEFINED in *.
  assert (L0 : length (splane (abs s) 0) = N.to_nat (bsize s)) by (apply length_splane_abs; lia).
  assert (L1 : length (splane (abs s) 1) = N.to_nat (bsize s)) by (apply length_splane_abs; lia).
  apply (nth_ext _ _ "0"%char "0"%char).
  - rewrite !map_length, seq_length. unfold tbits. rewrite length_map2. lia.
  - intros i Hi. rewrite map_length, seq_length in Hi.
    rewrite (nth_indep _ "0"%char (bitChar s (0 + N.of_nat 0))) by (rewrite map_length, seq_length; lia).
    rewrite (map_nth (fun i => bitChar s (0 + N.of_nat i))), seq_nth by lia.
    change "0"%char with (tchar B0) at 1. rewrite map_nth.
    unfold tbits. change B0 with (of_planes false true).
    rewrite nth_map2 by lia.
    unfold bitChar. unfold VALUE, DEFINED.
    rewrite !get_sbit by lia. unfold sbit.
    replace (N.to_nat (0 + N.of_nat (0 + i))) with i by lia.
    destruct (nth i (splane (abs s) 1) true) eqn:D1; destruct (nth i (splane (abs s) 1) false) eqn:D2;
      rewrite (nth_indep _ true false) in D1 by lia; try congruence;
      destruct (nth i (splane (abs s) 0) false); reflexivity.
Qed.

(* ---- witness 1: formatState in base 16 is ambiguous ---- *)
Definition st_defined (size v : N) : bvs := {| bsize := size; planes := [[v]; [N.ones size]] |}.

Lemma wf_st_defined size v : size <= 64 -> 0 < size -> v < 2 ^ size -> wf (st_defined size v).
Proof.
  intros Hs H0 Hv. unfold wf, st_defined. cbn [bsize planes].
  assert (P : 2 ^ size <= 2 ^ 64) by (apply N.pow_le_mono_r; lia).
  repeat constructor; unfold wlen; cbn [length]; try lia.
  - unfold lt64. lia.
  - unfold lt64. rewrite N.ones_equiv. assert (0 < 2 ^ size) by (apply N.neq_0_lt_0, N.pow_nonzero; discriminate). lia.
Qed.

(* two different, fully defined 12-bit values (0x1A0 and 0xB00) print as the same text "1100",
   with dropLeadingZeros = false; and 0x00AB / 0x1011 (16 bit) both print as "1011" with it set *)
Theorem formatState_hex_ambiguous_refuted :
  (wf (st_defined 12 416) /\ wf (st_defined 12 2816)
   /\ abs (st_defined 12 416) <> abs (st_defined 12 2816)
   /\ formatState (st_defined 12 416) 16 false = formatState (st_defined 12 2816) 16 false)
  /\ (abs (st_defined 16 171) <> abs (st_defined 16 4113)
      /\ formatState (st_defined 16 171) 16 true = formatState (st_defined 16 4113) 16 true
      /\ formatState (st_defined 16 171) 16 true = list_ascii_of_string "1011").
Proof.
  split; [split; [|split; [|split]] | split; [|split]].
  - apply wf_st_defined; [lia | lia | reflexivity].
  - apply wf_st_defined; [lia | lia | reflexivity].
  - vm_compute. discriminate.
  - vm_compute. reflexivity.
  - vm_compute. discriminate.
  - vm_compute. reflexivity.
  - vm_compute. reflexivity.
Qed.

(* ---- witness 2: a valid 22-digit octal literal is rejected (assertion in insertNonStraddling:
        digit 21 occupies bits 63..65), 21 digits are accepted ---- *)
Theorem parse_octal_22_digits_refuted :
  parseBitVector (list_ascii_of_string "o0000000000000000000000") = None
  /\ parseBitVector (list_ascii_of_string "66o1234567012345670123456") = None
  /\ (exists s, parseBitVector (list_ascii_of_string "o000000000000000000000") = Some s /\ bsize s = 63).
Proof.
  split; [|split].
  - vm_compute. reflexivity.
  - vm_compute. reflexivity.
  - eexists. split; vm_compute; reflexivity.
Qed.

(* ---- witness 3: the `clean` hypothesis of abs_resize is necessary.  A representation whose last
        word carries bits above `size` (exactly what createRandomDefaultBitVectorState /
        createDefinedRandomDefaultBitVectorState produce: they fill whole words) is well-formed,
        equal (operator==) to its cleaned copy, and yet growing both by resize gives different
        containers: resize exposes the stale bits instead of zeros. ---- *)
Definition st_dirty : bvs := {| bsize := 10; planes := [[0x7FF]; [N.ones 64]] |}.
Definition st_cleaned : bvs := {| bsize := 10; planes := [[0x3FF]; [0x3FF]] |}.

Theorem resize_exposes_stale_tail_refuted :
  wf st_dirty /\ wf st_cleaned /\ abs st_dirty = abs st_cleaned /\ eqS st_dirty st_cleaned = true
  /\ abs (resize st_dirty 20) <> resize_spec (abs st_dirty) 20
  /\ eqS (resize st_dirty 20) (resize st_cleaned 20) = false.
Proof.
  assert (W : forall a b, a < 2 ^ 64 -> b < 2 ^ 64 -> wf {| bsize := 10; planes := [[a]; [b]] |}).
  { intros a b Ha Hb. unfold wf. cbn [bsize planes]. repeat constructor; assumption. }
  repeat split.
  - apply W; reflexivity.
  - apply W; reflexivity.
  - vm_compute. discriminate.
Qed.

(* positive sanity: a few literals parse to the expected 0/1/X arrays *)
Example parse_examples :
  option_map (fun s => print_spec (abs s)) (parseBitVector (list_ascii_of_string "b10X1"))
    = Some (list_ascii_of_string "10X1")
  /\ option_map (fun s => print_spec (abs s)) (parseBitVector (list_ascii_of_string "8xAx"))
    = Some (list_ascii_of_string "1010XXXX")
  /\ option_map (fun s => print_spec (abs s)) (parseBitVector (list_ascii_of_string "6d5"))
    = Some (list_ascii_of_string "000101")
  /\ parseBitVector (list_ascii_of_string "3xFF") = None.
Proof. repeat split; vm_compute; reflexivity. Qed.
