(* C15 -- the stream wrapper strm::fifo (source/gatery/scl/stream/streamFifo.h) around the
   single-clock scl::Fifo machine of FifoDefs.v.

     StreamT fifo(StreamT&& in_, Fifo& instance, FifoLatency fifoLatency)
       ret = pop(instance);                 // data = peek, valid = !empty, IF(transfer(ret)) pop()
       in <<= in_;
       if (fifoLatency == 0)                // FALL-THROUGH: bypass the FIFO while it reports empty
         IF(!valid(ret)) { downstream(ret) = downstream(in); IF(ready(ret)) valid(in) = '0'; }
       ready(in) = !instance.full();
       IF(transfer(in)) instance.push(in);

     fifo(in, minDepth, fifoLatency) builds the instance with
       Fifo inst{minDepth, payload, fifoLatency == 0 ? FifoLatency(1) : fifoLatency}
   i.e. the fall-through mode relies on the inner FIFO really having write-to-empty latency 1
   (c_lat = 1 below): the cycle after a push the empty flag must be low, otherwise the next
   beat is bypassed past the one just stored. *)
From Coq Require Import NArith List Bool Arith.
From Gatery Require Import FifoDefs.
Import ListNotations.
Open Scope N_scope.

(* what the environment drives in one cycle *)
Record sin := mkSin {
  si_valid : bool;    (* valid(in_)  *)
  si_data  : N;       (* *in_        *)
  si_ready : bool     (* ready(ret), driven by the consumer *)
}.
(* what the wrapper shows in that cycle *)
Record sout := mkSout {
  so_ready : bool;       (* ready(in_) *)
  so_valid : bool;       (* valid(ret) *)
  so_data  : option N    (* *ret       *)
}.

(* [ft] = (fifoLatency == 0) *)
Definition strm_bypass (ft : bool) (s : st) : bool := ft && s_empty s.

Definition strm_out (ft : bool) (s : st) (i : sin) : sout :=
  mkSout (negb (s_full s))
         (if strm_bypass ft s then si_valid i else negb (s_empty s))
         (if strm_bypass ft s then Some (si_data i) else s_peek s).

(* the push / pop requests the wrapper issues to the inner FIFO *)
Definition strm_event (ft : bool) (s : st) (i : sin) : event :=
  (* IF(ready(ret)) valid(in) = '0'  inside the bypass branch *)
  let inValid := if strm_bypass ft s && si_ready i then false else si_valid i in
  (* IF(transfer(in)) push(..): transfer = valid & ready(in) = valid & !full *)
  let pushReq := inValid && negb (s_full s) in
  (* pop(instance): IF(transfer(ret)) pop() was elaborated while valid(ret) was still !empty *)
  let popReq := negb (s_empty s) && si_ready i in
  mkEv true true pushReq (si_data i) popReq false false.

Definition strm_step (c : cfg) (ft : bool) (s : st) (i : sin) : st := step c s (strm_event ft s i).

Fixpoint strm_run (c : cfg) (ft : bool) (s : st) (ins : list sin) : list (sout * sin) * st :=
  match ins with
  | [] => ([], s)
  | i :: r => let (tr, s') := strm_run c ft (strm_step c ft s i) r in ((strm_out ft s i, i) :: tr, s')
  end.

(* ---------------- specification at the stream interface ---------------- *)
Definition in_fire (o : sout) (i : sin) : bool := si_valid i && so_ready o.    (* transfer(in_) *)
Definition out_fire (o : sout) (i : sin) : bool := so_valid o && si_ready i.   (* transfer(ret) *)

(* queue contents including the beat entering in this very cycle (it may leave in the same
   cycle: fall-through) *)
Definition sq_with_in (q : list N) (o : sout) (i : sin) : list N :=
  q ++ (if in_fire o i then [si_data i] else []).
Definition sq_next (q : list N) (o : sout) (i : sin) : list N :=
  if out_fire o i then tl (sq_with_in q o i) else sq_with_in q o i.

Definition sq_step_ok (cap : N) (q : list N) (o : sout) (i : sin) : Prop :=
  N.of_nat (length q) <= cap /\
  (in_fire o i = true -> N.of_nat (length q) < cap) /\
  (* valid means: the oldest beat not yet delivered is on the output, defined *)
  (so_valid o = true -> exists h, hd_error (sq_with_in q o i) = Some h /\ so_data o = Some h).

Fixpoint sq_spec (cap : N) (q : list N) (tr : list (sout * sin)) : Prop :=
  match tr with
  | [] => True
  | (o, i) :: r => sq_step_ok cap q o i /\ sq_spec cap (sq_next q o i) r
  end.

Fixpoint sq_after (q : list N) (tr : list (sout * sin)) : list N :=
  match tr with [] => q | (o, i) :: r => sq_after (sq_next q o i) r end.

Definition s_accepted (tr : list (sout * sin)) : list N :=
  flat_map (fun oi => if in_fire (fst oi) (snd oi) then [si_data (snd oi)] else []) tr.
Definition s_delivered (tr : list (sout * sin)) : list (option N) :=
  flat_map (fun oi => if out_fire (fst oi) (snd oi) then [so_data (fst oi)] else []) tr.
