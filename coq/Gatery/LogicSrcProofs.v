(* Theorems about the SOURCE-REGENERATED plane formulas of Node_Logic::simulateEvaluate
   (gen/LogicSrc.v, written by translate/C08_logicplanes.py on every check run).

   src_logic_planes_hidden_independent: as a 4-state value, the result bit of the source formulas
   depends only on the 4-state values of the operand bits - never on what the VALUE plane holds
   underneath an undefined operand bit - and it is the model's logic_bit.  Together with the
   truth-table and monotonicity theorems about logic_bit (NodeSemSpec / NodeSemRefine) this ties the
   per-bit definedness rules of C08 ("AND/OR dominance") to the current source text by proof, not by
   sampling: the domain is finite (7 operations x 16 plane combinations), the proof enumerates it. *)
From Coq Require Import Bool List.
From Gatery Require Import Bits NodeSemDefs.
From Gatery.gen Require Import LogicSrc.

Definition planes_bit (p : bool * bool) : tbit := of_planes (fst p) (snd p).

Lemma src_logic_planes_hidden_independent_proof : forall op l ld r rd,
  planes_bit (src_logic_planes op l ld r rd) = logic_bit op (of_planes l ld) (of_planes r rd).
Proof. intros [] [] [] [] []; reflexivity. Qed.

(* the transcription used by every other theorem is literally what the source says *)
Lemma src_logic_planes_is_model_proof : forall op l ld r rd,
  src_logic_planes op l ld r rd = logic_planes op l ld r rd.
Proof. intros [] [] [] [] []; reflexivity. Qed.

(* the dominance rules in the property's words *)
Lemma src_logic_dominance_proof : forall l r rd,
  planes_bit (src_logic_planes L_AND false true r rd) = B0 /\
  planes_bit (src_logic_planes L_AND l false true true) = BX /\
  planes_bit (src_logic_planes L_OR true true r rd) = B1 /\
  planes_bit (src_logic_planes L_OR l false false true) = BX /\
  planes_bit (src_logic_planes L_XOR l false r rd) = BX.
Proof. intros [] [] []; repeat split; reflexivity. Qed.
